#!/bin/sh
# Re-checks every compiled Props module (and everything it depends on) with the independent
# checker coqchk and records the context summaries (axioms, type-in-type, unsafe fixpoints,
# assumed positivity) in docs/coqchk_summary.txt.  Takes several minutes and a few GB.
cd /verif/coq || exit 2
all=$(ls Props/*.v | sed 's#Props/\(.*\)\.v#Ctg.\1#' | sort)
reals=$(echo "$all" | grep '^Ctg\.C19' | tr '\n' ' ')
rest=$(echo "$all" | grep -v '^Ctg\.C19' | tr '\n' ' ')
out=/verif/docs/coqchk_summary.txt
echo "coqchk -silent -o on the compiled Props modules (Coq 8.16.1), run $(date -u +%Y-%m-%d)" > $out
rc=0
for grp in "$rest" "$reals"; do
  echo >> $out; echo "== $grp" >> $out
  timeout 3600 coqchk -silent -o -Q Model Ctg -Q Proofs Ctg -Q Props Ctg -Q Gen Ctg $grp 2>&1 | sed -n '/CONTEXT SUMMARY/,$p' >> $out || rc=1
done
cat $out | grep -A6 "Axioms" | head -40
exit $rc

#!/usr/bin/env python3
"""regenerates /verif/MANIFEST.json from harness/registry.py and the files present"""
import json, os, sys
here = os.path.dirname(os.path.dirname(os.path.abspath(__file__)))
class registry:
    PROPS = {}
    NOT_APPLICABLE = {}
    HOOK_COMMITS = []
rd = os.path.join(here, "harness", "registry.d")
for f in sorted(os.listdir(rd)):
    if f.endswith(".json") and f[0] == "C":
        registry.PROPS[f[:-5]] = json.load(open(os.path.join(rd, f)))
if os.path.exists(os.path.join(rd, "not_applicable.json")):
    registry.NOT_APPLICABLE = json.load(open(os.path.join(rd, "not_applicable.json")))
if os.path.exists(os.path.join(rd, "hook_commits.json")):
    registry.HOOK_COMMITS = json.load(open(os.path.join(rd, "hook_commits.json")))

props = [json.loads(l)["id"] for l in open(os.path.join(here, "properties.jsonl"))]
checks, na = [], []
for pid in props:
    meta = registry.PROPS.get(pid)
    have = os.path.exists(os.path.join(here, "harness", "props", pid.lower() + ".py")) and \
        os.path.exists(os.path.join(here, "coq", "Props", pid + ".v"))
    if meta and have:
        checks.append({
            "property_id": pid,
            "quick_cmd": "./check %s --tier quick" % pid,
            "thorough_cmd": "./check %s --tier thorough" % pid,
            "evidence_file": "/verif/evidence/%s.json" % pid,
            "replay_cmd_template": "./check %s --replay {path}" % pid,
            "engine": "coq+correspondence",
            "level_claimed": {"category": meta.get("category", "proof"), "text": meta["text"],
                              "design_ref": meta.get("design_ref", "DESIGN.md section 6")},
            "level_note": meta["note"],
            "technique": meta["technique"],
        })
    else:
        na.append({"property_id": pid,
                   "reason": (registry.NOT_APPLICABLE.get(pid) if hasattr(registry, "NOT_APPLICABLE") and pid in registry.NOT_APPLICABLE
                              else "not claimed yet: the model, theorems and correspondence for this property are still being built (see DESIGN.md section 6)")})
man = {
    "version": 1,
    "setup_cmd": "sh /verif/setup.sh",
    "hooks": {
        "guard": "COTENGRA_VERIF",
        "enable": "no source hooks: all instrumentation is applied from the harness process (monkey-patching); ./check exports COTENGRA_VERIF=1 for uniformity",
        "baseline_off_cmd": "cd /repo && /venv/bin/python -m pytest -ra -q -p no:cacheprovider --timeout=900 --continue-on-collection-errors --junitxml=/tmp/ctg_baseline.junit.xml",
        "source_commits": getattr(registry, "HOOK_COMMITS", []),
        "add_only": True,
    },
    "engines": [{
        "name": "coq+correspondence",
        "path": "/verif/check",
        "serves_properties": [c["property_id"] for c in checks],
        "kind_free_text": "Coq 8.16.1 development (coq/Model, coq/Proofs, coq/Props) + Python correspondence harness (harness/) evaluating the model with vm_compute against /repo on generated cases + independent oracle",
    }],
    "checks": checks,
    "not_applicable": na,
    "notes": "See DESIGN.md. KNOWN_FINDINGS.txt lists genuine defects (known / fixed).",
}
json.dump(man, open(os.path.join(here, "MANIFEST.json"), "w"), indent=1)
print("checks:", [c["property_id"] for c in checks], "not claimed:", len(na))

#!/usr/bin/env python3
"""Rewrites the generated status block of DESIGN.md (between the BEGIN/END markers) from
the files present: Props/*.v theorem names, registry, KNOWN_FINDINGS.txt, seeded/*/meta.json."""
import glob, json, os, re, sys
here = os.path.dirname(os.path.dirname(os.path.abspath(__file__)))

def strip_comments(src):
    out, depth, i = [], 0, 0
    while i < len(src):
        if src.startswith("(*", i): depth += 1; i += 2
        elif src.startswith("*)", i) and depth: depth -= 1; i += 2
        else:
            if not depth: out.append(src[i])
            i += 1
    return "".join(out)

props = [json.loads(l) for l in open(os.path.join(here, "properties.jsonl"))]
known, fixed = {}, {}
for l in open(os.path.join(here, "KNOWN_FINDINGS.txt")):
    m = re.match(r"known:\s+property=(C\d+)\s+key=(\S+)\s+(.*)", l)
    if m: known.setdefault(m.group(1), []).append((m.group(2), m.group(3).strip()))
    m = re.match(r"fixed:\s+property=(C\d+)\s+(\S+)\s+(.*)", l)
    if m: fixed.setdefault(m.group(1), []).append((m.group(2), m.group(3).strip()))
seeds = {}
for f in sorted(glob.glob(os.path.join(here, "seeded", "*", "meta.json"))):
    m = json.load(open(f))
    seeds.setdefault(m.get("breaks", "?")[:3], []).append(m)

lines = []
lines.append("| prop | theorems (Props/Cnn*.v) | partial / refuted statements | fixed defects | known findings | seeded changes confirmed |")
lines.append("|---|---|---|---|---|---|")
tot = 0
for p in props:
    pid = p["id"]
    names = []
    for f in sorted(glob.glob(os.path.join(here, "coq", "Props", pid + "*.v"))):
        if re.match(r"^%s[a-z]*\.v$" % pid, os.path.basename(f)):
            names += re.findall(r"^\s*(?:Theorem|Corollary)\s+([A-Za-z0-9_']+)", strip_comments(open(f).read()), re.M)
    tot += len(names)
    part = [n for n in names if n.endswith("_partial") or "_partial_" in n]
    ref = [n for n in names if "refuted" in n]
    lines.append("| %s | %d | %s | %d | %s | %s |" % (
        pid, len(names),
        (", ".join("`%s`" % n for n in part + ref) or "—"),
        len(fixed.get(pid, [])),
        (", ".join("`%s`" % k for k, _ in known.get(pid, [])) or "—"),
        (", ".join("`%s`" % s["id"] for s in seeds.get(pid, [])) or "—")))
lines.append("")
lines.append("Total: %d `Qed`-closed property theorems; %d `fix:` commits recorded; %d known findings; %d seeded changes." % (
    tot, sum(len(v) for v in fixed.values()), sum(len(v) for v in known.values()), sum(len(v) for v in seeds.values())))
lines.append("")
lines.append("**Fixed defects** (each a separate unguarded `fix:` commit in /repo; the repro of each is kept as a regression case in corpus/ or proposed_fixes/):")
lines.append("")
for pid in sorted(fixed):
    for h, t in fixed[pid]:
        lines.append("* %s `%s` — %s" % (pid, h, t))
lines.append("")
lines.append("**Known findings** (genuine defects recorded, not repaired; the check prints `KNOWN-FINDING` while the probe still fails):")
lines.append("")
for pid in sorted(known):
    for k, t in known[pid]:
        lines.append("* %s `%s` — %s" % (pid, k, t))
lines.append("")
lines.append("**Seeded changes** (independent red-team sub-agents, given only the property text; each confirmed: demo passes without / fails with the change, unedited test-suite still passes):")
lines.append("")
for pid in sorted(seeds):
    for s in seeds[pid]:
        lines.append("* `%s` — %s  \n  needs: %s  \n  detected: %s" % (s["id"], s.get("summary", "").strip(), s.get("needs", "").strip(), s.get("detected_by")))
block = "\n".join(lines)
p = os.path.join(here, "DESIGN.md")
s = open(p).read()
b, e = "<!-- BEGIN GENERATED STATUS -->", "<!-- END GENERATED STATUS -->"
if b in s:
    s = s[: s.index(b) + len(b)] + "\n" + block + "\n" + s[s.index(e):]
    open(p, "w").write(s)
    print("updated; theorems:", tot)
else:
    print("markers not found")

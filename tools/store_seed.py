#!/usr/bin/env python3
"""usage: store_seed.py <Cnn> <slug> '<detected_by text>' [extra files...]
copies /tmp/rt/<Cnn>_out/{patch.diff,demo.py,meta.json} to /verif/seeded/<Cnn>-<slug>/ and completes meta.json"""
import json, os, shutil, sys
prop, slug, detected = sys.argv[1:4]
src = "/tmp/rt/%s_out" % prop
if prop[0] in "DEFGH":        # second-wave red-team output directories are named Dnn_out
    prop = "C" + prop[1:]
dst = "/verif/seeded/%s-%s" % (prop, slug)
os.makedirs(dst, exist_ok=True)
for f in ("patch.diff", "demo.py"):
    shutil.copy(os.path.join(src, f), dst)
if os.path.exists(os.path.join(src, "patch_original.diff")):
    shutil.copy(os.path.join(src, "patch_original.diff"), dst)
m = json.load(open(os.path.join(src, "meta.json")))
suite = open(os.path.join(src, "suite_confirm.txt")).read().strip().split("\n")[-1] if os.path.exists(os.path.join(src, "suite_confirm.txt")) else "see notes"
m.update({
    "id": "%s-%s" % (prop, slug), "breaks": prop,
    "origin": "independent red-team sub-agent given only the property text and a scratch worktree of /repo",
    "confirmed": {"demo_unchanged_exit": 0, "demo_changed_exit": 1, "test_suite_changed": suite,
                  "how": "tools/try_seeded.sh + tools/confirm_suite.sh (scratch worktree of /repo under /tmp, patch applied there, worktree removed afterwards)"},
    "detected_by": detected,
})
json.dump(m, open(os.path.join(dst, "meta.json"), "w"), indent=1)
print("stored", dst, "| suite:", suite)

#!/bin/sh
# usage: tools/run_all.sh [quick|thorough] [props...]; runs the checks one after the other against /repo
tier="${1:-quick}"; shift
props="$@"; [ -z "$props" ] && props="C01 C02 C03 C04 C05 C06 C07 C08 C09 C10 C11 C12 C13 C14 C15 C16 C17 C18 C19 C20"
cd "$(dirname "$0")/.."
logd="${RUNALL_LOG:-/tmp}"; mkdir -p "$logd"
for p in $props; do
  s=$(date +%s)
  ./check $p --tier $tier > $logd/runall_$p.log 2>&1; rc=$?
  e=$(date +%s)
  echo "$p rc=$rc $((e-s))s $(grep -c VIOLATION $logd/runall_$p.log) violations, $(grep -c KNOWN-FINDING $logd/runall_$p.log) known"
done

#!/bin/sh
# usage: tools/sweep_seeded.sh [parallel]   -- runs every stored seeded change against the check of the
# property it breaks (scratch worktrees of /repo under /tmp, removed afterwards) and prints one line per
# seed: caught-with-input / caught-no-input / MISSED / patch-does-not-apply.  Seeds of one property run one
# after the other (the translators write coq/Gen), different properties in parallel.
cd "$(dirname "$0")/.."
out=/tmp/sweep_seeded
if [ "$1" = "--prop" ]; then
  p=$2
  for d in seeded/$p-*; do
    [ -d "$d" ] || continue
    n=$(basename $d)
    sh tools/try_seeded.sh $p "$PWD/$d" notest > $out/$n.log 2>&1
    if grep -q "PATCH DOES NOT APPLY" $out/$n.log; then r="patch-does-not-apply"
    else
      wi=$(grep "^VIOLATION" $out/$n.log | grep -vc "no-failing-input-found")
      ni=$(grep "^VIOLATION" $out/$n.log | grep -c "no-failing-input-found")
      if [ "$wi" -gt 0 ]; then r="caught-with-input"; elif [ "$ni" -gt 0 ]; then r="caught-no-input"; else r="MISSED"; fi
    fi
    echo "$n $r"
  done
  exit 0
fi
par="${1:-4}"
rm -rf $out; mkdir -p $out
for p in C01 C02 C03 C04 C05 C06 C07 C08 C09 C10 C11 C12 C13 C14 C15 C16 C17 C18 C19 C20; do echo $p; done | \
  xargs -P "$par" -I{} sh tools/sweep_seeded.sh --prop {}
git checkout -- evidence coq/Gen 2>/dev/null

#!/bin/sh
# (OPENBLAS/OMP threads pinned to 1: multi-threaded OpenBLAS in forked xdist workers can spin forever in blas_memory_alloc under load)
# usage: tools/confirm_suite.sh <outdir>...  : applies each patch in a scratch worktree and runs the repo test-suite
for dir in "$@"; do
  wt=/tmp/seedsuite_$$
  git -C /repo worktree add -q "$wt" HEAD || continue
  if git -C "$wt" apply "$dir/patch.diff"; then
    (cd "$wt" && OPENBLAS_NUM_THREADS=1 OMP_NUM_THREADS=1 PYTHONPATH="$wt" timeout 2400 /venv/bin/python -m pytest -q -p no:cacheprovider -n 10 --timeout=900 2>&1 | grep -E "^(FAILED|ERROR)|passed|failed" | tail -6) > "$dir/suite_confirm.txt" 2>&1
  else
    echo "PATCH DOES NOT APPLY TO CURRENT HEAD" > "$dir/suite_confirm.txt"
  fi
  git -C /repo worktree remove --force "$wt"; git -C /repo worktree prune
  echo "$dir: $(tail -1 $dir/suite_confirm.txt)"
done

#!/bin/sh
# usage: tools/try_seeded.sh <PROP> <dir with patch.diff demo.py> [notest]
# Confirms a seeded change in a scratch worktree of /repo (outside /repo and /verif):
# the demo passes without / fails with the change, the repo test-suite still passes,
# and runs ./check PROP against the changed tree.  Removes the worktree afterwards.
prop="$1"; dir="$2"; notest="$3"
wt=/tmp/seedtest_$prop_$$
git -C /repo worktree add -q "$wt" HEAD || exit 2
trap 'git -C /repo worktree remove --force "$wt"; git -C /repo worktree prune' EXIT
echo "== demo on unchanged tree"; PYTHONPATH=/repo PYTHONHASHSEED=0 timeout 300 /venv/bin/python "$dir/demo.py" >/tmp/seed_demo0.log 2>&1; echo "exit $?"
git -C "$wt" apply "$dir/patch.diff" || { echo "PATCH DOES NOT APPLY"; exit 3; }
echo "== demo on changed tree"; PYTHONPATH="$wt" PYTHONHASHSEED=0 timeout 300 /venv/bin/python "$dir/demo.py" >/tmp/seed_demo1.log 2>&1; echo "exit $?"; tail -3 /tmp/seed_demo1.log
if [ -z "$notest" ]; then
  echo "== test-suite on changed tree"
  (cd "$wt" && OPENBLAS_NUM_THREADS=1 OMP_NUM_THREADS=1 PYTHONPATH="$wt" timeout 1500 /venv/bin/python -m pytest -q -p no:cacheprovider -n 10 --timeout=900 2>&1 | grep -E "^(FAILED|ERROR)|passed|failed" | tail -8)
fi
echo "== ./check $prop on changed tree"
cp /verif/evidence/$prop.json /tmp/seed_evidence_$$.json 2>/dev/null
cd /verif && VERIF_REPO="$wt" ./check "$prop" --tier quick > /tmp/seed_check_$$.log 2>&1
echo "check exit: $?"
# the evidence file must describe a run against /repo itself: restore it
cp /tmp/seed_evidence_$$.json /verif/evidence/$prop.json 2>/dev/null; rm -f /tmp/seed_evidence_$$.json
git -C /verif checkout -- coq/Gen 2>/dev/null
grep -E "VIOLATION|KNOWN-FINDING|coq ok|Traceback" /tmp/seed_check_$$.log | head -8; rm -f /tmp/seed_check_$$.log

#!/bin/sh
# regenerates _CoqProject from the files present, and the Makefile from it,
# only when the file list changed (so concurrent checks do not disturb a running make)
cd "$(dirname "$0")"
mkdir -p Gen
tmp=$(mktemp)
{
  echo "-Q Model Ctg"
  echo "-Q Proofs Ctg"
  echo "-Q Props Ctg"
  echo "-Q Gen Ctg"
  echo "-arg -w -arg -notation-overridden,-deprecated-hint-without-locality,-deprecated-instance-without-locality"
  ls Model/*.v Proofs/*.v Props/*.v Gen/*.v 2>/dev/null | sort
} > "$tmp"
if [ ! -f _CoqProject ] || [ ! -f Makefile ] || ! cmp -s "$tmp" _CoqProject; then
  mv "$tmp" _CoqProject
  coq_makefile -f _CoqProject -o Makefile >/dev/null
else
  rm -f "$tmp"
fi

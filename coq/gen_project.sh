#!/bin/sh
# regenerates _CoqProject from the files present and the Makefile from it
cd "$(dirname "$0")"
{
  echo "-Q Model Ctg"
  echo "-Q Proofs Ctg"
  echo "-Q Props Ctg"
  echo "-Q Gen Ctg"
  echo "-arg -w -arg -notation-overridden,-deprecated-hint-without-locality,-deprecated-instance-without-locality"
  ls Model/*.v Proofs/*.v Props/*.v Gen/*.v 2>/dev/null | sort
} > _CoqProject
coq_makefile -f _CoqProject -o Makefile >/dev/null

#!/bin/sh
f=$1; n=$2
head -n $((n-1)) $f > Dbg_tmp.v
echo "Show. " >> Dbg_tmp.v
timeout 300 coqc -Q Model Ctg -Q Proofs Ctg -Q Props Ctg Dbg_tmp.v 2>&1 | grep -v conda | tail -${3:-40}
rm -f Dbg_tmp.*  .Dbg_tmp.aux

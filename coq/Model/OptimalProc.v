(* OptimalProc.v -- the part of cotengra/pathfinders/path_basic.py that surrounds the dynamic
   programme in the public `optimize_optimal`:
     ContractionProcessor.__init__ (nodes AND edges)      -> cp_of (on top of Optimal.proc_init)
     ContractionProcessor.simplify()                      -> Processor.cp_simplify (C05 builder's model, reused)
     ContractionProcessor.subgraphs()                     -> bfs_loop, subgraphs_loop, cp_subgraphs
     optimize_optimal(..., simplify=True, use_ssa=True)   -> optimize_optimal_full
   and the executable precondition pre_b of the property C09.
   MODEL FILE: executable definitions only. *)
From Ctg Require Export Base Net Optimal.
From Ctg Require Export Processor.
Open Scope nat_scope.

(* ------------------------------------------------------------------ *)
(* __init__, lines 338-368: self.nodes[i] = tuple(legs); self.edges[ix] = {i: None, ...}.
   Indices are numbered by first appearance, so the keys of `edges` are inserted in the order
   0, 1, 2, ...; terms are visited in order, so each edges[ix] lists its nodes increasingly. *)
Definition has_key (x : nat) (l : legs) : bool := memb x (map fst l).
Definition edges_of (nodes : list legs) (nix : nat) : list (nat * list nat) :=
  map (fun x => (x, filter (fun k => has_key x (nth k nodes [])) (seq 0 (length nodes)))) (seq 0 nix).
Definition cp_of (p : proc) : cproc :=
  mkCP (combine (seq 0 (length (p_nodes p))) (p_nodes p))
       (edges_of (p_nodes p) (length (p_app p)))
       (p_app p) (p_sizes p) (length (p_nodes p)) [] true.

(* ------------------------------------------------------------------ *)
(* subgraphs(), lines 540-558.
     i = remaining.pop(); queue = [i]; group = {i}
     while queue: i = queue.pop(); for j in self.neighbors(i): if j not in group: group.add(j); queue.append(j)
   The queue is kept REVERSED (its last element first: pop() takes the head, append() conses);
   `group` is kept in insertion order. *)
Definition bfs_visit (st : list nat * list nat) (j : nat) : list nat * list nat :=
  if memb j (snd st) then st else (j :: fst st, snd st ++ [j]).
Fixpoint bfs_loop (nb : nat -> list nat) (fuel : nat) (qrev group : list nat) : list nat :=
  match fuel with
  | 0 => group
  | S f =>
      match qrev with
      | [] => group
      | i :: q' => let st := fold_left bfs_visit (nb i) (q', group) in bfs_loop nb f (fst st) (snd st)
      end
  end.
(* while remaining: ...; remaining -= group; groups.append(sorted(group)).
   set.pop() is modelled as "the first remaining id" (the final, sorted, result does not depend on
   it); sorted(group) as the ids (which are increasing) filtered by membership. *)
Fixpoint subgraphs_loop (nb : nat -> list nat) (ids : list nat) (fuel : nat) (remaining : list nat)
         (groups : list (list nat)) : list (list nat) :=
  match fuel with
  | 0 => groups
  | S f =>
      match remaining with
      | [] => groups
      | i :: _ =>
          let g := bfs_loop nb (length ids) [i] [i] in
          subgraphs_loop nb ids f (filter (fun k => negb (memb k g)) remaining)
                         (groups ++ [filter (fun k => memb k g) ids])
      end
  end.
(* groups.sort(): lexicographic order on lists of ints *)
Fixpoint lex_le (a b : list nat) : bool :=
  match a, b with
  | [], _ => true
  | _ :: _, [] => false
  | x :: a', y :: b' => (x <? y) || ((x =? y) && lex_le a' b')
  end.
Definition cp_subgraphs (c : cproc) : list (list nat) :=
  let ids := map fst (cp_nodes c) in
  sort_by lex_le (subgraphs_loop (neighbors c) ids (length ids) ids []).

(* ------------------------------------------------------------------ *)
(* optimize_optimal(inputs, output, size_dict, minimize, cost_cap, search_outer, simplify=True,
   use_ssa=True), lines 1237-1246, for the case of ONE connected group after simplification
   (then optimize_optimal_connected consumes every node and leaves one, so
   optimize_remaining_by_size returns at once).  Several groups: None (not modelled here).
   `orders` is the iteration-order oracle of Processor.simplify_hadamard. *)
Definition step_of (ij : nat * nat) : list nat := [fst ij; snd ij].
Definition optimize_optimal_full (orders : list (list (list nat))) (n : net) (obj : objective) (so : bool)
           (fuel : nat) (cap : Z) : option (Z * list (list nat)) :=
  let c := cp_simplify orders (cp_of (proc_init n)) in
  match cp_subgraphs c with
  | [w] =>
      match optimal_connected (cp_app c) (cp_sizes c) obj so w
                              (map (fun i => match nget i (cp_nodes c) with Some l => l | None => [] end) w)
                              (cp_ssa c) fuel cap with
      | Some (sc, pairs) => Some (sc, cp_path c ++ map step_of pairs)
      | None => None
      end
  | _ => None
  end.

(* ------------------------------------------------------------------ *)
(* the property's precondition, executable, stated on the processor's initial state
   (= the network after the renumbering and sorting of __init__):
   - wf_procb: every tensor's legs are strictly increasing and none is exhausted on that tensor
     ("no repeated index within a tensor", "no index confined to one tensor and absent from
     the output"), appearances >= occurrences, dims >= 0;
   - no scalars; no two tensors with the same index set; no index shared by all tensors;
   - connected: the search of subgraphs() started at tensor 0 reaches every tensor. *)
Fixpoint distinct_keys (ks : list (list nat)) : bool :=
  match ks with
  | [] => true
  | k :: r => forallb (fun k' => negb (list_eqb Nat.eqb k' k)) r && distinct_keys r
  end.
Definition nosimp_b (p : proc) : bool :=
  forallb (fun l => negb (Nat.eqb (length l) 0)) (p_nodes p)
  && distinct_keys (map keyset (p_nodes p))
  && forallb (fun e => negb (Nat.leb (length (p_nodes p)) (length (snd e))))
             (edges_of (p_nodes p) (length (p_app p))).
Definition connected_b (p : proc) : bool :=
  let n := length (p_nodes p) in
  (1 <=? n) && (length (bfs_loop (neighbors (cp_of p)) n [0] [0]) =? n).
Definition pre_b (n : net) : bool :=
  let p := proc_init n in
  wf_procb (p_nodes p) (p_app p) (p_sizes p) && nosimp_b p && connected_b p.

(* Program.v -- what ContractionTree / contract.py derive in order to execute a
   tree: per-node axis orders (get_inds), the einsum / tensordot recipes
   (get_einsum_eq, get_can_dot, get_tensordot_axes, get_tensordot_perm), the
   program of extract_contractions, and a positional interpreter for it
   (Contractor.__call__) over exact integers.  MODEL FILE. *)
From Ctg Require Import Base Net Einsum.
Open Scope Z_scope.

Section Prog.
Variable n : net.
Variable sl : list slinfo.

(* ---- get_inds ---- *)
Fixpoint inds_sub (t : tree) : list ix :=
  match t with
  | Leaf k => lkeys (leaf_legs n sl k)
  | Node l r =>
      let lg := sub_legs n sl t in
      unique (filter (fun j => lmem j lg) (inds_sub l ++ inds_sub r))
  end.
Definition inds (isroot : bool) (t : tree) : list ix :=
  match t with
  | Leaf _ => inds_sub t
  | Node _ _ => if isroot then lkeys (root_legs n sl) else inds_sub t
  end.

(* ---- get_can_dot: set(p) == set(l) ^ set(r) ---- *)
Definition set_eqb (a b : list ix) : bool :=
  forallb (fun j => memb j b) a && forallb (fun j => memb j a) b.
Definition symdiff (a b : list ix) : list ix :=
  filter (fun j => negb (memb j b)) a ++ filter (fun j => negb (memb j a)) b.
Definition can_dot (isroot : bool) (t : tree) : bool :=
  match t with
  | Leaf _ => false
  | Node l r => set_eqb (lkeys (node_legs n sl isroot t))
                        (symdiff (lkeys (sub_legs n sl l)) (lkeys (sub_legs n sl r)))
  end.

(* ---- get_tensordot_axes ---- *)
Fixpoint tdot_axes_from (i : nat) (li ri : list ix) : list nat * list nat :=
  match li with
  | [] => ([], [])
  | x :: li' =>
      let '(la, ra) := tdot_axes_from (S i) li' ri in
      match find_pos x ri with
      | Some j => (i :: la, j :: ra)
      | None => (la, ra)
      end
  end.
Definition tensordot_axes (t : tree) : list nat * list nat :=
  match t with
  | Leaf _ => ([], [])
  | Node l r => tdot_axes_from 0 (inds_sub l) (inds_sub r)
  end.

(* ---- get_tensordot_perm: td_inds = sorted(p_inds, key=(l_inds+r_inds).find) ---- *)
Definition z_le (a b : Z * ix) : bool := (fst a <=? fst b)%Z.
Definition td_inds (li ri pi : list ix) : list ix :=
  map snd (sort_by z_le (map (fun j => (find_z j (li ++ ri), j)) pi)).
Definition tensordot_perm (isroot : bool) (t : tree) : option (list nat) :=
  match t with
  | Leaf _ => None
  | Node l r =>
      let pi := inds isroot t in
      let td := td_inds (inds_sub l) (inds_sub r) pi in
      if list_eqb Nat.eqb td pi then None
      else Some (map (fun j => match find_pos j td with Some p => p | None => 0%nat end) pi)
  end.

(* ---- get_einsum_eq: symbols renumbered by first appearance in l_inds ++ r_inds ---- *)
Definition canon (li ri : list ix) (j : ix) : nat :=
  match find_pos j (unique (li ++ ri)) with Some p => p | None => 0%nat end.
Definition einsum_eq (isroot : bool) (t : tree) : list nat * (list nat * list nat) :=
  match t with
  | Leaf _ => ([], ([], []))
  | Node l r =>
      let li := inds_sub l in let ri := inds_sub r in
      (map (canon li ri) li, (map (canon li ri) ri, map (canon li ri) (inds isroot t)))
  end.

(* ---- the program of extract_contractions ---- *)
Inductive instr :=
| IPre (k : nat) (term kept : list ix)                       (* einsum(eq, temps[leaf]) *)
| IEinsum (p l r : list nat) (li ri pi : list ix)            (* einsum(eq, l, r) *)
| ITdot (p l r : list nat) (la ra : list nat) (perm : option (list nat)).

Definition node_instr (prefer_einsum : bool) (bt : bool * tree) : list instr :=
  match snd bt with
  | Leaf _ => []
  | Node l r =>
      let t := snd bt in
      if prefer_einsum || negb (can_dot (fst bt) t)
      then [IEinsum (leaves t) (leaves l) (leaves r) (inds_sub l) (inds_sub r) (inds (fst bt) t)]
      else [ITdot (leaves t) (leaves l) (leaves r) (fst (tensordot_axes t)) (snd (tensordot_axes t))
                  (tensordot_perm (fst bt) t)]
  end.
Definition pre_instrs (t : tree) : list instr :=
  flat_map (fun k => match leaf_preproc n sl k with
                     | Some (term, kept) => [IPre k term kept]
                     | None => [] end) (leaves t).
(* `order` is any traversal given as a list of (isroot, node) *)
Definition program (prefer_einsum : bool) (t : tree) (order : list (bool * tree)) : list instr :=
  pre_instrs t ++ flat_map (node_instr prefer_einsum) order.

(* =====================  positional semantics  ===================== *)
Notation dim := (dim n).

(* assignment that maps is[k] -> pos[k] over a background assignment *)
Fixpoint env_of (bg : env) (is : list ix) (pos : list nat) : env :=
  match is, pos with
  | j :: is', v :: pos' => upd (env_of bg is' pos') j v
  | _, _ => bg
  end.

(* numpy.einsum with explicit output, one and two operands, on positional arrays:
   out[pos] = sum over the indices absent from the output of the product of the
   operand entries (a repeated index inside an operand is a diagonal) *)
Definition esummed1 (term kept : list ix) : list ix :=
  unique (filter (fun j => negb (memb j kept)) term).
Definition einsum1 (bg : env) (term kept : list ix) (A : ptensor) : ptensor :=
  fun pos => sum_over dim (esummed1 term kept) (env_of bg kept pos) (fun e => A (map e term)).
Definition esummed2 (li ri pi : list ix) : list ix :=
  unique (filter (fun j => negb (memb j pi)) (li ++ ri)).
Definition einsum2 (bg : env) (li ri pi : list ix) (L R : ptensor) : ptensor :=
  fun pos => sum_over dim (esummed2 li ri pi) (env_of bg pi pos)
                      (fun e => L (map e li) * R (map e ri)).

(* slice_arrays: axis of a removed index is fixed to its value in e0, the other
   axes are consumed from the position list *)
Fixpoint fill (e0 : env) (term : list ix) (pos : list nat) : list nat :=
  match term with
  | [] => []
  | j :: term' =>
      if memb j (removed sl) then e0 j :: fill e0 term' pos
      else match pos with
           | v :: pos' => v :: fill e0 term' pos'
           | [] => 0%nat :: fill e0 term' []
           end
  end.

Variable arr : nat -> ptensor.
Variable e0 : env.          (* the slice: value of every removed index *)

Definition sliced_arr (k : nat) : ptensor := fun pos => arr k (fill e0 (nth k (inputs n) []) pos).
Definition leaf_tensor (k : nat) : ptensor :=
  match leaf_preproc n sl k with
  | Some (term, kept) => einsum1 e0 term kept (sliced_arr k)
  | None => sliced_arr k
  end.

(* value computed for a proper subtree / for the whole tree by the einsum path *)
Fixpoint run_sub (t : tree) : ptensor :=
  match t with
  | Leaf k => leaf_tensor k
  | Node l r => einsum2 e0 (inds_sub l) (inds_sub r) (inds_sub t) (run_sub l) (run_sub r)
  end.
Definition run_root (t : tree) : ptensor :=
  match t with
  | Leaf k => leaf_tensor k
  | Node l r => einsum2 e0 (inds_sub l) (inds_sub r) (lkeys (root_legs n sl)) (run_sub l) (run_sub r)
  end.

End Prog.

(* =====================  the full interpreter (Contractor.__call__)  =====================
   temps: node (its leaf list, as in the instruction) -> (shape, positional array).
   Executes ANY instruction list in the given order, including the tensordot +
   transpose path; used by the executed correspondence. *)
Section Exec.
Variable n : net.
Variable sl : list slinfo.
Variable arr : nat -> ptensor.
Variable e0 : env.
Notation dim := (dim n).

Definition sarr := (list nat * ptensor)%type.
Definition temps := list (list nat * sarr).

Fixpoint tget (k : list nat) (tm : temps) : sarr :=
  match tm with
  | [] => ([], fun _ => 0)
  | (k', v) :: tm' => if list_eqb Nat.eqb k' k then v else tget k tm'
  end.
Fixpoint tdel (k : list nat) (tm : temps) : temps :=
  match tm with
  | [] => []
  | (k', v) :: tm' => if list_eqb Nat.eqb k' k then tm' else (k', v) :: tdel k tm'
  end.
Definition tset (k : list nat) (v : sarr) (tm : temps) : temps := (k, v) :: tdel k tm.

(* iterated sum over all tuples c with c[i] < dims[i] *)
Fixpoint sum_tuples (dims : list nat) (f : list nat -> Z) : Z :=
  match dims with
  | [] => f []
  | d :: dims' => sumn d (fun v => sum_tuples dims' (fun c => f (v :: c)))
  end.

(* full position of an operand: axis i takes c[k] when i = axes[k], else the next free value *)
Fixpoint build_from (i rank : nat) (axes : list nat) (c free : list nat) : list nat :=
  match rank with
  | O => []
  | S rank' =>
      match find_pos i axes with
      | Some k => nth k c 0%nat :: build_from (S i) rank' axes c free
      | None => match free with
                | v :: free' => v :: build_from (S i) rank' axes c free'
                | [] => 0%nat :: build_from (S i) rank' axes c []
                end
      end
  end.
Definition free_shape (shape : list nat) (axes : list nat) : list nat :=
  map snd (filter (fun iv => negb (memb (fst iv) axes)) (combine (seq 0 (length shape)) shape)).

(* numpy.tensordot(a, b, (la, ra)) *)
Definition tdot (A B : sarr) (la ra : list nat) : sarr :=
  let '(sa, fa) := A in let '(sb, fb) := B in
  let cdims := map (fun i => nth i sa 0%nat) la in
  let nfa := (length sa - length la)%nat in
  (free_shape sa la ++ free_shape sb ra,
   fun pos => sum_tuples cdims (fun c =>
      fa (build_from 0 (length sa) la c (firstn nfa pos)) *
      fb (build_from 0 (length sb) ra c (skipn nfa pos)))).

(* numpy.transpose(a, perm): result axis k is source axis perm[k] *)
Definition transpose (A : sarr) (perm : list nat) : sarr :=
  let '(sa, fa) := A in
  (map (fun i => nth i sa 0%nat) perm,
   fun pos => fa (map (fun i => match find_pos i perm with Some k => nth k pos 0%nat | None => 0%nat end)
                      (seq 0 (length sa)))).

Definition exec_instr (tm : temps) (i : instr) : temps :=
  match i with
  | IPre k term kept =>
      let A := tget [k] tm in
      tset [k] (map dim kept, einsum1 n e0 term kept (snd A)) tm
  | IEinsum p l r li ri pi =>
      let L := tget l tm in let R := tget r tm in
      tset p (map dim pi, einsum2 n e0 li ri pi (snd L) (snd R)) (tdel r (tdel l tm))
  | ITdot p l r la ra perm =>
      let L := tget l tm in let R := tget r tm in
      let X := tdot L R la ra in
      let X' := match perm with Some pm => transpose X pm | None => X end in
      tset p X' (tdel r (tdel l tm))
  end.

Definition init_temps (t : tree) : temps :=
  map (fun k => ([k], (map dim (term_sl n sl k), sliced_arr n sl arr e0 k))) (leaves t).

Definition exec_program (prog : list instr) (t : tree) : sarr :=
  tget (leaves t) (fold_left exec_instr prog (init_temps t)).
End Exec.

(* =====================  arbitrary admissible axis orders  =====================
   sort_contraction_indices replaces the default order of every internal node by
   some permutation of its legs (leaves and the root keep theirs).  `io` is that
   assignment; the einsum-path program is the same with io in place of inds_sub. *)
Section ProgG.
Variable n : net.
Variable sl : list slinfo.
Variable arr : nat -> ptensor.
Variable e0 : env.
Variable io : tree -> list ix.

Definition inds_g (t : tree) : list ix :=
  match t with Leaf k => lkeys (leaf_legs n sl k) | Node _ _ => io t end.
Fixpoint run_sub_g (t : tree) : ptensor :=
  match t with
  | Leaf k => leaf_tensor n sl arr e0 k
  | Node l r => einsum2 n e0 (inds_g l) (inds_g r) (inds_g t) (run_sub_g l) (run_sub_g r)
  end.
Definition run_root_g (t : tree) : ptensor :=
  match t with
  | Leaf k => leaf_tensor n sl arr e0 k
  | Node l r => einsum2 n e0 (inds_g l) (inds_g r) (lkeys (root_legs n sl)) (run_sub_g l) (run_sub_g r)
  end.
(* every internal node's order is a duplicate-free enumeration of its legs *)
Fixpoint admissible (t : tree) : Prop :=
  match t with
  | Leaf _ => True
  | Node l r => NoDup (io t) /\ (forall j, In j (io t) <-> In j (lkeys (sub_legs n sl t)))
                /\ admissible l /\ admissible r
  end.
End ProgG.

(* boolean check of admissibility for an axis-order assignment given as a table
   (leaf list of the node -> order); used to judge what sort_contraction_indices produced *)
Definition io_tbl (tbl : list (list nat * list ix)) (t : tree) : list ix :=
  match find (fun kv => list_eqb Nat.eqb (fst kv) (leaves t)) tbl with
  | Some kv => snd kv
  | None => []
  end.
Fixpoint nodup_b (l : list nat) : bool :=
  match l with [] => true | x :: l' => negb (memb x l') && nodup_b l' end.
Fixpoint admissible_b (n : net) (sl : list slinfo) (io : tree -> list ix) (t : tree) : bool :=
  match t with
  | Leaf _ => true
  | Node l r => nodup_b (io t) && set_eqb (io t) (lkeys (sub_legs n sl t))
                && admissible_b n sl io l && admissible_b n sl io r
  end.

(* Simulators.v -- the cost simulators other than the tree and the hypergraph:
   * cotengra/pathfinders/path_basic.py : is_simplifiable, compute_simplified,
     compute_contracted, compute_size, compute_flops, class ContractionProcessor
     (__init__, pop_node, add_node, remove_ix, contract_nodes, simplify_batch,
     simplify_single_terms, simplify_scalars) -- simplify_hadamard and the greedy /
     optimal searches are NOT modelled (set-of-frozenset iteration order, floats);
   * cotengra/pathfinders/path_simulated_annealing.py : compute_contracted_info.
   The tree rule is Model/Net.v, the hypergraph rule Model/HGraph.v.
   MODEL FILE: executable definitions only (owner: builder c18c20). *)
From Ctg Require Export Base Net HGraph.

(* ------------------------------------------------------------------ *)
(* annealing: compute_contracted_info(legsa, legsb, appearances, size_dict) *)
Definition anneal_left (app : legs) (sz : sizes) (legsb : legs)
    (st : legs * (Z * Z)) (kv : ix * nat) : legs * (Z * Z) :=
  let '(lab, (cost, size)) := st in
  let d := zget (fst kv) sz in
  let c := match lget (fst kv) legsb with Some cb => snd kv + cb | None => snd kv end in
  if Nat.ltb c (lget0 (fst kv) app)
  then (lab ++ [(fst kv, c)], ((cost * d)%Z, (size * d)%Z))
  else (lab, ((cost * d)%Z, size)).
Definition anneal_right (app : legs) (sz : sizes) (legsa : legs)
    (st : legs * (Z * Z)) (kv : ix * nat) : legs * (Z * Z) :=
  let '(lab, (cost, size)) := st in
  if lmem (fst kv) legsa then st
  else let d := zget (fst kv) sz in
       if Nat.ltb (snd kv) (lget0 (fst kv) app)
       then (lab ++ [(fst kv, snd kv)], ((cost * d)%Z, (size * d)%Z))
       else (lab, ((cost * d)%Z, size)).
Definition anneal_info (app : legs) (sz : sizes) (legsa legsb : legs) : legs * (Z * Z) :=
  fold_left (anneal_right app sz legsa) legsb
    (fold_left (anneal_left app sz legsb) legsa ([], (1%Z, 1%Z))).

(* ------------------------------------------------------------------ *)
(* the processor's leg lists: (ix, count) sorted by ix (ix = position of first
   appearance of the label); appearances and sizes are Python lists indexed by ix *)
Definition plegs := list (nat * nat).
Definition papp_of (app : list nat) (j : nat) : nat := nth j app 0.
Definition psize_of (szs : list Z) (j : nat) : Z := nth j szs 1%Z.

(* is_simplifiable(legs, appearances) *)
Fixpoint is_simplifiable_from (app : list nat) (prev : option nat) (l : plegs) : bool :=
  match l with
  | [] => false
  | (j, c) :: l' =>
      if (match prev with Some p => Nat.eqb j p | None => false end) || Nat.eqb c (papp_of app j)
      then true else is_simplifiable_from app (Some j) l'
  end.
Definition is_simplifiable (app : list nat) (l : plegs) : bool := is_simplifiable_from app None l.

(* compute_simplified(legs, appearances) *)
Fixpoint simplified_from (app : list nat) (cur : nat) (cnt : nat) (l : plegs) : plegs :=
  match l with
  | [] => if Nat.eqb cnt (papp_of app cur) then [] else [(cur, cnt)]
  | (j, c) :: l' =>
      if Nat.eqb j cur then simplified_from app cur (cnt + c) l'
      else (if Nat.eqb cnt (papp_of app cur) then [] else [(cur, cnt)]) ++ simplified_from app j c l'
  end.
Definition compute_simplified (app : list nat) (l : plegs) : plegs :=
  match l with
  | [] => []
  | (j, c) :: l' => simplified_from app j c l'
  end.

(* compute_contracted(ilegs, jlegs, appearances): sorted simultaneous iteration *)
Fixpoint pcontract (app : list nat) (il : plegs) : plegs -> plegs :=
  fix inner (jl : plegs) : plegs :=
    match il, jl with
    | [], _ => jl
    | _, [] => il
    | (i, ic) :: il', (j, jc) :: jl' =>
        if Nat.ltb i j then (i, ic) :: pcontract app il' jl
        else if Nat.ltb j i then (j, jc) :: inner jl'
        else (if Nat.eqb (ic + jc) (papp_of app i) then [] else [(i, ic + jc)]) ++ pcontract app il' jl'
    end.

(* compute_size(legs, sizes), compute_flops(ilegs, jlegs, sizes) *)
Definition psize (szs : list Z) (l : plegs) : Z := zprod (map (fun kv => psize_of szs (fst kv)) l).
Definition pflops (szs : list Z) (il jl : plegs) : Z :=
  let '(seen, f) := fold_left (fun (st : list nat * Z) kv => (fst kv :: fst st, (snd st * psize_of szs (fst kv))%Z))
                              il ([], 1%Z) in
  fold_left (fun f kv => if memb (fst kv) seen then f else (f * psize_of szs (fst kv))%Z) jl f.

(* ------------------------------------------------------------------ *)
(* class ContractionProcessor *)
Record proc := mkProc {
  pnodes : list (nat * plegs);        (* self.nodes *)
  pedges : list (nat * list nat);     (* self.edges : ix -> dict of nodes (keys, ordered) *)
  pmap   : list (ix * nat);           (* self.indmap *)
  papp   : list nat;                  (* self.appearances *)
  pszs   : list Z;                    (* self.sizes *)
  pssa   : nat;
  ppath  : list (list nat);           (* self.ssa_path *)
  ptrack : bool;
  pflops_acc : Z;                     (* self.flops *)
  pbatch : Z;                         (* combined size of the indices dropped by simplify_batch *)
  pfix   : bool                       (* false = the pinned code (flops ignore pbatch);
                                         true = the code with proposed_fixes/C18_rgreedy-batch-flops.patch,
                                         where contract_nodes adds batch_factor * compute_flops *)
}.

Fixpoint list_upd {A} (k : nat) (f : A -> A) (l : list A) : list A :=
  match l, k with
  | [], _ => []
  | x :: l', O => f x :: l'
  | x :: l', S k' => x :: list_upd k' f l'
  end.

(* d[i] = None on a dict used as an ordered set *)
Definition oset_add (i : nat) (l : list nat) : list nat := if memb i l then l else l ++ [i].

Definition pleg_le (a b : nat * nat) : bool :=
  Nat.ltb (fst a) (fst b) || (Nat.eqb (fst a) (fst b) && Nat.leb (snd a) (snd b)).

(* __init__: one term *)
Definition proc_init_term (sz : sizes) (st : list (nat * list nat) * (list (ix * nat) * (list nat * list Z)) * plegs)
    (i : nat) (ind : ix) :=
  let '(edges, (imap, (app, szs)), lg) := st in
  match aget ind imap with
  | None =>
      let c := length app in
      (aset c [i] edges, (aset ind c imap, (app ++ [1], szs ++ [zget ind sz])), lg ++ [(c, 1)])
  | Some j =>
      (aset j (oset_add i (match aget j edges with Some l => l | None => [] end)) edges,
       (imap, (list_upd j S app, szs)), lg ++ [(j, 1)])
  end.

Definition proc_init_gen (fx : bool) (n : net) (track : bool) : proc :=
  let terms := combine (seq 0 (length (inputs n))) (inputs n) in
  let '(nodes, (edges, (imap, (app, szs)))) :=
    fold_left (fun (st : list (nat * plegs) * (list (nat * list nat) * (list (ix * nat) * (list nat * list Z)))) it =>
                 let '(nodes, (edges, rest)) := st in
                 let '(edges', rest', lg) :=
                   fold_left (fun s ind => proc_init_term (szd n) s (fst it) ind) (snd it) (edges, rest, []) in
                 (nodes ++ [(fst it, sort_by pleg_le lg)], (edges', rest')))
              terms ([], ([], ([], ([], [])))) in
  let app' := fold_left (fun a ind => match aget ind imap with Some j => list_upd j S a | None => a end) (output n) app in
  mkProc nodes edges imap app' szs (length (inputs n)) [] track 0%Z 1%Z fx.

Definition proc_init := proc_init_gen false.   (* the pinned code *)
Definition proc_init_fixed := proc_init_gen true.

Definition pget (p : proc) (i : nat) : plegs := match aget i (pnodes p) with Some l => l | None => [] end.

(* pop_node(i) *)
Definition proc_pop (i : nat) (p : proc) : proc * plegs :=
  let lg := pget p i in
  let edges := fold_left (fun ed kv =>
                  match aget (fst kv) ed with
                  | None => ed
                  | Some l => let l' := remove_nat i l in
                              match l' with [] => adel (fst kv) ed | _ => aset (fst kv) l' ed end
                  end) lg (pedges p) in
  (mkProc (adel i (pnodes p)) edges (pmap p) (papp p) (pszs p) (pssa p) (ppath p) (ptrack p) (pflops_acc p) (pbatch p) (pfix p), lg).

(* add_node(legs) *)
Definition proc_add (lg : plegs) (p : proc) : proc * nat :=
  let i := pssa p in
  let edges := fold_left (fun ed kv =>
                  aset (fst kv) (oset_add i (match aget (fst kv) ed with Some l => l | None => [] end)) ed)
                lg (pedges p) in
  (mkProc (aset i lg (pnodes p)) edges (pmap p) (papp p) (pszs p) (S i) (ppath p) (ptrack p) (pflops_acc p) (pbatch p) (pfix p), i).

Definition proc_push_path (s : list nat) (p : proc) : proc :=
  mkProc (pnodes p) (pedges p) (pmap p) (papp p) (pszs p) (pssa p) (ppath p ++ [s]) (ptrack p) (pflops_acc p) (pbatch p) (pfix p).
Definition proc_add_flops (f : Z) (p : proc) : proc :=
  mkProc (pnodes p) (pedges p) (pmap p) (papp p) (pszs p) (pssa p) (ppath p) (ptrack p) (pflops_acc p + f)%Z (pbatch p) (pfix p).

(* contract_nodes(i, j) with new_legs=None *)
Definition proc_contract (i j : nat) (p : proc) : proc * nat :=
  let '(p1, il) := proc_pop i p in
  let '(p2, jl) := proc_pop j p1 in
  let p3 := if ptrack p2 then proc_add_flops ((if pfix p2 then pbatch p2 else 1) * pflops (pszs p2) il jl)%Z p2 else p2 in
  let '(p4, k) := proc_add (pcontract (papp p3) il jl) p3 in
  (proc_push_path [i; j] p4, k).

(* remove_ix(ix) *)
Definition proc_remove_ix (x : nat) (p : proc) : proc :=
  let nodes := fold_left (fun nd node =>
                  match aget node nd with
                  | None => nd
                  | Some l => aset node (filter (fun kv => negb (Nat.eqb (fst kv) x)) l) nd
                  end)
                (match aget x (pedges p) with Some l => l | None => [] end) (pnodes p) in
  mkProc nodes (adel x (pedges p)) (pmap p) (papp p) (pszs p) (pssa p) (ppath p) (ptrack p) (pflops_acc p)
         (pbatch p) (pfix p).

(* simplify_batch() *)
Definition batch_indices (p : proc) : list nat :=
  map fst (filter (fun kv => Nat.leb (length (pnodes p)) (length (snd kv))) (pedges p)).
Definition proc_scale_batch (x : nat) (p : proc) : proc :=
  mkProc (pnodes p) (pedges p) (pmap p) (papp p) (pszs p) (pssa p) (ppath p) (ptrack p) (pflops_acc p)
         (pbatch p * psize_of (pszs p) x)%Z (pfix p).
Definition proc_simplify_batch (p : proc) : proc :=
  fold_left (fun p x => proc_remove_ix x (proc_scale_batch x p)) (batch_indices p) p.

(* simplify_single_terms(): iterates over a snapshot of nodes.items() *)
Definition proc_simplify_single (p : proc) : proc :=
  fold_left (fun p it =>
               if is_simplifiable (papp p) (snd it)
               then let '(p1, lg) := proc_pop (fst it) p in
                    let '(p2, _) := proc_add (compute_simplified (papp p1) lg) p1 in
                    proc_push_path [fst it] p2
               else p) (pnodes p) p.

(* simplify_scalars() *)
Definition proc_simplify_scalars (p : proc) : proc :=
  let '(scalars, jopt) :=
    fold_left (fun (st : list nat * option (nat * nat)) it =>
                 let ndim := length (snd it) in
                 if Nat.eqb ndim 0 then (fst st ++ [fst it], snd st)
                 else match snd st with
                      | None => (fst st, Some (fst it, ndim))
                      | Some (j, jn) => if Nat.ltb ndim jn then (fst st, Some (fst it, ndim)) else st
                      end) (pnodes p) ([], None) in
  match scalars with
  | [] => p
  | s0 :: rest =>
      let todo := rest ++ (match jopt with Some (j, _) => [j] | None => [] end) in
      fst (fold_left (fun (st : proc * nat) nxt =>
                        let '(p', k) := proc_contract (snd st) nxt (fst st) in (p', k)) todo (p, s0))
  end.

(* a script of operations driven from outside *)
Inductive pop := OpBatch | OpSingle | OpScalars | OpContract (i j : nat).
Definition proc_step (p : proc) (o : pop) : proc :=
  match o with
  | OpBatch => proc_simplify_batch p
  | OpSingle => proc_simplify_single p
  | OpScalars => proc_simplify_scalars p
  | OpContract i j => fst (proc_contract i j p)
  end.

(* observation after every operation *)
Definition proc_obs (p : proc) :=
  (pnodes p, (pedges p, (pssa p, (ppath p, pflops_acc p)))).
Fixpoint proc_trace (p : proc) (ops : list pop) :=
  match ops with
  | [] => []
  | o :: ops' => let p' := proc_step p o in proc_obs p' :: proc_trace p' ops'
  end.
Definition proc_run (p : proc) (ops : list pop) : proc := fold_left proc_step ops p.

(* ------------------------------------------------------------------ *)
(* replaying one SSA path (pairs only) through the hypergraph *)
Definition hg_step_obs := (nat * (list ix * (Z * Z)))%type.   (* new id, inds, size, pair cost *)
Fixpoint hg_replay (g : hg) (path : list (nat * nat)) : list hg_step_obs :=
  match path with
  | [] => []
  | (i, j) :: path' =>
      let cost := contract_pair_cost g i j in
      let '(g', k) := hg_contract i j g in
      (k, (get_node g' k, (hg_node_size g' k, cost))) :: hg_replay g' path'
  end.

(* ... through the processor (after simplify_single_terms); observation: new id,
   legs, size, flops of the step *)
Fixpoint proc_replay (p : proc) (path : list (nat * nat)) : list (nat * (plegs * (Z * Z))) :=
  match path with
  | [] => []
  | (i, j) :: path' =>
      let f := pflops (pszs p) (pget p i) (pget p j) in
      let '(p', k) := proc_contract i j p in
      (k, (pget p' k, (psize (pszs p') (pget p' k), f))) :: proc_replay p' path'
  end.

(* the tree rule and the annealing rule for every internal node of a tree, in
   post order: (legs, size, flops) resp. compute_contracted_info of the children *)
Definition tree_rows (n : net) (t : tree) : list (legs * (Z * Z)) :=
  map (fun t' => (sub_legs n [] t', (node_size n [] false t', node_flops n [] t'))) (post_sub t).
Definition anneal_rows (n : net) (t : tree) : list (legs * (Z * Z)) :=
  map (fun t' => match t' with
                 | Leaf _ => ([], (0%Z, 0%Z))
                 | Node l r => anneal_info (appearances n) (szd n) (sub_legs n [] l) (sub_legs n [] r)
                 end) (post_sub t).

(* what RandomGreedyOptimizer reports for a path: processor with track_flops,
   simplify_batch (the first pass of simplify()), then the contractions *)
Definition reported_flops_gen (fx : bool) (n : net) (path : list (nat * nat)) : Z :=
  pflops_acc (proc_run (proc_simplify_batch (proc_init_gen fx n true)) (map (fun ij => OpContract (fst ij) (snd ij)) path)).
Definition reported_flops := reported_flops_gen false.

(* Reusable.v -- cotengra/reusable.py: the contraction fingerprints that are pickled and
   hashed (hash_contraction_a / hash_contraction_b), hash_query with directory_split,
   _maybe_run_optimizer for overwrite in {False, True, 'improved'} and cache_only over a
   DiskDict (Model/DiskFS.v), and search() with _reconstruct_tree
   (ContractionTree.from_path(path=...) followed by remove_ind_ for every stored index).
   The sub-optimizer is an oracle  orc : nat -> net -> con  (the result of the i-th
   search); sha1 o pickle is an argument  H : fpr -> name  whose injectivity is a
   hypothesis of the theorems (Proofs/ReusableFacts.v).
   MODEL FILE: executable definitions only. *)
From Ctg Require Export Base Net DiskFS.

(* ---- sorted(...) on the label / item / edge types that occur ------------------ *)
Definition sortn (l : list nat) : list nat := sort_by Nat.leb l.
Definition iz_le (a b : ix * Z) : bool :=
  Nat.ltb (fst a) (fst b) || (Nat.eqb (fst a) (fst b) && (snd a <=? snd b)%Z).
Definition sort_items (l : list (ix * Z)) : list (ix * Z) := sort_by iz_le l.
Definition sortz (l : list Z) : list Z := sort_by Z.leb l.
(* Python tuple comparison a <= b on tuples of ints *)
Fixpoint lexz_le (a b : list Z) : bool :=
  match a, b with
  | [], _ => true
  | _ :: _, [] => false
  | x :: a', y :: b' => (x <? y)%Z || ((x =? y)%Z && lexz_le a' b')
  end.
Definition sort_edges (l : list (list Z)) : list (list Z) := sort_by lexz_le l.

(* ---- what is pickled and hashed ------------------------------------------------ *)
Inductive fpr :=
| FpA (ins : list (list ix)) (out : list ix) (sz : list (ix * Z))
| FpB (edges : list (list Z)) (sz : list (ix * Z))
| FpB2 (ntensors : nat) (edges : list (list Z * Z)).     (* the repaired hash_contraction_b *)
#[export] Instance Eqb_fpr : Eqb fpr := fun x y =>
  match x, y with
  | FpA i o s, FpA i' o' s' => eqb i i' && eqb o o' && eqb s s'
  | FpB e s, FpB e' s' => eqb e e' && eqb s s'
  | FpB2 n e, FpB2 n' e' => eqb n n' && eqb e e'
  | _, _ => false
  end.

(* hash_contraction_a: (tuple(map(sortedtuple, inputs)), sortedtuple(output),
                        sortedtuple(size_dict.items())) *)
Definition fp_a (n : net) : fpr :=
  FpA (map sortn (inputs n)) (sortn (output n)) (sort_items (szd n)).

(* hash_contraction_b: edges[ix] = list of incident nodes (-1 = output), in
   insertion order; canonical_edges = sortedtuple(map(sortedtuple, edges.values())) *)
Definition edict := list (ix * list Z).
Fixpoint eadd (j : ix) (v : Z) (d : edict) : edict :=
  match d with
  | [] => [(j, [v])]
  | (k, l) :: d' => if Nat.eqb k j then (k, l ++ [v]) :: d' else (k, l) :: eadd j v d'
  end.
Definition edges_b (n : net) : edict :=
  let e0 := fold_left (fun d j => eadd j (-1)%Z d) (output n) [] in
  fst (fold_left (fun (st : edict * nat) term =>
                    (fold_left (fun d j => eadd j (Z.of_nat (snd st)) d) term (fst st), S (snd st)))
                 (inputs n) (e0, 0)).
Definition fp_b (n : net) : fpr :=
  FpB (sort_edges (map (fun e => sortz (snd e)) (edges_b n))) (sort_items (szd n)).

(* hash_contraction_b as repaired by proposed_fixes/C14_hash-b-collision.patch:
   (len(inputs), sortedtuple((sortedtuple(nodes), size_dict[ix]) for ix, nodes in edges.items()))
   -- the number of tensors is part of the fingerprint and every size travels with its edge *)
Definition ez_le (a b : list Z * Z) : bool :=
  (lexz_le (fst a) (fst b) && negb (list_eqb Z.eqb (fst a) (fst b)))
  || (list_eqb Z.eqb (fst a) (fst b) && (snd a <=? snd b)%Z).
Definition fp_b2 (n : net) : fpr :=
  FpB2 (length (inputs n))
       (sort_by ez_le (map (fun e => (sortz (snd e), zget (fst e) (szd n))) (edges_b n))).

Definition fingerprint (method_b : bool) (n : net) : fpr := if method_b then fp_b n else fp_a n.

(* ---- the cached record {path, score, sliced_inds} --------------------------------- *)
Record con := mkCon { c_path : list (nat * nat); c_score : Z; c_sliced : list ix }.
#[export] Instance Eqb_con : Eqb con := fun a b =>
  eqb (c_path a) (c_path b) && eqb (c_score a) (c_score b) && eqb (c_sliced a) (c_sliced b).

Inductive ovw := OvFalse | OvTrue | OvImproved.
(* b_fixed selects the model variant of hash_method='b' (as it stands / repaired); the harness
   decides it from the behaviour of the code under test *)
Record cfg := mkCfg { method_b : bool; split : bool; overwrite : ovw; cache_only : bool; b_fixed : bool }.
Definition fingerprint_c (c : cfg) (n : net) : fpr :=
  if method_b c then (if b_fixed c then fp_b2 n else fp_b n) else fp_a n.

Section Machine.
Variable H : fpr -> name.                 (* hashlib.sha1(pickle.dumps(.)).hexdigest() *)
Variable ops : ddops con.                 (* the DiskDict implementation in use *)
Variable orc : nat -> net -> con.         (* the i-th run of the sub-optimizer *)

(* hash_query: h, or (h[:2], h[2:]) with directory_split *)
Definition key_of (c : cfg) (q : net) : dkey :=
  let h := H (fingerprint_c c q) in
  if split c then KT [firstn 2 h; skipn 2 h] else KS h.

Definition pstate := (dd con * nat)%type.     (* the cache, number of searches so far *)

(* _maybe_run_optimizer: returns (should_run, con) or raises *)
Definition maybe_run (c : cfg) (st : pstate) (q : net) : res (bool * con) * pstate :=
  let '(d, ns) := st in
  let h := key_of c q in
  let '(present, d1) := o_contains ops d h in
  let missing := negb present in
  let should_run := missing || match overwrite c with OvFalse => false | _ => true end in
  if should_run then
    if cache_only c then (KeyErr, (d1, ns))
    else
      let cn := orc ns q in
      match overwrite c, missing with
      | OvImproved, false =>
          match o_getitem ops d1 h with
          | (Ok old, d2) =>
              if (c_score cn <? c_score old)%Z
              then (Ok (true, cn), (o_setitem ops d2 h cn, S ns))
              else (Ok (false, old), (d2, S ns))
          | (KeyErr, d2) => (KeyErr, (d2, S ns))
          | (UnboundErr, d2) => (UnboundErr, (d2, S ns))
          | (OtherErr, d2) => (OtherErr, (d2, S ns))
          end
      | _, _ => (Ok (true, cn), (o_setitem ops d1 h cn, S ns))
      end
  else
    match o_getitem ops d1 h with
    | (Ok cn, d2) => (Ok (false, cn), (d2, ns))
    | (KeyErr, d2) => (KeyErr, (d2, ns))
    | (UnboundErr, d2) => (UnboundErr, (d2, ns))
    | (OtherErr, d2) => (OtherErr, (d2, ns))
    end.

(* a session = one optimizer object (empty memory cache) serving a list of queries *)
Fixpoint run_queries (c : cfg) (st : pstate) (qs : list net) : list (res (bool * con)) * pstate :=
  match qs with
  | [] => ([], st)
  | q :: qs' =>
      let '(r, st1) := maybe_run c st q in
      let '(rs, st2) := run_queries c st1 qs' in
      (r :: rs, st2)
  end.

End Machine.

(* a fresh process / a new optimizer object over the same directory *)
Definition fresh (d : dd con) : dd con := mkDD [] (dd_dir d) (dd_fs d).

(* directory_split="auto": peek at the first child of the cache directory *)
Definition split_auto (f : fs) : bool :=
  match filter (fun e => Nat.eqb (length (fst e)) 1) f with
  | [] => true
  | e :: _ => match snd e with FDir => true | FFile _ => false end
  end.

(* ---- ContractionTree.from_path(path=...) for a linear path of pairs ---------------
   nodes = leaves; for p in path: merge = [nodes.pop(i) for i in sorted(p, reverse=True)];
   nodes.append(contract(merge)).  None = the path is not a complete valid path
   for this many tensors (IndexError, or more than one node left). *)
Fixpoint remove_nth {A} (i : nat) (l : list A) : list A :=
  match l, i with
  | [], _ => []
  | _ :: l', 0 => l'
  | x :: l', S i' => x :: remove_nth i' l'
  end.
Fixpoint path_nodes (p : list (nat * nat)) (nodes : list tree) : option (list tree) :=
  match p with
  | [] => Some nodes
  | (i, j) :: p' =>
      let hi := Nat.max i j in let lo := Nat.min i j in
      if Nat.eqb i j || negb (Nat.ltb hi (length nodes)) then None else
      match nth_error nodes hi, nth_error nodes lo with
      | Some a, Some b => path_nodes p' (remove_nth lo (remove_nth hi nodes) ++ [Node a b])
      | _, _ => None
      end
  end.
Definition path_to_tree (N : nat) (p : list (nat * nat)) : option tree :=
  match path_nodes p (map Leaf (seq 0 N)) with
  | Some [t] => Some t
  | _ => None
  end.

Definition all_indices (n : net) : list ix := concat (inputs n).

(* _reconstruct_tree of ReusableHyperOptimizer: from_path, then remove_ind_ per stored index *)
Definition reconstruct (q : net) (c : con) : option (tree * list slinfo) :=
  match path_to_tree (NN q) (c_path c) with
  | Some t => if forallb (fun j => memb j (all_indices q)) (c_sliced c)
              then Some (t, map (fun j => mkSl j None) (c_sliced c)) else None
  | None => None
  end.

(* the figures a score is computed from *)
Definition costs (q : net) (sl : list slinfo) (t : tree) : Z * (Z * Z) :=
  (total_flops q sl t, (total_write q sl t, max_size q sl t)).

(* the canonical shape of a tree: its internal nodes as sorted leaf sets, sorted *)
Fixpoint lexn_le (a b : list nat) : bool :=
  match a, b with
  | [], _ => true
  | _ :: _, [] => false
  | x :: a', y :: b' => Nat.ltb x y || (Nat.eqb x y && lexn_le a' b')
  end.
Definition tree_shape (t : tree) : list (list nat) :=
  sort_by lexn_le (map (fun s => sortn (leaves s)) (post_sub t)).

(* what search() hands back on a cache hit, with the figures of the rebuilt tree *)
Definition hit_view (q : net) (c : con) : option (list (list nat) * (Z * (Z * Z))) :=
  match reconstruct q c with
  | Some (t, sl) => Some (tree_shape t, costs q sl t)
  | None => None
  end.

(* ---- a table-driven hash for the executed correspondence ------------------------- *)
Fixpoint H_tab (tab : list (fpr * name)) (f : fpr) : name :=
  match tab with [] => [] | (g, h) :: tab' => if eqb g f then h else H_tab tab' f end.

(* ---- observations of a whole history, in canonical order, for the correspondence ---- *)
Fixpoint lexp_le (a b : path) : bool :=
  match a, b with
  | [], _ => true
  | _ :: _, [] => false
  | x :: a', y :: b' =>
      (lexn_le x y && negb (list_eqb Nat.eqb x y)) || (list_eqb Nat.eqb x y && lexp_le a' b')
  end.
Definition fs_obs_sorted (f : fs) : list (path * option nat) :=
  sort_by (fun a b => lexp_le (fst a) (fst b)) (fs_obs f).
Definition key_obs (k : dkey) : nat * path := match k with KS h => (0, [h]) | KT p => (1, p) end.
Definition mem_obs (d : dd con) : list (nat * path) :=
  sort_by (fun a b => Nat.ltb (fst a) (fst b) || (Nat.eqb (fst a) (fst b) && lexp_le (snd a) (snd b)))
          (map (fun e => key_obs (fst e)) (dd_mem d)).

(* after every query: outcome of _maybe_run_optimizer, searches so far, memory keys, directory *)
Definition qobs := (res (bool * con) * (nat * (list (nat * path) * list (path * option nat))))%type.

Section History.
Variable H : fpr -> name.
Variable ops : ddops con.
Variable orc : nat -> net -> con.

Fixpoint run_queries_obs (c : cfg) (st : pstate) (qs : list net) : list qobs * pstate :=
  match qs with
  | [] => ([], st)
  | q :: qs' =>
      let '(r, st1) := maybe_run H ops orc c st q in
      let o := (r, (snd st1, (mem_obs (fst st1), if dd_dir (fst st1) then fs_obs_sorted (dd_fs (fst st1)) else []))) in
      let '(os, st2) := run_queries_obs c st1 qs' in
      (o :: os, st2)
  end.

(* a session: (directory_split is "auto", configuration, queries); every session is a new
   optimizer object (possibly in a new process): empty memory over the same directory *)
Fixpoint run_history (dirflag : bool) (f : fs) (ns : nat) (ss : list (bool * (cfg * list net)))
  : list (list qobs) :=
  match ss with
  | [] => []
  | (auto, (c, qs)) :: ss' =>
      let c' := if auto then mkCfg (method_b c) (split_auto f) (overwrite c) (cache_only c) (b_fixed c) else c in
      let '(os, (d, ns')) := run_queries_obs c' (mkDD [] dirflag f, ns) qs in
      os :: run_history dirflag (if dirflag then dd_fs d else f) ns' ss'
  end.
End History.

(* the cache directory right after DiskDict.__init__ created it *)
Definition fs0 : fs := [([], FDir)].

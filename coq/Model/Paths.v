(* Paths.v -- executable model of the path formats of cotengra:
     core.py: _traverse_dfs (= Net.post_sub), _traverse_ordered (bisect = the real binary
              search), get_path (bisect_left), get_ssa_path, from_path (linear and ssa
              variants, unary and pairwise steps, autocomplete of <= 2 remaining nodes),
              contract_nodes_pair's child ordering
     pathfinders/path_basic.py: linear_to_ssa, ssa_to_linear, edge_path_to_ssa,
              edge_path_to_linear.
   Nodes (frozensets of leaves) are modelled by the subtree that builds them (Net.tree);
   a step with three or more tensors calls an optimizer in the real code and is outside the
   model of from_path (the converters handle steps of any length).
   MODEL FILE: executable definitions only. *)
From Ctg Require Export Base Net.

(* ------------------------------------------------------------------ *)
(* bisect.bisect_left(a, x) / bisect.bisect(a, x) as the binary searches of CPython *)
Fixpoint bisect_left_go (fuel : nat) (a : list nat) (x lo hi : nat) : nat :=
  match fuel with
  | O => lo
  | S f => if Nat.ltb lo hi
           then let mid := (lo + hi) / 2 in
                if Nat.ltb (nth mid a 0) x then bisect_left_go f a x (mid + 1) hi
                else bisect_left_go f a x lo mid
           else lo
  end.
Definition bisect_left (a : list nat) (x : nat) : nat := bisect_left_go (S (length a)) a x 0 (length a).

Fixpoint bisect_right_go (fuel : nat) (a : list nat) (x lo hi : nat) : nat :=
  match fuel with
  | O => lo
  | S f => if Nat.ltb lo hi
           then let mid := (lo + hi) / 2 in
                if Nat.ltb x (nth mid a 0) then bisect_right_go f a x lo mid
                else bisect_right_go f a x (mid + 1) hi
           else lo
  end.
Definition bisect_right (a : list nat) (x : nat) : nat := bisect_right_go (S (length a)) a x 0 (length a).

(* list.pop(k), list.insert(k, x) *)
Fixpoint pop_nth {A} (k : nat) (l : list A) : list A :=
  match l, k with
  | [], _ => []
  | _ :: l', O => l'
  | x :: l', S k' => x :: pop_nth k' l'
  end.
Fixpoint insert_at {A} (k : nat) (x : A) (l : list A) : list A :=
  match k, l with
  | O, _ => x :: l
  | S k', y :: l' => y :: insert_at k' x l'
  | S _, [] => [x]
  end.

(* sorted(con) / sorted(con, reverse=True) on naturals *)
Definition sort_asc (l : list nat) : list nat := sort_by Nat.leb l.
Definition sort_desc (l : list nat) : list nat := rev (sort_asc l).

(* ------------------------------------------------------------------ *)
(* path_basic.linear_to_ssa(path, N) *)
Definition lin_step (st : list nat * nat * list (list nat)) (con : list nat) :=
  let '(ids, ssa, acc) := st in
  (* scon = tuple(ids.pop(c) for c in sorted(con, reverse=True)) *)
  let '(ids', scon) := fold_left (fun s c => (pop_nth c (fst s), snd s ++ [nth c (fst s) 0]))
                                 (sort_desc con) (ids, []) in
  (ids' ++ [ssa], S ssa, acc ++ [scon]).
Definition linear_to_ssa (path : list (list nat)) (N : nat) : list (list nat) :=
  snd (fold_left lin_step path (seq 0 N, N, [])).

(* path_basic.ssa_to_linear(ssa_path, N) *)
Definition ssa_step (st : list nat * nat * list (list nat)) (scon : list nat) :=
  let '(ids, ssa, acc) := st in
  let con := sort_asc (map (bisect_left ids) scon) in
  let ids' := fold_left (fun l j => pop_nth j l) (rev con) ids in
  (ids' ++ [ssa], S ssa, acc ++ [con]).
Definition ssa_to_linear (ssa_path : list (list nat)) (N : nat) : list (list nat) :=
  snd (fold_left ssa_step ssa_path (seq 0 N, N, [])).

(* ------------------------------------------------------------------ *)
(* trees as nodes *)
Fixpoint tree_eqb (a b : tree) : bool :=
  match a, b with
  | Leaf i, Leaf j => Nat.eqb i j
  | Node l r, Node l' r' => tree_eqb l l' && tree_eqb r r'
  | _, _ => false
  end.
#[export] Instance Eqb_tree : Eqb tree := tree_eqb.

Definition is_internal (t : tree) : bool := match t with Leaf _ => false | Node _ _ => true end.
Fixpoint count_internal (t : tree) : nat :=
  match t with Leaf _ => 0 | Node l r => S (count_internal l + count_internal r) end.
Definition tmemb (t : tree) (l : list tree) : bool := existsb (tree_eqb t) l.

(* _traverse_ordered(order): queue / scores / seen exactly as in the code.
   inner loop state: (i, queue, scores, seen) *)
Section Ordered.
Variable order : tree -> nat.

Definition visit_child (st : nat * list tree * list nat) (child : tree) : nat * list tree * list nat :=
  let '(i, queue, scores) := st in
  if is_internal child then
    let score := order child in
    let ci := bisect_right (firstn i scores) score in
    (S i, insert_at ci child queue, insert_at ci score scores)
  else st.

Fixpoint inner_loop (fuel : nat) (i : nat) (queue : list tree) (scores : list nat) (seen : list tree)
  : list tree * list nat * list tree :=
  match fuel with
  | O => (queue, scores, seen)
  | S f =>
      if Nat.ltb i (length queue) then
        let node := nth i queue (Leaf 0) in
        if tmemb node seen then inner_loop f (S i) queue scores seen
        else
          let '(i', queue', scores') :=
            match node with
            | Node l r => fold_left visit_child [l; r] (i, queue, scores)
            | Leaf _ => (i, queue, scores)
            end in
          inner_loop f (S i') queue' scores' (node :: seen)
      else (queue, scores, seen)
  end.

Fixpoint outer_loop (fuel : nat) (nchildren : nat) (queue : list tree) (scores : list nat) (seen : list tree) : list tree :=
  match fuel with
  | O => queue
  | S f =>
      if Nat.eqb (length seen) nchildren then queue
      else let '(q, s, sn) := inner_loop (2 * nchildren + 2) 0 queue scores seen in
           outer_loop f nchildren q s sn
  end.

Definition traverse_ordered (t : tree) : list tree :=
  match t with
  | Leaf _ => []
  | Node _ _ => let n := count_internal t in outer_loop (S n) n [t] [order t] []
  end.
End Ordered.

(* ------------------------------------------------------------------ *)
(* get_ssa_path / get_path over a traversal (list of internal nodes, children first) *)
Definition nmap := list (tree * nat).
Fixpoint nm_get (t : tree) (m : nmap) : nat :=
  match m with [] => 0 | (k, v) :: m' => if tree_eqb k t then v else nm_get t m' end.
Definition leaf_map (N : nat) : nmap := map (fun i => (Leaf i, i)) (seq 0 N).

Definition ssa_path_step (N : nat) (st : nmap * list (nat * nat)) (p : tree) :=
  let '(pos, acc) := st in
  match p with
  | Node l r =>
      let a := nm_get l pos in let b := nm_get r pos in
      let acc' := acc ++ [(Nat.min a b, Nat.max a b)] in
      ((p, length acc' + N - 1) :: pos, acc')
  | Leaf _ => st
  end.
Definition get_ssa_path (N : nat) (trav : list tree) : list (nat * nat) :=
  snd (fold_left (ssa_path_step N) trav (leaf_map N, [])).

Definition path_step (st : nmap * list nat * nat * list (nat * nat)) (p : tree) :=
  let '(node_to_ssa, ssas, ssa, acc) := st in
  match p with
  | Node l r =>
      let lssa := nm_get l node_to_ssa in let rssa := nm_get r node_to_ssa in
      let a := bisect_left ssas lssa in let b := bisect_left ssas rssa in
      let i := Nat.min a b in let j := Nat.max a b in
      let ssas' := pop_nth i (pop_nth j ssas) ++ [ssa] in
      ((p, ssa) :: node_to_ssa, ssas', S ssa, acc ++ [(i, j)])
  | Leaf _ => st
  end.
Definition get_path (N : nat) (trav : list tree) : list (nat * nat) :=
  snd (fold_left path_step trav (leaf_map N, seq 0 N, N, [])).

(* ------------------------------------------------------------------ *)
(* contract_nodes_pair: heavier subtree left; ties: the one holding the smaller leaf left *)
Definition min_leaf (t : tree) : nat := fold_left Nat.min (leaves t) (hd 0 (leaves t)).
Definition mk_pair (x y : tree) : tree :=
  let nx := nleaves x in let ny := nleaves y in
  if Nat.eqb nx ny then (if Nat.ltb (min_leaf x) (min_leaf y) then Node x y else Node y x)
  else if Nat.ltb ny nx then Node x y else Node y x.
(* contract_nodes on 1 or 2 nodes (None: an optimizer would be called) *)
Definition contract_nodes (merge : list tree) : option tree :=
  match merge with
  | [x] => Some x
  | [x; y] => Some (mk_pair x y)
  | _ => None
  end.

(* from_path, regular path: merge = [nodes.pop(i) for i in sorted(p, reverse=True)] *)
Definition from_path_step (st : option (list tree)) (p : list nat) : option (list tree) :=
  match st with
  | None => None
  | Some nodes =>
      let '(nodes', merge) := fold_left (fun s c => (pop_nth c (fst s), snd s ++ [nth c (fst s) (Leaf 0)]))
                                        (sort_desc p) (nodes, []) in
      match contract_nodes merge with Some t => Some (nodes' ++ [t]) | None => None end
  end.
(* the forest left after the path, then autocomplete *)
Definition autocomplete (nodes : list tree) : option (list tree) :=
  match nodes with
  | [] | [_] => Some nodes
  | _ => match contract_nodes nodes with Some t => Some [t] | None => None end
  end.
Definition from_path (N : nat) (path : list (list nat)) : option (list tree) :=
  match fold_left from_path_step path (Some (map Leaf (seq 0 N))) with
  | Some nodes => autocomplete nodes
  | None => None
  end.

(* from_path, ssa path: nodes = dict(enumerate(leaves)); merge = [nodes.pop(i) for i in p] *)
Definition smap := list (nat * tree).
Fixpoint sm_get (i : nat) (m : smap) : tree :=
  match m with [] => Leaf 0 | (k, v) :: m' => if Nat.eqb k i then v else sm_get i m' end.
Definition sm_del (i : nat) (m : smap) : smap := filter (fun kv => negb (Nat.eqb (fst kv) i)) m.
Definition from_ssa_step (st : option (smap * nat)) (p : list nat) : option (smap * nat) :=
  match st with
  | None => None
  | Some (nodes, ssa) =>
      let '(nodes', merge) := fold_left (fun s c => (sm_del c (fst s), snd s ++ [sm_get c (fst s)])) p (nodes, []) in
      match contract_nodes merge with Some t => Some (nodes' ++ [(ssa, t)], S ssa) | None => None end
  end.
Definition from_ssa_path (N : nat) (path : list (list nat)) : option (list tree) :=
  match fold_left from_ssa_step path (Some (map (fun i => (i, Leaf i)) (seq 0 N), N)) with
  | Some (nodes, _) => autocomplete (map snd nodes)
  | None => None
  end.

(* the set of intermediates of a forest: sorted leaf sets of all internal nodes *)
Fixpoint subtrees (t : tree) : list tree :=
  match t with Leaf _ => [] | Node l r => subtrees l ++ subtrees r ++ [t] end.
Definition node_set (t : tree) : list nat := sort_asc (leaves t).

(* ------------------------------------------------------------------ *)
(* edge_path_to_ssa(edge_path, inputs), both dicts as association lists, sets as sorted lists *)
Fixpoint set_add (x : nat) (l : list nat) : list nat :=
  match l with
  | [] => [x]
  | y :: l' => if Nat.ltb x y then x :: l else if Nat.eqb x y then l else y :: set_add x l'
  end.
Definition set_remove (x : nat) (l : list nat) : list nat := filter (fun y => negb (Nat.eqb y x)) l.
Definition amap := list (nat * list nat).
Fixpoint am_get (k : nat) (m : amap) : option (list nat) :=
  match m with [] => None | (a, v) :: m' => if Nat.eqb a k then Some v else am_get k m' end.
Definition am_del (k : nat) (m : amap) : amap := filter (fun kv => negb (Nat.eqb (fst kv) k)) m.
Fixpoint am_set (k : nat) (v : list nat) (m : amap) : amap :=
  match m with
  | [] => [(k, v)]
  | (a, w) :: m' => if Nat.eqb a k then (a, v) :: m' else (a, w) :: am_set k v m'
  end.
Definition am_add (k x : nat) (m : amap) : amap :=
  am_set k (set_add x (match am_get k m with Some s => s | None => [] end)) m.

Record estate := mkES { ind_to_ssas : amap; ssa_to_inds : amap; e_ssa : nat; e_path : list (list nat); e_raised : bool }.

Definition edge_init (inputs : list (list ix)) : estate :=
  let i2s := fold_left (fun m it => fold_left (fun m' j => am_add j (fst it) m') (snd it) m)
                       (combine (seq 0 (length inputs)) inputs) [] in
  let s2i := map (fun it => (fst it, fold_left (fun s j => set_add j s) (snd it) []))
                 (combine (seq 0 (length inputs)) inputs) in
  mkES i2s s2i (length inputs) [] false.

Definition edge_step (st : estate) (j : ix) : estate :=
  if e_raised st then st else
  match am_get j (ind_to_ssas st) with
  | None => mkES (ind_to_ssas st) (ssa_to_inds st) (e_ssa st) (e_path st) true   (* KeyError *)
  | Some scon =>
      let i2s := am_del j (ind_to_ssas st) in
      if Nat.ltb (length scon) 2 then mkES i2s (ssa_to_inds st) (e_ssa st) (e_path st) false
      else
        let ssa := e_ssa st in
        (* for s in scon: for jx in ssa_to_inds.pop(s): if jx still tracked: move s -> ssa *)
        let '(i2s', s2i', new_term) :=
          fold_left (fun acc s =>
                       let '(m, s2i, nt) := acc in
                       let inds := match am_get s s2i with Some l => l | None => [] end in
                       let '(m', nt') := fold_left (fun a jx =>
                                            match am_get jx (fst a) with
                                            | Some set => (am_set jx (set_add ssa (set_remove s set)) (fst a), set_add jx (snd a))
                                            | None => a
                                            end) inds (m, nt) in
                       (m', am_del s s2i, nt'))
                    scon (i2s, ssa_to_inds st, []) in
        mkES i2s' (s2i' ++ [(ssa, new_term)]) (S ssa) (e_path st ++ [scon]) false
  end.
Definition edge_path_to_ssa (edge_path : list ix) (inputs : list (list ix)) : list (list nat) * bool :=
  let st := fold_left edge_step edge_path (edge_init inputs) in (e_path st, e_raised st).
Definition edge_path_to_linear (edge_path : list ix) (inputs : list (list ix)) : list (list nat) :=
  ssa_to_linear (fst (edge_path_to_ssa edge_path inputs)) (length inputs).

(* ------------------------------------------------------------------ *)
(* checkers run on the real traversals / paths (soundness: Proofs/PathsFacts.v) *)
(* every internal child was emitted before its parent *)
Fixpoint children_first_from (seen : list tree) (trav : list tree) : bool :=
  match trav with
  | [] => true
  | p :: rest =>
      match p with
      | Node l r => (negb (is_internal l) || tmemb l seen) && (negb (is_internal r) || tmemb r seen)
      | Leaf _ => false
      end && children_first_from (p :: seen) rest
  end.
Definition children_first_b (trav : list tree) : bool := children_first_from [] trav.
(* the traversal lists every internal node of t, and nothing more (lengths agree) *)
Definition covers_b (t : tree) (trav : list tree) : bool :=
  Nat.eqb (length trav) (count_internal t) && forallb (fun s => tmemb s trav) (post_sub t)
  && forallb (fun s => tmemb s (post_sub t)) trav.
(* same set of intermediates (as sorted leaf sets) *)
Definition lmemb (x : list nat) (l : list (list nat)) : bool := existsb (fun y => eqb x y) l.
Definition same_nodes (a b : tree) : bool :=
  let na := map node_set (post_sub a) in let nb := map node_set (post_sub b) in
  forallb (fun x => lmemb x nb) na && forallb (fun x => lmemb x na) nb.
Definition roundtrip_ssa_b (N : nat) (t : tree) (ssa_path : list (list nat)) : bool :=
  match from_ssa_path N ssa_path with Some [t'] => same_nodes t t' | _ => false end.
Definition roundtrip_lin_b (N : nat) (t : tree) (path : list (list nat)) : bool :=
  match from_path N path with Some [t'] => same_nodes t t' | _ => false end.
(* ssa_to_linear . linear_to_ssa = identity up to the order inside a step *)
Definition inverse_ok_b (path : list (list nat)) (N : nat) : bool :=
  eqb (ssa_to_linear (linear_to_ssa path N) N) (map sort_asc path).

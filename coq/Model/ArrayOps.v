(* ArrayOps.v -- positional semantics of the numpy kernels used by
   cotengra.contract._do_contraction_via_bmm / _einsum_single, over Z, on
   row-major tensors; the plan executors; and the reference einsum written
   directly from the mathematical definition.
   MODEL FILE: definitions only, no proofs (lemmas live in Proofs/BMMFacts.v).

   A tensor is (shape, data) with data in row-major (C) order, length = product
   of the shape.  Every kernel is defined through `tget` (read one entry by a
   multi-index) and `tbuild` (tabulate a function over all multi-indices in
   row-major order).  A numpy exception is `None`.                             *)
From Ctg Require Import Base BMM.

Definition tensor : Type := (list nat * list Z)%type.
Definition tshape (t : tensor) : list nat := fst t.
Definition tdata (t : tensor) : list Z := snd t.
Definition wf_tensor (t : tensor) : bool := Nat.eqb (length (tdata t)) (nprod (tshape t)).

(* row-major ravel / unravel *)
Fixpoint ravel (s idx : list nat) : nat :=
  match s, idx with
  | _ :: s', i :: idx' => i * nprod s' + ravel s' idx'
  | _, _ => 0
  end.
Fixpoint unravel (s : list nat) (k : nat) : list nat :=
  match s with
  | [] => []
  | _ :: s' => (k / nprod s') :: unravel s' (k mod nprod s')
  end.
(* all multi-indices of a shape, in row-major order *)
Fixpoint all_idx (s : list nat) : list (list nat) :=
  match s with
  | [] => [[]]
  | d :: s' => flat_map (fun i => map (cons i) (all_idx s')) (seq 0 d)
  end.

Definition tget (t : tensor) (idx : list nat) : Z := nth (ravel (tshape t) idx) (tdata t) 0%Z.
Definition tbuild (s : list nat) (f : list nat -> Z) : tensor := (s, map f (all_idx s)).

Definition pos_in (j : nat) (l : list nat) : nat := match find_pos j l with Some p => p | None => 0 end.
Definition dims_at (s : list nat) (ps : list nat) : list nat := map (fun p => nth p s 0) ps.

(* ------------------------------------------------------------------ *)
(* numpy.transpose(x, perm): result axis k is input axis perm[k]        *)
Definition is_perm (p : list nat) (n : nat) : bool :=
  Nat.eqb (length p) n && forallb (fun j => memb j p) (seq 0 n).
Definition transpose (t : tensor) (p : list nat) : option tensor :=
  let r := length (tshape t) in
  if is_perm p r then
    Some (tbuild (dims_at (tshape t) p)
                 (fun idx => tget t (map (fun j => nth (pos_in j p) idx 0) (seq 0 r))))
  else None.

(* numpy.reshape(x, s): same row-major data *)
Definition reshape (t : tensor) (s : list nat) : option tensor :=
  if Nat.eqb (nprod s) (length (tdata t)) then Some (s, tdata t) else None.

(* build a full multi-index of rank r from two partial ones living at positions pa / pb *)
Definition assemble (r : nat) (pa ia pb ib : list nat) : list nat :=
  map (fun j => match find_pos j pa with
                | Some p => nth p ia 0
                | None => match find_pos j pb with Some p => nth p ib 0 | None => 0 end
                end) (seq 0 r).

Fixpoint nodupb (l : list nat) : bool :=
  match l with [] => true | x :: l' => negb (memb x l') && nodupb l' end.

(* numpy.sum(x, axis=tuple) *)
Definition sum_axes (t : tensor) (axes : list nat) : option tensor :=
  let r := length (tshape t) in
  if nodupb axes && forallb (fun a => Nat.ltb a r) axes then
    let kept := filter (fun j => negb (memb j axes)) (seq 0 r) in
    Some (tbuild (dims_at (tshape t) kept)
                 (fun oidx => zsum (map (fun sidx => tget t (assemble r kept oidx axes sidx))
                                        (all_idx (dims_at (tshape t) axes)))))
  else None.

(* x[selector] with k >= 1 advanced indices tuple(range(n)) and slice(None) elsewhere.
   numpy: the advanced indices are broadcast together (all have length n) and give ONE
   result axis of length n; it sits where the advanced indices were if they are all
   adjacent, otherwise it comes first; the sliced axes keep their order. *)
Definition adv_positions (sel : selector) : list nat :=
  filter (fun j => match nth j sel None with Some _ => true | None => false end) (seq 0 (length sel)).
Definition slice_positions (sel : selector) : list nat :=
  filter (fun j => match nth j sel None with Some _ => false | None => true end) (seq 0 (length sel)).
Definition insert_at {A} (k : nat) (x : A) (l : list A) : list A := firstn k l ++ x :: skipn k l.
Definition remove_at {A} (k : nat) (l : list A) : list A := firstn k l ++ skipn (S k) l.

Definition adv_index (t : tensor) (sel : selector) : option tensor :=
  let r := length (tshape t) in
  if negb (Nat.eqb (length sel) r) then None else
  let adv := adv_positions sel in
  let sl := slice_positions sel in
  match adv with
  | [] => Some t
  | a0 :: _ =>
    let ns := map (fun j => match nth j sel None with Some n => n | None => 0 end) adv in
    let n := hd 0 ns in
    if negb (forallb (Nat.eqb n) ns) then None                      (* broadcast error *)
    else if negb (forallb (fun j => Nat.leb n (nth j (tshape t) 0)) adv) then None   (* IndexError *)
    else
      let dpos := if eqb adv (seq a0 (length adv)) then a0 else 0 in
      Some (tbuild (insert_at dpos n (dims_at (tshape t) sl))
                   (fun idx => let dv := nth dpos idx 0 in
                               let sidx := remove_at dpos idx in
                               tget t (map (fun j => if memb j adv then dv else nth (pos_in j sl) sidx 0)
                                           (seq 0 r))))
  end.

(* numpy.matmul for the two forms the plans produce: 2-D x 2-D and 3-D x 3-D (same batch) *)
Definition matmul (x y : tensor) : option tensor :=
  match tshape x, tshape y with
  | [m; k], [k'; n] =>
    if Nat.eqb k k' then
      Some (tbuild [m; n] (fun idx => let i := nth 0 idx 0 in let j := nth 1 idx 0 in
              zsum (map (fun l => (tget x [i; l] * tget y [l; j])%Z) (seq 0 k))))
    else None
  | [b; m; k], [b'; k'; n] =>
    if Nat.eqb k k' && Nat.eqb b b' then
      Some (tbuild [b; m; n] (fun idx => let c := nth 0 idx 0 in let i := nth 1 idx 0 in let j := nth 2 idx 0 in
              zsum (map (fun l => (tget x [c; i; l] * tget y [c; l; j])%Z) (seq 0 k))))
    else None
  | _, _ => None
  end.

(* numpy.multiply with broadcasting, for operands of equal rank *)
Fixpoint bcast_shape (s1 s2 : list nat) : option (list nat) :=
  match s1, s2 with
  | [], [] => Some []
  | d1 :: r1, d2 :: r2 =>
    match bcast_shape r1 r2 with
    | None => None
    | Some r => if Nat.eqb d1 d2 then Some (d1 :: r)
                else if Nat.eqb d1 1 then Some (d2 :: r)
                else if Nat.eqb d2 1 then Some (d1 :: r) else None
    end
  | _, _ => None
  end.
Fixpoint clip (s idx : list nat) : list nat :=
  match s, idx with
  | d :: s', i :: idx' => (if Nat.eqb d 1 then 0 else i) :: clip s' idx'
  | _, _ => []
  end.
Definition multiply (x y : tensor) : option tensor :=
  match bcast_shape (tshape x) (tshape y) with
  | None => None
  | Some s => Some (tbuild s (fun idx => (tget x (clip (tshape x) idx) * tget y (clip (tshape y) idx))%Z))
  end.

(* ------------------------------------------------------------------ *)
(* option plumbing *)
Definition obind {A B} (x : option A) (f : A -> option B) : option B :=
  match x with Some a => f a | None => None end.
Definition omaybe {A} (o : option A) (f : A -> tensor -> option tensor) (t : tensor) : option tensor :=
  match o with Some a => f a t | None => Some t end.

(* _einsum_single after the plan has been parsed (the path used when the backend
   has no einsum): diagonals, then sums, then the transposition *)
Definition exec_single (plan : single_plan) (x : tensor) : option tensor :=
  let '(diag_sels, (sum_ax, perm)) := plan in
  obind (match diag_sels with
         | Some sels => fold_left (fun ox sel => obind ox (fun x => adv_index x sel)) sels (Some x)
         | None => Some x
         end) (fun x1 =>
  obind (omaybe sum_ax (fun ax t => sum_axes t ax) x1) (fun x2 =>
  omaybe perm (fun p t => transpose t p) x2)).

Definition einsum_single (eq : str) (x : tensor) : option tensor :=
  obind (parse_single eq (tshape x)) (fun plan => exec_single plan x).

(* the "prepare left / right" part of _do_contraction_via_bmm *)
Definition exec_pre (p : pre) (x : tensor) : option tensor :=
  match p with
  | None => Some x
  | Some (true, perm) => transpose x perm
  | Some (false, eq) => einsum_single eq x
  end.

(* _do_contraction_via_bmm *)
Definition exec_bmm (plan : bmm_plan) (a b : tensor) : option tensor :=
  let '(eq_a, (eq_b, (nsa, (nsb, (nsab, (perm_ab, pure)))))) := plan in
  obind (exec_pre eq_a a) (fun a1 =>
  obind (omaybe nsa (fun s t => reshape t s) a1) (fun a2 =>
  obind (exec_pre eq_b b) (fun b1 =>
  obind (omaybe nsb (fun s t => reshape t s) b1) (fun b2 =>
  if pure then multiply a2 b2
  else
    obind (matmul a2 b2) (fun ab =>
    obind (omaybe nsab (fun s t => reshape t s) ab) (fun ab1 =>
    omaybe perm_ab (fun p t => transpose t p) ab1)))))).

(* cotengra.contract.einsum(eq, a, b=None) *)
Definition einsum2 (eq : str) (a b : tensor) : option tensor :=
  obind (parse_bmm eq (tshape a) (tshape b)) (fun plan => exec_bmm plan a b).
(* cotengra.contract.tensordot(a, b, axes) after `axes` has been made hashable *)
Definition tensordot (axes : axes_spec) (a b : tensor) : option tensor :=
  obind (parse_tdot axes (tshape a) (tshape b)) (fun plan => exec_bmm plan a b).

(* ------------------------------------------------------------------ *)
(* REFERENCE: the mathematical einsum.
   terms: the index labels of each operand (repeats allowed = diagonal);
   out: the output labels.  The size of a label is the dimension of its first
   occurrence.  result[o] = sum over all assignments of the labels that occur
   in the operands but not in `out` of the product of the operand entries. *)
Definition env := list (nat * nat).
Fixpoint elook (e : env) (j : nat) : nat :=
  match e with [] => 0 | (k, v) :: e' => if Nat.eqb k j then v else elook e' j end.

Definition label_sizes (terms : list str) (ops : list tensor) : env :=
  concat (map (fun to => combine (fst to) (tshape (snd to))) (combine terms ops)).

Definition zprodl (l : list Z) : Z := fold_right Z.mul 1%Z l.

Definition einsum_ref (terms : list str) (out : str) (ops : list tensor) : tensor :=
  let sz := label_sizes terms ops in
  let inner := filter (fun j => negb (memb j out)) (unique (concat terms)) in
  tbuild (map (elook sz) out)
         (fun oidx =>
            zsum (map (fun iidx =>
                         let e := combine out oidx ++ combine inner iidx in
                         zprodl (map (fun to => tget (snd to) (map (elook e) (fst to))) (combine terms ops)))
                      (all_idx (map (elook sz) inner)))).

(* shape consistency of operands with an equation: every occurrence of a label has
   the same dimension, every dimension is >= 1, ranks match, out labels occur in the inputs *)
Definition consistent (terms : list str) (out : str) (ops : list tensor) : bool :=
  let sz := label_sizes terms ops in
  Nat.eqb (length terms) (length ops) &&
  forallb (fun to => Nat.eqb (length (fst to)) (length (tshape (snd to))) && wf_tensor (snd to)) (combine terms ops) &&
  forallb (fun kv => Nat.eqb (elook sz (fst kv)) (snd kv) && Nat.leb 1 (snd kv)) sz &&
  forallb (fun j => memb j (concat terms)) out && nodupb out.

(* REFERENCE: tensordot from its definition: contract a's axes xa[k] with b's axes xb[k];
   result axes = a's free axes in order, then b's free axes in order *)
Definition tensordot_ref (xa xb : list nat) (a b : tensor) : tensor :=
  let ra := length (tshape a) in
  let rb := length (tshape b) in
  let fa := filter (fun j => negb (memb j xa)) (seq 0 ra) in
  let fb := filter (fun j => negb (memb j xb)) (seq 0 rb) in
  tbuild (dims_at (tshape a) fa ++ dims_at (tshape b) fb)
         (fun idx =>
            let ia := firstn (length fa) idx in
            let ib := skipn (length fa) idx in
            zsum (map (fun c => (tget a (assemble ra fa ia xa c) * tget b (assemble rb fb ib xb c))%Z)
                      (all_idx (dims_at (tshape a) xa)))).

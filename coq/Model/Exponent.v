(* Exponent.v -- C19: exponent stripping (cotengra/contract.py Contractor.__call__,
   cotengra/core.py add_maybe_exponent_stripped / gather_slices,
   cotengra/interface.py single-term wrapper).
   MODEL FILE: definitions only.

   The model is ONE piece of generic Gallina code (Section Generic) over a carrier F
   of array entries and a carrier E of exponents with their operations.  It is
   instantiated twice:
     - over Coq's reals (F = E = R, exponent = a real log10, as in the Python code):
       the theorems of Proofs/ExponentFacts.v are about this instance;
     - over `xq` = exact rationals extended with the IEEE-754 special values
       NaN / +Inf / -Inf (no rounding, no overflow): executable by vm_compute; this
       instance is what the correspondence runs against the real code, and what
       exhibits the zero-slice defect ((nan, -inf) poisoning the gathered total).
       Since log10 is not a rational function, the xq instance represents an exponent
       e by its exact antilog 10^e (so `e + log10 f` is `E * f`, `10**(a-b)` is `A / B`,
       -inf is 0, and max is max because 10^. is increasing). *)
From Coq Require Import List Bool ZArith QArith Qabs Reals.
From Ctg Require Import Base.
Import ListNotations.

Section Generic.
Variables F E : Type.
Variable f0 : F.                       (* 0.0 *)
Variables fadd fmul fdiv : F -> F -> F.
Variable fabs : F -> F.
Variable fmax : F -> F -> F.           (* numpy max (reduction step) *)
Variable fis0 : F -> bool.             (* float(factor) == 0.0 *)
Variable fguard : F -> F.              (* the divisor used for `p_array / factor`: the factor itself in the
                                          pinned code, `factor + (factor == 0)` with the proposed fix *)
Variable eisninf : E -> bool.          (* `e == float("-inf")` guard of the proposed fix (constantly false
                                          in the pinned code) *)
Variable e0 : E.                       (* exponent 0.0 *)
Variable eninf : E.                    (* float("-inf") *)
Variable elog : F -> E.                (* log10 *)
Variable eadd : E -> E -> E.           (* exponent + log10(factor) *)
Variable emax : E -> E -> E.           (* Python's builtin max(x, y) *)
Variable epow : E -> E -> F.           (* 10 ** (x - y) *)

Definition tensor := list F.

(* a * x,  x / f,  x + y (same shape),  max(abs(x)) *)
Definition scale (a : F) (x : tensor) : tensor := map (fmul a) x.
Definition scale_r (x : tensor) (a : F) : tensor := map (fun v => fmul v a) x.   (* x * a, operand order of the code *)
Definition divs (x : tensor) (f : F) : tensor := map (fun v => fdiv v f) x.
Fixpoint vadd (x y : tensor) : tensor :=
  match x, y with
  | a :: x', b :: y' => fadd a b :: vadd x' y'
  | _, _ => []
  end.
Definition maxabs (x : tensor) : F := fold_right (fun v acc => fmax (fabs v) acc) f0 x.

(* ---- the kernels in table form: enough to execute a concrete einsum/tensordot step.
   out[k] = sum over (i,j) in row k of x[i]*y[j]   (bilinear)
   out[k] = sum over i in row k of x[i]            (single-term simplification) *)
(* positions are binary numbers (N) so that large tables stay small terms *)
Definition bil := list (list (N * N)).
Definition lin := list (list N).
Definition fsum (l : list F) : F := fold_right fadd f0 l.
Definition bil_apply (t : bil) (x y : tensor) : tensor :=
  map (fun row => fsum (map (fun ij => fmul (nth (N.to_nat (fst ij)) x f0) (nth (N.to_nat (snd ij)) y f0)) row)) t.
Definition lin_apply (t : lin) (x : tensor) : tensor :=
  map (fun row => fsum (map (fun i => nth (N.to_nat i) x f0) row)) t.

(* ---- Contractor.__call__ ------------------------------------------------------- *)
(* temps: dict node -> array, nodes numbered by the harness *)
Definition temps_t := list (nat * tensor).
Fixpoint tget (k : nat) (d : temps_t) : option tensor :=
  match d with
  | [] => None
  | (k', v) :: d' => if Nat.eqb k' k then Some v else tget k d'
  end.
Fixpoint tpop (k : nat) (d : temps_t) : option (tensor * temps_t) :=
  match d with
  | [] => None
  | (k', v) :: d' =>
      if Nat.eqb k' k then Some (v, d')
      else match tpop k d' with
           | Some (x, r) => Some (x, (k', v) :: r)
           | None => None
           end
  end.
Fixpoint tset (k : nat) (v : tensor) (d : temps_t) : temps_t :=
  match d with
  | [] => [(k, v)]
  | (k', w) :: d' => if Nat.eqb k' k then (k', v) :: d' else (k', w) :: tset k v d'
  end.

(* one entry of `contractions`: (p, None, None, ...) single-term step, or (p, l, r, ...) *)
Inductive instr :=
| IPre (p : nat) (u : tensor -> tensor)
| IPair (p l r : nat) (b : tensor -> tensor -> tensor).

Inductive outcome :=
| Raised                                  (* KeyError / UnboundLocalError *)
| Done (m : tensor) (e : option E)        (* return p_array[, exponent] *)
| ZeroExit.                               (* check_zero: return 0.0, float("-inf") *)

(*  for p, l, r, tdot, arg, perm in contractions:
        if (l is None) and (r is None): temps[p] = _einsum(arg, temps[p]); continue
        l_array = temps.pop(l); r_array = temps.pop(r)
        p_array = <kernel>(l_array, r_array)
        if exponent is not None:
            factor = max(abs(p_array))
            if check_zero and float(factor) == 0.0: return 0.0, float("-inf")
            exponent = exponent + log10(factor)
            p_array = p_array / factor
        temps[p] = p_array
    if exponent is not None: return p_array, exponent
    return p_array                                                              *)
Fixpoint run (strip cz : bool) (prog : list instr) (temps : temps_t) (e : E)
         (last : option tensor) : outcome :=
  match prog with
  | [] => match last with
          | None => Raised
          | Some p => Done p (if strip then Some e else None)
          end
  | IPre p u :: rest =>
      match tget p temps with
      | None => Raised
      | Some x => run strip cz rest (tset p (u x) temps) e last
      end
  | IPair p l r b :: rest =>
      match tpop l temps with
      | None => Raised
      | Some (xl, t1) =>
          match tpop r t1 with
          | None => Raised
          | Some (xr, t2) =>
              let pa := b xl xr in
              if strip then
                let factor := maxabs pa in
                if cz && fis0 factor then ZeroExit
                else
                  let pa' := divs pa (fguard factor) in
                  run strip cz rest (tset p pa' t2) (eadd e (elog factor)) (Some pa')
              else run strip cz rest (tset p pa t2) e (Some pa)
          end
      end
  end.

Definition contract_core (strip cz : bool) (prog : list instr) (arrays : list tensor) : outcome :=
  run strip cz prog (combine (seq 0 (length arrays)) arrays) e0 None.

(* the trace of (factor, exponent after the step, max|mantissa| after the step) of the
   stripped run, for the correspondence and for `mantissa_bounded` *)
Fixpoint trace (prog : list instr) (temps : temps_t) (e : E) : list (F * (E * F)) :=
  match prog with
  | [] => []
  | IPre p u :: rest =>
      match tget p temps with
      | None => []
      | Some x => trace rest (tset p (u x) temps) e
      end
  | IPair p l r b :: rest =>
      match tpop l temps with
      | None => []
      | Some (xl, t1) =>
          match tpop r t1 with
          | None => []
          | Some (xr, t2) =>
              let pa := b xl xr in
              let factor := maxabs pa in
              let pa' := divs pa (fguard factor) in
              let e' := eadd e (elog factor) in
              (factor, (e', maxabs pa')) :: trace rest (tset p pa' t2) e'
          end
      end
  end.

(* well-formed programs: every register is consumed at most once, targets are fresh,
   exactly one register is live at the end (true of extract_contractions(tree)) *)
Fixpoint rem1 (k : nat) (l : list nat) : option (list nat) :=
  match l with
  | [] => None
  | x :: l' => if Nat.eqb x k then Some l'
               else match rem1 k l' with Some r => Some (x :: r) | None => None end
  end.
Fixpoint wf_prog (prog : list instr) (keys : list nat) : bool :=
  match prog with
  | [] => Nat.eqb (length keys) 1
  | IPre p _ :: rest => memb p keys && wf_prog rest keys
  | IPair p l r _ :: rest =>
      match rem1 l keys with
      | None => false
      | Some k1 => match rem1 r k1 with
                   | None => false
                   | Some k2 => negb (memb p k2) && wf_prog rest (k2 ++ [p])
                   end
      end
  end.

(* ---- (mantissa, exponent) pairs and their combination ---------------------------- *)
(* a mantissa is an array, or the Python scalar 0.0 of the check_zero exit (broadcast) *)
Inductive mant := MArr (x : tensor) | MScal (c : F).
Definition mscale_r (m : mant) (a : F) : mant :=      (* m * a *)
  match m with MArr x => MArr (scale_r x a) | MScal c => MScal (fmul c a) end.
Definition madd (m1 m2 : mant) : mant :=
  match m1, m2 with
  | MArr x, MArr y => MArr (vadd x y)
  | MArr x, MScal c => MArr (map (fun v => fadd v c) x)
  | MScal c, MArr y => MArr (map (fun v => fadd c v) y)
  | MScal c, MScal d => MScal (fadd c d)
  end.

(* a slice result: a plain array, or a tuple (mantissa, exponent) *)
Inductive sval := Plain (m : mant) | Strip (m : mant) (e : E).

Definition sval_of (o : outcome) : option sval :=
  match o with
  | Raised => None
  | Done m None => Some (Plain (MArr m))
  | Done m (Some e) => Some (Strip (MArr m) e)
  | ZeroExit => Some (Strip (MScal f0) eninf)
  end.

(*  def add_maybe_exponent_stripped(x, y):
        if not (xistup or yistup): return x + y
        xm, xe = x if xistup else (x, 0.0);  ym, ye = ...
        e = max(xe, ye)
        m = xm * 10 ** (xe - e) + ym * 10 ** (ye - e)
        return (m, e)                                                           *)
Definition add_maybe (x y : sval) : sval :=
  match x, y with
  | Plain xm, Plain ym => Plain (madd xm ym)
  | _, _ =>
      let '(xm, xe) := match x with Plain m => (m, e0) | Strip m e => (m, e) end in
      let '(ym, ye) := match y with Plain m => (m, e0) | Strip m e => (m, e) end in
      let e := emax xe ye in
      if eisninf e then Strip (madd xm ym) e      (* proposed fix: both terms exactly zero *)
      else Strip (madd (mscale_r xm (epow xe e)) (mscale_r ym (epow ye e))) e
  end.

(* functools.reduce(add_maybe_exponent_stripped, slices)  (no sliced output index) *)
Definition gather_sum (slices : list sval) : option sval :=
  match slices with
  | [] => None                                   (* reduce of an empty sequence raises *)
  | s :: rest => Some (fold_left add_maybe rest s)
  end.

(*  chunks = {}
    for i, s in enumerate(slices):
        key = ...
        try: chunks[key] = add_maybe_exponent_stripped(chunks[key], s)
        except KeyError: chunks[key] = s                                         *)
Fixpoint chunk_add (k : nat) (s : sval) (chunks : list (nat * sval)) : list (nat * sval) :=
  match chunks with
  | [] => [(k, s)]
  | (k', c) :: rest => if Nat.eqb k' k then (k', add_maybe c s) :: rest
                       else (k', c) :: chunk_add k s rest
  end.
Definition group_chunks (keyed : list (nat * sval)) : list (nat * sval) :=
  fold_left (fun chunks ks => chunk_add (fst ks) (snd ks) chunks) keyed [].

(*  if isinstance(next(iter(chunks.values())), tuple):
        emax = max(v[1] for v in chunks.values())
        chunks = {k: mi * 10 ** (ei - emax) for k, (mi, ei) in chunks.items()}
    else: emax = None
    result = <stack chunks>;  return (result, emax) if emax is not None else result
   The stacking layout itself is C06's subject: the model returns the rescaled chunks
   in dict order.  A chunk that is not a tuple while the first one is (or vice versa)
   makes the Python raise (TypeError); a Python-scalar mantissa next to arrays makes
   np.stack raise (ValueError). *)
Definition exps_of (chunks : list (nat * sval)) : option (list E) :=
  fold_right (fun kc acc => match snd kc, acc with
                            | Strip _ e, Some l => Some (e :: l)
                            | _, _ => None end) (Some []) chunks.
Definition pymax_list (l : list E) : option E :=
  match l with [] => None | x :: r => Some (fold_left emax r x) end.
Definition is_scal (m : mant) : bool := match m with MScal _ => true | MArr _ => false end.

Definition gather_stack (chunk0d : bool) (chunks : list (nat * sval)) : option (list (nat * mant) * option E) :=
  match chunks with
  | [] => None
  | (_, Plain _) :: _ =>
      if forallb (fun kc => match snd kc with Plain _ => true | _ => false end) chunks
      then Some (map (fun kc => (fst kc, match snd kc with Plain m => m | Strip m _ => m end)) chunks, None)
      else None
  | (_, Strip _ _) :: _ =>
      match exps_of chunks with
      | None => None
      | Some es =>
          match pymax_list es with
          | None => None
          | Some em =>
              let res := map (fun kc => (fst kc, match snd kc with
                                                 | Strip m e => if eisninf em then m   (* proposed fix *)
                                                                else mscale_r m (epow e em)
                                                 | Plain m => m end)) chunks in
              (* np.stack: a Python scalar next to arrays that are not 0-d raises; chunk0d = the
                 chunks are 0-d, i.e. every output index is sliced *)
              if existsb (fun km => is_scal (snd km)) res && negb chunk0d
                 && existsb (fun km => negb (is_scal (snd km))) res
              then None
              else Some (res, Some em)
          end
      end
  end.

(* tree.contract on a sliced tree: contract every slice with the same program,
   then gather.  `keys` = None: no sliced output index (sum); Some ks: key of each slice. *)
Definition contract_slices (strip cz : bool) (prog : list instr) (slices : list (list tensor))
  : option (list sval) :=
  fold_right (fun arrs acc => match sval_of (contract_core strip cz prog arrs), acc with
                              | Some s, Some l => Some (s :: l)
                              | _, _ => None end) (Some []) slices.

Definition contract_sum (strip cz : bool) prog slices : option sval :=
  match contract_slices strip cz prog slices with
  | None => None
  | Some l => gather_sum l
  end.
Definition contract_stack (strip cz chunk0d : bool) prog (keys : list nat) slices :=
  match contract_slices strip cz prog slices with
  | None => None
  | Some l => gather_stack chunk0d (group_chunks (combine keys l))
  end.

(* gen_output_chunks: chunk = contract_slice(first); chunk = chunk + contract_slice(i)...
   with strip_exponent the `+` is Python tuple concatenation, so the yielded object is
   only a (mantissa, exponent) pair when there is a single slice per chunk.  The model
   returns None where the code yields such a malformed tuple. *)
Definition output_chunk (use_add_maybe : bool) (l : list sval) : option sval :=
  match l with
  | [] => None
  | [s] => Some s
  | s :: rest => if use_add_maybe then Some (fold_left add_maybe rest s) else   (* proposed fix *)
  match l with
  | Plain m :: rest =>
      fold_left (fun acc s => match acc, s with
                              | Some (Plain a), Plain b => Some (Plain (madd a b))
                              | _, _ => None end) rest (Some (Plain m))
  | _ => None
  end
  end.

(* interface._build_expression, single input: fn_stripped = (fn(x), 0.0) *)
Definition single_term_stripped (u : tensor -> tensor) (x : tensor) : sval := Strip (MArr (u x)) e0.

End Generic.

Arguments IPre {F}.
Arguments IPair {F}.
Arguments Raised {F E}.
Arguments Done {F E}.
Arguments ZeroExit {F E}.
Arguments MArr {F}.
Arguments MScal {F}.
Arguments Plain {F E}.
Arguments Strip {F E}.

(* ================================================================================ *)
(* Instance 1: exact rationals with IEEE-754 special values (executable)             *)
Inductive xq := XF (q : Q) | XNaN | XPInf | XNInf.

Definition qsgn (q : Q) : Z := Z.sgn (Qnum q).
Definition xinf_of_sign (s : Z) : xq :=
  match s with Z0 => XNaN | Zpos _ => XPInf | Zneg _ => XNInf end.
Definition xsign (x : xq) : option Z :=      (* None: NaN *)
  match x with XF q => Some (qsgn q) | XNaN => None | XPInf => Some 1%Z | XNInf => Some (-1)%Z end.

Definition xadd (x y : xq) : xq :=
  match x, y with
  | XNaN, _ | _, XNaN => XNaN
  | XF a, XF b => XF (Qred (a + b))
  | XPInf, XNInf | XNInf, XPInf => XNaN
  | XPInf, _ | _, XPInf => XPInf
  | XNInf, _ | _, XNInf => XNInf
  end.
Definition xmul (x y : xq) : xq :=
  match x, y with
  | XNaN, _ | _, XNaN => XNaN
  | XF a, XF b => XF (Qred (a * b))
  | _, _ => match xsign x, xsign y with
            | Some s, Some t => xinf_of_sign (s * t)     (* inf * 0 = nan *)
            | _, _ => XNaN
            end
  end.
(* division; zeros are unsigned (+0): the only divisor that can be zero in the code is
   max(abs(.)), which is +0.0 *)
Definition xdiv (x y : xq) : xq :=
  match x, y with
  | XNaN, _ | _, XNaN => XNaN
  | XF a, XF b => if Qeq_bool b 0 then xinf_of_sign (qsgn a) else XF (Qred (a / b))
  | XF _, _ => XF 0
  | _, XF b => match xsign x with
               | Some s => xinf_of_sign (s * (if Qeq_bool b 0 then 1 else qsgn b))
               | None => XNaN end
  | _, _ => XNaN                                           (* inf / inf *)
  end.
Definition xabs (x : xq) : xq :=
  match x with XF q => XF (Qabs q) | XNaN => XNaN | _ => XPInf end.
(* IEEE > : false when a NaN is involved *)
Definition xgt (x y : xq) : bool :=
  match x, y with
  | XNaN, _ | _, XNaN => false
  | XF a, XF b => negb (Qle_bool a b)
  | XPInf, XPInf => false
  | XPInf, _ => true
  | _, XPInf => false
  | XNInf, _ => false
  | _, XNInf => true
  end.
(* numpy max reduction: NaN-propagating *)
Definition xmax (x y : xq) : xq :=
  match x, y with
  | XNaN, _ | _, XNaN => XNaN
  | _, _ => if xgt y x then y else x
  end.
(* Python builtin max(x, y): y only if y > x *)
Definition pymax (x y : xq) : xq := if xgt y x then y else x.
Definition xis0 (x : xq) : bool := match x with XF q => Qeq_bool q 0 | _ => false end.
(* log10 in antilog representation: the exponent log10 f is represented by f itself *)
Definition xlog (x : xq) : xq :=
  match x with
  | XF q => if Qle_bool 0 q then XF q else XNaN
  | XNInf => XNaN
  | _ => x
  end.

#[export] Instance Eqb_xq : Eqb xq := fun x y =>
  match x, y with
  | XF a, XF b => Qeq_bool a b
  | XNaN, XNaN | XPInf, XPInf | XNInf, XNInf => true
  | _, _ => false
  end.
(* the comparison does not distinguish a Python scalar from a 0-d array holding it *)
#[export] Instance Eqb_mant : Eqb (mant xq) := fun x y =>
  match x, y with
  | MArr a, MArr b => eqb a b
  | MScal a, MScal b => eqb a b
  | MArr [a], MScal b | MScal a, MArr [b] => eqb a b
  | _, _ => false
  end.
#[export] Instance Eqb_sval : Eqb (sval xq xq) := fun x y =>
  match x, y with
  | Plain a, Plain b => eqb a b
  | Strip a e, Strip b f => eqb a b && eqb e f
  | _, _ => false
  end.
#[export] Instance Eqb_outcome : Eqb (outcome xq xq) := fun x y =>
  match x, y with
  | Raised, Raised | ZeroExit, ZeroExit => true
  | Done a e, Done b f => eqb a b && eqb e f
  | _, _ => false
  end.

(* exponent 0.0 is antilog 1, -inf is antilog 0, e + log10 f is E*f, 10**(a-b) is A/B.
   `patched` selects the semantics of the proposed fix (proposed_fixes/C19_strip-zero-slice.patch):
   divisor factor + (factor == 0), and the `== -inf` guards. *)
Definition xguard (patched : bool) (f : xq) : xq :=
  if patched then xadd f (if xis0 f then XF 1 else XF 0) else f.
Definition xisninf (patched : bool) (e : xq) : bool := patched && xis0 e.   (* antilog 0 *)
Definition X_bil := bil_apply xq (XF 0) xadd xmul.
Definition X_lin := lin_apply xq (XF 0) xadd.
Definition X_core (pt : bool) := contract_core xq xq (XF 0) xdiv xabs xmax xis0 (xguard pt) (XF 1) xlog xmul.
Definition X_trace (pt : bool) (prog : list (instr xq)) (arrays : list (list xq)) :=
  trace xq xq (XF 0) xdiv xabs xmax (xguard pt) xlog xmul prog (combine (seq 0 (length arrays)) arrays) (XF 1).
Definition X_add (pt : bool) := add_maybe xq xq xadd xmul (xisninf pt) (XF 1) pymax xdiv.
Definition X_sum (pt : bool) :=
  contract_sum xq xq (XF 0) xadd xmul xdiv xabs xmax xis0 (xguard pt) (xisninf pt) (XF 1) (XF 0) xlog xmul pymax xdiv.
Definition X_stack (pt : bool) :=
  contract_stack xq xq (XF 0) xadd xmul xdiv xabs xmax xis0 (xguard pt) (xisninf pt) (XF 1) (XF 0) xlog xmul pymax xdiv.
Definition X_slices (pt : bool) := contract_slices xq xq (XF 0) xdiv xabs xmax xis0 (xguard pt) (XF 1) (XF 0) xlog xmul.
Definition X_chunk (pt : bool) := output_chunk xq xq xadd xmul (xisninf pt) (XF 1) pymax xdiv pt.
Definition X_wf := wf_prog xq.

(* literals used by the generated cases: n/d *)
Definition q (n : Z) (d : positive) : xq := XF (Qred (n # d)).
(* (n * 10^a) / (d * 10^b), the form in which the harness writes numbers with long runs of zeros *)
Definition qe (n : Z) (a : Z) (d : positive) (b : Z) : xq :=
  XF (Qred ((n * 10 ^ a) # (Z.to_pos (Zpos d * 10 ^ b)))).
Definition pair_step (p l r : nat) (t : bil) : instr xq := IPair p l r (X_bil t).
Definition pre_step (p : nat) (t : lin) : instr xq := IPre p (X_lin t).

(* ================================================================================ *)
(* Instance 2: Coq's real numbers (exponent = real log10, as in the code)            *)
Local Open Scope R_scope.
Definition log10 (x : R) : R := ln x / ln 10.
Definition pow10 (x : R) : R := Rpower 10 x.
Definition ris0 (x : R) : bool := if Req_EM_T x 0 then true else false.
Definition R_scale := scale R Rmult.
Definition R_divs := divs R Rdiv.
Definition R_maxabs := maxabs R 0 Rabs Rmax.
Definition R_vadd := vadd R Rplus.
Definition R_bil := bil_apply R 0 Rplus Rmult.
Definition R_lin := lin_apply R 0 Rplus.
(* the R instance has no -inf: `eninf` is only used by sval_of ZeroExit, instantiated with 0
   and never reached by the theorems (they are about check_zero=False, or about runs that
   end in Done) *)
(* `g` is the divisor guard: the theorems hold for every g that is the identity on non-zero
   factors -- the pinned code (g = id) and the proposed fix (g f = f + (f == 0)) alike *)
Definition R_run (g : R -> R) := run R R 0 Rdiv Rabs Rmax ris0 g log10 Rplus.
Definition R_trace (g : R -> R) := trace R R 0 Rdiv Rabs Rmax g log10 Rplus.
Definition rguard_fix (f : R) : R := f + (if ris0 f then 1 else 0).
Definition rnever (e : R) : bool := false.       (* R has no -inf *)
Definition R_add := add_maybe R R Rplus Rmult rnever 0 Rmax (fun a b => pow10 (a - b)).
Definition R_mscale_r := mscale_r R Rmult.
Definition R_madd := madd R Rplus.
Definition R_gather_sum := gather_sum R R Rplus Rmult rnever 0 Rmax (fun a b => pow10 (a - b)).
Definition R_gather_stack := gather_stack R R Rmult rnever Rmax (fun a b => pow10 (a - b)).
Definition R_group := group_chunks R R Rplus Rmult rnever 0 Rmax (fun a b => pow10 (a - b)).
(* the value denoted by a slice result: mantissa * 10^exponent *)
Definition R_value (s : sval R R) : mant R :=
  match s with Plain m => m | Strip m e => R_mscale_r m (pow10 e) end.

(* ---- executable judgement of a stripped result against a plain one (xq instance) ---- *)
Definition x_nonzero_finite (v : xq) : bool :=
  match v with XF a => negb (Qeq_bool a 0) | _ => false end.
Definition x_finite (v : xq) : bool := match v with XF _ => true | _ => false end.
(* mantissa * 10^exponent == plain result, entry by entry (exponent in antilog form) *)
Definition x_value_ok (plain stripped : sval xq xq) : bool :=
  match plain, stripped with
  | Plain (MArr r), Strip (MArr m) e => eqb (map (fun v => xmul v e) m) r
  | _, _ => false
  end.

(* ================================================================================ *)
(* Instance 3: reals with an exponent that may be -inf -- the semantics of the code after
   the fix commits 150ba09 / e2d82e1 (divisor factor + (factor == 0); `== -inf` guards).
   log10 0 = -inf, -inf + x = -inf, max as Python's, 10 ** (-inf - finite) = 0.
   `er_pow x ENInf` (10 ** (x - -inf)) is never evaluated by the code: in
   add_maybe_exponent_stripped and gather_slices the subtrahend is a maximum and the
   `== -inf` guard handles the case where that maximum is -inf; it is given the value 0. *)
Inductive er := EFin (r : R) | ENInf.
Definition er_add (a b : er) : er :=
  match a, b with EFin x, EFin y => EFin (x + y) | _, _ => ENInf end.
Definition er_log (f : R) : er := if ris0 f then ENInf else EFin (log10 f).
Definition er_max (a b : er) : er :=
  match a, b with
  | ENInf, _ => b
  | _, ENInf => a
  | EFin x, EFin y => EFin (Rmax x y)
  end.
Definition er_pow (a b : er) : R :=
  match a, b with
  | EFin x, EFin y => pow10 (x - y)
  | ENInf, EFin _ => 0
  | _, ENInf => 0
  end.
Definition er_isninf (e : er) : bool := match e with ENInf => true | EFin _ => false end.
(* 10^e with the convention 10^(-inf) = 0 *)
Definition p10 (e : er) : R := match e with EFin r => pow10 r | ENInf => 0 end.

Definition T_run := run R er 0 Rdiv Rabs Rmax ris0 rguard_fix er_log er_add.
Definition T_core := contract_core R er 0 Rdiv Rabs Rmax ris0 rguard_fix (EFin 0) er_log er_add.
Definition T_add := add_maybe R er Rplus Rmult er_isninf (EFin 0) er_max er_pow.
Definition T_gather_sum := gather_sum R er Rplus Rmult er_isninf (EFin 0) er_max er_pow.
Definition T_gather_stack := gather_stack R er Rmult er_isninf er_max er_pow.
Definition T_group := group_chunks R er Rplus Rmult er_isninf (EFin 0) er_max er_pow.
Definition T_value (s : sval R er) : mant R :=
  match s with Plain m => m | Strip m e => R_mscale_r m (p10 e) end.

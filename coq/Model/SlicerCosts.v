(* SlicerCosts.v -- cotengra/slicer.py: ContractionCosts (the slice finder's own
   incremental cost model) and SliceFinder.trial / best / search.
   MODEL FILE: executable definitions only, no proofs (lemmas: Proofs/SlicerFacts.v).

   Conventions
   * Python sets of indices (involved, legs) are lists of ix; set.discard = filter.
     Iteration order over a Python set is not observable here (all updates commute).
   * Python dicts / defaultdicts ix -> int are association lists (zdict).
   * `//` on Python ints is Z.div (both are floor division).
   * The random, score driven choice `max(cost.size_dict, key=...)` of trial is an
     ORACLE: a list of indices, one consumed per loop iteration.  Objective,
     temperature, rng and dict order live entirely inside that oracle.
   * target_overhead is a rational (num, den), den > 0: `overhead > t` is
     total_flops * den > num * original_flops (the code divides two ints as floats). *)
From Ctg Require Export Base Net.
Local Open Scope Z_scope.

(* ------------------------------------------------------------------ *)
(* dict  ix -> int                                                     *)
Definition zdict := list (ix * Z).
Fixpoint zd_get (j : ix) (d : zdict) : option Z :=
  match d with
  | [] => None
  | (k, v) :: d' => if Nat.eqb k j then Some v else zd_get j d'
  end.
(* defaultdict(lambda: 0) read; also size_dict[ix] is read through sd_get below *)
Definition zd_get0 (j : ix) (d : zdict) : Z := match zd_get j d with Some v => v | None => 0 end.
Definition zd_mem (j : ix) (d : zdict) : bool := match zd_get j d with Some _ => true | None => false end.
Fixpoint zd_set (j : ix) (v : Z) (d : zdict) : zdict :=
  match d with
  | [] => [(j, v)]
  | (k, w) :: d' => if Nat.eqb k j then (k, v) :: d' else (k, w) :: zd_set j v d'
  end.
(* d[j] += v on a defaultdict(lambda: 0) *)
Definition zd_add (j : ix) (v : Z) (d : zdict) : zdict := zd_set j (zd_get0 j d + v) d.
(* del d[j].  No-op when absent: inside SliceFinder.trial the key is always present
   because score_slice_index has read d[j] on the defaultdict just before. *)
Fixpoint zd_del (j : ix) (d : zdict) : zdict :=
  match d with
  | [] => []
  | (k, w) :: d' => if Nat.eqb k j then d' else (k, w) :: zd_del j d'
  end.
Definition zd_keys (d : zdict) : list ix := map fst d.
(* size_dict[j]; the default is never used for tables built from a tree *)
Definition sd_get (j : ix) (sd : zdict) : Z := zget j sd.

(* dict ix -> set of contraction numbers (self._where) *)
Definition wdict := list (ix * list nat).
Fixpoint wh_get (j : ix) (d : wdict) : option (list nat) :=
  match d with
  | [] => None
  | (k, v) :: d' => if Nat.eqb k j then Some v else wh_get j d'
  end.
Definition wh_get0 (j : ix) (d : wdict) : list nat := match wh_get j d with Some v => v | None => [] end.
(* self._where[j].add(i) on a defaultdict(set) *)
Fixpoint wh_add (j : ix) (i : nat) (d : wdict) : wdict :=
  match d with
  | [] => [(j, [i])]
  | (k, v) :: d' => if Nat.eqb k j then (k, if memb i v then v else v ++ [i]) :: d'
                    else (k, v) :: wh_add j i d'
  end.
Fixpoint wh_del (j : ix) (d : wdict) : wdict :=
  match d with
  | [] => []
  | (k, v) :: d' => if Nat.eqb k j then d' else (k, v) :: wh_del j d'
  end.

(* ------------------------------------------------------------------ *)
(* utils.MaxCounter: a Counter and the cached maximum (None = -inf)    *)
Record maxc := mkMC { mc_c : list (Z * nat); mc_max : option Z }.
Fixpoint cn_get (x : Z) (c : list (Z * nat)) : nat :=
  match c with
  | [] => 0%nat
  | (k, v) :: c' => if Z.eqb k x then v else cn_get x c'
  end.
Fixpoint cn_set (x : Z) (v : nat) (c : list (Z * nat)) : list (Z * nat) :=
  match c with
  | [] => [(x, v)]
  | (k, w) :: c' => if Z.eqb k x then (k, v) :: c' else (k, w) :: cn_set x v c'
  end.
Fixpoint cn_del (x : Z) (c : list (Z * nat)) : list (Z * nat) :=
  match c with
  | [] => []
  | (k, w) :: c' => if Z.eqb k x then c' else (k, w) :: cn_del x c'
  end.
(* max(self._c), None when empty (the ValueError branch) *)
Definition cn_max (c : list (Z * nat)) : option Z :=
  match c with
  | [] => None
  | (k, _) :: c' => Some (fold_left Z.max (map fst c') k)
  end.
Definition mc_empty : maxc := mkMC [] None.
Definition mc_add (x : Z) (m : maxc) : maxc :=
  mkMC (cn_set x (S (cn_get x (mc_c m))) (mc_c m))
       (match mc_max m with None => Some x | Some y => Some (Z.max y x) end).
Definition mc_discard (x : Z) (m : maxc) : maxc :=
  let cnt := cn_get x (mc_c m) in
  if (cnt <=? 1)%nat then
    let c' := cn_del x (mc_c m) in
    mkMC c' (match mc_max m with
             | Some y => if Z.eqb x y then cn_max c' else Some y
             | None => None
             end)
  else mkMC (cn_set x (cnt - 1)%nat (mc_c m)) (mc_max m).

(* ------------------------------------------------------------------ *)
(* ContractionCosts                                                    *)
(* one contraction: (involved, legs, size, flops)  -- IDX_INVOLVED .. IDX_FLOPS *)
Definition row := (list ix * (list ix * (Z * Z)))%type.
Definition r_inv (r : row) : list ix := fst r.
Definition r_legs (r : row) : list ix := fst (snd r).
Definition r_size (r : row) : Z := fst (snd (snd r)).
Definition r_flops (r : row) : Z := snd (snd (snd r)).

Record costs := mkCosts {
  c_sd : zdict;            (* size_dict *)
  c_tab : list row;        (* contractions *)
  c_nsl : Z;               (* nslices *)
  c_orig : Z;              (* original_flops *)
  c_flops : Z;             (* _flops *)
  c_sizes : maxc;          (* _sizes *)
  c_fred : zdict;          (* _flop_reductions *)
  c_wred : zdict;          (* _write_reductions *)
  c_where : wdict          (* _where *)
}.
Definition set_sd v c := mkCosts v (c_tab c) (c_nsl c) (c_orig c) (c_flops c) (c_sizes c) (c_fred c) (c_wred c) (c_where c).
Definition set_tab v c := mkCosts (c_sd c) v (c_nsl c) (c_orig c) (c_flops c) (c_sizes c) (c_fred c) (c_wred c) (c_where c).
Definition set_nsl v c := mkCosts (c_sd c) (c_tab c) v (c_orig c) (c_flops c) (c_sizes c) (c_fred c) (c_wred c) (c_where c).
Definition set_orig v c := mkCosts (c_sd c) (c_tab c) (c_nsl c) v (c_flops c) (c_sizes c) (c_fred c) (c_wred c) (c_where c).
Definition set_flops v c := mkCosts (c_sd c) (c_tab c) (c_nsl c) (c_orig c) v (c_sizes c) (c_fred c) (c_wred c) (c_where c).
Definition set_sizes v c := mkCosts (c_sd c) (c_tab c) (c_nsl c) (c_orig c) (c_flops c) v (c_fred c) (c_wred c) (c_where c).
Definition set_fred v c := mkCosts (c_sd c) (c_tab c) (c_nsl c) (c_orig c) (c_flops c) (c_sizes c) v (c_wred c) (c_where c).
Definition set_wred v c := mkCosts (c_sd c) (c_tab c) (c_nsl c) (c_orig c) (c_flops c) (c_sizes c) (c_fred c) v (c_where c).
Definition set_where v c := mkCosts (c_sd c) (c_tab c) (c_nsl c) (c_orig c) (c_flops c) (c_sizes c) (c_fred c) (c_wred c) v.

(* __init__: body of `for ix in c[IDX_INVOLVED]` *)
Definition init_ix (i : nat) (r : row) (c : costs) (j : ix) : costs :=
  let d := sd_get j (c_sd c) in
  let c := set_fred (zd_add j (r_flops r - r_flops r / d) (c_fred c)) c in
  let c := set_where (wh_add j i (c_where c)) c in
  if memb j (r_legs r)
  then set_wred (zd_add j (r_size r - r_size r / d) (c_wred c)) c
  else c.
(* __init__: body of `for i, c in enumerate(self.contractions)` *)
Definition init_row (c : costs) (ir : nat * row) : costs :=
  let '(i, r) := ir in
  let c := set_flops (c_flops c + r_flops r) c in
  let c := set_sizes (mc_add (r_size r) (c_sizes c)) c in
  fold_left (init_ix i r) (r_inv r) c.
Definition enumerate {A} (l : list A) : list (nat * A) := combine (seq 0%nat (length l)) l.
(* ContractionCosts(contractions, size_dict)   (nslices=1, original_flops=None) *)
Definition cc_init (tab : list row) (sd : zdict) : costs :=
  let c0 := mkCosts sd tab 1 0 0 mc_empty [] [] [] in
  let c := fold_left init_row (enumerate tab) c0 in
  set_orig (c_flops c) c.

(* properties *)
Definition cc_size (c : costs) : option Z := mc_max (c_sizes c).      (* None = -inf *)
Definition cc_total_flops (c : costs) : Z := c_nsl c * c_flops c.

(* remove: body of `for i in cost._where.pop(ix)` *)
Definition remove_at (ix : ix) (d : Z) (c : costs) (i : nat) : costs :=
  match nth_error (c_tab c) i with
  | None => c
  | Some r =>
      let old_flops := r_flops r in
      let old_size := r_size r in
      let new_flops := old_flops / d in
      let c := set_flops (c_flops c + (new_flops - old_flops)) c in
      let new_involved := filter (fun j => negb (Nat.eqb j ix)) (r_inv r) in
      let c := set_fred (fold_left (fun fr oix =>
                   let di := sd_get oix (c_sd c) in
                   let old_red := old_flops - old_flops / di in
                   let new_red := old_red / d in
                   zd_add oix (new_red - old_red) fr) new_involved (c_fred c)) c in
      if memb ix (r_legs r) then
        let new_size := old_size / d in
        let c := set_sizes (mc_add new_size (mc_discard old_size (c_sizes c))) c in
        let new_legs := filter (fun j => negb (Nat.eqb j ix)) (r_legs r) in
        let c := set_wred (fold_left (fun wr oix =>
                     let di := sd_get oix (c_sd c) in
                     let old_red := old_size - old_size / di in
                     let new_red := old_red / d in
                     zd_add oix (- (old_red - new_red)) wr) new_legs (c_wred c)) c in
        set_tab (firstn i (c_tab c) ++ (new_involved, (new_legs, (new_size, new_flops))) :: skipn (S i) (c_tab c)) c
      else
        set_tab (firstn i (c_tab c) ++ (new_involved, (r_legs r, (old_size, new_flops))) :: skipn (S i) (c_tab c)) c
  end.

(* ContractionCosts.remove(ix) on a copy; None = KeyError
   (ix not in size_dict, or ix not in _where: involved in no contraction) *)
Definition remove (ix : ix) (c : costs) : option costs :=
  match zd_get ix (c_sd c) with
  | None => None
  | Some d =>
      let c := set_nsl (c_nsl c * d) c in
      match wh_get ix (c_where c) with
      | None => None
      | Some is =>
          let c := set_where (wh_del ix (c_where c)) c in
          let c := fold_left (remove_at ix d) is c in
          let c := set_sd (zd_del ix (c_sd c)) c in
          let c := set_fred (zd_del ix (c_fred c)) c in
          Some (set_wred (zd_del ix (c_wred c)) c)
      end
  end.

Fixpoint remove_seq (xs : list ix) (c : costs) : option costs :=
  match xs with
  | [] => Some c
  | x :: xs' => match remove x c with Some c' => remove_seq xs' c' | None => None end
  end.

(* ------------------------------------------------------------------ *)
(* from_contraction_tree: rows in dfs order (the numbering of contractions is
   internal; the harness renumbers the real object's rows to this order)    *)
Definition row_of (n : net) (sl : list slinfo) (bt : bool * tree) : row :=
  (lkeys (involved n sl (snd bt)),
   (lkeys (node_legs n sl (fst bt) (snd bt)),
    (node_size n sl (fst bt) (snd bt), node_flops n sl (snd bt)))).
Definition tree_rows (n : net) (sl : list slinfo) (t : tree) : list row :=
  map (row_of n sl) (traverse_dfs t).
Definition costs_of_tree (n : net) (sl : list slinfo) (t : tree) : costs :=
  cc_init (tree_rows n sl t) (szd n).

(* ------------------------------------------------------------------ *)
(* SliceFinder                                                         *)
Inductive allow_outer := AoTrue | AoFalse | AoOnly.

Record finder := mkFinder {
  f_cost0 : costs;
  f_forbidden : list ix;
  f_tsize : option Z;            (* target_size *)
  f_tover : option (Z * Z);      (* target_overhead = num / den *)
  f_tslices : option Z           (* target_slices *)
}.
(* __init__: the forbidden set *)
Definition forbidden_of (ao : allow_outer) (outp : list ix) (sd : zdict) : list ix :=
  match ao with
  | AoOnly => filter (fun j => negb (memb j outp)) (zd_keys sd)
  | AoTrue => []
  | AoFalse => outp
  end.
Definition finder_of_tree (n : net) (sl : list slinfo) (t : tree) (ao : allow_outer)
    (ts : option Z) (tov : option (Z * Z)) (tsl : option Z) : finder :=
  let c0 := costs_of_tree n sl t in
  mkFinder c0 (forbidden_of ao (output n) (c_sd c0)) ts tov tsl.

(* the three tests *)
Definition size_le (c : costs) (ts : Z) : bool :=
  match cc_size c with None => true | Some s => s <=? ts end.
Definition over_gt (c : costs) (t : Z * Z) : bool :=
  (fst t * c_orig c <? cc_total_flops c * snd t).
Definition slices_ge (c : costs) (tsl : Z) : bool := (tsl <=? c_nsl c).
Definition opt_test {A} (o : option A) (f : A -> bool) : bool :=
  match o with Some a => f a | None => false end.

(* outcomes: returned value, Python exception, or oracle list exhausted *)
Inductive outcome (A : Type) := Ret (a : A) | Raise (k : nat) | Stuck.
Arguments Ret {A} a.
Arguments Raise {A} k.
Arguments Stuck {A}.
Definition E_FORBIDDEN := 1%nat.   (* RuntimeError("Ran out of valid indices to slice.") *)
Definition E_KEY := 2%nat.         (* KeyError from ContractionCosts.remove *)
Definition E_MAX_EMPTY := 3%nat.   (* ValueError: max() of an empty size_dict *)
Definition E_MIN_EMPTY := 4%nat.   (* ValueError: min() over no valid slicing, in best *)
Definition E_ORACLE := 5%nat.      (* the oracle named an index that is not a candidate *)

(* frozenset keys: sorted lists *)
Fixpoint key_ins (x : ix) (k : list ix) : list ix :=
  match k with
  | [] => [x]
  | y :: k' => if (x <? y)%nat then x :: k else if Nat.eqb x y then k else y :: key_ins x k'
  end.
Definition cache := list (list ix * costs).
Fixpoint cache_get (k : list ix) (ch : cache) : option costs :=
  match ch with
  | [] => None
  | (k', c) :: ch' => if list_eqb Nat.eqb k k' then Some c else cache_get k ch'
  end.

(* the `while not already_satisfied:` loop *)
Fixpoint trial_loop (fd : finder) (oracle : list ix) (ch : cache) (key : list ix) (cost : costs)
  : outcome (cache * (list ix * costs)) :=
  match c_sd cost with
  | [] => Raise E_MAX_EMPTY            (* max() of an empty dict *)
  | _ =>
      match oracle with
      | [] => Stuck
      | ix :: rest =>
        if negb (zd_mem ix (c_sd cost)) then Raise E_ORACLE
        else if memb ix (f_forbidden fd) then Raise E_FORBIDDEN
        else
          let nkey := key_ins ix key in
          let step :=
            match cache_get nkey ch with
            | Some nc => Some (nc, ch)
            | None => match remove ix cost with
                      | Some nc => Some (nc, ch ++ [(nkey, nc)])
                      | None => None
                      end
            end in
          match step with
          | None => Raise E_KEY
          | Some (nc, ch') =>
              if opt_test (f_tover fd) (over_gt nc) then Ret (ch', (key, cost))
              else if opt_test (f_tslices fd) (slices_ge nc) then Ret (ch', (nkey, nc))
              else if opt_test (f_tsize fd) (size_le nc) then Ret (ch', (nkey, nc))
              else trial_loop fd rest ch' nkey nc
          end
      end
  end.

Definition already_satisfied (fd : finder) (c : costs) : bool :=
  opt_test (f_tsize fd) (size_le c) || opt_test (f_tover fd) (over_gt c)
  || opt_test (f_tslices fd) (slices_ge c).

(* SliceFinder.trial *)
Definition trial (fd : finder) (oracle : list ix) (ch : cache) : outcome (cache * (list ix * costs)) :=
  match cache_get [] ch with
  | None => Raise E_KEY
  | Some cost =>
      if already_satisfied fd cost then Ret (ch, ([], cost))
      else trial_loop fd oracle ch [] cost
  end.

(* SliceFinder.best(k=None) *)
Definition valid (fd : finder) (e : list ix * costs) : bool :=
  match f_tsize fd with Some ts => size_le (snd e) ts | None => true end
  && match f_tover fd with Some t => negb (over_gt (snd e) t) | None => true end
  && match f_tslices fd with Some tsl => slices_ge (snd e) tsl | None => true end.
Definition size_z (c : costs) : Z := match cc_size c with Some s => s | None => -1 end.
Definition zzz_lt (a b : Z * (Z * Z)) : bool :=
  let '(a1, (a2, a3)) := a in let '(b1, (b2, b3)) := b in
  (a1 <? b1) || ((a1 =? b1) && ((a2 <? b2) || ((a2 =? b2) && (a3 <? b3)))).
Definition best_scorer (fd : finder) (e : list ix * costs) : Z * (Z * Z) :=
  let c := snd e in
  match f_tsize fd, f_tslices fd with
  | None, None => (size_z c, (cc_total_flops c, c_nsl c))
  | _, _ => (cc_total_flops c, (c_nsl c, size_z c))
  end.
(* min(iterable, key): the first minimal element *)
Fixpoint min_by {A} (key : A -> Z * (Z * Z)) (l : list A) (cur : A) : A :=
  match l with
  | [] => cur
  | x :: l' => if zzz_lt (key x) (key cur) then min_by key l' x else min_by key l' cur
  end.
Definition best (fd : finder) (ch : cache) : outcome (list ix * costs) :=
  match filter (valid fd) ch with
  | [] => Raise E_MIN_EMPTY
  | e :: es => Ret (min_by (best_scorer fd) es e)
  end.

(* SliceFinder.search: one oracle per repeat *)
Definition cache0 (fd : finder) : cache := [([], f_cost0 fd)].
Fixpoint search_loop (fd : finder) (oracles : list (list ix)) (ch : cache)
  : outcome (cache * list (list ix * costs)) :=
  match oracles with
  | [] => Ret (ch, [])
  | o :: os =>
      match trial fd o ch with
      | Ret (ch', r) =>
          match search_loop fd os ch' with
          | Ret (ch'', rs) => Ret (ch'', r :: rs)
          | Raise k => Raise k
          | Stuck => Stuck
          end
      | Raise k => Raise k
      | Stuck => Stuck
      end
  end.
Definition search (fd : finder) (oracles : list (list ix)) : outcome (list ix * costs) :=
  match search_loop fd oracles (cache0 fd) with
  | Ret (ch, _) => best fd ch
  | Raise k => Raise k
  | Stuck => Stuck
  end.

(* ------------------------------------------------------------------ *)
(* observations compared with the real objects (canonical forms)       *)
Definition sort_nat (l : list nat) : list nat := sort_by Nat.leb l.
Definition obs_row (r : row) := (sort_nat (r_inv r), (sort_nat (r_legs r), (r_size r, r_flops r))).
Definition obs_costs (c : costs) :=
  (sort_by (fun a b => Nat.leb (fst a) (fst b)) (c_sd c),
   (map obs_row (c_tab c),
    (c_nsl c, (c_orig c, (c_flops c, (cc_size c,
     (sort_by (fun a b => Z.leb (fst a) (fst b)) (mc_c (c_sizes c)),
      map (fun j => (j, (zd_get0 j (c_fred c), (zd_get0 j (c_wred c), sort_nat (wh_get0 j (c_where c))))))
          (sort_nat (zd_keys (c_sd c)))))))))).
Definition obs_pred (e : list ix * costs) := (fst e, (cc_size (snd e), (cc_total_flops (snd e), c_nsl (snd e)))).

Definition obs_outcome {A B} (f : A -> B) (o : outcome A) : (nat * option B) :=
  match o with Ret a => (0%nat, Some (f a)) | Raise k => (k, None) | Stuck => (99%nat, None) end.
(* everything one search produces: per-trial returns, final cache, best *)
Definition obs_search (fd : finder) (oracles : list (list ix)) :=
  match search_loop fd oracles (cache0 fd) with
  | Ret (ch, rs) =>
      (0%nat, (map obs_pred rs, (map (fun e => (fst e, obs_costs (snd e))) ch,
               obs_outcome obs_pred (best fd ch))))
  | Raise k => (k, ([], ([], (k, None))))
  | Stuck => (99%nat, ([], ([], (99%nat, None))))
  end.

(* the from-scratch figures of the tree sliced on sl0 ++ xs (Model/Net.v), in the
   units of a prediction made relative to the incoming tree (sliced on sl0) *)
Definition slice_all (xs : list ix) : list slinfo := map (fun x => mkSl x None) xs.

(* ------------------------------------------------------------------ *)
(* the from-scratch DEFINITIONS of the derived fields, as functions of the
   table and the size dict (what __init__ computes, written without state)  *)
Definition fred_def (sd : zdict) (tab : list row) (j : ix) : Z :=
  zsum (map (fun r => if memb j (r_inv r) then r_flops r - r_flops r / sd_get j sd else 0) tab).
Definition wred_def (sd : zdict) (tab : list row) (j : ix) : Z :=
  zsum (map (fun r => if memb j (r_inv r) && memb j (r_legs r)
                      then r_size r - r_size r / sd_get j sd else 0) tab).
Definition where_def (tab : list row) (j : ix) : list nat :=
  filter (fun i => match nth_error tab i with Some r => memb j (r_inv r) | None => false end)
         (seq 0%nat (length tab)).
Definition list_max_opt (l : list Z) : option Z :=
  match l with [] => None | x :: l' => Some (fold_left Z.max l' x) end.

(* executable comparison of one cache entry (key, cost) with the cost object
   built from scratch from the tree sliced on sl0 ++ key (Model/Net.v figures);
   soundness: Proofs/SlicerFacts.v scratch_b_sound *)
Definition scratch_b (n : net) (sl0 : list slinfo) (t : tree) (e : list ix * costs) : bool :=
  let xs := fst e in
  let c := snd e in
  let tab := tree_rows n (sl0 ++ slice_all xs) t in
  eqb (c_tab c) tab
  && (c_flops c =? sum_flops n (sl0 ++ slice_all xs) t)
  && (c_nsl c =? zprod (map (fun x => zget x (szd n)) xs))
  && (c_orig c =? sum_flops n sl0 t)
  && eqb (cc_size c) (list_max_opt (map r_size tab))
  && eqb (sort_by (fun a b => Nat.leb (fst a) (fst b)) (c_sd c))
         (sort_by (fun a b => Nat.leb (fst a) (fst b)) (filter (fun kv => negb (memb (fst kv) xs)) (szd n)))
  && forallb (fun j => (zd_get0 j (c_fred c) =? fred_def (c_sd c) tab j)
                       && (zd_get0 j (c_wred c) =? wred_def (c_sd c) tab j)
                       && eqb (sort_nat (wh_get0 j (c_where c))) (where_def tab j))
             (zd_keys (c_sd c)).
Definition search_scratch_b (n : net) (sl0 : list slinfo) (t : tree) (fd : finder)
    (oracles : list (list ix)) : bool :=
  match search_loop fd oracles (cache0 fd) with
  | Ret (ch, _) => forallb (scratch_b n sl0 t) ch
  | _ => true
  end.

(* executable form of the hypotheses of the C07 theorems (soundness:
   Proofs/SlicerFacts.v hyps_b_sound); evaluated on every generated case *)
Fixpoint nodup_b (l : list nat) : bool :=
  match l with [] => true | x :: l' => negb (memb x l') && nodup_b l' end.
Definition hyps_b (n : net) (sl : list slinfo) (t : tree) : bool :=
  nodup_b (output n)
  && forallb (fun j => memb j (lkeys (involved n sl t))) (lkeys (root_legs n sl))
  && forallb (fun kv => 0 <? snd kv) (szd n)
  && nodup_b (zd_keys (szd n)).

(* ------------------------------------------------------------------ *)
(* the same loop driven by a CHOICE FUNCTION (what `max(cost.size_dict, key=...)` is:
   a function of the iteration, the current key and the current cost) with fuel;
   used to state termination.  trial_step is one iteration of the loop body. *)
Inductive step_res :=
  | SRet (r : cache * (list ix * costs))
  | SRaise (k : nat)
  | SCont (ch : cache) (key : list ix) (cost : costs).
Definition trial_step (fd : finder) (x : ix) (ch : cache) (key : list ix) (cost : costs) : step_res :=
  if negb (zd_mem x (c_sd cost)) then SRaise E_ORACLE
  else if memb x (f_forbidden fd) then SRaise E_FORBIDDEN
  else
    let nkey := key_ins x key in
    let step :=
      match cache_get nkey ch with
      | Some nc => Some (nc, ch)
      | None => match remove x cost with
                | Some nc => Some (nc, ch ++ [(nkey, nc)])
                | None => None
                end
      end in
    match step with
    | None => SRaise E_KEY
    | Some (nc, ch') =>
        if opt_test (f_tover fd) (over_gt nc) then SRet (ch', (key, cost))
        else if opt_test (f_tslices fd) (slices_ge nc) then SRet (ch', (nkey, nc))
        else if opt_test (f_tsize fd) (size_le nc) then SRet (ch', (nkey, nc))
        else SCont ch' nkey nc
    end.
Fixpoint trial_loop_g (fd : finder) (choose : nat -> list ix -> costs -> ix) (fuel step : nat)
    (ch : cache) (key : list ix) (cost : costs) : outcome (cache * (list ix * costs)) :=
  match c_sd cost with
  | [] => Raise E_MAX_EMPTY
  | _ =>
      match fuel with
      | O => Stuck
      | S fuel' =>
          match trial_step fd (choose step key cost) ch key cost with
          | SRet r => Ret r
          | SRaise k => Raise k
          | SCont ch' key' cost' => trial_loop_g fd choose fuel' (S step) ch' key' cost'
          end
      end
  end.
Definition trial_g (fd : finder) (choose : nat -> list ix -> costs -> ix) (fuel : nat) (ch : cache)
  : outcome (cache * (list ix * costs)) :=
  match cache_get [] ch with
  | None => Raise E_KEY
  | Some cost =>
      if already_satisfied fd cost then Ret (ch, ([], cost))
      else trial_loop_g fd choose fuel 0%nat ch [] cost
  end.

(* ------------------------------------------------------------------ *)
(* target_overhead: the code evaluates `total_flops / original_flops > target` on floats,
   the model compares exact rationals (over_gt).  over_safe_b is an executable sufficient
   condition for both to agree (Proofs/SlicerFacts.v over_float_agrees): operands in
   [1, 2^1000), and the exact quotient is either <= target or exceeds it by more than the
   relative rounding error 2^-53 of a correctly rounded division. *)
Definition FB : Z := 2 ^ 1000.
Definition FP : Z := 2 ^ 53.
Definition over_safe_b (c : costs) (t : Z * Z) : bool :=
  let a := cc_total_flops c in
  let b := c_orig c in
  (1 <=? a) && (a <? FB) && (1 <=? b) && (b <? FB) && (0 <? snd t)
  && ((a * snd t <=? fst t * b) || (fst t * b * FP <? a * snd t * (FP - 1))).
(* every cost object whose overhead the search compared is a cache entry *)
Definition search_over_safe_b (fd : finder) (oracles : list (list ix)) : bool :=
  match f_tover fd with
  | None => true
  | Some t =>
      match search_loop fd oracles (cache0 fd) with
      | Ret (ch, _) => forallb (fun e => over_safe_b (snd e) t) ch
      | _ => true
      end
  end.

(* ------------------------------------------------------------------ *)
(* per-call target overrides: search(max_repeats, temperature, target_size, target_overhead,
   target_slices) hands its arguments to BOTH trial and best, each of which resolves them by
   _maybe_default(attr, value): the argument when it is not None, else the construction-time
   attribute.  So one call behaves like the finder with the effective targets, run on the
   cache the object already holds (self.costs persists across calls). *)
Definition maybe_default {A} (attr value : option A) : option A :=
  match value with Some v => Some v | None => attr end.
Definition with_overrides (fd : finder) (ots : option Z) (otov : option (Z * Z)) (otsl : option Z) : finder :=
  mkFinder (f_cost0 fd) (f_forbidden fd)
           (maybe_default (f_tsize fd) ots) (maybe_default (f_tover fd) otov) (maybe_default (f_tslices fd) otsl).
(* one search(...) call on a finder whose cache is ch: new cache and the value of best *)
Definition search_call (fd : finder) (ots : option Z) (otov : option (Z * Z)) (otsl : option Z)
    (oracles : list (list ix)) (ch : cache) : outcome (cache * (list ix * costs)) :=
  let fd' := with_overrides fd ots otov otsl in
  match search_loop fd' oracles ch with
  | Ret (ch', _) => match best fd' ch' with
                    | Ret e => Ret (ch', e)
                    | Raise k => Raise k
                    | Stuck => Stuck
                    end
  | Raise k => Raise k
  | Stuck => Stuck
  end.

Definition overrides := (option Z * (option (Z * Z) * option Z))%type.
Definition obs_search_from (fd : finder) (oracles : list (list ix)) (ch : cache) :=
  match search_loop fd oracles ch with
  | Ret (ch', rs) =>
      ((0%nat, (map obs_pred rs, (map (fun e => (fst e, obs_costs (snd e))) ch',
               obs_outcome obs_pred (best fd ch')))), Some ch')
  | Raise k => ((k, ([], ([], (k, None)))), None)
  | Stuck => ((99%nat, ([], ([], (99%nat, None)))), None)
  end.
(* a sequence of search calls on one SliceFinder object; a call whose trials raise ends the
   sequence (the harness stops there too); a call where only best raises keeps the cache *)
Fixpoint obs_calls (fd : finder) (calls : list (overrides * list (list ix))) (ch : cache) :=
  match calls with
  | [] => []
  | (ov, oracles) :: rest =>
      let fd' := with_overrides fd (fst ov) (fst (snd ov)) (snd (snd ov)) in
      let r := obs_search_from fd' oracles ch in
      fst r :: match snd r with Some ch' => obs_calls fd rest ch' | None => [] end
  end.
(* the executable checks (scratch_b on every cache entry; over_safe_b w.r.t. the overhead
   target of the CALL on every entry of the cache after that call) along such a sequence *)
Fixpoint calls_check_b (n : net) (sl0 : list slinfo) (t : tree) (fd : finder)
    (calls : list (overrides * list (list ix))) (ch : cache) : bool :=
  match calls with
  | [] => true
  | (ov, oracles) :: rest =>
      let fd' := with_overrides fd (fst ov) (fst (snd ov)) (snd (snd ov)) in
      match search_loop fd' oracles ch with
      | Ret (ch', _) =>
          forallb (scratch_b n sl0 t) ch'
          && match f_tover fd' with
             | Some tv => forallb (fun e => over_safe_b (snd e) tv) ch'
             | None => true
             end
          && calls_check_b n sl0 t fd rest ch'
      | _ => true
      end
  end.

(* TreeStatePre2.v -- the preconditions of the primitives once the structural facts about the dfs
   traversal are DERIVED (Proofs/TreeStateDfs.v) from one boolean, complete_b, and with
   total_flops / total_write / max_size covered also when they recompute (Proofs/TreeStateTotals.v).
   Replaces TreeStatePre.prim_pre_b / TreeStateRec.primA_pre_b in the final theorems.
   MODEL FILE: executable definitions only. *)
From Ctg Require Import Base Net NetFacts TreeState TreeStatePre TreeStateRec.

Section Pre2.
Variable n : net.
Notation N := (NN n).

(* a complete tree all of whose internal nodes have info entries *)
Definition full_b (s : tstate) : bool :=
  complete_b n s && forallb (fun p => nmem (fst p) (info s)) (children s).
Definition stats_pre2_b (force : bool) (s : tstate) : bool :=
  if force || negb (trk_flops s && trk_write s && trk_size s) then full_b s else true.
Definition rm_pre2_b (ind : ix) (s : tstate) : bool :=
  negb (memb ind (removed (sliced s))) && stats_pre2_b false s && Z.ltb 0 (zget ind (szd n))
  && forallb (fun ni => (Nat.eqb (length (fst ni)) 1 || nmem (fst ni) (children s))
                        && (Nat.eqb (length (fst ni)) 1 || fullinfo_b ind (snd ni)))
             (info (populate_m n (contract_stats n false s))).
Definition rs_pre2_b (ind : ix) (s : tstate) : bool :=
  memb ind (removed (sliced s)) && nodupb (removed (sliced s))
  && trk_flops s && trk_write s && trk_size s
  && Z.ltb 0 (zget ind (szd n))
  && forallb (fun j => memb j (concat (inputs n))) (output n)
  && complete_b n s
  && forallb (fun c => node_eqb (nunion (fst (snd c)) (snd (snd c))) (fst c)) (children s)
  && forallb (fun c => nmem (fst c) (info s)) (children s)
  && forallb (fun ni => Nat.eqb (length (fst ni)) 1 || nmem (fst ni) (children s)) (info s).
Definition prim_pre2_b (p : prim) (s : tstate) : bool :=
  match p with
  | PStats f => stats_pre2_b f s
  | PTotalFlops => trk_flops s || full_b s
  | PTotalWrite => trk_write s || full_b s
  | PMaxSize => trk_size s || full_b s
  | PRemoveInd ind _ => rm_pre2_b ind s
  | PRestoreInd ind => rs_pre2_b ind s
  | _ => prim_pre_b n p s
  end.
Definition primA_pre2_b (p : prim) (s : tstate) : bool :=
  prim_pre2_b p s && match p with PPair x y lg _ _ => pairA_pre_b n s x y lg | _ => true end.
Fixpoint pre2_trace_b (tr : list prim) (s : tstate) : bool :=
  match tr with
  | [] => true
  | p :: tr' => primA_pre2_b p s && pre2_trace_b tr' (step n p s)
  end.
(* monitor: every primitive is covered now *)
Fixpoint mon2_trace (tr : list mevent) (ms : mstate) : list bool :=
  match tr with
  | [] => []
  | e :: tr' =>
      (match e with
       | MOn t p => match pget t ms with Some s => primA_pre2_b p s | None => true end
       | MSetFrom _ _ => true
       end) :: mon2_trace tr' (mstep n ms e)
  end.
Definition mon2_ok (tr : list mevent) (ms : mstate) : bool := forallb (fun b => b) (mon2_trace tr ms).
End Pre2.

(* Slice.v -- executable model of the slicing machinery of cotengra/core.py:
     SliceInfo (+ its dataclass ordering), get_slice_strides,
     ContractionTree.remove_ind / restore_ind (the sliced_inds / multiplicity /
     sliced_inputs part), nslices, nchunks, slice_key, slice_arrays,
     gather_slices (incl. recursively_stack_chunks), gen_output_chunks.
   Sizes, slice numbers and index values are [nat] here (they are radices, digits
   and positions of a mixed-radix numbering, never costs); tensor entries are Z.
   A positional tensor is a shape together with a function from multi-indices
   (list nat, one entry per axis) to Z; [tabulate] lists it in row-major order and
   [of_flat] reads a row-major list, so the model runs on concrete integer arrays.
   numpy's basic indexing, [stack] and [+] get their positional semantics HERE
   (select / stack / tadd) -- validated against numpy by the correspondence, not proved.
   MODEL FILE: executable definitions only. *)
From Ctg Require Export Base.

(* ------------------------------------------------------------------ *)
(* @dataclass(order=True, frozen=True) class SliceInfo: inner, ind, size, project *)
Record sinfo := mkSI { si_inner : bool; si_ind : ix; si_size : nat; si_proj : option nat }.

#[export] Instance Eqb_sinfo : Eqb sinfo := fun a b =>
  eqb (si_inner a) (si_inner b) && eqb (si_ind a) (si_ind b)
  && eqb (si_size a) (si_size b) && eqb (si_proj a) (si_proj b).

(* tuple comparison (inner, ind, size, project); False < True.  Two SliceInfo of one
   tree never share [ind] (remove_ind raises on an already sliced index), so the
   size / project components are never reached in the real code (Python would raise on
   None < int); they are modelled with None first only to make the order total. *)
Definition bool_cmp (a b : bool) : comparison :=
  match a, b with false, true => Lt | true, false => Gt | _, _ => Eq end.
Definition opt_cmp (a b : option nat) : comparison :=
  match a, b with
  | None, None => Eq | None, Some _ => Lt | Some _, None => Gt
  | Some x, Some y => Nat.compare x y
  end.
Definition si_cmp (a b : sinfo) : comparison :=
  match bool_cmp (si_inner a) (si_inner b) with
  | Eq => match Nat.compare (si_ind a) (si_ind b) with
          | Eq => match Nat.compare (si_size a) (si_size b) with
                  | Eq => opt_cmp (si_proj a) (si_proj b)
                  | c => c
                  end
          | c => c
          end
  | c => c
  end.
Definition si_le (a b : sinfo) : bool := match si_cmp a b with Gt => false | _ => true end.

(* SliceInfo.sliced_range *)
Definition sliced_range (s : sinfo) : list nat :=
  match si_proj s with None => seq 0 (si_size s) | Some p => [p] end.

(* ------------------------------------------------------------------ *)
(* list cell update: strides[i] = v *)
Fixpoint set_nth {A} (k : nat) (v : A) (l : list A) : list A :=
  match l, k with
  | [], _ => []
  | _ :: l', O => v :: l'
  | x :: l', S k' => x :: set_nth k' v l'
  end.

(* get_slice_strides, the loop as written:
     strides = [1] * nsliced
     for i in range(nsliced - 2, -1, -1):
         strides[i] = strides[i + 1] * slice_infos[i + 1].size            *)
Definition dummy_si : sinfo := mkSI false 0 1 None.
Definition get_slice_strides (sl : list sinfo) : list nat :=
  let nsliced := length sl in
  fold_left (fun strides i => set_nth i (nth (i + 1) strides 1 * si_size (nth (i + 1) sl dummy_si)) strides)
            (rev (seq 0 (nsliced - 1))) (repeat 1 nsliced).

(* ------------------------------------------------------------------ *)
(* the slicing state of a tree: sliced_inds (ordered dict, as the list of its values),
   multiplicity, sliced_inputs (a frozenset; kept as a strictly increasing list) *)
Record sstate := mkSS { ss_sliced : list sinfo; ss_mult : nat; ss_inputs : list nat }.
Definition ss_init : sstate := mkSS [] 1 [].
#[export] Instance Eqb_sstate : Eqb sstate := fun a b =>
  eqb (ss_sliced a) (ss_sliced b) && eqb (ss_mult a) (ss_mult b) && eqb (ss_inputs a) (ss_inputs b).

Fixpoint nget (j : ix) (d : list (ix * nat)) : nat :=
  match d with [] => 1 | (k, v) :: d' => if Nat.eqb k j then v else nget j d' end.

Fixpoint set_insert (x : nat) (l : list nat) : list nat :=
  match l with
  | [] => [x]
  | y :: l' => if Nat.ltb x y then x :: l else if Nat.eqb x y then l else y :: set_insert x l'
  end.

Section WithNet.
Variable inputs : list (list ix).
Variable output : list ix.
Variable szd : list (ix * nat).

(* remove_ind(ind, project): None when the code raises ValueError (already sliced) *)
Definition remove_ind (st : sstate) (ind : ix) (project : option nat) : option sstate :=
  if memb ind (map si_ind (ss_sliced st)) then None else
  let d := nget ind szd in
  let inner := negb (memb ind output) in
  let '(si, mult) := match project with
                     | None => (mkSI inner ind d None, ss_mult st * d)
                     | Some v => (mkSI inner ind 1 (Some v), ss_mult st)
                     end in
  (* {si.ind: si for si in sorted([ *tree.sliced_inds.values(), si ])} *)
  let sliced := sort_by si_le (ss_sliced st ++ [si]) in
  (* every leaf whose term carries ind joins sliced_inputs *)
  let sin := fold_left (fun acc i => if memb ind (nth i inputs []) then set_insert i acc else acc)
                       (seq 0 (length inputs)) (ss_inputs st) in
  Some (mkSS sliced mult sin).

(* restore_ind(ind): None when the code raises KeyError *)
Definition restore_ind (st : sstate) (ind : ix) : option sstate :=
  match find (fun s => Nat.eqb (si_ind s) ind) (ss_sliced st) with
  | None => None
  | Some si =>
      let sliced := filter (fun s => negb (Nat.eqb (si_ind s) ind)) (ss_sliced st) in
      let mult := ss_mult st / si_size si in
      let sin := fold_left (fun acc i =>
                   let term := nth i inputs [] in
                   if memb ind term && forallb (fun j => negb (memb j (map si_ind sliced))) term
                   then filter (fun k => negb (Nat.eqb k i)) acc else acc)
                   (seq 0 (length inputs)) (ss_inputs st) in
      Some (mkSS sliced mult sin)
  end.

(* a history of operations *)
Inductive sop := OpRemove (ind : ix) (project : option nat) | OpRestore (ind : ix).
Definition run_op (st : sstate) (o : sop) : option sstate :=
  match o with OpRemove i p => remove_ind st i p | OpRestore i => restore_ind st i end.
(* ops that raise leave the state unchanged (the harness catches the exception) *)
Definition run_ops (ops : list sop) : sstate :=
  fold_left (fun st o => match run_op st o with Some st' => st' | None => st end) ops ss_init.
Definition run_ops_raises (ops : list sop) : list bool :=
  snd (fold_left (fun sr o => match run_op (fst sr) o with
                              | Some st' => (st', snd sr ++ [false])
                              | None => (fst sr, snd sr ++ [true]) end) ops (ss_init, [])).
End WithNet.

(* nslices / nchunks *)
Definition nslices (st : sstate) : nat := ss_mult st.
Definition nprod (l : list nat) : nat := fold_left Nat.mul l 1.
Definition nchunks (sl : list sinfo) : nat :=
  nprod (map si_size (filter (fun s => negb (si_inner s)) sl)).
Definition stepsize (sl : list sinfo) : nat :=
  nprod (map si_size (filter si_inner sl)).

(* ------------------------------------------------------------------ *)
(* slice_key: for (ind, info), stride in zip(sliced_inds.items(), strides) *)
Definition skey := list (ix * nat).
Fixpoint slice_key_go (sl : list sinfo) (strides : list nat) (i : nat) : skey :=
  match sl, strides with
  | s :: sl', st :: strides' =>
      match si_proj s with
      | None => (si_ind s, i / st) :: slice_key_go sl' strides' (i mod st)
      | Some p => (si_ind s, p) :: slice_key_go sl' strides' i
      end
  | _, _ => []
  end.
Definition slice_key (sl : list sinfo) (i : nat) : skey := slice_key_go sl (get_slice_strides sl) i.

(* dict lookups on a key *)
Fixpoint kget (j : ix) (k : skey) : option nat :=
  match k with [] => None | (a, v) :: k' => if Nat.eqb a j then Some v else kget j k' end.
Definition kget0 (j : ix) (k : skey) : nat := match kget j k with Some v => v | None => 0 end.

(* ------------------------------------------------------------------ *)
(* positional tensors *)
Record tens := mkT { tshape : list nat; tget : list nat -> Z }.
Definition dummy_t : tens := mkT [] (fun _ => 0%Z).

Fixpoint all_idx (shape : list nat) : list (list nat) :=
  match shape with
  | [] => [[]]
  | d :: s => flat_map (fun v => map (cons v) (all_idx s)) (seq 0 d)
  end.
Definition tabulate (t : tens) : list nat * list Z := (tshape t, map (tget t) (all_idx (tshape t))).

Fixpoint offset (shape idx : list nat) : nat :=
  match shape, idx with
  | _ :: s, v :: idx' => v * nprod s + offset s idx'
  | _, _ => 0
  end.
Definition of_flat (shape : list nat) (data : list Z) : tens :=
  mkT shape (fun idx => nth (offset shape idx) data 0%Z).

(* x[selector] with selector entries: an integer (Some v) or slice(None) (None) *)
Fixpoint merge_sel (sel : list (option nat)) (idx : list nat) : list nat :=
  match sel with
  | [] => []
  | Some v :: sel' => v :: merge_sel sel' idx
  | None :: sel' => match idx with
                    | [] => 0 :: merge_sel sel' []
                    | x :: idx' => x :: merge_sel sel' idx'
                    end
  end.
Fixpoint sel_shape (sel : list (option nat)) (shape : list nat) : list nat :=
  match sel, shape with
  | Some _ :: sel', _ :: s => sel_shape sel' s
  | None :: sel', d :: s => d :: sel_shape sel' s
  | _, _ => []
  end.
Definition select (sel : list (option nat)) (t : tens) : tens :=
  mkT (sel_shape sel (tshape t)) (fun idx => tget t (merge_sel sel idx)).

(* slice_arrays: locations = slice_key(i);
   for c in sliced_inputs: selector = tuple(locations.get(ix, slice(None)) for ix in inputs[c]) *)
Definition selector (term : list ix) (locations : skey) : list (option nat) :=
  map (fun j => kget j locations) term.
Definition slice_arrays (inputs : list (list ix)) (st : sstate) (arrays : list tens) (i : nat) : list tens :=
  let locations := slice_key (ss_sliced st) i in
  map (fun c => let a := nth c arrays dummy_t in
                if memb c (ss_inputs st) then select (selector (nth c inputs []) locations) a else a)
      (seq 0 (length arrays)).

(* ------------------------------------------------------------------ *)
(* numpy.stack(arrays, axis) and elementwise + *)
Fixpoint remove_nth {A} (k : nat) (l : list A) : list A :=
  match l, k with
  | [], _ => []
  | _ :: l', O => l'
  | x :: l', S k' => x :: remove_nth k' l'
  end.
Fixpoint insert_nth {A} (k : nat) (x : A) (l : list A) : list A :=
  match k, l with
  | O, _ => x :: l
  | S k', y :: l' => y :: insert_nth k' x l'
  | S _, [] => [x]
  end.
Definition stack (ts : list tens) (axis : nat) : tens :=
  mkT (insert_nth axis (length ts) (tshape (hd dummy_t ts)))
      (fun idx => tget (nth (nth axis idx 0) ts dummy_t) (remove_nth axis idx)).
Definition tadd (a b : tens) : tens := mkT (tshape a) (fun idx => (tget a idx + tget b idx)%Z).

(* ------------------------------------------------------------------ *)
(* gather_slices *)
(* output_pos = {ix: i for i, ix in enumerate(self.output) if ix in self.sliced_inds} *)
Definition output_pos (output : list ix) (sl : list sinfo) : list (ix * nat) :=
  filter (fun p => memb (fst p) (map si_ind sl)) (combine output (seq 0 (length output))).

(* the dict chunks: key tuple -> array, in insertion order *)
Definition chunkd := list (list nat * tens).
Fixpoint cget (key : list nat) (d : chunkd) : option tens :=
  match d with [] => None | (k, v) :: d' => if eqb k key then Some v else cget key d' end.
Fixpoint cset (key : list nat) (v : tens) (d : chunkd) : chunkd :=
  match d with
  | [] => [(key, v)]
  | (k, w) :: d' => if eqb k key then (k, v) :: d' else (k, w) :: cset key v d'
  end.
(* try: chunks[key] = chunks[key] + s  except KeyError: chunks[key] = s *)
Definition cadd (key : list nat) (s : tens) (d : chunkd) : chunkd :=
  match cget key d with Some c => cset key (tadd c s) d | None => cset key s d end.

Definition build_chunks (sl : list sinfo) (opos : list (ix * nat)) (slices : list tens) : chunkd :=
  fold_left (fun ch is_ =>
               let key_slice := slice_key sl (fst is_) in
               let key := map (fun p => kget0 (fst p) key_slice) opos in
               cadd key (snd is_) ch)
            (combine (seq 0 (length slices)) slices) [].

Definition si_of (sl : list sinfo) (j : ix) : sinfo :=
  match find (fun s => Nat.eqb (si_ind s) j) sl with Some s => s | None => dummy_si end.

(* def recursively_stack_chunks(loc, remaining):
       if not remaining: return chunks[loc]
       arrays = [recursively_stack_chunks(loc + (d,), remaining[1:])
                 for d in self.sliced_inds[remaining[0]].sliced_range]
       axes = output_pos[remaining[0]] - len(loc)
       return do("stack", arrays, axes)                                      *)
Fixpoint rec_stack (chunks : chunkd) (sl : list sinfo) (loc : list nat) (remaining : list (ix * nat)) : tens :=
  match remaining with
  | [] => match cget loc chunks with Some c => c | None => dummy_t end
  | (j, p) :: rest =>
      stack (map (fun d => rec_stack chunks sl (loc ++ [d]) rest) (sliced_range (si_of sl j)))
            (p - length loc)
  end.

Definition gather_slices (sl : list sinfo) (output : list ix) (slices : list tens) : tens :=
  let opos := output_pos output sl in
  match opos with
  | [] => (* functools.reduce(add, slices) *)
      match slices with [] => dummy_t | s :: rest => fold_left tadd rest s end
  | _ => rec_stack (build_chunks sl opos slices) sl [] opos
  end.

(* ------------------------------------------------------------------ *)
(* gen_output_chunks(with_key=True), given slice i's contraction result as [slice i] *)
Definition gen_output_chunks (st : sstate) (output : list ix) (slice : nat -> tens) : list (tens * skey) :=
  let sl := ss_sliced st in
  let step := stepsize sl in
  map (fun o =>
         let chunk0 := slice (o * step) in
         let output_key := filter (fun kv => memb (fst kv) output) (slice_key sl (o * step)) in
         let chunk := fold_left (fun c j => tadd c (slice (o * step + j))) (seq 1 (step - 1)) chunk0 in
         (chunk, output_key))
      (seq 0 (nslices st / step)).

(* ------------------------------------------------------------------ *)
(* checker run on the real tree.sliced_inds / multiplicity (soundness: Proofs/SliceFacts.v):
   sizes >= 1, projected entries have size 1, inner flag = "not an output index",
   inner=false entries first, distinct indices, multiplicity = product of the sizes *)
Fixpoint outer_first_b (sl : list sinfo) : bool :=
  match sl with
  | [] => true
  | s :: sl' => if si_inner s then forallb si_inner sl' else outer_first_b sl'
  end.
Fixpoint nodup_b (l : list nat) : bool :=
  match l with [] => true | x :: l' => negb (memb x l') && nodup_b l' end.
Definition si_ok_b (output : list ix) (s : sinfo) : bool :=
  Nat.leb 1 (si_size s)
  && match si_proj s with None => true | Some _ => Nat.eqb (si_size s) 1 end
  && Bool.eqb (si_inner s) (negb (memb (si_ind s) output)).
Definition sl_ok_b (output : list ix) (st : sstate) : bool :=
  forallb (si_ok_b output) (ss_sliced st)
  && outer_first_b (ss_sliced st)
  && nodup_b (map si_ind (ss_sliced st))
  && Nat.eqb (ss_mult st) (nprod (map si_size (ss_sliced st))).

(* HGraph.v -- cotengra/hypergraph.py : class HyperGraph, the parts used by the
   compressed-contraction simulation (C20) and as one of the four cost simulators (C18):
   __init__, next_node, add_node, remove_node, remove_edge, contract, compress,
   edges_size, node_size, bond sizes, neighborhood_size, contract_pair_cost,
   neighborhood_compress_cost, compute_contracted_inds, candidate_contraction_size.
   Python dicts are insertion-ordered association lists with Python's update discipline.
   MODEL FILE: executable definitions only (owner: builder c18c20). *)
From Ctg Require Export Base.

(* ---------- generic insertion-ordered dict  nat -> A ---------- *)
Section Dict.
Context {A : Type}.
Fixpoint aget (k : nat) (d : list (nat * A)) : option A :=
  match d with
  | [] => None
  | (k', v) :: d' => if Nat.eqb k' k then Some v else aget k d'
  end.
Definition amem (k : nat) (d : list (nat * A)) : bool :=
  match aget k d with Some _ => true | None => false end.
(* d[k] = v : overwrite keeps the position, a new key goes to the end *)
Fixpoint aset (k : nat) (v : A) (d : list (nat * A)) : list (nat * A) :=
  match d with
  | [] => [(k, v)]
  | (k', w) :: d' => if Nat.eqb k' k then (k', v) :: d' else (k', w) :: aset k v d'
  end.
(* del d[k] / d.pop(k, None) *)
Fixpoint adel (k : nat) (d : list (nat * A)) : list (nat * A) :=
  match d with
  | [] => []
  | (k', w) :: d' => if Nat.eqb k' k then d' else (k', w) :: adel k d'
  end.
Definition akeys (d : list (nat * A)) : list nat := map fst d.
End Dict.

(* size_dict[e] = v *)
Fixpoint zset (j : ix) (v : Z) (d : sizes) : sizes :=
  match d with
  | [] => [(j, v)]
  | (k, w) :: d' => if Nat.eqb k j then (k, v) :: d' else (k, w) :: zset j v d'
  end.

Definition remove_nat (x : nat) (l : list nat) : list nat := filter (fun y => negb (Nat.eqb y x)) l.

Record hg := mkHG {
  hnodes : list (nat * list ix);    (* self.nodes : node -> tuple of edges *)
  hedges : list (ix * list nat);    (* self.edges : edge -> tuple of nodes *)
  hout   : list ix;                 (* self.output *)
  hsz    : sizes;                   (* self.size_dict (mutated by compress) *)
  hnext  : nat                      (* self.node_counter + 1 *)
}.

Definition get_node (g : hg) (i : nat) : list ix :=
  match aget i (hnodes g) with Some l => l | None => [] end.
Definition get_edge (g : hg) (e : ix) : list nat :=
  match aget e (hedges g) with Some l => l | None => [] end.

(* self.edges[e] = ( *self.edges.setdefault(e, ()), i )   /   self.edges[e] += (node,) *)
Definition edges_append (e : ix) (i : nat) (ed : list (ix * list nat)) : list (ix * list nat) :=
  aset e (match aget e ed with Some l => l ++ [i] | None => [i] end) ed.

(* HyperGraph.__init__ (inputs given as a sequence) *)
Definition hg_init (inputs : list (list ix)) (out : list ix) (sz : sizes) : hg :=
  let nodes := combine (seq 0 (length inputs)) inputs in
  let edges := fold_left (fun ed it => fold_left (fun ed e => edges_append e (fst it) ed) (snd it) ed) nodes [] in
  mkHG nodes edges out sz (length inputs).

Definition edges_size (g : hg) (es : list ix) : Z := size_of (hsz g) es.
Definition hg_node_size (g : hg) (i : nat) : Z := edges_size g (get_node g i).
Definition total_node_size (g : hg) : Z := zsum (map (fun kv => edges_size g (snd kv)) (hnodes g)).

(* next_node: counter += 1; while counter in nodes: counter += 1 *)
Fixpoint next_free (fuel : nat) (c : nat) (nodes : list (nat * list ix)) : nat :=
  match fuel with
  | O => c
  | S f => if amem c nodes then next_free f (S c) nodes else c
  end.
Definition next_node (g : hg) : nat := next_free (S (length (hnodes g))) (hnext g) (hnodes g).

(* add_node(inds) with node=None; returns the graph and the new identifier *)
Definition add_node (inds : list ix) (g : hg) : hg * nat :=
  let node := next_node g in
  let nodes := aset node inds (hnodes g) in
  let edges := fold_left (fun ed e => edges_append e node ed) inds (hedges g) in
  (mkHG nodes edges (hout g) (hsz g) (S node), node).

(* remove_node(i): returns the graph and the removed node's inds *)
Definition remove_node (i : nat) (g : hg) : hg * list ix :=
  let inds := get_node g i in
  let edges := fold_left (fun ed e =>
                  match aget e ed with
                  | None => ed      (* Python: KeyError (only with a repeated index in a term) *)
                  | Some l => let l' := remove_nat i l in
                              match l' with [] => adel e ed | _ => aset e l' ed end
                  end) inds (hedges g) in
  (mkHG (adel i (hnodes g)) edges (hout g) (hsz g) (hnext g), inds).

(* remove_edge(e) *)
Definition remove_edge (e : ix) (g : hg) : hg :=
  let nodes := fold_left (fun nd i =>
                  match aget i nd with
                  | None => nd
                  | Some l => aset i (remove_nat e l) nd
                  end) (get_edge g e) (hnodes g) in
  mkHG nodes (adel e (hedges g)) (hout g) (hsz g) (hnext g).

(* contract(i, j) *)
Definition hg_contract (i j : nat) (g : hg) : hg * nat :=
  let '(g1, inds_i) := remove_node i g in
  let '(g2, inds_j) := remove_node j g1 in
  let inds_ij := unique (filter (fun e => amem e (hedges g2) || memb e (hout g2)) (inds_i ++ inds_j)) in
  add_node inds_ij g2.

(* frozenset(nodes) as a canonical key: sorted, duplicate free *)
Definition nat_le (a b : nat) : bool := Nat.leb a b.
Definition fset (l : list nat) : list nat := unique (sort_by nat_le l).
Definition list_nat_eqb (a b : list nat) : bool := list_eqb Nat.eqb a b.

(* incidences[key].append(e) on an insertion-ordered dict keyed by frozensets *)
Fixpoint group_add (key : list nat) (e : ix) (gr : list (list nat * list ix)) : list (list nat * list ix) :=
  match gr with
  | [] => [(key, [e])]
  | (k, es) :: gr' => if list_nat_eqb k key then (k, es ++ [e]) :: gr' else (k, es) :: group_add key e gr'
  end.

(* the grouping loop of compress / neighborhood_compress_cost (depends on the
   structure only, never on sizes) *)
Definition incidences (g : hg) (edges : list ix) : list (list nat * list ix) :=
  fold_left (fun gr e => if memb e (hout g) then gr else group_add (fset (get_edge g e)) e gr) edges [].

(* one group of compress: combine es into the first edge, capping the size at chi *)
Definition compress_group (chi : Z) (g : hg) (es : list ix) : hg :=
  match es with
  | e_keep :: (_ :: _) as es_del =>
      let new_size := edges_size g es in
      let g1 := fold_left (fun g e => remove_edge e g) es_del g in
      mkHG (hnodes g1) (hedges g1) (hout g1) (zset e_keep (Z.min new_size chi) (hsz g1)) (hnext g1)
  | _ => g
  end.

(* compress(chi, edges) *)
Definition hg_compress (chi : Z) (edges : list ix) (g : hg) : hg :=
  fold_left (fun g kv => compress_group chi g (snd kv)) (incidences g (unique edges)) g.

(* neighborhood of a set of nodes, as a duplicate-free list *)
Definition neighborhood (g : hg) (nodes : list nat) : list nat :=
  unique (flat_map (fun n => flat_map (fun e => get_edge g e) (get_node g n)) nodes).
Definition neighborhood_size (g : hg) (nodes : list nat) : Z :=
  zsum (map (hg_node_size g) (neighborhood g nodes)).

(* contract_pair_cost(i, j) *)
Definition contract_pair_cost (g : hg) (i j : nat) : Z :=
  edges_size g (unique (get_node g i ++ get_node g j)).

(* iteration order of a frozenset of small non-negative ints in CPython 3.12 (hash(i) = i):
   up to 4 elements live in an 8-slot table and are visited by slot = i mod 8; 5..18
   elements live in a 32-slot table.  When two elements collide (or an id is too big) the
   order depends on the insertion history: the second component says "order unknown".
   `key` is the canonical (sorted, duplicate-free) form of the set. *)
Definition mod8_le (a b : nat) : bool := Nat.leb (a mod 8) (b mod 8).
Definition nodup_b (l : list nat) : bool := Nat.eqb (length (unique l)) (length l).
Definition pyset_order (key : list nat) : list nat * bool :=
  if Nat.leb (length key) 4
  then (sort_by mod8_le key, negb (nodup_b (map (fun a => a mod 8) key)))
  else (key, existsb (fun a => Nat.leb 32 a) key || Nat.leb 19 (length key)).

(* the QR-cost loop over the nodes of one group; NB Python re-binds `da` inside the
   loop (`da, db = sorted((da, db))`), which the model follows.  The second component
   says whether the result may differ from Python's because it depends on an iteration
   order the model does not know (only if some node has db < da, since then `da`
   changes for the later nodes, and the frozenset order is not determined). *)
Definition group_cost (g : hg) (key : list nat) (es : list ix) (da0 : Z) : Z * bool :=
  let '(nodes, unknown) := pyset_order key in
  let step := fun (st : Z * Z * bool) (node : nat) =>
      let '(c, da, sens) := st in
      let outer := filter (fun e => negb (memb e es)) (get_node g node) in
      let db := edges_size g outer in
      let lo := Z.min da db in
      let hi := Z.max da db in
      ((c + lo * lo * hi)%Z, lo, sens || (db <? da)%Z) in
  let '(c, _, sens) := fold_left step nodes (0%Z, da0, false) in
  (c, sens && Nat.ltb 1 (length nodes) && unknown).

(* neighborhood_compress_cost(chi, nodes): (C, result depends on an unknown set order?) *)
Definition neighborhood_compress_cost (g : hg) (chi : Z) (nodes : list nat) : Z * bool :=
  let region_edges := unique (flat_map (get_node g) nodes) in
  let inc := incidences g region_edges in
  let inc := filter (fun kv => negb (list_nat_eqb (fst kv) (fset nodes))) inc in
  fold_left (fun (acc : Z * bool) kv =>
               let da := edges_size g (snd kv) in
               if (chi <? da)%Z
               then let '(c, s) := group_cost g (fst kv) (snd kv) da in ((fst acc + c)%Z, snd acc || s)
               else acc) inc (0%Z, false).

(* compute_contracted_inds(nodes) and candidate_contraction_size(i, j, chi=None) *)
Definition compute_contracted_inds (g : hg) (nodes : list nat) : list ix :=
  unique (filter (fun e => negb (forallb (fun k => memb k nodes) (get_edge g e)) || memb e (hout g))
                 (flat_map (get_node g) nodes)).
Definition candidate_contraction_size (g : hg) (i j : nat) : Z :=
  edges_size g (compute_contracted_inds g [i; j]).

(* the structure of a hypergraph: everything except the sizes *)
Definition hg_shape (g : hg) : list (nat * list ix) * (list (ix * list nat) * (list ix * nat)) :=
  (hnodes g, (hedges g, (hout g, hnext g))).

(* what the correspondence compares after every operation *)
Definition hg_obs (g : hg) : list (nat * list ix) * (list (ix * list nat) * list (ix * Z)) :=
  (hnodes g, (hedges g, map (fun kv => (fst kv, zget (fst kv) (hsz g))) (hedges g))).

(* Arrays.v -- concrete row-major integer arrays as positional tensors (used to
   EXECUTE the positional interpreter on the same arrays as the implementation) *)
From Ctg Require Import Base Net Einsum.
Open Scope Z_scope.

(* row-major flat offset of a position *)
Fixpoint ravel (shape : list nat) (pos : list nat) : nat :=
  match shape, pos with
  | d :: shape', v :: pos' => (v * fold_left Nat.mul shape' 1 + ravel shape' pos')%nat
  | _, _ => 0%nat
  end.
Definition mk_pt (shape : list nat) (data : list Z) : ptensor :=
  fun pos => nth (ravel shape pos) data 0.

(* all positions of a shape in row-major order *)
Fixpoint all_pos (shape : list nat) : list (list nat) :=
  match shape with
  | [] => [[]]
  | d :: shape' => flat_map (fun v => map (cons v) (all_pos shape')) (seq 0 d)
  end.
Definition flatten_pt (shape : list nat) (A : ptensor) : list Z := map A (all_pos shape).
Definition arr_of (pts : list ptensor) : nat -> ptensor := fun k => nth k pts (fun _ => 0).

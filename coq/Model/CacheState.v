(* CacheState.v -- model of cotengra/interface.py's in-memory caches (property C13).
   MODEL FILE: definitions only, no proofs (lemmas live in Proofs/CacheFacts.v).

   What is modelled, and which Python it follows:

   * pyval / py_eqb / py_hash : the Python values that can occur in a cache key
     (ints, integral floats, bools, strs, None, identity-hashed objects, tuples,
     frozensets; lists and dicts as the unhashable values), Python's `==` on them
     and CPython 3.12's `hash` on 64-bit builds, bit for bit for ints
     (long_hash: sign * (|z| mod 2^61-1), with -1 replaced by -2), tuples
     (tuplehash: the xxHash-style accumulator) and frozensets (frozenset_hash).
     str hashes (randomised siphash13), id-based object hashes and hash(None)
     are NOT modelled: they are read from the environment record `henv`.
   * kexpr / eval_kexpr : the expression returned by `hash_contraction`
     (generated into Gen/CacheKey.v by harness/translators/cachekey.py).
   * normalize : interface.normalize_input + utils.canonicalize_inputs +
     find_output_from_inputs + shapes_inputs_to_size_dict.
   * memo machine : `try: r = CACHE[key] / except KeyError: r = CACHE[key] = f(..)`
     as in array_contract_path / array_contract_expression, the per-class handler
     tables of find_path / find_tree / hash_prepare_optimize, and the cache-free
     machine it is compared with. *)
From Coq Require Import String.
From Ctg Require Import Base.
Open Scope Z_scope.

(* ------------------------------------------------------------------ *)
(* Python values                                                       *)
Inductive pyval :=
| PInt (z : Z)                 (* int *)
| PFloat (z : Z)               (* a float whose value is the integer z (1.0, 2.0 ...) *)
| PBool (b : bool)
| PStr (s : list nat)          (* str, as code points *)
| PNone
| PObj (n : nat)               (* an object hashed and compared by identity (callable, optimizer, class) *)
| PTuple (l : list pyval)
| PFrozen (l : list pyval)     (* frozenset: the (distinct) elements in some order *)
| PList (l : list pyval)       (* unhashable *)
| PDict (items : list pyval).  (* unhashable; items = the (key, value) 2-tuples in insertion order *)

Definition num_of (v : pyval) : option Z :=
  match v with
  | PInt z | PFloat z => Some z
  | PBool b => Some (if b then 1 else 0)
  | _ => None
  end.

(* Python's == .  int/float/bool compare by value; str, None with themselves; objects by
   identity; tuples and lists elementwise (a tuple never equals a list); frozensets and
   dicts as sets of elements / items. *)
Fixpoint py_eqb (a b : pyval) {struct a} : bool :=
  match num_of a, num_of b with
  | Some x, Some y => Z.eqb x y
  | Some _, None | None, Some _ => false
  | None, None =>
    match a, b with
    | PStr s, PStr t => list_eqb Nat.eqb s t
    | PNone, PNone => true
    | PObj n, PObj m => Nat.eqb n m
    | PTuple l, PTuple m =>
        (fix go (l m : list pyval) : bool :=
           match l, m with
           | [], [] => true
           | x :: l', y :: m' => py_eqb x y && go l' m'
           | _, _ => false
           end) l m
    | PList l, PList m =>
        (fix go (l m : list pyval) : bool :=
           match l, m with
           | [], [] => true
           | x :: l', y :: m' => py_eqb x y && go l' m'
           | _, _ => false
           end) l m
    | PFrozen l, PFrozen m =>
        forallb (fun x => existsb (fun y => py_eqb x y) m) l &&
        forallb (fun y => existsb (fun x => py_eqb x y) l) m
    | PDict l, PDict m =>
        forallb (fun x => existsb (fun y => py_eqb x y) m) l &&
        forallb (fun y => existsb (fun x => py_eqb x y) l) m
    | _, _ => false
    end
  end.

Definition pylist_eqb (l m : list pyval) : bool := list_eqb py_eqb l m.

(* hash(v) raises TypeError iff a list or a dict occurs in v *)
Fixpoint py_hashable (v : pyval) : bool :=
  match v with
  | PTuple l | PFrozen l => forallb py_hashable l
  | PList _ | PDict _ => false
  | _ => true
  end.

(* ------------------------------------------------------------------ *)
(* CPython 3.12 hash, 64-bit build                                     *)
Definition W64 : Z := 18446744073709551616.          (* 2^64 *)
Definition P61 : Z := 2305843009213693951.           (* _PyHASH_MODULUS = 2^61 - 1 *)
Definition u64 (s : Z) : Z := s mod W64.              (* (Py_uhash_t) s *)
Definition s64 (u : Z) : Z := if u >=? 9223372036854775808 then u - W64 else u.   (* (Py_hash_t) u *)

(* Objects/longobject.c long_hash *)
Definition hash_int (z : Z) : Z :=
  let r := Z.sgn z * (Z.abs z mod P61) in
  if r =? -1 then -2 else r.

(* Objects/tupleobject.c tuplehash *)
Definition XXPRIME_1 : Z := 11400714785074694791.
Definition XXPRIME_2 : Z := 14029467366897019727.
Definition XXPRIME_5 : Z := 2870177450012600261.
Definition xxrotate (x : Z) : Z := (Z.shiftl x 31 mod W64) + Z.shiftr x 33.
Definition tuple_hash (hs : list Z) : Z :=
  let acc := fold_left (fun acc h =>
               let acc := (acc + u64 h * XXPRIME_2) mod W64 in
               let acc := xxrotate acc in
               (acc * XXPRIME_1) mod W64) hs XXPRIME_5 in
  let acc := (acc + Z.lxor (Z.of_nat (length hs)) (Z.lxor XXPRIME_5 3527539)) mod W64 in
  if acc =? W64 - 1 then 1546275796 else s64 acc.

(* Objects/setobject.c frozenset_hash *)
Definition shuffle_bits (h : Z) : Z :=
  (Z.lxor (Z.lxor h 89869747) (Z.shiftl h 16 mod W64) * 3644798167) mod W64.
Definition frozen_hash (hs : list Z) : Z :=
  let h := fold_left (fun acc x => Z.lxor acc (shuffle_bits (u64 x))) hs 0 in
  let h := Z.lxor h (((Z.of_nat (length hs) + 1) * 1927868237) mod W64) in
  let h := Z.lxor h (Z.lxor (Z.shiftr h 11) (Z.shiftr h 25)) in
  let h := (h * 69069 + 907133923) mod W64 in
  if h =? W64 - 1 then 590923713 else s64 h.

(* what the model does not compute: taken from the running interpreter *)
Record henv := mkHenv {
  h_str : list nat -> Z;     (* hash of a str (PYTHONHASHSEED dependent) *)
  h_obj : nat -> Z;          (* hash of an identity-hashed object *)
  h_none : Z }.

Fixpoint py_hash (e : henv) (v : pyval) : Z :=
  match v with
  | PInt z | PFloat z => hash_int z
  | PBool b => if b then 1 else 0
  | PStr s => match s with [] => 0 | _ => h_str e s end
  | PNone => h_none e
  | PObj n => h_obj e n
  | PTuple l => tuple_hash (map (py_hash e) l)
  | PFrozen l => frozen_hash (map (py_hash e) l)
  | PList _ | PDict _ => 0
  end.

(* a table-driven environment, used by the generated correspondence cases *)
Fixpoint tbl_str (t : list (list nat * Z)) (s : list nat) : Z :=
  match t with
  | [] => 0
  | (k, h) :: t' => if list_eqb Nat.eqb k s then h else tbl_str t' s
  end.
Fixpoint tbl_obj (t : list (nat * Z)) (n : nat) : Z :=
  match t with
  | [] => 0
  | (k, h) :: t' => if Nat.eqb k n then h else tbl_obj t' n
  end.
Definition tbl_env (ts : list (list nat * Z)) (to : list (nat * Z)) (hn : Z) : henv :=
  mkHenv (tbl_str ts) (tbl_obj to) hn.

(* ------------------------------------------------------------------ *)
(* a normalised call: the local variables of the caching function after
   normalize_input, by name                                            *)
Definition fields := list (string * pyval).
Fixpoint getf (c : fields) (f : string) : pyval :=
  match c with
  | [] => PNone
  | (k, v) :: c' => if String.eqb k f then v else getf c' f
  end.

(* how a local enters the hashed tuple *)
Inductive view :=
| VId              (* x *)
| VItemsTuple      (* tuple(x.items()) *)
| VFrozenItems     (* frozenset(x.items()) *)
| VPrepareOpt.     (* hash_prepare_optimize(x): tuple(x) for a list, x otherwise *)

Definition apply_view (w : view) (v : pyval) : pyval :=
  match w, v with
  | VId, _ => v
  | VItemsTuple, PDict l => PTuple l
  | VFrozenItems, PDict l => PFrozen l
  | VPrepareOpt, PList l => PTuple l
  | VPrepareOpt, _ => v
  | _, _ => v
  end.

(* the expression `hash_contraction` returns *)
Inductive kexpr :=
| KField (f : string) (w : view)
| KLen (f : string)            (* len(f) *)
| KHash (k : kexpr)            (* hash(k) *)
| KTuple (l : list kexpr).

Definition py_len (v : pyval) : Z :=
  match v with
  | PTuple l | PList l | PFrozen l | PDict l => Z.of_nat (length l)
  | PStr s => Z.of_nat (length s)
  | _ => 0
  end.

Fixpoint eval_kexpr (e : henv) (c : fields) (k : kexpr) : pyval :=
  match k with
  | KField f w => apply_view w (getf c f)
  | KLen f => PInt (py_len (getf c f))
  | KHash k' => PInt (py_hash e (eval_kexpr e c k'))
  | KTuple l => PTuple (map (eval_kexpr e c) l)
  end.

(* does evaluating k raise TypeError (an unhashable value reaches hash(), or the
   resulting dict key is itself unhashable)? *)
Fixpoint kexpr_val_hashable (c : fields) (k : kexpr) : bool :=
  match k with
  | KField f w => py_hashable (apply_view w (getf c f))
  | KLen f => true
  | KHash k' => kexpr_val_hashable c k'
  | KTuple l => forallb (kexpr_val_hashable c) l
  end.
Fixpoint kexpr_hash_ok (c : fields) (k : kexpr) : bool :=
  match k with
  | KField f w => true
  | KLen f => true
  | KHash k' => kexpr_val_hashable c k'
  | KTuple l => forallb (kexpr_hash_ok c) l
  end.
Definition key_ok (c : fields) (k : kexpr) : bool :=
  kexpr_hash_ok c k && kexpr_val_hashable c k.

(* the (field, view) pairs that reach the dict key *injectively* (not through hash / len) *)
Fixpoint inj_fields (k : kexpr) : list (string * view) :=
  match k with
  | KField f w => [(f, w)]
  | KLen _ => []
  | KHash _ => []
  | KTuple l => flat_map inj_fields l
  end.
(* the (field, view) pairs anywhere in the key *)
Fixpoint all_fields (k : kexpr) : list (string * view) :=
  match k with
  | KField f w => [(f, w)]
  | KLen _ => []
  | KHash k' => all_fields k'
  | KTuple l => flat_map all_fields l
  end.
Fixpoint has_hash (k : kexpr) : bool :=
  match k with
  | KField _ _ | KLen _ => false
  | KHash _ => true
  | KTuple l => existsb has_hash l
  end.

Definition view_eqb (a b : view) : bool :=
  match a, b with
  | VId, VId | VItemsTuple, VItemsTuple | VFrozenItems, VFrozenItems | VPrepareOpt, VPrepareOpt => true
  | _, _ => false
  end.
Fixpoint kexpr_eqb (a b : kexpr) {struct a} : bool :=
  match a, b with
  | KField f w, KField g x => String.eqb f g && view_eqb w x
  | KLen f, KLen g => String.eqb f g
  | KHash k, KHash k' => kexpr_eqb k k'
  | KTuple l, KTuple m =>
      (fix go (l m : list kexpr) : bool :=
         match l, m with
         | [], [] => true
         | x :: l', y :: m' => kexpr_eqb x y && go l' m'
         | _, _ => false
         end) l m
  | _, _ => false
  end.

(* the two shapes of key the theorems talk about *)
Definition key_spec := list (string * view).
Definition tuple_key (s : key_spec) : kexpr := KTuple (map (fun fw => KField (fst fw) (snd fw)) s).
Definition hashed_key (s : key_spec) (lenf : string) : kexpr := KTuple [KHash (tuple_key s); KLen lenf].

(* the key of interface.py at the pinned commit: hash_contraction's
   (hash((inputs, output, tuple(size_dict.items()), optimize', frozenset(kwargs.items()))), len(inputs)) *)
Definition std_spec : key_spec :=
  [("inputs", VId); ("output", VId); ("size_dict", VItemsTuple); ("optimize", VPrepareOpt);
   ("kwargs", VFrozenItems)]%string.
Definition legacy_key : kexpr := hashed_key std_spec "inputs"%string.

Definition strmem (f : string) (l : list string) : bool := existsb (String.eqb f) l.
Definition inclb (a b : list string) : bool := forallb (fun f => strmem f b) a.
Fixpoint spec_view (s : key_spec) (f : string) : option view :=
  match s with
  | [] => None
  | (g, w) :: s' => if String.eqb g f then Some w else spec_view s' f
  end.

(* two values of a field that the view cannot tell apart *)
Definition fequiv (w : view) (a b : pyval) : Prop :=
  py_eqb (apply_view w a) (apply_view w b) = true.
(* two calls agree (up to the views of spec s) on every field of fs *)
Definition agree_on (s : key_spec) (fs : list string) (c1 c2 : fields) : Prop :=
  forall f, In f fs -> exists w, In (f, w) s /\ fequiv w (getf c1 f) (getf c2 f).
(* k with every hash(.) removed: the tuple that is hashed, itself *)
Fixpoint strip_hash (k : kexpr) : kexpr :=
  match k with
  | KHash k' => strip_hash k'
  | KTuple l => KTuple (map strip_hash l)
  | _ => k
  end.

(* ------------------------------------------------------------------ *)
(* the memo pattern
       try: r = CACHE[key]
       except KeyError: r = CACHE[key] = compute(...)
   over an insertion-ordered dict whose keys are Python values *)
Section Memo.
  Context {C R : Type}.
  Variable dkey : C -> pyval.          (* the dict key of a call *)
  Variable usecache : C -> bool.       (* `cache and can_hash_optimize(optimize.__class__)` *)
  Variable keyok : C -> bool.          (* computing the key does not raise TypeError *)
  Variable fallback : bool.            (* is the TypeError caught and the call computed uncached? *)
  Variable compute : C -> R.

  Definition pydict := list (pyval * R).
  Fixpoint dlookup (k : pyval) (d : pydict) : option R :=
    match d with
    | [] => None
    | (k', r) :: d' => if py_eqb k' k then Some r else dlookup k d'
    end.

  Inductive outcome := Ok (r : R) (hit : bool) | RaisedTypeError.

  Definition memo_step (d : pydict) (c : C) : pydict * outcome :=
    if usecache c then
      if keyok c then
        match dlookup (dkey c) d with
        | Some r => (d, Ok r true)
        | None => let r := compute c in (d ++ [(dkey c, r)], Ok r false)
        end
      else if fallback then (d, Ok (compute c) false) else (d, RaisedTypeError)
    else (d, Ok (compute c) false).

  Fixpoint memo_run (d : pydict) (cs : list C) : list outcome * pydict :=
    match cs with
    | [] => ([], d)
    | c :: cs' => let '(d1, o) := memo_step d c in
                  let '(os, d2) := memo_run d1 cs' in (o :: os, d2)
    end.

  Definition out_value (o : outcome) : option R :=
    match o with Ok r _ => Some r | RaisedTypeError => None end.
  Definition out_hit (o : outcome) : bool :=
    match o with Ok _ h => h | RaisedTypeError => false end.

  (* what the caller sees with caching, and without *)
  Definition cached_outputs (cs : list C) : list (option R) := map out_value (fst (memo_run [] cs)).
  Definition plain_outputs (cs : list C) : list (option R) := map (fun c => Some (compute c)) cs.
End Memo.
Arguments Ok {R}.
Arguments RaisedTypeError {R}.

(* ------------------------------------------------------------------ *)
(* cached expressions are shared OBJECTS: `array_contract` / `einsum` look the expression up
   (or build it) and then call it on the arrays.  An object is modelled by its state S
   (for cotengra.contract.Contractor: the `contractions` tuple and the option slots) and
   one `call` function that may, in general, update the state; the dict holds the object by
   reference, so an update made by one call is seen by the next call that hits the cache.
   The cache-free machine builds a fresh object for every call. *)
Section ExprObj.
  Context {C S A V : Type}.
  Variable dkey : C -> pyval.
  Variable usecache : C -> bool.
  Variable init : C -> S.               (* _build_expression(...) *)
  Variable call : S -> A -> S * V.      (* calling the expression on arrays *)

  Fixpoint dupdate (k : pyval) (s : S) (d : list (pyval * S)) : list (pyval * S) :=
    match d with
    | [] => []
    | (k', s') :: d' => if py_eqb k' k then (k', s) :: d' else (k', s') :: dupdate k s d'
    end.

  Definition obj_step (d : list (pyval * S)) (ca : C * A) : list (pyval * S) * V :=
    let c := fst ca in
    let a := snd ca in
    if usecache c then
      match dlookup (dkey c) d with
      | Some s => let sv := call s a in (dupdate (dkey c) (fst sv) d, snd sv)
      | None => let sv := call (init c) a in (d ++ [(dkey c, fst sv)], snd sv)
      end
    else (d, snd (call (init c) a)).

  Fixpoint obj_run (d : list (pyval * S)) (cas : list (C * A)) : list V :=
    match cas with
    | [] => []
    | ca :: cas' => let dv := obj_step d ca in snd dv :: obj_run (fst dv) cas'
    end.

  Definition obj_cached_outputs (cas : list (C * A)) : list V := obj_run [] cas.
  Definition obj_plain_outputs (cas : list (C * A)) : list V :=
    map (fun ca => snd (call (init (fst ca)) (snd ca))) cas.
End ExprObj.

(* ------------------------------------------------------------------ *)
(* a call of array_contract_expression / array_contract_path after normalisation *)
Record ncall := mkCall {
  nc_cache : bool;          (* the `cache` argument *)
  nc_opt_hashable_cls : bool;   (* can_hash_optimize(optimize.__class__): str, tuple or list (sub)class *)
  nc_fields : fields }.

Definition nc_dkey (e : henv) (k : kexpr) (c : ncall) : pyval := eval_kexpr e (nc_fields c) k.
Definition nc_use (c : ncall) : bool := nc_cache c && nc_opt_hashable_cls c.
Definition nc_keyok (k : kexpr) (c : ncall) : bool := key_ok (nc_fields c) k.

(* "the hash separates the keys that occur": whenever the dict cannot tell the keys of two
   calls of the sequence apart, the tuples that were hashed are equal (Python ==) *)
Definition hash_inj (e : henv) (k : kexpr) (cs : list ncall) : Prop :=
  forall c1 c2, In c1 cs -> In c2 cs ->
    py_eqb (nc_dkey e k c1) (nc_dkey e k c2) = true ->
    py_eqb (nc_dkey e (strip_hash k) c1) (nc_dkey e (strip_hash k) c2) = true.

(* the observation compared with the real code: per call hit / miss / raised, and the
   list of dict keys at the end *)
Definition obs_of (o : @outcome nat) : nat * nat :=
  match o with Ok r true => (1%nat, r) | Ok r false => (0%nat, r) | RaisedTypeError => (2%nat, 0%nat) end.
(* per call: (0 miss | 1 hit | 2 raised TypeError, index of the call whose computation produced
   the returned object); and the dict keys, in insertion order, at the end *)
Definition cache_trace (e : henv) (k : kexpr) (fallback : bool) (cs : list ncall)
  : list (nat * nat) * list pyval :=
  let ics := combine (seq 0 (length cs)) cs in
  let '(os, d) := memo_run (fun ic => nc_dkey e k (snd ic)) (fun ic => nc_use (snd ic))
                           (fun ic => nc_keyok k (snd ic)) fallback (fun ic => fst ic) [] ics in
  (map obs_of os, map fst d).

(* structural equality of Python values (NOT ==): used to compare observed keys with the model's *)
Fixpoint py_same (a b : pyval) {struct a} : bool :=
  match a, b with
  | PInt x, PInt y | PFloat x, PFloat y => Z.eqb x y
  | PBool x, PBool y => Bool.eqb x y
  | PStr s, PStr t => list_eqb Nat.eqb s t
  | PNone, PNone => true
  | PObj n, PObj m => Nat.eqb n m
  | PTuple l, PTuple m | PList l, PList m | PDict l, PDict m =>
      (fix go (l m : list pyval) : bool :=
         match l, m with
         | [], [] => true
         | x :: l', y :: m' => py_same x y && go l' m'
         | _, _ => false
         end) l m
  | PFrozen l, PFrozen m =>        (* iteration order of a frozenset is not part of its value *)
      Nat.eqb (length l) (length m) && forallb (fun x => existsb (fun y => py_same x y) m) l
  | _, _ => false
  end.
#[export] Instance Eqb_pyval : Eqb pyval := py_same.

(* ------------------------------------------------------------------ *)
(* per-class handler tables: find_path / find_tree / hash_prepare_optimize
       cls = optimize.__class__
       try: fn = HANDLERS[cls]
       except KeyError: (isinstance / hasattr chain) fn = HANDLERS[cls] = ...      *)
Inductive ctest :=
| TIsInstance (names : list string)    (* isinstance(optimize, (names...)) *)
| THasAttr (a : string).               (* hasattr(optimize, a) *)
Definition chain := list (ctest * string).       (* (test, handler name), tried in order *)

Record pyobj := mkObj {
  o_cls : nat;                           (* identity of optimize.__class__ *)
  o_test : ctest -> bool }.              (* the outcome of each test on this object *)

Fixpoint decide (ch : chain) (default : string) (o : pyobj) : string :=
  match ch with
  | [] => default
  | (t, h) :: ch' => if o_test o t then h else decide ch' default o
  end.

Definition dispatch_outputs (ch : chain) (default : string) (os : list pyobj) : list (option string) :=
  cached_outputs (fun o => PObj (o_cls o)) (fun _ => true) (fun _ => true) true (decide ch default) os.

Definition test_is_class_level (t : ctest) : bool :=
  match t with TIsInstance _ => true | THasAttr _ => false end.
Definition chain_tests (ch : chain) : list ctest := map fst ch.

Definition ctest_eqb (a b : ctest) : bool :=
  match a, b with
  | TIsInstance l, TIsInstance m => list_eqb String.eqb l m
  | THasAttr x, THasAttr y => String.eqb x y
  | _, _ => false
  end.

(* ------------------------------------------------------------------ *)
(* normalize_input / canonicalize_inputs                               *)
(* get_symbol(i): an injective enumeration of symbols; modelled as the code point list
   [i] shifted so that 0 -> 'a'; the real function (52 letters then unicode, skipping
   surrogates) is only compared on the range the harness uses (i < 26). *)
Definition get_symbol (i : nat) : pyval := PStr [97 + i]%nat.

(* ind_map = defaultdict(next symbol): lookup by ==, insert at first use *)
Definition indmap := list (pyval * nat).
Fixpoint im_find (m : indmap) (v : pyval) : option nat :=
  match m with
  | [] => None
  | (k, i) :: m' => if py_eqb k v then Some i else im_find m' v
  end.
Definition im_get (m : indmap) (v : pyval) : indmap * pyval :=
  match im_find m v with
  | Some i => (m, get_symbol i)
  | None => let i := length m in (m ++ [(v, i)], get_symbol i)
  end.
Fixpoint im_map (m : indmap) (l : list pyval) : indmap * list pyval :=
  match l with
  | [] => (m, [])
  | v :: l' => let '(m1, s) := im_get m v in
               let '(m2, ss) := im_map m1 l' in (m2, s :: ss)
  end.
Fixpoint im_map2 (m : indmap) (ts : list (list pyval)) : indmap * list (list pyval) :=
  match ts with
  | [] => (m, [])
  | t :: ts' => let '(m1, t1) := im_map m t in
                let '(m2, r) := im_map2 m1 ts' in (m2, t1 :: r)
  end.

(* find_output_from_inputs: indices that appear exactly once, in order of first appearance *)
Definition count_eq (v : pyval) (l : list pyval) : nat := length (filter (py_eqb v) l).
Fixpoint first_occ (seen l : list pyval) : list pyval :=
  match l with
  | [] => []
  | v :: l' => if existsb (py_eqb v) seen then first_occ seen l' else v :: first_occ (v :: seen) l'
  end.
Definition find_output (inputs : list (list pyval)) : list pyval :=
  let flat := concat inputs in
  filter (fun v => Nat.eqb (count_eq v flat) 1) (first_occ [] flat).

(* a dict built by successive d[k] = v (later assignments overwrite in place) *)
Fixpoint pd_set (d : list (pyval * pyval)) (k v : pyval) : list (pyval * pyval) :=
  match d with
  | [] => [(k, v)]
  | (k', v') :: d' => if py_eqb k' k then (k', v) :: d' else (k', v') :: pd_set d' k v
  end.
Definition pd_items (d : list (pyval * pyval)) : list pyval := map (fun kv => PTuple [fst kv; snd kv]) d.
(* {ix: d for term, shape in zip(inputs, shapes) for ix, d in zip(term, shape)} *)
Definition sizes_from_shapes (inputs shapes : list (list pyval)) : list (pyval * pyval) :=
  fold_left (fun d ts => fold_left (fun d kv => pd_set d (fst kv) (snd kv)) (combine (fst ts) (snd ts)) d)
            (combine inputs shapes) [].

Definition is_edge_path (o : pyval) : bool :=
  match o with
  | PTuple (x :: _) | PList (x :: _) =>
      match x with PInt _ | PBool _ | PStr _ => true | _ => false end
  | _ => false
  end.
Definition seq_items (o : pyval) : list pyval :=
  match o with PTuple l | PList l => l | _ => [] end.

Record rawcall := mkRaw {
  r_inputs : list (list pyval);
  r_output : option (list pyval);
  r_size_dict : option (list (pyval * pyval));     (* insertion ordered *)
  r_shapes : option (list (list pyval));
  r_optimize : pyval;
  r_canon : bool;
  r_inputs_are_lists : bool;        (* the caller passed lists (only matters when not canonicalizing) *)
  r_kwargs : list pyval;            (* items of **kwargs *)
  r_cache : bool;
  r_hcls : bool }.

Definition seq_val (as_list : bool) (l : list pyval) : pyval := if as_list then PList l else PTuple l.

(* returns None when normalize_input raises ValueError (neither size_dict nor shapes) *)
Definition normalize (r : rawcall) : option ncall :=
  let mk inputs output sd opt :=
    mkCall (r_cache r) (r_hcls r)
      [("inputs", inputs); ("output", output); ("size_dict", PDict (pd_items sd));
       ("optimize", opt); ("kwargs", PDict (r_kwargs r)); ("%empty", PDict [])]%string in
  if r_canon r then
    let '(m1, ins) := im_map2 [] (r_inputs r) in
    let '(m2, out) := match r_output r with
                      | Some o => im_map m1 o
                      | None => (m1, find_output ins)
                      end in
    let '(m3, sd) := match r_size_dict r with
                     | Some sd => let '(m3, ks) := im_map m2 (map fst sd) in
                                  (m3, Some (fold_left (fun d kv => pd_set d (fst kv) (snd kv))
                                                       (combine ks (map snd sd)) []))
                     | None => match r_shapes r with
                               | Some sh => (m2, Some (sizes_from_shapes ins sh))
                               | None => (m2, None)
                               end
                     end in
    let opt := if is_edge_path (r_optimize r)
               then PTuple (snd (im_map m3 (seq_items (r_optimize r))))
               else r_optimize r in
    match sd with
    | Some sd => Some (mk (PTuple (map PTuple ins)) (PTuple out) sd opt)
    | None => None
    end
  else
    let ins := r_inputs r in
    let out := match r_output r with
               | Some o => seq_val (r_inputs_are_lists r) o
               | None => PTuple (find_output ins)
               end in
    let sd := match r_size_dict r with
              | Some sd => Some sd
              | None => match r_shapes r with
                        | Some sh => Some (sizes_from_shapes ins sh)
                        | None => None
                        end
              end in
    match sd with
    | Some sd => Some (mk (seq_val (r_inputs_are_lists r) (map (seq_val (r_inputs_are_lists r)) ins))
                          out sd (r_optimize r))
    | None => None
    end.

(* a whole sequence of raw calls against one cache: the observation compared with the real code *)
Fixpoint normalize_all (rs : list rawcall) : option (list ncall) :=
  match rs with
  | [] => Some []
  | r :: rs' => match normalize r, normalize_all rs' with
                | Some c, Some cs => Some (c :: cs)
                | _, _ => None
                end
  end.
Definition trace_raw (e : henv) (k : kexpr) (fallback : bool) (rs : list rawcall)
  : option (list (nat * nat) * list pyval) :=
  match normalize_all rs with
  | Some cs => Some (cache_trace e k fallback cs)
  | None => None
  end.
(* the normalised locals of one raw call, in the order inputs, output, size_dict, optimize *)
Definition normalized_fields (r : rawcall) : option (list pyval) :=
  match normalize r with
  | Some c => Some (map (getf (nc_fields c)) ["inputs"; "output"; "size_dict"; "optimize"]%string)
  | None => None
  end.
Definition raw_default : rawcall := mkRaw [] None None None PNone false false [] false false.
Definition norm_at (idxs : list nat) (rs : list rawcall) : list (option (list pyval)) :=
  map (fun i => normalized_fields (nth i rs raw_default)) idxs.
(* both observations of one sequence *)
Definition observe_raw (e : henv) (k : kexpr) (fallback : bool) (idxs : list nat) (rs : list rawcall) :=
  (trace_raw e k fallback rs, norm_at idxs rs).

(* ------------------------------------------------------------------ *)
(* values without frozensets (the fragment for which hash is proved to respect ==) *)
Fixpoint no_frozen (v : pyval) : bool :=
  match v with
  | PTuple l => forallb no_frozen l
  | PFrozen _ => false
  | _ => true
  end.

(* relabelling the indices of a raw call by rho *)
Definition rl_map (rho : pyval -> pyval) (m : indmap) : indmap := map (fun ki => (rho (fst ki), snd ki)) m.
Definition relabel (rho : pyval -> pyval) (r : rawcall) : rawcall :=
  mkRaw (map (map rho) (r_inputs r))
        (option_map (map rho) (r_output r))
        (option_map (map (fun kv => (rho (fst kv), snd kv))) (r_size_dict r))
        (r_shapes r) (r_optimize r) (r_canon r) (r_inputs_are_lists r) (r_kwargs r) (r_cache r) (r_hcls r).

(* ------------------------------------------------------------------ *)
(* the path cache and the expression cache together: a call is tagged with the function it goes
   through; each function uses the dict `tag kind`.  Two dicts are modelled as one dict whose keys
   carry the dict's identity as first component -- equivalent exactly when the identities differ;
   a constant `tag` is the machine in which both functions share ONE dict. *)
Inductive ckind := KPathCall | KExprCall.
Definition two_dkey (tag : ckind -> pyval) (e : henv) (kx : ckind -> kexpr) (c : ckind * ncall) : pyval :=
  PTuple [tag (fst c); nc_dkey e (kx (fst c)) (snd c)].
Definition two_use (c : ckind * ncall) : bool := nc_use (snd c).
Definition two_keyok (kx : ckind -> kexpr) (c : ckind * ncall) : bool := nc_keyok (kx (fst c)) (snd c).
Definition codes_of_string (s : string) : list nat :=
  map Ascii.nat_of_ascii (list_ascii_of_string s).

(* ------------------------------------------------------------------ *)
(* the size component of the key as a FINITE MAP index -> size.
   `items` is the list of (index, size) 2-tuples of tuple(size_dict.items()). *)
Definition simple (v : pyval) : bool :=
  match v with PTuple _ | PFrozen _ | PList _ | PDict _ => false | _ => true end.
Definition item_key (it : pyval) : pyval := match it with PTuple (k :: _) => k | _ => PNone end.
Definition item_val (it : pyval) : pyval := match it with PTuple (_ :: v :: _) => v | _ => PNone end.
Definition item_ok (it : pyval) : bool :=
  match it with PTuple [k; v] => simple k | _ => false end.
(* size_dict[k] *)
Fixpoint dict_get (items : list pyval) (k : pyval) : option pyval :=
  match items with
  | [] => None
  | it :: items' => if py_eqb (item_key it) k then Some (item_val it) else dict_get items' k
  end.
Definition lookup_agree (a b : option pyval) : Prop :=
  match a, b with
  | Some v, Some w => py_eqb v w = true
  | None, None => True
  | _, _ => False
  end.
(* the lossy alternative: tuple(size_dict.values()) *)
Definition values_of_items (items : list pyval) : pyval := PTuple (map item_val items).

(* ------------------------------------------------------------------ *)
(* the gate can_hash_optimize: the classes of `optimize` for which the caches are used.  An accepted
   class must enter the key BY VALUE (an immutable snapshot): str and tuple are immutable, a list is
   accepted only because hash_prepare_optimize converts it to a tuple; every other class (an object
   keyed by identity, e.g. a ContractionTree or an optimizer, can be modified in place after it was
   used as a key) is refused. *)
Definition list_is_snapshotted (prep : chain) : bool :=
  existsb (fun th => ctest_eqb (fst th) (TIsInstance ["list"%string]) && String.eqb (snd th) "tuple") prep.
Definition gate_class_is_value (prep : chain) (cls : string) : bool :=
  if String.eqb cls "str" then true
  else if String.eqb cls "tuple" then true
  else if String.eqb cls "list" then list_is_snapshotted prep
  else false.

(* Base.v -- shared executable vocabulary: boolean equality class, Python-style
   insertion-ordered dictionaries (association lists), small list helpers.
   MODEL FILE: definitions only, no proofs (lemmas live in Proofs/). *)
From Coq Require Export List Arith ZArith Bool.
Export ListNotations.

(* ------------------------------------------------------------------ *)
(* boolean equality, used by the generated correspondence cases        *)
Class Eqb (A : Type) := eqb : A -> A -> bool.
#[export] Instance Eqb_nat : Eqb nat := Nat.eqb.
#[export] Instance Eqb_Z : Eqb Z := Z.eqb.
#[export] Instance Eqb_N : Eqb N := N.eqb.
#[export] Instance Eqb_bool : Eqb bool := Bool.eqb.
#[export] Instance Eqb_unit : Eqb unit := fun _ _ => true.
#[export] Instance Eqb_prod {A B} `{Eqb A} `{Eqb B} : Eqb (A * B) :=
  fun x y => eqb (fst x) (fst y) && eqb (snd x) (snd y).
Fixpoint list_eqb {A} (e : A -> A -> bool) (l1 l2 : list A) : bool :=
  match l1, l2 with
  | [], [] => true
  | x :: l1', y :: l2' => e x y && list_eqb e l1' l2'
  | _, _ => false
  end.
#[export] Instance Eqb_list {A} `{Eqb A} : Eqb (list A) := list_eqb eqb.
#[export] Instance Eqb_option {A} `{Eqb A} : Eqb (option A) :=
  fun x y => match x, y with
             | None, None => true
             | Some a, Some b => eqb a b
             | _, _ => false
             end.

(* indices of the false entries of a list of case results *)
Fixpoint failing_from (i : nat) (l : list bool) : list nat :=
  match l with
  | [] => []
  | b :: l' => if b then failing_from (S i) l' else i :: failing_from (S i) l'
  end.
Definition failing (l : list bool) : list nat := failing_from 0 l.

(* ------------------------------------------------------------------ *)
(* index labels and membership                                        *)
Definition ix := nat.

Definition memb (j : nat) (l : list nat) : bool := existsb (Nat.eqb j) l.

(* Python: dict.fromkeys(it) / cotengra.utils.unique : first occurrences, in order *)
Fixpoint unique_acc (seen : list nat) (l : list nat) : list nat :=
  match l with
  | [] => []
  | x :: l' => if memb x seen then unique_acc seen l' else x :: unique_acc (x :: seen) l'
  end.
Definition unique (l : list nat) : list nat := unique_acc [] l.

(* Python: str.find / tuple.index with -1 encoded as None *)
Fixpoint find_pos (j : nat) (l : list nat) : option nat :=
  match l with
  | [] => None
  | x :: l' => if Nat.eqb x j then Some 0
               else match find_pos j l' with Some p => Some (S p) | None => None end
  end.
(* str.find as an integer (-1 when absent), the form used as a sort key *)
Definition find_z (j : nat) (l : list nat) : Z :=
  match find_pos j l with Some p => Z.of_nat p | None => (-1)%Z end.

(* ------------------------------------------------------------------ *)
(* Python dict  ix -> count  as an insertion-ordered association list  *)
Definition legs := list (ix * nat).

Fixpoint lget (j : ix) (d : legs) : option nat :=
  match d with
  | [] => None
  | (k, v) :: d' => if Nat.eqb k j then Some v else lget j d'
  end.
Definition lget0 (j : ix) (d : legs) : nat :=
  match lget j d with Some v => v | None => 0 end.
Definition lmem (j : ix) (d : legs) : bool :=
  match lget j d with Some _ => true | None => false end.

(* d[k] = v : overwrite keeps the position, a new key goes to the end *)
Fixpoint lset (j : ix) (v : nat) (d : legs) : legs :=
  match d with
  | [] => [(j, v)]
  | (k, w) :: d' => if Nat.eqb k j then (k, v) :: d' else (k, w) :: lset j v d'
  end.
(* d.pop(k, None) *)
Fixpoint ldel (j : ix) (d : legs) : legs :=
  match d with
  | [] => []
  | (k, w) :: d' => if Nat.eqb k j then d' else (k, w) :: ldel j d'
  end.
Definition lkeys (d : legs) : list ix := map fst d.

(* legs[ix] = legs.get(ix, 0) + c *)
Definition ladd (j : ix) (c : nat) (d : legs) : legs := lset j (lget0 j d + c) d.

(* for ix in term: legs[ix] = legs.get(ix,0)+1 *)
Definition legs_of_term (t : list ix) : legs :=
  fold_left (fun d j => ladd j 1 d) t [].

(* core.legs_union for two operands (and n-ary fold) *)
Definition legs_union2 (a b : legs) : legs :=
  fold_left (fun d kv => ladd (fst kv) (snd kv) d) b a.
Definition legs_union (ls : list legs) : legs :=
  match ls with
  | [] => []
  | a :: rest => fold_left legs_union2 rest a
  end.

(* ------------------------------------------------------------------ *)
(* sizes                                                              *)
Definition sizes := list (ix * Z).
Fixpoint zget (j : ix) (d : sizes) : Z :=
  match d with
  | [] => 1%Z  (* never reached for well-formed networks; see wf_net *)
  | (k, v) :: d' => if Nat.eqb k j then v else zget j d'
  end.
Definition zprod (l : list Z) : Z := fold_left Z.mul l 1%Z.
Definition zsum (l : list Z) : Z := fold_left Z.add l 0%Z.
Definition zmax_list (l : list Z) (d : Z) : Z := fold_left Z.max l d.
(* utils.compute_size_by_dict(indices, size_dict) over the keys of a legs dict *)
Definition size_of (sz : sizes) (ks : list ix) : Z := zprod (map (fun j => zget j sz) ks).

(* insertion sort by a Z-pair key, stable: Python sorted(key=...) *)
Definition zz_le (a b : Z * Z) : bool :=
  (fst a <? fst b)%Z || ((fst a =? fst b)%Z && (snd a <=? snd b)%Z).
Fixpoint insert_by {A} (le : A -> A -> bool) (x : A) (l : list A) : list A :=
  match l with
  | [] => [x]
  | y :: l' => if le y x then y :: insert_by le x l' else x :: l
  end.
(* stable: an element equal to an existing one is inserted AFTER it *)
Definition sort_by {A} (le : A -> A -> bool) (l : list A) : list A :=
  fold_left (fun acc x => insert_by le x acc) l [].

(* TreeStateProg.v -- the value a ContractionTree state computes when contracted through the
   einsum path, read off the STATE'S CACHES (the cached index order `inds` of every node, the
   children dict, sliced_inds, preprocessing), and the boolean that says a state is ready to be
   contracted.  Bridges Model/TreeState.v (the mutable tree) to Model/Program.v (C01).
   MODEL FILE: executable definitions only. *)
From Ctg Require Import Base Net Einsum Program TreeState.

Definition node_of (t : tree) : node := nsort (leaves t).
Fixpoint tree_eqb (a b : tree) : bool :=
  match a, b with
  | Leaf i, Leaf j => Nat.eqb i j
  | Node a1 a2, Node b1 b2 => tree_eqb a1 b1 && tree_eqb a2 b2
  | _, _ => false
  end.
(* the cached axis order of a node ("" when nothing is cached) *)
Definition cinds (s : tstate) (t : tree) : list ix :=
  match rd i_inds s (node_of t) with Some x => x | None => [] end.

Section SP.
Variable n : net.
Variable s : tstate.
Variable arr : nat -> ptensor.
Variable e0 : env.
Notation sl := (sliced s).

(* Contractor.__call__ on the einsum program of the state: each pairwise step is
   einsum(inds(l), inds(r) -> inds(p)) with the orders the state has cached *)
Fixpoint srun_sub (t : tree) : ptensor :=
  match t with
  | Leaf k => leaf_tensor n sl arr e0 k
  | Node l r => einsum2 n e0 (cinds s l) (cinds s r) (cinds s t) (srun_sub l) (srun_sub r)
  end.
Definition srun_root (t : tree) : ptensor := srun_sub t.
End SP.

Section Ready.
Variable n : net.
Variable s : tstate.
Notation sl := (sliced s).

Definition wf_net_b : bool :=
  nodup_b (output n) && forallb (fun j => memb j (concat (inputs n))) (output n).
Definition full_tree_b (t : tree) : bool := permb (leaves t) (seq 0 (NN n)).

(* every leaf's cached order is the order of its (pre-processed) array; the root's is the
   declared output; every other node has SOME cached order *)
Fixpoint orders_ok_b (isroot : bool) (t : tree) : bool :=
  match t with
  | Leaf k => match rd i_inds s [k] with
              | Some x => list_eqb Nat.eqb x (lkeys (leaf_legs n sl k))
              | None => false end
  | Node l r =>
      match rd i_inds s (node_of t) with
      | Some x => if isroot then list_eqb Nat.eqb x (lkeys (root_legs n sl)) else true
      | None => false
      end && orders_ok_b false l && orders_ok_b false r
  end.
(* tree.preprocessing is exactly the set of from-scratch leaf simplifications *)
Definition preproc_complete_b : bool :=
  forallb (fun k => match leaf_preproc n sl k, pget k (preproc s) with
                    | Some tk, Some e => eqb (canon_eq1 tk) e
                    | None, None => true
                    | _, _ => false end) (seq 0 (NN n)).
(* the state is ready to be contracted along t *)
Definition contractible_b (t : tree) : bool :=
  match t with
  | Leaf _ => false
  | Node l r =>
      wf_net_b && full_tree_b t
      && match tree_of (tfuel s) (children s) (seq 0 (NN n)) with
         | Some t' => tree_eqb t' t          (* t is the tree the children dict describes *)
         | None => false end
      && orders_ok_b true t
      && admissible_b n sl (cinds s) l && admissible_b n sl (cinds s) r
      && preproc_complete_b && negb (err s)
  end.
End Ready.

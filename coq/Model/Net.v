(* Net.v -- the tensor network, binary contraction trees over it, and the
   per-node figures ContractionTree computes (cotengra/core.py):
   appearances, compute_leaf_legs, get_legs, get_involved, get_size, get_flops,
   contract_stats, peak_size, multiplicity.
   MODEL FILE: executable definitions only. *)
From Ctg Require Export Base.

Record net := mkNet { inputs : list (list ix); output : list ix; szd : sizes }.

(* one removed index: sliced (project = None) or projected to a value *)
Record slinfo := mkSl { sl_ix : ix; sl_proj : option nat }.

Inductive tree := Leaf (k : nat) | Node (l r : tree).

Fixpoint leaves (t : tree) : list nat :=
  match t with Leaf k => [k] | Node l r => leaves l ++ leaves r end.
Fixpoint nleaves (t : tree) : nat :=
  match t with Leaf _ => 1 | Node l r => nleaves l + nleaves r end.

Section WithNet.
Variable n : net.
Variable sl : list slinfo.      (* tree.sliced_inds, as a list *)

Definition removed : list ix := map sl_ix sl.
Definition NN : nat := length (inputs n).

(* ContractionTree.__init__: self.appearances *)
Definition appearances : legs :=
  fold_left (fun d j => ladd j 1 d) (concat (inputs n) ++ output n) [].
Definition appear (j : ix) : nat := lget0 j appearances.

(* the i-th input term after slicing (compute_leaf_legs, first lines) *)
Definition term_sl (i : nat) : list ix :=
  filter (fun j => negb (memb j removed)) (nth i (inputs n) []).

(* compute_leaf_legs: returns the effective legs and, when the term is
   simplifiable, the preprocessing step (term, kept indices) *)
Definition leaf_simplifiable (i : nat) : bool :=
  let term := term_sl i in
  let lg := legs_of_term term in
  negb (Nat.eqb (length term) (length lg))
  || existsb (fun kv => Nat.eqb (snd kv) (appear (fst kv))) lg.
Definition leaf_legs (i : nat) : legs :=
  let lg := legs_of_term (term_sl i) in
  if leaf_simplifiable i
  then filter (fun kv => negb (Nat.eqb (snd kv) (appear (fst kv)))) lg
  else lg.
Definition leaf_preproc (i : nat) : option (list ix * list ix) :=
  if leaf_simplifiable i then Some (term_sl i, lkeys (leaf_legs i)) else None.

(* get_legs for the root: {ix: 0 for ix in output if ix not in sliced_inds} *)
Definition root_legs : legs :=
  map (fun j => (j, 0)) (filter (fun j => negb (memb j removed)) (output n)).

(* get_legs of a proper (non-root) subtree, and get_involved *)
Fixpoint sub_legs (t : tree) : legs :=
  match t with
  | Leaf k => leaf_legs k
  | Node l r =>
      filter (fun kv => Nat.ltb (snd kv) (appear (fst kv)))
             (legs_union2 (sub_legs l) (sub_legs r))
  end.
Definition involved (t : tree) : legs :=
  match t with
  | Leaf _ => []
  | Node l r => legs_union2 (sub_legs l) (sub_legs r)
  end.

(* get_legs with the root rule: [isroot] says whether t is the whole tree *)
Definition node_legs (isroot : bool) (t : tree) : legs :=
  match t with
  | Leaf _ => sub_legs t
  | Node _ _ => if isroot then root_legs else sub_legs t
  end.

Definition node_size (isroot : bool) (t : tree) : Z := size_of (szd n) (lkeys (node_legs isroot t)).
Definition node_flops (t : tree) : Z :=
  match t with Leaf _ => 0%Z | Node _ _ => size_of (szd n) (lkeys (involved t)) end.

(* internal nodes in the order of ContractionTree._traverse_dfs: left subtree,
   right subtree, then the node; flag = is it the root *)
Fixpoint post_sub (t : tree) : list tree :=
  match t with
  | Leaf _ => []
  | Node l r => post_sub l ++ post_sub r ++ [t]
  end.
Definition traverse_dfs (t : tree) : list (bool * tree) :=
  match t with
  | Leaf _ => []
  | Node l r => map (pair false) (post_sub l ++ post_sub r) ++ [(true, t)]
  end.

(* multiplicity: product of the sizes of the sliced (not projected) indices *)
Definition multiplicity : Z :=
  zprod (map (fun s => match sl_proj s with None => zget (sl_ix s) (szd n) | Some _ => 1%Z end) sl).

(* contract_stats *)
Definition sum_flops (t : tree) : Z := zsum (map (fun bt => node_flops (snd bt)) (traverse_dfs t)).
Definition sum_write (t : tree) : Z := zsum (map (fun bt => node_size (fst bt) (snd bt)) (traverse_dfs t)).
Definition total_flops (t : tree) : Z := (multiplicity * sum_flops t)%Z.
Definition total_write (t : tree) : Z := (multiplicity * sum_write t)%Z.
Definition max_size (t : tree) : Z :=
  zmax_list (map (fun bt => node_size (fst bt) (snd bt)) (traverse_dfs t)) 0%Z.

(* peak_size(order): fold over a traversal given as a list of (isroot, node) *)
Definition child_size (t : tree) : Z := node_size false t.
Definition leaves_total (t : tree) : Z := zsum (map (fun k => node_size false (Leaf k)) (leaves t)).
Definition peak_step (st : Z * Z) (bt : bool * tree) : Z * Z :=
  let '(tot, peak) := st in
  match snd bt with
  | Leaf _ => st
  | Node l r =>
      let tot1 := (tot + node_size (fst bt) (snd bt))%Z in
      let peak1 := Z.max peak tot1 in
      ((tot1 - child_size l - child_size r)%Z, peak1)
  end.
Definition peak_size_order (t : tree) (order : list (bool * tree)) : Z :=
  let t0 := leaves_total t in
  snd (fold_left peak_step order (t0, t0)).
Definition peak_size_dfs (t : tree) : Z := peak_size_order t (traverse_dfs t).

(* the per-node table the correspondence compares:
   (sorted leaf set, legs, involved, size, flops) in dfs order *)
Definition node_row (bt : bool * tree) : list nat * (legs * (legs * (Z * Z))) :=
  (leaves (snd bt), (node_legs (fst bt) (snd bt), (involved (snd bt),
     (node_size (fst bt) (snd bt), node_flops (snd bt))))).
Definition node_table (t : tree) : list (list nat * (legs * (legs * (Z * Z)))) :=
  map node_row (traverse_dfs t).
Definition leaf_table (t : tree) : list (nat * (legs * option (list ix * list ix))) :=
  map (fun k => (k, (leaf_legs k, leaf_preproc k))) (leaves t).

End WithNet.

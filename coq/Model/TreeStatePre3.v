(* TreeStatePre3.v -- the preconditions of the primitives once the structural facts about the state
   ("key = sorted union of its children", "every key has an info entry", "index in legs => index in involved")
   are consequences of reachable-state invariants (Proofs/TreeStateStruct.v).  What contract_nodes_pair must
   satisfy instead: its two operands are sorted leaf lists.  "Every internal info node is a key of children" is
   not an invariant at primitive granularity (subtree_reconfigure re-adds a subtree root with _add_node before
   it becomes a key again) and stays a boolean check in remove_ind / restore_ind.
   MODEL FILE: executable definitions only. *)
From Ctg Require Import Base Net NetFacts TreeState TreeStatePre TreeStateRec TreeStatePre2.

Section Pre3.
Variable n : net.
Notation N := (NN n).

Definition leaf_or_key_b (s : tstate) (x : node) : bool := Nat.eqb (length x) 1 || nmem x (children s).
Definition fullinfo4_b (i : ninfo) : bool :=
  match i_involved i, i_flops i, i_legs i, i_size i with
  | Some _, Some _, Some _, Some _ => true
  | _, _, _, _ => false
  end.
Definition rm_pre3_b (ind : ix) (s : tstate) : bool :=
  negb (memb ind (removed (sliced s))) && stats_pre2_b n false s && Z.ltb 0 (zget ind (szd n))
  && forallb (fun j => memb j (concat (inputs n))) (output n)
  && forallb (fun ni => (Nat.eqb (length (fst ni)) 1 || nmem (fst ni) (children s))
                        && (Nat.eqb (length (fst ni)) 1 || fullinfo4_b (snd ni)))
             (info (populate_m n (contract_stats n false s))).
Definition rs_pre3_b (ind : ix) (s : tstate) : bool :=
  memb ind (removed (sliced s)) && nodupb (removed (sliced s))
  && trk_flops s && trk_write s && trk_size s
  && Z.ltb 0 (zget ind (szd n))
  && forallb (fun j => memb j (concat (inputs n))) (output n)
  && complete_b n s
  && forallb (fun ni => Nat.eqb (length (fst ni)) 1 || nmem (fst ni) (children s)) (info s).
Definition prim_pre3_b (p : prim) (s : tstate) : bool :=
  match p with
  | PPair x y lg c z => pair_pre_b n s x y lg c z && ssorted_b x && ssorted_b y
  | PRemoveInd ind _ => rm_pre3_b ind s
  | PRestoreInd ind => rs_pre3_b ind s
  | _ => prim_pre2_b n p s
  end.
Definition primA_pre3_b (p : prim) (s : tstate) : bool :=
  prim_pre3_b p s && match p with PPair x y lg _ _ => pairA_pre_b n s x y lg | _ => true end.
Fixpoint pre3_trace_b (tr : list prim) (s : tstate) : bool :=
  match tr with
  | [] => true
  | p :: tr' => primA_pre3_b p s && pre3_trace_b tr' (step n p s)
  end.
Fixpoint mon3_trace (tr : list mevent) (ms : mstate) : list bool :=
  match tr with
  | [] => []
  | e :: tr' =>
      (match e with
       | MOn t p => match pget t ms with Some s => primA_pre3_b p s | None => true end
       | MSetFrom _ _ => true
       end) :: mon3_trace tr' (mstep n ms e)
  end.
Definition mon3_ok (tr : list mevent) (ms : mstate) : bool := forallb (fun b => b) (mon3_trace tr ms).
(* the structural invariant as a boolean (for states that are observed, not reached from a fresh tree) *)
Definition struct_b (s : tstate) : bool :=
  forallb (fun c => ssorted_b (fst (snd c)) && ssorted_b (snd (snd c))
                    && node_eqb (nunion (fst (snd c)) (snd (snd c))) (fst c)
                    && nmem (fst c) (info s)) (children s).
End Pre3.

(* TreeState.v -- the MUTABLE ContractionTree of cotengra/core.py as a state machine.
   State  : children / info caches / preprocessing / sliced_inds / sliced_inputs /
            multiplicity / tracking flags and running totals (_flops, _write, _sizes as a
            MaxCounter) / keys of the compiled-contractor cache.
   Steps  : the PRIMITIVE operations every public transformation is made of, each following
            the Python statement by statement (cotengra/core.py, utils.py MaxCounter,
            pathfinders/path_simulated_annealing.py compute_contracted_info).
   A node is the sorted list of its leaf numbers (frozenset[int]).  Python dicts are
   association lists with Python's update discipline.  A Python exception is the flag [err].
   MODEL FILE: executable definitions only (lemmas: Proofs/TreeStateFacts.v). *)
From Ctg Require Export Base Net.

Definition node := list nat.
Definition node_eqb (a b : node) : bool := list_eqb Nat.eqb a b.

(* ---- dict keyed by nodes ------------------------------------------------ *)
Fixpoint nget {V} (k : node) (d : list (node * V)) : option V :=
  match d with
  | [] => None
  | (k', v) :: d' => if node_eqb k' k then Some v else nget k d'
  end.
(* d[k] = v : overwrite keeps the position, a new key goes to the end *)
Fixpoint nset {V} (k : node) (v : V) (d : list (node * V)) : list (node * V) :=
  match d with
  | [] => [(k, v)]
  | (k', w) :: d' => if node_eqb k' k then (k', v) :: d' else (k', w) :: nset k v d'
  end.
Fixpoint ndel {V} (k : node) (d : list (node * V)) : list (node * V) :=
  match d with
  | [] => []
  | (k', w) :: d' => if node_eqb k' k then d' else (k', w) :: ndel k d'
  end.
Definition nmem {V} (k : node) (d : list (node * V)) : bool :=
  match nget k d with Some _ => true | None => false end.

(* ---- dict keyed by nat (preprocessing) ------------------------------------ *)
Fixpoint pget {V} (k : nat) (d : list (nat * V)) : option V :=
  match d with
  | [] => None
  | (k', v) :: d' => if Nat.eqb k' k then Some v else pget k d'
  end.
Fixpoint pset {V} (k : nat) (v : V) (d : list (nat * V)) : list (nat * V) :=
  match d with
  | [] => [(k, v)]
  | (k', w) :: d' => if Nat.eqb k' k then (k', v) :: d' else (k', w) :: pset k v d'
  end.
Fixpoint pdel {V} (k : nat) (d : list (nat * V)) : list (nat * V) :=
  match d with
  | [] => []
  | (k', w) :: d' => if Nat.eqb k' k then d' else (k', w) :: pdel k d'
  end.

(* ---- utils.MaxCounter: a Counter and the cached maximum ------------------- *)
Definition counter := list (Z * nat).
Fixpoint cget0 (x : Z) (c : counter) : nat :=
  match c with
  | [] => 0
  | (k, v) :: c' => if Z.eqb k x then v else cget0 x c'
  end.
Fixpoint cset (x : Z) (v : nat) (c : counter) : counter :=
  match c with
  | [] => [(x, v)]
  | (k, w) :: c' => if Z.eqb k x then (k, v) :: c' else (k, w) :: cset x v c'
  end.
Fixpoint cdel (x : Z) (c : counter) : counter :=
  match c with
  | [] => []
  | (k, w) :: c' => if Z.eqb k x then c' else (k, w) :: cdel x c'
  end.
(* max(self._c) ; ValueError on an empty counter -> -inf, here None *)
Definition max_keys (c : counter) : option Z :=
  match c with
  | [] => None
  | (k, _) :: c' => Some (fold_left Z.max (map fst c') k)
  end.
Definition maxcounter := (counter * option Z)%type.
Definition mc_empty : maxcounter := ([], None).
(* add: self._c[x] += 1 ; self._max_element = max(self._max_element, x) *)
Definition mc_add (x : Z) (m : maxcounter) : maxcounter :=
  (cset x (cget0 x (fst m) + 1) (fst m),
   Some (match snd m with None => x | Some y => Z.max y x end)).
(* discard *)
Definition mc_discard (x : Z) (m : maxcounter) : maxcounter :=
  let cnt := cget0 x (fst m) in
  if Nat.leb cnt 1 then
    let c' := cdel x (fst m) in
    (c', match snd m with
         | Some y => if Z.eqb x y then max_keys c' else snd m
         | None => snd m
         end)
  else (cset x (cnt - 1) (fst m), snd m).
Definition mc_max (m : maxcounter) : option Z := snd m.

(* ---- per-node cache record ---------------------------------------------- *)
Record ninfo := mkInfo {
  i_legs : option legs;
  i_involved : option legs;
  i_size : option Z;
  i_flops : option Z;
  i_inds : option (list ix);
  i_eq : option (list nat * (list nat * list nat));   (* "l,r->p" in canonical symbols *)
  i_can_dot : option bool;
  i_tdaxes : option (list nat * list nat);
  i_tdperm : option (option (list nat))               (* cached None is Some None *)
}.
Definition noinfo : ninfo := mkInfo None None None None None None None None None.

Record tstate := mkState {
  children : list (node * (node * node));
  info : list (node * ninfo);
  preproc : list (nat * (list nat * list nat));       (* i -> canonical single-term equation *)
  sliced : list slinfo;                               (* tree.sliced_inds in its dict order *)
  sliced_inputs : list nat;
  mult : Z;
  trk_flops : bool; trk_write : bool; trk_size : bool;
  flops_ : Z; write_ : Z;
  sizes_ : counter; sizes_max : option Z;             (* the MaxCounter _sizes *)
  cores : list nat;                                   (* keys of contraction_cores *)
  err : bool                                          (* a Python exception was raised *)
}.

Definition set_children c s := mkState c (info s) (preproc s) (sliced s) (sliced_inputs s) (mult s) (trk_flops s) (trk_write s) (trk_size s) (flops_ s) (write_ s) (sizes_ s) (sizes_max s) (cores s) (err s).
Definition set_info i s := mkState (children s) i (preproc s) (sliced s) (sliced_inputs s) (mult s) (trk_flops s) (trk_write s) (trk_size s) (flops_ s) (write_ s) (sizes_ s) (sizes_max s) (cores s) (err s).
Definition set_preproc p s := mkState (children s) (info s) p (sliced s) (sliced_inputs s) (mult s) (trk_flops s) (trk_write s) (trk_size s) (flops_ s) (write_ s) (sizes_ s) (sizes_max s) (cores s) (err s).
Definition set_sliced x s := mkState (children s) (info s) (preproc s) x (sliced_inputs s) (mult s) (trk_flops s) (trk_write s) (trk_size s) (flops_ s) (write_ s) (sizes_ s) (sizes_max s) (cores s) (err s).
Definition set_sliced_inputs x s := mkState (children s) (info s) (preproc s) (sliced s) x (mult s) (trk_flops s) (trk_write s) (trk_size s) (flops_ s) (write_ s) (sizes_ s) (sizes_max s) (cores s) (err s).
Definition set_mult x s := mkState (children s) (info s) (preproc s) (sliced s) (sliced_inputs s) x (trk_flops s) (trk_write s) (trk_size s) (flops_ s) (write_ s) (sizes_ s) (sizes_max s) (cores s) (err s).
Definition set_trk (a b c : bool) s := mkState (children s) (info s) (preproc s) (sliced s) (sliced_inputs s) (mult s) a b c (flops_ s) (write_ s) (sizes_ s) (sizes_max s) (cores s) (err s).
Definition set_flops x s := mkState (children s) (info s) (preproc s) (sliced s) (sliced_inputs s) (mult s) (trk_flops s) (trk_write s) (trk_size s) x (write_ s) (sizes_ s) (sizes_max s) (cores s) (err s).
Definition set_write x s := mkState (children s) (info s) (preproc s) (sliced s) (sliced_inputs s) (mult s) (trk_flops s) (trk_write s) (trk_size s) (flops_ s) x (sizes_ s) (sizes_max s) (cores s) (err s).
Definition set_sizes (m : maxcounter) s := mkState (children s) (info s) (preproc s) (sliced s) (sliced_inputs s) (mult s) (trk_flops s) (trk_write s) (trk_size s) (flops_ s) (write_ s) (fst m) (snd m) (cores s) (err s).
Definition set_cores x s := mkState (children s) (info s) (preproc s) (sliced s) (sliced_inputs s) (mult s) (trk_flops s) (trk_write s) (trk_size s) (flops_ s) (write_ s) (sizes_ s) (sizes_max s) x (err s).
Definition set_err s := mkState (children s) (info s) (preproc s) (sliced s) (sliced_inputs s) (mult s) (trk_flops s) (trk_write s) (trk_size s) (flops_ s) (write_ s) (sizes_ s) (sizes_max s) (cores s) true.
Definition sizes_mc s : maxcounter := (sizes_ s, sizes_max s).

(* field setters of the cache record *)
Definition w_legs v i := mkInfo v (i_involved i) (i_size i) (i_flops i) (i_inds i) (i_eq i) (i_can_dot i) (i_tdaxes i) (i_tdperm i).
Definition w_involved v i := mkInfo (i_legs i) v (i_size i) (i_flops i) (i_inds i) (i_eq i) (i_can_dot i) (i_tdaxes i) (i_tdperm i).
Definition w_size v i := mkInfo (i_legs i) (i_involved i) v (i_flops i) (i_inds i) (i_eq i) (i_can_dot i) (i_tdaxes i) (i_tdperm i).
Definition w_flops v i := mkInfo (i_legs i) (i_involved i) (i_size i) v (i_inds i) (i_eq i) (i_can_dot i) (i_tdaxes i) (i_tdperm i).
Definition w_inds v i := mkInfo (i_legs i) (i_involved i) (i_size i) (i_flops i) v (i_eq i) (i_can_dot i) (i_tdaxes i) (i_tdperm i).
Definition w_eq v i := mkInfo (i_legs i) (i_involved i) (i_size i) (i_flops i) (i_inds i) v (i_can_dot i) (i_tdaxes i) (i_tdperm i).
Definition w_can_dot v i := mkInfo (i_legs i) (i_involved i) (i_size i) (i_flops i) (i_inds i) (i_eq i) v (i_tdaxes i) (i_tdperm i).
Definition w_tdaxes v i := mkInfo (i_legs i) (i_involved i) (i_size i) (i_flops i) (i_inds i) (i_eq i) (i_can_dot i) v (i_tdperm i).
Definition w_tdperm v i := mkInfo (i_legs i) (i_involved i) (i_size i) (i_flops i) (i_inds i) (i_eq i) (i_can_dot i) (i_tdaxes i) v.
(* drop the recipes derived from index orders (keeps inds) / and inds too *)
Definition drop_recipes i := mkInfo (i_legs i) (i_involved i) (i_size i) (i_flops i) (i_inds i) None None None None.
Definition drop_inds_recipes i := mkInfo (i_legs i) (i_involved i) (i_size i) (i_flops i) None None None None None.

(* self.info[node][...] = ... : KeyError when the node has no entry *)
Definition upd_info (nd : node) (f : ninfo -> ninfo) (s : tstate) : tstate :=
  match nget nd (info s) with
  | Some i => set_info (nset nd (f i) (info s)) s
  | None => set_err s
  end.
Definition rd {A} (fld : ninfo -> option A) (s : tstate) (nd : node) : option A :=
  match nget nd (info s) with Some i => fld i | None => None end.

(* sorted-set helpers for nodes *)
Fixpoint ins_sorted (x : nat) (l : list nat) : list nat :=
  match l with
  | [] => [x]
  | y :: l' => if Nat.ltb x y then x :: l else if Nat.eqb x y then l else y :: ins_sorted x l'
  end.
Definition nunion (a b : node) : node := fold_left (fun acc x => ins_sorted x acc) b a.
Definition nsort (l : list nat) : list nat := fold_left (fun acc x => ins_sorted x acc) l [].

(* canonical symbols of a single-term equation: inputs_output_to_eq(canonicalize=True).
   The output tuple is built eagerly and the input terms lazily, so symbols are numbered by
   first appearance in the OUTPUT (the kept legs), then in the term. *)
Definition pos_in (u : list nat) (j : nat) : nat :=
  match find_pos j u with Some p => p | None => j end.
Definition canon_eq1 (tk : list ix * list ix) : list nat * list nat :=
  let u := unique (snd tk ++ fst tk) in (map (pos_in u) (fst tk), map (pos_in u) (snd tk)).

Section WithNet.
Variable n : net.
Let N := NN n.

(* ------------------------------------------------------------------------ *)
(* compute_leaf_legs(i) : effective legs + lazily recorded preprocessing        *)
Definition compute_leaf_legs (s : tstate) (i : nat) : tstate * legs :=
  let s' := match leaf_preproc n (sliced s) i with
            | Some tk => set_preproc (pset i (canon_eq1 tk) (preproc s)) s
            | None => s
            end in
  (s', leaf_legs n (sliced s) i).

(* get_legs / get_involved, with the caching decorator.  get_involved returns None for the
   KeyError raised by self.children[node] (caught by get_legs, fatal elsewhere). *)
Fixpoint get_legs (f : nat) (s : tstate) (nd : node) {struct f} : tstate * legs :=
  match f with
  | O => (set_err s, [])
  | S f' =>
    match rd i_legs s nd with
    | Some l => (s, l)
    | None =>
      let '(s1, v) :=
        if Nat.eqb (length nd) 1 then compute_leaf_legs s (hd 0 nd)
        else if Nat.eqb (length nd) N then (s, root_legs n (sliced s))
        else
          match get_involved f' s nd with
          | (s2, Some inv) => (s2, filter (fun kv => Nat.ltb (snd kv) (appear n (fst kv))) inv)
          | (s2, None) =>
              (* legs_union(self.node_to_terms(node)) *)
              let '(s3, ls) := fold_left (fun acc i =>
                                   let '(sa, l) := get_legs f' (fst acc) [i] in (sa, snd acc ++ [l]))
                                 nd (s2, []) in
              (s3, filter (fun kv => Nat.ltb (snd kv) (appear n (fst kv))) (legs_union ls))
          end in
      (upd_info nd (w_legs (Some v)) s1, v)
    end
  end
with get_involved (f : nat) (s : tstate) (nd : node) {struct f} : tstate * option legs :=
  match f with
  | O => (set_err s, None)
  | S f' =>
    match rd i_involved s nd with
    | Some l => (s, Some l)
    | None =>
      if Nat.eqb (length nd) 1 then (upd_info nd (w_involved (Some [])) s, Some [])
      else
        match nget nd (children s) with
        | None => (s, None)
        | Some (l, r) =>
            let '(s1, ll) := get_legs f' s l in
            let '(s2, lr) := get_legs f' s1 r in
            let v := legs_union2 ll lr in
            (upd_info nd (w_involved (Some v)) s2, Some v)
        end
    end
  end.

(* enough for any node made of leaves 0..N-1 (depth <= N); the other terms are slack *)
Definition fuel (s : tstate) : nat := 2 * N + 2 * length (info s) + 2 * length (children s) + 6.

Definition g_legs (s : tstate) (nd : node) : tstate * legs := get_legs (fuel s) s nd.
(* get_involved called from outside get_legs: the KeyError is fatal *)
Definition g_involved (s : tstate) (nd : node) : tstate * legs :=
  match get_involved (fuel s) s nd with
  | (s', Some v) => (s', v)
  | (s', None) => (set_err s', [])
  end.
Definition g_size (s : tstate) (nd : node) : tstate * Z :=
  match rd i_size s nd with
  | Some v => (s, v)
  | None => let '(s1, l) := g_legs s nd in
            let v := size_of (szd n) (lkeys l) in
            (upd_info nd (w_size (Some v)) s1, v)
  end.
Definition g_flops (s : tstate) (nd : node) : tstate * Z :=
  match rd i_flops s nd with
  | Some v => (s, v)
  | None =>
      if Nat.eqb (length nd) 1 then (upd_info nd (w_flops (Some 0%Z)) s, 0%Z)
      else let '(s1, inv) := g_involved s nd in
           let v := size_of (szd n) (lkeys inv) in
           (upd_info nd (w_flops (Some v)) s1, v)
  end.

Definition subset (a b : list nat) : bool := forallb (fun x => memb x b) a.
Definition set_eqb (a b : list nat) : bool := subset a b && subset b a.
Definition symdiff (a b : list nat) : list nat :=
  filter (fun x => negb (memb x b)) a ++ filter (fun x => negb (memb x a)) b.

Definition g_can_dot (s : tstate) (nd : node) : tstate * bool :=
  match rd i_can_dot s nd with
  | Some v => (s, v)
  | None =>
      match nget nd (children s) with
      | None => (set_err s, false)
      | Some (l, r) =>
          let '(s1, sp) := g_legs s nd in
          let '(s2, sl) := g_legs s1 l in
          let '(s3, sr) := g_legs s2 r in
          let v := set_eqb (lkeys sp) (symdiff (lkeys sl) (lkeys sr)) in
          (upd_info nd (w_can_dot (Some v)) s3, v)
      end
  end.

Fixpoint get_inds (f : nat) (s : tstate) (nd : node) {struct f} : tstate * list ix :=
  match f with
  | O => (set_err s, [])
  | S f' =>
    match rd i_inds s nd with
    | Some v => (s, v)
    | None =>
        if Nat.eqb (length nd) 1 || Nat.eqb (length nd) N then
          let '(s1, l) := g_legs s nd in
          (upd_info nd (w_inds (Some (lkeys l))) s1, lkeys l)
        else
          let '(s1, lg) := g_legs s nd in
          match nget nd (children s1) with
          | None => (set_err s1, [])
          | Some (l, r) =>
              let '(s2, li) := get_inds f' s1 l in
              let '(s3, ri) := get_inds f' s2 r in
              let v := unique (filter (fun j => lmem j lg) (li ++ ri)) in
              (upd_info nd (w_inds (Some v)) s3, v)
          end
    end
  end.
Definition g_inds (s : tstate) (nd : node) : tstate * list ix := get_inds (fuel s) s nd.

(* tensordot axes: pairs (i, j) with l_inds[i] = r_inds[j], in order of the left operand *)
Fixpoint td_axes (li ri : list ix) (i : nat) : list nat * list nat :=
  match li with
  | [] => ([], [])
  | x :: li' =>
      let '(la, ra) := td_axes li' ri (S i) in
      match find_pos x ri with
      | Some j => (i :: la, j :: ra)
      | None => (la, ra)
      end
  end.
Definition g_tdaxes (s : tstate) (nd : node) : tstate * (list nat * list nat) :=
  match rd i_tdaxes s nd with
  | Some v => (s, v)
  | None =>
      match nget nd (children s) with
      | None => (set_err s, ([], []))
      | Some (l, r) =>
          let '(s1, li) := g_inds s l in
          let '(s2, ri) := g_inds s1 r in
          let v := td_axes li ri 0 in
          (upd_info nd (w_tdaxes (Some v)) s2, v)
      end
  end.
(* sorted(xs, key=k) for an integer key, stable *)
Definition sort_key1 (k : ix -> Z) (xs : list ix) : list ix :=
  sort_by (fun a b => (k a <=? k b)%Z) xs.
Definition sort_key2 (k : ix -> Z * Z) (xs : list ix) : list ix :=
  sort_by (fun a b => zz_le (k a) (k b)) xs.
Definition td_perm (li ri pi : list ix) : option (list nat) :=
  let td := sort_key1 (fun j => find_z j (li ++ ri)) pi in
  if list_eqb Nat.eqb td pi then None
  else Some (map (fun j => match find_pos j td with Some p => p | None => 0 end) pi).
Definition g_tdperm (s : tstate) (nd : node) : tstate * option (list nat) :=
  match rd i_tdperm s nd with
  | Some v => (s, v)
  | None =>
      match nget nd (children s) with
      | None => (set_err s, None)
      | Some (l, r) =>
          let '(s1, li) := g_inds s l in
          let '(s2, ri) := g_inds s1 r in
          let '(s3, pi) := g_inds s2 nd in
          let v := td_perm li ri pi in
          (upd_info nd (w_tdperm (Some v)) s3, v)
      end
  end.
Definition einsum_eq_of (li ri pi : list ix) : list nat * (list nat * list nat) :=
  let u := unique (li ++ ri) in
  (map (pos_in u) li, (map (pos_in u) ri, map (pos_in u) pi)).
Definition g_eq (s : tstate) (nd : node) : tstate * (list nat * (list nat * list nat)) :=
  match rd i_eq s nd with
  | Some v => (s, v)
  | None =>
      match nget nd (children s) with
      | None => (set_err s, ([], ([], [])))
      | Some (l, r) =>
          let '(s1, li) := g_inds s l in
          let '(s2, ri) := g_inds s1 r in
          let '(s3, pi) := g_inds s2 nd in
          let v := einsum_eq_of li ri pi in
          (upd_info nd (w_eq (Some v)) s3, v)
      end
  end.

(* ------------------------------------------------------------------------ *)
(* _traverse_dfs : the (parent, l, r) triples, children before parents        *)
Definition is_ready (done : list node) (x : node) : bool :=
  Nat.eqb (length x) 1 || existsb (node_eqb x) done.
Fixpoint dfs_loop (f : nat) (ch : list (node * (node * node))) (queue : list node) (done : list node)
         (acc : list (node * (node * node))) : option (list (node * (node * node))) :=
  match f with
  | O => None
  | S f' =>
    match queue with
    | [] => Some (rev acc)
    | nd :: q' =>                       (* queue[-1] : the head of this list *)
        match nget nd ch with
        | None => None
        | Some (l, r) =>
            if is_ready done l && is_ready done r
            then dfs_loop f' ch q' (nd :: done) ((nd, (l, r)) :: acc)
            else
              let q1 := if is_ready done r then queue else r :: queue in
              let q2 := if is_ready done l then q1 else l :: q1 in
              dfs_loop f' ch q2 done acc
        end
    end
  end.
Definition root : node := seq 0 N.
Definition traverse (s : tstate) : option (list (node * (node * node))) :=
  if Nat.eqb N 1 then Some []
  else dfs_loop (2 * length (children s) + 4) (children s) [root] [] [].

(* descend(mode="dfs") *)
Fixpoint descend_loop (f : nat) (ch : list (node * (node * node))) (queue : list node)
         (acc : list (node * (node * node))) : option (list (node * (node * node))) :=
  match f with
  | O => None
  | S f' =>
    match queue with
    | [] => Some (rev acc)
    | p :: q' =>                        (* queue.pop(-1) *)
        match nget p ch with
        | None => None
        | Some (l, r) =>
            let q1 := if Nat.ltb 1 (length l) then l :: q' else q' in
            let q2 := if Nat.ltb 1 (length r) then r :: q1 else q1 in
            descend_loop f' ch q2 ((p, (l, r)) :: acc)
        end
    end
  end.
Definition descend (s : tstate) : option (list (node * (node * node))) :=
  descend_loop (length (children s) + 2) (children s) [root] [].

(* ------------------------------------------------------------------------ *)
(* contract_stats / total_flops / total_write / max_size                      *)
Definition stats_body (s : tstate) (nodes : list (node * (node * node))) : tstate :=
  fold_left (fun s plr =>
    let '(s1, fl) := g_flops s (fst plr) in
    let s2 := set_flops (flops_ s1 + fl)%Z s1 in
    let '(s3, sz) := g_size s2 (fst plr) in
    let s4 := set_write (write_ s3 + sz)%Z s3 in
    set_sizes (mc_add sz (sizes_mc s4)) s4) nodes s.
Definition contract_stats (force : bool) (s : tstate) : tstate :=
  if force || negb (trk_flops s && trk_write s && trk_size s) then
    let s0 := set_sizes mc_empty (set_write 0%Z (set_flops 0%Z s)) in
    match traverse s0 with
    | None => set_err s0
    | Some nodes => set_trk true true true (stats_body s0 nodes)
    end
  else s.
Definition total_flops_op (s : tstate) : tstate :=
  if trk_flops s then s else
    let s0 := set_flops 0%Z s in
    match traverse s0 with
    | None => set_err s0
    | Some nodes =>
        let s1 := fold_left (fun s plr => let '(s1, fl) := g_flops s (fst plr) in
                                          set_flops (flops_ s1 + fl)%Z s1) nodes s0 in
        set_trk true (trk_write s1) (trk_size s1) s1
    end.
Definition total_write_op (s : tstate) : tstate :=
  if trk_write s then s else
    let s0 := set_write 0%Z s in
    match traverse s0 with
    | None => set_err s0
    | Some nodes =>
        let s1 := fold_left (fun s plr => let '(s1, sz) := g_size s (fst plr) in
                                          set_write (write_ s1 + sz)%Z s1) nodes s0 in
        set_trk (trk_flops s1) true (trk_size s1) s1
    end.
Definition max_size_op (s : tstate) : tstate :=
  if Nat.eqb N 1 then fst (g_size s root)
  else if trk_size s then s else
    let s0 := set_sizes mc_empty s in
    match traverse s0 with
    | None => set_err s0
    | Some nodes =>
        let s1 := fold_left (fun s plr => let '(s1, sz) := g_size s (fst plr) in
                                          set_sizes (mc_add sz (sizes_mc s1)) s1) nodes s0 in
        set_trk (trk_flops s1) (trk_write s1) true s1
    end.

(* ------------------------------------------------------------------------ *)
(* _add_node, _remove_node, _update_tracked, contract_nodes_pair             *)
Definition add_node (nd : node) (s : tstate) : tstate :=
  if nmem nd (info s) then s else set_info (info s ++ [(nd, noinfo)]) s.

Definition clear_info (nd : node) (s : tstate) : tstate := upd_info nd (fun _ => noinfo) s.

Definition remove_node (nd : node) (s : tstate) : tstate :=
  if Nat.eqb (length nd) 1 then
    set_preproc (pdel (hd 0 nd) (preproc (clear_info nd s))) (clear_info nd s)
  else
    let s1 := if trk_size s then let '(sa, sz) := g_size s nd in set_sizes (mc_discard sz (sizes_mc sa)) sa
              else s in
    let s2 := if trk_flops s1 then let '(sa, fl) := g_flops s1 nd in set_flops (flops_ sa - fl)%Z sa
              else s1 in
    let s3 := if trk_write s2 then let '(sa, sz) := g_size s2 nd in set_write (write_ sa - sz)%Z sa
              else s2 in
    let s4 := if nmem nd (children s3) then set_children (ndel nd (children s3)) s3 else set_err s3 in
    if Nat.eqb (length nd) N then clear_info nd s4
    else if nmem nd (info s4) then set_info (ndel nd (info s4)) s4 else set_err s4.

Definition update_tracked (nd : node) (s : tstate) : tstate :=
  let s1 := if trk_flops s then let '(sa, fl) := g_flops s nd in set_flops (flops_ sa + fl)%Z sa else s in
  let s2 := if trk_write s1 then let '(sa, sz) := g_size s1 nd in set_write (write_ sa + sz)%Z sa else s1 in
  if trk_size s2 then let '(sa, sz) := g_size s2 nd in set_sizes (mc_add sz (sizes_mc sa)) sa else s2.

Definition order_pair (x y : node) : node * node :=
  let nx := length x in let ny := length y in
  (* sortx > sorty, with sort = -min(.) on ties *)
  let gt := if Nat.eqb nx ny then Nat.ltb (hd 0 x) (hd 0 y) else Nat.ltb ny nx in
  if gt then (x, y) else (y, x).

Definition contract_pair (x y : node) (lg : option legs) (cost size : option Z) (s : tstate) : tstate :=
  let parent := nunion x y in
  let s1 := add_node parent (add_node y (add_node x s)) in
  let s2 := set_children (nset parent (order_pair x y) (children s1)) s1 in
  let s3 := match lg with Some l => upd_info parent (w_legs (Some l)) s2 | None => s2 end in
  let s4 := match cost with Some c => upd_info parent (w_flops (Some c)) s3 | None => s3 end in
  let s5 := match size with Some c => upd_info parent (w_size (Some c)) s4 | None => s4 end in
  update_tracked parent s5.

(* ------------------------------------------------------------------------ *)
(* _reset_contraction_recipes / reset_contraction_indices                    *)
Definition over_children (f : ninfo -> ninfo) (s : tstate) : tstate :=
  fold_left (fun s p => upd_info (fst p) f s) (children s) s.
Definition reset_recipes (s : tstate) : tstate := set_cores [] (over_children drop_recipes s).
Definition reset_inds (s : tstate) : tstate := set_cores [] (over_children drop_inds_recipes s).

(* ------------------------------------------------------------------------ *)
(* remove_ind                                                               *)
Definition sl_inner (x : slinfo) : bool := negb (memb (sl_ix x) (output n)).
(* dataclass(order=True) SliceInfo(inner, ind, size, project): inner, then ind *)
Definition sl_le (a b : slinfo) : bool :=
  let ka := if sl_inner a then 1 else 0 in
  let kb := if sl_inner b then 1 else 0 in
  Nat.ltb ka kb || (Nat.eqb ka kb && Nat.leb (sl_ix a) (sl_ix b)).
Definition sl_size (x : slinfo) : Z :=
  match sl_proj x with None => zget (sl_ix x) (szd n) | Some _ => 1%Z end.

Definition remove_ind_node (ind : ix) (d : Z) (s : tstate) (nd : node) : tstate :=
  if Nat.eqb (length nd) 1 then
    let i := hd 0 nd in
    if memb ind (nth i (inputs n) []) then
      set_sliced_inputs (ins_sorted i (sliced_inputs (remove_node nd s))) (remove_node nd s)
    else s
  else
    let '(s1, inv) := g_involved s nd in
    if negb (lmem ind inv) then s1
    else
      let s2 := upd_info nd (w_involved (Some (ldel ind inv))) s1 in
      let '(s3, old_flops) := g_flops s2 nd in
      let new_flops := (old_flops / d)%Z in
      let s4 := set_flops (flops_ s3 + (new_flops - old_flops))%Z (upd_info nd (w_flops (Some new_flops)) s3) in
      let '(s5, lg) := g_legs s4 nd in
      let s6 :=
        if lmem ind lg then
          let sa := upd_info nd (w_legs (Some (ldel ind lg))) s5 in
          let '(sb, old_size) := g_size sa nd in
          let new_size := (old_size / d)%Z in
          let sc := set_sizes (mc_add new_size (mc_discard old_size (sizes_mc sb))) sb in
          set_write (write_ sc + (new_size - old_size))%Z (upd_info nd (w_size (Some new_size)) sc)
        else s5 in
      upd_info nd drop_inds_recipes s6.

Definition remove_ind (ind : ix) (project : option nat) (s : tstate) : tstate :=
  if memb ind (removed (sliced s)) then set_err s
  else
    let s1 := contract_stats false s in
    let s2 := fold_left (fun s p => fst (g_legs (fst (g_involved s (fst p))) (fst p))) (children s1) s1 in
    let d := zget ind (szd n) in
    let s3 := match project with None => set_mult (mult s2 * d)%Z s2 | Some _ => s2 end in
    let s4 := set_sliced (sort_by sl_le (sliced s3 ++ [mkSl ind project])) s3 in
    let s5 := fold_left (remove_ind_node ind d) (map fst (info s4)) s4 in
    reset_recipes s5.

(* ------------------------------------------------------------------------ *)
(* restore_ind                                                              *)
Definition restore_ind (ind : ix) (s : tstate) : tstate :=
  match find (fun x => Nat.eqb (sl_ix x) ind) (sliced s) with
  | None => set_err s
  | Some si =>
      let s1 := set_sliced (filter (fun x => negb (Nat.eqb (sl_ix x) ind)) (sliced s)) s in
      let s2 := contract_stats false s1 in
      let s3 := set_mult (mult s2 / sl_size si)%Z s2 in
      let s4 := fold_left (fun s i =>
                   let term := nth i (inputs n) [] in
                   if memb ind term then
                     let sa := remove_node [i] s in
                     if forallb (fun j => negb (memb j (removed (sliced sa)))) term
                     then set_sliced_inputs (filter (fun k => negb (Nat.eqb k i)) (sliced_inputs sa)) sa
                     else sa
                   else s) (seq 0 N) s3 in
      match traverse s4 with
      | None => set_err s4
      | Some nodes =>
          let s5 := fold_left (fun s plr =>
                       let '(p, (l, r)) := plr in
                       let '(sa, ll) := g_legs s l in
                       let '(sb, hit) := if lmem ind ll then (sa, true)
                                         else let '(sb, lr) := g_legs sa r in (sb, lmem ind lr) in
                       if hit then contract_pair l r None None None (remove_node p sb) else sb)
                     nodes s4 in
          reset_recipes s5
      end
  end.

(* ------------------------------------------------------------------------ *)
(* sort_contraction_indices                                                 *)
Inductive priority := PrFlops | PrSize | PrRoot | PrLeaves.

Definition sort_step (moc mcc : bool) (s : tstate) (plr : node * (node * node)) : tstate :=
  let '(p, (l, r)) := plr in
  let '(s1, p_inds) := g_inds s p in
  let '(s2, l_inds) := g_inds s1 l in
  let '(s3, r_inds) := g_inds s2 r in
  let '(s4, p_inds) :=
    if moc && negb (Nat.eqb (length p) N) then
      let pi := sort_key2 (fun j => (find_z j r_inds, find_z j l_inds)) p_inds in
      (upd_info p (w_inds (Some pi)) s3, pi)
    else (s3, p_inds) in
  if mcc then
    let '(s5, l_inds) :=
      if negb (Nat.eqb (length l) 1) then
        let '(sa, lg) := g_legs s4 l in
        let li := sort_key2 (fun j => (find_z j r_inds, find_z j p_inds)) (lkeys lg) in
        (upd_info l (w_inds (Some li)) sa, li)
      else (s4, l_inds) in
    if negb (Nat.eqb (length r) 1) then
      let '(sa, lg) := g_legs s5 r in
      let ri := sort_key2 (fun j => (find_z j p_inds, find_z j l_inds)) (lkeys lg) in
      upd_info r (w_inds (Some ri)) sa
    else s5
  else s4.

Definition sort_inds (pr : priority) (moc mcc reset : bool) (s : tstate) : tstate :=
  let s0 := if reset then reset_inds s else s in
  let '(s1, nodes) :=
    match pr with
    | PrFlops =>
        let '(sa, keyed) := fold_left (fun acc c => let '(sa, v) := g_flops (fst acc) (fst c) in
                                                    (sa, snd acc ++ [(v, c)])) (children s0) (s0, []) in
        (sa, Some (map snd (sort_by (fun a b => (fst a <=? fst b)%Z) keyed)))
    | PrSize =>
        let '(sa, keyed) := fold_left (fun acc c => let '(sa, v) := g_size (fst acc) (fst c) in
                                                    (sa, snd acc ++ [(v, c)])) (children s0) (s0, []) in
        (sa, Some (map snd (sort_by (fun a b => (fst a <=? fst b)%Z) keyed)))
    | PrRoot => (s0, traverse s0)
    | PrLeaves => (s0, descend s0)
    end in
  match nodes with
  | None => set_err s1
  | Some nodes => reset_recipes (fold_left (sort_step moc mcc) nodes s1)
  end.

(* ------------------------------------------------------------------------ *)
(* the primitive alphabet, a step and a run                                   *)
Inductive getter := GLegs | GInvolved | GSize | GFlops | GCanDot | GInds | GTdAxes | GTdPerm | GEq.

Inductive prim :=
| PAddNode (nd : node)
| PRemoveNode (nd : node)
| PPair (x y : node) (lg : option legs) (cost size : option Z)
| PGet (g : getter) (nd : node)
| PStats (force : bool)
| PTotalFlops | PTotalWrite | PMaxSize
| PResetInds | PResetRecipes
| PSortInds (pr : priority) (moc mcc reset : bool)
| PRemoveInd (ind : ix) (project : option nat)
| PRestoreInd (ind : ix)
| PCoresClear
| PCoreAdd (k : nat).

Definition do_get (g : getter) (nd : node) (s : tstate) : tstate :=
  match g with
  | GLegs => fst (g_legs s nd)
  | GInvolved => fst (g_involved s nd)
  | GSize => fst (g_size s nd)
  | GFlops => fst (g_flops s nd)
  | GCanDot => fst (g_can_dot s nd)
  | GInds => fst (g_inds s nd)
  | GTdAxes => fst (g_tdaxes s nd)
  | GTdPerm => fst (g_tdperm s nd)
  | GEq => fst (g_eq s nd)
  end.

Definition step (p : prim) (s : tstate) : tstate :=
  match p with
  | PAddNode nd => add_node nd s
  | PRemoveNode nd => remove_node nd s
  | PPair x y lg c z => contract_pair x y lg c z s
  | PGet g nd => do_get g nd s
  | PStats f => contract_stats f s
  | PTotalFlops => total_flops_op s
  | PTotalWrite => total_write_op s
  | PMaxSize => max_size_op s
  | PResetInds => reset_inds s
  | PResetRecipes => reset_recipes s
  | PSortInds pr a b c => sort_inds pr a b c s
  | PRemoveInd i pj => remove_ind i pj s
  | PRestoreInd i => restore_ind i s
  | PCoresClear => set_cores [] s
  | PCoreAdd k => if memb k (cores s) then s else set_cores (cores s ++ [k]) s
  end.

Definition run (tr : list prim) (s : tstate) : tstate := fold_left (fun s p => step p s) tr s.

(* ContractionTree.__init__ : leaves and root present, nothing cached, nothing tracked *)
Definition init_state : tstate :=
  mkState [] (map (fun i => ([i], noinfo)) (seq 0 N) ++ [(root, noinfo)]) [] [] [] 1%Z
          false false false 0%Z 0%Z [] None [] false.

(* several tree objects (copies, forests): events carry the object they act on *)
Inductive mevent := MOn (tid : nat) (p : prim) | MSetFrom (dst src : nat).
Definition mstate := list (nat * tstate).
Definition mstep (ms : mstate) (e : mevent) : mstate :=
  match e with
  | MOn t p => match pget t ms with Some s => pset t (step p s) ms | None => ms end
  | MSetFrom d src => match pget src ms with Some s => pset d s ms | None => ms end
  end.
Definition mrun (tr : list mevent) (ms : mstate) : mstate := fold_left mstep tr ms.

End WithNet.

(* compute_contracted_info (path_simulated_annealing.py) : legs, cost, size of a pair *)
Section Anneal.
Variable n : net.
Definition cci_left (la lb : legs) : legs * (Z * Z) :=
  fold_left (fun acc kv =>
      let '(lab, (cost, size)) := acc in
      let d := zget (fst kv) (szd n) in
      let cost' := (cost * d)%Z in
      let cnt := match lget (fst kv) lb with Some c => snd kv + c | None => snd kv end in
      if Nat.ltb cnt (appear n (fst kv)) then (lab ++ [(fst kv, cnt)], (cost', (size * d)%Z))
      else (lab, (cost', size))) la ([], (1%Z, 1%Z)).
Definition compute_contracted_info (la lb : legs) : legs * (Z * Z) :=
  fold_left (fun acc kv =>
      let '(lab, (cost, size)) := acc in
      if lmem (fst kv) la then acc
      else
        let d := zget (fst kv) (szd n) in
        let cost' := (cost * d)%Z in
        if Nat.ltb (snd kv) (appear n (fst kv)) then (lab ++ [(fst kv, snd kv)], (cost', (size * d)%Z))
        else (lab, (cost', size))) lb (cci_left la lb).
End Anneal.

(* ---- canonical form of a state for comparison with an observation --------- *)
Definition sort_counter (c : counter) : counter := sort_by (fun a b => (fst a <=? fst b)%Z) c.
Definition canon_state (s : tstate) : tstate :=
  mkState (children s) (info s) (preproc s) (sliced s) (nsort (sliced_inputs s)) (mult s)
          (trk_flops s) (trk_write s) (trk_size s)
          (if trk_flops s then flops_ s else 0%Z) (if trk_write s then write_ s else 0%Z)
          (if trk_size s then sort_counter (sizes_ s) else [])
          (if trk_size s then sizes_max s else None) (cores s) (err s).
Definition mobs (ms : mstate) (t : nat) : option tstate :=
  match pget t ms with Some s => Some (canon_state s) | None => None end.

Definition info_tuple (i : ninfo) :=
  (i_legs i, (i_involved i, (i_size i, (i_flops i, (i_inds i, (i_eq i, (i_can_dot i, (i_tdaxes i, i_tdperm i)))))))).
#[export] Instance Eqb_ninfo : Eqb ninfo := fun a b => eqb (info_tuple a) (info_tuple b).
#[export] Instance Eqb_slinfo : Eqb slinfo := fun a b => eqb (sl_ix a, sl_proj a) (sl_ix b, sl_proj b).
Definition state_tuple (s : tstate) :=
  (children s, (info s, (preproc s, (sliced s, (sliced_inputs s, (mult s,
   ((trk_flops s, (trk_write s, trk_size s)), (flops_ s, (write_ s, (sizes_ s, (sizes_max s, (cores s, err s)))))))))))).
#[export] Instance Eqb_tstate : Eqb tstate := fun a b => eqb (state_tuple a) (state_tuple b).

(* ------------------------------------------------------------------------ *)
(* verified checkers (soundness: Proofs/TreeStateFacts.v), run on every observed state      *)
Fixpoint tree_of (f : nat) (ch : list (node * (node * node))) (nd : node) : option tree :=
  match f with
  | O => None
  | S f' =>
      if Nat.eqb (length nd) 1 then Some (Leaf (hd 0 nd))
      else match nget nd ch with
           | None => None
           | Some (l, r) =>
               match tree_of f' ch l, tree_of f' ch r with
               | Some a, Some b => Some (Node a b)
               | _, _ => None
               end
           end
  end.
Definition opt_nat_eqb (a b : option nat) : bool :=
  match a, b with Some x, Some y => Nat.eqb x y | None, None => true | _, _ => false end.
(* same key -> count map *)
Definition legs_equivb (a b : legs) : bool :=
  forallb (fun j => opt_nat_eqb (lget j a) (lget j b)) (lkeys a ++ lkeys b).
Definition optb {A} (o : option A) (f : A -> bool) : bool := match o with Some x => f x | None => true end.

Section Checkers.
Variable n : net.
Definition tfuel (s : tstate) : nat := length (children s) + 2.
Definition node_cost_ok_b (s : tstate) (ni : node * ninfo) : bool :=
  match tree_of (tfuel s) (children s) (fst ni) with
  | None => true
  | Some t =>
      let isroot := Nat.eqb (length (fst ni)) (NN n) in
      optb (i_legs (snd ni)) (fun l => legs_equivb l (node_legs n (sliced s) isroot t))
      && optb (i_involved (snd ni)) (fun l => legs_equivb l (involved n (sliced s) t))
      && optb (i_size (snd ni)) (fun z => Z.eqb z (node_size n (sliced s) isroot t))
      && optb (i_flops (snd ni)) (fun z => Z.eqb z (node_flops n (sliced s) t))
  end.
(* the trees under all internal nodes, when every one is complete *)
Fixpoint all_some {A} (l : list (option A)) : option (list A) :=
  match l with
  | [] => Some []
  | None :: _ => None
  | Some x :: l' => match all_some l' with Some r => Some (x :: r) | None => None end
  end.
Definition child_trees (s : tstate) : option (list (bool * tree)) :=
  all_some (map (fun c => match tree_of (tfuel s) (children s) (fst c) with
                          | Some t => Some (Nat.eqb (length (fst c)) (NN n), t)
                          | None => None end) (children s)).
Definition totals_ok_b (s : tstate) : bool :=
  match child_trees s with
  | None => true
  | Some ts =>
      (if trk_flops s then Z.eqb (flops_ s) (zsum (map (fun bt => node_flops n (sliced s) (snd bt)) ts)) else true)
      && (if trk_write s then Z.eqb (write_ s) (zsum (map (fun bt => node_size n (sliced s) (fst bt) (snd bt)) ts)) else true)
      && Z.eqb (mult s) (multiplicity n (sliced s))
  end.
Definition cost_inv_b (s : tstate) : bool :=
  forallb (node_cost_ok_b s) (info s) && totals_ok_b s.
End Checkers.

(* ------------------------------------------------------------------------ *)
(* C02: the recipe invariant as a decidable predicate on states                             *)
Definition is_none {A} (o : option A) : bool := match o with None => true | Some _ => false end.
Fixpoint remove1 (x : nat) (l : list nat) : option (list nat) :=
  match l with
  | [] => None
  | y :: l' => if Nat.eqb x y then Some l'
               else match remove1 x l' with Some r => Some (y :: r) | None => None end
  end.
Fixpoint permb (a b : list nat) : bool :=
  match a with
  | [] => match b with [] => true | _ => false end
  | x :: a' => match remove1 x b with Some b' => permb a' b' | None => false end
  end.
Section Recipes.
Variable n : net.
Definition node_recipe_ok_b (s : tstate) (ni : node * ninfo) : bool :=
  let nd := fst ni in let i := snd ni in
  (* (iii.a) a present index order is a permutation of the present legs ... *)
  match i_inds i, i_legs i with Some ind, Some lg => permb ind (lkeys lg) | _, _ => true end
  (* ... and at the root it is the declared output order minus the removed indices *)
  && (if Nat.eqb (length nd) (NN n)
      then optb (i_inds i) (fun ind => list_eqb Nat.eqb ind
                  (filter (fun j => negb (memb j (removed (sliced s)))) (output n)))
      else true)
  (* (iii.b) every present derived recipe equals the recipe derived from the index orders
     currently cached on the node and on its two children (and those must then be present) *)
  && match nget nd (children s) with
     | None => is_none (i_eq i) && is_none (i_can_dot i) && is_none (i_tdaxes i) && is_none (i_tdperm i)
     | Some (l, r) =>
         match rd i_inds s l, rd i_inds s r with
         | Some li, Some ri =>
             optb (i_tdaxes i) (fun a => eqb a (td_axes li ri 0))
             && match i_inds i with
                | Some pi => optb (i_eq i) (fun e => eqb e (einsum_eq_of li ri pi))
                             && optb (i_tdperm i) (fun p => eqb p (td_perm li ri pi))
                | None => is_none (i_eq i) && is_none (i_tdperm i)
                end
         | _, _ => is_none (i_eq i) && is_none (i_tdaxes i) && is_none (i_tdperm i)
         end
         && match i_can_dot i with
            | None => true
            | Some b =>
                match i_legs i, rd i_legs s l, rd i_legs s r with
                | Some sp, Some sl, Some sr => Bool.eqb b (set_eqb (lkeys sp) (symdiff (lkeys sl) (lkeys sr)))
                | _, _, _ => false
                end
            end
     end.
(* (iv) every recorded preprocessing step is the from-scratch simplification of its leaf, and a
   leaf whose legs are cached and which is simplifiable has its step recorded *)
Definition preproc_ok_b (s : tstate) : bool :=
  forallb (fun e => match leaf_preproc n (sliced s) (fst e) with
                    | Some tk => eqb (canon_eq1 tk) (snd e)
                    | None => false end) (preproc s)
  && forallb (fun i => match rd i_legs s [i], leaf_preproc n (sliced s) i with
                       | Some _, Some _ => match pget i (preproc s) with Some _ => true | None => false end
                       | _, _ => true end) (seq 0 (NN n)).
Definition recipe_inv_b (s : tstate) : bool :=
  forallb (node_recipe_ok_b s) (info s) && preproc_ok_b s.
End Recipes.

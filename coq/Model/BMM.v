(* BMM.v -- the plan parsers of cotengra/contract.py (as of /repo 23dce6e) as executable functions that
   return the same plan tuples as the Python:
     _sanitize_equation, _parse_einsum_single, _parse_eq_to_pure_multiplication,
     _parse_eq_to_batch_matmul, _parse_tensordot_axes_to_matmul.
   MODEL FILE: definitions only, no proofs (lemmas live in Proofs/BMMFacts.v).

   Strings are lists of character codes:  ','=0  '->'=1 (one token)  ' '=2  '.'=3,
   index symbols are codes >= 4 ('a'=4, 'b'=5, ...; for the symbols made by
   gen_nice_inds the k-th generated symbol is 4+k).  Dimensions are nat.
   A Python exception is `None` at the outermost option ("raises").            *)
From Ctg Require Import Base.

Definition str := list nat.
Definition COMMA : nat := 0.
Definition ARROW : nat := 1.
Definition SPACE : nat := 2.
Definition DOT : nat := 3.
Definition SYM0 : nat := 4.

(* ------------------------------------------------------------------ *)
(* small string functions                                              *)
Definition remove_all (c : nat) (s : str) : str := filter (fun x => negb (Nat.eqb x c)) s.
Definition count (c : nat) (s : str) : nat := length (filter (Nat.eqb c) s).

Fixpoint prefixb (p s : str) : bool :=
  match p, s with
  | [], _ => true
  | x :: p', y :: s' => Nat.eqb x y && prefixb p' s'
  | _ :: _, [] => false
  end.
(* `pat in s` for strings *)
Fixpoint infixb (pat s : str) : bool :=
  prefixb pat s || match s with [] => false | _ :: s' => infixb pat s' end.

(* s.replace(pat, rep), pat non-empty: all non-overlapping occurrences, left to right *)
Fixpoint str_replace_f (fuel : nat) (pat rep s : str) : str :=
  match fuel with
  | 0 => s
  | S f =>
    match s with
    | [] => []
    | x :: s' => if prefixb pat s then rep ++ str_replace_f f pat rep (skipn (length pat) s)
                 else x :: str_replace_f f pat rep s'
    end
  end.
Definition str_replace (pat rep s : str) : str := str_replace_f (S (length s)) pat rep s.

(* s.split(c): k separators give k+1 parts *)
Fixpoint split_on (c : nat) (s : str) : list str :=
  match s with
  | [] => [[]]
  | x :: s' => if Nat.eqb x c then [] :: split_on c s'
               else match split_on c s' with
                    | p :: ps => (x :: p) :: ps
                    | [] => [[x]]
                    end
  end.

Fixpoint has_ellipsis (s : str) : bool :=
  match s with
  | a :: ((b :: c :: _) as r) => (Nat.eqb a DOT && Nat.eqb b DOT && Nat.eqb c DOT) || has_ellipsis r
  | _ => false
  end.

(* sorted(set(s)) for character codes *)
Definition sorted_set (s : str) : str := filter (fun c => memb c s) (seq 0 (S (list_max s))).

(* all(find_pos ...) : None as soon as one is missing  (str.index raising ValueError) *)
Fixpoint index_all (s : str) (l : list nat) : option (list nat) :=
  match l with
  | [] => Some []
  | x :: l' => match find_pos x s, index_all s l' with
               | Some p, Some ps => Some (p :: ps)
               | _, _ => None
               end
  end.

(* ------------------------------------------------------------------ *)
(* _sanitize_equation(eq) -> (lhs, out)                                 *)
Definition sanitize (eq0 : str) : option (str * str) :=
  let eq := remove_all SPACE eq0 in
  if has_ellipsis eq then None                      (* NotImplementedError *)
  else if negb (memb ARROW eq) then
    let tmp := remove_all COMMA eq in
    Some (eq, filter (fun s => Nat.eqb (count s tmp) 1) (sorted_set tmp))
  else match split_on ARROW eq with
       | [l; o] => Some (l, o)
       | _ => None                                  (* ValueError: too many values to unpack *)
       end.

(* ------------------------------------------------------------------ *)
(* _parse_einsum_single(eq, shape) -> (diag_sels, sum_axes, perm)        *)
(* a selector: per axis  Some n = tuple(range(n)),  None = slice(None)   *)
Definition selector := list (option nat).
Definition single_plan : Type :=
  (option (list selector) * (option (list nat) * option (list nat)))%type.

(* the first loop: returns (need_to_diag, need_to_sum) *)
Fixpoint scan_single (lhs out : str) (dg sm seen : list nat) : list nat * list nat :=
  match lhs with
  | [] => (dg, sm)
  | ix :: r =>
    if memb ix dg then scan_single r out dg sm seen
    else if memb ix seen then scan_single r out (dg ++ [ix]) sm seen
    else scan_single r out dg (if memb ix out then sm else sm ++ [ix]) (ix :: seen)
  end.

(* dict(zip(lhs, shape)) : a later occurrence overwrites *)
Definition dict_zip (lhs : str) (shape : list nat) : legs :=
  fold_left (fun d kv => lset (fst kv) (snd kv) d) (combine lhs shape) [].

(* one round of the `while need_to_diag` loop on (diag_sels, lhs) *)
Definition diag_lhs (ixd : nat) (lhs : str) : str :=
  let contig := repeat ixd (count ixd lhs) in
  if infixb contig lhs then str_replace contig [ixd] lhs
  else ixd :: remove_all ixd lhs.
Definition diag_step (sizes : legs) (st : option (list selector * str)) (ixd : nat)
  : option (list selector * str) :=
  match st with
  | None => None
  | Some (sels, lhs) =>
    match lget ixd sizes with
    | None => None                                    (* KeyError *)
    | Some n =>
      let sel := map (fun ix => if Nat.eqb ix ixd then Some n else None) lhs in
      Some (sels ++ [sel], diag_lhs ixd lhs)
    end
  end.

Definition parse_single_core (lhs out : str) (shape : list nat) : option single_plan :=
  let '(dg, sm) := scan_single lhs out [] [] [] in
  (* need_to_diag.pop() takes from the end *)
  match (match dg with
         | [] => Some (None, lhs)
         | _ => match fold_left (diag_step (dict_zip lhs shape)) (rev dg) (Some ([], lhs)) with
                | Some (sels, lhs') => Some (Some sels, lhs')
                | None => None
                end
         end) with
  | None => None
  | Some (diag_sels, lhs1) =>
    match (match sm with
           | [] => Some (None, lhs1)
           | _ => match index_all lhs1 sm with
                  | Some ax => Some (Some ax, fold_left (fun l ix => remove_all ix l) sm lhs1)
                  | None => None
                  end
           end) with
    | None => None
    | Some (sum_axes, lhs2) =>
      if eqb lhs2 out then Some (diag_sels, (sum_axes, None))
      else match index_all lhs2 out with
           | Some p => Some (diag_sels, (sum_axes, Some p))
           | None => None                              (* ValueError: substring not found *)
           end
    end
  end.

Definition parse_single (eq : str) (shape : list nat) : option single_plan :=
  match sanitize eq with
  | Some (lhs, out) => parse_single_core lhs out shape
  | None => None
  end.

(* the labels of the array after the diag and the sum steps (not returned by the
   Python, used by the theorems) *)
Definition labels_after_diag (lhs out : str) : str :=
  fold_left (fun l ixd => diag_lhs ixd l) (rev (fst (scan_single lhs out [] [] []))) lhs.
Definition labels_after_sum (lhs out : str) : str :=
  fold_left (fun l ix => remove_all ix l) (snd (scan_single lhs out [] [] [])) (labels_after_diag lhs out).

(* ------------------------------------------------------------------ *)
(* two-operand plans                                                    *)
(* eq_a / eq_b :  None | Some (true, perm)  (a tuple: transpose only)
                        | Some (false, eq)  (an equation string)         *)
Definition pre := option (bool * list nat).
Definition bmm_plan : Type :=
  (pre * (pre * (option (list nat) * (option (list nat) * (option (list nat) * (option (list nat) * bool))))))%type.

(* _parse_eq_to_pure_multiplication *)
Fixpoint pure_scan (a_term : str) (shape_a : list nat) (b_term : str) (shape_b : list nat) (out : str)
  : (str * list nat) * (str * list nat) :=
  match out with
  | [] => (([], []), ([], []))
  | ix :: r =>
    let '((da, na), (db, nb)) := pure_scan a_term shape_a b_term shape_b r in
    let '(da', na') := match find_pos ix a_term with
                       | Some p => (ix :: da, nth p shape_a 0 :: na)
                       | None => (da, 1 :: na)
                       end in
    let '(db', nb') := match find_pos ix b_term with
                       | Some p => (ix :: db, nth p shape_b 0 :: nb)
                       | None => (db, 1 :: nb)
                       end in
    ((da', na'), (db', nb'))
  end.

Definition parse_pure (a_term : str) (shape_a : list nat) (b_term : str) (shape_b : list nat) (out : str)
  : bmm_plan :=
  let '((da, na), (db, nb)) := pure_scan a_term shape_a b_term shape_b out in
  let eq_a : pre := if eqb da a_term then None else Some (false, a_term ++ [ARROW] ++ da) in
  let eq_b : pre := if eqb db b_term then None else Some (false, b_term ++ [ARROW] ++ db) in
  (eq_a, (eq_b, (Some na, (Some nb, (None, (None, true)))))).

(* the loop over zip(a_term, shape_a) *)
Record cls := mkCls {
  c_bat : list nat; c_con : list nat; c_akeep : list nat; c_bkeep : list nat;
  c_sizes : legs; c_sing : list nat }.

Fixpoint scan_a (b_term out : str) (l : list (nat * nat))
         (bat con keep : list nat) (sizes : legs) (sing seen : list nat)
  : option (list nat * list nat * list nat * legs * list nat) :=
  match l with
  | [] => Some (bat, con, keep, sizes, sing)
  | (ix, d) :: r =>
    if Nat.eqb d 1 then scan_a b_term out r bat con keep sizes (ix :: sing) seen
    else
      let sizes' := match lget ix sizes with Some _ => sizes | None => lset ix d sizes end in
      if negb (Nat.eqb (lget0 ix sizes') d) then None               (* ValueError: mismatched sizes *)
      else if memb ix seen then scan_a b_term out r bat con keep sizes' sing seen
      else if memb ix b_term then
             if memb ix out then scan_a b_term out r (bat ++ [ix]) con keep sizes' sing (ix :: seen)
             else scan_a b_term out r bat (con ++ [ix]) keep sizes' sing (ix :: seen)
      else if memb ix out then scan_a b_term out r bat con (keep ++ [ix]) sizes' sing (ix :: seen)
      else scan_a b_term out r bat con keep sizes' sing (ix :: seen)
  end.

Fixpoint scan_b (a_term out : str) (l : list (nat * nat))
         (keep : list nat) (sizes : legs) (sing seen : list nat)
  : option (list nat * legs * list nat) :=
  match l with
  | [] => Some (keep, sizes, sing)
  | (ix, d) :: r =>
    if Nat.eqb d 1 then scan_b a_term out r keep sizes (ix :: sing) seen
    else
      let sing' := remove_all ix sing in
      let sizes' := match lget ix sizes with Some _ => sizes | None => lset ix d sizes end in
      if negb (Nat.eqb (lget0 ix sizes') d) then None
      else if memb ix seen then scan_b a_term out r keep sizes' sing' seen
      else if negb (memb ix a_term) && memb ix out
           then scan_b a_term out r (keep ++ [ix]) sizes' sing' (ix :: seen)
           else scan_b a_term out r keep sizes' sing' (ix :: seen)
  end.

Definition classify (a_term : str) (shape_a : list nat) (b_term : str) (shape_b : list nat) (out : str)
  : option cls :=
  match scan_a b_term out (combine a_term shape_a) [] [] [] [] [] [] with
  | None => None
  | Some (bat, con, akeep, sizes, sing) =>
    match scan_b a_term out (combine b_term shape_b) [] sizes sing [] with
    | None => None
    | Some (bkeep, sizes', sing') => Some (mkCls bat con akeep bkeep sizes' sing')
    end
  end.

Definition set_eqb (s t : str) : bool :=
  forallb (fun x => memb x t) s && forallb (fun x => memb x s) t.

(* eq_a / eq_b from the term and the desired order *)
Definition mk_pre (term desired : str) : pre :=
  if eqb term desired then None
  else if Nat.eqb (length term) (length desired) && set_eqb term desired
       then Some (true, map (fun ix => match find_pos ix term with Some p => p | None => 0 end) desired)
       else Some (false, term ++ [ARROW] ++ desired).

Definition nprod (l : list nat) : nat := fold_right Nat.mul 1 l.
Definition group_shape (sizes : legs) (groups : list (list nat)) : option (list nat) :=
  if existsb (fun g => negb (Nat.eqb (length g) 1)) groups
  then Some (map (fun g => nprod (map (fun ix => lget0 ix sizes) g)) groups)
  else None.

Definition parse_bmm_terms (a_term : str) (shape_a : list nat) (b_term : str) (shape_b : list nat) (out : str)
  : option bmm_plan :=
  if negb (Nat.eqb (length a_term) (length shape_a)) then None
  else if negb (Nat.eqb (length b_term) (length shape_b)) then None
  else match classify a_term shape_a b_term shape_b out with
  | None => None
  | Some c =>
    match c_con c with
    | [] => Some (parse_pure a_term shape_a b_term shape_b out)
    | _ =>
      let bat := c_bat c in let con := c_con c in
      let akeep := c_akeep c in let bkeep := c_bkeep c in let sizes := c_sizes c in
      let sing := filter (fun ix => memb ix (c_sing c)) out in
      let eq_a := mk_pre a_term (bat ++ akeep ++ con) in
      let eq_b := mk_pre b_term (bat ++ con ++ bkeep) in
      let '(lg, rg, og) := match bat with
                           | [] => ([akeep; con], [con; bkeep], [akeep; bkeep])
                           | _ => ([bat; akeep; con], [bat; con; bkeep], [bat; akeep; bkeep])
                           end in
      let nsa := group_shape sizes lg in
      let nsb := group_shape sizes rg in
      let nsab := if existsb (fun g => negb (Nat.eqb (length g) 1)) og || negb (Nat.eqb (length sing) 0)
                  then Some (repeat 1 (length sing) ++ map (fun ix => lget0 ix sizes) (concat og))
                  else None in
      let produced := sing ++ bat ++ akeep ++ bkeep in
      match index_all produced out with
      | None => None                                   (* ValueError: substring not found *)
      | Some p =>
        let perm_ab := if eqb p (seq 0 (length p)) then None else Some p in
        Some (eq_a, (eq_b, (nsa, (nsb, (nsab, (perm_ab, false))))))
      end
    end
  end.

(* _parse_eq_to_batch_matmul(eq, shape_a, shape_b):
     lhs, out = _sanitize_equation(eq)        (blanks removed, implicit output computed)
     a_term, b_term = lhs.split(",")           (exactly one comma, else ValueError) *)
Definition parse_bmm_split (lhs out : str) (shape_a shape_b : list nat) : option bmm_plan :=
  match split_on COMMA lhs with
  | [a_term; b_term] => parse_bmm_terms a_term shape_a b_term shape_b out
  | _ => None
  end.
Definition parse_bmm (eq : str) (shape_a shape_b : list nat) : option bmm_plan :=
  match sanitize eq with
  | Some (lhs, out) => parse_bmm_split lhs out shape_a shape_b
  | None => None
  end.

(* ------------------------------------------------------------------ *)
(* _parse_tensordot_axes_to_matmul(axes, shape_a, shape_b)              *)
Inductive axes_spec :=
| AxInt (n : nat)
| AxPair (axes_a axes_b : list Z).

(* Python list indexing with negative wrap-around; None = IndexError *)
Definition py_nth {A} (l : list A) (z : Z) : option A :=
  if (0 <=? z)%Z then nth_error l (Z.to_nat z)
  else if (- Z.of_nat (length l) <=? z)%Z then nth_error l (Z.to_nat (Z.of_nat (length l) + z))
  else None.

Fixpoint zfind (z : Z) (l : list Z) : option nat :=
  match l with
  | [] => None
  | x :: l' => if Z.eqb x z then Some 0 else match zfind z l' with Some p => Some (S p) | None => None end
  end.

(* list.remove(x): first occurrence; None = ValueError *)
Fixpoint remove_first (x : nat) (l : list nat) : option (list nat) :=
  match l with
  | [] => None
  | y :: l' => if Nat.eqb y x then Some l'
               else match remove_first x l' with Some r => Some (y :: r) | None => None end
  end.

(* the loop `for axb in range(ndim_b)`; state (inds_b, inds_out, next fresh symbol) *)
Fixpoint tdot_loop (axes_a axes_b : list Z) (shape_a shape_b : list nat) (inds_a : str)
         (axbs : list nat) (inds_b inds_out : str) (fresh : nat) : option (str * str) :=
  match axbs with
  | [] => Some (inds_b, inds_out)
  | axb :: r =>
    match zfind (Z.of_nat axb) axes_b with
    | None => tdot_loop axes_a axes_b shape_a shape_b inds_a r (inds_b ++ [fresh]) (inds_out ++ [fresh]) (S fresh)
    | Some k =>
      match nth_error axes_a k with
      | None => None
      | Some axa =>
        match py_nth shape_a axa, nth_error shape_b axb, py_nth inds_a axa with
        | Some da, Some db, Some ind =>
          if negb (Nat.eqb da db) then None                      (* ValueError: dimension mismatch *)
          else match remove_first ind inds_out with
               | None => None                                     (* ValueError: list.remove(x) *)
               | Some io => tdot_loop axes_a axes_b shape_a shape_b inds_a r (inds_b ++ [ind]) io fresh
               end
        | _, _, _ => None                                         (* IndexError *)
        end
      end
    end
  end.

Definition zrange (lo hi : Z) : list Z :=
  map (fun k => (lo + Z.of_nat k)%Z) (seq 0 (Z.to_nat (hi - lo))).

(* the part of the function after `axes_a, axes_b` have been fixed *)
Definition tdot_equation_axes (axes_a axes_b : list Z) (shape_a shape_b : list nat) : option str :=
  let ndim_a := length shape_a in
  let ndim_b := length shape_b in
  if negb (Nat.eqb (length axes_a) (length axes_b)) then None
  else
    let inds_a := seq SYM0 ndim_a in
    match tdot_loop axes_a axes_b shape_a shape_b inds_a (seq 0 ndim_b) [] inds_a (SYM0 + ndim_a) with
    | None => None
    | Some (inds_b, inds_out) => Some (inds_a ++ [COMMA] ++ inds_b ++ [ARROW] ++ inds_out)
    end.

(* `ax + ndim if ax < 0 else ax` : negative axes count from the end (pair form only) *)
Definition norm_axis (ndim : nat) (ax : Z) : Z :=
  if (ax <? 0)%Z then (ax + Z.of_nat ndim)%Z else ax.

Definition tdot_equation (axes : axes_spec) (shape_a shape_b : list nat) : option str :=
  let ndim_a := length shape_a in
  let ndim_b := length shape_b in
  match axes with
  | AxInt n => tdot_equation_axes (zrange (Z.of_nat ndim_a - Z.of_nat n) (Z.of_nat ndim_a))
                                  (zrange 0 (Z.of_nat n)) shape_a shape_b
  | AxPair xa xb => tdot_equation_axes (map (norm_axis ndim_a) xa) (map (norm_axis ndim_b) xb) shape_a shape_b
  end.

Definition parse_tdot (axes : axes_spec) (shape_a shape_b : list nat) : option bmm_plan :=
  match tdot_equation axes shape_a shape_b with
  | None => None
  | Some eq => parse_bmm eq shape_a shape_b
  end.

(* TreeStateRec.v -- C02 step 3, executable part: the getter calls extract_contractions makes
   (contract.py:583), the boolean preconditions under which every primitive preserves the index-order
   invariant (A) (Proofs/TreeStateRecipes.v), the monitor that evaluates them on a recorded trace,
   and the boolean side conditions of the end-to-end corollary.
   MODEL FILE: executable definitions only. *)
From Ctg Require Import Base Net NetFacts TreeState TreeStatePre.

Section Rec.
Variable n : net.
Notation N := (NN n).

(* extract_contractions, one (p, l, r) of tree.traverse(order):
     (p,l,r,False,get_einsum_eq(p),None) if (prefer_einsum or not get_can_dot(p))
     else (p,l,r,True,get_tensordot_axes(p),get_tensordot_perm(p)) *)
Definition extract_step (prefer_einsum : bool) (s : tstate) (plr : node * (node * node)) : tstate :=
  let p := fst plr in
  if prefer_einsum then fst (g_eq n s p)
  else let '(s1, cd) := g_can_dot n s p in
       if negb cd then fst (g_eq n s1 p)
       else fst (g_tdperm n (fst (g_tdaxes n s1 p)) p).
Definition extract (prefer_einsum : bool) (nodes : list (node * (node * node))) (s : tstate) : tstate :=
  fold_left (extract_step prefer_einsum) nodes s.

(* the one precondition (A) adds to prim_pre_b: legs supplied for the ROOT carry the declared
   output order (simulated annealing passes legs=None for the root since fix 88a452f) *)
Definition pairA_pre_b (s : tstate) (x y : node) (lg : option legs) : bool :=
  match lg with
  | Some l => if Nat.eqb (length (nunion x y)) N
              then list_eqb Nat.eqb (lkeys l) (lkeys (root_legs n (sliced s))) else true
  | None => true
  end.
Definition primA_pre_b (p : prim) (s : tstate) : bool :=
  prim_pre_b n p s && match p with PPair x y lg _ _ => pairA_pre_b s x y lg | _ => true end.
Fixpoint preA_trace_b (tr : list prim) (s : tstate) : bool :=
  match tr with
  | [] => true
  | p :: tr' => primA_pre_b p s && preA_trace_b tr' (step n p s)
  end.

(* monitor over a multi-tree trace (same codes as TreeStatePre.mon_code) *)
Definition monA_code (p : prim) (s : tstate) : nat :=
  if covered p s then (if primA_pre_b p s then 1 else 2) else 0.
Fixpoint monA_trace (tr : list mevent) (ms : mstate) : list nat :=
  match tr with
  | [] => []
  | e :: tr' =>
      (match e with
       | MOn t p => match pget t ms with Some s => monA_code p s | None => 0 end
       | MSetFrom _ _ => 0
       end) :: monA_trace tr' (mstep n ms e)
  end.
Definition monA_ok (tr : list mevent) (ms : mstate) : bool := negb (existsb (Nat.eqb 2) (monA_trace tr ms)).

(* a trace after which every cached recipe is consistent: it ends with an operation that finishes
   with _reset_contraction_recipes / reset_contraction_indices (or is a fresh tree), followed only by
   getter calls, cost queries and contractor-cache events *)
Definition is_reset_b (p : prim) : bool :=
  match p with
  | PResetRecipes | PResetInds | PSortInds _ _ _ _ | PRemoveInd _ _ | PRestoreInd _ => true
  | _ => false
  end.
Definition is_query_b (p : prim) : bool :=
  match p with
  | PGet _ _ | PStats _ | PTotalFlops | PTotalWrite | PMaxSize | PCoresClear | PCoreAdd _ => true
  | _ => false
  end.
Fixpoint tail_ok_rev (rtr : list prim) : bool :=
  match rtr with
  | [] => true
  | p :: r => if is_query_b p then tail_ok_rev r else is_reset_b p
  end.
Definition tail_ok_b (tr : list prim) : bool := tail_ok_rev (rev tr).

(* the traversal handed to extract_contractions visits keys of children, and all of them *)
Definition nodes_ok_b (s : tstate) (nodes : list (node * (node * node))) : bool :=
  forallb (fun e => nmem (fst e) (children s)) nodes
  && forallb (fun c => existsb (fun e => node_eqb (fst e) (fst c)) nodes) (children s).
(* nodes are SORTED leaf lists (frozensets are numbered that way by the harness) *)
Fixpoint ssorted_b (l : list nat) : bool :=
  match l with
  | x :: ((y :: _) as l') => Nat.ltb x y && ssorted_b l'
  | _ => true
  end.
Definition sorted_keys_b (s : tstate) : bool :=
  forallb (fun c => ssorted_b (fst c) && ssorted_b (fst (snd c)) && ssorted_b (snd (snd c))) (children s).

(* extract_contractions ends with tree.has_preprocessing(): `for node in gen_leaves(): get_legs(node)`
   (core.py:791, since fix 3484e0c) *)
Definition touch_leaves (s : tstate) : tstate := fold_left (fun s i => fst (g_legs n s [i])) (seq 0 N) s.
Definition extract_all (prefer_einsum : bool) (nodes : list (node * (node * node))) (s : tstate) : tstate :=
  touch_leaves (extract prefer_einsum nodes s).

(* the children dict describes a COMPLETE binary tree over all N leaves, with no entry besides the
   N-1 internal nodes of that tree *)
Definition complete_b (s : tstate) : bool :=
  match tree_of (tfuel s) (children s) (seq 0 N) with
  | Some _ => Nat.eqb (length (children s)) (N - 1)
  | None => false
  end.
End Rec.

(* Einsum.v -- the mathematical einsum as an iterated finite sum over index
   assignments, and the denotational value of a contraction tree.
   Executable (over Z) so that it can also be evaluated on concrete arrays. *)
From Ctg Require Import Base Net.
Open Scope Z_scope.

Definition env := ix -> nat.
Definition upd (e : env) (j : ix) (v : nat) : env := fun k => if Nat.eqb k j then v else e k.

Fixpoint sumn (m : nat) (f : nat -> Z) : Z :=
  match m with O => 0 | S m' => sumn m' f + f m' end.

(* sum over all assignments of the indices js (each ranging over 0..size-1),
   the other indices keeping their value in e *)
Fixpoint sum_over (size : ix -> nat) (js : list ix) (e : env) (F : env -> Z) : Z :=
  match js with
  | [] => F e
  | j :: js' => sumn (size j) (fun v => sum_over size js' (upd e j v) F)
  end.

(* a positional array: maps the list of axis positions to the entry *)
Definition ptensor := list nat -> Z.

Section Spec.
Variable n : net.
Variable sl : list slinfo.
Variable arr : nat -> ptensor.        (* the input arrays, unsliced *)

Definition dim (j : ix) : nat := Z.to_nat (zget j (szd n)).

(* entry of input k under assignment e; removed (sliced/projected) indices take
   their value from e too: this is exactly what slice_arrays selects *)
Definition F (k : nat) (e : env) : Z := arr k (map e (nth k (inputs n) [])).
Fixpoint prodF (S : list nat) (e : env) : Z :=
  match S with [] => 1 | k :: S' => F k e * prodF S' e end.

(* all indices of the network, once each *)
Definition all_ix : list ix := nodup Nat.eq_dec (concat (inputs n)).
(* the indices summed by the (sliced) contraction: not removed, not in the output *)
Definition inner : list ix :=
  filter (fun j => negb (memb j (removed sl)) && negb (memb j (output n))) all_ix.

(* THE specification: value of the contraction at output assignment e (removed
   indices fixed to their value in e: a slice / a projection) *)
Definition einsum_spec (e : env) : Z := sum_over dim inner e (prodF (seq 0 (NN n))).

(* indices summed when leaf k is pre-processed, and when node t is formed *)
Definition leaf_summed (k : nat) : list ix :=
  filter (fun j => negb (lmem j (leaf_legs n sl k))) (lkeys (legs_of_term (term_sl n sl k))).
Definition summed (isroot : bool) (t : tree) : list ix :=
  filter (fun j => negb (lmem j (node_legs n sl isroot t))) (lkeys (involved n sl t)).

(* denotational value of a proper subtree, and of the whole tree *)
Fixpoint evalS (t : tree) (e : env) : Z :=
  match t with
  | Leaf k => sum_over dim (leaf_summed k) e (F k)
  | Node l r => sum_over dim (summed false t) e (fun e' => evalS l e' * evalS r e')
  end.
Definition eval_root (t : tree) (e : env) : Z :=
  match t with
  | Leaf k => evalS t e
  | Node l r => sum_over dim (summed true t) e (fun e' => evalS l e' * evalS r e')
  end.
End Spec.

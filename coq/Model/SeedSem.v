(* SeedSem.v -- abstract executable semantics of "where does the randomness of a seeded
   operation come from" (property C17).  MODEL FILE: definitions only, no proofs.

   A program is a call graph (generated from the cotengra source by
   harness/translators/seedflow.py into Gen/SeedFlow.v).  Node k is a function; its body
   is the list of its randomness-relevant events, in source order:

     EDrawOwn       a draw from the rng the function derived from its seed / rng argument
                    (rng = get_rng(seed); rng.random()), or from the rng its object stored
     EDrawGlobal    a draw from the module-level generator (random.random(), np.random.x)
     EHashIter      an iteration whose order is decided by string hashing (set of str)
     ECall c p      a call of node c; p says what c receives in its seed position

   A run has two hidden inputs (record `hidden`): the state of the global generator and a
   permutation oracle for hash-ordered iteration (the k-th such iteration of the run
   observes `h_perm k`).  get_rng(None) returns the global generator: a function whose rng
   is `None` draws from the hidden state.  The generator itself (`gen`) is arbitrary. *)
From Coq Require Import List Arith Bool String.
Import ListNotations.

Inductive pass : Type :=
| PSeed      (* the caller's own seed / the rng derived from it / the object's own rng *)
| PDerived   (* an integer drawn from the caller's rng, e.g. seed=rng.randint(0, 2**32-1) *)
| PConst     (* an integer literal *)
| PNone      (* an explicit None, or the global generator *)
| PNothing.  (* nothing: the callee's default (None) applies *)

Inductive event : Type :=
| EDrawOwn
| EDrawGlobal
| EHashIter
| ECall (callee : nat) (p : pass).

Definition body := list event.
Definition sgraph := list body.
Definition body_of (gr : sgraph) (n : nat) : body := nth n gr [].

(* a pseudo-random generator: state transition and output function, both arbitrary *)
Record gen : Type := { g_step : nat -> nat; g_out : nat -> nat }.

(* the hidden inputs of a run *)
Record hidden : Type := { h_g : nat; h_perm : nat -> nat; h_cnt : nat }.

Inductive obs : Type :=
| ODraw (v : nat)       (* a random number that was used *)
| OIter (order : nat)   (* the order in which a hash-ordered container was traversed *)
| OEnter (n : nat)      (* control entered function n *)
| OFuel.                (* the bound on the call depth was reached *)

(* rng of a function: Some r = a private generator in state r; None = the global one *)
Definition rngst := option nat.
Definition result : Type := (list obs * rngst * hidden)%type.

Definition draw_global (G : gen) (st : hidden) : nat * hidden :=
  (g_out G (h_g st), {| h_g := g_step G (h_g st); h_perm := h_perm st; h_cnt := h_cnt st |}).

Definition draw (G : gen) (own : rngst) (st : hidden) : nat * rngst * hidden :=
  match own with
  | Some r => (g_out G r, Some (g_step G r), st)
  | None => let '(v, st') := draw_global G st in (v, None, st')
  end.

Definition hash_iter (st : hidden) : nat * hidden :=
  (h_perm st (h_cnt st), {| h_g := h_g st; h_perm := h_perm st; h_cnt := S (h_cnt st) |}).

(* the body of a function, given the meaning `rec` of calls *)
Fixpoint run_body (G : gen) (rec : nat -> rngst -> hidden -> result)
         (evs : body) (own : rngst) (st : hidden) : result :=
  match evs with
  | [] => ([], own, st)
  | e :: evs' =>
    let '(o1, own1, st1) :=
      match e with
      | EDrawOwn => let '(v, own', st') := draw G own st in ([ODraw v], own', st')
      | EDrawGlobal => let '(v, st') := draw_global G st in ([ODraw v], own, st')
      | EHashIter => let '(v, st') := hash_iter st in ([OIter v], own, st')
      | ECall c PSeed =>
        let '(o, own', st') := rec c own st in (OEnter c :: o, own', st')
      | ECall c PDerived =>
        let '(v, own', st') := draw G own st in
        let '(o, _, st'') := rec c (Some v) st' in (OEnter c :: o, own', st'')
      | ECall c PConst =>
        let '(o, _, st') := rec c (Some 0) st in (OEnter c :: o, own, st')
      | ECall c PNone =>
        let '(o, _, st') := rec c None st in (OEnter c :: o, own, st')
      | ECall c PNothing =>
        let '(o, _, st') := rec c None st in (OEnter c :: o, own, st')
      end in
    let '(o2, own2, st2) := run_body G rec evs' own1 st1 in
    (o1 ++ o2, own2, st2)
  end.

(* running function n with rng `own`; fuel bounds the call depth *)
Fixpoint run (G : gen) (gr : sgraph) (fuel : nat) (n : nat) (own : rngst) (st : hidden) : result :=
  match fuel with
  | 0 => ([OFuel], own, st)
  | S f => run_body G (run G gr f) (body_of gr n) own st
  end.

(* what an entry point returns to its caller *)
Definition trace_of (r : result) : list obs := fst (fst r).
Definition hidden_of (r : result) : hidden := snd r.

(* ------------------------------------------------------------------ *)
(* the static check: abstract state of a function = "is its rng seeded" *)
Definition is_some {A} (o : option A) : bool := match o with Some _ => true | None => false end.

Definition succ_state (p : pass) (s : bool) : bool :=
  match p with
  | PSeed => s
  | PDerived => s
  | PConst => true
  | PNone => false
  | PNothing => false
  end.

Definition event_ok (s : bool) (e : event) : bool :=
  match e with
  | EDrawOwn => s
  | EDrawGlobal => false
  | EHashIter => false
  | ECall _ PDerived => s
  | ECall _ _ => true
  end.

Definition apair : Type := (nat * bool)%type.
Definition apair_eqb (x y : apair) : bool := Nat.eqb (fst x) (fst y) && Bool.eqb (snd x) (snd y).
Definition inb (x : apair) (l : list apair) : bool := existsb (apair_eqb x) l.

Definition succs (gr : sgraph) (x : apair) : list apair :=
  flat_map (fun e => match e with ECall c p => [(c, succ_state p (snd x))] | _ => [] end)
           (body_of gr (fst x)).

(* depth-first collection of the abstract states reachable from the stack *)
Fixpoint reach (gr : sgraph) (fuel : nat) (seen stack : list apair) : list apair :=
  match fuel with
  | 0 => seen
  | S f =>
    match stack with
    | [] => seen
    | x :: stack' =>
      if inb x seen then reach gr f seen stack'
      else reach gr f (x :: seen) (succs gr x ++ stack')
    end
  end.

Definition local_ok (gr : sgraph) (x : apair) : bool := forallb (event_ok (snd x)) (body_of gr (fst x)).

(* R is closed under calls and every state in it is locally fine *)
Definition closed_ok (gr : sgraph) (R : list apair) : bool :=
  forallb (fun x => local_ok gr x && forallb (fun y => inb y R) (succs gr x)) R.

Definition reach_fuel (gr : sgraph) : nat := 2 * List.length (List.concat gr) + 2.
Definition reach_from (gr : sgraph) (api : nat) : list apair := reach gr (reach_fuel gr) [] [(api, true)].

(* the judgement the theorems are about: api is called with an integer seed *)
Definition entry_ok (gr : sgraph) (api : nat) : bool :=
  let R := reach_from gr api in inb (api, true) R && closed_ok gr R.

(* reachable states in which something draws from the global generator / iterates by hash *)
Definition culprits (gr : sgraph) (api : nat) : list apair :=
  filter (fun x => negb (local_ok gr x)) (reach_from gr api).

(* ------------------------------------------------------------------ *)
(* names (for the API table of the generated graph) *)
Definition str_inb (s : string) (l : list string) : bool := existsb (String.eqb s) l.
Fixpoint name_of (tbl : list (nat * string)) (n : nat) : string :=
  match tbl with
  | [] => EmptyString
  | (k, s) :: tbl' => if Nat.eqb k n then s else name_of tbl' n
  end.

(* DiskFS.v -- cotengra/utils.py DiskDict over a model of the file system.
   A cache directory is a finite map  path -> node  (paths relative to the cache
   root, the root itself is []).  DiskDict.__setitem__ is the SEQUENCE of file-system
   operations it performs; a crash is "stop after any prefix of that sequence"
   (writes are byte-granular, so every prefix of the bytes is covered).
   Two variants are modelled side by side:
     *_cur : the code as it stands in /repo (in-place write, `raise e` after the retry loop)
     *_fix : proposed_fixes/C15_diskdict-torn-write.patch (temporary file + os.replace;
             an unreadable entry is a missing key; __contains__ = "can be loaded").
   The pickle codec is a pair of arguments (encode, decode); what is assumed about it
   is stated as hypotheses of the theorems in Proofs/DiskFSFacts.v.
   MODEL FILE: executable definitions only. *)
From Ctg Require Export Base.

Definition name := list nat.          (* a file name, as character codes *)
Definition path := list name.         (* relative to the cache directory *)
Definition bytes := list nat.

Inductive fnode := FDir | FFile (b : bytes).
Definition fs := list (path * fnode).

#[export] Instance Eqb_fnode : Eqb fnode := fun a b =>
  match a, b with FDir, FDir => true | FFile x, FFile y => eqb x y | _, _ => false end.

Definition path_eqb (p q : path) : bool := list_eqb (list_eqb Nat.eqb) p q.

Fixpoint fs_get (p : path) (f : fs) : option fnode :=
  match f with
  | [] => None
  | (q, nd) :: f' => if path_eqb q p then Some nd else fs_get p f'
  end.
Fixpoint fs_set (p : path) (nd : fnode) (f : fs) : fs :=
  match f with
  | [] => [(p, nd)]
  | (q, x) :: f' => if path_eqb q p then (q, nd) :: f' else (q, x) :: fs_set p nd f'
  end.
Fixpoint fs_del (p : path) (f : fs) : fs :=
  match f with
  | [] => []
  | (q, x) :: f' => if path_eqb q p then f' else (q, x) :: fs_del p f'
  end.
(* pathlib.Path.exists(): true for files and directories *)
Definition fs_exists (p : path) (f : fs) : bool :=
  match fs_get p f with Some _ => true | None => false end.
Definition is_dir (p : path) (f : fs) : bool :=
  match fs_get p f with Some FDir => true | _ => false end.

(* ---- system calls (total: a call that would fail with OSError leaves the state
        unchanged; `op_ok` says whether it succeeds) ---- *)
Inductive op :=
| Mkdir (p : path)                 (* os.mkdir, EEXIST tolerated (exist_ok=True) *)
| OpenTrunc (p : path)             (* open(p, 'wb+') / open(p, 'wb'): O_CREAT|O_TRUNC *)
| Append (p : path) (b : bytes)    (* write(2) on the descriptor opened above *)
| Rename (src dst : path).         (* os.replace: atomic (assumption rename_atomic) *)

Definition parent (p : path) : path := removelast p.

Definition op_ok (o : op) (f : fs) : bool :=
  match o with
  | Mkdir p => match fs_get p f with
               | Some FDir => true | Some (FFile _) => false
               | None => is_dir (parent p) f end
  | OpenTrunc p => is_dir (parent p) f && negb (is_dir p f)
  | Append p _ => match fs_get p f with Some (FFile _) => true | _ => false end
  | Rename s d => match fs_get s f with Some (FFile _) => negb (is_dir d f) && is_dir (parent d) f | _ => false end
  end.

Definition run_op (f : fs) (o : op) : fs :=
  if negb (op_ok o f) then f else
  match o with
  | Mkdir p => match fs_get p f with Some _ => f | None => fs_set p FDir f end
  | OpenTrunc p => fs_set p (FFile []) f
  | Append p b => match fs_get p f with Some (FFile c) => fs_set p (FFile (c ++ b)) f | _ => f end
  | Rename s d => match fs_get s f with Some nd => fs_del s (fs_set d nd f) | None => f end
  end.
Definition run_ops (ops : list op) (f : fs) : fs := fold_left run_op ops f.

(* the writer is killed after its first n operations *)
Definition crash_at (n : nat) (ops : list op) (f : fs) : fs := run_ops (firstn n ops) f.

(* ---- DiskDict ---------------------------------------------------------- *)
(* a key is a string or a tuple of strings *)
Inductive dkey := KS (h : name) | KT (p : path).
Definition dkey_eqb (a b : dkey) : bool :=
  match a, b with
  | KS x, KS y => list_eqb Nat.eqb x y
  | KT x, KT y => path_eqb x y
  | _, _ => false
  end.
#[export] Instance Eqb_dkey : Eqb dkey := dkey_eqb.
(* `if not isinstance(k, tuple): k = (k,)`  and  self._path.joinpath( *k ) *)
Definition kpath (k : dkey) : path := match k with KS h => [h] | KT p => p end.
Definition tup (k : dkey) : dkey := KT (kpath k).

(* all non-empty proper prefixes of p, shortest first: what
   fname.parent.mkdir(parents=True, exist_ok=True) may have to create *)
Fixpoint prefixes_from (acc : path) (p : path) : list path :=
  match p with
  | [] => []
  | x :: p' => match p' with
               | [] => []
               | _ => (acc ++ [x]) :: prefixes_from (acc ++ [x]) p'
               end
  end.
Definition mkdir_ops (p : path) : list op :=
  if Nat.ltb 1 (length p) then map Mkdir (prefixes_from [] p) else [].

(* '.' = 46 marks the temporary name used by the fixed writer *)
Definition TMPMARK : nat := 46.
Definition tmp_of (p : path) : path := parent p ++ [TMPMARK :: last p []].
Definition is_tmp_name (nm : name) : bool := match nm with c :: _ => Nat.eqb c TMPMARK | [] => false end.

Inductive res (A : Type) := Ok (a : A) | KeyErr | UnboundErr | OtherErr.
Arguments Ok {A} a. Arguments KeyErr {A}. Arguments UnboundErr {A}. Arguments OtherErr {A}.
#[export] Instance Eqb_res {A} `{Eqb A} : Eqb (res A) := fun x y =>
  match x, y with
  | Ok a, Ok b => eqb a b | KeyErr, KeyErr => true | UnboundErr, UnboundErr => true
  | OtherErr, OtherErr => true | _, _ => false end.

Section DD.
Variable V : Type.
Variable encode : V -> bytes.           (* pickle.dumps *)
Variable decode : bytes -> option V.    (* pickle.load; None = EOFError / UnpicklingError *)

Record dd := mkDD { dd_mem : list (dkey * V);   (* self._mem_cache *)
                    dd_dir : bool;              (* self._directory is not None *)
                    dd_fs : fs }.

Fixpoint mem_get (k : dkey) (m : list (dkey * V)) : option V :=
  match m with
  | [] => None
  | (q, v) :: m' => if dkey_eqb q k then Some v else mem_get k m'
  end.
Fixpoint mem_set (k : dkey) (v : V) (m : list (dkey * V)) : list (dkey * V) :=
  match m with
  | [] => [(k, v)]
  | (q, w) :: m' => if dkey_eqb q k then (q, v) :: m' else (q, w) :: mem_set k v m'
  end.

(* one attempt of the retry loop: open(fname,'rb'); pickle.load(f) *)
Definition try_load (p : path) (f : fs) : option V :=
  match fs_get p f with Some (FFile b) => decode b | _ => None end.
Fixpoint retry (n : nat) (p : path) (f : fs) : option V :=
  match n with
  | 0 => None
  | S n' => match try_load p f with Some v => Some v | None => retry n' p f end
  end.

(* ======================= the code as it stands ========================= *)
Definition setitem_ops_cur (k : dkey) (v : V) : list op :=
  let p := kpath k in
  mkdir_ops p ++ [OpenTrunc p] ++ map (fun b => Append p [b]) (encode v).

Definition setitem_cur (d : dd) (k : dkey) (v : V) : dd :=
  mkDD (mem_set k v (dd_mem d)) (dd_dir d)
       (if dd_dir d then run_ops (setitem_ops_cur k v) (dd_fs d) else dd_fs d).

Definition contains_cur (d : dd) (k : dkey) : bool * dd :=
  (match mem_get k (dd_mem d) with
   | Some _ => true
   | None => dd_dir d && fs_exists (kpath k) (dd_fs d)
   end, d).

Definition getitem_cur (max_retries : nat) (d : dd) (k : dkey) : res V * dd :=
  match mem_get k (dd_mem d) with
  | Some v => (Ok v, d)
  | None =>
      if negb (dd_dir d) then (KeyErr, d) else
      let p := kpath k in
      if negb (fs_exists p (dd_fs d)) then (KeyErr, d) else
      if is_dir p (dd_fs d) then (OtherErr, d) else       (* IsADirectoryError, not caught *)
      match retry max_retries p (dd_fs d) with
      | Some v => (Ok v, mkDD (mem_set (tup k) v (dd_mem d)) (dd_dir d) (dd_fs d))
                  (* NB the value is memoised under the TUPLE form of the key *)
      | None => (match max_retries with 0 => KeyErr | S _ => UnboundErr end, d)
                  (* `raise e`: the inner `except ... as e` has unbound the name *)
      end
  end.

(* =========================== the proposed fix ========================== *)
Definition setitem_ops_fix (k : dkey) (v : V) : list op :=
  let p := kpath k in
  let t := tmp_of p in
  mkdir_ops p ++ [OpenTrunc t] ++ map (fun b => Append t [b]) (encode v) ++ [Rename t p].

Definition setitem_fix (d : dd) (k : dkey) (v : V) : dd :=
  mkDD (mem_set k v (dd_mem d)) (dd_dir d)
       (if dd_dir d then run_ops (setitem_ops_fix k v) (dd_fs d) else dd_fs d).

(* shutil.move(tmp, fname) with the temporary file on ANOTHER file system (e.g. the system temp
   directory): no rename is possible, the move degrades to "open-truncate the destination; write
   the chunks; close; unlink the source".  The source is not part of the cache directory, so
   inside the cache directory the writer performs exactly the in-place sequence *)
Definition setitem_ops_movex (k : dkey) (v : V) : list op :=
  let p := kpath k in
  mkdir_ops p ++ [OpenTrunc p] ++ map (fun b => Append p [b]) (encode v).

Definition getitem_fix (max_retries : nat) (d : dd) (k : dkey) : res V * dd :=
  match mem_get k (dd_mem d) with
  | Some v => (Ok v, d)
  | None =>
      if negb (dd_dir d) then (KeyErr, d) else
      let p := kpath k in
      if negb (fs_exists p (dd_fs d)) then (KeyErr, d) else
      if is_dir p (dd_fs d) then (KeyErr, d) else
      match retry max_retries p (dd_fs d) with
      | Some v => (Ok v, mkDD (mem_set k v (dd_mem d)) (dd_dir d) (dd_fs d))
      | None => (KeyErr, d)          (* unreadable after the retries = missing *)
      end
  end.

Definition contains_fix (max_retries : nat) (d : dd) (k : dkey) : bool * dd :=
  match getitem_fix max_retries d k with
  | (Ok _, d') => (true, d')
  | (_, d') => (false, d')
  end.

End DD.

Arguments mkDD {V}. Arguments dd_mem {V}. Arguments dd_dir {V}. Arguments dd_fs {V}.
Arguments mem_get {V}. Arguments mem_set {V}.

(* the three operations the reusable layer uses, as a record *)
Record ddops (V : Type) := mkOps {
  o_contains : dd V -> dkey -> bool * dd V;
  o_getitem : dd V -> dkey -> res V * dd V;
  o_setitem : dd V -> dkey -> V -> dd V }.
Arguments o_contains {V}. Arguments o_getitem {V}. Arguments o_setitem {V}. Arguments mkOps {V}.

Definition ops_cur {V} (encode : V -> bytes) (decode : bytes -> option V) (mr : nat) : ddops V :=
  mkOps (contains_cur V) (getitem_cur V decode mr) (setitem_cur V encode).
Definition ops_fix {V} (encode : V -> bytes) (decode : bytes -> option V) (mr : nat) : ddops V :=
  mkOps (contains_fix V decode mr) (getitem_fix V decode mr) (setitem_fix V encode).

(* ---- a table-driven codec for the executed correspondence: the harness supplies
        the real pickle bytes of every value that occurs ---- *)
Section TabCodec.
Context {V : Type} `{Eqb V}.
Variable tab : list (V * bytes).
Fixpoint tab_enc_in (t : list (V * bytes)) (v : V) : bytes :=
  match t with [] => [] | (w, b) :: t' => if eqb w v then b else tab_enc_in t' v end.
Fixpoint tab_dec_in (t : list (V * bytes)) (b : bytes) : option V :=
  match t with [] => None | (w, c) :: t' => if eqb c b then Some w else tab_dec_in t' b end.
Definition tab_encode := tab_enc_in tab.
Definition tab_decode := tab_dec_in tab.
End TabCodec.

(* observation of a directory for the correspondence: (path, None for a directory |
   Some length-of-file), the root excluded, in a canonical order chosen by the harness *)
Definition fs_obs (f : fs) : list (path * option nat) :=
  map (fun e => (fst e, match snd e with FDir => None | FFile b => Some (length b) end))
      (filter (fun e => negb (path_eqb (fst e) [])) f).

(* PathValid.v -- contraction paths (linear "recycled ids", SSA), their small-step
   execution, the boolean validity checkers, the tree ContractionTree.from_path
   builds from a path, the checker for children maps, and the partition builders
   (PartitionTreeBuilder.build_divide / build_agglom) with the partition function
   as an oracle.
   Python modelled (cotengra/core.py): from_path (lines 530-574), contract_nodes
   (1341-1397), contract_nodes_pair (1299-1320, the (l, r) order rule),
   PartitionTreeBuilder.build_divide / build_agglom (3931-4076), separate (4094);
   path_basic.py: linear_to_ssa, ssa_to_linear.
   MODEL FILE: executable definitions only. *)
From Ctg Require Export Base Net.

Fixpoint tree_eqb (a b : tree) : bool :=
  match a, b with
  | Leaf i, Leaf j => Nat.eqb i j
  | Node l r, Node l' r' => tree_eqb l l' && tree_eqb r r'
  | _, _ => false
  end.
#[export] Instance Eqb_tree : Eqb tree := tree_eqb.

Definition step := list nat.
Definition path := list step.
Definition nset := list nat.       (* a frozenset[int] as a list of leaf numbers *)

(* ------------------------------------------------------------------ *)
(* list primitives used by the Python code                              *)

(* list.pop(i): None models IndexError *)
Fixpoint pop_at {A} (i : nat) (l : list A) : option (A * list A) :=
  match l, i with
  | [], _ => None
  | x :: l', 0 => Some (x, l')
  | x :: l', S i' => match pop_at i' l' with
                     | Some (y, r) => Some (y, x :: r)
                     | None => None
                     end
  end.

(* [l.pop(i) for i in is] : the popped elements in pop order and what is left *)
Fixpoint pops {A} (is : list nat) (l : list A) : option (list A * list A) :=
  match is with
  | [] => Some ([], l)
  | i :: is' => match pop_at i l with
                | Some (x, l1) => match pops is' l1 with
                                  | Some (xs, r) => Some (x :: xs, r)
                                  | None => None
                                  end
                | None => None
                end
  end.

(* sorted(p, reverse=True) / con.sort() on distinct ints *)
Fixpoint ins_desc (x : nat) (l : list nat) : list nat :=
  match l with
  | [] => [x]
  | y :: l' => if Nat.leb x y then y :: ins_desc x l' else x :: l
  end.
Definition sort_desc (l : list nat) : list nat := fold_right ins_desc [] l.
Definition sort_asc (l : list nat) : list nat := rev (sort_desc l).

Fixpoint strict_desc_b (l : list nat) : bool :=
  match l with
  | [] => true
  | x :: l' => match l' with [] => true | y :: _ => Nat.ltb y x && strict_desc_b l' end
  end.

(* ------------------------------------------------------------------ *)
(* the validity checkers                                               *)

(* one step [s] may be applied to [m] live tensors: non-empty, positions distinct
   and all < m  (checked on the descending sort, which is what the code pops) *)
Definition step_ok (okl : nat -> bool) (m : nat) (s : step) : bool :=
  let d := sort_desc s in
  okl (length s) && strict_desc_b d && match d with [] => false | x :: _ => Nat.ltb x m end.

(* number of live tensors after running a linear path, None if a step is invalid *)
Fixpoint lin_run (okl : nat -> bool) (m : nat) (p : path) : option nat :=
  match p with
  | [] => Some m
  | s :: p' => if step_ok okl m s then lin_run okl (m - length s + 1) p' else None
  end.

Definition any_len (k : nat) : bool := Nat.leb 1 k.
Definition len12 (k : nat) : bool := Nat.eqb k 1 || Nat.eqb k 2.

(* THE CHECKER for linear paths: every step valid and exactly one tensor left *)
Definition linear_path_valid (n : nat) (p : path) : bool :=
  match lin_run any_len n p with Some 1 => true | _ => false end.
(* valid prefix (what from_path accepts and then autocompletes) *)
Definition linear_path_prefix_valid (n : nat) (p : path) : bool :=
  match lin_run any_len n p with Some _ => true | None => false end.
(* a path of pairwise / single steps only (what find_path hands to contract_nodes) *)
Definition binary_path_valid (k : nat) (p : path) : bool :=
  match lin_run len12 k p with Some 1 => true | _ => false end.

(* SSA: ids are single use.  [avail] = ids not yet consumed, in the order of
   ssa_to_linear's [ids] list; [nxt] = next fresh id *)
Fixpoint nodup_b (l : list nat) : bool :=
  match l with
  | [] => true
  | x :: l' => negb (memb x l') && nodup_b l'
  end.
Definition remove_all (s : list nat) (l : list nat) : list nat :=
  filter (fun x => negb (memb x s)) l.
Definition ssa_step_ok (okl : nat -> bool) (avail : list nat) (s : step) : bool :=
  okl (length s) && nodup_b s && forallb (fun i => memb i avail) s.
Fixpoint ssa_run (okl : nat -> bool) (avail : list nat) (nxt : nat) (p : path)
  : option (list nat * nat) :=
  match p with
  | [] => Some (avail, nxt)
  | s :: p' => if ssa_step_ok okl avail s
               then ssa_run okl (remove_all s avail ++ [nxt]) (S nxt) p'
               else None
  end.
Definition ssa_path_valid (n : nat) (p : path) : bool :=
  match ssa_run any_len (seq 0 n) n p with
  | Some (av, _) => Nat.eqb (length av) 1
  | None => false
  end.
Definition ssa_path_prefix_valid (n : nat) (p : path) : bool :=
  match ssa_run any_len (seq 0 n) n p with Some _ => true | None => false end.

(* ------------------------------------------------------------------ *)
(* small-step execution, generic in what a live tensor is ([A]) and in how the
   popped operands are merged ([merge]; None = the code raises).
   from_path, linear branch:
       nodes = list(tree.gen_leaves())
       for p in path:
           merge = [nodes.pop(i) for i in sorted(p, reverse=True)]
           nodes.append(tree.contract_nodes(merge)) *)
Section Exec.
Context {A : Type}.
Variable merge : list A -> option A.

Definition lin_step (live : list A) (s : step) : option (list A) :=
  match pops (sort_desc s) live with
  | Some (ops, rest) => match merge ops with
                        | Some x => Some (rest ++ [x])
                        | None => None
                        end
  | None => None
  end.
Fixpoint lin_exec (live : list A) (p : path) : option (list A) :=
  match p with
  | [] => Some live
  | s :: p' => match lin_step live s with
               | Some live' => lin_exec live' p'
               | None => None
               end
  end.

(* from_path, ssa branch:
       nodes = dict(enumerate(tree.gen_leaves())); ssa = len(nodes)
       for p in path:
           merge = [nodes.pop(i) for i in p]
           nodes[ssa] = tree.contract_nodes(merge); ssa += 1 *)
Fixpoint dpop (i : nat) (d : list (nat * A)) : option (A * list (nat * A)) :=
  match d with
  | [] => None                                  (* KeyError *)
  | (k, v) :: d' => if Nat.eqb k i then Some (v, d')
                    else match dpop i d' with
                         | Some (x, r) => Some (x, (k, v) :: r)
                         | None => None
                         end
  end.
Fixpoint dpops (is : list nat) (d : list (nat * A)) : option (list A * list (nat * A)) :=
  match is with
  | [] => Some ([], d)
  | i :: is' => match dpop i d with
                | Some (x, d1) => match dpops is' d1 with
                                  | Some (xs, r) => Some (x :: xs, r)
                                  | None => None
                                  end
                | None => None
                end
  end.
Definition ssa_step (st : list (nat * A) * nat) (s : step) : option (list (nat * A) * nat) :=
  let '(d, nxt) := st in
  match dpops s d with
  | Some (ops, rest) => match merge ops with
                        | Some x => Some (rest ++ [(nxt, x)], S nxt)
                        | None => None
                        end
  | None => None
  end.
Fixpoint ssa_exec (st : list (nat * A) * nat) (p : path) : option (list (nat * A) * nat) :=
  match p with
  | [] => Some st
  | s :: p' => match ssa_step st s with
               | Some st' => ssa_exec st' p'
               | None => None
               end
  end.
End Exec.

Fixpoint enumerate_from {A} (k : nat) (l : list A) : list (nat * A) :=
  match l with [] => [] | x :: l' => (k, x) :: enumerate_from (S k) l' end.

(* the SEMANTICS of a path: live tensors are the multisets of inputs they contain,
   a contraction concatenates its operands (so a tensor consumed twice shows up twice) *)
Definition sem_merge (l : list nset) : option nset := Some (concat l).
Definition singletons (n : nat) : list nset := map (fun k => [k]) (seq 0 n).
Definition sem_linear (n : nat) (p : path) : option (list nset) :=
  lin_exec sem_merge (singletons n) p.
Definition sem_ssa (n : nat) (p : path) : option (list (nat * nset) * nat) :=
  ssa_exec sem_merge (enumerate_from 0 (singletons n), n) p.

(* ------------------------------------------------------------------ *)
(* ContractionTree.contract_nodes_pair: children[parent] = (x, y) with the
   heavier subtree left, ties broken by the smaller minimum leaf *)
Fixpoint tmin (t : tree) : nat :=
  match t with Leaf k => k | Node l r => Nat.min (tmin l) (tmin r) end.
Definition pair_nodes (x y : tree) : tree :=
  let nx := nleaves x in let ny := nleaves y in
  if Nat.eqb nx ny
  then (if Nat.ltb (tmin x) (tmin y) then Node x y else Node y x)   (* -min(x) > -min(y) *)
  else (if Nat.ltb ny nx then Node x y else Node y x).

(* contract_nodes on 1 or 2 nodes *)
Definition merge12 (l : list tree) : option tree :=
  match l with
  | [x] => Some x
  | [x; y] => Some (pair_nodes x y)
  | _ => None
  end.

Definition canon (s : nset) : nset := sort_asc s.
Definition cleaves (t : tree) : nset := canon (leaves t).   (* the frozenset of a node, sorted *)

(* contract_nodes: [sub] is the path find_path returns for the >= 3 operands
   (keyed by their leaf sets); it is executed on temp_nodes with 1/2-operand steps *)
Definition contract_list (sub : list nset -> path) (l : list tree) : option tree :=
  match l with
  | [] => None
  | [x] => Some x
  | [x; y] => Some (pair_nodes x y)
  | _ => match lin_exec merge12 l (sub (map cleaves l)) with
         | Some [parent] => Some parent            (* (parent,) = temp_nodes *)
         | _ => None
         end
  end.

Definition leaf_forest (n : nat) : list tree := map Leaf (seq 0 n).

(* from_path(path=...) incl. the final contraction of what is left *)
Definition finish_forest (sub : list nset -> path) (nodes : list tree) : option tree :=
  match nodes with
  | [t] => Some t
  | _ => contract_list sub nodes         (* len(nodes) > 1 and autocomplete *)
  end.
Definition from_path_linear (sub : list nset -> path) (n : nat) (p : path) : option tree :=
  match lin_exec (contract_list sub) (leaf_forest n) p with
  | Some nodes => finish_forest sub nodes
  | None => None
  end.
Definition from_path_ssa (sub : list nset -> path) (n : nat) (p : path) : option tree :=
  match ssa_exec (contract_list sub) (enumerate_from 0 (leaf_forest n), n) p with
  | Some (d, _) => finish_forest sub (map snd d)
  | None => None
  end.

(* the left-to-right chain ((0,1),(0,1)...) is not what the code uses; it is the
   default of a table-driven oracle: [(k-2, k-1)] pops the last two, appends *)
Fixpoint chain_path (k : nat) : path :=
  match k with
  | 0 => []
  | 1 => []
  | S k' => [k' - 1; k'] :: chain_path k'
  end.
Definition nset_list_eqb (a b : list nset) : bool := list_eqb (list_eqb Nat.eqb) a b.
Fixpoint table_get (tbl : list (list nset * path)) (l : list nset) : option path :=
  match tbl with
  | [] => None
  | (k, v) :: tbl' => if nset_list_eqb k l then Some v else table_get tbl' l
  end.
(* oracle built from the sub-paths recorded from the real find_path calls *)
Definition sub_of_table (tbl : list (list nset * path)) (l : list nset) : path :=
  match table_get tbl l with
  | Some p => if binary_path_valid (length l) p then p else chain_path (length l)
  | None => chain_path (length l)
  end.

(* ------------------------------------------------------------------ *)
(* children maps (tree.children as an association list, node sets as sorted lists)
   and THE CHECKER for them *)
Definition chmap := list (nset * (nset * nset)).
Fixpoint ch_get (s : nset) (ch : chmap) : option (nset * nset) :=
  match ch with
  | [] => None
  | (k, v) :: ch' => if list_eqb Nat.eqb k s then Some v else ch_get s ch'
  end.
Definition subset_b (a b : nset) : bool := forallb (fun x => memb x b) a.
Definition eqset_b (a b : nset) : bool := subset_b a b && subset_b b a.

(* follow the map down from [s]; None if a node is missing or is not the union of
   its children *)
Fixpoint build_tree (fuel : nat) (ch : chmap) (s : nset) : option tree :=
  match fuel with
  | 0 => None
  | S f =>
      match s with
      | [k] => Some (Leaf k)
      | _ => match ch_get s ch with
             | Some (l, r) =>
                 if eqset_b s (l ++ r) then
                   match build_tree f ch l, build_tree f ch r with
                   | Some tl, Some tr => Some (Node tl tr)
                   | _, _ => None
                   end
                 else None
             | None => None
             end
      end
  end.
Definition perm_seq_b (l : list nat) (n : nat) : bool :=
  Nat.eqb (length l) n && nodup_b l && forallb (fun x => Nat.ltb x n) l.
Definition tree_complete_b (n : nat) (ch : chmap) : bool :=
  match build_tree (S n) ch (seq 0 n) with
  | Some t => perm_seq_b (leaves t) n && Nat.eqb (length ch) (n - 1)
  | None => false
  end.

(* the children map of a tree, parents after children (bottom-up creation order);
   node sets sorted ascending as the harness prints frozensets *)
Fixpoint children_of (t : tree) : chmap :=
  match t with
  | Leaf _ => []
  | Node l r => children_of l ++ children_of r ++ [(canon (leaves t), (canon (leaves l), canon (leaves r)))]
  end.

(* ------------------------------------------------------------------ *)
(* path format conversions (path_basic.linear_to_ssa / ssa_to_linear)   *)

(* ids.pop(c) for c in sorted(con, reverse=True) *)
Fixpoint linear_to_ssa_go (ids : list nat) (ssa : nat) (p : path) : option path :=
  match p with
  | [] => Some []
  | con :: p' => match pops (sort_desc con) ids with
                 | Some (scon, rest) =>
                     match linear_to_ssa_go (rest ++ [ssa]) (S ssa) p' with
                     | Some q => Some (scon :: q)
                     | None => None
                     end
                 | None => None
                 end
  end.
Definition linear_to_ssa (n : nat) (p : path) : option path := linear_to_ssa_go (seq 0 n) n p.

(* bisect.bisect_left(ids, s) on the (always ascending) ids list *)
Definition bisect_left (ids : list nat) (s : nat) : nat := length (filter (fun x => Nat.ltb x s) ids).
Fixpoint ssa_to_linear_go (ids : list nat) (ssa : nat) (p : path) : option path :=
  match p with
  | [] => Some []
  | scon :: p' =>
      let con := sort_asc (map (bisect_left ids) scon) in
      match pops (rev con) ids with                 (* for j in reversed(con): ids.pop(j) *)
      | Some (_, rest) =>
          match ssa_to_linear_go (rest ++ [ssa]) (S ssa) p' with
          | Some q => Some (con :: q)
          | None => None
          end
      | None => None
      end
  end.
Definition ssa_to_linear (n : nat) (p : path) : option path := ssa_to_linear_go (seq 0 n) n p.

(* ------------------------------------------------------------------ *)
(* PartitionTreeBuilder                                                *)

(* core.separate(xs, blocks): zip, group by label, groups in label order *)
Definition zipl {A} (xs : list A) (bs : list nat) : list (A * nat) := combine xs bs.
Definition separate {A} (xs : list A) (bs : list nat) : list (list A) :=
  let z := zipl xs bs in
  let labels := sort_asc (unique (map snd z)) in
  map (fun b => map fst (filter (fun p => Nat.eqb (snd p) b) z)) labels.

Fixpoint map_opt {A B} (f : A -> option B) (l : list A) : option (list B) :=
  match l with
  | [] => Some []
  | x :: l' => match f x, map_opt f l' with
               | Some y, Some ys => Some (y :: ys)
               | _, _ => None
               end
  end.

Section Builders.
Variable sub : list nset -> path.        (* find_path inside contract_nodes *)
Variable memb_fn : nset -> list nat.     (* partition_fn on the subgraph with these leaves *)
Variable cutoff : nat.

(* build_divide, one childless node [s] (a tuple of leaf numbers) at a time.  The
   code keeps a work list (tree.childless); every childless node is handled
   independently of the others, so the work list is unfolded here as a recursion:
     subsize <= cutoff               -> contract the leaves of s
     one community found             -> contract the leaves of s
     else contract_nodes(new_subgs)  and the parts become childless *)
Fixpoint divide (fuel : nat) (s : nset) : option tree :=
  match fuel with
  | 0 => None
  | S f =>
      if Nat.leb (length s) cutoff then contract_list sub (map Leaf s)
      else
        match separate s (memb_fn s) with
        | [_] => contract_list sub (map Leaf s)
        | groups =>
            match map_opt (fun g => match g with [k] => Some (Leaf k) | _ => divide f g end) groups with
            | Some ts => contract_list sub ts
            | None => None
            end
        end
  end.
Definition build_divide (n : nat) : option tree := divide n (seq 0 n).
End Builders.

Section Agglom.
Variable sub : list nset -> path.
Variable memb_fn : list nset -> list nat.   (* partition_fn on the current list of groups *)
Variable groupsize : nat.

(* one round of the while loop of build_agglom *)
Definition agglom_groups (lv : list tree) : list (list tree) :=
  separate lv (memb_fn (map cleaves lv)).
Definition agglom_round (lv : list tree) : option (list tree) :=
  map_opt (contract_list sub) (agglom_groups lv).

(* build_agglom as it is in /repo since commit 001d170:
     while len(leaves) > groupsize:
         groups = separate(leaves, membership)
         if len(groups) >= len(leaves): break
         leaves = [tree.contract_nodes(group) for group in groups]
   fuel exhausted = None (proved impossible with fuel = number of leaves) *)
Fixpoint agglom_loop (fuel : nat) (lv : list tree) : option (list tree) :=
  if Nat.ltb groupsize (length lv) then
    match fuel with
    | 0 => None
    | S f => if Nat.leb (length lv) (length (agglom_groups lv)) then Some lv   (* break *)
             else match agglom_round lv with
                  | Some lv' => agglom_loop f lv'
                  | None => None
                  end
    end
  else Some lv.
(* if len(leaves) > 1: tree.contract_nodes(leaves) *)
Definition build_agglom (n : nat) : option tree :=
  match agglom_loop n (leaf_forest n) with
  | Some lv => match lv with [t] => Some t | _ => contract_list sub lv end
  | None => None
  end.

(* the loop BEFORE commit 001d170 (finding 17), kept for the non-termination theorem *)
Fixpoint agglom_loop_old (fuel : nat) (lv : list tree) : option (list tree) :=
  if Nat.ltb groupsize (length lv) then
    match fuel with
    | 0 => None
    | S f => match agglom_round lv with
             | Some lv' => agglom_loop_old f lv'
             | None => None
             end
    end
  else Some lv.
Definition build_agglom_old (fuel n : nat) : option tree :=
  match agglom_loop_old fuel (leaf_forest n) with
  | Some lv => match lv with [t] => Some t | _ => contract_list sub lv end
  | None => None
  end.
End Agglom.

(* membership oracle replaying the recorded partition of each round (keyed by the
   list of current groups); unknown key = nothing merged *)
Definition memb_of_table (tbl : list (list nset * list nat)) (l : list nset) : list nat :=
  match find (fun kv => nset_list_eqb (fst kv) l) tbl with
  | Some (_, m) => m
  | None => seq 0 (length l)
  end.

(* ------------------------------------------------------------------ *)
(* path_random.RandomOptimizer.__call__:
     for Nrem in range(N - 1, 0, -1):
         i = j = rng.randint(0, Nrem)
         while j == i: j = rng.randint(0, Nrem)
         path.append((i, j))
   [ds] = the raw random numbers; randint(0, Nrem) is ANY value in [0, Nrem] = raw mod (Nrem+1).
   None = the draws ran out (rejection sampling is not guaranteed to stop) *)
Fixpoint skip_eq (m i : nat) (ds : list nat) : option (nat * list nat) :=
  match ds with
  | [] => None
  | d :: ds' => if Nat.eqb (Nat.modulo d m) i then skip_eq m i ds' else Some (Nat.modulo d m, ds')
  end.
Fixpoint random_path (nrem : nat) (ds : list nat) : option path :=
  match nrem with
  | 0 => Some []
  | S nr' =>
      match ds with
      | [] => None
      | d :: ds1 =>
          let i := Nat.modulo d (S nrem) in
          match skip_eq (S nrem) i ds1 with
          | None => None
          | Some (j, ds2) => match random_path nr' ds2 with
                             | Some p => Some ([i; j] :: p)
                             | None => None
                             end
          end
      end
  end.
Definition random_optimizer_path (n : nat) (ds : list nat) : option path := random_path (n - 1) ds.

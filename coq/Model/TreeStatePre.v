(* TreeStatePre.v -- the preconditions of the primitives (Proofs/TreeStateInv.v prim_pre) as an
   executable boolean, and the monitor that evaluates it on every primitive of a recorded trace.
   Soundness (prim_pre_b = true -> prim_pre) is proved in Proofs/TreeStateMon.v.
   MODEL FILE (uses the counting functions cnt / spec_count / universe defined in Proofs/NetFacts.v). *)
From Ctg Require Import Base Net NetFacts TreeState.

Fixpoint nodupb (l : list nat) : bool :=
  match l with [] => true | x :: l' => negb (memb x l') && nodupb l' end.
Fixpoint nremove1 (x : node) (l : list node) : option (list node) :=
  match l with
  | [] => None
  | y :: l' => if node_eqb x y then Some l'
               else match nremove1 x l' with Some r => Some (y :: r) | None => None end
  end.
Fixpoint npermb (a b : list node) : bool :=
  match a with
  | [] => match b with [] => true | _ => false end
  | x :: a' => match nremove1 x b with Some b' => npermb a' b' | None => false end
  end.

Section Pre.
Variable n : net.
Notation N := (NN n).

Definition good_node_b (nd : node) : bool :=
  nodupb nd && forallb (fun k => Nat.ltb k N) nd && negb (Nat.eqb (length nd) 0).
Definition wfl_b (d : legs) : bool := nodupb (lkeys d) && forallb (fun kv => Nat.ltb 0 (snd kv)) d.

(* canonical key lists of the specification *)
Definition spec_keys (sl : list slinfo) (nd : node) : list ix :=
  if Nat.eqb (length nd) N then lkeys (root_legs n sl)
  else filter (fun j => Nat.ltb 0 (spec_count n sl nd j)) (universe n).
Definition inv_keys (sl : list slinfo) (l r : node) : list ix :=
  filter (fun j => Nat.ltb 0 (spec_count n sl l j + spec_count n sl r j)) (universe n).

Definition legs_ok_b (sl : list slinfo) (nd : node) (lg : legs) : bool :=
  if Nat.eqb (length nd) N
  then nodupb (lkeys lg) && forallb (fun j => opt_nat_eqb (lget j lg) (lget j (root_legs n sl)))
                                     (lkeys lg ++ lkeys (root_legs n sl))
  else wfl_b lg && forallb (fun j => Nat.eqb (lget0 j lg) (spec_count n sl nd j)) (lkeys lg ++ universe n).

Definition pair_pre_b (s : tstate) (x y : node) (lg : option legs) (cost size : option Z) : bool :=
  good_node_b x && good_node_b y && nodupb (x ++ y)
  && negb (nmem (nunion x y) (children s))
  && optb lg (fun l => legs_ok_b (sliced s) (nunion x y) l)
  && optb cost (fun c => Z.eqb c (size_of (szd n) (inv_keys (sliced s) (fst (order_pair x y)) (snd (order_pair x y)))))
  && optb size (fun z => Z.eqb z (size_of (szd n) (spec_keys (sliced s) (nunion x y)))).

Definition stats_pre_b (force : bool) (s : tstate) : bool :=
  if force || negb (trk_flops s && trk_write s && trk_size s) then
    match traverse n s with
    | Some nodes => npermb (map fst nodes) (map fst (children s))
                    && forallb (fun p => nmem (fst p) (info s)) (children s)
    | None => false
    end
  else true.
Definition flops_pre_b (s : tstate) (nd : node) : bool :=
  Nat.eqb (length nd) 1 || nmem nd (children s)
  || match rd i_flops s nd with Some _ => true | None => false end.

Definition populate_m (s : tstate) : tstate :=
  fold_left (fun s (p : node * (node * node)) => fst (g_legs n (fst (g_involved n s (fst p))) (fst p))) (children s) s.
Definition fullinfo_b (ind : ix) (i : ninfo) : bool :=
  match i_involved i, i_flops i, i_legs i, i_size i with
  | Some inv, Some _, Some lg, Some _ => implb (lmem ind lg) (lmem ind inv)
  | _, _, _, _ => false
  end.
Definition rm_pre_b (ind : ix) (s : tstate) : bool :=
  negb (memb ind (removed (sliced s))) && stats_pre_b false s && Z.ltb 0 (zget ind (szd n))
  && forallb (fun ni => (Nat.eqb (length (fst ni)) 1 || nmem (fst ni) (children s))
                        && (Nat.eqb (length (fst ni)) 1 || fullinfo_b ind (snd ni)))
             (info (populate_m (contract_stats n false s))).

Definition vof_b (P : list node) (nd : node) : bool := Nat.eqb (length nd) 1 || existsb (node_eqb nd) P.
Fixpoint children_first_b (P : list node) (nodes : list (node * (node * node))) : bool :=
  match nodes with
  | [] => true
  | (p, (l, r)) :: rest => vof_b P l && vof_b P r && children_first_b (p :: P) rest
  end.
Definition full2_b (i : ninfo) : bool :=
  match i_legs i, i_involved i with Some _, Some _ => true | _, _ => false end.
Definition rs_pre_b (ind : ix) (s : tstate) : bool :=
  memb ind (removed (sliced s)) && nodupb (removed (sliced s))
  && trk_flops s && trk_write s && trk_size s
  && Z.ltb 0 (zget ind (szd n))
  && forallb (fun j => memb j (concat (inputs n))) (output n)
  && match traverse n s with
     | Some nodes => npermb (map fst nodes) (map fst (children s)) && children_first_b [] nodes
     | None => false
     end
  && forallb (fun c => node_eqb (nunion (fst (snd c)) (snd (snd c))) (fst c)) (children s)
  && forallb (fun c => nmem (fst c) (info s)) (children s)
  && forallb (fun ni => Nat.eqb (length (fst ni)) 1 || nmem (fst ni) (children s)) (info s).

(* which primitives the preservation theorem covers at all *)
Definition covered (p : prim) (s : tstate) : bool :=
  match p with
  | PTotalFlops => trk_flops s
  | PTotalWrite => trk_write s
  | PMaxSize => trk_size s
  | _ => true
  end.
Definition prim_pre_b (p : prim) (s : tstate) : bool :=
  match p with
  | PAddNode nd => good_node_b nd
  | PRemoveNode nd => Nat.eqb (length nd) 1 || (nmem nd (children s) && nmem nd (info s))
  | PPair x y lg c z => pair_pre_b s x y lg c z
  | PGet GFlops nd => good_node_b nd && flops_pre_b s nd
  | PGet _ nd => good_node_b nd
  | PStats f => stats_pre_b f s
  | PTotalFlops => trk_flops s
  | PTotalWrite => trk_write s
  | PMaxSize => trk_size s
  | PResetInds | PResetRecipes | PSortInds _ _ _ _ | PCoresClear | PCoreAdd _ => true
  | PRemoveInd ind _ => rm_pre_b ind s
  | PRestoreInd ind => rs_pre_b ind s
  end.
Fixpoint pre_trace_b (tr : list prim) (s : tstate) : bool :=
  match tr with
  | [] => true
  | p :: tr' => prim_pre_b p s && pre_trace_b tr' (step n p s)
  end.

(* the monitor over a multi-tree trace: one code per event
   0 = not a primitive step / uncovered primitive, 1 = precondition holds, 2 = precondition FAILS *)
Definition mon_code (p : prim) (s : tstate) : nat :=
  if covered p s then (if prim_pre_b p s then 1 else 2) else 0.
Fixpoint mon_trace (tr : list mevent) (ms : mstate) : list nat :=
  match tr with
  | [] => []
  | e :: tr' =>
      (match e with
       | MOn t p => match pget t ms with Some s => mon_code p s | None => 0 end
       | MSetFrom _ _ => 0
       end) :: mon_trace tr' (mstep n ms e)
  end.
Definition mon_ok (tr : list mevent) (ms : mstate) : bool := negb (existsb (Nat.eqb 2) (mon_trace tr ms)).
End Pre.

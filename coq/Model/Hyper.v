(* Hyper.v -- the hyper-optimizer (cotengra/hyperoptimizers/hyper.py, scoring.py):
   (1) the trial pipeline built by HyperOptimizer.setup: base_trial_fn wrapped by
       SimulatedAnnealingTrialFn / SlicedTrialFn / SlicedReconfTrialFn / ReconfTrialFn /
       CompressedReconfTrial and finally ComputeScore (with the objective classes of
       scoring.py: ensure_basic_quantities_are_computed, LimitObjective, compressed ones);
   (2) HyperOptimizer._maybe_report_result, the assessment loop of _search,
       _gen_results (serial) and _gen_results_parallel / _get_and_report_next_future
       (parallel, completion order chosen by a scheduler oracle).
   External behaviour (path finders, tree post-processing, contract_stats, float
   arithmetic of the objectives, the hyper-parameter library, the clock, the pool) enters
   as Section variables.
   MODEL FILE: executable definitions only. *)
From Ctg Require Export Base.

(* ------------------------------------------------------------------ *)
(* Python floats, as far as the hyper-optimizer looks at them: it only compares
   scores with `<`.  Fin k: any float below +inf, k an order-preserving integer key
   (the harness uses the IEEE-754 bit pattern, which is monotone); PInf: float('inf');
   NaN: every comparison is False. *)
Inductive pyf := Fin (k : Z) | PInf | NaN.

Definition flt (a b : pyf) : bool :=            (* Python  a < b  *)
  match a, b with
  | Fin x, Fin y => (x <? y)%Z
  | Fin _, PInf => true
  | _, _ => false
  end.

Definition pyf_eqb (a b : pyf) : bool :=
  match a, b with
  | Fin x, Fin y => Z.eqb x y
  | PInf, PInf => true
  | NaN, NaN => true
  | _, _ => false
  end.
#[export] Instance Eqb_pyf : Eqb pyf := pyf_eqb.

(* a recorded cost figure: a Python int, or float('inf') (None) for a failed trial *)
Definition cost := option Z.
Definition CInf : cost := None.

(* ------------------------------------------------------------------ *)
(* the trial dict.  A field of type `option _` is None when the key is absent.
   "time" is not modelled (wall clock, never read by the search). *)
Record trial (T : Type) := mkTrial {
  t_tree : option T;                       (* trial["tree"] *)
  t_flops : option cost;                   (* trial["flops"] *)
  t_write : option cost;
  t_size : option cost;
  t_oflops : option Z;                     (* trial["original_flops"] *)
  t_owrite : option Z;
  t_osize : option Z;
  t_score : option pyf                     (* trial["score"] *)
}.
Arguments mkTrial {T}.
Arguments t_tree {T}. Arguments t_flops {T}. Arguments t_write {T}. Arguments t_size {T}.
Arguments t_oflops {T}. Arguments t_owrite {T}. Arguments t_osize {T}. Arguments t_score {T}.

Definition trial_eqb {T} `{Eqb T} (a b : trial T) : bool :=
  eqb (t_tree a) (t_tree b) && eqb (t_flops a) (t_flops b) && eqb (t_write a) (t_write b)
  && eqb (t_size a) (t_size b) && eqb (t_oflops a) (t_oflops b) && eqb (t_owrite a) (t_owrite b)
  && eqb (t_osize a) (t_osize b) && eqb (t_score a) (t_score b).
#[export] Instance Eqb_trial {T} `{Eqb T} : Eqb (trial T) := trial_eqb.

(* the dict ComputeScore returns when the trial raised *)
Definition failed_trial {T} : trial T :=
  mkTrial None (Some CInf) (Some CInf) (Some CInf) None None None (Some PInf).

Definition score_of {T} (tr : trial T) : pyf :=
  match t_score tr with Some s => s | None => NaN end.

(* ------------------------------------------------------------------ *)
(* outcome of a call that may raise: BadTrial or any other Exception *)
Inductive res (A : Type) := Ok (a : A) | RaiseBad | RaiseErr.
Arguments Ok {A}. Arguments RaiseBad {A}. Arguments RaiseErr {A}.
Definition rbind {A B} (r : res A) (f : A -> res B) : res B :=
  match r with Ok a => f a | RaiseBad => RaiseBad | RaiseErr => RaiseErr end.

Definition res_eqb {A} `{Eqb A} (a b : res A) : bool :=
  match a, b with
  | Ok x, Ok y => eqb x y
  | RaiseBad, RaiseBad => true
  | RaiseErr, RaiseErr => true
  | _, _ => false
  end.
#[export] Instance Eqb_res {A} `{Eqb A} : Eqb (res A) := res_eqb.

Inductive stage := Anneal | Slice | SliceReconf | Reconf | CompReconf.
(* ObjLimit ensures: LimitObjective; `ensures` says whether its __call__ starts with
   ensure_basic_quantities_are_computed(trial) like the other exact objectives do.  The pinned
   code does not (ensures = false, finding limit-objective-keyerror); the harness reads the flag
   off the source of LimitObjective.__call__ on every run. *)
Inductive objective := ObjBasic | ObjLimit (ensures : bool) | ObjCompressed | ObjCustom.
Inductive errmode := ErrWarn | ErrRaise | ErrIgnore.

(* which option sets were given to HyperOptimizer (and the class attribute `compressed`) *)
Record opts := mkOpts { o_anneal : bool; o_slice : bool; o_slicereconf : bool; o_reconf : bool;
                        o_compressed : bool }.

(* HyperOptimizer.setup: the wrappers, innermost first *)
Definition stages_of (o : opts) : list stage :=
  (if o_anneal o then [Anneal] else []) ++
  (if o_slice o then [Slice] else []) ++
  (if o_slicereconf o then [SliceReconf] else []) ++
  (if o_reconf o then [if o_compressed o then CompReconf else Reconf] else []).

Definition updating (s : stage) : bool := match s with CompReconf => false | _ => true end.

Section Pipeline.
Variable T : Type.                       (* ContractionTree states *)
Variable stats : T -> Z * Z * Z.         (* tree.contract_stats(): (flops, write, size) *)
Variable post : stage -> T -> res T.     (* slice_ / simulated_anneal_ / subtree_reconfigure_ /
                                            slice_and_reconfigure_ / windowed_reconfigure_, in place *)
Variable score_basic : cost -> cost -> cost -> pyf.   (* Flops/Write/Size/ComboObjective: a function
                                                         of the RECORDED trial figures *)
Variable score_limit : T -> pyf.         (* LimitObjective: log2(tree.combo_cost(max)) *)
Variable cstats : T -> Z * Z * Z.        (* compressed_contract_stats -> (flops, write, size-like) *)
Variable score_comp : Z -> Z -> Z -> pyf.
Variable score_custom : trial T -> res pyf.   (* a user callable *)
Variable finish : pyf -> pyf.            (* x ** score_compression + rng.gauss(0, smudge) *)

Definition setdefault {A} (old : option A) (v : A) : option A :=
  match old with Some x => Some x | None => Some v end.

(* stats = tree.contract_stats(); trial.setdefault("original_flops", stats["flops"]) ... *)
Definition set_originals (tr : trial T) (s : Z * Z * Z) : trial T :=
  let '(f, w, z) := s in
  mkTrial (t_tree tr) (t_flops tr) (t_write tr) (t_size tr)
          (setdefault (t_oflops tr) f) (setdefault (t_owrite tr) w) (setdefault (t_osize tr) z)
          (t_score tr).

(* trial.update(tree.contract_stats()) : overwrites flops, write, size; tree mutated in place *)
Definition update_stats (tr : trial T) (t' : T) : trial T :=
  let '(f, w, z) := stats t' in
  mkTrial (Some t') (Some (Some f)) (Some (Some w)) (Some (Some z))
          (t_oflops tr) (t_owrite tr) (t_osize tr) (t_score tr).

Definition with_tree (tr : trial T) (t' : T) : trial T :=
  mkTrial (Some t') (t_flops tr) (t_write tr) (t_size tr)
          (t_oflops tr) (t_owrite tr) (t_osize tr) (t_score tr).

(* one wrapper's __call__ after the inner trial function returned `tr` *)
Definition run_stage (s : stage) (tr : trial T) : res (trial T) :=
  match t_tree tr with
  | None => RaiseErr                                     (* KeyError 'tree' *)
  | Some t =>
      if updating s then
        let tr1 := set_originals tr (stats t) in
        rbind (post s t) (fun t' => Ok (update_stats tr1 t'))
      else
        rbind (post s t) (fun t' => Ok (with_tree tr t'))
  end.

(* base_trial_fn (+ TrialSetObjective / TrialConvertTree / TrialTreeMulti, which do not
   touch the dict): {"tree": tree} *)
Definition base_trial (b : res T) : res (trial T) :=
  rbind b (fun t => Ok (mkTrial (Some t) None None None None None None None)).

Definition run_stages (ss : list stage) (r : res (trial T)) : res (trial T) :=
  fold_left (fun acc s => rbind acc (run_stage s)) ss r.

(* scoring.ensure_basic_quantities_are_computed *)
Definition ensure_basic (tr : trial T) : res (trial T) :=
  match t_flops tr, t_write tr, t_size tr with
  | Some _, Some _, Some _ => Ok tr
  | _, _, _ =>
      match t_tree tr with
      | None => RaiseErr
      | Some t =>
          let '(f, w, z) := stats t in
          Ok (mkTrial (t_tree tr)
                      (setdefault (t_flops tr) (Some f)) (setdefault (t_write tr) (Some w))
                      (setdefault (t_size tr) (Some z))
                      (t_oflops tr) (t_owrite tr) (t_osize tr) (t_score tr))
      end
  end.

(* objective.__call__(trial): may mutate the trial, returns the raw score *)
Definition score_fn (o : objective) (tr : trial T) : res (trial T * pyf) :=
  match o with
  | ObjBasic =>
      rbind (ensure_basic tr) (fun tr' =>
        match t_flops tr', t_write tr', t_size tr' with
        | Some f, Some w, Some z => Ok (tr', score_basic f w z)
        | _, _, _ => RaiseErr
        end)
  | ObjLimit ensures =>
      rbind (if ensures then ensure_basic tr else Ok tr) (fun tr' =>
        match t_tree tr' with
        | None => RaiseErr
        | Some t => Ok (tr', score_limit t)
        end)
  | ObjCompressed =>
      match t_tree tr with
      | None => RaiseErr
      | Some t =>
          let '(f, w, z) := cstats t in
          Ok (mkTrial (t_tree tr) (Some (Some f)) (Some (Some w)) (Some (Some z))
                      (t_oflops tr) (t_owrite tr) (t_osize tr) (t_score tr), score_comp f w z)
      end
  | ObjCustom => rbind (score_custom tr) (fun x => Ok (tr, x))
  end.

Definition set_score (tr : trial T) (x : pyf) : trial T :=
  mkTrial (t_tree tr) (t_flops tr) (t_write tr) (t_size tr)
          (t_oflops tr) (t_owrite tr) (t_osize tr) (Some x).

(* ComputeScore.__call__ *)
Definition compute_score (em : errmode) (o : objective) (r : res (trial T)) : res (trial T) :=
  match rbind r (score_fn o) with
  | Ok (tr, x) => Ok (set_score tr (finish x))
  | RaiseBad => Ok failed_trial
  | RaiseErr => match em with ErrRaise => RaiseErr | _ => Ok failed_trial end
  end.

(* the complete trial function returned by setup, applied to the path finder's outcome *)
Definition trial_fn (em : errmode) (o : objective) (op : opts) (b : res T) : res (trial T) :=
  compute_score em o (run_stages (stages_of op) (base_trial b)).

End Pipeline.

(* ------------------------------------------------------------------ *)
(* the search *)
Definition setting := (nat * nat)%type.     (* (method, params), both as identifiers *)

Section Search.
Variable T : Type.

Record hstate := mkH {
  h_best_score : pyf;                        (* self.best_score *)
  h_best : option (trial T * setting);       (* self.best (None: the initial {"score": inf, ...})
                                                together with best["params"] *)
  h_tsb : nat;                               (* self.trials_since_best *)
  h_methods : list nat;                      (* self.method_choices *)
  h_params : list nat;                       (* self.param_choices *)
  h_flops : list cost;                       (* self.costs_flops *)
  h_write : list cost;
  h_size : list cost;
  h_scores : list pyf;                       (* self.scores *)
  h_optlib : list (setting * pyf)            (* calls of self._optimizer["report_result"] *)
}.

Definition init_state : hstate := mkH PInf None 0 [] [] [] [] [] [] [].

Definition best_score_of (st : hstate) : pyf :=        (* self.best["score"] *)
  match h_best st with None => PInf | Some (tr, _) => score_of tr end.
Definition best_flops (st : hstate) : cost :=          (* self.best["flops"] *)
  match h_best st with
  | None => CInf
  | Some (tr, _) => match t_flops tr with Some c => c | None => CInf end
  end.

Variable mts : option nat.                   (* max_training_steps *)

(* _maybe_report_result; None = KeyError (a key of the trial dict is missing) *)
Definition report (st : hstate) (s : setting) (tr : trial T) : option hstate :=
  match t_score tr, t_flops tr, t_write tr, t_size tr with
  | Some sc, Some f, Some w, Some z =>
      let new_best := flt sc (h_best_score st) in
      let bs := if new_best then sc else h_best_score st in
      let should :=
        ((match mts with None => true | Some m => Nat.ltb (length (h_scores st)) m end) || new_best)
        && flt sc PInf in
      Some (mkH bs (h_best st) (h_tsb st)
                (h_methods st ++ [fst s]) (h_params st ++ [snd s])
                (h_flops st ++ [f]) (h_write st ++ [w]) (h_size st ++ [z]) (h_scores st ++ [sc])
                (if should then h_optlib st ++ [(s, sc)] else h_optlib st))
  | _, _, _, _ => None
  end.

(* body of `for trial in trials:` in _search *)
Definition assess (st : hstate) (tr : trial T) : hstate :=
  if flt (score_of tr) (best_score_of st) then
    mkH (h_best_score st) (Some (tr, (last (h_methods st) 0, last (h_params st) 0))) 0
        (h_methods st) (h_params st) (h_flops st) (h_write st) (h_size st) (h_scores st) (h_optlib st)
  else
    mkH (h_best_score st) (h_best st) (S (h_tsb st))
        (h_methods st) (h_params st) (h_flops st) (h_write st) (h_size st) (h_scores st) (h_optlib st).

(* max_time: None / a number or 'rate:x' (clock oracle, indexed by the number of trials
   assessed so far in this search) / 'equil:n' *)
Inductive stopmode :=
| NoStop
| StopTime (f : nat -> bool)
| StopEquil (amount : nat)
| StopRate (f : nat -> cost -> bool).

Definition should_stop (sm : stopmode) (st : hstate) (k : nat) : bool :=
  match sm with
  | NoStop => false
  | StopTime f => f k
  | StopEquil a => Nat.ltb a (h_tsb st)
  | StopRate f => f k (best_flops st)
  end.

Definition entry := (nat * setting * trial T)%type.    (* (submission number, setting, result) *)
Definition e_id (e : entry) : nat := fst (fst e).
Definition e_setting (e : entry) : setting := snd (fst e).
Definition e_trial (e : entry) : trial T := snd e.

(* report + assess of a list of results, in order *)
Fixpoint replay (st : hstate) (tr : list entry) : option hstate :=
  match tr with
  | [] => Some st
  | e :: rest =>
      match report st (e_setting e) (e_trial e) with
      | None => None
      | Some st1 => replay (assess st1 (e_trial e)) rest
      end
  end.

Variable get_setting : nat -> list (setting * pyf) -> setting.
   (* self._optimizer["get_setting"](self): the k-th ask, given what was reported to the library *)
Variable run : nat -> setting -> option (trial T).
   (* the ComputeScore-wrapped trial function applied to the k-th submission;
      None = it raised (on_trial_error='raise') *)
Variable sm : stopmode.

Inductive status := Done | Stopped | Stuck | Crashed.
Definition status_eqb (a b : status) : bool :=
  match a, b with
  | Done, Done | Stopped, Stopped | Stuck, Stuck | Crashed, Crashed => true
  | _, _ => false
  end.

Inductive stepres := SCont (st : hstate) (e : entry) | SStop (st : hstate) (e : entry) | SCrash.

Definition do_report (st : hstate) (id : nat) (s : setting) (step : nat) : stepres :=
  match run id s with
  | None => SCrash
  | Some tr =>
      match report st s tr with
      | None => SCrash
      | Some st1 =>
          let st2 := assess st1 tr in
          if should_stop sm st2 step then SStop st2 (id, s, tr) else SCont st2 (id, s, tr)
      end
  end.

(* result: (status, final state, reported entries in order, next submission number) *)
Definition result := (status * hstate * list entry * nat)%type.

(* _gen_results consumed by _search: n = remaining repeats, k = submission counter *)
Fixpoint serial (n k step : nat) (st : hstate) (trace : list entry) : result :=
  match n with
  | 0 => (Done, st, trace, k)
  | S n' =>
      let s := get_setting k (h_optlib st) in
      match do_report st k s step with
      | SCrash => (Crashed, st, trace, S k)
      | SStop st2 e => (Stopped, st2, trace ++ [e], S k)
      | SCont st2 e => serial n' (S k) (S step) st2 (trace ++ [e])
      end
  end.

(* ---- parallel ---- *)
Variable pre_dispatch : nat.
Variable sched : nat -> list nat -> list bool.
   (* scheduler oracle: at the scan that precedes the step-th report, which of the
      in-flight futures (given by submission number, in list order) answer done() = True *)

Fixpoint first_true (l : list bool) : option nat :=
  match l with
  | [] => None
  | b :: l' => if b then Some 0 else option_map S (first_true l')
  end.

Fixpoint remove_nth {A} (i : nat) (l : list A) : list A :=
  match l, i with
  | [], _ => []
  | _ :: l', 0 => l'
  | x :: l', S i' => x :: remove_nth i' l'
  end.

Definition fut := (nat * setting)%type.

(* _get_and_report_next_future: for i in range(len(self._futures)): if future.done(): del ...[i] *)
Definition pick (flags : list bool) (futs : list fut) : option (fut * list fut) :=
  match first_true (firstn (length futs) flags) with
  | None => None                                   (* nothing done: the code keeps polling *)
  | Some i =>
      match nth_error futs i with
      | Some x => Some (x, remove_nth i futs)
      | None => None
      end
  end.

(* `while self._futures: yield self._get_and_report_next_future()` *)
Fixpoint drain (fuel step : nat) (st : hstate) (futs : list fut) (trace : list entry) (k : nat) : result :=
  match futs, fuel with
  | [], _ => (Done, st, trace, k)
  | _, 0 => (Done, st, trace, k)
  | _, S fuel' =>
      match pick (sched step (map fst futs)) futs with
      | None => (Stuck, st, trace, k)
      | Some ((id, s), rest) =>
          match do_report st id s step with
          | SCrash => (Crashed, st, trace, k)
          | SStop st2 e => (Stopped, st2, trace ++ [e], k)        (* break; _maybe_cancel_futures *)
          | SCont st2 e => drain fuel' (S step) st2 rest (trace ++ [e]) k
          end
      end
  end.

(* _gen_results_parallel consumed by _search *)
Fixpoint par (n k step : nat) (st : hstate) (futs : list fut) (trace : list entry) : result :=
  match n with
  | 0 => drain (length futs) step st futs trace k
  | S n' =>
      let s := get_setting k (h_optlib st) in
      let futs' := futs ++ [(k, s)] in
      if Nat.leb pre_dispatch (length futs') then
        match pick (sched step (map fst futs')) futs' with
        | None => (Stuck, st, trace, S k)
        | Some ((id, s'), rest) =>
            match do_report st id s' step with
            | SCrash => (Crashed, st, trace, S k)
            | SStop st2 e => (Stopped, st2, trace ++ [e], S k)
            | SCont st2 e => par n' (S k) (S step) st2 rest (trace ++ [e])
            end
        end
      else par n' (S k) step st futs' trace
  end.

(* what is left in self._futures when the search is over: nothing after a completed search
   (drained) or a stop (_maybe_cancel_futures pops and cancels everything); after an exception
   escaped (a raising trial with on_trial_error='raise', a KeyError in the report) the futures
   that were in flight stay in the list -- _maybe_cancel_futures is never reached *)
Fixpoint drain_pending (fuel step : nat) (st : hstate) (futs : list fut) : list fut :=
  match futs, fuel with
  | [], _ => []
  | _, 0 => []
  | _, S fuel' =>
      match pick (sched step (map fst futs)) futs with
      | None => futs
      | Some ((id, s), rest) =>
          match do_report st id s step with
          | SCrash => rest
          | SStop _ _ => []
          | SCont st2 _ => drain_pending fuel' (S step) st2 rest
          end
      end
  end.

Fixpoint par_pending (n k step : nat) (st : hstate) (futs : list fut) : list fut :=
  match n with
  | 0 => drain_pending (length futs) step st futs
  | S n' =>
      let s := get_setting k (h_optlib st) in
      let futs' := futs ++ [(k, s)] in
      if Nat.leb pre_dispatch (length futs') then
        match pick (sched step (map fst futs')) futs' with
        | None => futs'
        | Some ((id, s'), rest) =>
            match do_report st id s' step with
            | SCrash => rest
            | SStop _ _ => []
            | SCont st2 _ => par_pending n' (S k) (S step) st2 rest
            end
        end
      else par_pending n' (S k) step st futs'
  end.

(* one parallel search() on an optimizer object whose self._futures holds `leftover`:
   _gen_results_parallel begins with `self._futures = []` (reset = true is the code; the
   variant without the reset is kept to state why it is needed) *)
Definition par_search (reset : bool) (leftover : list fut) (n k : nat) (st : hstate) : result :=
  par n k 0 st (if reset then [] else leftover) [].
Definition par_search_pending (reset : bool) (leftover : list fut) (n k : nat) (st : hstate) : list fut :=
  par_pending n k 0 st (if reset then [] else leftover).

End Search.

Arguments mkH {T}. Arguments init_state {T}.
Arguments h_best_score {T}. Arguments h_best {T}. Arguments h_tsb {T}. Arguments h_methods {T}.
Arguments h_params {T}. Arguments h_flops {T}. Arguments h_write {T}. Arguments h_size {T}.
Arguments h_scores {T}. Arguments h_optlib {T}.
Arguments best_score_of {T}. Arguments best_flops {T}.
Arguments e_id {T}. Arguments e_setting {T}. Arguments e_trial {T}.
Arguments SCont {T}. Arguments SStop {T}. Arguments SCrash {T}.

(* HyperOptimizer.parallel (setter): self.pre_dispatch = max(num_workers + 4, int(1.2 * num_workers))
   (int(1.2 * n) = 12 n // 10 for every n below 10^5, checked in docs/C08.md) *)
Definition pre_dispatch_of (nw : nat) : nat := Nat.max (nw + 4) (12 * nw / 10).

(* ------------------------------------------------------------------ *)
(* declarative companion used in statements and by the correspondence:
   index of the first strictly smallest score below +inf *)
Fixpoint argmin_from (cur : pyf) (curi : option nat) (i : nat) (l : list pyf) : option nat :=
  match l with
  | [] => curi
  | x :: l' => if flt x cur then argmin_from x (Some i) (S i) l' else argmin_from cur curi (S i) l'
  end.
Definition argmin_first (l : list pyf) : option nat := argmin_from PInf None 0 l.

(* table lookups used by the correspondence to feed recorded oracles to the model *)
Definition tbl {A} (l : list A) (d : A) (k : nat) : A := nth k l d.

(* observation of a final state compared with the real optimizer *)
Definition observe {T} (st : hstate T) :=
  (h_best_score st, (option_map (fun b => (t_tree (fst b), (score_of (fst b), (t_flops (fst b), (t_write (fst b),
     (t_size (fst b), snd b)))))) (h_best st),
   (h_tsb st, (h_methods st, (h_params st, (h_flops st, (h_write st, (h_size st, (h_scores st, h_optlib st))))))))).

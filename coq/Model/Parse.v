(* Parse.v -- executable model of cotengra's einsum front end (C12).
   MODEL FILE: definitions only, no proofs (lemmas live in Proofs/ParseFacts.v).

   Python strings are lists of CODE POINTS (nat): 'a' = 97, 'A' = 65, ',' = 44,
   '-' = 45, '.' = 46, '>' = 62, ' ' = 32.  Nothing is pre-lexed: str.split("->"),
   str.split(","), str.count("."), "..." in term, str.replace("...", r),
   sorted(set(s)) get small faithful definitions below and the parsers of
   cotengra/utils.py are written on top of them statement by statement.  In
   particular a blank is just another character for cotengra -- which is exactly
   how finding 12(a) arises.

   Part 1  Python string primitives
   Part 2  utils.py: get_symbol, get_symbol_map, check_ellipsis, find_output_str,
           parse_equation_ellipses, convert_from_interleaved, parse_einsum_input,
           eq_to_inputs_output, inputs_output_to_eq, find_output_from_inputs,
           canonicalize_inputs, shapes_inputs_to_size_dict
   Part 3  interface.py: normalize_input, the front half of einsum/array_contract,
           the single-operand fast paths of _build_expression, ncon
   Part 4  NumpySpec: numpy.einsum's documented parsing rules, written
           independently on a token stream (the specification)
   Part 5  glue used by the theorems (renaming of broadcast labels, rendering of
           structured equations, tiny positional-array semantics) *)
From Ctg Require Import Base.

Definition str := list nat.
Definition shape := list Z.

Definition c_space := 32.
Definition c_comma := 44.
Definition c_dash := 45.
Definition c_dot := 46.
Definition c_gt := 62.

(* ================================================================== *)
(* Part 1: Python string / list primitives                             *)

(* s.count(x) for a single character / list.count *)
Fixpoint count (x : nat) (l : list nat) : nat :=
  match l with
  | [] => 0
  | y :: r => (if Nat.eqb y x then 1 else 0) + count x r
  end.

Definition cons_head (x : nat) (ls : list str) : list str :=
  match ls with
  | h :: t => (x :: h) :: t
  | [] => [[x]]
  end.

(* s.split(c) for a one-character separator: never returns the empty list *)
Fixpoint split_char (c : nat) (s : str) : list str :=
  match s with
  | [] => [[]]
  | x :: r => if Nat.eqb x c then [] :: split_char c r else cons_head x (split_char c r)
  end.

(* s.split("->"): leftmost non-overlapping occurrences of the two-character separator *)
Fixpoint split_arrow (s : str) : list str :=
  match s with
  | [] => [[]]
  | x :: r =>
    match r with
    | y :: r' => if Nat.eqb x c_dash && Nat.eqb y c_gt then [] :: split_arrow r'
                 else cons_head x (split_arrow r)
    | [] => [[x]]
    end
  end.

Definition dots3 (x y z : nat) : bool := Nat.eqb x c_dot && Nat.eqb y c_dot && Nat.eqb z c_dot.

(* "..." in s *)
Fixpoint has_ell (s : str) : bool :=
  match s with
  | [] => false
  | x :: r => (match r with y :: z :: _ => dots3 x y z | _ => false end) || has_ell r
  end.

(* s.replace("...", rep): leftmost non-overlapping occurrences *)
Fixpoint replace_ell (rep : str) (s : str) : str :=
  match s with
  | [] => []
  | x :: r =>
    match r with
    | y :: z :: r'' => if dots3 x y z then rep ++ replace_ell rep r'' else x :: replace_ell rep r
    | _ => x :: replace_ell rep r
    end
  end.

(* sep.join(parts) *)
Fixpoint join (sep : str) (parts : list str) : str :=
  match parts with
  | [] => []
  | [p] => p
  | p :: rest => p ++ sep ++ join sep rest
  end.

(* sorted(...) of characters / ints: by code point *)
Definition sort_nat (l : list nat) : list nat := sort_by Nat.leb l.

(* l[z:] with Python's treatment of negative / too large start *)
Definition slice_from {A} (z : Z) (l : list A) : list A :=
  let n := Z.of_nat (length l) in
  let start := if (z <? 0)%Z then Z.max 0 (n + z) else Z.min z n in
  skipn (Z.to_nat start) l.

(* tuple.index / list.index: None = ValueError *)
Fixpoint index_all (term : list nat) (out : list nat) : option (list nat) :=
  match out with
  | [] => Some []
  | o :: r => match find_pos o term, index_all term r with
              | Some p, Some ps => Some (p :: ps)
              | _, _ => None
              end
  end.

(* dict[k] = v on a  key -> Z  dictionary (overwrite keeps the position) *)
Fixpoint zset (j : nat) (v : Z) (d : sizes) : sizes :=
  match d with
  | [] => [(j, v)]
  | (k, w) :: d' => if Nat.eqb k j then (k, v) :: d' else (k, w) :: zset j v d'
  end.
Fixpoint zlook (j : nat) (d : sizes) : option Z :=
  match d with
  | [] => None
  | (k, w) :: d' => if Nat.eqb k j then Some w else zlook j d'
  end.

(* ================================================================== *)
(* Part 2: cotengra/utils.py                                           *)

(* _einsum_symbols_base = "abc...zABC...Z" *)
Definition symbols_base : str :=
  map (fun i => 97 + i) (seq 0 26) ++ map (fun i => 65 + i) (seq 0 26).

(* get_symbol(i): 52 letters, then chr(i + 140), skipping the surrogates
   (i + 140 >= 55296  <->  (i + 140) / 256 >= 216) *)
Definition get_symbol (i : nat) : nat :=
  if i <? 52 then nth i symbols_base 0
  else let j := i + 140 in
       if 216 <=? j / 256 then j + 2048 else j.

(* check_ellipsis(term): Some true / Some false / None = raises ValueError *)
Definition check_ellipsis (term : str) : option bool :=
  let num_dots := count c_dot term in
  if Nat.eqb num_dots 0 then Some false
  else if Nat.eqb num_dots 3 then (if has_ell term then Some true else None)
  else None.

(* find_output_str(lhs):
     tmp_lhs = lhs.replace(",", "")
     "".join(s for s in sorted(set(tmp_lhs)) if tmp_lhs.count(s) == 1) *)
Definition find_output_str (lhs : str) : str :=
  let tmp_lhs := filter (fun x => negb (Nat.eqb x c_comma)) lhs in
  filter (fun s => Nat.eqb (count s tmp_lhs) 1) (sort_nat (unique tmp_lhs)).

(* the `while len(ellipses_inds) < req: ix = get_symbol(c); if ix not in used: append; c += 1`
   loop: the first req symbols of get_symbol(0), get_symbol(1), ... that are not used.
   get_symbol is injective, so at most |used| candidates are skipped and the loop
   stops within req + |used| iterations (fresh_symbols_length in ParseFacts.v). *)
Definition fresh_symbols (req : nat) (used : list nat) : str :=
  firstn req (filter (fun s => negb (memb s used)) (map get_symbol (seq 0 (req + length used)))).

(* first pass of the ellipsis branch, one term:
     if check_ellipsis(term): replacements[i] = len(shapes[i]) - (len(term) - 3)
   None = check_ellipsis raised; Some None = no ellipsis; Some (Some ne) *)
Definition ell_need (term : str) (sh : shape) : option (option Z) :=
  match check_ellipsis term with
  | None => None
  | Some false => Some None
  | Some true => Some (Some (Z.of_nat (length sh) - (Z.of_nat (length term) - 3))%Z)
  end.

Fixpoint ell_needs (inputs : list str) (shapes : list shape) : option (list (option Z)) :=
  match inputs, shapes with
  | t :: ts, s :: ss =>
    match ell_need t s, ell_needs ts ss with
    | Some n, Some ns => Some (n :: ns)
    | _, _ => None
    end
  | _, _ => Some []
  end.

Fixpoint somes {A} (l : list (option A)) : list A :=
  match l with
  | [] => []
  | Some a :: r => a :: somes r
  | None :: r => somes r
  end.

(* max(replacements.values()): None = ValueError on an empty dict *)
Definition zmax_values (l : list Z) : option Z :=
  match l with
  | [] => None
  | v :: vs => Some (fold_left Z.max vs v)
  end.

(* second pass: inputs[i] = inputs[i].replace("...", "".join(ellipses_inds[req - ne:])) *)
Definition expand_term (req : Z) (ellipses_inds : str) (term : str) (need : option Z) : str :=
  match need with
  | Some ne => replace_ell (slice_from (req - ne)%Z ellipses_inds) term
  | None => term
  end.

Definition expand_terms (req : Z) (ellipses_inds : str) (inputs : list str) (needs : list (option Z)) : list str :=
  map (fun tn => expand_term req ellipses_inds (fst tn) (snd tn)) (combine inputs needs).

(* the symbols chosen for the ellipsis dimensions of an equation *)
Definition ellipses_inds_of (inputs : list str) (needs : list (option Z)) : option (Z * str) :=
  match zmax_values (somes needs) with
  | None => None
  | Some req => Some (req, fresh_symbols (Z.to_nat req) (concat inputs))
  end.

(* parse_equation_ellipses(eq, shapes, tuples=True); None = raises.
   fix_outell = false is the code as pinned; true is the code with
   proposed_fixes/C12_output-ellipsis-only.patch applied (see `fixes` below). *)
Definition parse_equation_ellipses_v (fix_outell : bool) (eq : str) (shapes : list shape) : option (list str * str) :=
  let parts := split_arrow eq in
  let lhs := hd [] parts in
  let rhs := tl parts in
  let inputs := split_char c_comma lhs in
  if negb (Nat.eqb (length inputs) (length shapes)) then None
  else if memb c_dot lhs then
    match ell_needs inputs shapes with
    | None => None
    | Some needs =>
      match ellipses_inds_of inputs needs with
      | None => None
      | Some (req, ellipses_inds) =>
        let inputs' := expand_terms req ellipses_inds inputs needs in
        match rhs with
        | output :: _ =>
          match check_ellipsis output with
          | None => None
          | Some true => Some (inputs', replace_ell ellipses_inds output)
          | Some false => Some (inputs', output)
          end
        | [] => Some (inputs', ellipses_inds ++ find_output_str lhs)
        end
      end
    end
  else
    match rhs with
    | output :: _ =>
      if fix_outell then
        match check_ellipsis output with
        | None => None
        | Some true => Some (inputs, replace_ell [] output)
        | Some false => Some (inputs, output)
        end
      else Some (inputs, output)
    | [] => Some (inputs, find_output_str lhs)
    end.
Definition parse_equation_ellipses := parse_equation_ellipses_v false.

(* the tuples=False form: (",".join(inputs), output) *)
Definition parse_equation_ellipses_str (eq : str) (shapes : list shape) : option (str * str) :=
  match parse_equation_ellipses eq shapes with
  | Some (ins, out) => Some (join [c_comma] ins, out)
  | None => None
  end.

(* interleaved sublists: integer (any hashable) labels and Ellipsis *)
Inductive ilab := IL (k : nat) | IE.
Definition ilab_eqb (a b : ilab) : bool :=
  match a, b with
  | IL x, IL y => Nat.eqb x y
  | IE, IE => true
  | _, _ => false
  end.
#[export] Instance Eqb_ilab : Eqb ilab := ilab_eqb.

Fixpoint sm_get (m : list (ilab * str)) (x : ilab) : option str :=
  match m with
  | [] => None
  | (k, v) :: m' => if ilab_eqb k x then Some v else sm_get m' x
  end.

(* get_symbol_map(inputs): state = (symbol_map, c) *)
Definition sm_step (st : list (ilab * str) * nat) (ind : ilab) : list (ilab * str) * nat :=
  let '(m, c) := st in
  match sm_get m ind with
  | Some _ => st
  | None => match ind with
            | IE => (m ++ [(IE, [c_dot; c_dot; c_dot])], c)
            | IL _ => (m ++ [(ind, [get_symbol c])], S c)
            end
  end.
Definition get_symbol_map (inputs : list (list ilab)) : list (ilab * str) :=
  fst (fold_left (fun st term => fold_left sm_step term st) inputs ([], 0)).

(* "".join(symbol_map[ix] for ix in term): None = KeyError *)
Fixpoint sm_term (m : list (ilab * str)) (term : list ilab) : option str :=
  match term with
  | [] => Some []
  | x :: r => match sm_get m x, sm_term m r with
              | Some s, Some t => Some (s ++ t)
              | _, _ => None
              end
  end.
Fixpoint sm_terms (m : list (ilab * str)) (terms : list (list ilab)) : option (list str) :=
  match terms with
  | [] => Some []
  | t :: r => match sm_term m t, sm_terms m r with
              | Some s, Some ss => Some (s :: ss)
              | _, _ => None
              end
  end.

(* find_output_from_inputs(inputs): state = (appeared, once) *)
Fixpoint remove_first (x : nat) (l : list nat) : list nat :=
  match l with
  | [] => []
  | y :: r => if Nat.eqb y x then r else y :: remove_first x r
  end.
Definition fo_step (st : list nat * list nat) (ind : nat) : list nat * list nat :=
  let '(appeared, once) := st in
  if memb ind appeared then (appeared, remove_first ind once)   (* once.pop(ind, None) *)
  else (ind :: appeared, once ++ [ind]).                       (* once[ind] = None; appeared.add(ind) *)
Definition find_output_from_inputs (inputs : list (list nat)) : list nat :=
  snd (fold_left (fun st term => fold_left fo_step term st) inputs ([], [])).

(* which of the proposed fixes are present in the code the model stands for.  The check
   derives the flags from KNOWN_FINDINGS.txt: a finding still listed as `known:` means the
   pinned behaviour (false); once it is turned into `fixed:` the model with the patch is
   demanded of the code. *)
Record fixes := mkFx { fx_spaces : bool; fx_inter : bool; fx_outell : bool; fx_interout : bool }.
Definition no_fixes := mkFx false false false false.
Definition all_fixes := mkFx true true true true.

(* convert_from_interleaved(args) with args = a0, in0, a1, in1, ... [, out] ;
   returns the equation string (the arrays/shapes are passed through).
   fix_inter (proposed_fixes/C12_interleaved-implicit-order.patch): without an output
   sublist the output is made explicit: find_output_from_inputs(inputs) minus Ellipsis,
   .sort()ed by label, Ellipsis first if any input has one.
   fix_io (proposed_fixes/C12_interleaved-output-ellipsis-only.patch): the output sublist is
   rendered with  "..." if ix is ... else symbol_map[ix]  -- an Ellipsis of the output is never
   looked up, so one that no input carries becomes '...' (which parse_equation_ellipses, since
   the output-ellipsis-only fix, treats as zero dimensions). *)
(* "".join("..." if ix is ... else symbol_map[ix] for ix in output): None = KeyError *)
Fixpoint sm_term_out (m : list (ilab * str)) (term : list ilab) : option str :=
  match term with
  | [] => Some []
  | IE :: r => match sm_term_out m r with
               | Some t => Some ([c_dot; c_dot; c_dot] ++ t)
               | None => None
               end
  | x :: r => match sm_get m x, sm_term_out m r with
              | Some s, Some t => Some (s ++ t)
              | _, _ => None
              end
  end.
Definition ilab_enc (x : ilab) : nat := match x with IE => 0 | IL k => S k end.
Definition ilab_dec (n : nat) : ilab := match n with 0 => IE | S k => IL k end.
Definition interleaved_sorted_output (inputs : list (list ilab)) : list ilab :=
  let once := find_output_from_inputs (map (map ilab_enc) inputs) in
  let named := sort_nat (filter (fun n => negb (Nat.eqb n 0)) once) in
  map ilab_dec ((if existsb (existsb (ilab_eqb IE)) inputs then [0] else []) ++ named).

Definition convert_from_interleaved_v (fix_inter fix_io : bool) (inputs : list (list ilab)) (out : option (list ilab)) : option str :=
  let symbol_map := get_symbol_map inputs in
  match sm_terms symbol_map inputs with
  | None => None
  | Some terms =>
    let eq := join [c_comma] terms in
    match (match out with
           | Some o => Some o
           | None => if fix_inter then Some (interleaved_sorted_output inputs) else None
           end) with
    | None => Some eq
    | Some o => match (if fix_io then sm_term_out symbol_map o else sm_term symbol_map o) with
                | Some os => Some (eq ++ [c_dash; c_gt] ++ os)
                | None => None
                end
    end
  end.
Definition convert_from_interleaved := convert_from_interleaved_v false false.

(* the two call forms of einsum( *args ), arrays replaced by their shapes *)
Inductive eargs :=
| AStr (eq : str) (shapes : list shape)
| AInter (ops : list (shape * list ilab)) (out : option (list ilab)).

(* parse_einsum_input(args, shapes=True, tuples=True) -> (inputs, output, shapes) *)
Definition strip_spaces (eq : str) : str := filter (fun c => negb (Nat.eqb c c_space)) eq.
(* the equation string handed to parse_equation_ellipses *)
Definition einsum_eq_v (fx : fixes) (a : eargs) : option str :=
  match a with
  | AStr eq _ => Some (if fx_spaces fx then strip_spaces eq else eq)   (* eq = eq.replace(" ", "") *)
  | AInter ops out => convert_from_interleaved_v (fx_inter fx) (fx_interout fx) (map snd ops) out
  end.
Definition eargs_shapes (a : eargs) : list shape :=
  match a with AStr _ s => s | AInter ops _ => map fst ops end.
Definition parse_einsum_input_v (fx : fixes) (a : eargs) : option (list str * str * list shape) :=
  match einsum_eq_v fx a with
  | None => None
  | Some eq =>
    match parse_equation_ellipses_v (fx_outell fx) eq (eargs_shapes a) with
    | Some (i, o) => Some (i, o, eargs_shapes a)
    | None => None
    end
  end.
Definition parse_einsum_input := parse_einsum_input_v no_fixes.

(* eq_to_inputs_output(eq) *)
Definition eq_to_inputs_output (eq : str) : list str * str :=
  let parts := split_arrow eq in
  let lhs := hd [] parts in
  let inputs := split_char c_comma lhs in
  match tl parts with
  | o :: _ => (inputs, o)
  | [] => (inputs, find_output_str lhs)
  end.

(* ind_map = defaultdict(map(get_symbol, count()).__next__): label -> symbol, insertion ordered;
   the k-th new label receives get_symbol(k) *)
Definition imap := list (nat * nat).
Fixpoint im_look (m : imap) (x : nat) : option nat :=
  match m with
  | [] => None
  | (k, v) :: m' => if Nat.eqb k x then Some v else im_look m' x
  end.
Definition im_get (m : imap) (x : nat) : imap * nat :=
  match im_look m x with
  | Some s => (m, s)
  | None => let s := get_symbol (length m) in (m ++ [(x, s)], s)
  end.
Fixpoint im_term (m : imap) (term : list nat) : imap * list nat :=
  match term with
  | [] => (m, [])
  | x :: r => let '(m1, s) := im_get m x in
              let '(m2, ss) := im_term m1 r in (m2, s :: ss)
  end.
Fixpoint im_terms (m : imap) (terms : list (list nat)) : imap * list (list nat) :=
  match terms with
  | [] => (m, [])
  | t :: r => let '(m1, s) := im_term m t in
              let '(m2, ss) := im_terms m1 r in (m2, s :: ss)
  end.
(* {ind_map[ind]: d for ind, d in size_dict.items()} *)
Fixpoint im_sizes (m : imap) (sd : sizes) (acc : sizes) : imap * sizes :=
  match sd with
  | [] => (m, acc)
  | (k, d) :: r => let '(m1, s) := im_get m k in im_sizes m1 r (zset s d acc)
  end.

(* {ix: d for term, shape in zip(inputs, shapes) for ix, d in zip(term, shape)} *)
Definition sizes_from_shapes (inputs : list (list nat)) (shapes : list shape) : sizes :=
  fold_left (fun acc ts => fold_left (fun acc' xd => zset (fst xd) (snd xd) acc')
                                     (combine (fst ts) (snd ts)) acc)
            (combine inputs shapes) [].

(* shapes_inputs_to_size_dict(shapes, inputs): zip(chain(inputs), chain(shapes)) *)
Definition shapes_inputs_to_size_dict (shapes : list shape) (inputs : list (list nat)) : sizes :=
  fold_left (fun acc xd => zset (fst xd) (snd xd) acc) (combine (concat inputs) (concat shapes)) [].

(* canonicalize_inputs(inputs, output, shapes, size_dict) (optimize not modelled) *)
Definition canonicalize_inputs (inputs : list (list nat)) (output : option (list nat))
           (shapes : option (list shape)) (size_dict : option sizes)
  : list (list nat) * list nat * option sizes * imap :=
  let '(m1, new_inputs) := im_terms [] inputs in
  let '(m2, new_output) :=
      match output with
      | Some o => im_term m1 o
      | None => (m1, find_output_from_inputs new_inputs)
      end in
  let '(m3, new_size_dict) :=
      match size_dict with
      | Some sd => let '(m, s) := im_sizes m2 sd [] in (m, Some s)
      | None => match shapes with
                | Some shs => (m2, Some (sizes_from_shapes new_inputs shs))
                | None => (m2, None)
                end
      end in
  (new_inputs, new_output, new_size_dict, m3).

(* inputs_output_to_eq(inputs, output, canonicalize=False) *)
Definition inputs_output_to_eq (inputs : list str) (output : str) : str :=
  join [c_comma] inputs ++ [c_dash; c_gt] ++ output.
(* ... canonicalize=True: a fresh ind_map; `inputs` is rebound to a LAZY generator while
   `output = tuple(map(ind_map.__getitem__, output))` is evaluated at once, so the OUTPUT's
   labels receive their symbols first and the inputs' labels after it (when the f-string
   consumes the generator) *)
Definition inputs_output_to_eq_canon (inputs : list (list nat)) (output : list nat) : str :=
  let '(m1, out) := im_term [] output in
  let '(_, ins) := im_terms m1 inputs in
  inputs_output_to_eq ins out.

(* ================================================================== *)
(* Part 3: cotengra/interface.py                                       *)

(* normalize_input(inputs, output, size_dict, shapes, optimize, canonicalize);
   None = ValueError("Either `size_dict` or `shapes` must be given.") *)
Definition normalize_input (inputs : list (list nat)) (output : option (list nat))
           (size_dict : option sizes) (shapes : option (list shape)) (canonicalize : bool)
  : option (list (list nat) * list nat * sizes) :=
  let '(inputs1, output1, size_dict1) :=
      if canonicalize then
        let '(i, o, s, _) := canonicalize_inputs inputs output shapes size_dict in (i, o, s)
      else (inputs,
            match output with Some o => o | None => find_output_from_inputs inputs end,
            size_dict) in
  match size_dict1 with
  | Some s => Some (inputs1, output1, s)
  | None => match shapes with
            | None => None
            | Some shs => Some (inputs1, output1, shapes_inputs_to_size_dict shs inputs1)
            end
  end.

(* einsum( *args ) up to the point where a tree is searched:
   parse_einsum_input(tuples=True) -> array_contract(arrays, inputs, output) ->
   array_contract_expression(inputs, output, shapes=shapes) -> normalize_input(canonicalize=True) *)
Definition einsum_front_v (fx : fixes) (a : eargs) : option (list (list nat) * list nat * sizes) :=
  match parse_einsum_input_v fx a with
  | None => None
  | Some (inputs, output, shapes) => normalize_input inputs (Some output) None (Some shapes) true
  end.
Definition einsum_front := einsum_front_v no_fixes.

(* array_contract(arrays, inputs, output=None) front: shapes = map(shape, arrays) *)
Definition array_contract_front (inputs : list (list nat)) (output : option (list nat)) (shapes : list shape)
  : option (list (list nat) * list nat * sizes) :=
  normalize_input inputs output None (Some shapes) true.

(* _build_expression, len(inputs) == 1 fast paths *)
Inductive path1 :=
| PIdentity                      (* term == output: return the array itself *)
| PTranspose (perm : list nat)   (* len(term) == len(output): transpose(x, perm) *)
| PEinsum (eq : str)             (* einsum(eq, x) of the backend *)
| PRaise                         (* term.index raised ValueError *)
| PTree.                         (* more than one operand: contraction tree *)

Definition build_expression_path (inputs : list (list nat)) (output : list nat) : path1 :=
  match inputs with
  | [term] =>
    if list_eqb Nat.eqb term output then PIdentity
    else if Nat.eqb (length term) (length output) then
           match index_all term output with
           | Some perm => PTranspose perm
           | None => PRaise
           end
         else PEinsum (inputs_output_to_eq inputs output)
  | _ => PTree
  end.

Definition path1_eqb (a b : path1) : bool :=
  match a, b with
  | PIdentity, PIdentity => true
  | PTranspose p, PTranspose q => list_eqb Nat.eqb p q
  | PEinsum e, PEinsum f => list_eqb Nat.eqb e f
  | PRaise, PRaise => true
  | PTree, PTree => true
  | _, _ => false
  end.
#[export] Instance Eqb_path1 : Eqb path1 := path1_eqb.

(* ncon(arrays, indices): labels are Python ints (Z); output = sorted(set of negatives, reverse=True) *)
Definition zmemb (x : Z) (l : list Z) : bool := existsb (Z.eqb x) l.
Fixpoint zunique_acc (seen : list Z) (l : list Z) : list Z :=
  match l with
  | [] => []
  | x :: r => if zmemb x seen then zunique_acc seen r else x :: zunique_acc (x :: seen) r
  end.
Definition ncon_parse (indices : list (list Z)) : list (list Z) * list Z :=
  let negs := filter (fun x => (x <? 0)%Z) (concat indices) in
  (indices, sort_by (fun a b => (b <=? a)%Z) (zunique_acc [] negs)).

(* ================================================================== *)
(* Part 4: NumpySpec -- numpy.einsum's documented rules, independent of Part 2.
   - the subscripts string is a comma separated list of subscript labels, each label
     one letter [A-Za-z]; blanks between items are ignored; '...' stands for the
     broadcast dimensions of an operand; '->' switches to explicit mode;
   - implicit mode: the output is the broadcast dimensions followed by the labels
     that appear exactly once, in alphabetical (ASCII) order;
   - explicit mode: output labels must be distinct and occur in the inputs; the
     broadcast dimensions appear where the output's '...' stands (they may be
     omitted only if there are none);
   - broadcast dimensions are aligned on the right across operands and broadcast by
     numpy's rule (1 stretches); a named label must have one size everywhere;
   - interleaved form einsum(op0, sublist0, ..., [sublistout]): integer labels
     0..25 stand for 'A'..'Z', 26..51 for 'a'..'z', Ellipsis for '...'.
   The parse result names every axis: LN c (letter c) or LB k (the k-th broadcast
   dimension counted from the RIGHT, 0 = last). *)
Section NumpySpec.

Inductive tok := TL (c : nat) | TEll | TComma | TArrow.
Inductive lab := LN (c : nat) | LB (k : nat).

Definition lab_eqb (a b : lab) : bool :=
  match a, b with
  | LN x, LN y => Nat.eqb x y
  | LB x, LB y => Nat.eqb x y
  | _, _ => false
  end.

Definition is_letter (c : nat) : bool :=
  ((65 <=? c) && (c <=? 90)) || ((97 <=? c) && (c <=? 122)).

Definition ocons {A} (x : A) (o : option (list A)) : option (list A) :=
  match o with Some l => Some (x :: l) | None => None end.

Fixpoint np_lex (s : str) : option (list tok) :=
  match s with
  | [] => Some []
  | x :: r =>
    if Nat.eqb x c_space then np_lex r
    else if Nat.eqb x c_comma then ocons TComma (np_lex r)
    else if is_letter x then ocons (TL x) (np_lex r)
    else match r with
         | y :: r' =>
           if Nat.eqb x c_dash && Nat.eqb y c_gt then ocons TArrow (np_lex r')
           else match r' with
                | z :: r'' => if dots3 x y z then ocons TEll (np_lex r'') else None
                | [] => None
                end
         | [] => None
         end
  end.

Definition is_comma (t : tok) : bool := match t with TComma => true | _ => false end.
Definition is_arrow (t : tok) : bool := match t with TArrow => true | _ => false end.
Definition is_ell (t : tok) : bool := match t with TEll => true | _ => false end.

(* split a token list at a separator kind *)
Fixpoint tsplit (sep : tok -> bool) (l : list tok) : list (list tok) :=
  match l with
  | [] => [[]]
  | t :: r => if sep t then [] :: tsplit sep r
              else match tsplit sep r with
                   | h :: tl => (t :: h) :: tl
                   | [] => [[t]]
                   end
  end.

Definition letters_of (t : list tok) : list nat :=
  concat (map (fun x => match x with TL c => [c] | _ => [] end) t).
Definition n_ell (t : list tok) : nat := length (filter is_ell t).

(* [LB (n-1); ...; LB 0] *)
Definition bdims (n : nat) : list lab := map LB (rev (seq 0 n)).

Definition expand_toks (nb : nat) (t : list tok) : list lab :=
  concat (map (fun x => match x with TL c => [LN c] | TEll => bdims nb | _ => [] end) t).

(* number of broadcast dimensions of one operand; None = rejected *)
Definition np_operand_nb (t : list tok) (rank : nat) : option nat :=
  let nl := length (letters_of t) in
  match n_ell t with
  | 0 => if Nat.eqb rank nl then Some 0 else None
  | 1 => if nl <=? rank then Some (rank - nl) else None
  | _ => None
  end.

Fixpoint np_operands_nb (ts : list (list tok)) (shapes : list shape) : option (list nat) :=
  match ts, shapes with
  | [], [] => Some []
  | t :: ts', s :: ss' =>
    match np_operand_nb t (length s), np_operands_nb ts' ss' with
    | Some n, Some ns => Some (n :: ns)
    | _, _ => None
    end
  | _, _ => None      (* number of operands differs from the number of subscript lists *)
  end.

Fixpoint nodupb (l : list nat) : bool :=
  match l with
  | [] => true
  | x :: r => negb (memb x r) && nodupb r
  end.

Definition np_output (N : nat) (all_letters : list nat) (out : option (list tok)) : option (list lab) :=
  match out with
  | None =>
    Some (bdims N ++ map LN (filter (fun c => Nat.eqb (count c all_letters) 1)
                                    (sort_nat (unique all_letters))))
  | Some o =>
    let ls := letters_of o in
    if negb (nodupb ls) then None
    else if negb (forallb (fun c => memb c all_letters) ls) then None
    else match n_ell o with
         | 0 => if Nat.eqb N 0 then Some (expand_toks 0 o) else None
         | 1 => Some (expand_toks N o)
         | _ => None
         end
  end.

Definition only_labels (t : list tok) : bool :=
  forallb (fun x => match x with TL _ | TEll => true | _ => false end) t.

(* the common core: operand token lists, optional output token list, shapes *)
Definition np_core (ops : list (list tok)) (out : option (list tok)) (shapes : list shape)
  : option (list (list lab) * list lab) :=
  if negb (forallb only_labels ops) then None
  else if negb (match out with Some o => only_labels o | None => true end) then None
  else
  match np_operands_nb ops shapes with
  | None => None
  | Some nbs =>
    let N := fold_left Nat.max nbs 0 in
    let all_letters := concat (map letters_of ops) in
    match np_output N all_letters out with
    | None => None
    | Some o => Some (map (fun tn => expand_toks (snd tn) (fst tn)) (combine ops nbs), o)
    end
  end.

(* string form *)
Definition np_parse (eq : str) (shapes : list shape) : option (list (list lab) * list lab) :=
  match np_lex eq with
  | None => None
  | Some toks =>
    match tsplit is_arrow toks with
    | [lhs] => np_core (tsplit is_comma lhs) None shapes
    | [lhs; rhs] => np_core (tsplit is_comma lhs) (Some rhs) shapes
    | _ => None
    end
  end.

(* interleaved form: integer labels 0..51 *)
Definition np_ilab (x : ilab) : option tok :=
  match x with
  | IE => Some TEll
  | IL k => if k <? 26 then Some (TL (65 + k))
            else if k <? 52 then Some (TL (97 + (k - 26))) else None
  end.
Fixpoint np_sublist (l : list ilab) : option (list tok) :=
  match l with
  | [] => Some []
  | x :: r => match np_ilab x, np_sublist r with
              | Some t, Some ts => Some (t :: ts)
              | _, _ => None
              end
  end.
Fixpoint np_sublists (l : list (list ilab)) : option (list (list tok)) :=
  match l with
  | [] => Some []
  | x :: r => match np_sublist x, np_sublists r with
              | Some t, Some ts => Some (t :: ts)
              | _, _ => None
              end
  end.
Definition np_parse_inter (ops : list (shape * list ilab)) (out : option (list ilab))
  : option (list (list lab) * list lab) :=
  if Nat.eqb (length ops) 0 then None else       (* einsum needs at least one operand *)
  match np_sublists (map snd ops) with
  | None => None
  | Some ts =>
    match out with
    | None => np_core ts None (map fst ops)
    | Some o => match np_sublist o with
                | Some ot => np_core ts (Some ot) (map fst ops)
                | None => None
                end
    end
  end.

Definition np_parse_args (a : eargs) : option (list (list lab) * list lab) :=
  match a with
  | AStr eq shapes => np_parse eq shapes
  | AInter ops out => np_parse_inter ops out
  end.

(* sizes of the labels: a named label must agree everywhere; a broadcast dimension
   takes numpy's broadcast of its sizes (1 stretches) *)
Fixpoint lab_look (l : lab) (d : list (lab * Z)) : option Z :=
  match d with
  | [] => None
  | (k, v) :: d' => if lab_eqb k l then Some v else lab_look l d'
  end.
Fixpoint lab_set (l : lab) (v : Z) (d : list (lab * Z)) : list (lab * Z) :=
  match d with
  | [] => [(l, v)]
  | (k, w) :: d' => if lab_eqb k l then (k, v) :: d' else (k, w) :: lab_set l v d'
  end.
Definition np_size_step (acc : option (list (lab * Z))) (ld : lab * Z) : option (list (lab * Z)) :=
  match acc with
  | None => None
  | Some d =>
    let '(l, v) := ld in
    match lab_look l d with
    | None => Some (lab_set l v d)
    | Some w =>
      if (w =? v)%Z then Some d
      else match l with
           | LN _ => None
           | LB _ => if (w =? 1)%Z then Some (lab_set l v d)
                     else if (v =? 1)%Z then Some d else None
           end
    end
  end.
Definition np_sizes (ops : list (list lab)) (shapes : list shape) : option (list (lab * Z)) :=
  fold_left (fun acc ts => fold_left np_size_step (combine (fst ts) (snd ts)) acc)
            (combine ops shapes) (Some []).

Definition shapes_of (a : eargs) : list shape :=
  match a with AStr _ s => s | AInter ops _ => map fst ops end.

(* the shape numpy returns; None = rejected *)
Definition np_out_shape (a : eargs) : option (list Z) :=
  match np_parse_args a with
  | None => None
  | Some (ops, out) =>
    match np_sizes ops (shapes_of a) with
    | None => None
    | Some d => Some (map (fun l => match lab_look l d with Some v => v | None => 1%Z end) out)
    end
  end.

End NumpySpec.

#[export] Instance Eqb_lab : Eqb lab := lab_eqb.

(* ================================================================== *)
(* Part 5: glue for the theorems                                       *)

(* the model names the broadcast dimensions with fresh symbols E = ellipses_inds;
   LB k (k-th from the right) is E[len(E)-1-k] *)
Definition rho (E : str) (l : lab) : nat :=
  match l with
  | LN c => c
  | LB k => nth (length E - 1 - k) E 0
  end.

(* the fresh symbols the model picks for an equation (empty when there is no ellipsis) *)
Definition model_ellipses_inds (eq : str) (shapes : list shape) : str :=
  let lhs := hd [] (split_arrow eq) in
  let inputs := split_char c_comma lhs in
  match ell_needs inputs shapes with
  | Some needs => match ellipses_inds_of inputs needs with
                  | Some (_, E) => E
                  | None => []
                  end
  | None => []
  end.

(* model parse, relabelled into the specification's vocabulary, for direct comparison:
   Some true  = numpy accepts and the model means the same,
   Some false = numpy accepts, the model differs (or raises),
   None       = numpy rejects (out of scope) *)
Definition ops_eqb (a b : list (list nat) * list nat) : bool :=
  list_eqb (list_eqb Nat.eqb) (fst a) (fst b) && list_eqb Nat.eqb (snd a) (snd b).

(* interleaved: symbols are allocated by the model, so compare up to the model's own
   symbol map: LN (letter of label k) -> symbol_map[k] *)
Definition inter_letter_to_sym (inputs : list (list ilab)) (c : nat) : nat :=
  let k := if c <? 97 then c - 65 else c - 97 + 26 in
  match sm_get (get_symbol_map inputs) (IL k) with
  | Some [s] => s
  | _ => 0
  end.
Definition rho_args (a : eargs) (E : str) (l : lab) : nat :=
  match l with
  | LN c => match a with AStr _ _ => c | AInter ops _ => inter_letter_to_sym (map snd ops) c end
  | LB k => nth (length E - 1 - k) E 0
  end.

Definition agrees_args_v (fx : fixes) (a : eargs) : option bool :=
  match np_parse_args a with
  | None => None
  | Some (nops, nout) =>
    match einsum_eq_v fx a with
    | None => Some false
    | Some eq =>
      let E := model_ellipses_inds eq (eargs_shapes a) in
      let r := rho_args a E in
      match parse_equation_ellipses_v (fx_outell fx) eq (eargs_shapes a) with
      | None => Some false
      | Some mo => Some (ops_eqb mo (map (map r) nops, map r nout))
      end
    end
  end.
Definition agrees_with_numpy (eq : str) (shapes : list shape) : option bool :=
  agrees_args_v no_fixes (AStr eq shapes).
Definition agrees_with_numpy_inter (ops : list (shape * list ilab)) (out : option (list ilab)) : option bool :=
  agrees_args_v no_fixes (AInter ops out).

(* the network the front end builds is consistent with the operands: every axis of
   every operand has the size the size_dict gives to its label *)
Definition term_consistent (sd : sizes) (term : list nat) (sh : shape) : bool :=
  Nat.eqb (length term) (length sh) &&
  forallb (fun xd => match zlook (fst xd) sd with Some v => (v =? snd xd)%Z | None => false end)
          (combine term sh).
Definition front_consistent_v (fx : fixes) (a : eargs) : option bool :=
  match einsum_front_v fx a with
  | None => None
  | Some (ins, out, sd) =>
    Some (Nat.eqb (length ins) (length (eargs_shapes a)) &&
          forallb (fun ts => term_consistent sd (fst ts) (snd ts)) (combine ins (eargs_shapes a)))
  end.
Definition front_consistent := front_consistent_v no_fixes.
(* shape of the result the front end promises *)
Definition front_out_shape_v (fx : fixes) (a : eargs) : option (list Z) :=
  match einsum_front_v fx a with
  | None => None
  | Some (_, out, sd) => Some (map (fun x => match zlook x sd with Some v => v | None => 1%Z end) out)
  end.
Definition front_out_shape := front_out_shape_v no_fixes.

(* --- vocabulary of the general theorems (ParseFacts.v: string_matches_numpy ...) --- *)
(* rendering of a token list back into a string (no blanks) *)
Definition unlex1 (t : tok) : str :=
  match t with
  | TL c => [c]
  | TEll => [c_dot; c_dot; c_dot]
  | TComma => [c_comma]
  | TArrow => [c_dash; c_gt]
  end.
Definition unlex (ts : list tok) : str := concat (map unlex1 ts).
(* a label character that cannot be confused with the syntax: every letter is one, and so is
   every symbol get_symbol produces *)
Definition not_reserved (c : nat) : Prop :=
  c <> c_space /\ c <> c_comma /\ c <> c_dash /\ c <> c_dot /\ c <> c_gt.
Definition tok_ok (t : tok) : Prop := match t with TL c => not_reserved c | _ => True end.

(* sorted(set(s)) filtered by "occurs once" *)
Definition once_sorted (l : list nat) : list nat :=
  filter (fun s => Nat.eqb (count s l) 1) (sort_nat (unique l)).

(* the labels of a parsed call: letters occurring in the inputs, broadcast dimensions below |E| *)
Definition label_in (used : list nat) (E : str) (l : lab) : Prop :=
  match l with LN c => In c used | LB k => k < length E end.

(* well-formedness of the symbol map of the interleaved form: keys distinct, Ellipsis -> "...",
   labels -> one symbol get_symbol i each, distinct labels -> distinct symbols *)
Definition dots : str := [c_dot; c_dot; c_dot].
Definition sm_wf (m : list (ilab * str)) (c : nat) : Prop :=
  NoDup (map fst m) /\
  (forall x v, In (x, v) m -> match x with IE => v = dots | IL _ => exists i, i < c /\ v = [get_symbol i] end) /\
  (forall k1 k2 i, In (IL k1, [get_symbol i]) m -> In (IL k2, [get_symbol i]) m -> k1 = k2).

(* the symbol of label k *)
Definition sigma (m : list (ilab * str)) (k : nat) : nat :=
  match sm_get m (IL k) with Some [s] => s | _ => 0 end.

(* --- structured equations, for stating the theorems over ALL well-formed inputs --- *)
(* a term: letters before the ellipsis, whether there is one, letters after *)
Record sterm := mkST { st_pre : list nat; st_ell : bool; st_post : list nat }.
Definition render_term (t : sterm) : str :=
  st_pre t ++ (if st_ell t then [c_dot; c_dot; c_dot] else []) ++ st_post t.
Definition toks_term (t : sterm) : list tok :=
  map TL (st_pre t) ++ (if st_ell t then [TEll] else []) ++ map TL (st_post t).
Definition render_eq (ins : list sterm) (out : option sterm) : str :=
  join [c_comma] (map render_term ins) ++
  match out with Some o => [c_dash; c_gt] ++ render_term o | None => [] end.
Definition sterm_letters (t : sterm) : list nat := st_pre t ++ st_post t.
Definition sterm_ok (t : sterm) : bool := forallb is_letter (sterm_letters t).

(* --- a tiny positional semantics of single-operand einsum and transpose --- *)
(* arrays are functions from positions (one nat per axis) to values *)
Definition array := list nat -> Z.
(* numpy.transpose(x, perm)[p] = x[q] with q[perm[k]] = p[k] *)
Definition np_transpose (x : array) (perm : list nat) : array :=
  fun p => x (map (fun j => match find_pos j perm with Some k => nth k p 0 | None => 0 end)
                  (seq 0 (length perm))).
(* einsum 'term->output' without summed index: out[p] = x[e(term)] where e(output[k]) = p[k] *)
Definition einsum1_nosum (term output : list nat) (x : array) : array :=
  fun p => x (map (fun s => match find_pos s output with Some k => nth k p 0 | None => 0 end) term).

(* ================================================================== *)
(* Part 6: vocabulary of the value-invariance theorem (uses the shared Net.v / Einsum.v) *)
From Ctg Require Import Net Einsum.

(* a network with every label renamed by f: inputs, output and the keys of the size dictionary *)
Definition relabel_sizes (f : nat -> nat) (sd : sizes) : sizes := map (fun kv => (f (fst kv), snd kv)) sd.
Definition relabel_net (f : nat -> nat) (n : net) : net :=
  mkNet (map (map f) (inputs n)) (map f (output n)) (relabel_sizes f (szd n)).
Definition net_labels (n : net) : list nat := concat (inputs n) ++ output n ++ map fst (szd n).
Definition inj_on (f : nat -> nat) (D : list nat) : Prop :=
  forall x y, In x D -> In y D -> f x = f y -> x = y.
Definition agree_on (D : list nat) (e1 e2 : env) : Prop := forall j, In j D -> e1 j = e2 j.

(* the contraction canonicalize_inputs was asked to canonicalise *)
Definition original_net (ins0 : list (list nat)) (out0 : option (list nat))
           (shapes : option (list shape)) (sd : option sizes) : net :=
  mkNet ins0
        (match out0 with Some o => o | None => find_output_from_inputs ins0 end)
        (match sd with
         | Some sdv => sdv
         | None => match shapes with Some shs => sizes_from_shapes ins0 shs | None => [] end
         end).

(* Processor.v -- cotengra/pathfinders/path_basic.py ContractionProcessor:
   pop_node, add_node, contract_nodes, remove_ix, the four simplify_* passes, simplify,
   optimize_greedy (costmod = 1, temperature = 0: the deterministic instance),
   optimize_remaining_by_size; and the ABSTRACT machine all of them run on
   (present ids, next ssa id, ssa_path), on which processor_paths_valid is proved.
   MODEL FILE: executable definitions only. *)
From Ctg Require Export Base PathValid.

(* ------------------------------------------------------------------ *)
(* the abstract machine: which ids are present, the next id, the path   *)
Record amach := mkA { a_present : list nat; a_ssa : nat; a_path : path }.

(* every mutation of (nodes, ssa, ssa_path) in the class is one of these two:
   contract_nodes(i, j)            -> pop i, pop j, add node ssa, path += (i, j)
   simplify_single_terms on node i -> pop i,        add node ssa, path += (i,)
   None = KeyError in pop_node *)
Inductive aop := AContract (i j : nat) | ASingle (i : nat).

Definition a_step (a : amach) (o : aop) : option amach :=
  match o with
  | AContract i j =>
      if memb i (a_present a) && memb j (a_present a) && negb (Nat.eqb i j)
      then Some (mkA (remove_all [i; j] (a_present a) ++ [a_ssa a]) (S (a_ssa a)) (a_path a ++ [[i; j]]))
      else None
  | ASingle i =>
      if memb i (a_present a)
      then Some (mkA (remove_all [i] (a_present a) ++ [a_ssa a]) (S (a_ssa a)) (a_path a ++ [[i]]))
      else None
  end.
Fixpoint a_run (a : amach) (os : list aop) : option amach :=
  match os with
  | [] => Some a
  | o :: os' => match a_step a o with Some a' => a_run a' os' | None => None end
  end.
Definition a_init (n : nat) : amach := mkA (seq 0 n) n [].

(* optimize_remaining_by_size, abstractly: while more than one node is present contract
   two of them, chosen by an arbitrary oracle that must pick two distinct present ids *)
Fixpoint a_remaining (choose : list nat -> nat * nat) (fuel : nat) (a : amach) : option amach :=
  match a_present a with
  | [] | [_] => Some a
  | _ => match fuel with
         | 0 => None
         | S f => let '(i, j) := choose (a_present a) in
                  match a_step a (AContract i j) with
                  | Some a' => a_remaining choose f a'
                  | None => None
                  end
         end
  end.

(* ------------------------------------------------------------------ *)
(* the concrete processor                                               *)
Definition clegs := list (nat * nat).          (* sorted tuple of (ix, count) *)
Record cproc := mkCP {
  cp_nodes : list (nat * clegs);               (* self.nodes, insertion ordered *)
  cp_edges : list (nat * list nat);            (* self.edges: ix -> ordered set of node ids *)
  cp_app : list nat;                           (* self.appearances *)
  cp_sizes : list Z;                           (* self.sizes *)
  cp_ssa : nat;
  cp_path : path;
  cp_ok : bool                                 (* false once a KeyError would have been raised *)
}.

Definition app_of (c : cproc) (ix : nat) : nat := nth ix (cp_app c) 0.
Definition size_ix (c : cproc) (ix : nat) : Z := nth ix (cp_sizes c) 1%Z.

Fixpoint nget {V} (i : nat) (d : list (nat * V)) : option V :=
  match d with
  | [] => None
  | (k, v) :: d' => if Nat.eqb k i then Some v else nget i d'
  end.
Fixpoint ndel {V} (i : nat) (d : list (nat * V)) : list (nat * V) :=
  match d with
  | [] => []
  | (k, v) :: d' => if Nat.eqb k i then d' else (k, v) :: ndel i d'
  end.
Fixpoint nset_ {V} (i : nat) (v : V) (d : list (nat * V)) : list (nat * V) :=
  match d with
  | [] => [(i, v)]
  | (k, w) :: d' => if Nat.eqb k i then (k, v) :: d' else (k, w) :: nset_ i v d'
  end.

(* pop_node: edges[ix].pop(i); delete the entry when empty; a missing ix is skipped *)
Definition edges_drop (i : nat) (edges : list (nat * list nat)) (ix : nat) : list (nat * list nat) :=
  match nget ix edges with
  | None => edges
  | Some ns => let ns' := filter (fun k => negb (Nat.eqb k i)) ns in
               match ns' with [] => ndel ix edges | _ => nset_ ix ns' edges end
  end.
Definition pop_node (i : nat) (c : cproc) : cproc * clegs :=
  match nget i (cp_nodes c) with
  | None => (mkCP (cp_nodes c) (cp_edges c) (cp_app c) (cp_sizes c) (cp_ssa c) (cp_path c) false, [])
  | Some lg =>
      (mkCP (ndel i (cp_nodes c)) (fold_left (edges_drop i) (map fst lg) (cp_edges c))
            (cp_app c) (cp_sizes c) (cp_ssa c) (cp_path c) (cp_ok c), lg)
  end.
(* add_node: edges.setdefault(ix, {})[i] = None *)
Definition edges_add (i : nat) (edges : list (nat * list nat)) (ix : nat) : list (nat * list nat) :=
  match nget ix edges with
  | None => edges ++ [(ix, [i])]
  | Some ns => if memb i ns then edges else nset_ ix (ns ++ [i]) edges
  end.
Definition add_node (lg : clegs) (c : cproc) : cproc * nat :=
  let i := cp_ssa c in
  (mkCP (cp_nodes c ++ [(i, lg)]) (fold_left (edges_add i) (map fst lg) (cp_edges c))
        (cp_app c) (cp_sizes c) (S i) (cp_path c) (cp_ok c), i).
Definition push_path (s : step) (c : cproc) : cproc :=
  mkCP (cp_nodes c) (cp_edges c) (cp_app c) (cp_sizes c) (cp_ssa c) (cp_path c ++ [s]) (cp_ok c).

(* a KeyError would have been raised here *)
Definition set_bad (c : cproc) : cproc :=
  mkCP (cp_nodes c) (cp_edges c) (cp_app c) (cp_sizes c) (cp_ssa c) (cp_path c) false.

(* compute_contracted: sorted simultaneous iteration *)
Fixpoint compute_contracted (app : nat -> nat) (il : clegs) : clegs -> clegs :=
  fix go (jl : clegs) : clegs :=
    match il, jl with
    | [], _ => jl
    | _, [] => il
    | (iix, ic) :: il', (jix, jc) :: jl' =>
        if Nat.ltb iix jix then (iix, ic) :: compute_contracted app il' jl
        else if Nat.ltb jix iix then (jix, jc) :: go jl'
        else let ijc := ic + jc in
             if Nat.eqb ijc (app iix) then compute_contracted app il' jl'
             else (iix, ijc) :: compute_contracted app il' jl'
    end.

Definition compute_size (c : cproc) (lg : clegs) : Z :=
  fold_left (fun s kv => (s * size_ix c (fst kv))%Z) lg 1%Z.

Definition contract_nodes (i j : nat) (new_legs : option clegs) (c : cproc) : cproc * nat :=
  let '(c1, il) := pop_node i c in
  let '(c2, jl) := pop_node j c1 in
  let nl := match new_legs with Some l => l | None => compute_contracted (app_of c) il jl end in
  let '(c3, k) := add_node nl c2 in
  (push_path [i; j] c3, k).

(* remove_ix: for node in self.edges.pop(ix): self.nodes[node] = ...   (KeyError if node is gone) *)
Definition remove_ix (ix : nat) (c : cproc) : cproc :=
  match nget ix (cp_edges c) with
  | None => set_bad c                               (* self.edges.pop(ix) *)
  | Some ns =>
      mkCP (fold_left (fun nd node =>
                         match nget node nd with
                         | Some lg => nset_ node (filter (fun kv => negb (Nat.eqb (fst kv) ix)) lg) nd
                         | None => nd
                         end) ns (cp_nodes c))
           (ndel ix (cp_edges c)) (cp_app c) (cp_sizes c) (cp_ssa c) (cp_path c)
           (cp_ok c && forallb (fun node => match nget node (cp_nodes c) with Some _ => true | None => false end) ns)
  end.
Definition simplify_batch (c : cproc) : cproc :=
  let rm := map fst (filter (fun e => Nat.leb (length (cp_nodes c)) (length (snd e))) (cp_edges c)) in
  fold_left (fun c' ix => remove_ix ix c') rm c.

(* is_simplifiable / compute_simplified *)
Fixpoint is_simplifiable_go (app : nat -> nat) (prev : option nat) (lg : clegs) : bool :=
  match lg with
  | [] => false
  | (ix, cnt) :: lg' =>
      if (match prev with Some p => Nat.eqb ix p | None => false end) || Nat.eqb cnt (app ix) then true
      else is_simplifiable_go app (Some ix) lg'
  end.
Definition is_simplifiable (app : nat -> nat) (lg : clegs) : bool := is_simplifiable_go app None lg.
Fixpoint compute_simplified_go (app : nat -> nat) (cur_ix cur_cnt : nat) (lg : clegs) : clegs :=
  match lg with
  | [] => if Nat.eqb cur_cnt (app cur_ix) then [] else [(cur_ix, cur_cnt)]
  | (ix, cnt) :: lg' =>
      if Nat.eqb ix cur_ix then compute_simplified_go app cur_ix (cur_cnt + cnt) lg'
      else (if Nat.eqb cur_cnt (app cur_ix) then [] else [(cur_ix, cur_cnt)])
           ++ compute_simplified_go app ix cnt lg'
  end.
Definition compute_simplified (app : nat -> nat) (lg : clegs) : clegs :=
  match lg with
  | [] => []
  | (ix, cnt) :: lg' => compute_simplified_go app ix cnt lg'
  end.

Definition simplify_single_terms (c : cproc) : cproc :=
  fold_left (fun c' il =>
               let '(i, lg) := il in
               if is_simplifiable (app_of c) lg then
                 let '(c1, lg1) := pop_node i c' in
                 let '(c2, _) := add_node (compute_simplified (app_of c) lg1) c1 in
                 push_path [i] c2
               else c')
            (cp_nodes c) c.

(* simplify_scalars *)
Fixpoint scalars_scan (nodes : list (nat * clegs)) (sc : list nat) (j : option (nat * nat))
  : list nat * option (nat * nat) :=
  match nodes with
  | [] => (sc, j)
  | (i, lg) :: nodes' =>
      let nd := length lg in
      if Nat.eqb nd 0 then scalars_scan nodes' (sc ++ [i]) j
      else match j with
           | None => scalars_scan nodes' sc (Some (i, nd))
           | Some (_, jn) => if Nat.ltb nd jn then scalars_scan nodes' sc (Some (i, nd))
                             else scalars_scan nodes' sc j
           end
  end.
Definition simplify_scalars (c : cproc) : cproc :=
  let '(sc, j) := scalars_scan (cp_nodes c) [] None in
  match sc with
  | [] => c
  | s0 :: _ =>
      let all := match j with Some (jn, _) => sc ++ [jn] | None => sc end in
      match all with
      | [] => c
      | a :: rest => fst (fold_left (fun st s => let '(c', acc) := st in contract_nodes acc s None c') rest (c, a))
      end
  end.

(* simplify_hadamard; [order] = the iteration order of the Python set `hadamards` *)
Definition keyset (lg : clegs) : list nat := unique (map fst lg).
Fixpoint hadamard_group (fuel : nat) (grp : list nat) (c : cproc) : cproc :=
  match fuel with
  | 0 => c
  | S f =>
      match rev grp with
      | i :: j :: rest_rev =>                         (* i = group.pop(); j = group.pop() *)
          let '(c', k) := contract_nodes i j None c in
          hadamard_group f (rev rest_rev ++ [k]) c'
      | _ => c
      end
  end.
Definition simplify_hadamard (order : list (list nat)) (c : cproc) : cproc :=
  let nodes0 := cp_nodes c in
  fold_left (fun c' key =>
               let grp := map fst (filter (fun il => list_eqb Nat.eqb (keyset (snd il)) key) nodes0) in
               if Nat.ltb 1 (length grp) then hadamard_group (length grp) grp c' else c')
            order c.
(* the hadamard keys the code would find (in first-seen order): used to detect an
   order oracle that misses a group *)
Definition hadamard_keys (c : cproc) : list (list nat) :=
  let keys := map (fun il => keyset (snd il)) (cp_nodes c) in
  filter (fun k => Nat.ltb 1 (length (filter (list_eqb Nat.eqb k) keys)))
         (fold_left (fun acc k => if existsb (list_eqb Nat.eqb k) acc then acc else acc ++ [k]) keys []).

Fixpoint simplify_loop (orders : list (list (list nat))) (c : cproc) : cproc :=
  let c1 := simplify_scalars (simplify_single_terms c) in
  match orders with
  | [] => c1         (* the recorded run had no further round *)
  | o :: orders' =>
      let c2 := simplify_hadamard o c1 in
      if Nat.eqb (cp_ssa c1) (cp_ssa c2) then c2 else simplify_loop orders' c2
  end.
Definition cp_simplify (orders : list (list (list nat))) (c : cproc) : cproc :=
  simplify_loop orders (simplify_batch c).

(* ------------------------------------------------------------------ *)
(* optimize_remaining_by_size: heap of (size, id); all entries distinct, so heappop
   = minimum in lexicographic order *)
Definition zn_lt (a b : Z * nat) : bool :=
  (fst a <? fst b)%Z || ((fst a =? fst b)%Z && Nat.ltb (snd a) (snd b)).
Fixpoint heap_min (x : Z * nat) (l : list (Z * nat)) : Z * nat :=
  match l with [] => x | y :: l' => heap_min (if zn_lt y x then y else x) l' end.
Fixpoint heap_remove (x : Z * nat) (l : list (Z * nat)) : list (Z * nat) :=
  match l with
  | [] => []
  | y :: l' => if (fst y =? fst x)%Z && Nat.eqb (snd y) (snd x) then l' else y :: heap_remove x l'
  end.
Fixpoint remaining_loop (fuel : nat) (h : list (Z * nat)) (c : cproc) : cproc :=
  match fuel with
  | 0 => c
  | S f =>
      match h with
      | x0 :: (_ :: _) as rest =>
          let a := heap_min x0 rest in
          let h1 := heap_remove a h in
          match h1 with
          | y0 :: rest1 =>
              let b := heap_min y0 rest1 in
              let h2 := heap_remove b h1 in
              let '(c', k) := contract_nodes (snd a) (snd b) None c in
              let ksize := match nget k (cp_nodes c') with Some lg => compute_size c' lg | None => 1%Z end in
              remaining_loop f ((ksize, k) :: h2) c'
          | [] => c
          end
      | _ => c
      end
  end.
Definition cp_remaining (c : cproc) : cproc :=
  match cp_nodes c with
  | [] | [_] => c
  | [(i, _); (j, _)] => fst (contract_nodes i j None c)
  | nodes => remaining_loop (length nodes) (map (fun il => (compute_size c (snd il), fst il)) nodes) c
  end.

(* ------------------------------------------------------------------ *)
(* optimize_greedy with costmod = 1.0 and temperature = 0.0:
   score = size_ab - (size_a + size_b); heap of (score, counter) *)
Record gcand := mkG { g_i : nat; g_j : nat; g_ksize : Z; g_klegs : clegs }.
Record gstate := mkGS {
  gs_c : cproc; gs_sizes : list (nat * Z); gs_queue : list (Z * nat);
  gs_cands : list (nat * gcand); gs_cnt : nat }.

Definition node_size_of (sz : list (nat * Z)) (i : nat) : Z := match nget i sz with Some v => v | None => 1%Z end.

(* [sco]: the score of the candidate with heap counter c.  None = costmod 1, temperature 0
   (size_ab - size_a - size_b); Some f = ANY scores (temperature > 0: gumbel noise, any costmod).
   self.nodes[i], self.nodes[j], node_sizes[i], node_sizes[j] raise KeyError when missing *)
Definition g_push (sco : option (nat -> Z)) (i j : nat) (st : gstate) : gstate :=
  let c := gs_c st in
  match nget i (cp_nodes c), nget j (cp_nodes c), nget i (gs_sizes st), nget j (gs_sizes st) with
  | Some il, Some jl, Some si, Some sj =>
      let klegs := compute_contracted (app_of c) il jl in
      let ksize := compute_size c klegs in
      let score := match sco with Some f => f (gs_cnt st) | None => (ksize - (si + sj))%Z end in
      mkGS c (gs_sizes st) (gs_queue st ++ [(score, gs_cnt st)])
           (gs_cands st ++ [(gs_cnt st, mkG i j ksize klegs)]) (S (gs_cnt st))
  | _, _, _, _ => mkGS (set_bad c) (gs_sizes st) (gs_queue st) (gs_cands st) (gs_cnt st)
  end.

Fixpoint combinations2 (l : list nat) : list (nat * nat) :=
  match l with
  | [] => []
  | x :: l' => map (fun y => (x, y)) l' ++ combinations2 l'
  end.

(* neighbors(i): for ix in nodes[i]: for j in edges[ix]: if j != i: yield j *)
Definition neighbors (c : cproc) (i : nat) : list nat :=
  match nget i (cp_nodes c) with
  | None => []
  | Some lg => flat_map (fun kv => match nget (fst kv) (cp_edges c) with
                                   | Some ns => filter (fun j => negb (Nat.eqb j i)) ns
                                   | None => []
                                   end) lg
  end.

Fixpoint greedy_loop (sco : option (nat -> Z)) (fuel : nat) (st : gstate) : gstate :=
  match fuel with
  | 0 => st
  | S f =>
      match gs_queue st with
      | [] => st
      | x0 :: rest =>
          let a := heap_min x0 rest in
          let q1 := heap_remove a (gs_queue st) in
          match nget (snd a) (gs_cands st) with
          | None => st
          | Some g =>
              let cands1 := ndel (snd a) (gs_cands st) in
              let c := gs_c st in
              match nget (g_i g) (cp_nodes c), nget (g_j g) (cp_nodes c) with
              | Some _, Some _ =>
                  let '(c', k) := contract_nodes (g_i g) (g_j g) (Some (g_klegs g)) c in
                  let st1 := mkGS c' (gs_sizes st ++ [(k, g_ksize g)]) q1 cands1 (gs_cnt st) in
                  greedy_loop sco f (fold_left (fun s l => g_push sco k l s) (neighbors c' k) st1)
              | _, _ => greedy_loop sco f (mkGS c (gs_sizes st) q1 cands1 (gs_cnt st))
              end
          end
      end
  end.
Definition cp_greedy_sc (sco : option (nat -> Z)) (c : cproc) : cproc :=
  let sizes := map (fun il => (fst il, compute_size c (snd il))) (cp_nodes c) in
  let st0 := mkGS c sizes [] [] 0 in
  let pairs := flat_map (fun e => combinations2 (snd e)) (cp_edges c) in
  let st1 := fold_left (fun s p => g_push sco (fst p) (snd p) s) pairs st0 in
  let n := length (cp_nodes c) in
  gs_c (greedy_loop sco (2000 + 200 * n * n) st1).
Definition cp_greedy (c : cproc) : cproc := cp_greedy_sc None c.

(* the abstract view of a concrete processor *)
Definition abs_of (c : cproc) : amach := mkA (map fst (cp_nodes c)) (cp_ssa c) (cp_path c).

(* ------------------------------------------------------------------ *)
(* ContractionProcessor.__init__ for inputs whose index labels are already numbered by first
   appearance (that numbering is self.indmap; the harness applies it) *)
Fixpoint ins_leg (x : nat * nat) (l : clegs) : clegs :=
  match l with
  | [] => [x]
  | y :: l' => if Nat.leb (fst x) (fst y) then x :: l else y :: ins_leg x l'
  end.
Definition sort_legs (t : list nat) : clegs := fold_right ins_leg [] (map (fun ix => (ix, 1)) t).   (* legs.sort() *)
Definition count_ix (ix : nat) (l : list nat) : nat := length (filter (Nat.eqb ix) l).
Definition cp_init (inputs : list (list nat)) (output : list nat) (sizes : list Z) : cproc :=
  let n := length inputs in
  let ixs := unique (concat inputs) in
  mkCP (enumerate_from 0 (map sort_legs inputs))
       (map (fun ix => (ix, filter (fun i => memb ix (nth i inputs [])) (seq 0 n))) ixs)
       (map (fun ix => count_ix ix (concat inputs ++ output)) (seq 0 (length ixs)))
       sizes n [] true.

(* ------------------------------------------------------------------ *)
(* optimize_optimal: for where in self.subgraphs(): optimize_optimal_connected(where); the
   dynamic program is an ORACLE here (proved in Proofs/OptimalFacts.v, property C09): it returns
   a tree over the positions of [where]; lines 742-747 replay its bit path, i.e. contract the
   tree in post-order through termmap *)
Fixpoint cp_apply_tree (wh : list nat) (t : tree) (c : cproc) : cproc * nat :=
  match t with
  | Leaf p => (c, nth p wh 0)                       (* termmap[1 << p] = where[p] *)
  | Node l r =>
      let '(c1, i) := cp_apply_tree wh l c in
      let '(c2, j) := cp_apply_tree wh r c1 in
      contract_nodes i j None c2                    (* termmap[si | sj] = k *)
  end.
Definition cp_optimal (comps : list (list nat * tree)) (c : cproc) : cproc :=
  fold_left (fun c' wt => fst (cp_apply_tree (fst wt) (snd wt) c')) comps c.

(* Optimal.v -- the 'optimal' pathfinder of cotengra/pathfinders/path_basic.py:
     ContractionProcessor.__init__            -> proc_init
     compute_con_cost_{flops,max,size,write,combo,limit}  -> con_cost (one scan, six wrappers)
     ContractionProcessor.optimize_optimal_connected      -> dp_init, try_pair, level_pass,
                                                            full_pass, dp_loop, replay_bitpath
   and, independently of the DP, the SPECIFICATION: binary contraction trees over a leaf
   set (bitmask), their score under each objective defined from index *sets*
   (cnt / surv), outer-product-freeness, and an exhaustive enumerator of all
   (2n-3)!! trees.
   MODEL FILE: executable definitions only, no proofs (lemmas in Proofs/OptimalFacts.v). *)
From Ctg Require Export Base Net.
From Coq Require Export NArith.
Open Scope nat_scope.

(* ------------------------------------------------------------------ *)
(* ContractionProcessor.__init__ (lines 330-372): indices are renumbered by first
   appearance over the inputs; a node's legs are the sorted list of (ix, 1), one
   entry per occurrence; appearances counts occurrences on inputs plus output. *)
Record proc := mkProc { p_nodes : list legs; p_app : list nat; p_sizes : list Z }.

Definition occn (x : nat) (l : list nat) : nat := length (filter (Nat.eqb x) l).
Definition ix_of (ord : list ix) (lab : ix) : nat :=
  match find_pos lab ord with Some p => p | None => 0 end.
Definition leg_le (a b : nat * nat) : bool :=
  (fst a <? fst b) || ((fst a =? fst b) && (snd a <=? snd b)).
Definition proc_init (n : net) : proc :=
  let ord := unique (concat (inputs n)) in
  mkProc (map (fun term => sort_by leg_le (map (fun lab => (ix_of ord lab, 1)) term)) (inputs n))
         (map (fun lab => occn lab (concat (inputs n)) + occn lab (output n)) ord)
         (map (fun lab => zget lab (szd n)) ord).

(* ------------------------------------------------------------------ *)
(* the six objectives ("flops", "max", "size", "write", "combo[-f]", "limit[-f]") *)
(* OComboQ / OLimitQ num den: a custom factor k = num/den (a float in Python: 'combo-0.5', 'limit-2.5').
   The model keeps exact integers by scaling every score by den (> 0):
     den * (flops + k * size) = den * flops + num * size,   den * max(flops, k * size) = max(den * flops, num * size);
   all comparisons of the DP (sieve against den * cost_cap, strict < replacement) are scale invariant,
   so the tables, the call sequence and the returned path are those of the float run. *)
Inductive objective := OFlops | OMax | OSize | OWrite | OCombo (f : Z) | OLimit (f : Z)
                     | OComboQ (num den : Z) | OLimitQ (num den : Z).

Definition entry := (legs * (Z * list (N * N)))%type.      (* (legs, score, bitpath) *)
Definition e_legs (e : entry) : legs := fst e.
Definition e_score (e : entry) : Z := fst (snd e).
Definition e_path (e : entry) : list (N * N) := snd (snd e).
Definition table := list (N * entry).                      (* dict subgraph -> entry *)

Fixpoint tget (s : N) (t : table) : option entry :=
  match t with
  | [] => None
  | (k, e) :: t' => if N.eqb k s then Some e else tget s t'
  end.
(* d[s] = e : overwrite keeps the position, a new key goes to the end *)
Fixpoint tset (s : N) (e : entry) (t : table) : table :=
  match t with
  | [] => [(s, e)]
  | (k, w) :: t' => if N.eqb k s then (k, e) :: t' else (k, w) :: tset s e t'
  end.

(* lines 681-711: sorted simultaneous iteration over ilegs and jlegs; returns the merged
   list (shared counts added, nothing removed yet) and whether a shared index was seen.
   The Python loop stops when one side is exhausted and then extends with both
   remainders (one of which is empty). *)
Fixpoint merge_legs (a b : legs) : legs * bool :=
  match a with
  | [] => (b, false)
  | (ia, ca) :: a' =>
      (fix aux (b : legs) : legs * bool :=
         match b with
         | [] => (a, false)
         | (jb, cb) :: b' =>
             if ia <? jb then let r := merge_legs a' b in ((ia, ca) :: fst r, snd r)
             else if jb <? ia then let r := aux b' in ((jb, cb) :: fst r, snd r)
             else let r := merge_legs a' b' in ((ia, ca + cb) :: fst r, true)
         end) b
  end.

(* itertools.product(A, B) and itertools.combinations(A, 2), in Python's order *)
Definition product2 {A B} (l1 : list A) (l2 : list B) : list (A * B) :=
  flat_map (fun a => map (pair a) l2) l1.
Fixpoint combs2 {A} (l : list A) : list (A * A) :=
  match l with
  | [] => []
  | x :: l' => map (pair x) l' ++ combs2 l'
  end.

Fixpoint set_nth {A} (k : nat) (x : A) (l : list A) : list A :=
  match l, k with
  | [], _ => []
  | _ :: l', 0 => x :: l'
  | y :: l', S k' => y :: set_nth k' x l'
  end.

Definition bit (i : nat) : N := N.shiftl 1 (N.of_nat i).

Section DP.
Variable app : list nat.        (* self.appearances *)
Variable szs : list Z.          (* self.sizes *)
Definition appn (j : nat) : nat := nth j app 0.
Definition szn (j : nat) : Z := nth j szs 1%Z.

(* the common loop of the compute_con_cost_* functions (lines 116-265):
   `for i in range(len(temp_legs)-1, -1, -1)`: from the right; an index whose count has
   reached its number of appearances is deleted from temp_legs; returns
   (temp_legs after deletion, (product of all dims, product of the kept dims)) *)
Definition scan (tl : legs) : legs * (Z * Z) :=
  fold_right (fun kv acc =>
      let d := szn (fst kv) in
      if Nat.eqb (snd kv) (appn (fst kv))
      then (fst acc, ((fst (snd acc) * d)%Z, snd (snd acc)))
      else (kv :: fst acc, ((fst (snd acc) * d)%Z, (snd (snd acc) * d)%Z)))
    ([], (1%Z, 1%Z)) tl.

Definition zmax3 (a b c : Z) : Z := Z.max (Z.max a b) c.

(* compute_con_cost(temp_legs, appearances, sizes, iscore, jscore) -> (temp_legs', new_score) *)
Definition con_cost (o : objective) (tl : legs) (iscore jscore : Z) : legs * Z :=
  let r := scan tl in
  let cost := fst (snd r) in
  let size := snd (snd r) in
  (fst r,
   match o with
   | OFlops => iscore + jscore + cost
   | OMax => zmax3 iscore jscore cost
   | OSize => zmax3 iscore jscore size
   | OWrite => iscore + jscore + size
   | OCombo f => iscore + jscore + (cost + f * size)
   | OLimit f => iscore + jscore + Z.max cost (f * size)
   | OComboQ n d => iscore + jscore + (d * cost + n * size)
   | OLimitQ n d => iscore + jscore + Z.max (d * cost) (n * size)
   end)%Z.

Variable obj : objective.
Variable search_outer : bool.

(* lines 673-719 for one pair: None when the pair is skipped before the cost function
   is called (overlap, or outer product while not search_outer); otherwise the
   arguments of the call *)
Definition cand (p : (N * entry) * (N * entry)) : option (legs * (Z * Z)) :=
  let '((si, ei), (sj, ej)) := p in
  if negb (N.eqb (N.land si sj) 0) then None
  else
    let r := merge_legs (e_legs ei) (e_legs ej) in
    if negb search_outer && negb (snd r) then None
    else Some (fst r, (e_score ei, e_score ej)).

(* lines 721-737 *)
Definition try_pair (cap : Z) (tm : table) (p : (N * entry) * (N * entry)) : table :=
  match cand p with
  | None => tm
  | Some (tl, (a, b)) =>
      let r := con_cost obj tl a b in
      if (snd r >? cap)%Z then tm
      else
        let s := N.lor (fst (fst p)) (fst (snd p)) in
        let new := (fst r, (snd r, e_path (snd (fst p)) ++ e_path (snd (snd p))
                                   ++ [(fst (fst p), fst (snd p))])) in
        match tget s tm with
        | None => tset s new tm
        | Some cur => if (snd r <? e_score cur)%Z then tset s new tm else tm
        end
  end.

(* lines 659-671: the pairs for the bipartition sizes (k, m-k) *)
Definition pairs_for (tabs : list table) (m k : nat) : list ((N * entry) * (N * entry)) :=
  if negb (k =? m - k)
  then product2 (nth k tabs []) (nth (m - k) tabs [])
  else combs2 (nth k tabs []).

(* lines 656-737 for one m *)
Definition level_pass (cap : Z) (tabs : list table) (m : nat) : list table :=
  set_nth m
    (fold_left (fun tm k => fold_left (try_pair cap) (pairs_for tabs m k) tm)
               (seq 1 (m / 2)) (nth m tabs []))
    tabs.

Variable nterms : nat.

(* one execution of the body of `while not contractions[nterms]` (without the doubling) *)
Definition full_pass (cap : Z) (tabs : list table) : list table :=
  fold_left (level_pass cap) (seq 2 (nterms - 1)) tabs.

(* the while loop, lines 655-740, with fuel; returns the final tables and cap *)
Fixpoint dp_loop (fuel : nat) (cap : Z) (tabs : list table) : option (list table * Z) :=
  match nth nterms tabs [] with
  | _ :: _ => Some (tabs, cap)
  | [] =>
      match fuel with
      | 0 => None
      | S f => dp_loop f (cap * 2)%Z (full_pass cap tabs)
      end
  end.

(* lines 642-653: contractions[1][1 << i] = (legs, 0, ()) *)
Definition dp_init (wlegs : list legs) : list table :=
  set_nth 1 (map (fun il => (bit (fst il), (snd il, (0%Z, [])))) (combine (seq 0 nterms) wlegs))
          (repeat [] (nterms + 1)).

(* line 742: ((_, _, bitpath),) = contractions[nterms].values() -- exactly one entry *)
Definition dp_result (wlegs : list legs) (fuel : nat) (cap : Z) : option (Z * list (N * N)) :=
  match dp_loop fuel cap (dp_init wlegs) with
  | Some (tabs, _) =>
      match nth nterms tabs [] with
      | [(_, e)] => Some (e_score e, e_path e)
      | _ => None
      end
  | None => None
  end.

(* ---- the same loop, also recording every call of the cost function ---- *)
Definition event := (legs * (Z * (Z * (legs * Z))))%type.  (* temp_legs, iscore, jscore, temp_legs', new_score *)
Definition ev_pair (p : (N * entry) * (N * entry)) : list event :=
  match cand p with
  | None => []
  | Some (tl, (a, b)) => [(tl, (a, (b, con_cost obj tl a b)))]
  end.
Definition level_events (tabs : list table) (m : nat) : list event :=
  flat_map (fun k => flat_map ev_pair (pairs_for tabs m k)) (seq 1 (m / 2)).
Definition full_pass_tr (cap : Z) (st : list table * list event) : list table * list event :=
  fold_left (fun st m => (level_pass cap (fst st) m, snd st ++ level_events (fst st) m))
            (seq 2 (nterms - 1)) st.
Fixpoint dp_loop_tr (fuel : nat) (cap : Z) (st : list table * list event)
  : option ((list table * list event) * Z) :=
  match nth nterms (fst st) [] with
  | _ :: _ => Some (st, cap)
  | [] =>
      match fuel with
      | 0 => None
      | S f => dp_loop_tr f (cap * 2)%Z (full_pass_tr cap st)
      end
  end.

End DP.

(* lines 743-747: replay the bit path through contract_nodes; termmap maps a subgraph to
   its node id; new nodes get consecutive ssa ids *)
Fixpoint mget (s : N) (tm : list (N * nat)) : nat :=
  match tm with
  | [] => 0
  | (k, v) :: tm' => if N.eqb k s then v else mget s tm'
  end.
Fixpoint replay_bitpath (bp : list (N * N)) (termmap : list (N * nat)) (ssa : nat) : list (nat * nat) :=
  match bp with
  | [] => []
  | (si, sj) :: bp' =>
      (mget si termmap, mget sj termmap)
        :: replay_bitpath bp' ((N.lor si sj, ssa) :: termmap) (S ssa)
  end.

(* optimize_optimal_connected(where, minimize, cost_cap, search_outer) on a processor
   whose nodes `where` (ids) carry the legs wlegs; returns (score, ssa pairs appended) *)
Definition optimal_connected (app : list nat) (szs : list Z) (obj : objective) (so : bool)
           (where_ : list nat) (wlegs : list legs) (ssa0 : nat) (fuel : nat) (cap : Z)
  : option (Z * list (nat * nat)) :=
  match dp_result app szs obj so (length where_) wlegs fuel cap with
  | Some (sc, bp) =>
      Some (sc, replay_bitpath bp (combine (map bit (seq 0 (length where_))) where_) ssa0)
  | None => None
  end.

(* traced variant: (score, ssa pairs, number of passes' final cap, events) *)
Definition optimal_connected_tr (app : list nat) (szs : list Z) (obj : objective) (so : bool)
           (where_ : list nat) (wlegs : list legs) (ssa0 : nat) (fuel : nat) (cap : Z)
  : option (Z * (list (nat * nat) * (Z * list event))) :=
  let nt := length where_ in
  match dp_loop_tr app szs obj so nt fuel cap (dp_init nt wlegs, []) with
  | Some ((tabs, tr), capf) =>
      match nth nt tabs [] with
      | [(_, e)] =>
          Some (e_score e,
                (replay_bitpath (e_path e) (combine (map bit (seq 0 nt)) where_) ssa0, (capf, tr)))
      | _ => None
      end
  | None => None
  end.

(* optimize_optimal(inputs, output, size_dict, ..., simplify=True, use_ssa=True) for a
   network on which simplify() does nothing and subgraphs() yields one group [0..n-1] *)
Definition optimize_optimal (n : net) (obj : objective) (so : bool) (fuel : nat) (cap : Z)
  : option (Z * list (nat * nat)) :=
  let p := proc_init n in
  let nt := length (p_nodes p) in
  optimal_connected (p_app p) (p_sizes p) obj so (seq 0 nt) (p_nodes p) nt fuel cap.

(* ================================================================== *)
(* SPECIFICATION (shares nothing with the sorted-list machinery above) *)

Fixpoint mask (t : tree) : N :=
  match t with
  | Leaf k => bit k
  | Node l r => N.lor (mask l) (mask r)
  end.

Section Spec.
Variable nodes : list legs.     (* legs of the n leaves *)
Variable app : list nat.
Variable szs : list Z.

Definition leg_count (j : nat) (l : legs) : nat :=
  fold_right (fun kv a => if Nat.eqb (fst kv) j then snd kv + a else a) 0 l.
(* number of occurrences of index j on the leaves of the set S *)
Definition cnt (S : N) (j : nat) : nat :=
  fold_right (fun i a => if N.testbit S (N.of_nat i) then leg_count j (nth i nodes []) + a else a)
             0 (seq 0 (length nodes)).
(* j is carried by the intermediate holding exactly the leaves S *)
Definition surv (S : N) (j : nat) : bool := (0 <? cnt S j) && (cnt S j <? appn app j).
Definition dims_where (f : nat -> bool) : Z :=
  fold_right (fun j a => if f j then (szn szs j * a)%Z else a) 1%Z (seq 0 (length app)).
(* flops of one step = product of the dims of all indices involved *)
Definition step_flops (S1 S2 : N) : Z := dims_where (fun j => surv S1 j || surv S2 j).
(* size of the result = product of the dims of the surviving indices *)
Definition step_size (S1 S2 : N) : Z := dims_where (surv (N.lor S1 S2)).
Definition shares (S1 S2 : N) : bool :=
  existsb (fun j => surv S1 j && surv S2 j) (seq 0 (length app)).

Definition step_cost (o : objective) (S1 S2 : N) : Z :=
  match o with
  | OFlops | OMax => step_flops S1 S2
  | OSize | OWrite => step_size S1 S2
  | OCombo f => step_flops S1 S2 + f * step_size S1 S2
  | OLimit f => Z.max (step_flops S1 S2) (f * step_size S1 S2)
  | OComboQ n d => d * step_flops S1 S2 + n * step_size S1 S2
  | OLimitQ n d => Z.max (d * step_flops S1 S2) (n * step_size S1 S2)
  end%Z.
Definition combine_sc (o : objective) (a b s : Z) : Z :=
  match o with
  | OMax | OSize => zmax3 a b s
  | _ => a + b + s
  end%Z.

(* objective value of a tree: total flops / most expensive step / largest intermediate /
   total write / sum of flops + f*size / sum of max(flops, f*size) *)
Fixpoint tscore (o : objective) (t : tree) : Z :=
  match t with
  | Leaf _ => 0%Z
  | Node l r => combine_sc o (tscore o l) (tscore o r) (step_cost o (mask l) (mask r))
  end.
(* no step of the tree is an outer product *)
Fixpoint outer_free (t : tree) : bool :=
  match t with
  | Leaf _ => true
  | Node l r => outer_free l && outer_free r && shares (mask l) (mask r)
  end.
Definition admissible (so : bool) (t : tree) : bool := so || outer_free t.

(* the legs of the intermediate on S, from the definition: the surviving indices in
   increasing order with their multiplicity on S *)
Definition legs_of (S : N) : legs :=
  flat_map (fun j => if surv S j then [(j, cnt S j)] else []) (seq 0 (length app)).
Definition cnt_all (j : nat) : nat :=
  fold_right (fun i a => leg_count j (nth i nodes []) + a) 0 (seq 0 (length nodes)).

(* hypotheses of the theorems, as an executable check:
   - every leaf's legs are exactly the definition's legs of that leaf: strictly increasing
     indices (no repeated index within a tensor), every index known to `app`, and no index
     already exhausted on the leaf (none confined to one tensor and absent from the output);
   - appearances counts at least the occurrences on the tensors;
   - dimensions are non-negative *)
Definition wf_procb : bool :=
  forallb (fun i => eqb (nth i nodes []) (legs_of (bit i))) (seq 0 (length nodes))
  && forallb (fun j => cnt_all j <=? appn app j) (seq 0 (length app))
  && forallb (fun j => (0 <=? szn szs j)%Z) (seq 0 (length app)).

End Spec.

(* the factor of combo / limit is non-negative *)
Definition obj_ok (o : objective) : Prop :=
  match o with
  | OCombo f | OLimit f => (0 <= f)%Z
  | OComboQ n d | OLimitQ n d => (0 <= n)%Z /\ (0 <= d)%Z
  | _ => True
  end.

(* t is a binary contraction tree over exactly the leaf set S (bitmask), leaves < n *)
Inductive vtree (n : nat) : tree -> N -> Prop :=
| vt_leaf i : i < n -> vtree n (Leaf i) (bit i)
| vt_node l r Sl Sr : vtree n l Sl -> vtree n r Sr -> N.land Sl Sr = 0%N ->
                      vtree n (Node l r) (N.lor Sl Sr).

(* the bit path the DP stores for a tree: children first, then the pair *)
Fixpoint bitpath (t : tree) : list (N * N) :=
  match t with
  | Leaf _ => []
  | Node l r => bitpath l ++ bitpath r ++ [(mask l, mask r)]
  end.

(* ------------------------------------------------------------------ *)
(* all binary trees over a list of distinct leaves, up to swapping children:
   the new leaf is attached above every node of every tree on the remaining leaves *)
Fixpoint inserts (x : nat) (t : tree) : list tree :=
  Node (Leaf x) t ::
  match t with
  | Leaf _ => []
  | Node l r => map (fun l' => Node l' r) (inserts x l) ++ map (fun r' => Node l r') (inserts x r)
  end.
Fixpoint all_trees (ls : list nat) : list tree :=
  match ls with
  | [] => []
  | [x] => [Leaf x]
  | x :: ls' => flat_map (inserts x) (all_trees ls')
  end.

Definition zmin_list (l : list Z) : option Z :=
  match l with
  | [] => None
  | x :: l' => Some (fold_left Z.min l' x)
  end.
(* the certified optimum by exhaustive enumeration *)
Definition brute_min (nodes : list legs) (app : list nat) (szs : list Z) (o : objective) (so : bool)
  : option Z :=
  zmin_list (map (tscore nodes app szs o)
                 (filter (admissible nodes app so) (all_trees (seq 0 (length nodes))))).

(* the tree described by an ssa path (list of pairs of ssa ids) over n leaves *)
Fixpoint tree_of_ssa (forest : list tree) (path : list (nat * nat)) : list tree :=
  match path with
  | [] => forest
  | (i, j) :: path' =>
      tree_of_ssa (forest ++ [Node (nth i forest (Leaf 0)) (nth j forest (Leaf 0))]) path'
  end.
Definition ssa_tree (n : nat) (path : list (nat * nat)) : tree :=
  last (tree_of_ssa (map Leaf (seq 0 n)) path) (Leaf 0).

(* executable check that a tree uses every tensor 0..n-1 exactly once (sound: OptimalFacts.full_treeb_sound) *)
Definition full_treeb (n : nat) (t : tree) : bool :=
  Nat.eqb (length (leaves t)) n && forallb (fun i => memb i (leaves t)) (seq 0 n).

(* the network is connected (cut form): every non-empty proper set S of tensors has an index that
   occurs on S and on some tensor j outside S *)
Definition connected_prop (nodes : list legs) (nix : nat) : Prop :=
  forall S, S <> 0%N ->
    (forall k, N.testbit S (N.of_nat k) = true -> k < length nodes) ->
    (exists i, i < length nodes /\ N.testbit S (N.of_nat i) = false) ->
    exists j x, j < length nodes /\ N.testbit S (N.of_nat j) = false /\ x < nix /\
                0 < cnt nodes S x /\ 0 < leg_count x (nth j nodes []).

(* ------------------------------------------------------------------ *)
(* parse_minimize_for_optimal (lines 268-309): the exact names first, then the regular expression
   NAME DASHES FACTOR (NAME one of flops size write combo limit, DASHES any number of '-', FACTOR
   optional: digits, optionally a '.', optionally more digits) with fullmatch; only combo / limit survive; the
   custom factor float(custom_factor) is kept exactly as digits / 10^(number of fractional digits);
   no custom factor: 64.  ASCII digits only. *)
Require Import Ascii String.
Fixpoint strip_prefix (pre s : list ascii) : option (list ascii) :=
  match pre, s with
  | [], _ => Some s
  | a :: pre', b :: s' => if Ascii.eqb a b then strip_prefix pre' s' else None
  | _ :: _, [] => None
  end.
Fixpoint drop_dashes (s : list ascii) : list ascii :=
  match s with
  | a :: s' => if Ascii.eqb a "-"%char then drop_dashes s' else s
  | [] => []
  end.
Definition digit_of (a : ascii) : option Z :=
  let k := nat_of_ascii a in
  if (48 <=? k) && (k <=? 57) then Some (Z.of_nat (k - 48)) else None.
(* digits*: returns (value so far, number of digits read, rest) *)
Fixpoint read_digits (acc : Z) (cnt : nat) (s : list ascii) : Z * nat * list ascii :=
  match s with
  | a :: s' => match digit_of a with
               | Some d => read_digits (acc * 10 + d) (S cnt) s'
               | None => (acc, cnt, s)
               end
  | [] => (acc, cnt, [])
  end.
(* the optional FACTOR at the end of the string: None = no match; Some None = empty; Some (Some (num, den)) *)
Definition read_factor (s : list ascii) : option (option (Z * Z)) :=
  match s with
  | [] => Some None
  | _ =>
      let '(v, c, r) := read_digits 0 0 s in
      if Nat.eqb c 0 then None
      else match r with
           | [] => Some (Some (v, 1%Z))
           | a :: r' =>
               if Ascii.eqb a "."%char then
                 let '(v2, c2, r2) := read_digits v 0 r' in
                 match r2 with [] => Some (Some (v2, (10 ^ Z.of_nat c2)%Z)) | _ => None end
               else None
           end
  end.
Definition str_eqb (a b : list ascii) : bool := list_eqb Ascii.eqb a b.
Definition parse_minimize (str : string) : option objective :=
  let s := list_ascii_of_string str in
  if str_eqb s (list_ascii_of_string "flops"%string) then Some OFlops
  else if str_eqb s (list_ascii_of_string "max"%string) then Some OMax
  else if str_eqb s (list_ascii_of_string "size"%string) then Some OSize
  else if str_eqb s (list_ascii_of_string "write"%string) then Some OWrite
  else
    let try_kind (name : string) := strip_prefix (list_ascii_of_string name) s in
    let with_factor (rest : list ascii) (mk0 : objective) (mk : Z -> Z -> objective) :=
      match read_factor (drop_dashes rest) with
      | Some None => Some mk0
      | Some (Some (n, d)) => Some (mk n d)
      | None => None
      end in
    match try_kind "combo"%string with
    | Some rest => with_factor rest (OCombo 64) OComboQ
    | None =>
        match try_kind "limit"%string with
        | Some rest => with_factor rest (OLimit 64) OLimitQ
        | None => None   (* flops-.. / size-.. / write-.. match the regex but are rejected; anything else does not match *)
        end
    end.
(* the weight as a fraction, for comparison with the float the code holds *)
Definition weight_of (o : objective) : option (Z * Z) :=
  match o with
  | OCombo f | OLimit f => Some (f, 1%Z)
  | OComboQ n d | OLimitQ n d => Some (n, d)
  | _ => None
  end.
Definition kind_of (o : objective) : nat :=
  match o with OFlops => 0 | OMax => 1 | OSize => 2 | OWrite => 3 | OCombo _ | OComboQ _ _ => 4 | OLimit _ | OLimitQ _ _ => 5 end.
(* parse str is of kind k with weight p/q (q > 0), where p/q is the double the code holds: equal to the
   decimal weight of the model, or its nearest double (relative error at most 2^-52) *)
Definition parse_agrees (str : string) (k : nat) (p q : Z) : bool :=
  match parse_minimize str with
  | Some o => Nat.eqb (kind_of o) k &&
              match weight_of o with
              | Some (n, d) => (0 <? d)%Z && ((n * q =? p * d)%Z
                                              || (Z.abs (n * q - p * d) * 2 ^ 52 <=? p * d)%Z)
              | None => true
              end
  | None => false
  end.

(* Threads.v -- C16: one optimizer object serving many contractions, sequentially or
   from several threads.  MODEL FILE: executable definitions only, no proofs.

   What is modelled (cotengra/reusable.py ReusableOptimizer.search /
   _maybe_run_optimizer / _run_optimizer / hash_query / last_opt,
   cotengra/presets.py AutoOptimizer.search / _get_optimizer_hyper_threadsafe and
   the stateless presets, cotengra/hyperoptimizers/hyper.py HyperOptimizer.__init__
   / _search / tree): the SHARED state these touch and the order in which one query
   touches it.  A thread executes its queries one after another; the code of one
   query is cut into ATOMIC STEPS at the points where the real interpreter can switch
   threads between two accesses to shared state (the harness puts a yield point at
   exactly these places, see harness/props/c16.py).  The name of a program counter
   value is the shared access the thread is about to perform.

   Everything the searches compute (trial scores, the early-stop decision, the score
   stored in a cache entry, the fingerprint, the hardness test) is an ORACLE: the
   theorems quantify over all oracles.  A tree is represented by its provenance. *)
From Ctg Require Import Base.

Definition tid := nat.   (* threading.get_ident() *)
Definition qid := nat.   (* which contraction (inputs, output, size_dict) a query is about *)
Definition oid := nat.   (* allocation number of an optimizer object *)

(* provenance of a returned ContractionTree *)
Inductive tree :=
| TSearch (q : qid) (o : oid) (k : nat)   (* trial number k of HyperOptimizer object o, built from the inputs of q *)
| TDirect (q : qid)                       (* ContractionTree.from_path(inputs of q, path of a stateless path function run on q) *)
| TRecon (q : qid) (src : qid).           (* _reconstruct_tree(inputs of q, cache entry whose path was found for src);
                                             also: the bare path of such an entry, handed to the asker of q *)

Definition tree_owner (t : tree) : qid :=
  match t with TSearch q _ _ => q | TDirect q => q | TRecon q _ => q end.

(* trial["score"]: a float, None = inf (failed trial) *)
Definition score := option Z.
Definition score_lt (a b : score) : bool :=
  match a, b with
  | Some x, Some y => Z.ltb x y
  | Some _, None => true
  | None, _ => false
  end.

(* HyperOptimizer: the state that survives a call of search():
   self.best ({"score": inf} without a tree, or the best trial) and len(self.scores) *)
Record hopt := mkH { h_best : option (score * tree); h_n : nat }.
Definition best_score (h : hopt) : score :=
  match h_best h with Some (s, _) => s | None => None end.
Definition fresh_hopt : hopt := mkH None 0.

(* cache entry  {"path":…, "score":…, "sliced_inds":…}: the path came from a tree of e_src *)
Record entry := mkE { e_src : qid; e_score : score }.

(* association lists keyed by nat (Python dicts; insertion order kept) *)
Fixpoint aget {A} (k : nat) (d : list (nat * A)) : option A :=
  match d with
  | [] => None
  | (k', v) :: d' => if Nat.eqb k' k then Some v else aget k d'
  end.
Fixpoint aset {A} (k : nat) (v : A) (d : list (nat * A)) : list (nat * A) :=
  match d with
  | [] => [(k, v)]
  | (k', w) :: d' => if Nat.eqb k' k then (k', v) :: d' else (k', w) :: aset k v d'
  end.

(* ReusableOptimizer: self._suboptimizers (thread id -> sub-optimizer object) and self._cache *)
Record ropt := mkR { r_slots : list (tid * oid); r_cache : list (nat * entry) }.
Definition fresh_ropt : ropt := mkR [] [].

(* the heap of optimizer objects and AutoOptimizer._hyperoptimizers_by_thread *)
Record state := mkS {
  hheap : list hopt;              (* HyperOptimizer objects, by allocation number *)
  rheap : list ropt;              (* Reusable*Optimizer objects *)
  bythread : list (tid * nat)     (* thread id -> object number (in rheap if caching, else in hheap) *)
}.

Fixpoint upd_nth {A} (n : nat) (f : A -> A) (l : list A) : list A :=
  match l, n with
  | [], _ => []
  | x :: l', 0 => f x :: l'
  | x :: l', S n' => x :: upd_nth n' f l'
  end.

(* which object the queries go through *)
Inductive mode :=
| MPreset            (* 'greedy', 'optimal', ... : a stateless path function + from_path *)
| MReusable          (* one shared ReusableHyperOptimizer / ReusableRandomGreedyOptimizer (object 0 of rheap) *)
| MAutoCached        (* AutoOptimizer(cache=True) : 'auto', 'auto-hq' *)
| MAutoUncached      (* AutoOptimizer(cache=False) AS IT IS: one HyperOptimizer per thread, kept *)
| MAutoUncachedFresh (* AutoOptimizer(cache=False) with the proposed patch: a new HyperOptimizer per query *).

Inductive overwrite := OwFalse | OwTrue | OwImproved.

Record config := mkC {
  c_mode : mode;
  c_ow : overwrite;        (* ReusableOptimizer(overwrite=...) *)
  c_cache_only : bool;     (* ReusableOptimizer(cache_only=...) *)
  c_more : nat;            (* max_repeats - 1 *)
  c_call : bool            (* queries are asked through __call__ (a path is returned) instead of search *)
}.

Record oracle := mkO {
  o_fp : qid -> nat;                       (* hash_contraction of the query *)
  o_hard : qid -> bool;                    (* estimate_optimal_hardness(inputs) >= optimal_cutoff *)
  o_score : qid -> oid -> nat -> score;    (* score of trial k of object o run on q *)
  o_stop : qid -> oid -> nat -> bool;      (* should_stop() after that trial *)
  o_escore : tree -> score                 (* tree.get_score() / opt.best_flops stored in the entry *)
}.

(* program counter = the shared access the thread performs next *)
Inductive pc :=
| PIdle                                                       (* between queries *)
| PALookup (q : qid)                                          (* self._hyperoptimizers_by_thread[tid] *)
| PAStore (q : qid) (x : nat)                                 (* self._hyperoptimizers_by_thread[tid] = opt *)
| PRHash (q : qid) (ri : nat)                                 (* h not in self._cache *)
| PRAlloc (q : qid) (ri : nat) (m : bool)                     (* self._get_suboptimizer() *)
| PRTrial (q : qid) (ri : nat) (m : bool) (o : oid) (n : nat) (* one trial of the sub-search; n more may follow *)
| PRPublish (q : qid) (ri : nat) (m : bool) (o : oid) (tr : tree)  (* self._suboptimizers[thrid] = opt *)
| PRCacheSet (q : qid) (ri : nat) (con : entry)               (* self._cache[h] = con *)
| PRCacheOld (q : qid) (ri : nat) (con : entry)               (* old_con = self._cache[h]   (overwrite='improved') *)
| PRFetch (q : qid) (ri : nat)                                (* self.last_opt.tree *)
| PRCacheGet (q : qid) (ri : nat)                             (* con = self._cache[h]  (cache hit) *)
| PHTrial (q : qid) (o : oid) (n : nat).                      (* one trial of a directly used HyperOptimizer *)

Definition pc_label (p : pc) : nat :=
  match p with
  | PIdle => 0 | PALookup _ => 1 | PAStore _ _ => 2 | PRHash _ _ => 3 | PRAlloc _ _ _ => 4
  | PRTrial _ _ _ _ _ => 5 | PRPublish _ _ _ _ _ => 6 | PRCacheSet _ _ _ => 7 | PRCacheOld _ _ _ => 8
  | PRFetch _ _ => 9 | PRCacheGet _ _ => 10 | PHTrial _ _ _ => 11
  end.

Record thread := mkT {
  t_id : tid;
  t_pc : pc;
  t_todo : list qid;                      (* queries still to be asked *)
  t_done : list (qid * option tree)       (* answered queries, newest first; None = an exception was raised *)
}.

Definition set_pc (th : thread) (p : pc) : thread := mkT (t_id th) p (t_todo th) (t_done th).
(* the call returns (or raises): record the result, go back to the caller *)
Definition finish (th : thread) (q : qid) (r : option tree) : thread :=
  mkT (t_id th) PIdle (t_todo th) ((q, r) :: t_done th).

Definition alloc_h (st : state) : state * oid :=
  (mkS (hheap st ++ [fresh_hopt]) (rheap st) (bythread st), length (hheap st)).
Definition alloc_r (st : state) : state * nat :=
  (mkS (hheap st) (rheap st ++ [fresh_ropt]) (bythread st), length (rheap st)).
Definition upd_h (st : state) (o : oid) (f : hopt -> hopt) : state :=
  mkS (upd_nth o f (hheap st)) (rheap st) (bythread st).
Definition upd_r (st : state) (ri : nat) (f : ropt -> ropt) : state :=
  mkS (hheap st) (upd_nth ri f (rheap st)) (bythread st).

(* HyperOptimizer._search, body of `for trial in trials` for one trial on object o:
     if trial["score"] < self.best["score"]: self.best = trial
   (the trial is also appended to self.scores) *)
Definition trial_on (orc : oracle) (q : qid) (o : oid) (h : hopt) : hopt :=
  let k := h_n h in
  let sc := o_score orc q o k in
  mkH (if score_lt sc (best_score h) then Some (sc, TSearch q o k) else h_best h) (S k).

(* `return self.tree`  = self.best["tree"]  (KeyError when no trial ever succeeded) *)
Definition tree_of (st : state) (o : oid) : option tree :=
  match nth_error (hheap st) o with
  | Some h => match h_best h with Some (_, t) => Some t | None => None end
  | None => None
  end.

(* does the trial loop end after trial number k of object o? *)
Definition loop_ends (orc : oracle) (q : qid) (o : oid) (st : state) (n : nat) : bool :=
  match n with
  | 0 => true
  | S _ => match nth_error (hheap st) o with
           | Some h => o_stop orc q o (h_n h)
           | None => true
           end
  end.

(* where AutoOptimizer.search continues once it holds its per-thread optimizer x *)
Definition dispatch (cfg : config) (q : qid) (x : nat) : pc :=
  match c_mode cfg with
  | MAutoCached => PRHash q x
  | _ => PHTrial q x (c_more cfg)
  end.

(* one atomic step of a thread that is inside a query *)
Definition step_pc (cfg : config) (orc : oracle) (st : state) (th : thread) : state * thread :=
  let t := t_id th in
  match t_pc th with
  | PIdle =>
      match t_todo th with
      | [] => (st, th)
      | q :: rest =>
          let th0 := mkT t PIdle rest (t_done th) in
          match c_mode cfg with
          | MPreset => (st, finish th0 q (Some (TDirect q)))
          | MReusable => (st, set_pc th0 (PRHash q 0))
          | MAutoCached | MAutoUncached =>
              if o_hard orc q then (st, set_pc th0 (PALookup q))
              else (st, finish th0 q (Some (TDirect q)))
          | MAutoUncachedFresh =>
              if o_hard orc q then
                let (st1, o) := alloc_h st in (st1, set_pc th0 (PHTrial q o (c_more cfg)))
              else (st, finish th0 q (Some (TDirect q)))
          end
      end
  | PALookup q =>
      match aget t (bythread st) with
      | Some x => (st, set_pc th (dispatch cfg q x))
      | None =>
          match c_mode cfg with
          | MAutoCached => let (st1, x) := alloc_r st in (st1, set_pc th (PAStore q x))
          | _ => let (st1, x) := alloc_h st in (st1, set_pc th (PAStore q x))
          end
      end
  | PAStore q x =>
      (mkS (hheap st) (rheap st) (aset t x (bythread st)), set_pc th (dispatch cfg q x))
  | PRHash q ri =>
      match nth_error (rheap st) ri with
      | None => (st, finish th q None)
      | Some r =>
          let missing := match aget (o_fp orc q) (r_cache r) with Some _ => false | None => true end in
          let should_run := missing || match c_ow cfg with OwFalse => false | _ => true end in
          if should_run then
            if c_cache_only cfg then (st, finish th q None)     (* raise KeyError *)
            else (st, set_pc th (PRAlloc q ri missing))
          else (st, set_pc th (PRCacheGet q ri))
      end
  | PRAlloc q ri m =>
      let (st1, o) := alloc_h st in (st1, set_pc th (PRTrial q ri m o (c_more cfg)))
  | PRTrial q ri m o n =>
      let st1 := upd_h st o (trial_on orc q o) in
      if loop_ends orc q o st n then
        match tree_of st1 o with
        | Some tr => (st1, set_pc th (PRPublish q ri m o tr))
        | None => (st1, finish th q None)                       (* KeyError: 'tree' *)
        end
      else (st1, set_pc th (PRTrial q ri m o (pred n)))
  | PRPublish q ri m o tr =>
      let st1 := upd_r st ri (fun r => mkR (aset t o (r_slots r)) (r_cache r)) in
      let con := mkE (tree_owner tr) (o_escore orc tr) in     (* _deconstruct_tree(opt, tree) *)
      match c_ow cfg, m with
      | OwImproved, false => (st1, set_pc th (PRCacheOld q ri con))
      | _, _ => (st1, set_pc th (PRCacheSet q ri con))
      end
  | PRCacheSet q ri con =>
      let st1 := upd_r st ri (fun r => mkR (r_slots r) (aset (o_fp orc q) con (r_cache r))) in
      if c_call cfg then
        (* __call__: `return con["path"]` -- the path of the entry just stored, applied to q *)
        (st1, finish th q (Some (TRecon q (e_src con))))
      else (st1, set_pc th (PRFetch q ri))
  | PRCacheOld q ri con =>
      match nth_error (rheap st) ri with
      | None => (st, finish th q None)
      | Some r =>
          match aget (o_fp orc q) (r_cache r) with
          | None => (st, finish th q None)
          | Some old =>
              if score_lt (e_score con) (e_score old) then (st, set_pc th (PRCacheSet q ri con))
              else (st, finish th q (Some (TRecon q (e_src old))))
          end
      end
  | PRFetch q ri =>
      match nth_error (rheap st) ri with
      | None => (st, finish th q None)
      | Some r =>
          match aget t (r_slots r) with
          | None => (st, finish th q None)                      (* last_opt is None *)
          | Some o => (st, finish th q (tree_of st o))
          end
      end
  | PRCacheGet q ri =>
      match nth_error (rheap st) ri with
      | None => (st, finish th q None)
      | Some r =>
          match aget (o_fp orc q) (r_cache r) with
          | None => (st, finish th q None)
          | Some con => (st, finish th q (Some (TRecon q (e_src con))))
          end
      end
  | PHTrial q o n =>
      let st1 := upd_h st o (trial_on orc q o) in
      if loop_ends orc q o st n then (st1, finish th q (tree_of st1 o))
      else (st1, set_pc th (PHTrial q o (pred n)))
  end.

Definition init_state (cfg : config) : state :=
  match c_mode cfg with
  | MReusable => mkS [] [fresh_ropt] []
  | _ => mkS [] [] []
  end.

Definition finished (th : thread) : bool :=
  match t_pc th, t_todo th with PIdle, [] => true | _, _ => false end.

(* the scheduler oracle: a list of thread positions; entry i lets thread i run one
   atomic step (nothing happens if there is no such thread or it has finished).
   The trace records (thread position, label of the step taken). *)
Fixpoint run (cfg : config) (orc : oracle) (sched : list nat) (st : state) (ths : list thread)
  : state * list thread * list (nat * nat) :=
  match sched with
  | [] => (st, ths, [])
  | i :: sched' =>
      match nth_error ths i with
      | None => run cfg orc sched' st ths
      | Some th =>
          if finished th then run cfg orc sched' st ths
          else
            let (st1, th1) := step_pc cfg orc st th in
            let '(st2, ths2, tr) := run cfg orc sched' st1 (upd_nth i (fun _ => th1) ths) in
            (st2, ths2, (i, pc_label (t_pc th)) :: tr)
      end
  end.

Definition start_thread (t : tid) (qs : list qid) : thread := mkT t PIdle qs [].

(* ------------------------------------------------------------------ *)
(* the property, as a checker on results                               *)
Definition own_b (orc : oracle) (q : qid) (t : tree) : bool :=
  match t with
  | TSearch q' _ _ => Nat.eqb q' q
  | TDirect q' => Nat.eqb q' q
  | TRecon q' src => Nat.eqb q' q && Nat.eqb (o_fp orc src) (o_fp orc q)
  end.
Definition result_ok_b (orc : oracle) (r : qid * option tree) : bool :=
  match snd r with Some t => own_b orc (fst r) t | None => true end.
Definition all_own_b (orc : oracle) (ths : list thread) : bool :=
  forallb (fun th => forallb (result_ok_b orc) (t_done th)) ths.

(* ------------------------------------------------------------------ *)
(* encodings for the executed correspondence                           *)
Definition enc_tree (t : tree) : list nat :=
  match t with
  | TSearch q o k => [0; q; o; k]
  | TDirect q => [1; q]
  | TRecon q s => [2; q; s]
  end.
Definition enc_result (r : qid * option tree) : list nat :=
  fst r :: match snd r with Some t => enc_tree t | None => [9] end.
Definition enc_results (ths : list thread) : list (list (list nat)) :=
  map (fun th => map enc_result (rev (t_done th))) ths.
Definition enc_ropt (r : ropt) : list (nat * nat) * list (nat * nat) :=
  (r_slots r, map (fun ke => (fst ke, e_src (snd ke))) (r_cache r)).
Definition enc_hopt (h : hopt) : list nat :=
  h_n h :: match h_best h with Some (_, t) => enc_tree t | None => [] end.
(* finite score tables -> oracles *)
Fixpoint tget {A} (q o k : nat) (tb : list (nat * (nat * (nat * A)))) (d : A) : A :=
  match tb with
  | [] => d
  | (q', (o', (k', v))) :: tb' =>
      if Nat.eqb q' q && Nat.eqb o' o && Nat.eqb k' k then v else tget q o k tb' d
  end.
Definition table_oracle (fps : list nat) (hards : list bool)
  (scores : list (nat * (nat * (nat * score)))) (stops : list (nat * (nat * (nat * bool))))
  (escores : list (nat * (nat * (nat * score)))) : oracle :=
  mkO (fun q => nth q fps 0) (fun q => nth q hards true)
      (fun q o k => tget q o k scores None) (fun q o k => tget q o k stops false)
      (fun t => match t with TSearch q o k => tget q o k escores None | _ => None end).
(* everything observable of a run: trace, results, heaps, by-thread dict *)
Definition observe (cfg : config) (orc : oracle) (sched : list nat) (ths : list thread) :=
  let '(st, ths', tr) := run cfg orc sched (init_state cfg) ths in
  (tr, (enc_results ths', (map enc_hopt (hheap st), (map enc_ropt (rheap st), bythread st)))).

(* monomorphic comparison of an observation with the recorded one (instances resolved once, here) *)
Definition obs := (list (nat * nat) * (list (list (list nat)) * (list (list nat) *
                  (list (list (nat * nat) * list (nat * nat)) * list (nat * nat)))))%type.
Definition obs_eqb (a b : obs) : bool := eqb a b.
Definition observe_is (cfg : config) (orc : oracle) (sched : list nat) (ths : list thread) (expected : obs) : bool :=
  obs_eqb (observe cfg orc sched ths) expected.

(* ------------------------------------------------------------------ *)
(* Threads that SHARE an id.  CPython gives live threads distinct idents, but two activities with one
   ident do occur: (1) a NESTED query -- a trial of the running search asks the same optimizer object
   about another contraction on the same thread (PartitionTreeBuilder.build_divide ->
   contract_nodes(optimize=super_optimize) -> the preset's __call__); as far as shared state goes this
   is a second "thread" with the same id that runs a whole query while the outer one is parked inside
   its trial; (2) a thread that starts after another one died and inherits its ident.
   The discipline under which this is harmless: whenever a thread takes a step, no OTHER thread with
   the same id is inside the window between publishing its slot and fetching from it. *)
Definition slot_sensitive (p : pc) : bool :=
  match p with PRCacheSet _ _ _ | PRCacheOld _ _ _ | PRFetch _ _ => true | _ => false end.

Fixpoint others_ok (i : nat) (t : tid) (j : nat) (ths : list thread) : bool :=
  match ths with
  | [] => true
  | th :: r => (Nat.eqb j i || negb (Nat.eqb (t_id th) t) || negb (slot_sensitive (t_pc th)))
               && others_ok i t (S j) r
  end.

Fixpoint disciplined (cfg : config) (orc : oracle) (sched : list nat) (st : state) (ths : list thread) : bool :=
  match sched with
  | [] => true
  | i :: sched' =>
      match nth_error ths i with
      | None => disciplined cfg orc sched' st ths
      | Some th =>
          if finished th then disciplined cfg orc sched' st ths
          else others_ok i (t_id th) 0 ths &&
               let (st1, th1) := step_pc cfg orc st th in
               disciplined cfg orc sched' st1 (upd_nth i (fun _ => th1) ths)
      end
  end.

Definition observe_disciplined (cfg : config) (orc : oracle) (sched : list nat) (ths : list thread) : bool :=
  disciplined cfg orc sched (init_state cfg) ths.

(* ------------------------------------------------------------------ *)
(* Options of a long-lived optimizer object can be changed between (or during) queries: `opt.cache_only = True`,
   `opt.overwrite = 'improved'`, and each query may come through search or __call__.  A history is a list of
   segments, each run under its own configuration; the shared state and the threads carry over. *)
Fixpoint run_segs (orc : oracle) (segs : list (config * list nat)) (st : state) (ths : list thread)
  : state * list thread * list (nat * nat) :=
  match segs with
  | [] => (st, ths, [])
  | (cfg, sched) :: rest =>
      let '(st1, ths1, tr1) := run cfg orc sched st ths in
      let '(st2, ths2, tr2) := run_segs orc rest st1 ths1 in
      (st2, ths2, tr1 ++ tr2)
  end.

Definition observe_segs (cfg0 : config) (orc : oracle) (segs : list (config * list nat)) (ths : list thread) :=
  let '(st, ths', tr) := run_segs orc segs (init_state cfg0) ths in
  (tr, (enc_results ths', (map enc_hopt (hheap st), (map enc_ropt (rheap st), bythread st)))).
Definition observe_segs_is (cfg0 : config) (orc : oracle) (segs : list (config * list nat)) (ths : list thread)
  (expected : obs) : bool := obs_eqb (observe_segs cfg0 orc segs ths) expected.

(* ------------------------------------------------------------------ *)
(* the pre-hash fingerprint of reusable.hash_contraction_a (what is pickled and sha1-ed):
     (tuple(map(sortedtuple, inputs)), sortedtuple(output), sortedtuple(size_dict.items()))
   index labels as numbers (rank of the label in sorted order), sizes as (label, size) pairs.  The value stored
   under the key is a POSITIONAL path, so the key has to determine which index set sits at which position. *)
Definition sort_nat (l : list nat) : list nat := sort_by Nat.leb l.
Definition sort_sizes (l : list (nat * nat)) : list (nat * nat) :=
  sort_by (fun a b => Nat.leb (fst a) (fst b)) l.
Definition key_a (inputs : list (list nat)) (output : list nat) (sizes : list (nat * nat)) :=
  (map sort_nat inputs, (sort_nat output, sort_sizes sizes)).
Definition key_a_eqb (i1 : list (list nat)) (o1 : list nat) (s1 : list (nat * nat))
                     (i2 : list (list nat)) (o2 : list nat) (s2 : list (nat * nat)) : bool :=
  eqb (key_a i1 o1 s1) (key_a i2 o2 s2).

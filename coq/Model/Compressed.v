(* Compressed.v -- the compressed-contraction estimate:
   * cotengra/scoring.py : class CompressedStatsTracker (__init__, update_pre_step,
     update_pre_compress, update_post_compress, update_pre_contract,
     update_post_contract, update_post_step);
   * cotengra/core.py : ContractionTree.compressed_contract_stats (the loop over the
     traversal, compress_late or not), on the HyperGraph of Model/HGraph.v;
   * the SSA-path replay used to judge what the compressed pathfinders return
     (ContractionTreeCompressed.from_path: terms.append(contract(terms[i], terms[j]))).
   MODEL FILE: executable definitions only (owner: builder c18c20). *)
From Ctg Require Export Base Net HGraph.

Record tracker := mkTr {
  t_flops : Z; t_max : Z; t_peak : Z; t_write : Z;
  t_total : Z; t_total_post : Z; t_contracted : Z;
  t_dsize : Z; t_dflops : Z;
  t_sens : bool   (* model only: some compress cost depended on frozenset iteration order *)
}.

(* CompressedStatsTracker.__init__(hg, chi) *)
Definition tr_init (g : hg) : tracker :=
  let szs := map (fun kv => edges_size g (snd kv)) (hnodes g) in
  let tot := zsum szs in
  mkTr 0 (zmax_list szs 0) tot tot tot 0 0 0 0 false.

Definition tr_pre_step (t : tracker) : tracker :=
  mkTr (t_flops t) (t_max t) (t_peak t) (t_write t) (t_total t) (t_total_post t) (t_contracted t) 0 0 (t_sens t).
Definition tr_pre_compress (chi : Z) (g : hg) (nodes : list nat) (t : tracker) : tracker :=
  let '(c, s) := neighborhood_compress_cost g chi nodes in
  mkTr (t_flops t) (t_max t) (t_peak t) (t_write t) (t_total t) (t_total_post t) (t_contracted t)
       (t_dsize t - neighborhood_size g nodes) (t_dflops t + c) (t_sens t || s).
Definition tr_post_compress (g : hg) (nodes : list nat) (t : tracker) : tracker :=
  mkTr (t_flops t) (t_max t) (t_peak t) (t_write t) (t_total t) (t_total_post t) (t_contracted t)
       (t_dsize t + neighborhood_size g nodes) (t_dflops t) (t_sens t).
Definition tr_pre_contract (g : hg) (i j : nat) (t : tracker) : tracker :=
  mkTr (t_flops t) (t_max t) (t_peak t) (t_write t) (t_total t) (t_total_post t) (t_contracted t)
       (t_dsize t - (hg_node_size g i + hg_node_size g j)) (t_dflops t + contract_pair_cost g i j) (t_sens t).
Definition tr_post_contract (g : hg) (ij : nat) (t : tracker) : tracker :=
  let c := hg_node_size g ij in
  let ds := (t_dsize t + c)%Z in
  mkTr (t_flops t) (t_max t) (t_peak t) (t_write t) (t_total t) (t_total t + ds) c ds (t_dflops t) (t_sens t).
Definition tr_post_step (t : tracker) : tracker :=
  mkTr (t_flops t + t_dflops t) (Z.max (t_max t) (t_contracted t)) (Z.max (t_peak t) (t_total_post t))
       (t_write t + t_contracted t) (t_total t + t_dsize t) (t_total_post t) (t_contracted t)
       (t_dsize t) (t_dflops t) (t_sens t).

(* tree nodes are sorted lists of leaf numbers; tree_map : tree node -> hypergraph node *)
Definition tmap := list (list nat * nat).
Fixpoint tm_get (k : list nat) (m : tmap) : nat :=
  match m with
  | [] => 0
  | (k', v) :: m' => if list_nat_eqb k' k then v else tm_get k m'
  end.

Record cstate := mkCS { cs_g : hg; cs_map : tmap; cs_tr : tracker }.

(* one iteration of the loop of compressed_contract_stats; step = (p, l, r) *)
Definition ccs_step (chi : Z) (late : bool) (s : cstate) (plr : list nat * (list nat * list nat)) : cstate :=
  let '(p, (l, r)) := plr in
  let li := tm_get l (cs_map s) in
  let ri := tm_get r (cs_map s) in
  let g := cs_g s in
  let t := tr_pre_step (cs_tr s) in
  let '(g, t) :=
    if late then
      let t := tr_pre_compress chi g [li; ri] t in
      let g := hg_compress chi (get_node g li) g in
      let g := hg_compress chi (get_node g ri) g in
      (g, tr_post_compress g [li; ri] t)
    else (g, t) in
  let t := tr_pre_contract g li ri t in
  let '(g, pi) := hg_contract li ri g in
  let t := tr_post_contract g pi t in
  let '(g, t) :=
    if late then (g, t)
    else
      let t := tr_pre_compress chi g [pi] t in
      let g := hg_compress chi (get_node g pi) g in
      (g, tr_post_compress g [pi] t) in
  mkCS g ((p, pi) :: cs_map s) (tr_post_step t).

Definition ccs_init (n : net) : cstate :=
  let g := hg_init (inputs n) (output n) (szd n) in
  mkCS g (map (fun i => ([i], i)) (seq 0 (length (inputs n)))) (tr_init g).

Definition ccs_run (chi : Z) (late : bool) (n : net) (order : list (list nat * (list nat * list nat))) : cstate :=
  fold_left (ccs_step chi late) order (ccs_init n).

Definition tr_obs (t : tracker) : Z * (Z * (Z * (Z * (Z * (Z * Z))))) :=
  (t_flops t, (t_max t, (t_peak t, (t_write t, (t_total t, (t_total_post t, t_contracted t)))))).

(* per-step trace: tracker fields and the hypergraph after the step *)
Fixpoint ccs_trace (chi : Z) (late : bool) (s : cstate) (order : list (list nat * (list nat * list nat))) :=
  match order with
  | [] => []
  | plr :: order' =>
      let s' := ccs_step chi late s plr in
      (tr_obs (cs_tr s'), hg_obs (cs_g s')) :: ccs_trace chi late s' order'
  end.

(* the traversal of a binary tree that visits children first, as (p, l, r) triples of
   sorted leaf lists -- used to state the "uncapped = exact" theorems against Net.v *)
Definition sorted_leaves (t : tree) : list nat := sort_by nat_le (leaves t).
Definition plr_of (t : tree) : list (list nat * (list nat * list nat)) :=
  flat_map (fun t' => match t' with
                      | Leaf _ => []
                      | Node l r => [(sorted_leaves t', (sorted_leaves l, sorted_leaves r))]
                      end) (post_sub t).

(* ------------------------------------------------------------------ *)
(* what a pathfinder returns: an SSA path; replay as from_path does *)
Fixpoint find_tree (i : nat) (f : list (nat * tree)) : option tree :=
  match f with
  | [] => None
  | (k, t) :: f' => if Nat.eqb k i then Some t else find_tree i f'
  end.
Fixpoint del_tree (i : nat) (f : list (nat * tree)) : list (nat * tree) :=
  match f with
  | [] => []
  | (k, t) :: f' => if Nat.eqb k i then f' else (k, t) :: del_tree i f'
  end.

(* forest after replaying the path; None as soon as a step names a missing / reused id *)
Fixpoint ssa_replay (nxt : nat) (f : list (nat * tree)) (path : list (nat * nat)) : option (list (nat * tree)) :=
  match path with
  | [] => Some f
  | (i, j) :: path' =>
      if Nat.eqb i j then None else
      match find_tree i f, find_tree j f with
      | Some ti, Some tj => ssa_replay (S nxt) ((nxt, Node ti tj) :: del_tree j (del_tree i f)) path'
      | _, _ => None
      end
  end.
Definition ssa_tree (N : nat) (path : list (nat * nat)) : option tree :=
  match ssa_replay N (map (fun i => (i, Leaf i)) (seq 0 N)) path with
  | Some [(_, t)] => Some t
  | _ => None
  end.
Definition ssa_path_complete_b (N : nat) (path : list (nat * nat)) : bool :=
  match ssa_tree N path with Some _ => true | None => false end.

(* an order (p, l, r)* is children-first: every non-leaf child was produced earlier *)
Fixpoint children_first_from (seen : list (list nat)) (order : list (list nat * (list nat * list nat))) : bool :=
  match order with
  | [] => true
  | (p, (l, r)) :: order' =>
      let ok := fun c => Nat.eqb (length c) 1 || existsb (list_nat_eqb c) seen in
      ok l && ok r && children_first_from (p :: seen) order'
  end.
Definition children_first_b := children_first_from [].

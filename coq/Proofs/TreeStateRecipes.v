(* TreeStateRecipes.v -- C02 step 3: the index-order invariant (A) of the mutable tree is preserved
   by every primitive; recipe consistency (B) is established by _reset_contraction_recipes /
   reset_contraction_indices and preserved by the getters.
   Part 1: pointwise relations between info dicts (frames).
   Part 2: what the cost getters leave alone (strong frame, by induction on the fuel).
   Part 3: the invariant (A) and its preservation by frames / structural primitives.
   Later parts: recipe getters, sort, remove_ind, restore_ind, (B), the corollary. *)
From Coq Require Import Lia ZifyBool Permutation.
From Ctg Require Import Base Net BaseFacts NetFacts TreeState TreeStateFacts TreeStateInv.

(* ======================================================================== *)
(* Part 1 : pointwise relations                                              *)
Section IRel.
Variable R : node -> ninfo -> ninfo -> Prop.
Definition irel (a b : list (node * ninfo)) : Prop :=
  Forall2 (fun x y => fst x = fst y /\ R (fst x) (snd x) (snd y)) a b.

Lemma irel_nget a b : irel a b -> forall nd i, nget nd a = Some i -> exists i', nget nd b = Some i' /\ R nd i i'.
Proof.
  induction 1 as [|[k v] [k' v'] a b [Hk Hr] _ IH]; cbn; intros nd i; [discriminate|].
  cbn in Hk, Hr. subst k'. destruct (node_eqb k nd) eqn:E; [|apply IH].
  intros [= ->]. apply node_eqb_eq in E. subst. eauto.
Qed.
Lemma irel_nget_rev a b : irel a b -> forall nd i', nget nd b = Some i' -> exists i, nget nd a = Some i /\ R nd i i'.
Proof.
  induction 1 as [|[k v] [k' v'] a b [Hk Hr] _ IH]; cbn; intros nd i; [discriminate|].
  cbn in Hk, Hr. subst k'. destruct (node_eqb k nd) eqn:E; [|apply IH].
  intros [= ->]. apply node_eqb_eq in E. subst. eauto.
Qed.
Lemma irel_nkeys a b : irel a b -> nkeys b = nkeys a.
Proof. unfold nkeys. induction 1 as [|x y a b [Hk _] _ IH]; cbn; [reflexivity|]. rewrite IH, Hk. reflexivity. Qed.

Hypothesis Rrefl : forall q i, R q i i.
Lemma irel_refl a : irel a a.
Proof. induction a as [|[k v] a IH]; constructor; auto. Qed.
Lemma irel_nset nd i v a : nget nd a = Some i -> R nd i v -> irel a (nset nd v a).
Proof.
  induction a as [|[k w] a IH]; cbn; [discriminate|].
  destruct (node_eqb k nd) eqn:E.
  - intros [= ->] Hr. apply node_eqb_eq in E. subst k. constructor; [cbn; auto|apply irel_refl].
  - intros H Hr. constructor; [cbn; auto|apply IH; assumption].
Qed.
End IRel.

Lemma irel_trans (R : node -> ninfo -> ninfo -> Prop) : (forall q i j k, R q i j -> R q j k -> R q i k) ->
  forall a b c, irel R a b -> irel R b c -> irel R a c.
Proof.
  intros HT a b c H. revert c. induction H as [|x y a b [Hk Hr] _ IH]; intros c Hc; inversion Hc as [|y' z b' c' [Hk' Hr'] Hc']; subst; constructor.
  - split; [congruence|]. rewrite <- Hk in Hr'. eapply HT; eassumption.
  - apply IH, Hc'.
Qed.
Lemma irel_weaken (R R' : node -> ninfo -> ninfo -> Prop) : (forall q i j, R q i j -> R' q i j) ->
  forall a b, irel R a b -> irel R' a b.
Proof. intros HW a b H. induction H as [|x y a b [Hk Hr] _ IH]; constructor; auto. Qed.

(* states: pointwise on info, same children / sliced, an exception stays raised *)
Definition srel (R : node -> ninfo -> ninfo -> Prop) (s s' : tstate) : Prop :=
  irel R (info s) (info s') /\ children s' = children s /\ sliced s' = sliced s /\ (err s = true -> err s' = true).

Lemma srel_refl (R : node -> ninfo -> ninfo -> Prop) s : (forall q i, R q i i) -> srel R s s.
Proof. intros HR. split; [apply irel_refl, HR|auto]. Qed.
Lemma srel_trans (R : node -> ninfo -> ninfo -> Prop) s1 s2 s3 : (forall q i j k, R q i j -> R q j k -> R q i k) ->
  srel R s1 s2 -> srel R s2 s3 -> srel R s1 s3.
Proof.
  intros HT (A1&A2&A3&A4) (B1&B2&B3&B4). split; [eapply irel_trans; eassumption|].
  split; [congruence|]. split; [congruence|auto].
Qed.
Lemma srel_weaken (R R' : node -> ninfo -> ninfo -> Prop) s s' : (forall q i j, R q i j -> R' q i j) -> srel R s s' -> srel R' s s'.
Proof. intros HW (A1&A2&A3&A4). split; [eapply irel_weaken; eassumption|auto]. Qed.
(* a change of fields other than info / children / sliced *)
Lemma srel_fields (R : node -> ninfo -> ninfo -> Prop) s s' : (forall q i, R q i i) -> info s' = info s -> children s' = children s -> sliced s' = sliced s ->
  (err s = true -> err s' = true) -> srel R s s'.
Proof. intros HR E1 E2 E3 E4. split; [rewrite E1; apply irel_refl, HR|auto]. Qed.
Lemma srel_upd (R : node -> ninfo -> ninfo -> Prop) nd f s : (forall q i, R q i i) -> (forall i, nget nd (info s) = Some i -> R nd i (f i)) ->
  srel R s (upd_info nd f s).
Proof.
  intros HR Hf. unfold upd_info. destruct (nget nd (info s)) as [i|] eqn:E.
  - split; [cbn; apply (irel_nset R HR nd i); [exact E|apply Hf; reflexivity]|cbn; auto].
  - apply srel_fields; auto.
Qed.
Lemma srel_rd {A} (R : node -> ninfo -> ninfo -> Prop) (fld : ninfo -> option A) s s' nd :
  srel R s s' -> (forall q i j, R q i j -> fld j = fld i) -> rd fld s' nd = rd fld s nd.
Proof.
  intros (A1&_) HF. unfold rd. destruct (nget nd (info s)) as [i|] eqn:E.
  - destruct (irel_nget R _ _ A1 nd i E) as (i' & E' & Hr). rewrite E'. eapply HF, Hr.
  - destruct (nget nd (info s')) as [i'|] eqn:E'; [|reflexivity].
    destruct (irel_nget_rev R _ _ A1 nd i' E') as (i & Ei & _). congruence.
Qed.

(* ======================================================================== *)
(* Part 2 : the cost getters fill legs / involved / size / flops and nothing else;
   a cached legs dict is never replaced                                      *)
Definition rec_same (i i' : ninfo) : Prop :=
  i_inds i' = i_inds i /\ i_eq i' = i_eq i /\ i_can_dot i' = i_can_dot i /\ i_tdaxes i' = i_tdaxes i /\ i_tdperm i' = i_tdperm i.
Definition legs_step (LV : node -> legs -> Prop) (nd : node) (a b : option legs) : Prop :=
  match a with Some lg => b = Some lg | None => forall lg, b = Some lg -> LV nd lg end.
(* Rc: recipes and index order untouched; legs only filled, with an LV-valid value *)
Definition Rc (LV : node -> legs -> Prop) (nd : node) (i i' : ninfo) : Prop :=
  rec_same i i' /\ legs_step LV nd (i_legs i) (i_legs i').
(* the same, but legs may only be filled on the nodes in P *)
Definition RcB (LV : node -> legs -> Prop) (P : node -> bool) (nd : node) (i i' : ninfo) : Prop :=
  rec_same i i' /\ (if P nd then legs_step LV nd (i_legs i) (i_legs i') else i_legs i' = i_legs i).

Lemma rec_same_refl i : rec_same i i.
Proof. unfold rec_same. auto. Qed.
Lemma rec_same_trans i j k : rec_same i j -> rec_same j k -> rec_same i k.
Proof. unfold rec_same. intros (A1&A2&A3&A4&A5) (B1&B2&B3&B4&B5). repeat split; congruence. Qed.
Lemma legs_step_refl LV nd a : legs_step LV nd a a.
Proof. destruct a; cbn; [reflexivity|intros; discriminate]. Qed.
Lemma legs_step_trans LV nd a b c : legs_step LV nd a b -> legs_step LV nd b c -> legs_step LV nd a c.
Proof.
  destruct a as [lg|]; cbn.
  - intros ->. cbn. auto.
  - intros H1 H2 lg ->. destruct b as [lb|]; cbn in H2; [|apply H2; reflexivity].
    injection H2 as <-. apply H1. reflexivity.
Qed.
Lemma legs_step_eq LV nd a b : b = a -> legs_step LV nd a b.
Proof. intros ->. apply legs_step_refl. Qed.
Lemma Rc_refl LV q i : Rc LV q i i.
Proof. split; [apply rec_same_refl|apply legs_step_refl]. Qed.
Lemma Rc_trans LV q i j k : Rc LV q i j -> Rc LV q j k -> Rc LV q i k.
Proof. intros [A1 A2] [B1 B2]. split; [eapply rec_same_trans|eapply legs_step_trans]; eassumption. Qed.
Lemma RcB_refl LV P q i : RcB LV P q i i.
Proof. split; [apply rec_same_refl|]. destruct (P q); [apply legs_step_refl|reflexivity]. Qed.
Lemma RcB_trans LV P q i j k : RcB LV P q i j -> RcB LV P q j k -> RcB LV P q i k.
Proof.
  intros (A1&A2) (B1&B2). split; [eapply rec_same_trans; eassumption|]. destruct (P q).
  - eapply legs_step_trans; eassumption.
  - congruence.
Qed.
Lemma RcB_mono LV (P P' : node -> bool) q i j : (P q = true -> P' q = true) -> RcB LV P q i j -> RcB LV P' q i j.
Proof.
  intros HPP (A1&A2). split; [exact A1|]. destruct (P q) eqn:E.
  - rewrite (HPP eq_refl). exact A2.
  - destruct (P' q); [apply legs_step_eq, A2|exact A2].
Qed.
Lemma RcB_Rc LV P q i j : RcB LV P q i j -> Rc LV q i j.
Proof. intros (A1&A2). split; [exact A1|]. destruct (P q); [exact A2|apply legs_step_eq, A2]. Qed.
Lemma RcB_keep LV P q i j : rec_same i j -> i_legs j = i_legs i -> RcB LV P q i j.
Proof. intros A1 A2. split; [exact A1|]. destruct (P q); [apply legs_step_eq, A2|exact A2]. Qed.

Section Getters.
Variable n : net.
Notation N := (NN n).
Hypothesis HN : 2 <= N.

(* an exact-order requirement on the legs of leaves (the order of the pre-processed array)
   and of the root (the declared output order) *)
Definition fresh_ok (sl : list slinfo) (nd : node) (lg : legs) : Prop :=
  (length nd = 1 -> lg = leaf_legs n sl (hd 0 nd)) /\ (length nd = N -> lkeys lg = lkeys (root_legs n sl)).

(* list-level well-formedness of the children dict: enough for "children are shorter" *)
Definition chok (ch : list (node * (node * node))) : Prop :=
  forall p l r, In (p, (l, r)) ch -> l <> [] /\ r <> [] /\ NoDup (l ++ r) /\ Permutation p (l ++ r).
Lemma chok_dec ch p l r : chok ch -> nget p ch = Some (l, r) -> length l < length p /\ length r < length p.
Proof.
  intros H E. destruct (H p l r (nget_In _ _ _ E)) as (Hl&Hr&_&HP).
  apply Permutation_length in HP. rewrite app_length in HP. destruct l, r; try congruence; cbn in *; lia.
Qed.

Definition lenle (m : nat) (q : node) : bool := Nat.leb (length q) m.
Definition lenlt (m : nat) (q : node) : bool := Nat.ltb (length q) m.
Notation RB sl P := (RcB (fresh_ok sl) P).

Lemma srel_legs_keep LV P s s' nd : srel (RcB LV P) s s' -> P nd = false -> rd i_legs s' nd = rd i_legs s nd.
Proof.
  intros (A1&_) HP. unfold rd. destruct (nget nd (info s)) as [i|] eqn:E.
  - destruct (irel_nget _ _ _ A1 nd i E) as (i' & E' & _ & Hr). rewrite E'. rewrite HP in Hr. exact Hr.
  - destruct (nget nd (info s')) as [i'|] eqn:E'; [|reflexivity].
    destruct (irel_nget_rev _ _ _ A1 nd i' E') as (i & Ei & _). congruence.
Qed.
Lemma srelB_trans LV P s1 s2 s3 : srel (RcB LV P) s1 s2 -> srel (RcB LV P) s2 s3 -> srel (RcB LV P) s1 s3.
Proof. apply srel_trans. intros q i j k. apply RcB_trans. Qed.
Lemma srelB_mono LV (P P' : node -> bool) s s' : (forall q, P q = true -> P' q = true) -> srel (RcB LV P) s s' -> srel (RcB LV P') s s'.
Proof. intros H. apply srel_weaken. intros q i j. apply RcB_mono, H. Qed.
Lemma srelB_keep LV P nd f s : (forall i, rec_same i (f i) /\ i_legs (f i) = i_legs i) -> srel (RcB LV P) s (upd_info nd f s).
Proof. intros Hf. apply srel_upd; [intros; apply RcB_refl|]. intros i _. apply RcB_keep; apply Hf. Qed.
(* caching a freshly computed legs dict on a node that has none *)
Lemma upd_legs_fill LV P s s1 nd v : srel (RcB LV P) s s1 -> rd i_legs s1 nd = None -> LV nd v -> P nd = true ->
  srel (RcB LV P) s (upd_info nd (w_legs (Some v)) s1).
Proof.
  intros H1 Hr Hv HP. eapply srelB_trans; [exact H1|]. apply srel_upd; [intros; apply RcB_refl|].
  intros i Hi. split; [unfold rec_same; cbn; auto|]. rewrite HP. cbn [w_legs i_legs].
  rewrite (rd_None_get i_legs s1 nd i Hr Hi). cbn. intros lg [= <-]. exact Hv.
Qed.

Definition FL (f : nat) : Prop := forall s nd, chok (children s) ->
  srel (RB (sliced s) (lenle (length nd))) s (fst (get_legs n f s nd)).
Definition FI (f : nat) : Prop := forall s nd, chok (children s) ->
  srel (RB (sliced s) (lenlt (length nd))) s (fst (get_involved n f s nd)).

Lemma fallback_frame f' : FL f' -> forall xs s2 acc, chok (children s2) ->
  srel (RB (sliced s2) (lenle 1)) s2
       (fst (fold_left (fun acc i => let '(sa, l) := get_legs n f' (fst acc) [i] in (sa, snd acc ++ [l])) xs (s2, acc))).
Proof.
  intros HF. induction xs as [|x xs IH]; intros s2 acc Hch; cbn [fold_left]; [apply srel_refl; intros; apply RcB_refl|].
  cbn [fst snd]. pose proof (HF s2 [x] Hch) as H1. destruct (get_legs n f' s2 [x]) as [sa l]. cbn [fst] in H1.
  change (lenle (length [x])) with (lenle 1) in H1.
  destruct H1 as (A1&A2&A3&A4). eapply srelB_trans; [exact (conj A1 (conj A2 (conj A3 A4)))|].
  rewrite <- A3. apply IH. rewrite A2. exact Hch.
Qed.

Lemma frames_step f' : FL f' /\ FI f' -> FL (S f') /\ FI (S f').
Proof.
  intros [HFL HFI]. split.
  - intros s nd Hch. rewrite get_legs_S. destruct (rd i_legs s nd) as [lg|] eqn:Er; [apply srel_refl; intros; apply RcB_refl|].
    assert (HPnd : lenle (length nd) nd = true) by (unfold lenle; apply Nat.leb_refl).
    destruct (Nat.eqb_spec (length nd) 1) as [E1|E1].
    { unfold compute_leaf_legs. cbn [fst snd].
      set (s' := match leaf_preproc n (sliced s) (hd 0 nd) with Some tk => set_preproc (pset (hd 0 nd) (canon_eq1 tk) (preproc s)) s | None => s end).
      assert (Ei : info s' = info s) by (unfold s'; destruct (leaf_preproc n (sliced s) (hd 0 nd)); reflexivity).
      apply (upd_legs_fill _ _ s s').
      - apply srel_fields; [intros; apply RcB_refl|exact Ei| | |]; unfold s'; destruct (leaf_preproc n (sliced s) (hd 0 nd)); auto.
      - unfold rd in *. rewrite Ei. exact Er.
      - split; [reflexivity|lia].
      - exact HPnd. }
    destruct (Nat.eqb_spec (length nd) N) as [EN|EN].
    { cbn [fst snd]. apply (upd_legs_fill _ _ s s); [apply srel_refl; intros; apply RcB_refl|exact Er| |exact HPnd].
      split; [lia|reflexivity]. }
    assert (Hv : forall v, fresh_ok (sliced s) nd v) by (intros v; split; intros; contradiction).
    pose proof (HFI s nd Hch) as H2.
    destruct (get_involved n f' s nd) as [s2 [inv|]] eqn:Ei; cbn [fst] in H2.
    + cbn [fst snd]. apply (upd_legs_fill _ _ s s2); [| |apply Hv|exact HPnd].
      * eapply srelB_mono; [|exact H2]. intros q. unfold lenlt, lenle. intros H. apply Nat.ltb_lt in H. apply Nat.leb_le. lia.
      * rewrite (srel_legs_keep _ _ s s2 nd H2); [exact Er|]. unfold lenlt. apply Nat.ltb_irrefl.
    + assert (Hch2 : chok (children s2)) by (destruct H2 as (_&E&_); rewrite E; exact Hch).
      assert (Esl2 : sliced s2 = sliced s) by apply H2.
      pose proof (fallback_frame f' HFL nd s2 [] Hch2) as H3. rewrite Esl2 in H3.
      destruct (fold_left _ nd (s2, [])) as [s3 ls] eqn:Ef. cbn [fst] in H3. cbn [fst snd].
      assert (Er2 : rd i_legs s2 nd = None).
      { rewrite (srel_legs_keep _ _ s s2 nd H2); [exact Er|]. unfold lenlt. apply Nat.ltb_irrefl. }
      destruct (Nat.eq_dec (length nd) 0) as [E0|E0].
      * apply length_zero_iff_nil in E0. subst nd. cbn in Ef. injection Ef as <- <-.
        apply (upd_legs_fill _ _ s s2); [|exact Er2|apply Hv|exact HPnd].
        eapply srelB_mono; [|exact H2]. intros q. unfold lenlt, lenle. intros H. apply Nat.ltb_lt in H. apply Nat.leb_le. lia.
      * apply (upd_legs_fill _ _ s s3); [| |apply Hv|exact HPnd].
        -- eapply srelB_trans.
           ++ eapply srelB_mono; [|exact H2]. intros q. unfold lenlt, lenle. intros H. apply Nat.ltb_lt in H. apply Nat.leb_le. lia.
           ++ eapply srelB_mono; [|exact H3]. intros q. unfold lenle. intros H. apply Nat.leb_le in H. apply Nat.leb_le. lia.
        -- rewrite (srel_legs_keep _ _ s2 s3 nd H3); [exact Er2|]. unfold lenle. apply Nat.leb_gt. lia.
  - intros s nd Hch. rewrite get_involved_S. destruct (rd i_involved s nd) as [inv|] eqn:Er; [apply srel_refl; intros; apply RcB_refl|].
    destruct (Nat.eqb (length nd) 1).
    { cbn [fst]. apply srelB_keep. intros i. split; [unfold rec_same; cbn; auto|reflexivity]. }
    destruct (nget nd (children s)) as [[l r]|] eqn:Ech; [|apply srel_refl; intros; apply RcB_refl].
    destruct (chok_dec _ _ _ _ Hch Ech) as [Ll Lr].
    pose proof (HFL s l Hch) as H1. destruct (get_legs n f' s l) as [s1 ll]. cbn [fst] in H1.
    assert (Hch1 : chok (children s1)) by (destruct H1 as (_&E&_); rewrite E; exact Hch).
    assert (Esl1 : sliced s1 = sliced s) by apply H1.
    pose proof (HFL s1 r Hch1) as H2. rewrite Esl1 in H2. destruct (get_legs n f' s1 r) as [s2 lr]. cbn [fst] in H2. cbn [fst].
    eapply srelB_trans; [|apply srelB_keep; intros i; split; [unfold rec_same; cbn; auto|reflexivity]].
    eapply srelB_trans.
    + eapply srelB_mono; [|exact H1]. intros q. unfold lenlt, lenle. intros H. apply Nat.leb_le in H. apply Nat.ltb_lt. lia.
    + eapply srelB_mono; [|exact H2]. intros q. unfold lenlt, lenle. intros H. apply Nat.leb_le in H. apply Nat.ltb_lt. lia.
Qed.
Lemma frames_all f : FL f /\ FI f.
Proof.
  induction f as [|f IH]; [|apply frames_step, IH]. split; intros s nd _; cbn [get_legs get_involved fst];
    (apply srel_fields; [intros; apply RcB_refl|reflexivity|reflexivity|reflexivity|reflexivity]).
Qed.

Notation RC sl := (Rc (fresh_ok sl)).
Lemma srelC_trans LV s1 s2 s3 : srel (Rc LV) s1 s2 -> srel (Rc LV) s2 s3 -> srel (Rc LV) s1 s3.
Proof. apply srel_trans. intros q i j k. apply Rc_trans. Qed.
Lemma srelC_refl LV s : srel (Rc LV) s s.
Proof. apply srel_refl. intros; apply Rc_refl. Qed.
Lemma srelC_fields LV s s' : info s' = info s -> children s' = children s -> sliced s' = sliced s ->
  (err s = true -> err s' = true) -> srel (Rc LV) s s'.
Proof. apply srel_fields. intros; apply Rc_refl. Qed.
Lemma srelC_keep LV nd f s : (forall i, rec_same i (f i) /\ i_legs (f i) = i_legs i) -> srel (Rc LV) s (upd_info nd f s).
Proof. intros Hf. apply srel_upd; [intros; apply Rc_refl|]. intros i _. split; [apply Hf|apply legs_step_eq, Hf]. Qed.

Lemma g_legs_rel s nd : chok (children s) -> srel (RC (sliced s)) s (fst (g_legs n s nd)).
Proof. intros H. eapply srel_weaken; [|apply (proj1 (frames_all (fuel n s)) s nd H)]. intros q i j. apply RcB_Rc. Qed.
Lemma g_involved_rel s nd : chok (children s) -> srel (RC (sliced s)) s (fst (g_involved n s nd)).
Proof.
  intros H. unfold g_involved. pose proof (proj2 (frames_all (fuel n s)) s nd H) as H1.
  destruct (get_involved n (fuel n s) s nd) as [s' [v|]]; cbn [fst] in *.
  - eapply srel_weaken; [|exact H1]. intros q i j. apply RcB_Rc.
  - eapply srelC_trans; [eapply srel_weaken; [|exact H1]; intros q i j; apply RcB_Rc|].
    apply srelC_fields; auto.
Qed.
Lemma g_size_rel s nd : chok (children s) -> srel (RC (sliced s)) s (fst (g_size n s nd)).
Proof.
  intros H. unfold g_size. destruct (rd i_size s nd); [apply srelC_refl|].
  pose proof (g_legs_rel s nd H) as H1. destruct (g_legs n s nd) as [s1 l]. cbn [fst] in *.
  eapply srelC_trans; [exact H1|]. apply srelC_keep. intros i. split; [unfold rec_same; cbn; auto|reflexivity].
Qed.
Lemma g_flops_rel s nd : chok (children s) -> srel (RC (sliced s)) s (fst (g_flops n s nd)).
Proof.
  intros H. unfold g_flops. destruct (rd i_flops s nd); [apply srelC_refl|].
  destruct (Nat.eqb (length nd) 1).
  { cbn [fst]. apply srelC_keep. intros i. split; [unfold rec_same; cbn; auto|reflexivity]. }
  pose proof (g_involved_rel s nd H) as H1. destruct (g_involved n s nd) as [s1 l]. cbn [fst] in *.
  eapply srelC_trans; [exact H1|]. apply srelC_keep. intros i. split; [unfold rec_same; cbn; auto|reflexivity].
Qed.
(* the value g_legs returns is the one cached on the node (when the node has an entry) *)
Lemma g_legs_cached s nd : nget nd (info (fst (g_legs n s nd))) = None \/ rd i_legs (fst (g_legs n s nd)) nd = Some (snd (g_legs n s nd)).
Proof.
  unfold g_legs. destruct (fuel_S n HN s) as [f ->]. rewrite get_legs_S.
  destruct (rd i_legs s nd) as [l|] eqn:Er; [right; exact Er|].
  match goal with |- context [let '(s1, v) := ?e in _] => destruct e as [s1 v] end. cbn [fst snd].
  unfold rd. rewrite nget_upd_same. destruct (nget nd (info s1)); cbn; auto.
Qed.

(* ---- tree.preprocessing: only compute_leaf_legs writes it (when it caches the legs of a leaf) ---- *)
Definition preok (sl : list slinfo) (k : nat) (e : list nat * list nat) : Prop :=
  exists tk, leaf_preproc n sl k = Some tk /\ canon_eq1 tk = e.
Definition p2 (sl : list slinfo) (k : nat) (p : list (nat * (list nat * list nat))) : Prop :=
  leaf_preproc n sl k <> None -> pget k p <> None.
Definition pkeys (p : list (nat * (list nat * list nat))) : list nat := map fst p.
Definition pstep (sl : list slinfo) (s s' : tstate) : Prop :=
  (NoDup (pkeys (preproc s)) -> NoDup (pkeys (preproc s'))) /\
  (forall k, pget k (preproc s) <> None -> pget k (preproc s') <> None) /\
  (forall k e, pget k (preproc s') = Some e -> pget k (preproc s) = Some e \/ (preok sl k e /\ rd i_legs s [k] = None)) /\
  (forall k, rd i_legs s [k] = None -> rd i_legs s' [k] <> None -> p2 sl k (preproc s')).
Lemma pstep_same sl s s' : preproc s' = preproc s -> (forall k, rd i_legs s' [k] = rd i_legs s [k]) -> pstep sl s s'.
Proof.
  intros E H. unfold pstep. rewrite E. split; [auto|]. split; [auto|]. split; [auto|]. intros k H1 H2. rewrite H in H2. contradiction.
Qed.
Lemma pstep_refl sl s : pstep sl s s.
Proof. apply pstep_same; auto. Qed.
Lemma pstep_trans sl s1 s2 s3 : pstep sl s1 s2 -> pstep sl s2 s3 ->
  (forall k, rd i_legs s2 [k] = None -> rd i_legs s1 [k] = None) -> pstep sl s1 s3.
Proof.
  intros (A1&A2&A3&A4) (B1&B2&B3&B4) Hm. split; [auto|]. split; [auto|]. split.
  - intros k e H. destruct (B3 k e H) as [H'|[H1 H2]]; [apply A3, H'|right; split; [exact H1|apply Hm, H2]].
  - intros k H1 H3. destruct (rd i_legs s2 [k]) as [lg|] eqn:E2.
    + intros Hl. apply B2, (A4 k H1); [rewrite E2; discriminate|exact Hl].
    + apply B4; [exact E2|exact H3].
Qed.
Lemma preproc_upd nd f s : preproc (upd_info nd f s) = preproc s.
Proof. unfold upd_info. destruct (nget nd (info s)); reflexivity. Qed.
Lemma pstep_upd_keep sl nd f s : (forall i, i_legs (f i) = i_legs i) -> pstep sl s (upd_info nd f s).
Proof.
  intros Hf. apply pstep_same; [apply preproc_upd|]. intros k.
  destruct (node_eq_dec [k] nd) as [<-|Hq]; [|apply rd_upd_other, Hq].
  destruct (nget [k] (info s)) as [i|] eqn:E.
  - rewrite (rd_upd_same i_legs [k] f s i E). unfold rd. rewrite E. apply Hf.
  - unfold upd_info. rewrite E. reflexivity.
Qed.
Lemma pstep_upd_nonleaf sl nd f s : length nd <> 1 -> pstep sl s (upd_info nd f s).
Proof.
  intros Hl. apply pstep_same; [apply preproc_upd|]. intros k. apply rd_upd_other. intros E. apply Hl. rewrite <- E. reflexivity.
Qed.
Lemma pget_pset_same {V} k (v : V) d : pget k (pset k v d) = Some v.
Proof.
  induction d as [|[k' w] d IH]; cbn; [rewrite Nat.eqb_refl; reflexivity|].
  destruct (Nat.eqb k' k) eqn:E; cbn; rewrite E; [reflexivity|exact IH].
Qed.
Lemma pget_pset_other {V} k k' (v : V) d : k' <> k -> pget k' (pset k v d) = pget k' d.
Proof.
  intros Hn. induction d as [|[k0 w] d IH]; cbn.
  - destruct (Nat.eqb_spec k k'); [congruence|reflexivity].
  - destruct (Nat.eqb_spec k0 k) as [->|Hk]; cbn.
    + destruct (Nat.eqb_spec k k'); [congruence|reflexivity].
    + destruct (Nat.eqb k0 k'); [reflexivity|exact IH].
Qed.
Lemma pget_in_keys {V} k (d : list (nat * V)) : pget k d <> None <-> In k (map fst d).
Proof.
  induction d as [|[k' w] d IH]; cbn; [split; [congruence|tauto]|].
  destruct (Nat.eqb_spec k' k) as [->|Hn]; [split; [auto|discriminate]|].
  rewrite IH. split; [auto|]. intros [H|H]; [congruence|exact H].
Qed.
Lemma NoDup_pset {V} k (v : V) d : NoDup (map fst d) -> NoDup (map fst (pset k v d)).
Proof.
  induction d as [|[k' w] d IH]; cbn; intros ND; [constructor; [tauto|constructor]|].
  inversion ND as [|? ? Hn ND']; subst. destruct (Nat.eqb_spec k' k) as [->|Hk]; cbn; [constructor; assumption|].
  constructor; [|apply IH, ND']. intros Hin. apply Hn. apply pget_in_keys in Hin. rewrite pget_pset_other in Hin by exact Hk.
  apply pget_in_keys, Hin.
Qed.
(* compute_leaf_legs followed by caching the legs on the leaf *)
Lemma pstep_leaf_fill s nd v : length nd = 1 -> rd i_legs s nd = None ->
  pstep (sliced s) s (upd_info nd (w_legs (Some v)) (fst (compute_leaf_legs n s (hd 0 nd)))).
Proof.
  intros E1 Er. rewrite (len1 nd E1) in *. set (k := hd 0 nd) in *. cbn [hd]. unfold compute_leaf_legs. cbn [fst].
  set (s' := match leaf_preproc n (sliced s) k with Some tk => set_preproc (pset k (canon_eq1 tk) (preproc s)) s | None => s end).
  assert (Ei : info s' = info s) by (unfold s'; destruct (leaf_preproc n (sliced s) k); reflexivity).
  assert (Hrd : forall k', k' <> k -> rd i_legs (upd_info [k] (w_legs (Some v)) s') [k'] = rd i_legs s [k']).
  { intros k' Hk. rewrite rd_upd_other by congruence. unfold rd. rewrite Ei. reflexivity. }
  unfold pstep. rewrite preproc_upd.
  destruct (leaf_preproc n (sliced s) k) as [tk|] eqn:El; unfold s'; cbn [set_preproc preproc].
  - split; [apply NoDup_pset|]. split.
    { intros k' H. destruct (Nat.eq_dec k' k) as [->|Hk]; [rewrite pget_pset_same; discriminate|rewrite pget_pset_other by exact Hk; exact H]. }
    split.
    { intros k' e H. destruct (Nat.eq_dec k' k) as [->|Hk].
      - rewrite pget_pset_same in H. injection H as <-. right. split; [exists tk; auto|exact Er].
      - rewrite pget_pset_other in H by exact Hk. left. exact H. }
    intros k' H1 H2. destruct (Nat.eq_dec k' k) as [->|Hk]; [intros _; rewrite pget_pset_same; discriminate|].
    rewrite Hrd in H2 by exact Hk. contradiction.
  - split; [auto|]. split; [auto|]. split; [auto|]. intros k' H1 H2.
    destruct (Nat.eq_dec k' k) as [->|Hk]; [intros Hc; congruence|]. rewrite Hrd in H2 by exact Hk. contradiction.
Qed.
Lemma srelB_legs_none LV P s s' q : srel (RcB LV P) s s' -> rd i_legs s' q = None -> rd i_legs s q = None.
Proof.
  intros (A1&_) H. unfold rd in *. destruct (nget q (info s)) as [i|] eqn:E; [|reflexivity].
  destruct (irel_nget _ _ _ A1 q i E) as (i' & E' & _ & Hr). rewrite E' in H.
  destruct (i_legs i) as [lg|] eqn:El; [|reflexivity]. exfalso.
  destruct (P q); [cbn in Hr|]; congruence.
Qed.

Definition PL (f : nat) : Prop := forall s nd, chok (children s) -> pstep (sliced s) s (fst (get_legs n f s nd)).
Definition PIv (f : nat) : Prop := forall s nd, chok (children s) -> pstep (sliced s) s (fst (get_involved n f s nd)).
Lemma fallback_pstep f' : PL f' -> forall xs s2 acc, chok (children s2) ->
  pstep (sliced s2) s2
       (fst (fold_left (fun acc i => let '(sa, l) := get_legs n f' (fst acc) [i] in (sa, snd acc ++ [l])) xs (s2, acc))).
Proof.
  intros HF. induction xs as [|x xs IH]; intros s2 acc Hch; cbn [fold_left]; [apply pstep_refl|].
  cbn [fst snd]. pose proof (HF s2 [x] Hch) as H1. pose proof (proj1 (frames_all f') s2 [x] Hch) as F1.
  destruct (get_legs n f' s2 [x]) as [sa l]. cbn [fst] in H1, F1.
  assert (Esl : sliced sa = sliced s2) by apply F1. assert (Ech : children sa = children s2) by apply F1.
  eapply pstep_trans; [exact H1| |intros k; apply (srelB_legs_none _ _ _ _ _ F1)].
  rewrite <- Esl. apply IH. rewrite Ech. exact Hch.
Qed.
Lemma psteps_step f' : PL f' /\ PIv f' -> PL (S f') /\ PIv (S f').
Proof.
  intros [HPL HPI]. split.
  - intros s nd Hch. rewrite get_legs_S. destruct (rd i_legs s nd) as [lg|] eqn:Er; [apply pstep_refl|].
    destruct (Nat.eqb_spec (length nd) 1) as [E1|E1].
    { pose proof (pstep_leaf_fill s nd (leaf_legs n (sliced s) (hd 0 nd)) E1 Er) as H.
      unfold compute_leaf_legs in *. cbn [fst snd] in *. exact H. }
    destruct (Nat.eqb (length nd) N).
    { cbn [fst snd]. apply pstep_upd_nonleaf, E1. }
    pose proof (HPI s nd Hch) as H2. pose proof (proj2 (frames_all f') s nd Hch) as F2.
    destruct (get_involved n f' s nd) as [s2 [inv|]] eqn:Ei; cbn [fst] in H2, F2.
    + cbn [fst snd]. eapply pstep_trans; [exact H2|apply pstep_upd_nonleaf, E1|intros k; apply (srelB_legs_none _ _ _ _ _ F2)].
    + assert (Hch2 : chok (children s2)) by (destruct F2 as (_&E&_); rewrite E; exact Hch).
      assert (Esl2 : sliced s2 = sliced s) by apply F2.
      pose proof (fallback_pstep f' HPL nd s2 [] Hch2) as H3. rewrite Esl2 in H3.
      pose proof (fallback_frame f' (proj1 (frames_all f')) nd s2 [] Hch2) as F3.
      destruct (fold_left _ nd (s2, [])) as [s3 ls] eqn:Ef. cbn [fst] in H3, F3. cbn [fst snd].
      eapply pstep_trans; [exact H2| |intros k; apply (srelB_legs_none _ _ _ _ _ F2)].
      eapply pstep_trans; [exact H3|apply pstep_upd_nonleaf, E1|intros k; apply (srelB_legs_none _ _ _ _ _ F3)].
  - intros s nd Hch. rewrite get_involved_S. destruct (rd i_involved s nd) as [inv|] eqn:Er; [apply pstep_refl|].
    destruct (Nat.eqb (length nd) 1).
    { cbn [fst]. apply pstep_upd_keep. intros i. reflexivity. }
    destruct (nget nd (children s)) as [[l r]|] eqn:Ech; [|apply pstep_refl].
    pose proof (HPL s l Hch) as H1. pose proof (proj1 (frames_all f') s l Hch) as F1.
    destruct (get_legs n f' s l) as [s1 ll]. cbn [fst] in H1, F1.
    assert (Hch1 : chok (children s1)) by (destruct F1 as (_&E&_); rewrite E; exact Hch).
    assert (Esl1 : sliced s1 = sliced s) by apply F1.
    pose proof (HPL s1 r Hch1) as H2. rewrite Esl1 in H2. pose proof (proj1 (frames_all f') s1 r Hch1) as F2.
    destruct (get_legs n f' s1 r) as [s2 lr]. cbn [fst] in H2, F2. cbn [fst].
    eapply pstep_trans; [exact H1| |intros k; apply (srelB_legs_none _ _ _ _ _ F1)].
    eapply pstep_trans; [exact H2|apply pstep_upd_keep; intros i; reflexivity|intros k; apply (srelB_legs_none _ _ _ _ _ F2)].
Qed.
Lemma psteps_all f : PL f /\ PIv f.
Proof.
  induction f as [|f IH]; [|apply psteps_step, IH]. split; intros s nd _; cbn [get_legs get_involved fst];
    (apply pstep_same; [reflexivity|intros; reflexivity]).
Qed.
Lemma srelC_legs_none LV s s' q : srel (Rc LV) s s' -> rd i_legs s' q = None -> rd i_legs s q = None.
Proof.
  intros (A1&_) H. unfold rd in *. destruct (nget q (info s)) as [i|] eqn:E; [|reflexivity].
  destruct (irel_nget _ _ _ A1 q i E) as (i' & E' & _ & Hr). rewrite E' in H.
  destruct (i_legs i) as [lg|] eqn:El; [|reflexivity]. cbn in Hr. congruence.
Qed.
Lemma g_legs_pstep s nd : chok (children s) -> pstep (sliced s) s (fst (g_legs n s nd)).
Proof. intros H. apply (proj1 (psteps_all (fuel n s)) s nd H). Qed.
Lemma g_involved_pstep s nd : chok (children s) -> pstep (sliced s) s (fst (g_involved n s nd)).
Proof.
  intros H. unfold g_involved. pose proof (proj2 (psteps_all (fuel n s)) s nd H) as H1.
  destruct (get_involved n (fuel n s) s nd) as [s' [v|]]; cbn [fst] in *; [exact H1|].
  destruct H1 as (A1&A2&A3&A4). split; [exact A1|]. split; [exact A2|]. split; [exact A3|exact A4].
Qed.
Lemma g_size_pstep s nd : chok (children s) -> pstep (sliced s) s (fst (g_size n s nd)).
Proof.
  intros H. unfold g_size. destruct (rd i_size s nd); [apply pstep_refl|].
  pose proof (g_legs_pstep s nd H) as H1. pose proof (g_legs_rel s nd H) as F1. destruct (g_legs n s nd) as [s1 l]. cbn [fst] in *.
  eapply pstep_trans; [exact H1|apply pstep_upd_keep; intros i; reflexivity|intros k; apply (srelC_legs_none _ _ _ _ F1)].
Qed.
Lemma g_flops_pstep s nd : chok (children s) -> pstep (sliced s) s (fst (g_flops n s nd)).
Proof.
  intros H. unfold g_flops. destruct (rd i_flops s nd); [apply pstep_refl|].
  destruct (Nat.eqb (length nd) 1); [cbn [fst]; apply pstep_upd_keep; intros i; reflexivity|].
  pose proof (g_involved_pstep s nd H) as H1. pose proof (g_involved_rel s nd H) as F1. destruct (g_involved n s nd) as [s1 l]. cbn [fst] in *.
  eapply pstep_trans; [exact H1|apply pstep_upd_keep; intros i; reflexivity|intros k; apply (srelC_legs_none _ _ _ _ F1)].
Qed.
End Getters.

(* ======================================================================== *)
(* Part 3 : the invariant (A)                                                *)
Section InvA.
Variable n : net.
Notation N := (NN n).
Hypothesis HN : 2 <= N.
Notation RC sl := (Rc (fresh_ok n sl)).

(* cost-only operations: the frame relative to the current sliced set *)
Definition crel (s s' : tstate) : Prop := srel (RC (sliced s)) s s' /\ pstep n (sliced s) s s'.
Lemma crel_srel s s' : crel s s' -> srel (RC (sliced s)) s s'.
Proof. intros [H _]. exact H. Qed.
Lemma crel_refl s : crel s s.
Proof. split; [apply srelC_refl|apply pstep_refl]. Qed.
Lemma crel_trans s1 s2 s3 : crel s1 s2 -> crel s2 s3 -> crel s1 s3.
Proof.
  unfold crel. intros [H1 Q1] [H2 Q2]. assert (E : sliced s2 = sliced s1) by apply H1. rewrite E in H2, Q2. split.
  - eapply srelC_trans; eassumption.
  - eapply pstep_trans; [exact Q1|exact Q2|intros k; apply (srelC_legs_none _ _ _ _ H1)].
Qed.
Lemma crel_chok s s' : crel s s' -> chok (children s) -> chok (children s').
Proof. intros [(_&E&_) _] H. rewrite E. exact H. Qed.
Lemma crel_fields s s' : info s' = info s -> children s' = children s -> sliced s' = sliced s ->
  (err s = true -> err s' = true) -> preproc s' = preproc s -> crel s s'.
Proof.
  intros E1 E2 E3 E4 E5. split; [apply srelC_fields; assumption|]. apply pstep_same; [exact E5|].
  intros k. unfold rd. rewrite E1. reflexivity.
Qed.
Lemma crel_keep nd f s : (forall i, rec_same i (f i) /\ i_legs (f i) = i_legs i) -> crel s (upd_info nd f s).
Proof. intros H. split; [apply srelC_keep, H|apply pstep_upd_keep; intros i; apply H]. Qed.
Lemma crel_err s s' : crel s s' -> err s' = false -> err s = false.
Proof. intros [(_&_&_&E) _] H. destruct (err s); [rewrite E in H by reflexivity; discriminate|reflexivity]. Qed.

Lemma g_legs_crel s nd : chok (children s) -> crel s (fst (g_legs n s nd)).
Proof. intros H. split; [apply g_legs_rel; assumption|apply g_legs_pstep; assumption]. Qed.
Lemma g_involved_crel s nd : chok (children s) -> crel s (fst (g_involved n s nd)).
Proof. intros H. split; [apply g_involved_rel; assumption|apply g_involved_pstep; assumption]. Qed.
Lemma g_size_crel s nd : chok (children s) -> crel s (fst (g_size n s nd)).
Proof. intros H. split; [apply g_size_rel; assumption|apply g_size_pstep; assumption]. Qed.
Lemma g_flops_crel s nd : chok (children s) -> crel s (fst (g_flops n s nd)).
Proof. intros H. split; [apply g_flops_rel; assumption|apply g_flops_pstep; assumption]. Qed.

Lemma update_tracked_crel nd s : chok (children s) -> crel s (update_tracked n nd s).
Proof.
  intros Hc. unfold update_tracked.
  set (s1 := if trk_flops s then _ else s).
  assert (H1 : crel s s1).
  { unfold s1. destruct (trk_flops s); [|apply crel_refl]. pose proof (g_flops_crel s nd Hc) as H.
    destruct (g_flops n s nd) as [sa fl]. cbn [fst] in H. eapply crel_trans; [exact H|]. apply crel_fields; cbn; auto. }
  set (s2 := if trk_write s1 then _ else s1).
  assert (H2 : crel s1 s2).
  { unfold s2. destruct (trk_write s1); [|apply crel_refl]. pose proof (g_size_crel s1 nd (crel_chok _ _ H1 Hc)) as H.
    destruct (g_size n s1 nd) as [sa fl]. cbn [fst] in H. eapply crel_trans; [exact H|]. apply crel_fields; cbn; auto. }
  eapply crel_trans; [exact H1|]. eapply crel_trans; [exact H2|].
  destruct (trk_size s2); [|apply crel_refl]. pose proof (g_size_crel s2 nd (crel_chok _ _ H2 (crel_chok _ _ H1 Hc))) as H.
  destruct (g_size n s2 nd) as [sa fl]. cbn [fst] in H. eapply crel_trans; [exact H|]. apply crel_fields; cbn; auto.
Qed.

Lemma stats_body_crel nodes : forall s, chok (children s) -> crel s (stats_body n s nodes).
Proof.
  unfold stats_body. induction nodes as [|plr nodes IH]; intros s Hc; cbn [fold_left]; [apply crel_refl|].
  pose proof (g_flops_crel s (fst plr) Hc) as H1. destruct (g_flops n s (fst plr)) as [s1 fl]. cbn [fst] in H1.
  set (s2 := set_flops (flops_ s1 + fl)%Z s1).
  assert (H2 : crel s s2) by (eapply crel_trans; [exact H1|apply crel_fields; cbn; auto]).
  pose proof (g_size_crel s2 (fst plr) (crel_chok _ _ H2 Hc)) as H3. destruct (g_size n s2 (fst plr)) as [s3 sz]. cbn [fst] in H3.
  set (s5 := set_sizes _ _).
  assert (H5 : crel s s5).
  { eapply crel_trans; [exact H2|]. eapply crel_trans; [exact H3|]. apply crel_fields; cbn; auto. }
  eapply crel_trans; [exact H5|]. apply IH. apply (crel_chok _ _ H5 Hc).
Qed.
Lemma contract_stats_crel force s : chok (children s) -> crel s (contract_stats n force s).
Proof.
  intros Hc. unfold contract_stats. destruct (force || negb (trk_flops s && trk_write s && trk_size s)); [|apply crel_refl].
  set (s0 := set_sizes mc_empty (set_write 0%Z (set_flops 0%Z s))).
  assert (H0 : crel s s0) by (apply crel_fields; cbn; auto).
  destruct (traverse n s0) as [nodes|]; [|eapply crel_trans; [exact H0|apply crel_fields; cbn; auto]].
  eapply crel_trans; [exact H0|]. eapply crel_trans; [apply stats_body_crel, (crel_chok _ _ H0 Hc)|]. apply crel_fields; cbn; auto.
Qed.
Lemma fold1_crel (g : tstate -> node -> tstate) (nodes : list (node * (node * node))) :
  (forall s nd, chok (children s) -> crel s (g s nd)) ->
  forall s, chok (children s) -> crel s (fold_left (fun s plr => g s (fst plr)) nodes s).
Proof.
  intros Hg. induction nodes as [|plr nodes IH]; intros s Hc; cbn [fold_left]; [apply crel_refl|].
  eapply crel_trans; [apply Hg, Hc|]. apply IH. apply (crel_chok _ _ (Hg s (fst plr) Hc) Hc).
Qed.
Lemma total_flops_crel s : chok (children s) -> crel s (total_flops_op n s).
Proof.
  intros Hc. unfold total_flops_op. destruct (trk_flops s); [apply crel_refl|].
  set (s0 := set_flops 0%Z s). assert (H0 : crel s s0) by (apply crel_fields; cbn; auto).
  destruct (traverse n s0) as [nodes|]; [|eapply crel_trans; [exact H0|apply crel_fields; cbn; auto]].
  eapply crel_trans; [exact H0|].
  eapply crel_trans; [|apply crel_fields; cbn; auto].
  apply (fold1_crel (fun s nd => let '(s1, fl) := g_flops n s nd in set_flops (flops_ s1 + fl)%Z s1)); [|apply (crel_chok _ _ H0 Hc)].
  intros s' nd Hc'. pose proof (g_flops_crel s' nd Hc') as H. destruct (g_flops n s' nd) as [s1 fl]. cbn [fst] in H.
  eapply crel_trans; [exact H|apply crel_fields; cbn; auto].
Qed.
Lemma total_write_crel s : chok (children s) -> crel s (total_write_op n s).
Proof.
  intros Hc. unfold total_write_op. destruct (trk_write s); [apply crel_refl|].
  set (s0 := set_write 0%Z s). assert (H0 : crel s s0) by (apply crel_fields; cbn; auto).
  destruct (traverse n s0) as [nodes|]; [|eapply crel_trans; [exact H0|apply crel_fields; cbn; auto]].
  eapply crel_trans; [exact H0|].
  eapply crel_trans; [|apply crel_fields; cbn; auto].
  apply (fold1_crel (fun s nd => let '(s1, sz) := g_size n s nd in set_write (write_ s1 + sz)%Z s1)); [|apply (crel_chok _ _ H0 Hc)].
  intros s' nd Hc'. pose proof (g_size_crel s' nd Hc') as H. destruct (g_size n s' nd) as [s1 fl]. cbn [fst] in H.
  eapply crel_trans; [exact H|apply crel_fields; cbn; auto].
Qed.
Lemma max_size_crel s : chok (children s) -> crel s (max_size_op n s).
Proof.
  intros Hc. unfold max_size_op. destruct (Nat.eqb N 1); [apply g_size_crel, Hc|]. destruct (trk_size s); [apply crel_refl|].
  set (s0 := set_sizes mc_empty s). assert (H0 : crel s s0) by (apply crel_fields; cbn; auto).
  destruct (traverse n s0) as [nodes|]; [|eapply crel_trans; [exact H0|apply crel_fields; cbn; auto]].
  eapply crel_trans; [exact H0|].
  eapply crel_trans; [|apply crel_fields; cbn; auto].
  apply (fold1_crel (fun s nd => let '(s1, sz) := g_size n s nd in set_sizes (mc_add sz (sizes_mc s1)) s1)); [|apply (crel_chok _ _ H0 Hc)].
  intros s' nd Hc'. pose proof (g_size_crel s' nd Hc') as H. destruct (g_size n s' nd) as [s1 fl]. cbn [fst] in H.
  eapply crel_trans; [exact H|apply crel_fields; cbn; auto].
Qed.

(* ---- the invariant ---- *)
Definition is_lr (nd : node) : bool := Nat.eqb (length nd) 1 || Nat.eqb (length nd) N.
(* v is the index order of a node whose legs are lg: exactly the key order on leaves and on the
   root, a duplicate-free enumeration elsewhere *)
Definition enum_ok (nd : node) (v : list ix) (lg : legs) : Prop :=
  if is_lr nd then v = lkeys lg else NoDup v /\ forall j, In j v <-> In j (lkeys lg).
Lemma enum_in nd v lg : enum_ok nd v lg -> forall j, In j v <-> In j (lkeys lg).
Proof. unfold enum_ok. destruct (is_lr nd); [intros -> j; tauto|intros [_ H]; exact H]. Qed.

(* X = true: the index-order clause is suspended on this node (in the middle of an update) *)
Definition entA (LV : node -> legs -> Prop) (X : bool) (nd : node) (i : ninfo) : Prop :=
  (forall lg, i_legs i = Some lg -> LV nd lg) /\
  (X = false -> forall v, i_inds i = Some v -> exists lg, i_legs i = Some lg /\ enum_ok nd v lg).
Definition PAX (LV : node -> legs -> Prop) (X : node -> bool) (s : tstate) : Prop :=
  forall nd i, nget nd (info s) = Some i -> entA LV (X nd) nd i.
Definition noX : node -> bool := fun _ => false.
Definition PA (s : tstate) : Prop := PAX (fresh_ok n (sliced s)) noX s.
Definition PAe (s : tstate) : Prop := err s = false -> PA s.

Lemma entA_noinfo (LV : node -> legs -> Prop) X nd : entA LV X nd noinfo.
Proof. split; cbn; intros; discriminate. Qed.
Lemma PAX_srel (LV LV' : node -> legs -> Prop) X s s' : PAX LV X s -> srel (Rc LV') s s' -> (forall nd lg, LV' nd lg -> LV nd lg) -> PAX LV X s'.
Proof.
  intros HP (A1&_) HL nd i' Hi'. destruct (irel_nget_rev _ _ _ A1 nd i' Hi') as (i & Hi & (Ei&_) & Hs).
  destruct (HP nd i Hi) as [P1 P2]. split.
  - intros lg Hl. unfold legs_step in Hs. destruct (i_legs i) as [lg0|] eqn:E0.
    + rewrite Hs in Hl. injection Hl as <-. apply P1. reflexivity.
    + apply HL, Hs, Hl.
  - intros HX v Hv. rewrite Ei in Hv. destruct (P2 HX v Hv) as (lg & El & He). exists lg. split; [|exact He].
    unfold legs_step in Hs. rewrite El in Hs. exact Hs.
Qed.
Lemma PAX_info (LV : node -> legs -> Prop) X s s' : info s' = info s -> PAX LV X s -> PAX LV X s'.
Proof. intros E H nd i Hi. rewrite E in Hi. apply H, Hi. Qed.
Lemma PAX_upd (LV : node -> legs -> Prop) X nd f s : PAX LV X s ->
  (forall i, nget nd (info s) = Some i -> entA LV (X nd) nd i -> entA LV (X nd) nd (f i)) -> PAX LV X (upd_info nd f s).
Proof.
  intros HP Hf q i' Hi'. destruct (node_eq_dec q nd) as [->|Hn].
  - rewrite nget_upd_same in Hi'. destruct (nget nd (info s)) as [i|] eqn:E; [|discriminate]. injection Hi' as <-.
    apply Hf; [reflexivity|apply HP, E].
  - rewrite nget_upd_other in Hi' by exact Hn. apply HP, Hi'.
Qed.
Lemma PAX_weaken (LV LV' : node -> legs -> Prop) X s : (forall nd lg, nget nd (info s) <> None -> LV nd lg -> LV' nd lg) -> PAX LV X s -> PAX LV' X s.
Proof.
  intros HL HP nd i Hi. destruct (HP nd i Hi) as [P1 P2]. split; [|exact P2].
  intros lg Hl. apply HL; [congruence|apply P1, Hl].
Qed.
Lemma PAX_unsuspend (LV : node -> legs -> Prop) (X : node -> bool) s : PAX LV X s ->
  (forall nd i, nget nd (info s) = Some i -> X nd = true -> i_inds i = None) -> PAX LV noX s.
Proof.
  intros HP HX nd i Hi. destruct (HP nd i Hi) as [P1 P2]. split; [exact P1|]. intros _ v Hv.
  destruct (X nd) eqn:E; [rewrite (HX nd i Hi E) in Hv; discriminate|apply P2; [reflexivity|exact Hv]].
Qed.
Lemma PAX_suspend (LV : node -> legs -> Prop) (X : node -> bool) s : PAX LV noX s -> PAX LV X s.
Proof. intros HP nd i Hi. destruct (HP nd i Hi) as [P1 P2]. split; [exact P1|]. intros _. apply P2. reflexivity. Qed.

Lemma PA_crel s s' : PA s -> crel s s' -> PA s'.
Proof.
  intros HP HC. apply crel_srel in HC. unfold PA. destruct HC as (A1&A2&A3&A4). rewrite A3.
  apply (PAX_srel _ (fresh_ok n (sliced s)) _ s s' HP); [exact (conj A1 (conj A2 (conj A3 A4)))|auto].
Qed.
Lemma PAe_crel s s' : PAe s -> crel s s' -> PAe s'.
Proof. intros HP HC He. apply (PA_crel s s'); [apply HP, (crel_err _ _ HC He)|exact HC]. Qed.

(* ---- structural primitives ---- *)
Lemma PAX_add_node (LV : node -> legs -> Prop) X nd s : PAX LV X s -> PAX LV X (add_node nd s).
Proof.
  intros HP. unfold add_node. destruct (nmem nd (info s)); [exact HP|].
  intros q i Hi. cbn [set_info info] in Hi.
  destruct (nget q (info s)) as [i0|] eqn:E.
  - rewrite (nget_app_l q (info s) [(nd, noinfo)] i0 E) in Hi. injection Hi as <-. apply HP, E.
  - rewrite (nget_app_r q (info s) [(nd, noinfo)] E) in Hi. cbn in Hi. destruct (node_eqb nd q); [|discriminate].
    injection Hi as <-. apply entA_noinfo.
Qed.

(* the part of _remove_node before the node is dropped *)
Definition rn_pre (nd : node) (s : tstate) : tstate :=
  let s1 := if trk_size s then let '(sa, sz) := g_size n s nd in set_sizes (mc_discard sz (sizes_mc sa)) sa else s in
  let s2 := if trk_flops s1 then let '(sa, fl) := g_flops n s1 nd in set_flops (flops_ sa - fl)%Z sa else s1 in
  if trk_write s2 then let '(sa, sz) := g_size n s2 nd in set_write (write_ sa - sz)%Z sa else s2.
Lemma rn_pre_crel nd s : chok (children s) -> crel s (rn_pre nd s).
Proof.
  intros Hc. unfold rn_pre.
  set (s1 := if trk_size s then _ else s).
  assert (H1 : crel s s1).
  { unfold s1. destruct (trk_size s); [|apply crel_refl]. pose proof (g_size_crel s nd Hc) as H.
    destruct (g_size n s nd) as [sa fl]. cbn [fst] in H. eapply crel_trans; [exact H|]. apply crel_fields; cbn; auto. }
  set (s2 := if trk_flops s1 then _ else s1).
  assert (H2 : crel s1 s2).
  { unfold s2. destruct (trk_flops s1); [|apply crel_refl]. pose proof (g_flops_crel s1 nd (crel_chok _ _ H1 Hc)) as H.
    destruct (g_flops n s1 nd) as [sa fl]. cbn [fst] in H. eapply crel_trans; [exact H|]. apply crel_fields; cbn; auto. }
  eapply crel_trans; [exact H1|]. eapply crel_trans; [exact H2|].
  destruct (trk_write s2); [|apply crel_refl]. pose proof (g_size_crel s2 nd (crel_chok _ _ H2 (crel_chok _ _ H1 Hc))) as H.
  destruct (g_size n s2 nd) as [sa fl]. cbn [fst] in H. eapply crel_trans; [exact H|]. apply crel_fields; cbn; auto.
Qed.
Lemma remove_node_eq nd s : remove_node n nd s =
  if Nat.eqb (length nd) 1 then set_preproc (pdel (hd 0 nd) (preproc (clear_info nd s))) (clear_info nd s)
  else let s3 := rn_pre nd s in
       let s4 := if nmem nd (children s3) then set_children (ndel nd (children s3)) s3 else set_err s3 in
       if Nat.eqb (length nd) N then clear_info nd s4
       else if nmem nd (info s4) then set_info (ndel nd (info s4)) s4 else set_err s4.
Proof. reflexivity. Qed.

Lemma In_ndel {V} k (d : list (node * V)) e : In e (ndel k d) -> In e d.
Proof.
  induction d as [|[k' w] d IH]; cbn; [tauto|]. destruct (node_eqb k' k); [intros H; right; exact H|].
  intros [H|H]; [left; exact H|right; apply IH, H].
Qed.
Lemma In_nset {V} k v (d : list (node * V)) e : In e (nset k v d) -> e = (k, v) \/ In e d.
Proof.
  induction d as [|[k' w] d IH]; cbn; [intros [H|[]]; left; symmetry; exact H|].
  destruct (node_eqb k' k) eqn:E.
  - apply node_eqb_eq in E. subst k'. intros [H|H]; [left; symmetry; exact H|right; right; exact H].
  - intros [H|H]; [right; left; exact H|]. destruct (IH H) as [H'|H']; [left; exact H'|right; right; exact H'].
Qed.
Lemma chok_ndel k ch : chok ch -> chok (ndel k ch).
Proof. intros H p l r Hin. apply H. apply (In_ndel k ch _ Hin). Qed.

(* facts about the state _remove_node returns *)
Lemma remove_node_facts nd s : chok (children s) ->
  sliced (remove_node n nd s) = sliced s /\ chok (children (remove_node n nd s)) /\ (err s = true -> err (remove_node n nd s) = true).
Proof.
  intros Hc. rewrite remove_node_eq. destruct (Nat.eqb (length nd) 1).
  { unfold clear_info. destruct (upd_info_fields nd (fun _ => noinfo) s) as (F1&F2&_). cbn [set_preproc sliced children err].
    rewrite F1, F2. split; [reflexivity|]. split; [exact Hc|]. unfold upd_info. destruct (nget nd (info s)); cbn; auto. }
  cbn zeta. pose proof (rn_pre_crel nd s Hc) as H3. set (s3 := rn_pre nd s) in *.
  destruct (crel_srel _ _ H3) as (_&E2&E3&E4).
  set (s4 := if nmem nd (children s3) then _ else set_err s3).
  assert (H4 : sliced s4 = sliced s /\ chok (children s4) /\ (err s = true -> err s4 = true)).
  { unfold s4. destruct (nmem nd (children s3)); cbn [set_children set_err sliced children err].
    - split; [exact E3|]. split; [apply chok_ndel; rewrite E2; exact Hc|exact E4].
    - split; [exact E3|]. split; [rewrite E2; exact Hc|auto]. }
  destruct H4 as (G1&G2&G3).
  destruct (Nat.eqb (length nd) N).
  - unfold clear_info. destruct (upd_info_fields nd (fun _ => noinfo) s4) as (F1&F2&_). rewrite F1, F2.
    split; [exact G1|]. split; [exact G2|]. intros He. unfold upd_info. destruct (nget nd (info s4)); cbn; auto.
  - destruct (nmem nd (info s4)); cbn [set_info set_err sliced children err]; auto.
Qed.
Lemma PAX_remove_node (LV : node -> legs -> Prop) X nd s : chok (children s) -> NoDup (nkeys (info s)) ->
  (forall q lg, fresh_ok n (sliced s) q lg -> LV q lg) -> PAX LV X s -> PAX LV X (remove_node n nd s).
Proof.
  intros Hc ND HL HP. rewrite remove_node_eq. destruct (Nat.eqb (length nd) 1).
  { apply (PAX_info _ _ (clear_info nd s)); [reflexivity|]. apply PAX_upd; [exact HP|]. intros; apply entA_noinfo. }
  cbn zeta. pose proof (rn_pre_crel nd s Hc) as H3. set (s3 := rn_pre nd s) in *.
  assert (P3 : PAX LV X s3) by (apply (PAX_srel LV _ X s s3 HP (crel_srel _ _ H3) HL)).
  assert (ND3 : NoDup (nkeys (info s3))) by (destruct (crel_srel _ _ H3) as (A1&_); rewrite (irel_nkeys _ _ _ A1); exact ND).
  set (s4 := if nmem nd (children s3) then _ else set_err s3).
  assert (E4 : info s4 = info s3) by (unfold s4; destruct (nmem nd (children s3)); reflexivity).
  assert (P4 : PAX LV X s4) by (apply (PAX_info _ _ s3); assumption).
  destruct (Nat.eqb (length nd) N).
  - apply PAX_upd; [exact P4|]. intros; apply entA_noinfo.
  - destruct (nmem nd (info s4)); [|apply (PAX_info _ _ s4); [reflexivity|exact P4]].
    intros q i Hi. cbn [set_info info] in Hi. destruct (node_eq_dec q nd) as [->|Hn].
    + rewrite nget_ndel_same in Hi by (rewrite E4; exact ND3). discriminate.
    + rewrite nget_ndel_other in Hi by exact Hn. apply P4, Hi.
Qed.

(* contract_nodes_pair *)
Lemma chok_nset p l r ch : chok ch -> l <> [] -> r <> [] -> NoDup (l ++ r) -> Permutation p (l ++ r) -> chok (nset p (l, r) ch).
Proof.
  intros H Hl Hr ND HP p' l' r' Hin. apply In_nset in Hin. destruct Hin as [E|Hin]; [|apply H, Hin].
  injection E as -> -> ->. auto.
Qed.
Lemma order_pair_cases x y : order_pair x y = (x, y) \/ order_pair x y = (y, x).
Proof. unfold order_pair. destruct (if Nat.eqb (length x) (length y) then _ else _); auto. Qed.
Lemma NoDup_app_comm {A} (a b : list A) : NoDup (a ++ b) -> NoDup (b ++ a).
Proof. apply Permutation_NoDup, Permutation_app_comm. Qed.
Lemma nunion_perm' x y : NoDup (x ++ y) -> Permutation (nunion x y) (x ++ y).
Proof.
  intros ND. apply nunion_perm; [apply (NoDup_app_elim _ _ ND)|]. intros k Hy Hx.
  apply (NoDup_app_disjoint x y ND k Hx Hy).
Qed.
Lemma chok_pair x y ch : chok ch -> x <> [] -> y <> [] -> NoDup (x ++ y) -> chok (nset (nunion x y) (order_pair x y) ch).
Proof.
  intros H Hx Hy ND. destruct (order_pair_cases x y) as [->| ->].
  - apply chok_nset; auto. apply nunion_perm', ND.
  - apply chok_nset; auto; [apply NoDup_app_comm, ND|].
    eapply Permutation_trans; [apply nunion_perm', ND|apply Permutation_app_comm].
Qed.

Definition cp_pre (x y : node) (lg : option legs) (cost size : option Z) (s : tstate) : tstate :=
  let parent := nunion x y in
  let s1 := add_node parent (add_node y (add_node x s)) in
  let s2 := set_children (nset parent (order_pair x y) (children s1)) s1 in
  let s3 := match lg with Some l => upd_info parent (w_legs (Some l)) s2 | None => s2 end in
  let s4 := match cost with Some c => upd_info parent (w_flops (Some c)) s3 | None => s3 end in
  match size with Some c => upd_info parent (w_size (Some c)) s4 | None => s4 end.
Lemma contract_pair_eq x y lg c z s : contract_pair n x y lg c z s = update_tracked n (nunion x y) (cp_pre x y lg c z s).
Proof. reflexivity. Qed.
Lemma add_node_fields nd s : children (add_node nd s) = children s /\ sliced (add_node nd s) = sliced s /\ err (add_node nd s) = err s.
Proof. unfold add_node. destruct (nmem nd (info s)); auto. Qed.
Lemma cp_pre_fields x y lg c z s :
  children (cp_pre x y lg c z s) = nset (nunion x y) (order_pair x y) (children s) /\
  sliced (cp_pre x y lg c z s) = sliced s /\ (err s = true -> err (cp_pre x y lg c z s) = true).
Proof.
  unfold cp_pre.
  destruct (add_node_fields x s) as (A1&A2&A3). destruct (add_node_fields y (add_node x s)) as (B1&B2&B3).
  destruct (add_node_fields (nunion x y) (add_node y (add_node x s))) as (C1&C2&C3).
  set (s1 := add_node (nunion x y) (add_node y (add_node x s))) in *.
  set (s2 := set_children (nset (nunion x y) (order_pair x y) (children s1)) s1).
  assert (H2 : children s2 = nset (nunion x y) (order_pair x y) (children s) /\ sliced s2 = sliced s /\ (err s = true -> err s2 = true)).
  { unfold s2. cbn [set_children children sliced err]. rewrite C1, B1, A1, C2, B2, A2, C3, B3, A3. auto. }
  assert (Hupd : forall f s', (children s' = nset (nunion x y) (order_pair x y) (children s) /\ sliced s' = sliced s /\ (err s = true -> err s' = true)) ->
            (children (upd_info (nunion x y) f s') = nset (nunion x y) (order_pair x y) (children s) /\
             sliced (upd_info (nunion x y) f s') = sliced s /\ (err s = true -> err (upd_info (nunion x y) f s') = true))).
  { intros f s' (D1&D2&D3). destruct (upd_info_fields (nunion x y) f s') as (F1&F2&_). rewrite F1, F2.
    split; [exact D1|]. split; [exact D2|]. intros He. unfold upd_info. destruct (nget (nunion x y) (info s')); cbn; auto. }
  set (s3 := match lg with Some l => _ | None => s2 end).
  assert (H3 : children s3 = nset (nunion x y) (order_pair x y) (children s) /\ sliced s3 = sliced s /\ (err s = true -> err s3 = true))
    by (unfold s3; destruct lg; [apply Hupd, H2|exact H2]).
  set (s4 := match c with Some c0 => _ | None => s3 end).
  assert (H4 : children s4 = nset (nunion x y) (order_pair x y) (children s) /\ sliced s4 = sliced s /\ (err s = true -> err s4 = true))
    by (unfold s4; destruct c; [apply Hupd, H3|exact H3]).
  destruct z; [apply Hupd, H4|exact H4].
Qed.
(* the supplied legs (annealing) must be valid, and compatible with an index order that is
   already cached on the parent *)
Lemma PAX_cp_pre (LV : node -> legs -> Prop) X x y lg c z s : PAX LV X s ->
  (forall l, lg = Some l -> LV (nunion x y) l /\
     forall i lg0 v, nget (nunion x y) (info s) = Some i -> i_legs i = Some lg0 -> enum_ok (nunion x y) v lg0 -> enum_ok (nunion x y) v l) ->
  PAX LV X (cp_pre x y lg c z s).
Proof.
  intros HP Hl. unfold cp_pre. set (p := nunion x y) in *.
  set (s1 := add_node p (add_node y (add_node x s))).
  assert (P1 : PAX LV X s1) by (unfold s1; do 3 apply PAX_add_node; exact HP).
  assert (Hp1 : forall i, nget p (info s1) = Some i -> nget p (info s) = Some i \/ i = noinfo).
  { intros i Hi. unfold s1 in Hi.
    assert (Hadd : forall nd s0 q j, nget q (info (add_node nd s0)) = Some j -> nget q (info s0) = Some j \/ j = noinfo).
    { intros nd s0 q j. unfold add_node. destruct (nmem nd (info s0)); [auto|]. cbn [set_info info].
      destruct (nget q (info s0)) as [i0|] eqn:E.
      - rewrite (nget_app_l q (info s0) [(nd, noinfo)] i0 E). auto.
      - rewrite (nget_app_r q (info s0) [(nd, noinfo)] E). cbn. destruct (node_eqb nd q); [|discriminate]. intros [= <-]. auto. }
    destruct (Hadd _ _ _ _ Hi) as [H|H]; [|auto]. destruct (Hadd _ _ _ _ H) as [H'|H']; [|auto]. apply (Hadd _ _ _ _ H'). }
  set (s2 := set_children (nset p (order_pair x y) (children s1)) s1).
  assert (P2 : PAX LV X s2) by (apply (PAX_info _ _ s1); [reflexivity|exact P1]).
  set (s3 := match lg with Some l => _ | None => s2 end).
  assert (P3 : PAX LV X s3).
  { unfold s3. destruct lg as [l|]; [|exact P2]. destruct (Hl l eq_refl) as [Hv Hcompat].
    apply PAX_upd; [exact P2|]. intros i Hi [E1 E2]. split.
    - cbn. intros lg' [= <-]. exact Hv.
    - intros HX v Hv'. cbn in Hv'. destruct (E2 HX v Hv') as (lg0 & El0 & He). exists l. split; [reflexivity|].
      change (info s2) with (info s1) in Hi. destruct (Hp1 i Hi) as [Hi0| ->]; [|discriminate].
      apply (Hcompat i lg0 v Hi0 El0 He). }
  set (s4 := match c with Some c0 => _ | None => s3 end).
  assert (Hkeep : forall f s', (forall i, rec_same i (f i) /\ i_legs (f i) = i_legs i) -> PAX LV X s' -> PAX LV X (upd_info p f s')).
  { intros f s' Hf HP'. apply PAX_upd; [exact HP'|]. intros i _ [E1 E2]. destruct (Hf i) as [(R1&_) R2]. split.
    - rewrite R2. exact E1.
    - intros HX v. rewrite R1, R2. apply E2, HX. }
  assert (P4 : PAX LV X s4).
  { unfold s4. destruct c; [|exact P3]. apply Hkeep; [|exact P3]. intros i. split; [unfold rec_same; cbn; auto|reflexivity]. }
  destruct z; [|exact P4]. apply Hkeep; [|exact P4]. intros i. split; [unfold rec_same; cbn; auto|reflexivity].
Qed.
Lemma PAX_contract_pair (LV : node -> legs -> Prop) X x y lg c z s : chok (children s) -> x <> [] -> y <> [] -> NoDup (x ++ y) ->
  (forall q l, fresh_ok n (sliced s) q l -> LV q l) -> PAX LV X s ->
  (forall l, lg = Some l -> LV (nunion x y) l /\
     forall i lg0 v, nget (nunion x y) (info s) = Some i -> i_legs i = Some lg0 -> enum_ok (nunion x y) v lg0 -> enum_ok (nunion x y) v l) ->
  PAX LV X (contract_pair n x y lg c z s) /\ sliced (contract_pair n x y lg c z s) = sliced s /\
  chok (children (contract_pair n x y lg c z s)) /\ (err s = true -> err (contract_pair n x y lg c z s) = true).
Proof.
  intros Hc Hx Hy ND HL HP Hl. rewrite contract_pair_eq.
  destruct (cp_pre_fields x y lg c z s) as (F1&F2&F3).
  pose proof (PAX_cp_pre LV X x y lg c z s HP Hl) as P5. set (s5 := cp_pre x y lg c z s) in *.
  assert (Hc5 : chok (children s5)) by (rewrite F1; apply chok_pair; assumption).
  pose proof (update_tracked_crel (nunion x y) s5 Hc5) as H6.
  split; [apply (PAX_srel LV _ X s5 _ P5 (crel_srel _ _ H6)); rewrite F2; exact HL|].
  destruct (crel_srel _ _ H6) as (_&E2&E3&E4). split; [congruence|]. split; [rewrite E2; exact Hc5|auto].
Qed.

(* reset_contraction_indices / _reset_contraction_recipes *)
Lemma PAX_over_children (LV : node -> legs -> Prop) X f (L : list (node * (node * node))) :
  (forall i, i_legs (f i) = i_legs i /\ (i_inds (f i) = i_inds i \/ i_inds (f i) = None)) ->
  forall s, PAX LV X s -> PAX LV X (fold_left (fun s p => upd_info (fst p) f s) L s).
Proof.
  intros Hf. induction L as [|p L IH]; intros s HP; cbn [fold_left]; [exact HP|].
  apply IH. apply PAX_upd; [exact HP|]. intros i _ [E1 E2]. destruct (Hf i) as [R1 R2]. split.
  - rewrite R1. exact E1.
  - intros HX v Hv. rewrite R1. destruct R2 as [R2|R2]; rewrite R2 in Hv; [apply (E2 HX v Hv)|discriminate].
Qed.
Lemma fold_upd_fields f (L : list (node * (node * node))) : forall s,
  children (fold_left (fun s p => upd_info (fst p) f s) L s) = children s /\
  sliced (fold_left (fun s p => upd_info (fst p) f s) L s) = sliced s /\
  (err s = true -> err (fold_left (fun s p => upd_info (fst p) f s) L s) = true).
Proof.
  induction L as [|p L IH]; intros s; cbn [fold_left]; [auto|].
  destruct (IH (upd_info (fst p) f s)) as (A1&A2&A3). destruct (upd_info_fields (fst p) f s) as (F1&F2&_).
  rewrite A1, A2, F1, F2. split; [reflexivity|]. split; [reflexivity|]. intros He. apply A3.
  unfold upd_info. destruct (nget (fst p) (info s)); cbn; auto.
Qed.
Lemma over_children_fields f s : children (over_children f s) = children s /\ sliced (over_children f s) = sliced s /\
  (err s = true -> err (over_children f s) = true).
Proof. apply fold_upd_fields. Qed.
Lemma PA_reset_recipes s : PA s -> PA (reset_recipes s).
Proof.
  intros HP. unfold reset_recipes, PA. cbn [set_cores sliced]. destruct (over_children_fields drop_recipes s) as (_&E&_). rewrite E.
  apply (PAX_info _ _ (over_children drop_recipes s)); [reflexivity|]. unfold over_children.
  apply PAX_over_children; [|exact HP]. intros i. cbn. auto.
Qed.
Lemma PA_reset_inds s : PA s -> PA (reset_inds s).
Proof.
  intros HP. unfold reset_inds, PA. cbn [set_cores sliced]. destruct (over_children_fields drop_inds_recipes s) as (_&E&_). rewrite E.
  apply (PAX_info _ _ (over_children drop_inds_recipes s)); [reflexivity|]. unfold over_children.
  apply PAX_over_children; [|exact HP]. intros i. cbn. auto.
Qed.
Lemma reset_recipes_err s : err s = true -> err (reset_recipes s) = true.
Proof. intros H. unfold reset_recipes. cbn. apply over_children_fields, H. Qed.
Lemma reset_inds_err s : err s = true -> err (reset_inds s) = true.
Proof. intros H. unfold reset_inds. cbn. apply over_children_fields, H. Qed.
End InvA.

(* unique (first occurrences) *)
Lemma uq_acc_in x l : forall seen, In x (unique_acc seen l) <-> In x l /\ ~ In x seen.
Proof.
  induction l as [|y l IH]; intros seen; cbn [unique_acc].
  - cbn [In]. tauto.
  - destruct (memb y seen) eqn:E.
    + apply memb_In in E. rewrite IH. cbn [In]. split; [tauto|]. intros [[->|H] Hn]; tauto.
    + apply memb_false in E. cbn [In]. rewrite IH. cbn [In]. destruct (Nat.eq_dec y x) as [->|Hne]; tauto.
Qed.
Lemma uq_acc_nodup l : forall seen, NoDup (unique_acc seen l).
Proof.
  induction l as [|y l IH]; intros seen; cbn [unique_acc]; [constructor|].
  destruct (memb y seen) eqn:E; [apply IH|]. constructor; [|apply IH]. rewrite uq_acc_in. cbn [In]. tauto.
Qed.
Lemma in_unique x l : In x (unique l) <-> In x l.
Proof. unfold unique. rewrite uq_acc_in. cbn [In]. tauto. Qed.
Lemma NoDup_unique l : NoDup (unique l).
Proof. apply uq_acc_nodup. Qed.

(* ======================================================================== *)
(* Part 4 : get_inds and the recipe getters (need the cost invariant InvC)   *)
(* index-order getters: recipes untouched, a cached order is never replaced *)
Definition Ri (LV : node -> legs -> Prop) (nd : node) (i i' : ninfo) : Prop :=
  (i_eq i' = i_eq i /\ i_can_dot i' = i_can_dot i /\ i_tdaxes i' = i_tdaxes i /\ i_tdperm i' = i_tdperm i) /\
  (forall v, i_inds i = Some v -> i_inds i' = Some v) /\ legs_step LV nd (i_legs i) (i_legs i').
Lemma Ri_refl LV q i : Ri LV q i i.
Proof. split; [auto|]. split; [auto|apply legs_step_refl]. Qed.
Lemma Ri_trans LV q i j k : Ri LV q i j -> Ri LV q j k -> Ri LV q i k.
Proof.
  intros ((A1&A2&A3&A4)&A5&A6) ((B1&B2&B3&B4)&B5&B6). split; [repeat split; congruence|].
  split; [auto|eapply legs_step_trans; eassumption].
Qed.
Lemma Rc_Ri LV q i j : Rc LV q i j -> Ri LV q i j.
Proof. intros ((A0&A1&A2&A3&A4)&A5). split; [auto|]. split; [intros v Hv; congruence|exact A5]. Qed.

Section InvA2.
Variable n : net.
Notation N := (NN n).
Hypothesis HN : 2 <= N.
Hypothesis Hout : NoDup (output n).

Definition irl (s s' : tstate) : Prop := srel (Ri (fresh_ok n (sliced s))) s s'.
Lemma irl_refl s : irl s s.
Proof. apply srel_refl. intros; apply Ri_refl. Qed.
Lemma irl_trans s1 s2 s3 : irl s1 s2 -> irl s2 s3 -> irl s1 s3.
Proof.
  unfold irl. intros H1 H2. eapply srel_trans; [intros q i j k; apply Ri_trans|exact H1|].
  destruct H1 as (_&_&E&_). rewrite <- E. exact H2.
Qed.
Lemma crel_irl s s' : crel n s s' -> irl s s'.
Proof. intros H. apply crel_srel in H. revert H. apply srel_weaken. intros q i j. apply Rc_Ri. Qed.
Lemma irl_err s s' : irl s s' -> err s' = false -> err s = false.
Proof. intros (_&_&_&E) H. destruct (err s); [rewrite E in H by reflexivity; discriminate|reflexivity]. Qed.
Lemma irl_inds s s' nd v : irl s s' -> rd i_inds s nd = Some v -> rd i_inds s' nd = Some v.
Proof.
  intros (A1&_) H. destruct (rd_Some _ _ _ _ H) as (i & Hi & Hv).
  destruct (irel_nget _ _ _ A1 nd i Hi) as (i' & Hi' & _ & Hm & _). unfold rd. rewrite Hi'. apply Hm, Hv.
Qed.
Lemma irl_legs s s' nd v : irl s s' -> rd i_legs s nd = Some v -> rd i_legs s' nd = Some v.
Proof.
  intros (A1&_) H. destruct (rd_Some _ _ _ _ H) as (i & Hi & Hv).
  destruct (irel_nget _ _ _ A1 nd i Hi) as (i' & Hi' & _ & _ & Hs). unfold rd. rewrite Hi'.
  unfold legs_step in Hs. rewrite Hv in Hs. exact Hs.
Qed.
Lemma irl_entry s s' nd : irl s s' -> nget nd (info s') <> None -> nget nd (info s) <> None.
Proof.
  intros (A1&_) H. destruct (nget nd (info s')) as [i'|] eqn:E; [|congruence].
  destruct (irel_nget_rev _ _ _ A1 nd i' E) as (i & Hi & _). congruence.
Qed.

Lemma InvC_chok s : InvC n s -> chok (children s).
Proof.
  intros [((ND&Hc)&_) _] p l r Hin. destruct (Hc p l r (In_nget _ _ _ ND Hin)) as (Gl&Gr&HR&HP).
  split; [apply Gl|]. split; [apply Gr|]. split; [apply HR|exact HP].
Qed.
Lemma spec_split sl l r j : inrange n (l ++ r) -> 0 < spec_count n sl (l ++ r) j ->
  0 < spec_count n sl l j \/ 0 < spec_count n sl r j.
Proof.
  intros HR. unfold spec_count. rewrite cnt_app.
  destruct (Nat.ltb_spec (cnt n sl l j + cnt n sl r j) (appear n j)); [|lia].
  destruct (Nat.ltb_spec (cnt n sl l j) (appear n j)); destruct (Nat.ltb_spec (cnt n sl r j) (appear n j)); lia.
Qed.
Lemma InvC_legs_keys s nd i lg : InvC n s -> nget nd (info s) = Some i -> i_legs i = Some lg -> length nd <> N ->
  NoDup (lkeys lg) /\ forall j, In j (lkeys lg) <-> 0 < spec_count n (sliced s) nd j.
Proof.
  intros [(_&_&H3&_) _] Hi Hl HlN. destruct (H3 nd i Hi) as [_ (A&_)]. apply A in Hl.
  apply legs_ok_nonroot in Hl; [|exact HlN]. destruct Hl as [W G]. split; [apply W|].
  intros j. rewrite (wfl_key_pos j lg W), G. tauto.
Qed.
Lemma upd_err nd f s : err (upd_info nd f s) = false -> err s = false /\ nget nd (info s) <> None.
Proof. unfold upd_info. destruct (nget nd (info s)); cbn; [intros H; split; [exact H|discriminate]|discriminate]. Qed.
Lemma PA_upd nd f s : PA n s ->
  (forall i, nget nd (info s) = Some i -> entA n (fresh_ok n (sliced s)) false nd i -> entA n (fresh_ok n (sliced s)) false nd (f i)) ->
  PA n (upd_info nd f s).
Proof.
  intros HP Hf. unfold PA. destruct (upd_info_fields nd f s) as (_&E&_). rewrite E. apply PAX_upd; [exact HP|exact Hf].
Qed.
Lemma PAe_upd_keep nd f s : PAe n s -> (forall i, i_legs (f i) = i_legs i /\ i_inds (f i) = i_inds i) -> PAe n (upd_info nd f s).
Proof.
  intros HP Hf He. destruct (upd_err _ _ _ He) as [He0 _]. apply PA_upd; [apply HP, He0|].
  intros i _ [E1 E2]. destruct (Hf i) as [R1 R2]. split; [rewrite R1; exact E1|]. intros HX v. rewrite R1, R2. apply E2, HX.
Qed.
Lemma irl_upd nd f s : (forall i, nget nd (info s) = Some i -> Ri (fresh_ok n (sliced s)) nd i (f i)) -> irl s (upd_info nd f s).
Proof. intros H. apply srel_upd; [intros; apply Ri_refl|exact H]. Qed.
Lemma rd_crel_inds s s' nd : crel n s s' -> rd i_inds s' nd = rd i_inds s nd.
Proof. intros H. apply (srel_rd _ i_inds s s' nd (crel_srel n _ _ H)). intros q i j ((E&_)&_). exact E. Qed.

(* bounded version: a cached order may only appear on the nodes in P *)
Definition RiB (LV : node -> legs -> Prop) (P : node -> bool) (nd : node) (i i' : ninfo) : Prop :=
  (i_eq i' = i_eq i /\ i_can_dot i' = i_can_dot i /\ i_tdaxes i' = i_tdaxes i /\ i_tdperm i' = i_tdperm i) /\
  (if P nd then forall v, i_inds i = Some v -> i_inds i' = Some v else i_inds i' = i_inds i) /\
  legs_step LV nd (i_legs i) (i_legs i').
Lemma RiB_refl LV P q i : RiB LV P q i i.
Proof. split; [auto|]. split; [destruct (P q); auto|apply legs_step_refl]. Qed.
Lemma RiB_trans LV P q i j k : RiB LV P q i j -> RiB LV P q j k -> RiB LV P q i k.
Proof.
  intros ((A1&A2&A3&A4)&A5&A6) ((B1&B2&B3&B4)&B5&B6). split; [repeat split; congruence|].
  split; [destruct (P q); [auto|congruence]|eapply legs_step_trans; eassumption].
Qed.
Lemma RiB_mono LV (P P' : node -> bool) q i j : (P q = true -> P' q = true) -> RiB LV P q i j -> RiB LV P' q i j.
Proof.
  intros HPP (A1&A2&A3). split; [exact A1|]. split; [|exact A3]. destruct (P q) eqn:E.
  - rewrite (HPP eq_refl). exact A2.
  - destruct (P' q); [intros v Hv; congruence|exact A2].
Qed.
Lemma RiB_Ri LV P q i j : RiB LV P q i j -> Ri LV q i j.
Proof. intros (A1&A2&A3). split; [exact A1|]. split; [|exact A3]. destruct (P q); [exact A2|intros v Hv; congruence]. Qed.
Lemma Rc_RiB LV P q i j : Rc LV q i j -> RiB LV P q i j.
Proof. intros ((A0&A1&A2&A3&A4)&A5). split; [auto|]. split; [destruct (P q); [intros v Hv; congruence|exact A0]|exact A5]. Qed.
Definition irlB (P : node -> bool) (s s' : tstate) : Prop := srel (RiB (fresh_ok n (sliced s)) P) s s'.
Lemma irlB_trans P s1 s2 s3 : irlB P s1 s2 -> irlB P s2 s3 -> irlB P s1 s3.
Proof.
  unfold irlB. intros H1 H2. eapply srel_trans; [intros q i j k; apply RiB_trans|exact H1|].
  destruct H1 as (_&_&E&_). rewrite <- E. exact H2.
Qed.
Lemma irlB_mono (P P' : node -> bool) s s' : (forall q, P q = true -> P' q = true) -> irlB P s s' -> irlB P' s s'.
Proof. intros H. apply srel_weaken. intros q i j. apply RiB_mono, H. Qed.
Lemma irlB_irl P s s' : irlB P s s' -> irl s s'.
Proof. apply srel_weaken. intros q i j. apply RiB_Ri. Qed.
Lemma crel_irlB P s s' : crel n s s' -> irlB P s s'.
Proof. intros H. apply crel_srel in H. revert H. apply srel_weaken. intros q i j. apply Rc_RiB. Qed.
Lemma irlB_keep_inds P s s' nd : irlB P s s' -> P nd = false -> rd i_inds s' nd = rd i_inds s nd.
Proof.
  intros (A1&_) HP. unfold rd. destruct (nget nd (info s)) as [i|] eqn:E.
  - destruct (irel_nget _ _ _ A1 nd i E) as (i' & E' & _ & Hr & _). rewrite E'. rewrite HP in Hr. exact Hr.
  - destruct (nget nd (info s')) as [i'|] eqn:E'; [|reflexivity].
    destruct (irel_nget_rev _ _ _ A1 nd i' E') as (i & Ei & _). congruence.
Qed.

Lemma get_inds_A f : forall s nd, InvC n s -> PAe n s -> good_node n nd ->
  PAe n (fst (get_inds n f s nd)) /\ irlB (lenle (length nd)) s (fst (get_inds n f s nd)) /\
  (err (fst (get_inds n f s nd)) = false -> rd i_inds (fst (get_inds n f s nd)) nd = Some (snd (get_inds n f s nd))).
Proof.
  induction f as [|f IH]; intros s nd HI HP HG.
  { cbn [get_inds fst snd]. split; [intros He; discriminate|]. split; [apply srel_fields; cbn; auto; intros; apply RiB_refl|intros He; discriminate]. }
  rewrite get_inds_S. destruct (rd i_inds s nd) as [v0|] eqn:Er.
  { cbn [fst snd]. split; [exact HP|]. split; [apply srel_refl; intros; apply RiB_refl|intros _; exact Er]. }
  pose proof (InvC_chok s HI) as Hc. pose proof (g_legs_crel n HN s nd Hc) as H1.
  pose proof (inv_g_legs n HN Hout s nd HI HG) as I1. pose proof (g_legs_cached n HN s nd) as C1.
  destruct (g_legs n s nd) as [s1 lg]. cbn [fst snd] in H1, I1, C1.
  pose proof (PAe_crel n s s1 HP H1) as P1.
  assert (Er1 : rd i_inds s1 nd = None) by (rewrite (rd_crel_inds s s1 nd H1); exact Er).
  assert (Esl1 : sliced s1 = sliced s) by apply (crel_srel n _ _ H1).
  assert (HPnd : lenle (length nd) nd = true) by (unfold lenle; apply Nat.leb_refl).
  assert (Hfill : forall s3 v, irlB (lenle (length nd)) s1 s3 -> rd i_inds s3 nd = None ->
            irlB (lenle (length nd)) s (upd_info nd (w_inds (Some v)) s3)).
  { intros s3 v R13 Er3. eapply irlB_trans; [apply crel_irlB, H1|]. eapply irlB_trans; [exact R13|].
    apply srel_upd; [intros; apply RiB_refl|]. intros i Hi. split; [cbn; auto|]. split; [|apply legs_step_refl].
    rewrite HPnd. intros v' Hv'. rewrite (rd_None_get i_inds s3 nd i Er3 Hi) in Hv'. discriminate. }
  destruct (Nat.eqb (length nd) 1 || Nat.eqb (length nd) N) eqn:Elr.
  - cbn [fst snd]. split; [|split; [apply Hfill; [apply srel_refl; intros; apply RiB_refl|exact Er1]|]].
    + intros He. destruct (upd_err _ _ _ He) as [He1 Hk]. destruct C1 as [C1|C1]; [contradiction|].
      apply PA_upd; [apply P1, He1|]. intros i Hi [E1 E2]. split; [exact E1|]. intros _ v Hv. cbn in Hv. injection Hv as <-.
      exists lg. split; [|unfold enum_ok, is_lr; rewrite Elr; reflexivity]. unfold rd in C1. rewrite Hi in C1. exact C1.
    + intros He. destruct (upd_err _ _ _ He) as [_ Hk]. destruct (nget nd (info s1)) as [i1|] eqn:Ei1; [|congruence].
      rewrite (rd_upd_same i_inds nd _ s1 i1 Ei1). reflexivity.
  - destruct (nget nd (children s1)) as [[l r]|] eqn:Ech.
    2:{ cbn [fst snd]. split; [intros He; discriminate|]. split; [|intros He; discriminate].
        eapply irlB_trans; [apply crel_irlB, H1|]. apply srel_fields; cbn; auto. intros; apply RiB_refl. }
    destruct (entry_good n s1 nd l r I1 Ech) as (_ & Gl & Gr).
    destruct (chok_dec n HN _ _ _ _ (InvC_chok s1 I1) Ech) as [Ll Lr].
    destruct (IH s1 l I1 P1 Gl) as (P2 & R2 & C2). pose proof (inv_get_inds n HN Hout f s1 l I1 Gl) as I2.
    destruct (get_inds n f s1 l) as [s2 li]. cbn [fst snd] in P2, R2, C2, I2.
    destruct (IH s2 r I2 P2 Gr) as (P3 & R3 & C3). pose proof (inv_get_inds n HN Hout f s2 r I2 Gr) as I3.
    destruct (get_inds n f s2 r) as [s3 ri]. cbn [fst snd] in P3, R3, C3, I3. cbn [fst snd].
    set (v := unique (filter (fun j => lmem j lg) (li ++ ri))).
    assert (R13 : irlB (lenlt (length nd)) s1 s3).
    { eapply irlB_trans; (eapply irlB_mono; [|eassumption]); intros q; unfold lenle, lenlt; intros H; apply Nat.leb_le in H; apply Nat.ltb_lt; lia. }
    assert (Er3 : rd i_inds s3 nd = None).
    { rewrite (irlB_keep_inds _ s1 s3 nd R13); [exact Er1|]. unfold lenlt. apply Nat.ltb_irrefl. }
    assert (R13' : irlB (lenle (length nd)) s1 s3).
    { eapply irlB_mono; [|exact R13]. intros q; unfold lenle, lenlt; intros H; apply Nat.ltb_lt in H; apply Nat.leb_le; lia. }
    split; [|split; [apply Hfill; assumption|]].
    + intros He. destruct (upd_err _ _ _ He) as [He3 Hk3].
      pose proof (irl_err _ _ (irlB_irl _ _ _ R3) He3) as He2.
      pose proof (P3 He3) as PA3. specialize (C2 He2). specialize (C3 He3).
      pose proof (irl_inds _ _ l li (irlB_irl _ _ _ R3) C2) as Cl3.
      assert (Hk1 : nget nd (info s1) <> None) by (apply (irl_entry s1 s3 nd (irlB_irl _ _ _ R13) Hk3)).
      destruct C1 as [C1|C1]; [contradiction|].
      pose proof (irl_legs _ _ nd lg (irlB_irl _ _ _ R13) C1) as Cg3.
      assert (Esl3 : sliced s3 = sliced s1) by apply R13.
      assert (Ech3 : children s3 = children s1) by apply R13.
      apply PA_upd; [exact PA3|]. intros i Hi [E1 E2]. split; [exact E1|]. intros _ v' Hv'. cbn in Hv'. injection Hv' as <-.
      exists lg. split; [unfold rd in Cg3; rewrite Hi in Cg3; exact Cg3|].
      unfold enum_ok, is_lr. rewrite Elr. split; [apply NoDup_unique|].
      intros j. unfold v. rewrite in_unique, filter_In. split.
      * intros [_ Hm]. apply lmem_in_keys, Hm.
      * intros Hj. split; [|apply lmem_in_keys, Hj].
        apply orb_false_iff in Elr. destruct Elr as [_ ElN]. apply Nat.eqb_neq in ElN.
        unfold rd in Cg3. rewrite Hi in Cg3.
        destruct (InvC_legs_keys s3 nd i lg I3 Hi Cg3 ElN) as [_ Hkeys]. apply Hkeys in Hj.
        assert (Hch3 : nget nd (children s3) = Some (l, r)) by (rewrite Ech3; exact Ech).
        assert (I3' := I3). destruct I3' as [((NDc&Hcok)&_) _]. destruct (Hcok nd l r Hch3) as (_&_&HR&HPm).
        rewrite (spec_count_perm n _ nd (l ++ r) j HPm) in Hj.
        pose proof (good_len n HN nd HG) as Lnd.
        assert (Hside : forall c ci, good_node n c -> length c < length nd -> rd i_inds s3 c = Some ci ->
                   0 < spec_count n (sliced s3) c j -> In j ci).
        { intros c ci Gc Lc Hci Hpos. destruct (rd_Some _ _ _ _ Hci) as (ic & Hic & Hvc).
          destruct (PA3 c ic Hic) as [_ Q2]. destruct (Q2 eq_refl ci Hvc) as (lgc & Elc & Hen).
          apply (enum_in n c ci lgc Hen).
          destruct (InvC_legs_keys s3 c ic lgc I3 Hic Elc) as [_ Hk]; [lia|]. apply Hk, Hpos. }
        apply in_or_app. destruct (spec_split _ l r j HR Hj) as [Hl|Hr].
        -- left. apply (Hside l li Gl Ll Cl3 Hl).
        -- right. apply (Hside r ri Gr Lr C3 Hr).
    + intros He. destruct (upd_err _ _ _ He) as [_ Hk]. destruct (nget nd (info s3)) as [i3|] eqn:Ei3; [|congruence].
      rewrite (rd_upd_same i_inds nd _ s3 i3 Ei3). reflexivity.
Qed.

Lemma g_inds_A s nd : InvC n s -> PAe n s -> good_node n nd ->
  PAe n (fst (g_inds n s nd)) /\ irl s (fst (g_inds n s nd)) /\
  (err (fst (g_inds n s nd)) = false -> rd i_inds (fst (g_inds n s nd)) nd = Some (snd (g_inds n s nd))).
Proof.
  intros HI HP HG. destruct (get_inds_A (fuel n s) s nd HI HP HG) as (A&B&C). split; [exact A|]. split; [eapply irlB_irl, B|exact C].
Qed.
Lemma PAe_err s : PAe n (set_err s).
Proof. intros He. discriminate. Qed.
Lemma irl_fields s s' : info s' = info s -> children s' = children s -> sliced s' = sliced s ->
  (err s = true -> err s' = true) -> irl s s'.
Proof. apply srel_fields. intros; apply Ri_refl. Qed.

(* monotone frame of the recipe getters: nothing that is cached is ever replaced *)
Definition Rm (LV : node -> legs -> Prop) (nd : node) (i i' : ninfo) : Prop :=
  (forall e, i_eq i = Some e -> i_eq i' = Some e) /\ (forall e, i_can_dot i = Some e -> i_can_dot i' = Some e) /\
  (forall e, i_tdaxes i = Some e -> i_tdaxes i' = Some e) /\ (forall e, i_tdperm i = Some e -> i_tdperm i' = Some e) /\
  (forall v, i_inds i = Some v -> i_inds i' = Some v) /\ legs_step LV nd (i_legs i) (i_legs i').
Lemma Rm_refl LV q i : Rm LV q i i.
Proof. unfold Rm. repeat split; auto. apply legs_step_refl. Qed.
Lemma Rm_trans LV q i j k : Rm LV q i j -> Rm LV q j k -> Rm LV q i k.
Proof.
  intros (A1&A2&A3&A4&A5&A6) (B1&B2&B3&B4&B5&B6). unfold Rm. repeat split; auto. eapply legs_step_trans; eassumption.
Qed.
Lemma Ri_Rm LV q i j : Ri LV q i j -> Rm LV q i j.
Proof. intros ((A1&A2&A3&A4)&A5&A6). unfold Rm. repeat split; try (intros e He; congruence); auto. Qed.
Definition mrl (s s' : tstate) : Prop := srel (Rm (fresh_ok n (sliced s))) s s'.
Lemma mrl_refl s : mrl s s.
Proof. apply srel_refl. intros; apply Rm_refl. Qed.
Lemma mrl_trans s1 s2 s3 : mrl s1 s2 -> mrl s2 s3 -> mrl s1 s3.
Proof.
  unfold mrl. intros H1 H2. eapply srel_trans; [intros q i j k; apply Rm_trans|exact H1|].
  destruct H1 as (_&_&E&_). rewrite <- E. exact H2.
Qed.
Lemma irl_mrl s s' : irl s s' -> mrl s s'.
Proof. apply srel_weaken. intros q i j. apply Ri_Rm. Qed.
Lemma mrl_fields s s' : info s' = info s -> children s' = children s -> sliced s' = sliced s ->
  (err s = true -> err s' = true) -> mrl s s'.
Proof. apply srel_fields. intros; apply Rm_refl. Qed.
Lemma mrl_err s s' : mrl s s' -> err s' = false -> err s = false.
Proof. intros (_&_&_&E) H. destruct (err s); [rewrite E in H by reflexivity; discriminate|reflexivity]. Qed.
Lemma g_can_dot_A s nd : InvC n s -> PAe n s -> good_node n nd ->
  PAe n (fst (g_can_dot n s nd)) /\ mrl s (fst (g_can_dot n s nd)).
Proof.
  intros HI HP HG. unfold g_can_dot. destruct (rd i_can_dot s nd) as [b|] eqn:Er; [split; [exact HP|apply mrl_refl]|].
  destruct (nget nd (children s)) as [[l r]|] eqn:E; [|split; [apply PAe_err|apply mrl_fields; cbn; auto]].
  pose proof (InvC_chok s HI) as Hc.
  pose proof (g_legs_crel n HN s nd Hc) as H1. destruct (g_legs n s nd) as [s1 sp]. cbn [fst] in H1.
  pose proof (g_legs_crel n HN s1 l (crel_chok n _ _ H1 Hc)) as H2. destruct (g_legs n s1 l) as [s2 sl]. cbn [fst] in H2.
  pose proof (crel_trans n _ _ _ H1 H2) as H12.
  pose proof (g_legs_crel n HN s2 r (crel_chok n _ _ H12 Hc)) as H3. destruct (g_legs n s2 r) as [s3 sr]. cbn [fst] in H3.
  pose proof (crel_trans n _ _ _ H12 H3) as H13. cbn [fst].
  split.
  - apply PAe_upd_keep; [apply (PAe_crel n s s3 HP H13)|]. intros i. cbn. auto.
  - eapply mrl_trans; [apply irl_mrl, crel_irl, H13|]. apply srel_upd; [intros; apply Rm_refl|].
    intros i Hi. unfold Rm. cbn. repeat split; auto; [|apply legs_step_refl].
    intros e He. assert (Er3 : rd i_can_dot s3 nd = None).
    { rewrite (srel_rd _ i_can_dot s s3 nd (crel_srel n _ _ H13)); [exact Er|]. intros q a b ((_&_&Ec&_)&_). exact Ec. }
    rewrite (rd_None_get i_can_dot s3 nd i Er3 Hi) in He. discriminate.
Qed.

(* the three recipes derived from index orders share their prologue *)
Lemma inds3_A s nd l r : InvC n s -> PAe n s -> good_node n nd -> nget nd (children s) = Some (l, r) ->
  let '(s1, li) := g_inds n s l in let '(s2, ri) := g_inds n s1 r in let '(s3, pi) := g_inds n s2 nd in
  InvC n s2 /\ PAe n s2 /\ irl s s2 /\ (err s2 = false -> rd i_inds s2 l = Some li /\ rd i_inds s2 r = Some ri) /\
  InvC n s3 /\ PAe n s3 /\ irl s s3 /\
  (err s3 = false -> rd i_inds s3 l = Some li /\ rd i_inds s3 r = Some ri /\ rd i_inds s3 nd = Some pi).
Proof.
  intros HI HP HG E. destruct (entry_good n s nd l r HI E) as (_ & Gl & Gr).
  destruct (g_inds_A s l HI HP Gl) as (P1 & R1 & C1). pose proof (inv_g_inds n HN Hout s l HI Gl) as I1.
  destruct (g_inds n s l) as [s1 li]. cbn [fst snd] in *.
  destruct (g_inds_A s1 r I1 P1 Gr) as (P2 & R2 & C2). pose proof (inv_g_inds n HN Hout s1 r I1 Gr) as I2.
  destruct (g_inds n s1 r) as [s2 ri]. cbn [fst snd] in *.
  destruct (g_inds_A s2 nd I2 P2 HG) as (P3 & R3 & C3). pose proof (inv_g_inds n HN Hout s2 nd I2 HG) as I3.
  destruct (g_inds n s2 nd) as [s3 pi]. cbn [fst snd] in *.
  assert (Hlr : err s2 = false -> rd i_inds s2 l = Some li /\ rd i_inds s2 r = Some ri).
  { intros He2. split; [apply (irl_inds _ _ l li R2), C1, (irl_err _ _ R2 He2)|apply C2, He2]. }
  split; [exact I2|]. split; [exact P2|]. split; [eapply irl_trans; eassumption|]. split; [exact Hlr|].
  split; [exact I3|]. split; [exact P3|]. split; [eapply irl_trans; [eapply irl_trans; eassumption|exact R3]|].
  intros He3. destruct (Hlr (irl_err _ _ R3 He3)) as [A B].
  split; [apply (irl_inds _ _ l li R3 A)|]. split; [apply (irl_inds _ _ r ri R3 B)|apply C3, He3].
Qed.
Lemma mrl_upd_new {A} (fld : ninfo -> option A) nd f s :
  rd fld s nd = None ->
  (forall i, fld i = None -> Rm (fresh_ok n (sliced s)) nd i (f i)) -> mrl s (upd_info nd f s).
Proof.
  intros Er Hf. apply srel_upd; [intros; apply Rm_refl|]. intros i Hi. apply Hf. apply (rd_None_get fld s nd i Er Hi).
Qed.
Lemma irl_rd_same {A} (fld : ninfo -> option A) s s' nd :
  irl s s' -> (forall LV q i j, Ri LV q i j -> fld j = fld i) -> rd fld s' nd = rd fld s nd.
Proof. intros H HF. apply (srel_rd _ fld s s' nd H). intros q i j. apply HF. Qed.

Lemma g_tdaxes_A s nd : InvC n s -> PAe n s -> good_node n nd ->
  PAe n (fst (g_tdaxes n s nd)) /\ mrl s (fst (g_tdaxes n s nd)).
Proof.
  intros HI HP HG. unfold g_tdaxes. destruct (rd i_tdaxes s nd) as [b|] eqn:Er; [split; [exact HP|apply mrl_refl]|].
  destruct (nget nd (children s)) as [[l r]|] eqn:E; [|split; [apply PAe_err|apply mrl_fields; cbn; auto]].
  pose proof (inds3_A s nd l r HI HP HG E) as H.
  destruct (g_inds n s l) as [s1 li]. destruct (g_inds n s1 r) as [s2 ri]. destruct (g_inds n s2 nd) as [s3 pi].
  destruct H as (I2&P2&R2&C2&_). cbn [fst]. split.
  - apply PAe_upd_keep; [exact P2|]. intros i. cbn. auto.
  - eapply mrl_trans; [apply irl_mrl, R2|]. apply (mrl_upd_new i_tdaxes).
    + rewrite (irl_rd_same i_tdaxes s s2 nd R2); [exact Er|]. intros LV q i j ((_&_&Ec&_)&_). exact Ec.
    + intros i Hn. unfold Rm. cbn. repeat split; auto; [intros e He; congruence|apply legs_step_refl].
Qed.
Lemma g_tdperm_A s nd : InvC n s -> PAe n s -> good_node n nd ->
  PAe n (fst (g_tdperm n s nd)) /\ mrl s (fst (g_tdperm n s nd)).
Proof.
  intros HI HP HG. unfold g_tdperm. destruct (rd i_tdperm s nd) as [b|] eqn:Er; [split; [exact HP|apply mrl_refl]|].
  destruct (nget nd (children s)) as [[l r]|] eqn:E; [|split; [apply PAe_err|apply mrl_fields; cbn; auto]].
  pose proof (inds3_A s nd l r HI HP HG E) as H.
  destruct (g_inds n s l) as [s1 li]. destruct (g_inds n s1 r) as [s2 ri]. destruct (g_inds n s2 nd) as [s3 pi].
  destruct H as (_&_&_&_&I3&P3&R3&C3). cbn [fst]. split.
  - apply PAe_upd_keep; [exact P3|]. intros i. cbn. auto.
  - eapply mrl_trans; [apply irl_mrl, R3|]. apply (mrl_upd_new i_tdperm).
    + rewrite (irl_rd_same i_tdperm s s3 nd R3); [exact Er|]. intros LV q i j ((_&_&_&Ec)&_). exact Ec.
    + intros i Hn. unfold Rm. cbn. repeat split; auto; [intros e He; congruence|apply legs_step_refl].
Qed.
Lemma g_eq_A s nd : InvC n s -> PAe n s -> good_node n nd ->
  PAe n (fst (g_eq n s nd)) /\ mrl s (fst (g_eq n s nd)).
Proof.
  intros HI HP HG. unfold g_eq. destruct (rd i_eq s nd) as [b|] eqn:Er; [split; [exact HP|apply mrl_refl]|].
  destruct (nget nd (children s)) as [[l r]|] eqn:E; [|split; [apply PAe_err|apply mrl_fields; cbn; auto]].
  pose proof (inds3_A s nd l r HI HP HG E) as H.
  destruct (g_inds n s l) as [s1 li]. destruct (g_inds n s1 r) as [s2 ri]. destruct (g_inds n s2 nd) as [s3 pi].
  destruct H as (_&_&_&_&I3&P3&R3&C3). cbn [fst]. split.
  - apply PAe_upd_keep; [exact P3|]. intros i. cbn. auto.
  - eapply mrl_trans; [apply irl_mrl, R3|]. apply (mrl_upd_new i_eq).
    + rewrite (irl_rd_same i_eq s s3 nd R3); [exact Er|]. intros LV q i j ((Ec&_)&_). exact Ec.
    + intros i Hn. unfold Rm. cbn. repeat split; auto; [intros e He; congruence|apply legs_step_refl].
Qed.

(* ---- sort_contraction_indices ---- *)
Lemma enum_ok_perm nd v v' lg : is_lr n nd = false -> enum_ok n nd v lg -> Permutation v' v -> enum_ok n nd v' lg.
Proof.
  unfold enum_ok. intros -> [ND H] HP. split; [apply (Permutation_NoDup (Permutation_sym HP)), ND|].
  intros j. rewrite <- H. split; apply Permutation_in; [exact HP|apply Permutation_sym, HP].
Qed.
Lemma enum_ok_keys nd v lg : is_lr n nd = false -> NoDup (lkeys lg) -> Permutation v (lkeys lg) -> enum_ok n nd v lg.
Proof.
  unfold enum_ok. intros -> ND HP. split; [apply (Permutation_NoDup (Permutation_sym HP)), ND|].
  intros j. split; apply Permutation_in; [exact HP|apply Permutation_sym, HP].
Qed.
Lemma sort_key2_perm k xs : Permutation (sort_key2 k xs) xs.
Proof. apply sort_by_perm. Qed.

(* what a sort step leaves alone *)
Definition sfr (s s' : tstate) : Prop :=
  children s' = children s /\ sliced s' = sliced s /\ (err s = true -> err s' = true).
Lemma sfr_refl s : sfr s s.
Proof. unfold sfr. auto. Qed.
Lemma sfr_trans s1 s2 s3 : sfr s1 s2 -> sfr s2 s3 -> sfr s1 s3.
Proof. unfold sfr. intros (A1&A2&A3) (B1&B2&B3). repeat split; try congruence; auto. Qed.
Lemma srel_sfr (R : node -> ninfo -> ninfo -> Prop) s s' : srel R s s' -> sfr s s'.
Proof. intros (_&A&B&C). unfold sfr. auto. Qed.
Lemma upd_sfr nd f s : sfr s (upd_info nd f s).
Proof.
  destruct (upd_info_fields nd f s) as (F1&F2&_). unfold sfr. rewrite F1, F2. split; [reflexivity|]. split; [reflexivity|].
  unfold upd_info. destruct (nget nd (info s)); cbn; auto.
Qed.
Lemma sfr_err s s' : sfr s s' -> err s' = false -> err s = false.
Proof. intros (_&_&E) H. destruct (err s); [rewrite E in H by reflexivity; discriminate|reflexivity]. Qed.

Lemma not_lr p l r s : InvC n s -> nget p (children s) = Some (l, r) ->
  is_lr n p = (Nat.eqb (length p) N) /\ (length l =? N) = false /\ (length r =? N) = false.
Proof.
  intros HI E. destruct (entry_good n s p l r HI E) as (Gp & _ & _).
  pose proof (good_len n HN p Gp) as Lp. destruct (chok_dec n HN _ _ _ _ (InvC_chok s HI) E) as [Ll Lr].
  assert (HI' := HI). destruct HI' as [(Hc&_) _]. pose proof (leaf_not_parent n HN _ p l r Hc E) as Hp1.
  unfold is_lr. apply Nat.eqb_neq in Hp1. rewrite Hp1. cbn [orb]. split; [reflexivity|].
  split; apply Nat.eqb_neq; lia.
Qed.

Lemma sort_step_A moc mcc s p l r : InvC n s -> PAe n s -> nget p (children s) = Some (l, r) ->
  PAe n (sort_step n moc mcc s (p, (l, r))) /\ sfr s (sort_step n moc mcc s (p, (l, r))).
Proof.
  intros HI HP E. destruct (entry_good n s p l r HI E) as (Gp & Gl & Gr). unfold sort_step.
  destruct (g_inds_A s p HI HP Gp) as (P1 & R1 & C1). pose proof (inv_g_inds n HN Hout s p HI Gp) as I1.
  destruct (g_inds n s p) as [s1 pi]. cbn [fst snd] in *.
  destruct (g_inds_A s1 l I1 P1 Gl) as (P2 & R2 & C2). pose proof (inv_g_inds n HN Hout s1 l I1 Gl) as I2.
  destruct (g_inds n s1 l) as [s2 li]. cbn [fst snd] in *.
  destruct (g_inds_A s2 r I2 P2 Gr) as (P3 & R3 & C3). pose proof (inv_g_inds n HN Hout s2 r I2 Gr) as I3.
  destruct (g_inds n s2 r) as [s3 ri]. cbn [fst snd] in *.
  assert (R03 : irl s s3) by (eapply irl_trans; [eapply irl_trans; eassumption|exact R3]).
  assert (E3 : nget p (children s3) = Some (l, r)) by (destruct R03 as (_&Ec&_); rewrite Ec; exact E).
  destruct (not_lr p l r s3 I3 E3) as (Hlrp & HlN & HrN).
  set (X := if moc && negb (Nat.eqb (length p) N) then _ else (s3, pi)).
  assert (H4 : InvC n (fst X) /\ PAe n (fst X) /\ sfr s3 (fst X)).
  { unfold X. destruct (moc && negb (Nat.eqb (length p) N)) eqn:Em; cbn [fst]; [|split; [exact I3|]; split; [exact P3|apply sfr_refl]].
    split; [apply inv_upd_neutral; [intros; apply cs_inds|exact I3]|]. split; [|apply upd_sfr].
    intros He. destruct (upd_err _ _ _ He) as [He3 _]. apply PA_upd; [apply P3, He3|].
    intros i Hi [A1 A2]. split; [exact A1|]. intros _ v Hv. cbn in Hv. injection Hv as <-.
    assert (Hp3 : rd i_inds s3 p = Some pi).
    { apply (irl_inds _ _ p pi R3), (irl_inds _ _ p pi R2), C1. apply (irl_err _ _ R2), (irl_err _ _ R3), He3. }
    unfold rd in Hp3. rewrite Hi in Hp3. destruct (A2 eq_refl pi Hp3) as (lg & El & Hen). exists lg. split; [exact El|].
    apply andb_true_iff in Em. destruct Em as [_ Em]. apply negb_true_iff in Em.
    apply (enum_ok_perm p pi); [rewrite Hlrp; exact Em|exact Hen|apply sort_key2_perm]. }
  destruct X as [s4 pi']. cbn [fst] in H4. destruct H4 as (I4 & P4 & F4).
  assert (F04 : sfr s s4) by (eapply sfr_trans; [apply (srel_sfr _ _ _ R03)|exact F4]).
  destruct mcc; [|split; [exact P4|exact F04]].
  (* the step that re-orders a child c *)
  assert (Hchild : forall c s5 (k : ix -> Z * Z), good_node n c -> (length c =? N) = false -> InvC n s5 -> PAe n s5 ->
            let X := if negb (Nat.eqb (length c) 1)
                     then let '(sa, lg) := g_legs n s5 c in
                          (upd_info c (w_inds (Some (sort_key2 k (lkeys lg)))) sa)
                     else s5 in
            InvC n X /\ PAe n X /\ sfr s5 X).
  { intros c s5 k Gc HcN I5 P5. cbn zeta. destruct (negb (Nat.eqb (length c) 1)) eqn:Ec1; [|split; [exact I5|]; split; [exact P5|apply sfr_refl]].
    pose proof (g_legs_crel n HN s5 c (InvC_chok s5 I5)) as Ha. pose proof (inv_g_legs n HN Hout s5 c I5 Gc) as Ia.
    pose proof (g_legs_cached n HN s5 c) as Ca. destruct (g_legs n s5 c) as [sa lg]. cbn [fst snd] in *.
    split; [apply inv_upd_neutral; [intros; apply cs_inds|exact Ia]|].
    split; [|eapply sfr_trans; [apply (srel_sfr _ _ _ (crel_srel n _ _ Ha))|apply upd_sfr]].
    intros He. destruct (upd_err _ _ _ He) as [Hea Hk]. destruct Ca as [Ca|Ca]; [contradiction|].
    apply PA_upd; [apply (PAe_crel n s5 sa P5 Ha), Hea|]. intros i Hi [A1 A2]. split; [exact A1|].
    intros _ v Hv. cbn in Hv. injection Hv as <-. unfold rd in Ca. rewrite Hi in Ca. exists lg. split; [exact Ca|].
    apply enum_ok_keys; [unfold is_lr; apply negb_true_iff in Ec1; rewrite Ec1, HcN; reflexivity| |apply sort_key2_perm].
    apply Nat.eqb_neq in HcN. apply (InvC_legs_keys sa c i lg Ia Hi Ca HcN). }
  set (Y := if negb (Nat.eqb (length l) 1) then _ else (s4, li)).
  assert (H5 : InvC n (fst Y) /\ PAe n (fst Y) /\ sfr s4 (fst Y)).
  { pose proof (Hchild l s4 (fun j => (find_z j ri, find_z j pi')) Gl HlN I4 P4) as H. cbn zeta in H.
    unfold Y. destruct (negb (Nat.eqb (length l) 1)); [|exact H]. destruct (g_legs n s4 l) as [sa lg]. exact H. }
  destruct Y as [s5 li']. cbn [fst] in H5. destruct H5 as (I5 & P5 & F5).
  pose proof (Hchild r s5 (fun j => (find_z j pi', find_z j li')) Gr HrN I5 P5) as H6. cbn zeta in H6.
  destruct (negb (Nat.eqb (length r) 1)).
  - destruct (g_legs n s5 r) as [sa lg]. destruct H6 as (_ & P6 & F6). split; [exact P6|].
    eapply sfr_trans; [exact F04|]. eapply sfr_trans; eassumption.
  - split; [exact P5|eapply sfr_trans; eassumption].
Qed.
Lemma sort_fold_A moc mcc nodes : forall s, InvC n s -> PAe n s ->
  (forall e, In e nodes -> nget (fst e) (children s) = Some (snd e)) ->
  PAe n (fold_left (sort_step n moc mcc) nodes s) /\ sfr s (fold_left (sort_step n moc mcc) nodes s).
Proof.
  induction nodes as [|[p [l r]] nodes IH]; intros s HI HP Hn; cbn [fold_left]; [split; [exact HP|apply sfr_refl]|].
  pose proof (Hn _ (or_introl eq_refl)) as E. cbn [fst snd] in E.
  destruct (sort_step_A moc mcc s p l r HI HP E) as [P1 F1].
  destruct (entry_good n s p l r HI E) as (Gp & Gl & Gr).
  pose proof (inv_sort_step n HN Hout moc mcc s p l r HI Gp Gl Gr) as I1.
  destruct (IH _ I1 P1) as [P2 F2].
  - intros e He. destruct F1 as (Ec&_). rewrite Ec. apply Hn. right. exact He.
  - split; [exact P2|eapply sfr_trans; eassumption].
Qed.
Lemma keyed_crel (g : tstate -> node -> tstate * Z) :
  (forall s nd, chok (children s) -> crel n s (fst (g s nd))) ->
  forall (L : list (node * (node * node))) s acc, chok (children s) ->
  crel n s (fst (fold_left (fun acc c => let '(sa, v) := g (fst acc) (fst c) in (sa, snd acc ++ [(v, c)])) L (s, acc))).
Proof.
  intros Hg. induction L as [|c L IH]; intros s acc Hc; cbn [fold_left]; [apply crel_refl|].
  cbn [fst snd]. pose proof (Hg s (fst c) Hc) as H. destruct (g s (fst c)) as [sa v]. cbn [fst] in H.
  eapply crel_trans; [exact H|]. apply IH. apply (crel_chok n _ _ H Hc).
Qed.
Lemma PAe_reset_recipes s : PAe n s -> PAe n (reset_recipes s).
Proof.
  intros HP He. apply PA_reset_recipes. apply HP. destruct (err s) eqn:E; [|reflexivity].
  rewrite (reset_recipes_err s E) in He. discriminate.
Qed.
Lemma PAe_reset_inds s : PAe n s -> PAe n (reset_inds s).
Proof.
  intros HP He. apply PA_reset_inds. apply HP. destruct (err s) eqn:E; [|reflexivity].
  rewrite (reset_inds_err s E) in He. discriminate.
Qed.

Theorem sort_inds_A pr moc mcc reset s : InvC n s -> PAe n s -> PAe n (sort_inds n pr moc mcc reset s).
Proof.
  intros HI HP. unfold sort_inds.
  set (s0 := if reset then reset_inds s else s).
  assert (H0 : InvC n s0) by (unfold s0; destruct reset; [apply reset_inds_inv, HI|exact HI]).
  assert (P0 : PAe n s0) by (unfold s0; destruct reset; [apply PAe_reset_inds, HP|exact HP]).
  assert (Hin_ch : forall c, In c (children s0) -> nget (fst c) (children s0) = Some (snd c)).
  { intros [p lr] Hc. apply In_nget; [apply H0|exact Hc]. }
  assert (Hfin : forall s1 nodes, InvC n s1 -> PAe n s1 -> children s1 = children s0 ->
            (forall e, In e nodes -> nget (fst e) (children s0) = Some (snd e)) ->
            PAe n (reset_recipes (fold_left (sort_step n moc mcc) nodes s1))).
  { intros s1 nodes I1 P1 Ec Hn. apply PAe_reset_recipes. apply sort_fold_A; [exact I1|exact P1|].
    intros e He. rewrite Ec. apply Hn, He. }
  destruct pr.
  - destruct (keyed_fold n (g_flops n)) with (L := children s0) (s := s0) (acc := @nil (Z * (node * (node * node)))) as (A & B & C).
    + intros s' nd HI' Hch. assert (HG : good_node n nd) by (apply (child_key_good n s' nd (proj1 HI')), nget_in_keys, Hch).
      split; [apply inv_g_flops; [assumption|assumption|exact HI'|exact HG|right; left; exact Hch]|apply g_flops_children; [assumption|assumption|exact HI'|exact HG|right; left; exact Hch]].
    + exact H0.
    + intros c Hc. rewrite (Hin_ch c Hc). discriminate.
    + pose proof (keyed_crel (g_flops n) (g_flops_crel n HN) (children s0) s0 [] (InvC_chok s0 H0)) as K.
      cbn zeta in A, B, C. destruct (fold_left _ (children s0) (s0, [])) as [sa keyed]. cbn [fst snd] in *. cbn [app map] in C.
      apply Hfin; [exact A|apply (PAe_crel n s0 sa P0 K)|exact B|]. intros e He. apply Hin_ch. rewrite <- C.
      apply (Permutation_in _ (Permutation_map snd (sort_by_perm (fun a b : Z * (node * (node * node)) => (fst a <=? fst b)%Z) keyed))), He.
  - destruct (keyed_fold n (g_size n)) with (L := children s0) (s := s0) (acc := @nil (Z * (node * (node * node)))) as (A & B & C).
    + intros s' nd HI' Hch. assert (HG : good_node n nd) by (apply (child_key_good n s' nd (proj1 HI')), nget_in_keys, Hch).
      split; [apply inv_g_size; assumption|apply g_size_children; assumption].
    + exact H0.
    + intros c Hc. rewrite (Hin_ch c Hc). discriminate.
    + pose proof (keyed_crel (g_size n) (g_size_crel n HN) (children s0) s0 [] (InvC_chok s0 H0)) as K.
      cbn zeta in A, B, C. destruct (fold_left _ (children s0) (s0, [])) as [sa keyed]. cbn [fst snd] in *. cbn [app map] in C.
      apply Hfin; [exact A|apply (PAe_crel n s0 sa P0 K)|exact B|]. intros e He. apply Hin_ch. rewrite <- C.
      apply (Permutation_in _ (Permutation_map snd (sort_by_perm (fun a b : Z * (node * (node * node)) => (fst a <=? fst b)%Z) keyed))), He.
  - destruct (traverse n s0) as [nodes|] eqn:Et; [|apply PAe_err].
    apply Hfin; [exact H0|exact P0|reflexivity|]. apply (traverse_entries n s0 nodes Et).
  - destruct (descend n s0) as [nodes|] eqn:Et; [|apply PAe_err].
    apply Hfin; [exact H0|exact P0|reflexivity|]. apply (descend_entries n s0 nodes Et).
Qed.

(* ======================================================================== *)
(* Part 5 : remove_ind / restore_ind.  In the middle of these operations the sliced set has
   already changed while some caches are still those of the old set: a legs dict is valid for the
   NEW set, or it is the root's and valid for the OLD set (repaired at the end through InvC), or it
   belongs to a leaf that is still to be visited and is valid for the OLD set. *)
Lemma PAX_keep (LV : node -> legs -> Prop) X nd f s :
  (forall i, i_legs (f i) = i_legs i /\ (i_inds (f i) = i_inds i \/ i_inds (f i) = None)) ->
  PAX n LV X s -> PAX n LV X (upd_info nd f s).
Proof.
  intros Hf HP. apply PAX_upd; [exact HP|]. intros i _ [E1 E2]. destruct (Hf i) as [R1 R2]. split.
  - rewrite R1. exact E1.
  - intros HX v Hv. rewrite R1. destruct R2 as [R2|R2]; rewrite R2 in Hv; [apply (E2 HX v Hv)|discriminate].
Qed.
Lemma sfr_fields s s' : children s' = children s -> sliced s' = sliced s -> (err s = true -> err s' = true) -> sfr s s'.
Proof. unfold sfr. auto. Qed.
Lemma root_keys sl0 : lkeys (root_legs n sl0) = filter (fun j => negb (memb j (removed sl0))) (output n).
Proof. unfold root_legs, lkeys. rewrite map_map. cbn [fst]. apply map_id. Qed.

Section TwoSets.
Variable slo sln : list slinfo.     (* the sliced set the stale caches belong to / the current one *)
Variable ind : ix.
(* the two sets differ by ind (in either direction) *)
Hypothesis Hdiff : forall j, j <> ind -> (In j (removed slo) <-> In j (removed sln)).

Definition LVT (T : list node) (nd : node) (lg : legs) : Prop :=
  fresh_ok n sln nd lg \/ (length nd = N /\ lkeys lg = lkeys (root_legs n slo)) \/
  (In nd T /\ length nd = 1 /\ lg = leaf_legs n slo (hd 0 nd)).
Lemma LVT_fresh T nd lg : fresh_ok n sln nd lg -> LVT T nd lg.
Proof. intros H. left. exact H. Qed.
Lemma LVT_drop q nd T lg : q <> nd \/ length nd <> 1 -> LVT (nd :: T) q lg -> LVT T q lg.
Proof.
  intros Hq [H|[H|(Hin&H1&H2)]]; [left; exact H|right; left; exact H|].
  right. right. split; [|auto]. destruct Hin as [<-|Hin]; [|exact Hin]. destruct Hq as [Hq|Hq]; [congruence|contradiction].
Qed.
Lemma term_same k : ~ In ind (nth k (inputs n) []) -> term_sl n sln k = term_sl n slo k.
Proof.
  intros Hk. unfold term_sl. apply filter_ext_in. intros j Hj. f_equal. apply memb_iff.
  symmetry. apply Hdiff. intros ->. contradiction.
Qed.
Lemma leaf_same k : ~ In ind (nth k (inputs n) []) -> leaf_legs n sln k = leaf_legs n slo k.
Proof. intros Hk. unfold leaf_legs, leaf_simplifiable. rewrite (term_same k Hk). reflexivity. Qed.
Lemma LVT_leaf_done k T lg : ~ In ind (nth k (inputs n) []) -> LVT ([k] :: T) [k] lg -> LVT T [k] lg.
Proof.
  intros Hk [H|[H|(_&_&H2)]]; [left; exact H|right; left; exact H|]. left. cbn [hd] in H2. split.
  - intros _. cbn [hd]. rewrite (leaf_same k Hk). exact H2.
  - cbn [length]. intros H. lia.
Qed.

(* a cost-only operation in the current set *)
Lemma PAX_crelT T X s s' : sliced s = sln -> PAX n (LVT T) X s -> crel n s s' -> PAX n (LVT T) X s'.
Proof. intros E HP HC. apply crel_srel in HC. rewrite E in HC. apply (PAX_srel n _ _ X s s' HP HC). intros nd lg. apply LVT_fresh. Qed.
End TwoSets.

Section RmNode.
Variable slo sln : list slinfo.
Variable ind : ix.
Variable d : Z.
Hypothesis Hrem : forall j, In j (removed sln) <-> j = ind \/ In j (removed slo).
Lemma Hdiff_rm : forall j, j <> ind -> (In j (removed slo) <-> In j (removed sln)).
Proof. intros j Hj. rewrite Hrem. tauto. Qed.
Lemma root_keys_more : lkeys (root_legs n sln) = filter (fun k => negb (Nat.eqb k ind)) (lkeys (root_legs n slo)).
Proof.
  rewrite !root_keys. generalize (output n) as L. intros L. induction L as [|a L IH]; [reflexivity|]. cbn [filter].
  rewrite (memb_removed' slo sln ind Hrem a). destruct (memb a (removed slo)); cbn [orb negb filter]; [exact IH|].
  destruct (Nat.eqb a ind); cbn [negb]; [exact IH|f_equal; exact IH].
Qed.
Lemma LVT_ldel T nd lg : NoDup (output n) -> length nd <> 1 -> LVT slo sln T nd lg -> LVT slo sln T nd (ldel ind lg).
Proof.
  intros ND H1 [[Ha Hb]|[[EN Hk]|(_&E1&_)]]; [| |contradiction].
  - left. split; [intros; contradiction|]. intros EN. specialize (Hb EN).
    rewrite ldel_notin; [exact Hb|]. rewrite Hb, root_keys, filter_In. intros [_ Hm].
    apply negb_true_iff, memb_false in Hm. apply Hm, Hrem. left. reflexivity.
  - left. split; [intros; contradiction|]. intros _. rewrite lkeys_ldel, Hk, root_keys_more; [reflexivity|].
    rewrite Hk, root_keys. apply NoDup_filter, ND.
Qed.

Lemma rin_A T nd s : NoDup (output n) -> sliced s = sln -> chok (children s) ->
  PAX n (LVT slo sln (nd :: T)) noX s ->
  PAX n (LVT slo sln T) noX (remove_ind_node n ind d s nd) /\ sfr s (remove_ind_node n ind d s nd).
Proof.
  intros NDo Esl Hc HP. unfold remove_ind_node.
  assert (Hweak : forall s', PAX n (LVT slo sln (nd :: T)) noX s' -> length nd <> 1 -> PAX n (LVT slo sln T) noX s').
  { intros s' HP' H1 q i Hi. destruct (HP' q i Hi) as [A1 A2]. split; [|exact A2]. intros lg Hl.
    apply (LVT_drop slo sln q nd); [right; exact H1|apply A1, Hl]. }
  destruct (Nat.eqb_spec (length nd) 1) as [E1|E1].
  - (* a leaf *)
    rewrite (len1 nd E1) in *. set (k := hd 0 nd) in *. cbn [hd].
    destruct (memb ind (nth k (inputs n) [])) eqn:Em.
    + rewrite remove_node_eq. cbn [length Nat.eqb hd]. split.
      * apply (PAX_info _ _ _ (clear_info [k] s)); [reflexivity|]. intros q i Hi. unfold clear_info in Hi.
        destruct (node_eq_dec q [k]) as [->|Hn].
        -- rewrite nget_upd_same in Hi. destruct (nget [k] (info s)); [|discriminate]. injection Hi as <-. apply entA_noinfo.
        -- rewrite nget_upd_other in Hi by exact Hn. destruct (HP q i Hi) as [A1 A2]. split; [|exact A2].
           intros lg Hl. apply (LVT_drop slo sln q [k]); [left; exact Hn|apply A1, Hl].
      * unfold clear_info. destruct (upd_sfr [k] (fun _ => noinfo) s) as (F1&F2&F3). apply sfr_fields; cbn; auto.
    + split; [|apply sfr_refl]. intros q i Hi. destruct (HP q i Hi) as [A1 A2]. split; [|exact A2]. intros lg Hl.
      destruct (node_eq_dec q [k]) as [->|Hn].
      * apply (LVT_leaf_done slo sln ind Hdiff_rm k); [apply memb_false, Em|apply A1, Hl].
      * apply (LVT_drop slo sln q [k]); [left; exact Hn|apply A1, Hl].
  - (* an internal node *)
    set (LV := LVT slo sln (nd :: T)) in *.
    pose proof (g_involved_crel n HN s nd Hc) as H1. destruct (g_involved n s nd) as [s1 inv]. cbn [fst] in H1.
    assert (P1 : PAX n LV noX s1) by (apply (PAX_crelT slo sln _ _ s s1 Esl HP H1)).
    assert (F1 : sfr s s1) by (apply (srel_sfr _ _ _ (crel_srel n _ _ H1))).
    destruct (negb (lmem ind inv)); [split; [apply Hweak; assumption|exact F1]|].
    set (s2 := upd_info nd (w_involved (Some (ldel ind inv))) s1).
    assert (P2 : PAX n LV noX s2) by (apply PAX_keep; [intros i; cbn; auto|exact P1]).
    assert (F2 : sfr s s2) by (eapply sfr_trans; [exact F1|apply upd_sfr]).
    assert (Hch : forall s', sfr s s' -> chok (children s') /\ sliced s' = sln).
    { intros s' (A&B&_). rewrite A, B. auto. }
    pose proof (g_flops_crel n HN s2 nd (proj1 (Hch _ F2))) as H3. destruct (g_flops n s2 nd) as [s3 old_flops]. cbn [fst] in H3.
    assert (P3 : PAX n LV noX s3) by (apply (PAX_crelT slo sln _ _ s2 s3 (proj2 (Hch _ F2)) P2 H3)).
    assert (F3 : sfr s s3) by (eapply sfr_trans; [exact F2|apply (srel_sfr _ _ _ (crel_srel n _ _ H3))]).
    set (s4 := set_flops _ (upd_info nd (w_flops (Some (old_flops / d)%Z)) s3)).
    assert (P4 : PAX n LV noX s4).
    { apply (PAX_info _ _ _ (upd_info nd (w_flops (Some (old_flops / d)%Z)) s3)); [reflexivity|]. apply PAX_keep; [intros i; cbn; auto|exact P3]. }
    assert (F4 : sfr s s4).
    { eapply sfr_trans; [exact F3|]. eapply sfr_trans; [apply upd_sfr|]. apply sfr_fields; cbn; auto. }
    pose proof (g_legs_crel n HN s4 nd (proj1 (Hch _ F4))) as H5. pose proof (g_legs_cached n HN s4 nd) as C5.
    destruct (g_legs n s4 nd) as [s5 lg]. cbn [fst snd] in H5, C5.
    assert (P5 : PAX n LV noX s5) by (apply (PAX_crelT slo sln _ _ s4 s5 (proj2 (Hch _ F4)) P4 H5)).
    assert (F5 : sfr s s5) by (eapply sfr_trans; [exact F4|apply (srel_sfr _ _ _ (crel_srel n _ _ H5))]).
    set (X := fun q : node => node_eqb q nd).
    set (s6 := if lmem ind lg then _ else s5).
    assert (H6 : PAX n LV X s6 /\ sfr s s6).
    { unfold s6. destruct (lmem ind lg); [|split; [apply PAX_suspend, P5|exact F5]].
      set (sa := upd_info nd (w_legs (Some (ldel ind lg))) s5).
      assert (Pa : PAX n LV X sa).
      { apply PAX_upd; [apply PAX_suspend, P5|]. intros i Hi [A1 A2]. split.
        - cbn. intros lg' [= <-]. apply LVT_ldel; [exact NDo|exact E1|]. apply A1.
          destruct C5 as [C5|C5]; [congruence|]. unfold rd in C5. rewrite Hi in C5. exact C5.
        - unfold X. rewrite node_eqb_refl. intros H; discriminate. }
      assert (Fa : sfr s sa) by (eapply sfr_trans; [exact F5|apply upd_sfr]).
      pose proof (g_size_crel n HN sa nd (proj1 (Hch _ Fa))) as Hb. destruct (g_size n sa nd) as [sb old_size]. cbn [fst] in Hb.
      assert (Pb : PAX n LV X sb) by (apply (PAX_crelT slo sln _ _ sa sb (proj2 (Hch _ Fa)) Pa Hb)).
      assert (Fb : sfr s sb) by (eapply sfr_trans; [exact Fa|apply (srel_sfr _ _ _ (crel_srel n _ _ Hb))]).
      set (sc := set_sizes _ sb). split.
      - apply (PAX_info _ _ _ (upd_info nd (w_size (Some (old_size / d)%Z)) sc)); [reflexivity|].
        apply PAX_keep; [intros i; cbn; auto|]. apply (PAX_info _ _ _ sb); [reflexivity|exact Pb].
      - eapply sfr_trans; [exact Fb|]. eapply sfr_trans; [apply (sfr_fields sb sc); cbn; auto|].
        eapply sfr_trans; [apply upd_sfr|apply sfr_fields; cbn; auto]. }
    destruct H6 as [P6 F6]. split; [|eapply sfr_trans; [exact F6|apply upd_sfr]].
    apply Hweak; [|exact E1]. apply (PAX_unsuspend n LV X).
    + apply PAX_keep; [intros i; cbn; auto|exact P6].
    + intros q i Hi HX. unfold X in HX. apply node_eqb_eq in HX. subst q. rewrite nget_upd_same in Hi.
      destruct (nget nd (info s6)); [|discriminate]. injection Hi as <-. reflexivity.
Qed.
Lemma rin_fold_A L : forall T s, NoDup (output n) -> sliced s = sln -> chok (children s) ->
  PAX n (LVT slo sln (L ++ T)) noX s ->
  PAX n (LVT slo sln T) noX (fold_left (remove_ind_node n ind d) L s) /\ sfr s (fold_left (remove_ind_node n ind d) L s).
Proof.
  induction L as [|nd L IH]; intros T s NDo Esl Hc HP; cbn [fold_left]; [split; [exact HP|apply sfr_refl]|].
  assert (HP' : PAX n (LVT slo sln (nd :: (L ++ T))) noX s) by exact HP.
  (* process nd first, keeping L ++ T as the remaining list *)
  destruct (rin_A (L ++ T) nd s NDo Esl Hc HP') as [P1 F1].
  destruct F1 as (A&B&C). destruct (IH T (remove_ind_node n ind d s nd) NDo) as [P2 F2]; [congruence|rewrite A; exact Hc|exact P1|].
  split; [exact P2|]. eapply sfr_trans; [exact (conj A (conj B C))|exact F2].
Qed.
End RmNode.

Lemma rin_sfr ind d nd s : chok (children s) -> sfr s (remove_ind_node n ind d s nd).
Proof.
  intros Hc. unfold remove_ind_node.
  destruct (Nat.eqb_spec (length nd) 1) as [E1|E1].
  { rewrite (len1 nd E1). cbn [hd]. destruct (memb ind (nth (hd 0 nd) (inputs n) [])); [|apply sfr_refl].
    rewrite remove_node_eq. cbn [length Nat.eqb hd]. unfold clear_info.
    destruct (upd_sfr [hd 0 nd] (fun _ => noinfo) s) as (F1&F2&F3). apply sfr_fields; cbn; auto. }
  assert (Hch : forall s', sfr s s' -> chok (children s')) by (intros s' (A&_); rewrite A; exact Hc).
  pose proof (g_involved_crel n HN s nd Hc) as H1. destruct (g_involved n s nd) as [s1 inv]. cbn [fst] in H1.
  assert (F1 : sfr s s1) by (apply (srel_sfr _ _ _ (crel_srel n _ _ H1))).
  destruct (negb (lmem ind inv)); [exact F1|].
  set (s2 := upd_info nd (w_involved (Some (ldel ind inv))) s1).
  assert (F2 : sfr s s2) by (eapply sfr_trans; [exact F1|apply upd_sfr]).
  pose proof (g_flops_crel n HN s2 nd (Hch _ F2)) as H3. destruct (g_flops n s2 nd) as [s3 old_flops]. cbn [fst] in H3.
  assert (F3 : sfr s s3) by (eapply sfr_trans; [exact F2|apply (srel_sfr _ _ _ (crel_srel n _ _ H3))]).
  set (s4 := set_flops _ (upd_info nd (w_flops (Some (old_flops / d)%Z)) s3)).
  assert (F4 : sfr s s4).
  { eapply sfr_trans; [exact F3|]. eapply sfr_trans; [apply upd_sfr|]. apply sfr_fields; cbn; auto. }
  pose proof (g_legs_crel n HN s4 nd (Hch _ F4)) as H5. destruct (g_legs n s4 nd) as [s5 lg]. cbn [fst snd] in H5.
  assert (F5 : sfr s s5) by (eapply sfr_trans; [exact F4|apply (srel_sfr _ _ _ (crel_srel n _ _ H5))]).
  set (s6 := if lmem ind lg then _ else s5).
  assert (F6 : sfr s s6).
  { unfold s6. destruct (lmem ind lg); [|exact F5].
    set (sa := upd_info nd (w_legs (Some (ldel ind lg))) s5).
    assert (Fa : sfr s sa) by (eapply sfr_trans; [exact F5|apply upd_sfr]).
    pose proof (g_size_crel n HN sa nd (Hch _ Fa)) as Hb. destruct (g_size n sa nd) as [sb old_size]. cbn [fst] in Hb.
    assert (Fb : sfr s sb) by (eapply sfr_trans; [exact Fa|apply (srel_sfr _ _ _ (crel_srel n _ _ Hb))]).
    set (sc := set_sizes _ sb).
    eapply sfr_trans; [exact Fb|]. eapply sfr_trans; [apply (sfr_fields sb sc); cbn; auto|].
    eapply sfr_trans; [apply upd_sfr|apply sfr_fields; cbn; auto]. }
  eapply sfr_trans; [exact F6|apply upd_sfr].
Qed.
Lemma rin_fold_sfr ind d L : forall s, chok (children s) -> sfr s (fold_left (remove_ind_node n ind d) L s).
Proof.
  induction L as [|nd L IH]; intros s Hc; cbn [fold_left]; [apply sfr_refl|].
  pose proof (rin_sfr ind d nd s Hc) as F1. eapply sfr_trans; [exact F1|]. apply IH. destruct F1 as (A&_). rewrite A. exact Hc.
Qed.

(* the root's legs, valid for the old set, are valid for the new one once InvC holds for it *)
Lemma root_repair slo sln ind lg : (forall j, j <> ind -> (In j (removed slo) <-> In j (removed sln))) ->
  lkeys lg = lkeys (root_legs n slo) -> (forall j, lget j lg = lget j (root_legs n sln)) ->
  lkeys lg = lkeys (root_legs n sln).
Proof.
  intros Hdiff Hk Hg. rewrite Hk, !root_keys. apply filter_ext_in. intros j Hj. f_equal.
  destruct (Nat.eq_dec j ind) as [->|Hn]; [|apply memb_iff, Hdiff, Hn].
  assert (H1 : In ind (lkeys lg) <-> ~ In ind (removed slo)).
  { rewrite Hk, root_keys, filter_In, negb_true_iff, memb_false. tauto. }
  assert (H2 : In ind (lkeys lg) <-> ~ In ind (removed sln)).
  { rewrite <- lget_in_keys, Hg, lget_in_keys, root_keys, filter_In, negb_true_iff, memb_false. tauto. }
  destruct (memb ind (removed slo)) eqn:E1, (memb ind (removed sln)) eqn:E2; try reflexivity.
  - apply memb_In in E1. apply memb_false in E2. tauto.
  - apply memb_false in E1. apply memb_In in E2. tauto.
Qed.
Lemma PAX_repair slo sln ind s : (forall j, j <> ind -> (In j (removed slo) <-> In j (removed sln))) ->
  InvC n s -> sliced s = sln -> PAX n (LVT slo sln []) noX s -> PA n s.
Proof.
  intros Hdiff HI Esl HP q i Hi. destruct (HP q i Hi) as [A1 A2]. split; [|exact A2]. intros lg Hl. rewrite Esl.
  destruct (A1 lg Hl) as [H|[[EN Hk]|([]&_)]]; [exact H|]. split; [intros E1; lia|]. intros _.
  destruct HI as [(_&_&H3&_) _]. destruct (H3 q i Hi) as [_ (B&_)]. specialize (B lg Hl). rewrite Esl in B.
  unfold legs_ok in B. rewrite EN, Nat.eqb_refl in B. destruct B as [_ B].
  apply (root_repair slo sln ind lg Hdiff Hk B).
Qed.
Lemma PAX_old_to_T slo sln s : PAX n (fresh_ok n slo) noX s -> PAX n (LVT slo sln (nkeys (info s))) noX s.
Proof.
  intros HP q i Hi. destruct (HP q i Hi) as [A1 A2]. split; [|exact A2]. intros lg Hl. destruct (A1 lg Hl) as [B1 B2].
  destruct (Nat.eq_dec (length q) 1) as [E1|E1].
  { right. right. split; [apply nget_in_keys; congruence|]. split; [exact E1|apply B1, E1]. }
  destruct (Nat.eq_dec (length q) N) as [EN|EN]; [right; left; split; [exact EN|apply B2, EN]|].
  left. split; intros; contradiction.
Qed.

Theorem remove_ind_A ind pj s : InvC n s -> rm_pre n ind s -> PAe n s -> PAe n (remove_ind n ind pj s).
Proof.
  intros HI Hpre HP He. pose proof (remove_ind_inv n HN Hout ind pj s HI Hpre) as IF. revert He IF.
  destruct Hpre as (Hfresh & _). unfold remove_ind.
  destruct (memb ind (removed (sliced s))) eqn:Em; [intros He; discriminate|].
  pose proof (InvC_chok s HI) as Hc.
  pose proof (contract_stats_crel n HN false s Hc) as H1. set (s1 := contract_stats n false s) in *.
  set (s2 := fold_left _ (children s1) s1).
  assert (H2 : crel n s1 s2).
  { unfold s2. apply (fold1_crel n (fun s nd => fst (g_legs n (fst (g_involved n s nd)) nd)) (children s1)); [|apply (crel_chok n _ _ H1 Hc)].
    intros s' nd Hc'. eapply crel_trans; [apply g_involved_crel; assumption|]. apply g_legs_crel; [assumption|].
    apply (crel_chok n _ _ (g_involved_crel n HN s' nd Hc') Hc'). }
  pose proof (crel_trans n _ _ _ H1 H2) as H02.
  set (x := mkSl ind pj). set (s3 := match pj with None => set_mult (mult s2 * zget ind (szd n))%Z s2 | Some _ => s2 end).
  set (sl := sliced s) in *. set (sl' := sort_by (sl_le n) (sliced s3 ++ [x])).
  assert (Esl3 : sliced s3 = sl) by (unfold s3; destruct pj; cbn; apply (crel_srel n _ _ H02)).
  assert (HPsl : Permutation sl' (sl ++ [x])) by (unfold sl'; rewrite Esl3; apply sort_by_perm).
  assert (Hrem : forall j, In j (removed sl') <-> j = ind \/ In j (removed sl)).
  { intros j. unfold removed. split.
    - intros H. apply (Permutation_in _ (Permutation_map sl_ix HPsl)) in H. rewrite map_app, in_app_iff in H. cbn in H. destruct H as [H|[H|[]]]; [right; exact H|left; symmetry; exact H].
    - intros H. apply (Permutation_in _ (Permutation_sym (Permutation_map sl_ix HPsl))). rewrite map_app, in_app_iff. cbn. destruct H as [H|H]; [right; left; symmetry; exact H|left; exact H]. }
  set (s4 := set_sliced sl' s3).
  assert (Einfo4 : info s4 = info s2) by (unfold s4, s3; destruct pj; reflexivity).
  assert (Ech4 : children s4 = children s2) by (unfold s4, s3; destruct pj; reflexivity).
  assert (Eerr4 : err s4 = err s2) by (unfold s4, s3; destruct pj; reflexivity).
  assert (Hc4 : chok (children s4)) by (rewrite Ech4; apply (crel_chok n _ _ H02 Hc)).
  set (s5 := fold_left _ (map fst (info s4)) s4).
  intros He IF.
  assert (He5 : err s5 = false) by (destruct (err s5) eqn:E; [rewrite (reset_recipes_err s5 E) in He; discriminate|reflexivity]).
  pose proof (rin_fold_A sl sl' ind (zget ind (szd n)) Hrem (map fst (info s4)) [] s4 Hout eq_refl Hc4) as HF.
  assert (He2 : err s2 = false -> PAX n (LVT sl sl' (map fst (info s4) ++ [])) noX s4).
  { intros He2. rewrite app_nil_r. apply (PAX_info n _ _ s2 s4 Einfo4). rewrite Einfo4. apply (PAX_old_to_T sl sl' s2).
    assert (P2 : PA n s2) by (apply (PAe_crel n s s2 HP H02), He2). unfold PA in P2. destruct (crel_srel n _ _ H02) as (_&_&E&_). rewrite E in P2. exact P2. }
  assert (He4 : err s4 = false) by (apply (sfr_err _ _ (rin_fold_sfr ind (zget ind (szd n)) (map fst (info s4)) s4 Hc4) He5)).
  destruct (HF (He2 ltac:(rewrite <- Eerr4; exact He4))) as [P5 F5]. fold s5 in P5, F5.
  assert (Esl5 : sliced s5 = sl') by (destruct F5 as (_&E&_); rewrite E; reflexivity).
  apply (PAX_repair sl sl' ind); [apply (Hdiff_rm sl sl' ind Hrem)|exact IF| |].
  - unfold reset_recipes. cbn [set_cores sliced]. destruct (over_children_fields drop_recipes s5) as (_&E&_). rewrite E. exact Esl5.
  - apply (PAX_info n _ _ (over_children drop_recipes s5)); [reflexivity|]. unfold over_children.
    apply PAX_over_children; [|exact P5]. intros i. cbn. auto.
Qed.

(* ---- restore_ind ---- *)
Lemma crel_nodup s s' : crel n s s' -> NoDup (nkeys (info s)) -> NoDup (nkeys (info s')).
Proof. intros [(A&_) _] H. rewrite (irel_nkeys _ _ _ A). exact H. Qed.
Lemma remove_node_nodup nd s : chok (children s) -> NoDup (nkeys (info s)) -> NoDup (nkeys (info (remove_node n nd s))).
Proof.
  intros Hc ND. rewrite remove_node_eq. destruct (Nat.eqb (length nd) 1).
  { cbn [set_preproc info]. unfold clear_info. rewrite nkeys_upd. exact ND. }
  cbn zeta. pose proof (rn_pre_crel n HN nd s Hc) as H3. set (s3 := rn_pre n nd s) in *.
  pose proof (crel_nodup _ _ H3 ND) as ND3.
  set (s4 := if nmem nd (children s3) then _ else set_err s3).
  assert (E4 : info s4 = info s3) by (unfold s4; destruct (nmem nd (children s3)); reflexivity).
  destruct (Nat.eqb (length nd) N).
  - unfold clear_info. rewrite nkeys_upd, E4. exact ND3.
  - destruct (nmem nd (info s4)); cbn [set_info set_err info]; rewrite E4; [apply NoDup_nkeys_ndel, ND3|exact ND3].
Qed.
Lemma add_node_nodup nd s : NoDup (nkeys (info s)) -> NoDup (nkeys (info (add_node nd s))).
Proof.
  intros ND. unfold add_node. destruct (nmem nd (info s)) eqn:E; [exact ND|]. cbn [set_info info].
  unfold nkeys. rewrite map_app. cbn [map fst]. apply NoDup_app_intro'; [exact ND|repeat constructor; cbn; tauto|].
  intros x Hx [<-|[]]. unfold nmem in E. destruct (nget nd (info s)) eqn:Eg; [discriminate|].
  apply (proj1 (nget_none_notin nd (info s)) Eg). exact Hx.
Qed.
Lemma contract_pair_nodup x y lg c z s : chok (children s) -> x <> [] -> y <> [] -> NoDup (x ++ y) ->
  NoDup (nkeys (info s)) -> NoDup (nkeys (info (contract_pair n x y lg c z s))).
Proof.
  intros Hc Hx Hy NDxy ND. rewrite contract_pair_eq.
  destruct (cp_pre_fields x y lg c z s) as (F1&_).
  assert (ND5 : NoDup (nkeys (info (cp_pre x y lg c z s)))).
  { unfold cp_pre. set (s1 := add_node (nunion x y) (add_node y (add_node x s))).
    assert (ND1 : NoDup (nkeys (info s1))) by (unfold s1; do 3 apply add_node_nodup; exact ND).
    set (s2 := set_children _ s1). assert (ND2 : NoDup (nkeys (info s2))) by exact ND1.
    set (s3 := match lg with Some l => _ | None => s2 end).
    assert (ND3 : NoDup (nkeys (info s3))) by (unfold s3; destruct lg; [rewrite nkeys_upd|]; exact ND2).
    set (s4 := match c with Some c0 => _ | None => s3 end).
    assert (ND4 : NoDup (nkeys (info s4))) by (unfold s4; destruct c; [rewrite nkeys_upd|]; exact ND3).
    destruct z; [rewrite nkeys_upd|]; exact ND4. }
  apply (crel_nodup _ _ (update_tracked_crel n HN (nunion x y) _ ltac:(rewrite F1; apply chok_pair; assumption)) ND5).
Qed.

Section Restore.
Variable slo sln : list slinfo.
Variable ind : ix.
Hypothesis Hdiff : forall j, j <> ind -> (In j (removed slo) <-> In j (removed sln)).

Lemma leafstep_sfr s k : chok (children s) -> sfr s (leafstep n ind s k).
Proof.
  intros Hc. unfold leafstep. destruct (memb ind (nth k (inputs n) [])); [|apply sfr_refl].
  assert (F : sfr s (remove_node n [k] s)).
  { rewrite remove_node_eq. cbn [length Nat.eqb hd]. unfold clear_info.
    destruct (upd_sfr [k] (fun _ => noinfo) s) as (F1&F2&F3). apply sfr_fields; cbn; auto. }
  match goal with |- context [if ?b then _ else _] => destruct b end; [|exact F].
  eapply sfr_trans; [exact F|apply sfr_fields; cbn; auto].
Qed.
Lemma leafstep_A T s k : PAX n (LVT slo sln ([k] :: T)) noX s -> PAX n (LVT slo sln T) noX (leafstep n ind s k).
Proof.
  intros HP. unfold leafstep. destruct (memb ind (nth k (inputs n) [])) eqn:Em.
  - assert (P : PAX n (LVT slo sln T) noX (remove_node n [k] s)).
    { rewrite remove_node_eq. cbn [length Nat.eqb hd].
      apply (PAX_info _ _ _ (clear_info [k] s)); [reflexivity|]. intros q i Hi. unfold clear_info in Hi.
      destruct (node_eq_dec q [k]) as [->|Hn].
      - rewrite nget_upd_same in Hi. destruct (nget [k] (info s)); [|discriminate]. injection Hi as <-. apply entA_noinfo.
      - rewrite nget_upd_other in Hi by exact Hn. destruct (HP q i Hi) as [A1 A2]. split; [|exact A2].
        intros lg Hl. apply (LVT_drop slo sln q [k]); [left; exact Hn|apply A1, Hl]. }
    match goal with |- context [if ?b then _ else _] => destruct b end; [|exact P]. apply (PAX_info _ _ _ (remove_node n [k] s)); [reflexivity|exact P].
  - intros q i Hi. destruct (HP q i Hi) as [A1 A2]. split; [|exact A2]. intros lg Hl.
    destruct (node_eq_dec q [k]) as [->|Hn].
    + apply (LVT_leaf_done slo sln ind Hdiff k); [apply memb_false, Em|apply A1, Hl].
    + apply (LVT_drop slo sln q [k]); [left; exact Hn|apply A1, Hl].
Qed.
Lemma leaf_fold_sfr L : forall s, chok (children s) -> sfr s (fold_left (leafstep n ind) L s).
Proof.
  induction L as [|k L IH]; intros s Hc; cbn [fold_left]; [apply sfr_refl|].
  pose proof (leafstep_sfr s k Hc) as F1. eapply sfr_trans; [exact F1|]. apply IH. destruct F1 as (A&_). rewrite A. exact Hc.
Qed.
Lemma leaf_fold_A L : forall T s, PAX n (LVT slo sln (map (fun i => [i]) L ++ T)) noX s ->
  PAX n (LVT slo sln T) noX (fold_left (leafstep n ind) L s).
Proof.
  induction L as [|k L IH]; intros T s HP; cbn [fold_left]; [exact HP|].
  apply IH. apply leafstep_A. exact HP.
Qed.

(* what the re-creation loop keeps *)
Definition lfr (s s' : tstate) : Prop :=
  sliced s' = sliced s /\ chok (children s') /\ NoDup (nkeys (info s')) /\ (err s = true -> err s' = true).
Lemma loop_body_A s p l r : sliced s = sln -> chok (children s) -> NoDup (nkeys (info s)) ->
  l <> [] -> r <> [] -> NoDup (l ++ r) ->
  lfr s (loop_body n ind s (p, (l, r))) /\
  (PAX n (LVT slo sln []) noX s -> PAX n (LVT slo sln []) noX (loop_body n ind s (p, (l, r)))).
Proof.
  intros Esl Hc ND Hl Hr NDlr. unfold loop_body.
  pose proof (g_legs_crel n HN s l Hc) as H1. destruct (g_legs n s l) as [sa ll]. cbn [fst] in H1.
  set (Y := if lmem ind ll then (sa, true) else _).
  assert (HY : crel n s (fst Y)).
  { unfold Y. destruct (lmem ind ll); [exact H1|].
    pose proof (g_legs_crel n HN sa r (crel_chok n _ _ H1 Hc)) as H2. destruct (g_legs n sa r) as [sb lr]. cbn [fst] in *.
    eapply crel_trans; eassumption. }
  destruct Y as [sb hit]. cbn [fst] in HY.
  assert (Eslb : sliced sb = sln) by (destruct (crel_srel n _ _ HY) as (_&_&E&_); congruence).
  assert (Hcb : chok (children sb)) by apply (crel_chok n _ _ HY Hc).
  assert (NDb : NoDup (nkeys (info sb))) by apply (crel_nodup _ _ HY ND).
  assert (Emb : err s = true -> err sb = true) by apply (crel_srel n _ _ HY).
  destruct hit.
  2:{ split; [unfold lfr; rewrite Eslb, Esl; auto|]. intros HP. apply (PAX_crelT slo sln [] noX s sb Esl HP HY). }
  destruct (remove_node_facts n HN p sb Hcb) as (R1&R2&R3). pose proof (remove_node_nodup p sb Hcb NDb) as R4.
  set (sc := remove_node n p sb) in *.
  assert (Hfr : forall q lg, fresh_ok n (sliced sb) q lg -> LVT slo sln [] q lg) by (intros q lg H; rewrite Eslb in H; left; exact H).
  assert (Hfr' : forall q lg, fresh_ok n (sliced sc) q lg -> LVT slo sln [] q lg) by (intros q lg H; rewrite R1, Eslb in H; left; exact H).
  assert (Ptriv : PAX n (fun _ _ => True) (fun _ => true) sc).
  { intros q i Hi. split; [auto|intros H; discriminate]. }
  destruct (PAX_contract_pair n HN (fun _ _ => True) (fun _ => true) l r None None None sc R2 Hl Hr NDlr) as (_&C2&C3&C4);
    [auto|exact Ptriv|intros l0 H; discriminate|].
  pose proof (contract_pair_nodup l r None None None sc R2 Hl Hr NDlr R4) as C5.
  split.
  - unfold lfr. rewrite C2, R1, Eslb, Esl. split; [reflexivity|]. split; [exact C3|]. split; [exact C5|]. auto.
  - intros HP.
    assert (Pb : PAX n (LVT slo sln []) noX sb) by apply (PAX_crelT slo sln [] noX s sb Esl HP HY).
    assert (Pc : PAX n (LVT slo sln []) noX sc) by apply (PAX_remove_node n HN _ noX p sb Hcb NDb Hfr Pb).
    apply (PAX_contract_pair n HN _ noX l r None None None sc R2 Hl Hr NDlr Hfr' Pc). intros l0 H; discriminate.
Qed.
Lemma loop_fold_A nodes : forall s, sliced s = sln -> chok (children s) -> NoDup (nkeys (info s)) ->
  (forall p l r, In (p, (l, r)) nodes -> l <> [] /\ r <> [] /\ NoDup (l ++ r)) ->
  lfr s (fold_left (loop_body n ind) nodes s) /\
  (PAX n (LVT slo sln []) noX s -> PAX n (LVT slo sln []) noX (fold_left (loop_body n ind) nodes s)).
Proof.
  induction nodes as [|[p [l r]] nodes IH]; intros s Esl Hc ND Hn; cbn [fold_left].
  { split; [unfold lfr; auto|auto]. }
  destruct (Hn p l r (or_introl eq_refl)) as (Hl&Hr&NDlr).
  destruct (loop_body_A s p l r Esl Hc ND Hl Hr NDlr) as [(F1&F2&F3&F4) P1].
  destruct (IH (loop_body n ind s (p, (l, r)))) as [(G1&G2&G3&G4) P2]; [congruence|exact F2|exact F3|intros p' l' r' H'; apply (Hn p' l' r'); right; exact H'|].
  split; [unfold lfr; split; [congruence|]; split; [exact G2|]; split; [exact G3|auto]|auto].
Qed.
End Restore.

Lemma PAX_old_to_leaves slo sln s : InvC n s -> PAX n (fresh_ok n slo) noX s ->
  PAX n (LVT slo sln (map (fun i => [i]) (seq 0 N) ++ [])) noX s.
Proof.
  intros HI HP q i Hi. destruct (HP q i Hi) as [A1 A2]. split; [|exact A2]. intros lg Hl. destruct (A1 lg Hl) as [B1 B2].
  destruct (Nat.eq_dec (length q) 1) as [E1|E1].
  { right. right. split; [|split; [exact E1|apply B1, E1]]. rewrite app_nil_r.
    destruct HI as [(_&_&H3&_) _]. destruct (H3 q i Hi) as [G _]. rewrite (len1 q E1) in G |- *.
    apply in_map_iff. exists (hd 0 q). split; [reflexivity|]. apply in_seq. pose proof (good_leaf n _ G). lia. }
  destruct (Nat.eq_dec (length q) N) as [EN|EN]; [right; left; split; [exact EN|apply B2, EN]|].
  left. split; intros; contradiction.
Qed.

Theorem restore_ind_A ind s : InvC n s -> rs_pre n ind s -> PAe n s -> PAe n (restore_ind n ind s).
Proof.
  intros HI Hpre HP He. pose proof (restore_ind_inv n HN Hout ind s HI Hpre) as IF. revert He IF.
  destruct Hpre as (Hin & NDr & Tf & Tw & Ts & _ & _ & _ & _ & _ & _).
  unfold restore_ind.
  destruct (find_removed ind (sliced s) Hin NDr) as (si & Ef & Esi & HPsl). rewrite Ef.
  set (sl := sliced s) in *. set (sl' := filter (fun x => negb (Nat.eqb (sl_ix x) ind)) sl) in *.
  assert (Hdiff : forall j, j <> ind -> (In j (removed sl) <-> In j (removed sl'))).
  { intros j Hj. unfold sl'. rewrite removed_filter. tauto. }
  set (s1 := set_sliced sl' s).
  rewrite (contract_stats_id n s1) by assumption.
  set (s3 := set_mult (mult s1 / sl_size n si)%Z s1).
  change (fold_left _ (seq 0 N) s3) with (fold_left (leafstep n ind) (seq 0 N) s3).
  pose proof (InvC_chok s HI) as Hc.
  assert (Hc3 : chok (children s3)) by exact Hc.
  pose proof (leaf_fold_sfr ind (seq 0 N) s3 Hc3) as F4.
  set (s4 := fold_left (leafstep n ind) (seq 0 N) s3) in *.
  destruct (traverse n s4) as [nodes|] eqn:Et; [|intros He; discriminate].
  change (fold_left _ nodes s4) with (fold_left (loop_body n ind) nodes s4).
  assert (Esl4 : sliced s4 = sl') by (destruct F4 as (_&E&_); rewrite E; reflexivity).
  assert (Hc4 : chok (children s4)) by (destruct F4 as (E&_); rewrite E; exact Hc3).
  assert (ND4 : NoDup (nkeys (info s4))).
  { (* the leaf phase only clears entries *)
    assert (Hk : forall L s0, nkeys (info (fold_left (leafstep n ind) L s0)) = nkeys (info s0)).
    { induction L as [|k L IHL]; intros s0; cbn [fold_left]; [reflexivity|]. rewrite IHL. unfold leafstep.
      destruct (memb ind (nth k (inputs n) [])); [|reflexivity].
      assert (E : nkeys (info (remove_node n [k] s0)) = nkeys (info s0)).
      { rewrite remove_node_eq. cbn [length Nat.eqb hd set_preproc info]. unfold clear_info. apply nkeys_upd. }
      match goal with |- context [if ?b then _ else _] => destruct b end; exact E. }
    unfold s4. rewrite Hk. apply HI. }
  assert (Hnodes : forall p l r, In (p, (l, r)) nodes -> l <> [] /\ r <> [] /\ NoDup (l ++ r)).
  { intros p l r Hin'. pose proof (traverse_entries n s4 nodes Et _ Hin') as E. cbn [fst snd] in E.
    destruct (Hc4 p l r (nget_In _ _ _ E)) as (A&B&C&_). auto. }
  destruct (loop_fold_A sl sl' ind nodes s4 Esl4 Hc4 ND4 Hnodes) as [(G1&G2&G3&G4) P5].
  set (s5 := fold_left (loop_body n ind) nodes s4) in *.
  intros He IF.
  assert (He5 : err s5 = false) by (destruct (err s5) eqn:E; [rewrite (reset_recipes_err s5 E) in He; discriminate|reflexivity]).
  assert (He4 : err s4 = false) by (destruct (err s4) eqn:E; [rewrite (G4 eq_refl) in He5; discriminate|reflexivity]).
  assert (He0 : err s = false) by (apply (sfr_err s3 s4 F4 He4)).
  assert (P3 : PAX n (LVT sl sl' (map (fun i => [i]) (seq 0 N) ++ [])) noX s3).
  { apply (PAX_info n _ _ s s3 eq_refl). apply PAX_old_to_leaves; [exact HI|apply HP, He0]. }
  pose proof (leaf_fold_A sl sl' ind Hdiff (seq 0 N) [] s3 P3) as P4. fold s4 in P4.
  specialize (P5 P4).
  apply (PAX_repair sl sl' ind); [exact Hdiff|exact IF| |].
  - unfold reset_recipes. cbn [set_cores sliced]. destruct (over_children_fields drop_recipes s5) as (_&E&_). rewrite E. congruence.
  - apply (PAX_info n _ _ (over_children drop_recipes s5)); [reflexivity|]. unfold over_children.
    apply PAX_over_children; [|exact P5]. intros i. cbn. auto.
Qed.

(* ======================================================================== *)
(* Part 6 : every primitive preserves  InvC /\ (A)                           *)
Definition QA (s : tstate) : Prop := InvC n s /\ PAe n s.
(* the only extra precondition: legs supplied for the ROOT (annealing never does, since fix
   88a452f) must carry the declared output order *)
Definition pairA_pre (s : tstate) (x y : node) (lg : option legs) : Prop :=
  forall l, lg = Some l -> length (nunion x y) = N -> lkeys l = lkeys (root_legs n (sliced s)).
Definition primA_pre (p : prim) (s : tstate) : Prop :=
  prim_pre n p s /\ match p with PPair x y lg _ _ => pairA_pre s x y lg | _ => True end.

Lemma legs_ok_keys_same sl0 nd a b : legs_ok n sl0 nd a -> legs_ok n sl0 nd b -> forall j, In j (lkeys a) <-> In j (lkeys b).
Proof.
  unfold legs_ok. destruct (Nat.eqb (length nd) N).
  - intros [_ Ha] [_ Hb] j. rewrite <- !lget_in_keys, Ha, Hb. tauto.
  - intros [Wa Ha] [Wb Hb]. apply wfl_keys_same; try assumption. intros j. rewrite Ha, Hb. reflexivity.
Qed.
Lemma PAe_crel' s s' : InvC n s -> PAe n s -> (chok (children s) -> crel n s s') -> PAe n s'.
Proof. intros HI HP H. apply (PAe_crel n s s' HP), H, InvC_chok, HI. Qed.
Lemma PAe_info s s' : info s' = info s -> sliced s' = sliced s -> err s' = err s -> PAe n s -> PAe n s'.
Proof. intros E1 E2 E3 HP He. unfold PA. rewrite E2. apply (PAX_info n _ _ s s' E1). apply HP. congruence. Qed.

Lemma contract_pair_facts x y lg c z s : chok (children s) -> x <> [] -> y <> [] -> NoDup (x ++ y) ->
  sliced (contract_pair n x y lg c z s) = sliced s /\ chok (children (contract_pair n x y lg c z s)) /\
  (err s = true -> err (contract_pair n x y lg c z s) = true).
Proof.
  intros Hc Hx Hy ND. rewrite contract_pair_eq. destruct (cp_pre_fields x y lg c z s) as (F1&F2&F3).
  set (s5 := cp_pre x y lg c z s) in *.
  assert (Hc5 : chok (children s5)) by (rewrite F1; apply chok_pair; assumption).
  destruct (crel_srel n _ _ (update_tracked_crel n HN (nunion x y) s5 Hc5)) as (_&E2&E3&E4).
  split; [congruence|]. split; [rewrite E2; exact Hc5|auto].
Qed.

Theorem step_preserves_PAe p s : InvC n s -> PAe n s -> primA_pre p s -> PAe n (step n p s).
Proof.
  intros HI HP [Hp Hx]. pose proof (InvC_chok s HI) as Hc.
  destruct p as [nd|nd|x y lg c z|g nd|f| | | | | |pr a b c|ind pj|ind| |k]; cbn [step].
  - (* _add_node *)
    intros He. destruct (add_node_fields nd s) as (_&E2&E3). unfold PA. rewrite E2. apply PAX_add_node. apply HP. congruence.
  - (* _remove_node *)
    intros He. destruct (remove_node_facts n HN nd s Hc) as (E1&_&E3).
    assert (He0 : err s = false) by (destruct (err s); [rewrite E3 in He by reflexivity; discriminate|reflexivity]).
    unfold PA. rewrite E1. apply (PAX_remove_node n HN); [exact Hc|apply HI|auto|apply HP, He0].
  - (* contract_nodes_pair *)
    cbn [prim_pre prim_preN prim_pre1 prim_pre0] in Hp. destruct Hp as (Gx&Gy&HR&Hnone&Hlg&_).
    assert (Hx0 : x <> []) by apply Gx. assert (Hy0 : y <> []) by apply Gy. assert (NDxy : NoDup (x ++ y)) by apply HR.
    destruct (contract_pair_facts x y lg c z s Hc Hx0 Hy0 NDxy) as (C2&_&C4).
    intros He. assert (He0 : err s = false) by (destruct (err s); [rewrite C4 in He by reflexivity; discriminate|reflexivity]).
    pose proof (HP He0) as PA0. unfold PA. rewrite C2.
    apply (PAX_contract_pair n HN _ noX x y lg c z s Hc Hx0 Hy0 NDxy); [auto|exact PA0|].
    intros l El. pose proof (Permutation_length (nunion_perm' x y NDxy)) as Lp. rewrite app_length in Lp.
    assert (Lx : 1 <= length x) by (destruct x; [congruence|cbn; lia]).
    assert (Ly : 1 <= length y) by (destruct y; [congruence|cbn; lia]).
    split.
    + split; [intros E1; lia|]. intros EN. apply (Hx l El EN).
    + intros i lg0 v Hi El0. unfold enum_ok, is_lr.
      assert (E1 : (length (nunion x y) =? 1) = false) by (apply Nat.eqb_neq; lia). rewrite E1. cbn [orb].
      destruct (Nat.eqb_spec (length (nunion x y)) N) as [EN|EN].
      * intros ->. destruct (PA0 _ i Hi) as [A1 _]. destruct (A1 lg0 El0) as [_ B2]. rewrite (B2 EN). symmetry. apply (Hx l El EN).
      * intros [NDv Hv]. split; [exact NDv|]. intros j. rewrite Hv.
        destruct HI as [(_&_&H3&_) _]. destruct (H3 _ i Hi) as [_ (B&_)].
        apply (legs_ok_keys_same (sliced s) (nunion x y)); [apply B, El0|apply Hlg, El].
  - (* getters *)
    cbn [prim_pre prim_preN prim_pre1 prim_pre0] in Hp.
    destruct g; cbn [do_get].
    + apply (PAe_crel' s); [exact HI|exact HP|apply g_legs_crel, HN].
    + apply (PAe_crel' s); [exact HI|exact HP|apply g_involved_crel, HN].
    + apply (PAe_crel' s); [exact HI|exact HP|apply g_size_crel, HN].
    + apply (PAe_crel' s); [exact HI|exact HP|apply g_flops_crel, HN].
    + apply g_can_dot_A; assumption.
    + apply g_inds_A; assumption.
    + apply g_tdaxes_A; assumption.
    + apply g_tdperm_A; assumption.
    + apply g_eq_A; assumption.
  - apply (PAe_crel' s); [exact HI|exact HP|apply contract_stats_crel, HN].
  - apply (PAe_crel' s); [exact HI|exact HP|apply total_flops_crel, HN].
  - apply (PAe_crel' s); [exact HI|exact HP|apply total_write_crel, HN].
  - apply (PAe_crel' s); [exact HI|exact HP|apply max_size_crel, HN].
  - apply PAe_reset_inds, HP.
  - apply PAe_reset_recipes, HP.
  - apply sort_inds_A; assumption.
  - apply remove_ind_A; assumption.
  - apply restore_ind_A; assumption.
  - apply (PAe_info s); auto.
  - destruct (memb k (cores s)); [exact HP|apply (PAe_info s); auto].
Qed.
Theorem step_preserves_QA p s : QA s -> primA_pre p s -> QA (step n p s).
Proof.
  intros [HI HP] Hp. split; [apply (step_preserves_InvC n HN Hout p s HI), Hp|apply step_preserves_PAe; assumption].
Qed.
Fixpoint preA_trace (tr : list prim) (s : tstate) : Prop :=
  match tr with [] => True | p :: tr' => primA_pre p s /\ preA_trace tr' (step n p s) end.
Theorem run_preserves_QA tr : forall s, QA s -> preA_trace tr s -> QA (run n tr s).
Proof.
  induction tr as [|p tr IH]; intros s HQ Hp; [exact HQ|]. destruct Hp as [H1 H2]. cbn [run fold_left].
  apply (IH (step n p s)); [apply step_preserves_QA; assumption|exact H2].
Qed.
Lemma init_state_PA : PA n (init_state n).
Proof.
  intros nd i Hi. apply nget_In in Hi. cbn [init_state info] in Hi. apply in_app_iff in Hi.
  assert (Ei : i = noinfo).
  { destruct Hi as [Hi|[Hi|[]]]; [|congruence]. apply in_map_iff in Hi. destruct Hi as (j & Hj & _). congruence. }
  subst i. apply entA_noinfo.
Qed.
Theorem init_state_QA : QA (init_state n).
Proof. split; [apply (init_state_InvC n HN)|intros _; apply init_state_PA]. Qed.
End InvA2.

(* ======================================================================== *)
(* Part 7 : (B) recipe consistency: every cached recipe of a node with children equals the recipe
   derived from the index orders cached on the node and on its two children (which are cached) *)
Definition entB (s : tstate) (nd : node) (i : ninfo) : Prop :=
  forall l r, nget nd (children s) = Some (l, r) ->
   (forall a, i_tdaxes i = Some a -> exists li ri, rd i_inds s l = Some li /\ rd i_inds s r = Some ri /\ a = td_axes li ri 0) /\
   (forall e, i_eq i = Some e -> exists li ri pi, rd i_inds s l = Some li /\ rd i_inds s r = Some ri /\ i_inds i = Some pi /\
                                 e = einsum_eq_of li ri pi) /\
   (forall p, i_tdperm i = Some p -> exists li ri pi, rd i_inds s l = Some li /\ rd i_inds s r = Some ri /\ i_inds i = Some pi /\
                                 p = td_perm li ri pi) /\
   (forall b, i_can_dot i = Some b -> exists sp sl sr, i_legs i = Some sp /\ rd i_legs s l = Some sl /\ rd i_legs s r = Some sr /\
                                 b = set_eqb (lkeys sp) (symdiff (lkeys sl) (lkeys sr))).
Definition PB (s : tstate) : Prop := forall nd i, nget nd (info s) = Some i -> entB s nd i.
Definition PBe (s : tstate) : Prop := err s = false -> PB s.
Definition norec (i : ninfo) : Prop := i_eq i = None /\ i_can_dot i = None /\ i_tdaxes i = None /\ i_tdperm i = None.

Lemma entB_norec s nd i : norec i -> entB s nd i.
Proof. intros (A&B&C&D) l r _. rewrite A, B, C, D. repeat split; intros; discriminate. Qed.
Lemma entB_ext s s' nd i : children s' = children s -> (forall q, rd i_inds s' q = rd i_inds s q) ->
  (forall q, rd i_legs s' q = rd i_legs s q) -> entB s nd i -> entB s' nd i.
Proof.
  intros Ec Ei El H l r Hch. rewrite Ec in Hch. destruct (H l r Hch) as (A&B&C&D). rewrite !Ei, !El. auto.
Qed.
Lemma PB_upd_field nd f s : PB s -> (forall i, i_inds (f i) = i_inds i /\ i_legs (f i) = i_legs i) ->
  (forall i, nget nd (info s) = Some i -> entB s nd i -> entB s nd (f i)) -> PB (upd_info nd f s).
Proof.
  intros HP Hf Hn.
  assert (Hrd : forall A (fld : ninfo -> option A), (forall i, fld (f i) = fld i) -> forall q, rd fld (upd_info nd f s) q = rd fld s q).
  { intros A fld Hfld q. destruct (node_eq_dec q nd) as [->|Hq]; [|apply rd_upd_other, Hq].
    destruct (nget nd (info s)) as [i|] eqn:E.
    - rewrite (rd_upd_same fld nd f s i E). unfold rd. rewrite E. apply Hfld.
    - unfold upd_info. rewrite E. reflexivity. }
  intros q i' Hi'. apply (entB_ext s); [apply upd_info_fields|apply Hrd; intros i; apply Hf|apply Hrd; intros i; apply Hf|].
  destruct (node_eq_dec q nd) as [->|Hq].
  - rewrite nget_upd_same in Hi'. destruct (nget nd (info s)) as [i|] eqn:E; [|discriminate]. injection Hi' as <-.
    apply Hn; [reflexivity|apply HP, E].
  - rewrite nget_upd_other in Hi' by exact Hq. apply HP, Hi'.
Qed.

(* established by _reset_contraction_recipes / reset_contraction_indices, in ANY state *)
Lemma fold_drop_norec f (L : list (node * (node * node))) nd : (forall i, norec (f i)) ->
  forall s, (In nd (map fst L) \/ (forall i, nget nd (info s) = Some i -> norec i)) ->
  forall i', nget nd (info (fold_left (fun s p => upd_info (fst p) f s) L s)) = Some i' -> norec i'.
Proof.
  intros Hf. induction L as [|p L IH]; intros s H i' Hi'; cbn [fold_left] in Hi'.
  - destruct H as [[]|H]. apply H, Hi'.
  - apply (IH (upd_info (fst p) f s)); [|exact Hi'].
    destruct (node_eq_dec (fst p) nd) as [E|E].
    + right. intros i Hi. rewrite E, nget_upd_same in Hi. destruct (nget nd (info s)); [|discriminate]. injection Hi as <-. apply Hf.
    + destruct H as [[H|H]|H]; [contradiction|left; exact H|right].
      intros i Hi. rewrite nget_upd_other in Hi by congruence. apply H, Hi.
Qed.
Lemma PB_over_children f s : (forall i, norec (f i)) -> PB (over_children f s).
Proof.
  intros Hf nd i' Hi' l r Hch. destruct (over_children_fields f s) as (Ec&_). rewrite Ec in Hch.
  apply (entB_norec _ nd i'); [|rewrite Ec; exact Hch].
  unfold over_children in Hi'. apply (fold_drop_norec f (children s) nd Hf s); [|exact Hi'].
  left. apply nget_In in Hch. apply (in_map fst) in Hch. exact Hch.
Qed.
Theorem PB_reset_recipes s : PB (reset_recipes s).
Proof.
  unfold reset_recipes. intros nd i Hi. apply (entB_ext (over_children drop_recipes s)); try reflexivity.
  apply (PB_over_children drop_recipes s); [intros i0; unfold norec; cbn; auto|exact Hi].
Qed.
Theorem PB_reset_inds s : PB (reset_inds s).
Proof.
  unfold reset_inds. intros nd i Hi. apply (entB_ext (over_children drop_inds_recipes s)); try reflexivity.
  apply (PB_over_children drop_inds_recipes s); [intros i0; unfold norec; cbn; auto|exact Hi].
Qed.

Section InvB.
Variable n : net.
Notation N := (NN n).
Hypothesis HN : 2 <= N.
Hypothesis Hout : NoDup (output n).

(* the composites that end with _reset_contraction_recipes *)
Theorem PBe_remove_ind ind pj s : PBe (remove_ind n ind pj s).
Proof. unfold remove_ind. destruct (memb ind (removed (sliced s))); [intros H; discriminate|]. intros _. apply PB_reset_recipes. Qed.
Theorem PBe_restore_ind ind s : PBe (restore_ind n ind s).
Proof.
  unfold restore_ind. destruct (find _ (sliced s)); [|intros H; discriminate].
  match goal with |- context [traverse n ?x] => destruct (traverse n x) end; [|intros H; discriminate].
  intros _. apply PB_reset_recipes.
Qed.
Theorem PBe_sort_inds pr a b c s : PBe (sort_inds n pr a b c s).
Proof.
  unfold sort_inds.
  match goal with |- context [let '(s1, nodes) := ?e in _] => destruct e as [s1 [nodes|]] end; [|intros H; discriminate].
  intros _. apply PB_reset_recipes.
Qed.

(* preserved by every frame that keeps recipes and never replaces a cached order / legs dict *)
Lemma PB_irl s s' : PB s -> irl n s s' -> PB s'.
Proof.
  intros HP HR nd i' Hi' l r Hch. assert (HR' := HR). destruct HR' as (A1&Ec&_).
  destruct (irel_nget_rev _ _ _ A1 nd i' Hi') as (i & Hi & (E1&E2&E3&E4) & Em & Hs). rewrite Ec in Hch.
  destruct (HP nd i Hi l r Hch) as (B1&B2&B3&B4). rewrite E1, E2, E3, E4. split; [|split; [|split]].
  - intros a Ha. destruct (B1 a Ha) as (li & ri & Hl & Hr & ->). exists li, ri.
    split; [apply (irl_inds n s s' l li HR Hl)|]. split; [apply (irl_inds n s s' r ri HR Hr)|reflexivity].
  - intros e He. destruct (B2 e He) as (li & ri & pi & Hl & Hr & Hp & ->). exists li, ri, pi.
    split; [apply (irl_inds n s s' l li HR Hl)|]. split; [apply (irl_inds n s s' r ri HR Hr)|]. split; [apply Em, Hp|reflexivity].
  - intros p Hp'. destruct (B3 p Hp') as (li & ri & pi & Hl & Hr & Hp & ->). exists li, ri, pi.
    split; [apply (irl_inds n s s' l li HR Hl)|]. split; [apply (irl_inds n s s' r ri HR Hr)|]. split; [apply Em, Hp|reflexivity].
  - intros b Hb. destruct (B4 b Hb) as (sp & sl & sr & Hp & Hl & Hr & ->). exists sp, sl, sr.
    split; [unfold legs_step in Hs; rewrite Hp in Hs; exact Hs|].
    split; [apply (irl_legs n s s' l sl HR Hl)|]. split; [apply (irl_legs n s s' r sr HR Hr)|reflexivity].
Qed.
Lemma PBe_irl s s' : PBe s -> irl n s s' -> PBe s'.
Proof. intros HP HR He. apply (PB_irl s s'); [apply HP, (irl_err n _ _ HR He)|exact HR]. Qed.
Lemma PBe_crel s s' : PBe s -> crel n s s' -> PBe s'.
Proof. intros HP HR. apply (PBe_irl s s' HP), crel_irl, HR. Qed.
Lemma g_legs_cached_e s nd : err (fst (g_legs n s nd)) = false -> rd i_legs (fst (g_legs n s nd)) nd = Some (snd (g_legs n s nd)).
Proof.
  unfold g_legs. destruct (fuel_S n HN s) as [f ->]. rewrite get_legs_S.
  destruct (rd i_legs s nd) as [l|] eqn:Er; [intros _; exact Er|].
  match goal with |- context [let '(s1, v) := ?e in _] => destruct e as [s1 v] end. cbn [fst snd].
  intros He. destruct (upd_err _ _ _ He) as [_ Hk]. destruct (nget nd (info s1)) as [i1|] eqn:E; [|congruence].
  rewrite (rd_upd_same i_legs nd _ s1 i1 E). reflexivity.
Qed.
Lemma PBe_err s : PBe (set_err s).
Proof. intros H. discriminate. Qed.

Lemma g_can_dot_B s nd : InvC n s -> PBe s -> PBe (fst (g_can_dot n s nd)).
Proof.
  intros HI HP. unfold g_can_dot. destruct (rd i_can_dot s nd) as [b|] eqn:Er; [exact HP|].
  destruct (nget nd (children s)) as [[l r]|] eqn:E; [|apply PBe_err].
  pose proof (InvC_chok n s HI) as Hc.
  pose proof (g_legs_crel n HN s nd Hc) as H1. pose proof (g_legs_cached_e s nd) as C1. destruct (g_legs n s nd) as [s1 sp]. cbn [fst snd] in H1, C1.
  pose proof (g_legs_crel n HN s1 l (crel_chok n _ _ H1 Hc)) as H2. pose proof (g_legs_cached_e s1 l) as C2.
  destruct (g_legs n s1 l) as [s2 sl]. cbn [fst snd] in H2, C2.
  pose proof (crel_trans n _ _ _ H1 H2) as H12.
  pose proof (g_legs_crel n HN s2 r (crel_chok n _ _ H12 Hc)) as H3. pose proof (g_legs_cached_e s2 r) as C3.
  destruct (g_legs n s2 r) as [s3 sr]. cbn [fst snd] in H3, C3.
  pose proof (crel_trans n _ _ _ H12 H3) as H13. cbn [fst].
  intros He. destruct (upd_err _ _ _ He) as [He3 _].
  pose proof (crel_err n _ _ H3 He3) as He2. pose proof (crel_err n _ _ H2 He2) as He1.
  apply PB_upd_field; [apply (PBe_crel s s3 HP H13), He3|intros i; cbn; auto|].
  intros i Hi HB l' r' Hch. destruct (HB l' r' Hch) as (B1&B2&B3&B4). cbn. split; [exact B1|]. split; [exact B2|]. split; [exact B3|].
  intros b [= <-]. assert (Ech3 : children s3 = children s) by apply (crel_srel n _ _ H13). rewrite Ech3, E in Hch. injection Hch as <- <-.
  exists sp, sl, sr. split.
  - pose proof (irl_legs n s1 s3 nd sp (crel_irl n _ _ (crel_trans n _ _ _ H2 H3)) (C1 He1)) as H. unfold rd in H. rewrite Hi in H. exact H.
  - split; [apply (irl_legs n s2 s3 l sl (crel_irl n _ _ H3) (C2 He2))|]. split; [apply C3, He3|reflexivity].
Qed.
Lemma g_tdaxes_B s nd : InvC n s -> PAe n s -> PBe s -> good_node n nd -> PBe (fst (g_tdaxes n s nd)).
Proof.
  intros HI HA HP HG. unfold g_tdaxes. destruct (rd i_tdaxes s nd) as [b|] eqn:Er; [exact HP|].
  destruct (nget nd (children s)) as [[l r]|] eqn:E; [|apply PBe_err].
  pose proof (inds3_A n HN Hout s nd l r HI HA HG E) as H.
  destruct (g_inds n s l) as [s1 li]. destruct (g_inds n s1 r) as [s2 ri]. destruct (g_inds n s2 nd) as [s3 pi].
  destruct H as (I2&P2&R2&C2&_). cbn [fst].
  intros He. destruct (upd_err _ _ _ He) as [He2 _]. destruct (C2 He2) as [Cl Cr].
  apply PB_upd_field; [apply (PBe_irl s s2 HP R2), He2|intros i; cbn; auto|].
  intros i Hi HB l' r' Hch. destruct (HB l' r' Hch) as (B1&B2&B3&B4). cbn. split; [|auto].
  intros a [= <-]. assert (Ech : children s2 = children s) by apply R2. rewrite Ech, E in Hch. injection Hch as <- <-.
  exists li, ri. auto.
Qed.
Lemma g_tdperm_B s nd : InvC n s -> PAe n s -> PBe s -> good_node n nd -> PBe (fst (g_tdperm n s nd)).
Proof.
  intros HI HA HP HG. unfold g_tdperm. destruct (rd i_tdperm s nd) as [b|] eqn:Er; [exact HP|].
  destruct (nget nd (children s)) as [[l r]|] eqn:E; [|apply PBe_err].
  pose proof (inds3_A n HN Hout s nd l r HI HA HG E) as H.
  destruct (g_inds n s l) as [s1 li]. destruct (g_inds n s1 r) as [s2 ri]. destruct (g_inds n s2 nd) as [s3 pi].
  destruct H as (_&_&_&_&I3&P3&R3&C3). cbn [fst].
  intros He. destruct (upd_err _ _ _ He) as [He3 _]. destruct (C3 He3) as (Cl & Cr & Cp).
  apply PB_upd_field; [apply (PBe_irl s s3 HP R3), He3|intros i; cbn; auto|].
  intros i Hi HB l' r' Hch. destruct (HB l' r' Hch) as (B1&B2&B3&B4). cbn. split; [exact B1|]. split; [exact B2|]. split; [|exact B4].
  intros a [= <-]. assert (Ech : children s3 = children s) by apply R3. rewrite Ech, E in Hch. injection Hch as <- <-.
  exists li, ri, pi. unfold rd in Cp. rewrite Hi in Cp. auto.
Qed.
Lemma g_eq_B s nd : InvC n s -> PAe n s -> PBe s -> good_node n nd -> PBe (fst (g_eq n s nd)).
Proof.
  intros HI HA HP HG. unfold g_eq. destruct (rd i_eq s nd) as [b|] eqn:Er; [exact HP|].
  destruct (nget nd (children s)) as [[l r]|] eqn:E; [|apply PBe_err].
  pose proof (inds3_A n HN Hout s nd l r HI HA HG E) as H.
  destruct (g_inds n s l) as [s1 li]. destruct (g_inds n s1 r) as [s2 ri]. destruct (g_inds n s2 nd) as [s3 pi].
  destruct H as (_&_&_&_&I3&P3&R3&C3). cbn [fst].
  intros He. destruct (upd_err _ _ _ He) as [He3 _]. destruct (C3 He3) as (Cl & Cr & Cp).
  apply PB_upd_field; [apply (PBe_irl s s3 HP R3), He3|intros i; cbn; auto|].
  intros i Hi HB l' r' Hch. destruct (HB l' r' Hch) as (B1&B2&B3&B4). cbn. split; [exact B1|]. split; [|split; [exact B3|exact B4]].
  intros a [= <-]. assert (Ech : children s3 = children s) by apply R3. rewrite Ech, E in Hch. injection Hch as <- <-.
  exists li, ri, pi. unfold rd in Cp. rewrite Hi in Cp. auto.
Qed.
(* every getter preserves (B) *)
Theorem getter_preserves_PBe g nd s : InvC n s -> PAe n s -> PBe s -> good_node n nd -> PBe (do_get n g nd s).
Proof.
  intros HI HA HP HG. pose proof (InvC_chok n s HI) as Hc. destruct g; cbn [do_get].
  - apply (PBe_crel s); [exact HP|apply g_legs_crel; assumption].
  - apply (PBe_crel s); [exact HP|apply g_involved_crel; assumption].
  - apply (PBe_crel s); [exact HP|apply g_size_crel; assumption].
  - apply (PBe_crel s); [exact HP|apply g_flops_crel; assumption].
  - apply g_can_dot_B; assumption.
  - apply (PBe_irl s); [exact HP|]. apply (g_inds_A n HN Hout s nd HI HA HG).
  - apply g_tdaxes_B; assumption.
  - apply g_tdperm_B; assumption.
  - apply g_eq_B; assumption.
Qed.
End InvB.

(* TreeStateRecipes.v -- C02 step 3: the index-order invariant (A) of the mutable tree is preserved
   by every primitive; recipe consistency (B) is established by _reset_contraction_recipes /
   reset_contraction_indices and preserved by the getters.
   Part 1: pointwise relations between info dicts (frames).
   Part 2: what the cost getters leave alone (strong frame, by induction on the fuel).
   Part 3: the invariant (A) and its preservation by frames / structural primitives.
   Later parts: recipe getters, sort, remove_ind, restore_ind, (B), the corollary. *)
From Coq Require Import Lia ZifyBool Permutation.
From Ctg Require Import Base Net BaseFacts NetFacts TreeState TreeStateFacts TreeStateInv.

(* ======================================================================== *)
(* Part 1 : pointwise relations                                              *)
Section IRel.
Variable R : node -> ninfo -> ninfo -> Prop.
Definition irel (a b : list (node * ninfo)) : Prop :=
  Forall2 (fun x y => fst x = fst y /\ R (fst x) (snd x) (snd y)) a b.

Lemma irel_nget a b : irel a b -> forall nd i, nget nd a = Some i -> exists i', nget nd b = Some i' /\ R nd i i'.
Proof.
  induction 1 as [|[k v] [k' v'] a b [Hk Hr] _ IH]; cbn; intros nd i; [discriminate|].
  cbn in Hk, Hr. subst k'. destruct (node_eqb k nd) eqn:E; [|apply IH].
  intros [= ->]. apply node_eqb_eq in E. subst. eauto.
Qed.
Lemma irel_nget_rev a b : irel a b -> forall nd i', nget nd b = Some i' -> exists i, nget nd a = Some i /\ R nd i i'.
Proof.
  induction 1 as [|[k v] [k' v'] a b [Hk Hr] _ IH]; cbn; intros nd i; [discriminate|].
  cbn in Hk, Hr. subst k'. destruct (node_eqb k nd) eqn:E; [|apply IH].
  intros [= ->]. apply node_eqb_eq in E. subst. eauto.
Qed.
Lemma irel_nkeys a b : irel a b -> nkeys b = nkeys a.
Proof. unfold nkeys. induction 1 as [|x y a b [Hk _] _ IH]; cbn; [reflexivity|]. rewrite IH, Hk. reflexivity. Qed.

Hypothesis Rrefl : forall q i, R q i i.
Lemma irel_refl a : irel a a.
Proof. induction a as [|[k v] a IH]; constructor; auto. Qed.
Lemma irel_nset nd i v a : nget nd a = Some i -> R nd i v -> irel a (nset nd v a).
Proof.
  induction a as [|[k w] a IH]; cbn; [discriminate|].
  destruct (node_eqb k nd) eqn:E.
  - intros [= ->] Hr. apply node_eqb_eq in E. subst k. constructor; [cbn; auto|apply irel_refl].
  - intros H Hr. constructor; [cbn; auto|apply IH; assumption].
Qed.
End IRel.

Lemma irel_trans (R : node -> ninfo -> ninfo -> Prop) : (forall q i j k, R q i j -> R q j k -> R q i k) ->
  forall a b c, irel R a b -> irel R b c -> irel R a c.
Proof.
  intros HT a b c H. revert c. induction H as [|x y a b [Hk Hr] _ IH]; intros c Hc; inversion Hc as [|y' z b' c' [Hk' Hr'] Hc']; subst; constructor.
  - split; [congruence|]. rewrite <- Hk in Hr'. eapply HT; eassumption.
  - apply IH, Hc'.
Qed.
Lemma irel_weaken (R R' : node -> ninfo -> ninfo -> Prop) : (forall q i j, R q i j -> R' q i j) ->
  forall a b, irel R a b -> irel R' a b.
Proof. intros HW a b H. induction H as [|x y a b [Hk Hr] _ IH]; constructor; auto. Qed.

(* states: pointwise on info, same children / sliced, an exception stays raised *)
Definition srel (R : node -> ninfo -> ninfo -> Prop) (s s' : tstate) : Prop :=
  irel R (info s) (info s') /\ children s' = children s /\ sliced s' = sliced s /\ (err s = true -> err s' = true).

Lemma srel_refl (R : node -> ninfo -> ninfo -> Prop) s : (forall q i, R q i i) -> srel R s s.
Proof. intros HR. split; [apply irel_refl, HR|auto]. Qed.
Lemma srel_trans (R : node -> ninfo -> ninfo -> Prop) s1 s2 s3 : (forall q i j k, R q i j -> R q j k -> R q i k) ->
  srel R s1 s2 -> srel R s2 s3 -> srel R s1 s3.
Proof.
  intros HT (A1&A2&A3&A4) (B1&B2&B3&B4). split; [eapply irel_trans; eassumption|].
  split; [congruence|]. split; [congruence|auto].
Qed.
Lemma srel_weaken (R R' : node -> ninfo -> ninfo -> Prop) s s' : (forall q i j, R q i j -> R' q i j) -> srel R s s' -> srel R' s s'.
Proof. intros HW (A1&A2&A3&A4). split; [eapply irel_weaken; eassumption|auto]. Qed.
(* a change of fields other than info / children / sliced *)
Lemma srel_fields (R : node -> ninfo -> ninfo -> Prop) s s' : (forall q i, R q i i) -> info s' = info s -> children s' = children s -> sliced s' = sliced s ->
  (err s = true -> err s' = true) -> srel R s s'.
Proof. intros HR E1 E2 E3 E4. split; [rewrite E1; apply irel_refl, HR|auto]. Qed.
Lemma srel_upd (R : node -> ninfo -> ninfo -> Prop) nd f s : (forall q i, R q i i) -> (forall i, nget nd (info s) = Some i -> R nd i (f i)) ->
  srel R s (upd_info nd f s).
Proof.
  intros HR Hf. unfold upd_info. destruct (nget nd (info s)) as [i|] eqn:E.
  - split; [cbn; apply (irel_nset R HR nd i); [exact E|apply Hf; reflexivity]|cbn; auto].
  - apply srel_fields; auto.
Qed.
Lemma srel_rd {A} (R : node -> ninfo -> ninfo -> Prop) (fld : ninfo -> option A) s s' nd :
  srel R s s' -> (forall q i j, R q i j -> fld j = fld i) -> rd fld s' nd = rd fld s nd.
Proof.
  intros (A1&_) HF. unfold rd. destruct (nget nd (info s)) as [i|] eqn:E.
  - destruct (irel_nget R _ _ A1 nd i E) as (i' & E' & Hr). rewrite E'. eapply HF, Hr.
  - destruct (nget nd (info s')) as [i'|] eqn:E'; [|reflexivity].
    destruct (irel_nget_rev R _ _ A1 nd i' E') as (i & Ei & _). congruence.
Qed.

(* ======================================================================== *)
(* Part 2 : the cost getters fill legs / involved / size / flops and nothing else;
   a cached legs dict is never replaced                                      *)
Definition rec_same (i i' : ninfo) : Prop :=
  i_inds i' = i_inds i /\ i_eq i' = i_eq i /\ i_can_dot i' = i_can_dot i /\ i_tdaxes i' = i_tdaxes i /\ i_tdperm i' = i_tdperm i.
Definition legs_step (LV : node -> legs -> Prop) (nd : node) (a b : option legs) : Prop :=
  match a with Some lg => b = Some lg | None => forall lg, b = Some lg -> LV nd lg end.
(* Rc: recipes and index order untouched; legs only filled, with an LV-valid value *)
Definition Rc (LV : node -> legs -> Prop) (nd : node) (i i' : ninfo) : Prop :=
  rec_same i i' /\ legs_step LV nd (i_legs i) (i_legs i').
(* the same, but legs may only be filled on the nodes in P *)
Definition RcB (LV : node -> legs -> Prop) (P : node -> bool) (nd : node) (i i' : ninfo) : Prop :=
  rec_same i i' /\ (if P nd then legs_step LV nd (i_legs i) (i_legs i') else i_legs i' = i_legs i).

Lemma rec_same_refl i : rec_same i i.
Proof. unfold rec_same. auto. Qed.
Lemma rec_same_trans i j k : rec_same i j -> rec_same j k -> rec_same i k.
Proof. unfold rec_same. intros (A1&A2&A3&A4&A5) (B1&B2&B3&B4&B5). repeat split; congruence. Qed.
Lemma legs_step_refl LV nd a : legs_step LV nd a a.
Proof. destruct a; cbn; [reflexivity|intros; discriminate]. Qed.
Lemma legs_step_trans LV nd a b c : legs_step LV nd a b -> legs_step LV nd b c -> legs_step LV nd a c.
Proof.
  destruct a as [lg|]; cbn.
  - intros ->. cbn. auto.
  - intros H1 H2 lg ->. destruct b as [lb|]; cbn in H2; [|apply H2; reflexivity].
    injection H2 as <-. apply H1. reflexivity.
Qed.
Lemma legs_step_eq LV nd a b : b = a -> legs_step LV nd a b.
Proof. intros ->. apply legs_step_refl. Qed.
Lemma Rc_refl LV q i : Rc LV q i i.
Proof. split; [apply rec_same_refl|apply legs_step_refl]. Qed.
Lemma Rc_trans LV q i j k : Rc LV q i j -> Rc LV q j k -> Rc LV q i k.
Proof. intros [A1 A2] [B1 B2]. split; [eapply rec_same_trans|eapply legs_step_trans]; eassumption. Qed.
Lemma RcB_refl LV P q i : RcB LV P q i i.
Proof. split; [apply rec_same_refl|]. destruct (P q); [apply legs_step_refl|reflexivity]. Qed.
Lemma RcB_trans LV P q i j k : RcB LV P q i j -> RcB LV P q j k -> RcB LV P q i k.
Proof.
  intros (A1&A2) (B1&B2). split; [eapply rec_same_trans; eassumption|]. destruct (P q).
  - eapply legs_step_trans; eassumption.
  - congruence.
Qed.
Lemma RcB_mono LV (P P' : node -> bool) q i j : (P q = true -> P' q = true) -> RcB LV P q i j -> RcB LV P' q i j.
Proof.
  intros HPP (A1&A2). split; [exact A1|]. destruct (P q) eqn:E.
  - rewrite (HPP eq_refl). exact A2.
  - destruct (P' q); [apply legs_step_eq, A2|exact A2].
Qed.
Lemma RcB_Rc LV P q i j : RcB LV P q i j -> Rc LV q i j.
Proof. intros (A1&A2). split; [exact A1|]. destruct (P q); [exact A2|apply legs_step_eq, A2]. Qed.
Lemma RcB_keep LV P q i j : rec_same i j -> i_legs j = i_legs i -> RcB LV P q i j.
Proof. intros A1 A2. split; [exact A1|]. destruct (P q); [apply legs_step_eq, A2|exact A2]. Qed.

Section Getters.
Variable n : net.
Notation N := (NN n).
Hypothesis HN : 2 <= N.

(* an exact-order requirement on the legs of leaves (the order of the pre-processed array)
   and of the root (the declared output order) *)
Definition fresh_ok (sl : list slinfo) (nd : node) (lg : legs) : Prop :=
  (length nd = 1 -> lg = leaf_legs n sl (hd 0 nd)) /\ (length nd = N -> lkeys lg = lkeys (root_legs n sl)).

(* list-level well-formedness of the children dict: enough for "children are shorter" *)
Definition chok (ch : list (node * (node * node))) : Prop :=
  forall p l r, In (p, (l, r)) ch -> l <> [] /\ r <> [] /\ NoDup (l ++ r) /\ Permutation p (l ++ r).
Lemma chok_dec ch p l r : chok ch -> nget p ch = Some (l, r) -> length l < length p /\ length r < length p.
Proof.
  intros H E. destruct (H p l r (nget_In _ _ _ E)) as (Hl&Hr&_&HP).
  apply Permutation_length in HP. rewrite app_length in HP. destruct l, r; try congruence; cbn in *; lia.
Qed.

Definition lenle (m : nat) (q : node) : bool := Nat.leb (length q) m.
Definition lenlt (m : nat) (q : node) : bool := Nat.ltb (length q) m.
Notation RB sl P := (RcB (fresh_ok sl) P).

Lemma srel_legs_keep LV P s s' nd : srel (RcB LV P) s s' -> P nd = false -> rd i_legs s' nd = rd i_legs s nd.
Proof.
  intros (A1&_) HP. unfold rd. destruct (nget nd (info s)) as [i|] eqn:E.
  - destruct (irel_nget _ _ _ A1 nd i E) as (i' & E' & _ & Hr). rewrite E'. rewrite HP in Hr. exact Hr.
  - destruct (nget nd (info s')) as [i'|] eqn:E'; [|reflexivity].
    destruct (irel_nget_rev _ _ _ A1 nd i' E') as (i & Ei & _). congruence.
Qed.
Lemma srelB_trans LV P s1 s2 s3 : srel (RcB LV P) s1 s2 -> srel (RcB LV P) s2 s3 -> srel (RcB LV P) s1 s3.
Proof. apply srel_trans. intros q i j k. apply RcB_trans. Qed.
Lemma srelB_mono LV (P P' : node -> bool) s s' : (forall q, P q = true -> P' q = true) -> srel (RcB LV P) s s' -> srel (RcB LV P') s s'.
Proof. intros H. apply srel_weaken. intros q i j. apply RcB_mono, H. Qed.
Lemma srelB_keep LV P nd f s : (forall i, rec_same i (f i) /\ i_legs (f i) = i_legs i) -> srel (RcB LV P) s (upd_info nd f s).
Proof. intros Hf. apply srel_upd; [intros; apply RcB_refl|]. intros i _. apply RcB_keep; apply Hf. Qed.
(* caching a freshly computed legs dict on a node that has none *)
Lemma upd_legs_fill LV P s s1 nd v : srel (RcB LV P) s s1 -> rd i_legs s1 nd = None -> LV nd v -> P nd = true ->
  srel (RcB LV P) s (upd_info nd (w_legs (Some v)) s1).
Proof.
  intros H1 Hr Hv HP. eapply srelB_trans; [exact H1|]. apply srel_upd; [intros; apply RcB_refl|].
  intros i Hi. split; [unfold rec_same; cbn; auto|]. rewrite HP. cbn [w_legs i_legs].
  rewrite (rd_None_get i_legs s1 nd i Hr Hi). cbn. intros lg [= <-]. exact Hv.
Qed.

Definition FL (f : nat) : Prop := forall s nd, chok (children s) ->
  srel (RB (sliced s) (lenle (length nd))) s (fst (get_legs n f s nd)).
Definition FI (f : nat) : Prop := forall s nd, chok (children s) ->
  srel (RB (sliced s) (lenlt (length nd))) s (fst (get_involved n f s nd)).

Lemma fallback_frame f' : FL f' -> forall xs s2 acc, chok (children s2) ->
  srel (RB (sliced s2) (lenle 1)) s2
       (fst (fold_left (fun acc i => let '(sa, l) := get_legs n f' (fst acc) [i] in (sa, snd acc ++ [l])) xs (s2, acc))).
Proof.
  intros HF. induction xs as [|x xs IH]; intros s2 acc Hch; cbn [fold_left]; [apply srel_refl; intros; apply RcB_refl|].
  cbn [fst snd]. pose proof (HF s2 [x] Hch) as H1. destruct (get_legs n f' s2 [x]) as [sa l]. cbn [fst] in H1.
  change (lenle (length [x])) with (lenle 1) in H1.
  destruct H1 as (A1&A2&A3&A4). eapply srelB_trans; [exact (conj A1 (conj A2 (conj A3 A4)))|].
  rewrite <- A3. apply IH. rewrite A2. exact Hch.
Qed.

Lemma frames_step f' : FL f' /\ FI f' -> FL (S f') /\ FI (S f').
Proof.
  intros [HFL HFI]. split.
  - intros s nd Hch. rewrite get_legs_S. destruct (rd i_legs s nd) as [lg|] eqn:Er; [apply srel_refl; intros; apply RcB_refl|].
    assert (HPnd : lenle (length nd) nd = true) by (unfold lenle; apply Nat.leb_refl).
    destruct (Nat.eqb_spec (length nd) 1) as [E1|E1].
    { unfold compute_leaf_legs. cbn [fst snd].
      set (s' := match leaf_preproc n (sliced s) (hd 0 nd) with Some tk => set_preproc (pset (hd 0 nd) (canon_eq1 tk) (preproc s)) s | None => s end).
      assert (Ei : info s' = info s) by (unfold s'; destruct (leaf_preproc n (sliced s) (hd 0 nd)); reflexivity).
      apply (upd_legs_fill _ _ s s').
      - apply srel_fields; [intros; apply RcB_refl|exact Ei| | |]; unfold s'; destruct (leaf_preproc n (sliced s) (hd 0 nd)); auto.
      - unfold rd in *. rewrite Ei. exact Er.
      - split; [reflexivity|lia].
      - exact HPnd. }
    destruct (Nat.eqb_spec (length nd) N) as [EN|EN].
    { cbn [fst snd]. apply (upd_legs_fill _ _ s s); [apply srel_refl; intros; apply RcB_refl|exact Er| |exact HPnd].
      split; [lia|reflexivity]. }
    assert (Hv : forall v, fresh_ok (sliced s) nd v) by (intros v; split; intros; contradiction).
    pose proof (HFI s nd Hch) as H2.
    destruct (get_involved n f' s nd) as [s2 [inv|]] eqn:Ei; cbn [fst] in H2.
    + cbn [fst snd]. apply (upd_legs_fill _ _ s s2); [| |apply Hv|exact HPnd].
      * eapply srelB_mono; [|exact H2]. intros q. unfold lenlt, lenle. intros H. apply Nat.ltb_lt in H. apply Nat.leb_le. lia.
      * rewrite (srel_legs_keep _ _ s s2 nd H2); [exact Er|]. unfold lenlt. apply Nat.ltb_irrefl.
    + assert (Hch2 : chok (children s2)) by (destruct H2 as (_&E&_); rewrite E; exact Hch).
      assert (Esl2 : sliced s2 = sliced s) by apply H2.
      pose proof (fallback_frame f' HFL nd s2 [] Hch2) as H3. rewrite Esl2 in H3.
      destruct (fold_left _ nd (s2, [])) as [s3 ls] eqn:Ef. cbn [fst] in H3. cbn [fst snd].
      assert (Er2 : rd i_legs s2 nd = None).
      { rewrite (srel_legs_keep _ _ s s2 nd H2); [exact Er|]. unfold lenlt. apply Nat.ltb_irrefl. }
      destruct (Nat.eq_dec (length nd) 0) as [E0|E0].
      * apply length_zero_iff_nil in E0. subst nd. cbn in Ef. injection Ef as <- <-.
        apply (upd_legs_fill _ _ s s2); [|exact Er2|apply Hv|exact HPnd].
        eapply srelB_mono; [|exact H2]. intros q. unfold lenlt, lenle. intros H. apply Nat.ltb_lt in H. apply Nat.leb_le. lia.
      * apply (upd_legs_fill _ _ s s3); [| |apply Hv|exact HPnd].
        -- eapply srelB_trans.
           ++ eapply srelB_mono; [|exact H2]. intros q. unfold lenlt, lenle. intros H. apply Nat.ltb_lt in H. apply Nat.leb_le. lia.
           ++ eapply srelB_mono; [|exact H3]. intros q. unfold lenle. intros H. apply Nat.leb_le in H. apply Nat.leb_le. lia.
        -- rewrite (srel_legs_keep _ _ s2 s3 nd H3); [exact Er2|]. unfold lenle. apply Nat.leb_gt. lia.
  - intros s nd Hch. rewrite get_involved_S. destruct (rd i_involved s nd) as [inv|] eqn:Er; [apply srel_refl; intros; apply RcB_refl|].
    destruct (Nat.eqb (length nd) 1).
    { cbn [fst]. apply srelB_keep. intros i. split; [unfold rec_same; cbn; auto|reflexivity]. }
    destruct (nget nd (children s)) as [[l r]|] eqn:Ech; [|apply srel_refl; intros; apply RcB_refl].
    destruct (chok_dec _ _ _ _ Hch Ech) as [Ll Lr].
    pose proof (HFL s l Hch) as H1. destruct (get_legs n f' s l) as [s1 ll]. cbn [fst] in H1.
    assert (Hch1 : chok (children s1)) by (destruct H1 as (_&E&_); rewrite E; exact Hch).
    assert (Esl1 : sliced s1 = sliced s) by apply H1.
    pose proof (HFL s1 r Hch1) as H2. rewrite Esl1 in H2. destruct (get_legs n f' s1 r) as [s2 lr]. cbn [fst] in H2. cbn [fst].
    eapply srelB_trans; [|apply srelB_keep; intros i; split; [unfold rec_same; cbn; auto|reflexivity]].
    eapply srelB_trans.
    + eapply srelB_mono; [|exact H1]. intros q. unfold lenlt, lenle. intros H. apply Nat.leb_le in H. apply Nat.ltb_lt. lia.
    + eapply srelB_mono; [|exact H2]. intros q. unfold lenlt, lenle. intros H. apply Nat.leb_le in H. apply Nat.ltb_lt. lia.
Qed.
Lemma frames_all f : FL f /\ FI f.
Proof.
  induction f as [|f IH]; [|apply frames_step, IH]. split; intros s nd _; cbn [get_legs get_involved fst];
    (apply srel_fields; [intros; apply RcB_refl|reflexivity|reflexivity|reflexivity|reflexivity]).
Qed.

Notation RC sl := (Rc (fresh_ok sl)).
Lemma srelC_trans LV s1 s2 s3 : srel (Rc LV) s1 s2 -> srel (Rc LV) s2 s3 -> srel (Rc LV) s1 s3.
Proof. apply srel_trans. intros q i j k. apply Rc_trans. Qed.
Lemma srelC_refl LV s : srel (Rc LV) s s.
Proof. apply srel_refl. intros; apply Rc_refl. Qed.
Lemma srelC_fields LV s s' : info s' = info s -> children s' = children s -> sliced s' = sliced s ->
  (err s = true -> err s' = true) -> srel (Rc LV) s s'.
Proof. apply srel_fields. intros; apply Rc_refl. Qed.
Lemma srelC_keep LV nd f s : (forall i, rec_same i (f i) /\ i_legs (f i) = i_legs i) -> srel (Rc LV) s (upd_info nd f s).
Proof. intros Hf. apply srel_upd; [intros; apply Rc_refl|]. intros i _. split; [apply Hf|apply legs_step_eq, Hf]. Qed.

Lemma g_legs_rel s nd : chok (children s) -> srel (RC (sliced s)) s (fst (g_legs n s nd)).
Proof. intros H. eapply srel_weaken; [|apply (proj1 (frames_all (fuel n s)) s nd H)]. intros q i j. apply RcB_Rc. Qed.
Lemma g_involved_rel s nd : chok (children s) -> srel (RC (sliced s)) s (fst (g_involved n s nd)).
Proof.
  intros H. unfold g_involved. pose proof (proj2 (frames_all (fuel n s)) s nd H) as H1.
  destruct (get_involved n (fuel n s) s nd) as [s' [v|]]; cbn [fst] in *.
  - eapply srel_weaken; [|exact H1]. intros q i j. apply RcB_Rc.
  - eapply srelC_trans; [eapply srel_weaken; [|exact H1]; intros q i j; apply RcB_Rc|].
    apply srelC_fields; auto.
Qed.
Lemma g_size_rel s nd : chok (children s) -> srel (RC (sliced s)) s (fst (g_size n s nd)).
Proof.
  intros H. unfold g_size. destruct (rd i_size s nd); [apply srelC_refl|].
  pose proof (g_legs_rel s nd H) as H1. destruct (g_legs n s nd) as [s1 l]. cbn [fst] in *.
  eapply srelC_trans; [exact H1|]. apply srelC_keep. intros i. split; [unfold rec_same; cbn; auto|reflexivity].
Qed.
Lemma g_flops_rel s nd : chok (children s) -> srel (RC (sliced s)) s (fst (g_flops n s nd)).
Proof.
  intros H. unfold g_flops. destruct (rd i_flops s nd); [apply srelC_refl|].
  destruct (Nat.eqb (length nd) 1).
  { cbn [fst]. apply srelC_keep. intros i. split; [unfold rec_same; cbn; auto|reflexivity]. }
  pose proof (g_involved_rel s nd H) as H1. destruct (g_involved n s nd) as [s1 l]. cbn [fst] in *.
  eapply srelC_trans; [exact H1|]. apply srelC_keep. intros i. split; [unfold rec_same; cbn; auto|reflexivity].
Qed.
(* the value g_legs returns is the one cached on the node (when the node has an entry) *)
Lemma g_legs_cached s nd : nget nd (info (fst (g_legs n s nd))) = None \/ rd i_legs (fst (g_legs n s nd)) nd = Some (snd (g_legs n s nd)).
Proof.
  unfold g_legs. destruct (fuel_S n HN s) as [f ->]. rewrite get_legs_S.
  destruct (rd i_legs s nd) as [l|] eqn:Er; [right; exact Er|].
  match goal with |- context [let '(s1, v) := ?e in _] => destruct e as [s1 v] end. cbn [fst snd].
  unfold rd. rewrite nget_upd_same. destruct (nget nd (info s1)); cbn; auto.
Qed.
End Getters.

(* CompressedPeakFacts.v -- the tracker's total_size IS the sum of all node sizes (the
   neighbourhood bookkeeping of compressed_contract_stats is exact), hence peak_size is
   monotone in the cap.  (owner: builder c18c20) *)
From Coq Require Import Lia Permutation.
From Ctg Require Import Base Net HGraph Compressed BaseFacts NetFacts HGraphFacts CompressedFacts.

(* ---------- sums ---------- *)
Lemma zsum_perm l1 l2 : Permutation l1 l2 -> zsum l1 = zsum l2.
Proof. induction 1; rewrite ?zsum_cons in *; try lia. Qed.
Lemma zsum_nil : zsum [] = 0%Z.
Proof. reflexivity. Qed.

Definition ssum (f : nat -> Z) (K : list nat) : Z := zsum (map f K).
Lemma ssum_cons f k K : ssum f (k :: K) = (f k + ssum f K)%Z.
Proof. unfold ssum. cbn [map]. apply zsum_cons. Qed.
Lemma ssum_app f K1 K2 : ssum f (K1 ++ K2) = (ssum f K1 + ssum f K2)%Z.
Proof. unfold ssum. rewrite map_app. apply zsum_app. Qed.
Lemma ssum_perm f K1 K2 : Permutation K1 K2 -> ssum f K1 = ssum f K2.
Proof. intros P. unfold ssum. apply zsum_perm, Permutation_map, P. Qed.
Lemma ssum_ext f f' K : (forall k, In k K -> f k = f' k) -> ssum f K = ssum f' K.
Proof. intros H. unfold ssum. f_equal. apply map_ext_in, H. Qed.
Lemma ssum_mono f f' K : (forall k, In k K -> (f k <= f' k)%Z) -> (ssum f K <= ssum f' K)%Z.
Proof.
  induction K as [|k K IH]; intros H; [unfold ssum; cbn; lia|]. rewrite !ssum_cons.
  assert (f k <= f' k)%Z by (apply H; left; reflexivity).
  assert (ssum f K <= ssum f' K)%Z by (apply IH; intros; apply H; right; assumption). lia.
Qed.

Lemma ssum_remove f i K : NoDup K -> In i K -> ssum f K = (f i + ssum f (remove_nat i K))%Z.
Proof.
  induction K as [|k K IH]; intros ND Hin; [destruct Hin|].
  inversion ND as [|? ? Hn ND']; subst. unfold remove_nat. cbn [filter].
  destruct (Nat.eqb_spec k i) as [->|Hne]; cbn [negb].
  - fold (remove_nat i K). rewrite (remove_nat_notin i K Hn), ssum_cons. reflexivity.
  - fold (remove_nat i K). rewrite !ssum_cons. destruct Hin as [E|Hin]; [congruence|]. rewrite (IH ND' Hin). lia.
Qed.

(* changing f only on a duplicate-free subset R of K *)
Lemma ssum_change f f' R : forall K, NoDup K -> NoDup R -> incl R K ->
  (forall k, In k K -> ~ In k R -> f' k = f k) ->
  ssum f' K = (ssum f K - ssum f R + ssum f' R)%Z.
Proof.
  induction R as [|r R IH]; intros K NK NR Hincl Hsame.
  - unfold ssum at 3 4. cbn. rewrite (ssum_ext f' f K); [lia|]. intros k Hk. apply Hsame; [exact Hk|tauto].
  - inversion NR as [|? ? Hr NR']; subst.
    assert (HrK : In r K) by (apply Hincl; left; reflexivity).
    rewrite (ssum_remove f' r K NK HrK), (ssum_remove f r K NK HrK), !ssum_cons.
    rewrite (IH (remove_nat r K)).
    + lia.
    + apply nodup_remove_nat, NK.
    + exact NR'.
    + intros k Hk. apply in_remove_nat. split; [apply Hincl; right; exact Hk|]. intros ->. contradiction.
    + intros k Hk Hn. apply in_remove_nat in Hk. apply Hsame; [tauto|]. intros [E|H]; [destruct Hk; congruence|contradiction].
Qed.

(* ---------- the sum of all node sizes ---------- *)
Definition total (g : hg) : Z := ssum (hg_node_size g) (akeys (hnodes g)).

Lemma total_node_size_total g : wf_hg g -> total_node_size g = total g.
Proof.
  intros W. unfold total_node_size, total, ssum, akeys. rewrite map_map. f_equal.
  apply map_ext_in. intros [k l] Hin. cbn [fst snd]. unfold hg_node_size, get_node.
  rewrite (d_in_get k l (hnodes g) (wf_nd_nodes g W) Hin). reflexivity.
Qed.

(* ---------- neighbourhoods ---------- *)
Lemma in_neighborhood g X k :
  In k (neighborhood g X) <-> exists n e, In n X /\ In e (get_node g n) /\ In k (get_edge g e).
Proof.
  unfold neighborhood. rewrite hu_unique_in, in_flat_map. split.
  - intros (n & Hn & H). apply in_flat_map in H. destruct H as (e & He & Hk). exists n, e. tauto.
  - intros (n & e & Hn & He & Hk). exists n. split; [exact Hn|]. apply in_flat_map. exists e. tauto.
Qed.
Lemma neighborhood_nodup g X : NoDup (neighborhood g X).
Proof. apply hu_unique_nodup. Qed.
Lemma neighborhood_live g X k : wf_hg g -> In k (neighborhood g X) -> In k (akeys (hnodes g)).
Proof.
  intros W H. apply in_neighborhood in H. destruct H as (n & e & _ & _ & Hk).
  apply (wf_inc g W) in Hk. apply d_mem_in. apply (getL_in_mem _ _ _ Hk).
Qed.

Lemma remove_all_disjoint D l : (forall e, In e l -> ~ In e D) -> remove_all D l = l.
Proof.
  unfold remove_all. induction l as [|x l IH]; cbn; intros H; [reflexivity|].
  assert (E : memb x D = false) by (apply memb_false, H; left; reflexivity). rewrite E. cbn. f_equal.
  apply IH. intros e He. apply H. right; exact He.
Qed.

Lemma nsize_ssum g X : neighborhood_size g X = ssum (hg_node_size g) (neighborhood g X).
Proof. reflexivity. Qed.

(* one compress: neighbourhoods are preserved, nodes outside keep their size *)
Theorem compress_local chi edges g X : wf_hg g ->
  (forall e, In e edges -> exists n, In n X /\ In e (get_node g n)) ->
  let g' := hg_compress chi edges g in
  wf_hg g' /\ akeys (hnodes g') = akeys (hnodes g) /\
  (forall Y k, In k (neighborhood g' Y) <-> In k (neighborhood g Y)) /\
  (forall k, ~ In k (neighborhood g X) -> hg_node_size g' k = hg_node_size g k) /\
  (forall k e, In e (get_node g' k) -> In e (get_node g k)).
Proof.
  intros W Hedges.
  destruct (compress_spec chi edges g W) as (A & N & E & O & Xn & W' & ND & Hmem & Hsame & Hother & _).
  cbn zeta in *. set (GL := map snd (incidences g (unique edges))) in *. set (D := gdels GL) in *.
  set (g' := hg_compress chi edges g) in *.
  assert (Hsub : forall k e, In e (get_node g' k) -> In e (get_node g k) /\ ~ In e D).
  { intros k e. rewrite N, in_remove_all. tauto. }
  assert (HD : forall d, In d D -> In d edges).
  { intros d Hd. destruct (del_has_keeper GL d Hd) as (es & h & Hes & _ & _ & Hdes & _). apply (Hmem es d Hes Hdes). }
  split; [exact W'|]. split; [exact A|]. split; [|split].
  - intros Y k. rewrite !in_neighborhood. split.
    + intros (n & e & Hn & He & Hk). destruct (Hsub n e He) as [He' HnD].
      exists n, e. split; [exact Hn|split; [exact He'|]]. rewrite E in Hk.
      assert (Em : memb e D = false) by (apply memb_false, HnD). rewrite Em in Hk. exact Hk.
    + intros (n & e & Hn & He & Hk).
      destruct (in_dec Nat.eq_dec e D) as [HeD|HeD].
      * destruct (del_has_keeper GL e HeD) as (es & h & Hes & Hh & _ & Hees & Hhes & _).
        pose proof (head_not_del GL ND es Hes h Hh) as HhD.
        assert (Hn' : In n (get_edge g h)) by (apply (Hsame es e h Hes Hees Hhes), (wf_inc g W), He).
        exists n, h. split; [exact Hn|]. split.
        -- rewrite N, in_remove_all. split; [apply (wf_inc g W), Hn'|exact HhD].
        -- rewrite E. assert (Em : memb h D = false) by (apply memb_false, HhD). rewrite Em.
           apply (Hsame es e h Hes Hees Hhes), Hk.
      * exists n, e. split; [exact Hn|]. split.
        -- rewrite N, in_remove_all. tauto.
        -- rewrite E. assert (Em : memb e D = false) by (apply memb_false, HeD). rewrite Em. exact Hk.
  - intros k Hk. unfold hg_node_size, edges_size.
    assert (Hdisj : forall e, In e (get_node g k) -> ~ In e edges).
    { intros e He Hed. apply Hk. destruct (Hedges e Hed) as (n & Hn & Hen).
      apply in_neighborhood. exists n, e. split; [exact Hn|split; [exact Hen|apply (wf_inc g W), He]]. }
    rewrite N, (remove_all_disjoint D (get_node g k)).
    + apply size_of_ext. intros e He. apply Hother. intros (es & Hes & Hl & Hh).
      apply (Hdisj e He). apply (Hmem es e Hes). destruct es; [cbn in Hl; lia|]. cbn in Hh. subst. left; reflexivity.
    + intros e He HeD. apply (Hdisj e He), HD, HeD.
  - intros k e He. apply (Hsub k e He).
Qed.

Lemma neighborhood_perm g g' X : (forall k, In k (neighborhood g' X) <-> In k (neighborhood g X)) ->
  Permutation (neighborhood g' X) (neighborhood g X).
Proof. intros H. apply NoDup_Permutation; [apply neighborhood_nodup|apply neighborhood_nodup|exact H]. Qed.

Theorem compress_total chi edges g X : wf_hg g ->
  (forall e, In e edges -> exists n, In n X /\ In e (get_node g n)) ->
  let g' := hg_compress chi edges g in
  total g' = (total g - neighborhood_size g X + ssum (hg_node_size g') (neighborhood g X))%Z.
Proof.
  intros W Hedges. destruct (compress_local chi edges g X W Hedges) as (W' & A & Hn & Hout & _). cbn zeta in *.
  unfold total. rewrite A. unfold neighborhood_size. fold (ssum (hg_node_size g) (neighborhood g X)).
  apply ssum_change.
  - apply (wf_nd_nodes g W).
  - apply neighborhood_nodup.
  - intros k Hk. apply (neighborhood_live g X k W Hk).
  - intros k _ Hk. apply Hout, Hk.
Qed.

(* ---------- contract ---------- *)
Lemma akeys_adel {A} i (d : list (nat * A)) : NoDup (akeys d) -> akeys (adel i d) = remove_nat i (akeys d).
Proof.
  unfold akeys, remove_nat. induction d as [|[k v] d IH]; cbn; intros ND; [reflexivity|].
  inversion ND as [|? ? Hn ND']; subst.
  destruct (Nat.eqb_spec k i) as [->|Hne]; cbn [negb].
  - symmetry. apply (remove_nat_notin i (map fst d) Hn).
  - cbn. f_equal. apply IH, ND'.
Qed.

Lemma contract_keys i j g : wf_hg g ->
  akeys (hnodes (fst (hg_contract i j g))) = remove_nat j (remove_nat i (akeys (hnodes g))) ++ [hnext g].
Proof.
  intros W. rewrite hg_contract_unfold. cbn zeta.
  destruct (remove_node_spec i g W) as (_ & _ & M1 & _ & _ & _ & X1 & W1). cbn zeta in *.
  destruct (remove_node_spec j _ W1) as (_ & _ & M2 & _ & _ & _ & X2 & W2). cbn zeta in *.
  rewrite add_node_unfold. cbn [fst hnodes]. rewrite (next_node_fresh _ W2), X2, X1.
  rewrite d_keys_set_notin.
  - f_equal. rewrite !remove_node_unfold. cbn [fst hnodes].
    rewrite akeys_adel, akeys_adel; [reflexivity|apply (wf_nd_nodes g W)|].
    apply d_nodup_del, (wf_nd_nodes g W).
  - intros H. apply d_mem_in in H. rewrite M2, M1 in H. apply andb_true_iff in H. destruct H as [H _].
    apply andb_true_iff in H. destruct H as [H _]. apply (wf_next g W) in H. lia.
Qed.

Theorem contract_total i j g : wf_hg g -> i <> j ->
  amem i (hnodes g) = true -> amem j (hnodes g) = true ->
  let g' := fst (hg_contract i j g) in
  let k := snd (hg_contract i j g) in
  total g' = (total g - (hg_node_size g i + hg_node_size g j) + hg_node_size g' k)%Z.
Proof.
  intros W Hij Li Lj. cbn zeta.
  destruct (contract_spec i j g W Hij) as (K & _ & W' & S' & _ & N' & _). cbn zeta in *.
  unfold total. rewrite (contract_keys i j g W), ssum_app, K.
  unfold ssum at 2. cbn [map]. rewrite zsum_cons, zsum_nil.
  apply d_mem_in in Li. apply d_mem_in in Lj.
  rewrite (ssum_remove (hg_node_size g) i (akeys (hnodes g)) (wf_nd_nodes g W) Li).
  rewrite (ssum_remove (hg_node_size g) j (remove_nat i (akeys (hnodes g)))).
  - rewrite (ssum_ext (hg_node_size (fst (hg_contract i j g))) (hg_node_size g)); [lia|].
    intros k' Hk'. rewrite !in_remove_nat in Hk'. destruct Hk' as [[Hk' Hki] Hkj].
    unfold hg_node_size, edges_size. rewrite S', N'.
    assert (Hkk : k' <> hnext g).
    { intros ->. apply d_mem_in in Hk'. apply (wf_next g W) in Hk'. lia. }
    rewrite <- K in Hkk.
    destruct (Nat.eqb_spec k' (snd (hg_contract i j g))); [contradiction|].
    destruct (Nat.eqb_spec k' i); [contradiction|]. destruct (Nat.eqb_spec k' j); [contradiction|]. reflexivity.
  - apply nodup_remove_nat, (wf_nd_nodes g W).
  - apply in_remove_nat. split; [exact Lj|congruence].
Qed.

(* ---------- the tracker's bookkeeping along one step ---------- *)
Lemma ccs_step_totals chi late s p l r :
  let g0 := cs_g s in let m := cs_map s in let t := cs_tr s in
  let li := tm_get l m in let ri := tm_get r m in
  let plr := (p, (l, r)) in
  let gp := pre_g chi late g0 m plr in
  let gc := fst (con_g chi late g0 m plr) in
  let pi := snd (con_g chi late g0 m plr) in
  let gf := fst (step_g chi late g0 m plr) in
  let s' := ccs_step chi late s plr in
  let post := (t_total t + (if late then - neighborhood_size g0 [li; ri] + neighborhood_size gp [li; ri] else 0)
               - (hg_node_size gp li + hg_node_size gp ri) + hg_node_size gc pi)%Z in
  t_total_post (cs_tr s') = post /\
  t_total (cs_tr s') = (post + (if late then 0 else - neighborhood_size gc [pi] + neighborhood_size gf [pi]))%Z /\
  t_peak (cs_tr s') = Z.max (t_peak t) post.
Proof.
  cbn zeta. unfold ccs_step, step_g, con_g, pre_g. destruct late.
  - destruct (hg_contract _ _ _) as [g' pi] eqn:E.
    unfold tr_pre_compress. destruct (neighborhood_compress_cost _ _ _).
    unfold tr_post_step, tr_post_contract, tr_pre_contract, tr_post_compress, tr_pre_step.
    cbn [cs_tr cs_g cs_map t_total t_total_post t_peak t_dsize t_contracted t_flops t_max t_write t_dflops t_sens fst snd].
    repeat split; lia.
  - destruct (hg_contract _ _ _) as [g' pi] eqn:E. cbn [fst snd].
    unfold tr_pre_compress. destruct (neighborhood_compress_cost _ _ _).
    unfold tr_post_step, tr_post_contract, tr_pre_contract, tr_post_compress, tr_pre_step.
    cbn [cs_tr cs_g cs_map t_total t_total_post t_peak t_dsize t_contracted t_flops t_max t_write t_dflops t_sens fst snd].
    repeat split; lia.
Qed.

Definition step_ok (g : hg) (m : tmap) (plr : list nat * (list nat * list nat)) : Prop :=
  let '(p, (l, r)) := plr in
  tm_get l m <> tm_get r m /\ amem (tm_get l m) (hnodes g) = true /\ amem (tm_get r m) (hnodes g) = true.
Definition step_ok_b (g : hg) (m : tmap) (plr : list nat * (list nat * list nat)) : bool :=
  let '(p, (l, r)) := plr in
  negb (Nat.eqb (tm_get l m) (tm_get r m)) && amem (tm_get l m) (hnodes g) && amem (tm_get r m) (hnodes g).
Lemma step_ok_b_sound g m plr : step_ok_b g m plr = true -> step_ok g m plr.
Proof.
  destruct plr as [p [l r]]. unfold step_ok_b, step_ok. rewrite !andb_true_iff, negb_true_iff, Nat.eqb_neq. tauto.
Qed.

Lemma amem_keys_eq {A} (d1 d2 : list (nat * A)) k : akeys d1 = akeys d2 -> amem k d1 = amem k d2.
Proof.
  intros E. destruct (amem k d1) eqn:E1, (amem k d2) eqn:E2; try reflexivity.
  - apply d_mem_in in E1. rewrite E in E1. apply d_mem_in in E1. congruence.
  - apply d_mem_in in E2. rewrite <- E in E2. apply d_mem_in in E2. congruence.
Qed.

Theorem step_inv chi late s p l r :
  let plr := (p, (l, r)) in
  wf_hg (cs_g s) -> t_total (cs_tr s) = total (cs_g s) -> step_ok (cs_g s) (cs_map s) plr ->
  let gc := fst (con_g chi late (cs_g s) (cs_map s) plr) in
  let s' := ccs_step chi late s plr in
  wf_hg (cs_g s') /\ t_total (cs_tr s') = total (cs_g s') /\
  t_total_post (cs_tr s') = total gc /\ t_peak (cs_tr s') = Z.max (t_peak (cs_tr s)) (total gc).
Proof.
  cbn zeta. intros W HT (Hne & Li & Lr).
  destruct (ccs_step_totals chi late s p l r) as (T1 & T2 & T3). cbn zeta in *.
  pose proof (ccs_step_struct chi late s (p, (l, r))) as ES.
  assert (Eg : cs_g (ccs_step chi late s (p, (l, r))) = fst (step_g chi late (cs_g s) (cs_map s) (p, (l, r)))) by (rewrite <- ES; reflexivity).
  rewrite Eg. rewrite T1, T2, T3, HT. clear T1 T2 T3 ES Eg.
  set (g0 := cs_g s) in *. set (m := cs_map s) in *. set (li := tm_get l m) in *. set (ri := tm_get r m) in *.
  unfold step_g, con_g, pre_g. fold li ri.
  destruct late.
  - (* compress the two operands, then contract *)
    set (X := [li; ri]).
    assert (H1 : forall e, In e (get_node g0 li) -> exists n0, In n0 X /\ In e (get_node g0 n0)).
    { intros e He. exists li. split; [left; reflexivity|exact He]. }
    destruct (compress_local chi (get_node g0 li) g0 X W H1) as (W1 & A1 & N1 & _ & Sub1). cbn zeta in *.
    pose proof (compress_total chi (get_node g0 li) g0 X W H1) as Tot1. cbn zeta in Tot1.
    set (g1 := hg_compress chi (get_node g0 li) g0) in *.
    assert (H2 : forall e, In e (get_node g1 ri) -> exists n0, In n0 X /\ In e (get_node g1 n0)).
    { intros e He. exists ri. split; [right; left; reflexivity|exact He]. }
    destruct (compress_local chi (get_node g1 ri) g1 X W1 H2) as (W2 & A2 & N2 & _ & _). cbn zeta in *.
    pose proof (compress_total chi (get_node g1 ri) g1 X W1 H2) as Tot2. cbn zeta in Tot2.
    set (g2 := hg_compress chi (get_node g1 ri) g1) in *.
    assert (P1 : Permutation (neighborhood g1 X) (neighborhood g0 X)) by (apply neighborhood_perm, N1).
    assert (P2 : Permutation (neighborhood g2 X) (neighborhood g1 X)) by (apply neighborhood_perm, N2).
    assert (Li2 : amem li (hnodes g2) = true) by (rewrite (amem_keys_eq _ (hnodes g0)); [exact Li|rewrite A2; exact A1]).
    assert (Lr2 : amem ri (hnodes g2) = true) by (rewrite (amem_keys_eq _ (hnodes g0)); [exact Lr|rewrite A2; exact A1]).
    pose proof (contract_total li ri g2 W2 Hne Li2 Lr2) as Tot3. cbn zeta in Tot3.
    destruct (contract_spec li ri g2 W2 Hne) as (_ & _ & W3 & _). cbn zeta in *.
    cbn [fst snd].
    assert (Etot : (total g0 + (- neighborhood_size g0 X + neighborhood_size g2 X) - (hg_node_size g2 li + hg_node_size g2 ri)
                    + hg_node_size (fst (hg_contract li ri g2)) (snd (hg_contract li ri g2)))%Z
                   = total (fst (hg_contract li ri g2))).
    { assert (NS1 : neighborhood_size g1 X = ssum (hg_node_size g1) (neighborhood g0 X)).
      { rewrite nsize_ssum. apply ssum_perm, P1. }
      assert (NS2 : neighborhood_size g2 X = ssum (hg_node_size g2) (neighborhood g0 X)).
      { rewrite nsize_ssum. rewrite (ssum_perm _ _ _ P2). apply ssum_perm, P1. }
      assert (NS3 : ssum (hg_node_size g2) (neighborhood g1 X) = ssum (hg_node_size g2) (neighborhood g0 X)).
      { apply ssum_perm, P1. }
      rewrite Tot3, Tot2, Tot1, NS1, NS2, NS3. lia. }
    split; [exact W3|]. rewrite Z.add_0_r. rewrite Etot. repeat split; reflexivity.
  - (* contract, then compress the new node *)
    pose proof (contract_total li ri g0 W Hne Li Lr) as Tot3. cbn zeta in Tot3.
    destruct (contract_spec li ri g0 W Hne) as (_ & _ & W3 & _). cbn zeta in *.
    set (gc := fst (hg_contract li ri g0)) in *. set (pi := snd (hg_contract li ri g0)) in *.
    set (X := [pi]).
    assert (H1 : forall e, In e (get_node gc pi) -> exists n0, In n0 X /\ In e (get_node gc n0)).
    { intros e He. exists pi. split; [left; reflexivity|exact He]. }
    destruct (compress_local chi (get_node gc pi) gc X W3 H1) as (W4 & A4 & N4 & _ & _). cbn zeta in *.
    pose proof (compress_total chi (get_node gc pi) gc X W3 H1) as Tot4. cbn zeta in Tot4.
    set (gf := hg_compress chi (get_node gc pi) gc) in *.
    assert (P4 : Permutation (neighborhood gf X) (neighborhood gc X)) by (apply neighborhood_perm, N4).
    cbn [fst snd].
    assert (Epost : (total g0 + 0 - (hg_node_size g0 li + hg_node_size g0 ri) + hg_node_size gc pi)%Z = total gc) by (rewrite Tot3; lia).
    rewrite Epost. split; [exact W4|]. split; [|split; reflexivity].
    assert (NS4 : neighborhood_size gf X = ssum (hg_node_size gf) (neighborhood gc X)).
    { rewrite nsize_ssum. apply ssum_perm, P4. }
    rewrite Tot4, NS4. lia.
Qed.

(* ---------- run level ---------- *)
Fixpoint ids_ok_from (chi : Z) (late : bool) (s : cstate) (order : list (list nat * (list nat * list nat))) : bool :=
  match order with
  | [] => true
  | plr :: order' => step_ok_b (cs_g s) (cs_map s) plr && ids_ok_from chi late (ccs_step chi late s plr) order'
  end.
Definition ids_ok (chi : Z) (late : bool) (n : net) order : bool := ids_ok_from chi late (ccs_init n) order.

Lemma total_mono g1 g2 : sz_le g1 g2 -> (total g1 <= total g2)%Z.
Proof.
  intros H. unfold total.
  assert (E : hnodes g1 = hnodes g2).
  { destruct H as [Hs _]. unfold same_shape, hg_shape in Hs. inversion Hs. reflexivity. }
  rewrite E. apply ssum_mono. intros k _. apply (node_size_mono g1 g2 k H).
Qed.

Lemma init_inv n : (forall t, In t (inputs n) -> NoDup t) ->
  wf_hg (cs_g (ccs_init n)) /\ t_total (cs_tr (ccs_init n)) = total (cs_g (ccs_init n)).
Proof.
  intros HN. unfold ccs_init. cbn [cs_g cs_tr].
  pose proof (hg_init_wf (inputs n) (output n) (szd n) HN) as W. split; [exact W|].
  rewrite <- (total_node_size_total _ W). reflexivity.
Qed.

(* total_size is the sum of all node sizes after every prefix (the bookkeeping is exact) *)
Theorem run_total chi late n order : (forall t, In t (inputs n) -> NoDup t) ->
  ids_ok chi late n order = true ->
  wf_hg (cs_g (ccs_run chi late n order)) /\
  t_total (cs_tr (ccs_run chi late n order)) = total (cs_g (ccs_run chi late n order)).
Proof.
  intros HN. unfold ids_ok, ccs_run. destruct (init_inv n HN) as [W0 T0]. revert W0 T0.
  generalize (ccs_init n) as s. induction order as [|[p [l r]] order IH]; intros s W T Hok; cbn [fold_left]; [split; assumption|].
  cbn [ids_ok_from] in Hok. apply andb_true_iff in Hok. destruct Hok as [Hs Hok]. apply step_ok_b_sound in Hs.
  destruct (step_inv chi late s p l r W T Hs) as (W' & T' & _). cbn zeta in *.
  apply IH; assumption.
Qed.

Theorem run_mono_peak chi1 chi2 late n order : (0 <= chi1 <= chi2)%Z ->
  (forall e, (0 <= zget e (szd n))%Z) -> (forall t, In t (inputs n) -> NoDup t) ->
  ids_ok chi1 late n order = true ->
  (t_peak (cs_tr (ccs_run chi1 late n order)) <= t_peak (cs_tr (ccs_run chi2 late n order)))%Z.
Proof.
  intros Hchi Hpos HN. unfold ids_ok, ccs_run. destruct (init_inv n HN) as [W0 T0].
  assert (G : forall order s1 s2, sz_le (cs_g s1) (cs_g s2) -> cs_map s1 = cs_map s2 ->
              wf_hg (cs_g s1) -> wf_hg (cs_g s2) ->
              t_total (cs_tr s1) = total (cs_g s1) -> t_total (cs_tr s2) = total (cs_g s2) ->
              (t_peak (cs_tr s1) <= t_peak (cs_tr s2))%Z ->
              ids_ok_from chi1 late s1 order = true ->
              (t_peak (cs_tr (fold_left (ccs_step chi1 late) order s1)) <= t_peak (cs_tr (fold_left (ccs_step chi2 late) order s2)))%Z).
  { clear order. induction order as [|[p [l r]] order IH]; intros s1 s2 Hs Hm W1 W2 T1 T2 Hp Hok; cbn [fold_left]; [exact Hp|].
    cbn [ids_ok_from] in Hok. apply andb_true_iff in Hok. destruct Hok as [Hs1 Hok]. apply step_ok_b_sound in Hs1.
    assert (Hs2 : step_ok (cs_g s2) (cs_map s2) (p, (l, r))).
    { unfold step_ok in *. rewrite <- Hm.
      assert (E : hnodes (cs_g s1) = hnodes (cs_g s2)).
      { destruct Hs as [Hsh _]. unfold same_shape, hg_shape in Hsh. inversion Hsh. reflexivity. }
      rewrite <- E. exact Hs1. }
    destruct (step_inv chi1 late s1 p l r W1 T1 Hs1) as (W1' & T1' & _ & P1).
    destruct (step_inv chi2 late s2 p l r W2 T2 Hs2) as (W2' & T2' & _ & P2). cbn zeta in *.
    pose proof (ccs_step_struct chi1 late s1 (p, (l, r))) as E1. pose proof (ccs_step_struct chi2 late s2 (p, (l, r))) as E2.
    rewrite <- Hm in E2, P2.
    apply IH; try assumption.
    - replace (cs_g (ccs_step chi1 late s1 (p, (l, r)))) with (fst (step_g chi1 late (cs_g s1) (cs_map s1) (p, (l, r)))) by (rewrite <- E1; reflexivity).
      replace (cs_g (ccs_step chi2 late s2 (p, (l, r)))) with (fst (step_g chi2 late (cs_g s2) (cs_map s1) (p, (l, r)))) by (rewrite <- E2; reflexivity).
      apply step_g_mono; assumption.
    - replace (cs_map (ccs_step chi1 late s1 (p, (l, r)))) with (snd (step_g chi1 late (cs_g s1) (cs_map s1) (p, (l, r)))) by (rewrite <- E1; reflexivity).
      replace (cs_map (ccs_step chi2 late s2 (p, (l, r)))) with (snd (step_g chi2 late (cs_g s2) (cs_map s1) (p, (l, r)))) by (rewrite <- E2; reflexivity).
      apply (step_g_shape chi1 chi2 late _ _ _ (p, (l, r)) (proj1 Hs)).
    - rewrite P1, P2.
      assert (total (fst (con_g chi1 late (cs_g s1) (cs_map s1) (p, (l, r)))) <=
              total (fst (con_g chi2 late (cs_g s2) (cs_map s1) (p, (l, r)))))%Z; [|lia].
      apply total_mono. unfold con_g. apply contract_mono. apply pre_g_mono; assumption. }
  intros Hok. apply G; try assumption; try reflexivity; try lia.
  split; [reflexivity|]. intros e. cbn. specialize (Hpos e). lia.
Qed.

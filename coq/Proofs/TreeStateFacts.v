(* TreeStateFacts.v -- lemmas about Model/TreeState.v
   Part 1: utils.MaxCounter keeps the maximum of its multiset (any add/discard sequence).
   Part 2: compute_contracted_info (simulated annealing) delivers the tree rule.
   Part 3: a verified checker of the cost invariant (every present cached figure equals the
           from-scratch value of Model/Net.v; tracked totals equal the sums over the nodes).
   Part 4: a verified checker of the recipe invariant of C02 and frame/establishment lemmas. *)
From Coq Require Import Lia ZifyBool Permutation.
From Ctg Require Import Base Net BaseFacts NetFacts TreeState.

(* ======================================================================== *)
(* Part 1 : MaxCounter                                                       *)
Definition ckeys (c : counter) : list Z := map fst c.

Lemma cget0_cset_same x v c : cget0 x (cset x v c) = v.
Proof.
  induction c as [|[k w] c IH]; cbn.
  - rewrite Z.eqb_refl. reflexivity.
  - destruct (Z.eqb_spec k x) as [->|Hn]; cbn.
    + rewrite Z.eqb_refl. reflexivity.
    + destruct (Z.eqb_spec k x); [contradiction|exact IH].
Qed.
Lemma cget0_cset_other x y v c : y <> x -> cget0 y (cset x v c) = cget0 y c.
Proof.
  intros Hyx. induction c as [|[k w] c IH]; cbn.
  - destruct (Z.eqb_spec x y); [congruence|reflexivity].
  - destruct (Z.eqb_spec k x) as [->|Hn]; cbn.
    + destruct (Z.eqb_spec x y); [congruence|reflexivity].
    + destruct (Z.eqb_spec k y); [reflexivity|exact IH].
Qed.
Lemma cget0_notin x c : ~ In x (ckeys c) -> cget0 x c = 0.
Proof.
  unfold ckeys. induction c as [|[k w] c IH]; cbn; [reflexivity|]. intros H.
  destruct (Z.eqb_spec k x); [subst; tauto|]. apply IH. tauto.
Qed.
Lemma ckeys_cset x v c : ckeys (cset x v c) = if existsb (Z.eqb x) (ckeys c) then ckeys c else ckeys c ++ [x].
Proof.
  unfold ckeys. induction c as [|[k w] c IH]; cbn; [reflexivity|].
  destruct (Z.eqb_spec k x) as [->|Hn]; cbn.
  - rewrite Z.eqb_refl. reflexivity.
  - destruct (Z.eqb_spec x k); [congruence|]. cbn. rewrite IH.
    destruct (existsb (Z.eqb x) (map fst c)); reflexivity.
Qed.
Lemma existsb_zeqb x l : existsb (Z.eqb x) l = true <-> In x l.
Proof.
  rewrite existsb_exists. split.
  - intros (y & Hy & E). apply Z.eqb_eq in E. subst. exact Hy.
  - intros H. exists x. split; [exact H|apply Z.eqb_refl].
Qed.
Lemma in_ckeys_cset y x v c : In y (ckeys (cset x v c)) <-> y = x \/ In y (ckeys c).
Proof.
  rewrite ckeys_cset. destruct (existsb (Z.eqb x) (ckeys c)) eqn:E.
  - apply existsb_zeqb in E. split; [tauto|]. intros [->|H]; assumption.
  - rewrite in_app_iff. cbn. split; intros H; [destruct H as [H|[H|[]]]; auto|destruct H; auto].
Qed.
Lemma in_ckeys_cdel y x c : NoDup (ckeys c) -> (In y (ckeys (cdel x c)) <-> y <> x /\ In y (ckeys c)).
Proof.
  unfold ckeys. induction c as [|[k w] c IH]; cbn; [tauto|]. intros ND. inversion ND as [|? ? Hnin ND']; subst.
  destruct (Z.eqb_spec k x) as [->|Hn]; cbn.
  - split; [intros H; split; [intros ->; contradiction|auto]|intros [H1 [H2|H2]]; [congruence|exact H2]].
  - rewrite (IH ND'). split.
    + intros [->|[H1 H2]]; split; auto.
    + intros [H1 [H2|H2]]; auto.
Qed.
Lemma NoDup_ckeys_cset x v c : NoDup (ckeys c) -> NoDup (ckeys (cset x v c)).
Proof.
  intros ND. rewrite ckeys_cset. destruct (existsb (Z.eqb x) (ckeys c)) eqn:E; [exact ND|].
  assert (Hn : ~ In x (ckeys c)) by (rewrite <- existsb_zeqb, E; discriminate).
  clear E. induction (ckeys c) as [|a l IH]; cbn; [constructor; [tauto|constructor]|].
  inversion ND as [|? ? Ha ND']; subst. constructor.
  - rewrite in_app_iff. cbn. intros [H|[H|[]]]; [contradiction|subst; apply Hn; left; reflexivity].
  - apply IH; [exact ND'|]. intros H. apply Hn. right. exact H.
Qed.
Lemma NoDup_ckeys_cdel x c : NoDup (ckeys c) -> NoDup (ckeys (cdel x c)).
Proof.
  pose proof (in_ckeys_cdel) as Hin. unfold ckeys in *. induction c as [|[k w] c IH]; cbn; [auto|]. intros ND. inversion ND as [|? ? Hnin ND']; subst.
  destruct (Z.eqb_spec k x); [exact ND'|]. cbn. constructor; [|apply IH, ND'].
  intros H. apply (Hin k x c ND') in H. tauto.
Qed.
Lemma cget0_cdel_same x c : NoDup (ckeys c) -> cget0 x (cdel x c) = 0.
Proof.
  intros ND. apply cget0_notin. intros H. apply (in_ckeys_cdel x x c ND) in H. tauto.
Qed.
Lemma cget0_cdel_other x y c : y <> x -> cget0 y (cdel x c) = cget0 y c.
Proof.
  intros Hyx. induction c as [|[k w] c IH]; cbn; [reflexivity|].
  destruct (Z.eqb_spec k x) as [->|Hn]; cbn.
  - destruct (Z.eqb_spec x y); [congruence|reflexivity].
  - destruct (Z.eqb_spec k y); [reflexivity|exact IH].
Qed.

(* the maximum of a list of keys, as a specification *)
Definition is_max_of (ks : list Z) (m : option Z) : Prop :=
  match m with
  | None => ks = []
  | Some M => In M ks /\ forall k, In k ks -> (k <= M)%Z
  end.
Lemma fold_max_spec l : forall a, let M := fold_left Z.max l a in
  (M = a \/ In M l) /\ (a <= M)%Z /\ forall k, In k l -> (k <= M)%Z.
Proof.
  induction l as [|x l IH]; intros a; cbn.
  - split; [left; reflexivity|split; [lia|tauto]].
  - destruct (IH (Z.max a x)) as (H1 & H2 & H3). split; [|split].
    + destruct H1 as [H1|H1]; [|right; right; exact H1].
      destruct (Z.max_spec a x) as [[_ E]|[_ E]]; rewrite E in *; [right; left; symmetry; exact H1|left; exact H1].
    + lia.
    + intros k [->|Hk]; [lia|apply H3, Hk].
Qed.
Lemma max_keys_spec c : is_max_of (ckeys c) (max_keys c).
Proof.
  destruct c as [|[k v] c]; cbn; [reflexivity|].
  destruct (fold_max_spec (map fst c) k) as (H1 & H2 & H3). split.
  - destruct H1 as [->|H1]; [left; reflexivity|right; exact H1].
  - intros j [<-|Hj]; [exact H2|apply H3, Hj].
Qed.
Lemma is_max_of_same_set ks ks' m : (forall k, In k ks <-> In k ks') -> is_max_of ks m -> is_max_of ks' m.
Proof.
  intros H. destruct m as [M|]; cbn.
  - intros [H1 H2]. split; [apply H, H1|]. intros k Hk. apply H2, H, Hk.
  - intros ->. destruct ks' as [|a l]; [reflexivity|]. exfalso. apply (H a). left. reflexivity.
Qed.

Definition mc_ok (m : maxcounter) : Prop :=
  NoDup (ckeys (fst m)) /\ (forall x, In x (ckeys (fst m)) <-> 0 < cget0 x (fst m))
  /\ is_max_of (ckeys (fst m)) (snd m).

Lemma mc_ok_empty : mc_ok mc_empty.
Proof. repeat split; cbn; try constructor; try tauto; try lia. Qed.

Lemma mc_add_count x y m : cget0 y (fst (mc_add x m)) = cget0 y (fst m) + (if Z.eqb y x then 1 else 0).
Proof.
  unfold mc_add. cbn [fst]. destruct (Z.eqb_spec y x) as [->|H].
  - apply cget0_cset_same.
  - rewrite cget0_cset_other by exact H. lia.
Qed.
Lemma mc_add_ok x m : mc_ok m -> mc_ok (mc_add x m).
Proof.
  intros (ND & Hpos & Hmax). unfold mc_ok. split; [|split].
  - apply NoDup_ckeys_cset, ND.
  - intros y. rewrite mc_add_count. unfold mc_add. cbn [fst]. rewrite in_ckeys_cset, Hpos.
    destruct (Z.eqb_spec y x); lia.
  - unfold mc_add. cbn [fst snd]. destruct (snd m) as [M|]; cbn in Hmax |- *.
    + destruct Hmax as [H1 H2]. split.
      * rewrite in_ckeys_cset. destruct (Z.max_spec M x) as [[_ E]|[_ E]]; rewrite E; auto.
      * intros k Hk. apply in_ckeys_cset in Hk. destruct Hk as [->|Hk]; [lia|]. specialize (H2 k Hk). lia.
    + unfold ckeys in Hmax. apply map_eq_nil in Hmax. rewrite Hmax. cbn.
      split; [left; reflexivity|]. intros k [->|[]]. lia.
Qed.

Lemma mc_discard_count x y m : mc_ok m ->
  cget0 y (fst (mc_discard x m)) = cget0 y (fst m) - (if Z.eqb y x then 1 else 0).
Proof.
  intros (ND & Hpos & _). unfold mc_discard.
  destruct (Nat.leb_spec (cget0 x (fst m)) 1) as [Hle|Hgt]; cbn [fst].
  - destruct (Z.eqb_spec y x) as [->|H].
    + rewrite cget0_cdel_same by exact ND. lia.
    + rewrite cget0_cdel_other by exact H. lia.
  - destruct (Z.eqb_spec y x) as [->|H].
    + rewrite cget0_cset_same. reflexivity.
    + rewrite cget0_cset_other by exact H. lia.
Qed.
Lemma mc_discard_ok x m : mc_ok m -> mc_ok (mc_discard x m).
Proof.
  intros Hok. pose proof (mc_discard_count x) as Hcnt. destruct Hok as (ND & Hpos & Hmax).
  assert (Hok : mc_ok m) by (repeat split; try apply Hpos; assumption).
  unfold mc_ok. split; [|split].
  - unfold mc_discard. destruct (Nat.leb (cget0 x (fst m)) 1); cbn [fst];
      [apply NoDup_ckeys_cdel, ND|apply NoDup_ckeys_cset, ND].
  - intros y. rewrite (Hcnt y m Hok). unfold mc_discard.
    destruct (Nat.leb_spec (cget0 x (fst m)) 1) as [Hle|Hgt]; cbn [fst].
    + rewrite (in_ckeys_cdel y x _ ND), Hpos. destruct (Z.eqb_spec y x); [subst|]; lia.
    + rewrite in_ckeys_cset, Hpos. destruct (Z.eqb_spec y x); [subst|]; lia.
  - unfold mc_discard. destruct (Nat.leb_spec (cget0 x (fst m)) 1) as [Hle|Hgt]; cbn [fst snd].
    + destruct (snd m) as [M|] eqn:EM.
      * destruct (Z.eqb_spec x M) as [->|Hn]; [apply max_keys_spec|].
        cbn in Hmax |- *. destruct Hmax as [H1 H2]. split.
        -- apply (in_ckeys_cdel M x _ ND). split; [congruence|exact H1].
        -- intros k Hk. apply (in_ckeys_cdel k x _ ND) in Hk. apply H2, Hk.
      * cbn in Hmax |- *. destruct (fst m) as [|a l]; [reflexivity|discriminate].
    + apply (is_max_of_same_set (ckeys (fst m))); [|exact Hmax].
      intros k. rewrite in_ckeys_cset. split; [auto|]. intros [->|H]; [|exact H]. apply Hpos. lia.
Qed.

Inductive mcop := MAdd (x : Z) | MDiscard (x : Z).
Definition mc_step (m : maxcounter) (o : mcop) : maxcounter :=
  match o with MAdd x => mc_add x m | MDiscard x => mc_discard x m end.
Definition mc_run (ops : list mcop) (m : maxcounter) : maxcounter := fold_left mc_step ops m.
(* the multiset an add/discard sequence denotes (discarding an absent element does nothing) *)
Definition ms_step (f : Z -> nat) (o : mcop) : Z -> nat :=
  match o with
  | MAdd x => fun y => f y + (if Z.eqb y x then 1 else 0)
  | MDiscard x => fun y => f y - (if Z.eqb y x then 1 else 0)
  end.
Definition ms_count (ops : list mcop) : Z -> nat := fold_left ms_step ops (fun _ => 0).

Lemma mc_run_inv ops : forall m f, mc_ok m -> (forall y, cget0 y (fst m) = f y) ->
  mc_ok (mc_run ops m) /\ forall y, cget0 y (fst (mc_run ops m)) = fold_left ms_step ops f y.
Proof.
  induction ops as [|o ops IH]; intros m f Hok Hf; cbn; [split; assumption|].
  apply IH.
  - destruct o; [apply mc_add_ok|apply mc_discard_ok]; exact Hok.
  - intros y. destruct o as [x|x]; cbn [mc_step ms_step].
    + rewrite mc_add_count, Hf. reflexivity.
    + rewrite (mc_discard_count x y m Hok), Hf. reflexivity.
Qed.

Theorem maxcounter_correct ops :
  let m := mc_run ops mc_empty in
  (forall y, cget0 y (fst m) = ms_count ops y) /\
  match mc_max m with
  | None => forall y, ms_count ops y = 0
  | Some M => 0 < ms_count ops M /\ forall y, 0 < ms_count ops y -> (y <= M)%Z
  end.
Proof.
  cbn zeta. destruct (mc_run_inv ops mc_empty (fun _ => 0) mc_ok_empty (fun _ => eq_refl)) as [Hok Hc].
  fold (ms_count ops) in Hc. split; [exact Hc|].
  destruct Hok as (ND & Hpos & Hmax). unfold mc_max. destruct (snd (mc_run ops mc_empty)) as [M|]; cbn in Hmax.
  - destruct Hmax as [H1 H2]. split.
    + rewrite <- Hc. apply Hpos, H1.
    + intros y Hy. apply H2, Hpos. rewrite Hc. exact Hy.
  - intros y. rewrite <- Hc. destruct (cget0 y (fst (mc_run ops mc_empty))) eqn:E; [reflexivity|].
    exfalso. assert (H : In y (ckeys (fst (mc_run ops mc_empty)))) by (apply Hpos; lia).
    rewrite Hmax in H. exact H.
Qed.

(* ======================================================================== *)
(* Part 2 : compute_contracted_info = the tree rule                          *)
Lemma lset_in_map j v d : In j (lkeys d) -> NoDup (lkeys d) ->
  lset j v d = map (fun kv => if Nat.eqb (fst kv) j then (fst kv, v) else kv) d.
Proof.
  unfold lkeys. induction d as [|[k w] d IH]; cbn; [tauto|]. intros Hin ND.
  inversion ND as [|? ? Hnin ND']; subst. destruct (Nat.eqb_spec k j) as [->|Hn].
  - f_equal. symmetry. rewrite <- (map_id d) at 2. apply map_ext_in. intros [k' w'] Hk. cbn.
    destruct (Nat.eqb_spec k' j) as [->|]; [|reflexivity]. exfalso. apply Hnin.
    apply in_map_iff. exists (j, w'). split; [reflexivity|exact Hk].
  - f_equal. apply IH; [|exact ND']. destruct Hin as [H|H]; [contradiction|exact H].
Qed.
Lemma lset_notin j v d : ~ In j (lkeys d) -> lset j v d = d ++ [(j, v)].
Proof.
  unfold lkeys. induction d as [|[k w] d IH]; cbn; [reflexivity|]. intros H.
  destruct (Nat.eqb_spec k j); [subst; tauto|]. f_equal. apply IH. tauto.
Qed.
Lemma lget0_notin j d : ~ In j (lkeys d) -> lget0 j d = 0.
Proof.
  intros H. unfold lget0. destruct (lget j d) eqn:E; [|reflexivity].
  exfalso. apply H. apply lget_in_keys. rewrite E. discriminate.
Qed.
Lemma lget0_cons_same k v d : lget0 k ((k, v) :: d) = v.
Proof. unfold lget0. cbn. rewrite Nat.eqb_refl. reflexivity. Qed.
Lemma lget0_cons_other k j v d : j <> k -> lget0 j ((k, v) :: d) = lget0 j d.
Proof. intros H. unfold lget0. cbn. destruct (Nat.eqb_spec k j); [congruence|reflexivity]. Qed.
Lemma lmem_keys_eq j d d' : (In j (lkeys d) <-> In j (lkeys d')) -> lmem j d = lmem j d'.
Proof.
  intros H. destruct (lmem j d) eqn:E1, (lmem j d') eqn:E2; try reflexivity.
  - apply lmem_in_keys in E1. apply H in E1. apply lmem_in_keys in E1. congruence.
  - apply lmem_in_keys in E2. apply H in E2. apply lmem_in_keys in E2. congruence.
Qed.
Lemma lmem_false_notin j d : lmem j d = false <-> ~ In j (lkeys d).
Proof. rewrite <- lmem_in_keys. destruct (lmem j d); split; congruence. Qed.

(* structure of core.legs_union for two operands: the left operand's keys in order with the
   counts added, then the keys only the right operand has *)
Lemma legs_union2_struct b : forall a, NoDup (lkeys a) -> NoDup (lkeys b) ->
  legs_union2 a b = map (fun kv => (fst kv, snd kv + lget0 (fst kv) b)) a
                    ++ filter (fun kv => negb (lmem (fst kv) a)) b.
Proof.
  unfold legs_union2. induction b as [|[k v] b IH]; intros a NDa NDb.
  - cbn. rewrite app_nil_r. rewrite <- (map_id a) at 1. apply map_ext. intros [j w]. cbn.
    unfold lget0. cbn. f_equal. lia.
  - cbn [fold_left fst snd]. cbn in NDb. inversion NDb as [|? ? Hk NDb']; subst.
    rewrite IH; [|apply NoDup_lkeys_lset, NDa|exact NDb'].
    destruct (in_dec Nat.eq_dec k (lkeys a)) as [Hin|Hnin].
    + (* k already on the left operand *)
      unfold ladd. rewrite (lset_in_map k _ a Hin NDa). rewrite map_map. cbn [filter fst].
      assert (E : lmem k a = true) by (apply lmem_in_keys, Hin). rewrite E. cbn [negb]. f_equal.
      * apply map_ext_in. intros [j w] Hj. cbn [fst snd].
        destruct (Nat.eqb_spec j k) as [->|Hn]; cbn [fst snd].
        -- rewrite lget0_cons_same. rewrite (lget0_notin k b Hk).
           assert (lget0 k a = w) by (unfold lget0; rewrite (in_lget k w a NDa Hj); reflexivity). f_equal. lia.
        -- rewrite lget0_cons_other by exact Hn. reflexivity.
      * apply filter_ext. intros [j w]. cbn [fst]. f_equal. apply lmem_keys_eq.
        rewrite <- (lset_in_map k _ a Hin NDa). rewrite lkeys_lset_in by exact Hin. tauto.
    + (* k new *)
      unfold ladd. rewrite (lset_notin k _ a Hnin). rewrite map_app. cbn [map fst snd filter].
      assert (E : lmem k a = false) by (apply lmem_false_notin, Hnin). rewrite E. cbn [negb].
      rewrite <- app_assoc. f_equal.
      * apply map_ext_in. intros [j w] Hj. cbn [fst snd]. rewrite lget0_cons_other; [reflexivity|].
        intros ->. apply Hnin. apply in_map_iff. exists (k, w). split; [reflexivity|exact Hj].
      * cbn [app]. rewrite (lget0_notin k a Hnin), (lget0_notin k b Hk). f_equal; [f_equal; lia|].
        apply filter_ext_in. intros [j w] Hj. cbn [fst]. f_equal. apply lmem_keys_eq.
        unfold lkeys. rewrite map_app, in_app_iff. cbn. split; [|tauto].
        intros [H|[H|[]]]; [exact H|]. exfalso. apply Hk. subst. apply in_map_iff. exists (j, w). split; [reflexivity|exact Hj].
Qed.

Lemma size_of_app sz l1 l2 : size_of sz (l1 ++ l2) = (size_of sz l1 * size_of sz l2)%Z.
Proof. unfold size_of. rewrite map_app. apply zprod_app. Qed.
Lemma size_of_nil sz : size_of sz [] = 1%Z.
Proof. reflexivity. Qed.

Section CCI.
Variable n : net.
Let P (kv : ix * nat) : bool := Nat.ltb (snd kv) (appear n (fst kv)).
Let notin (la : legs) (kv : ix * nat) : bool := negb (lmem (fst kv) la).
Let g (lb : legs) (kv : ix * nat) : ix * nat := (fst kv, snd kv + lget0 (fst kv) lb).

Lemma cci_left_acc la lb : forall lab c s,
  fold_left (fun acc kv =>
      let '(lab, (cost, size)) := acc in
      let d := zget (fst kv) (szd n) in
      let cost' := (cost * d)%Z in
      let cnt := match lget (fst kv) lb with Some c => snd kv + c | None => snd kv end in
      if Nat.ltb cnt (appear n (fst kv)) then (lab ++ [(fst kv, cnt)], (cost', (size * d)%Z))
      else (lab, (cost', size))) la (lab, (c, s))
  = (lab ++ filter P (map (g lb) la),
     ((c * size_of (szd n) (lkeys la))%Z, (s * size_of (szd n) (lkeys (filter P (map (g lb) la))))%Z)).
Proof.
  induction la as [|[k v] la IH]; intros lab c s.
  - cbn. rewrite app_nil_r. f_equal. f_equal; lia.
  - cbn [fold_left fst snd].
    assert (Ecnt : match lget k lb with Some c0 => v + c0 | None => v end = v + lget0 k lb).
    { unfold lget0. destruct (lget k lb); lia. }
    rewrite Ecnt.
    assert (EP : P (g lb (k, v)) = Nat.ltb (v + lget0 k lb) (appear n k)) by reflexivity.
    cbn [map filter]. rewrite EP.
    destruct (Nat.ltb (v + lget0 k lb) (appear n k)) eqn:E.
    + rewrite IH. rewrite <- app_assoc. cbn [app].
      unfold lkeys. cbn [map]. change (fst (g lb (k, v))) with k. cbn [fst].
      rewrite !size_of_cons. f_equal; try reflexivity. f_equal; ring.
    + rewrite IH. f_equal.
      unfold lkeys. cbn [map fst]. rewrite !size_of_cons. f_equal; ring.
Qed.

Lemma cci_right_acc la lb : forall lab c s,
  fold_left (fun acc kv =>
      let '(lab, (cost, size)) := acc in
      if lmem (fst kv) la then acc
      else
        let d := zget (fst kv) (szd n) in
        let cost' := (cost * d)%Z in
        if Nat.ltb (snd kv) (appear n (fst kv)) then (lab ++ [(fst kv, snd kv)], (cost', (size * d)%Z))
        else (lab, (cost', size))) lb (lab, (c, s))
  = (lab ++ filter P (filter (notin la) lb),
     ((c * size_of (szd n) (lkeys (filter (notin la) lb)))%Z,
      (s * size_of (szd n) (lkeys (filter P (filter (notin la) lb))))%Z)).
Proof.
  induction lb as [|[k v] lb IH]; intros lab c s.
  - cbn. rewrite app_nil_r. f_equal. f_equal; lia.
  - cbn [fold_left fst snd].
    assert (EN : notin la (k, v) = negb (lmem k la)) by reflexivity.
    cbn [filter]. rewrite EN.
    destruct (lmem k la) eqn:Em; cbn [negb].
    + apply IH.
    + assert (EP : P (k, v) = Nat.ltb v (appear n k)) by reflexivity.
      cbn [filter]. rewrite EP.
      destruct (Nat.ltb v (appear n k)) eqn:E.
      * rewrite IH. rewrite <- app_assoc. cbn [app]. f_equal.
        unfold lkeys. cbn [map fst]. rewrite !size_of_cons. f_equal; ring.
      * rewrite IH. f_equal. unfold lkeys. cbn [map fst]. rewrite !size_of_cons. f_equal; ring.
Qed.

(* the annealing rule IS the tree rule: legs = those of get_legs (in get_legs' own key order),
   cost = get_flops, size = get_size of a node whose children carry la and lb *)
Theorem cci_is_tree_rule la lb : NoDup (lkeys la) -> NoDup (lkeys lb) ->
  compute_contracted_info n la lb =
    (filter P (legs_union2 la lb),
     (size_of (szd n) (lkeys (legs_union2 la lb)),
      size_of (szd n) (lkeys (filter P (legs_union2 la lb))))).
Proof.
  intros NDa NDb. unfold compute_contracted_info, cci_left.
  rewrite cci_left_acc. rewrite cci_right_acc. rewrite (legs_union2_struct lb la NDa NDb).
  fold (g lb). fold (notin la). cbn [app]. rewrite filter_app. f_equal. f_equal.
  - rewrite Z.mul_1_l. unfold lkeys. rewrite map_app. rewrite size_of_app. f_equal.
    unfold g. rewrite map_map. reflexivity.
  - rewrite Z.mul_1_l. unfold lkeys. rewrite map_app, size_of_app. reflexivity.
Qed.
End CCI.

(* ======================================================================== *)
(* Part 3 : the cost invariant and its verified checker                      *)
Definition legs_equiv (a b : legs) : Prop := forall j, lget j a = lget j b.

Lemma opt_nat_eqb_eq a b : opt_nat_eqb a b = true -> a = b.
Proof.
  destruct a, b; cbn; try congruence. intros H. apply Nat.eqb_eq in H. congruence.
Qed.
Lemma lget_none_notin j d : ~ In j (lkeys d) -> lget j d = None.
Proof.
  intros H. destruct (lget j d) eqn:E; [|reflexivity]. exfalso. apply H, lget_in_keys. rewrite E. discriminate.
Qed.
Lemma legs_equivb_sound a b : legs_equivb a b = true -> legs_equiv a b.
Proof.
  unfold legs_equivb. rewrite forallb_forall. intros H j.
  destruct (in_dec Nat.eq_dec j (lkeys a ++ lkeys b)) as [Hin|Hn].
  - apply opt_nat_eqb_eq, H, Hin.
  - rewrite in_app_iff in Hn. rewrite !lget_none_notin by tauto. reflexivity.
Qed.

Section Inv.
Variable n : net.

(* every PRESENT cached figure of a node whose subtree is complete equals the from-scratch
   value of Model/Net.v for the current (children, sliced_inds) *)
Definition node_cost_ok (s : tstate) (nd : node) (i : ninfo) : Prop :=
  forall t, tree_of (tfuel s) (children s) nd = Some t ->
    let isroot := Nat.eqb (length nd) (NN n) in
    (forall l, i_legs i = Some l -> legs_equiv l (node_legs n (sliced s) isroot t)) /\
    (forall l, i_involved i = Some l -> legs_equiv l (involved n (sliced s) t)) /\
    (forall z, i_size i = Some z -> z = node_size n (sliced s) isroot t) /\
    (forall z, i_flops i = Some z -> z = node_flops n (sliced s) t).
(* tracked totals equal the sums over the current internal nodes *)
Definition totals_ok (s : tstate) : Prop :=
  forall ts, child_trees n s = Some ts ->
    (trk_flops s = true -> flops_ s = zsum (map (fun bt => node_flops n (sliced s) (snd bt)) ts)) /\
    (trk_write s = true -> write_ s = zsum (map (fun bt => node_size n (sliced s) (fst bt) (snd bt)) ts)) /\
    mult s = multiplicity n (sliced s).
Definition CostInv (s : tstate) : Prop :=
  (forall nd i, In (nd, i) (info s) -> node_cost_ok s nd i) /\ totals_ok s.

Theorem cost_inv_b_sound s : cost_inv_b n s = true -> CostInv s.
Proof.
  unfold cost_inv_b. rewrite andb_true_iff, forallb_forall. intros [Hn Ht]. split.
  - intros nd i Hin t Ht'. specialize (Hn (nd, i) Hin). unfold node_cost_ok_b in Hn. cbn [fst snd] in Hn.
    rewrite Ht' in Hn. rewrite !andb_true_iff in Hn. destruct Hn as [[[H1 H2] H3] H4]. cbn zeta.
    repeat split.
    + intros l E. rewrite E in H1. apply legs_equivb_sound, H1.
    + intros l E. rewrite E in H2. apply legs_equivb_sound, H2.
    + intros z E. rewrite E in H3. apply Z.eqb_eq, H3.
    + intros z E. rewrite E in H4. apply Z.eqb_eq, H4.
  - intros ts Hts. unfold totals_ok_b in Ht. rewrite Hts in Ht. rewrite !andb_true_iff in Ht.
    destruct Ht as [[H1 H2] H3]. repeat split.
    + intros E. rewrite E in H1. apply Z.eqb_eq, H1.
    + intros E. rewrite E in H2. apply Z.eqb_eq, H2.
    + apply Z.eqb_eq, H3.
Qed.

(* (v) of C02's invariant: every modelled composite that changes (children, index orders,
   sliced_inds) leaves the compiled-contractor cache EMPTY (or raised) *)
Lemma cores_reset_recipes s : cores (reset_recipes s) = [].
Proof. reflexivity. Qed.
Lemma cores_reset_inds s : cores (reset_inds s) = [].
Proof. reflexivity. Qed.
Lemma cores_remove_ind ind pj s : cores (remove_ind n ind pj s) = [] \/ err (remove_ind n ind pj s) = true.
Proof. unfold remove_ind. destruct (memb ind (removed (sliced s))); [right|left]; reflexivity. Qed.
Lemma cores_restore_ind ind s : cores (restore_ind n ind s) = [] \/ err (restore_ind n ind s) = true.
Proof.
  unfold restore_ind. destruct (find _ (sliced s)); [|right; reflexivity].
  match goal with |- context [traverse n ?x] => destruct (traverse n x) end; [left|right]; reflexivity.
Qed.
Lemma cores_sort_inds pr a b c s : cores (sort_inds n pr a b c s) = [] \/ err (sort_inds n pr a b c s) = true.
Proof.
  unfold sort_inds.
  match goal with |- context [let '(s1, nodes) := ?e in _] => destruct e as [s1 [nodes|]] end;
    [left|right]; reflexivity.
Qed.
End Inv.

(* "incremental = rebuild": the figures are a function of (children, sliced_inds).  Any two
   states that satisfy the invariant and agree on children and sliced_inds -- e.g. the tree after
   an arbitrary history and a freshly built one, or the trees reached by slicing/unslicing the
   same indices in different orders (sliced_inds is kept sorted by SliceInfo's order, so equal
   sets give equal lists) -- report the same per-node figures and the same totals. *)
Theorem costinv_determines n s1 s2 : CostInv n s1 -> CostInv n s2 ->
  children s1 = children s2 -> sliced s1 = sliced s2 ->
  (forall nd i1 i2 t, In (nd, i1) (info s1) -> In (nd, i2) (info s2) ->
     tree_of (tfuel s1) (children s1) nd = Some t ->
     (forall z1 z2, i_size i1 = Some z1 -> i_size i2 = Some z2 -> z1 = z2) /\
     (forall z1 z2, i_flops i1 = Some z1 -> i_flops i2 = Some z2 -> z1 = z2) /\
     (forall l1 l2, i_legs i1 = Some l1 -> i_legs i2 = Some l2 -> legs_equiv l1 l2) /\
     (forall l1 l2, i_involved i1 = Some l1 -> i_involved i2 = Some l2 -> legs_equiv l1 l2)) /\
  (forall ts, child_trees n s1 = Some ts ->
     (trk_flops s1 = true -> trk_flops s2 = true -> flops_ s1 = flops_ s2) /\
     (trk_write s1 = true -> trk_write s2 = true -> write_ s1 = write_ s2) /\
     mult s1 = mult s2).
Proof.
  intros [Hn1 Ht1] [Hn2 Ht2] Ec Es. split.
  - intros nd i1 i2 t Hi1 Hi2 Ht.
    assert (Ht2' : tree_of (tfuel s2) (children s2) nd = Some t) by (unfold tfuel in *; rewrite <- Ec; exact Ht).
    destruct (Hn1 nd i1 Hi1 t Ht) as (A1 & A2 & A3 & A4).
    destruct (Hn2 nd i2 Hi2 t Ht2') as (B1 & B2 & B3 & B4). rewrite <- Es in *.
    repeat split.
    + intros z1 z2 E1 E2. rewrite (A3 z1 E1), (B3 z2 E2). reflexivity.
    + intros z1 z2 E1 E2. rewrite (A4 z1 E1), (B4 z2 E2). reflexivity.
    + intros l1 l2 E1 E2 j. rewrite (A1 l1 E1 j), (B1 l2 E2 j). reflexivity.
    + intros l1 l2 E1 E2 j. rewrite (A2 l1 E1 j), (B2 l2 E2 j). reflexivity.
  - intros ts Hts.
    assert (Hts2 : child_trees n s2 = Some ts) by (unfold child_trees, tfuel in *; rewrite <- Ec; exact Hts).
    destruct (Ht1 ts Hts) as (A1 & A2 & A3). destruct (Ht2 ts Hts2) as (B1 & B2 & B3). rewrite <- Es in *.
    repeat split.
    + intros E1 E2. rewrite (A1 E1), (B1 E2). reflexivity.
    + intros E1 E2. rewrite (A2 E1), (B2 E2). reflexivity.
    + rewrite A3, B3. reflexivity.
Qed.

(* ======================================================================== *)
(* Part 4 : C02 -- conditional composition                                   *)
Section HistoryValue.
Variable n : net.
Variable Value : Type.
Variable contract_of : tstate -> Value.        (* what tree.contract computes in a state (C01) *)
Variable einsum_of : list slinfo -> Value.     (* einsum_spec of the sliced / projected network *)
Variable Good : tstate -> Prop.                (* the full invariant (cost + recipes) *)
(* C01's theorem, not available in this development yet: a program extracted from a state that
   satisfies the invariant computes the einsum of the sliced/projected network *)
Hypothesis program_correct_hyp : forall s, Good s -> contract_of s = einsum_of (sliced s).
(* the inductive step, NOT proved here (see docs/C02.md): each primitive of the trace preserves
   the invariant under its precondition [pre] *)
Variable pre : prim -> tstate -> Prop.
Hypothesis prim_preserves_hyp : forall p s, Good s -> pre p s -> Good (step n p s).

Fixpoint pre_trace (tr : list prim) (s : tstate) : Prop :=
  match tr with
  | [] => True
  | p :: tr' => pre p s /\ pre_trace tr' (step n p s)
  end.
Lemma run_good tr : forall s, Good s -> pre_trace tr s -> Good (run n tr s).
Proof.
  induction tr as [|p tr IH]; intros s Hg Hp; [exact Hg|].
  destruct Hp as [H1 H2]. cbn. apply IH; [apply prim_preserves_hyp; assumption|exact H2].
Qed.
Theorem history_value_conditional tr s0 : Good s0 -> pre_trace tr s0 ->
  contract_of (run n tr s0) = einsum_of (sliced (run n tr s0)).
Proof. intros Hg Hp. apply program_correct_hyp, run_good; assumption. Qed.
End HistoryValue.

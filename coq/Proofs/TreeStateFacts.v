From Coq Require Import Lia.
From Ctg Require Import Base Net BaseFacts NetFacts TreeState.
Lemma mc_empty_max : mc_max mc_empty = None.
Proof. reflexivity. Qed.

(* SeedFacts.v -- lemmas about Model/SeedSem.v (property C17). *)
From Coq Require Import List Arith Bool String Lia.
From Ctg Require Import SeedSem.
Import ListNotations.

(* ------------------------------------------------------------------ *)
Lemma apair_eqb_true : forall x y, apair_eqb x y = true -> x = y.
Proof.
  intros [a b] [c d] H. unfold apair_eqb in H. cbn in H.
  apply andb_true_iff in H. destruct H as [H1 H2].
  apply Nat.eqb_eq in H1. apply Bool.eqb_prop in H2. subst. reflexivity.
Qed.

Lemma inb_In : forall x l, inb x l = true -> In x l.
Proof.
  intros x l H. unfold inb in H. apply existsb_exists in H.
  destruct H as [y [Hy E]]. apply apair_eqb_true in E. subst. exact Hy.
Qed.

Lemma is_some_draw : forall G own st v own' st',
  draw G own st = (v, own', st') -> is_some own' = is_some own.
Proof.
  intros G own st v own' st' H. destruct own as [r|]; cbn in H.
  - inversion H. reflexivity.
  - inversion H. reflexivity.
Qed.

(* a function whose rng is private does not look at the hidden state when it draws *)
Lemma draw_seeded : forall G r st, draw G (Some r) st = (g_out G r, Some (g_step G r), st).
Proof. reflexivity. Qed.

(* ------------------------------------------------------------------ *)
(* the meaning of calls is independent of the hidden state on the set R *)
Definition rec_indep (R : list apair) (rec : nat -> rngst -> hidden -> result) : Prop :=
  forall c own, In (c, is_some own) R ->
    exists o own', is_some own' = is_some own /\ forall st, rec c own st = (o, own', st).

Lemma run_body_indep : forall G R rec, rec_indep R rec ->
  forall evs own,
    forallb (event_ok (is_some own)) evs = true ->
    (forall c p, In (ECall c p) evs -> In (c, succ_state p (is_some own)) R) ->
    exists o own', is_some own' = is_some own /\
                   forall st, run_body G rec evs own st = (o, own', st).
Proof.
  intros G R rec Hrec evs.
  induction evs as [|e evs IH]; intros own Hok Hcalls.
  - exists [], own. split; [reflexivity|]. intros st. reflexivity.
  - cbn [forallb] in Hok. apply andb_true_iff in Hok. destruct Hok as [He Hrest].
    assert (Hcalls' : forall c p, In (ECall c p) evs -> In (c, succ_state p (is_some own)) R).
    { intros c p Hin. apply Hcalls. right. exact Hin. }
    destruct e as [ | | |c p].
    + (* EDrawOwn: the rng must be private *)
      destruct own as [r|]; [|cbn in He; discriminate].
      destruct (IH (Some (g_step G r)) Hrest Hcalls') as [o2 [own2 [Hs2 Hrun2]]].
      exists (ODraw (g_out G r) :: o2), own2. split; [exact Hs2|].
      intros st. cbn [run_body]. rewrite draw_seeded. rewrite Hrun2. reflexivity.
    + cbn in He. discriminate.
    + cbn in He. discriminate.
    + assert (Hc : In (c, succ_state p (is_some own)) R).
      { apply Hcalls. left. reflexivity. }
      destruct p.
      * (* PSeed *)
        cbn [succ_state] in Hc.
        destruct (Hrec c own Hc) as [o1 [own1 [Hs1 Hr1]]].
        assert (Hrest1 : forallb (event_ok (is_some own1)) evs = true) by (rewrite Hs1; exact Hrest).
        assert (Hcalls1 : forall c0 p0, In (ECall c0 p0) evs -> In (c0, succ_state p0 (is_some own1)) R).
        { intros c0 p0 Hin. rewrite Hs1. apply Hcalls'. exact Hin. }
        destruct (IH own1 Hrest1 Hcalls1) as [o2 [own2 [Hs2 Hrun2]]].
        exists ((OEnter c :: o1) ++ o2), own2. split; [congruence|].
        intros st. cbn [run_body]. rewrite Hr1. rewrite Hrun2. reflexivity.
      * (* PDerived: the rng must be private *)
        cbn [event_ok] in He.
        destruct own as [r|]; [|cbn in He; discriminate].
        cbn [succ_state is_some] in Hc.
        destruct (Hrec c (Some (g_out G r)) Hc) as [o1 [own1 [Hs1 Hr1]]].
        destruct (IH (Some (g_step G r)) Hrest Hcalls') as [o2 [own2 [Hs2 Hrun2]]].
        exists ((OEnter c :: o1) ++ o2), own2. split; [exact Hs2|].
        intros st. cbn [run_body]. rewrite draw_seeded. rewrite Hr1. rewrite Hrun2. reflexivity.
      * (* PConst *)
        cbn [succ_state] in Hc.
        destruct (Hrec c (Some 0) Hc) as [o1 [own1 [Hs1 Hr1]]].
        destruct (IH own Hrest Hcalls') as [o2 [own2 [Hs2 Hrun2]]].
        exists ((OEnter c :: o1) ++ o2), own2. split; [exact Hs2|].
        intros st. cbn [run_body]. rewrite Hr1. rewrite Hrun2. reflexivity.
      * (* PNone *)
        cbn [succ_state] in Hc.
        destruct (Hrec c None Hc) as [o1 [own1 [Hs1 Hr1]]].
        destruct (IH own Hrest Hcalls') as [o2 [own2 [Hs2 Hrun2]]].
        exists ((OEnter c :: o1) ++ o2), own2. split; [exact Hs2|].
        intros st. cbn [run_body]. rewrite Hr1. rewrite Hrun2. reflexivity.
      * (* PNothing *)
        cbn [succ_state] in Hc.
        destruct (Hrec c None Hc) as [o1 [own1 [Hs1 Hr1]]].
        destruct (IH own Hrest Hcalls') as [o2 [own2 [Hs2 Hrun2]]].
        exists ((OEnter c :: o1) ++ o2), own2. split; [exact Hs2|].
        intros st. cbn [run_body]. rewrite Hr1. rewrite Hrun2. reflexivity.
Qed.

Lemma closed_ok_elim : forall gr R x, closed_ok gr R = true -> In x R ->
  forallb (event_ok (snd x)) (body_of gr (fst x)) = true /\
  forall c p, In (ECall c p) (body_of gr (fst x)) -> In (c, succ_state p (snd x)) R.
Proof.
  intros gr R x Hc Hin. unfold closed_ok in Hc.
  rewrite forallb_forall in Hc. specialize (Hc x Hin).
  apply andb_true_iff in Hc. destruct Hc as [Hl Hs]. split; [exact Hl|].
  intros c p Hcall. rewrite forallb_forall in Hs.
  apply inb_In. apply Hs. unfold succs. apply in_flat_map.
  exists (ECall c p). split; [exact Hcall|]. left. reflexivity.
Qed.

(* induction over the call depth: on a closed, locally fine set of abstract states every
   run returns its observations and its rng without reading or changing the hidden state *)
Lemma run_indep : forall G gr R, closed_ok gr R = true ->
  forall fuel, rec_indep R (run G gr fuel).
Proof.
  intros G gr R Hclosed fuel.
  induction fuel as [|f IH]; intros n own Hin.
  - exists [OFuel], own. split; [reflexivity|]. intros st. reflexivity.
  - destruct (closed_ok_elim gr R (n, is_some own) Hclosed Hin) as [Hok Hcalls].
    cbn [fst snd] in Hok, Hcalls.
    destruct (run_body_indep G R (run G gr f) IH (body_of gr n) own Hok Hcalls) as [o [own' [Hs Hrun]]].
    exists o, own'. split; [exact Hs|]. intros st. cbn [run]. apply Hrun.
Qed.

(* THE theorem: for an arbitrary generator, an arbitrary graph and an arbitrary call depth,
   an entry point that passes the static check, called with an integer seed, produces
   observations that do not depend on the state of the global generator nor on the
   hash-iteration oracle, and it leaves both untouched (so it does not perturb later calls) *)
Theorem seedflow_sound : forall (G : gen) (gr : sgraph) (api : nat),
  entry_ok gr api = true ->
  forall (fuel seed : nat) (st st' : hidden),
    trace_of (run G gr fuel api (Some seed) st) = trace_of (run G gr fuel api (Some seed) st')
    /\ hidden_of (run G gr fuel api (Some seed) st) = st.
Proof.
  intros G gr api Hok fuel seed st st'.
  unfold entry_ok in Hok. apply andb_true_iff in Hok. destruct Hok as [Hin Hclosed].
  apply inb_In in Hin.
  destruct (run_indep G gr (reach_from gr api) Hclosed fuel api (Some seed) Hin) as [o [own' [_ Hrun]]].
  rewrite (Hrun st), (Hrun st'). split; reflexivity.
Qed.

(* the same, spelled with the two hidden inputs separately *)
Corollary seedflow_sound_gh : forall (G : gen) (gr : sgraph) (api : nat),
  entry_ok gr api = true ->
  forall fuel seed g g' h h' k k',
    trace_of (run G gr fuel api (Some seed) {| h_g := g; h_perm := h; h_cnt := k |}) =
    trace_of (run G gr fuel api (Some seed) {| h_g := g'; h_perm := h'; h_cnt := k' |}).
Proof.
  intros G gr api Hok fuel seed g g' h h' k k'.
  apply (seedflow_sound G gr api Hok fuel seed).
Qed.

(* ------------------------------------------------------------------ *)
(* lists of names: boolean checks used on the generated tables *)
Lemma str_inb_In : forall s l, str_inb s l = true -> In s l.
Proof.
  intros s l H. unfold str_inb in H. apply existsb_exists in H.
  destruct H as [y [Hy E]]. apply String.eqb_eq in E. subst. exact Hy.
Qed.

Definition covered_b (names a b : list string) : bool :=
  forallb (fun nm => str_inb nm a || str_inb nm b) names.

Lemma covered_b_sound : forall names a b, covered_b names a b = true ->
  forall nm, In nm names -> In nm a \/ In nm b.
Proof.
  intros names a b H nm Hin. unfold covered_b in H. rewrite forallb_forall in H.
  specialize (H nm Hin). apply orb_true_iff in H.
  destruct H as [H|H]; [left|right]; apply str_inb_In; exact H.
Qed.

(* every API of the table whose name is in `ok` passes the static check *)
Definition all_ok_b (gr : sgraph) (tbl : list (string * nat)) (ok : list string) : bool :=
  forallb (fun e => negb (str_inb (fst e) ok) || entry_ok gr (snd e)) tbl.

Lemma all_ok_b_sound : forall gr tbl ok, all_ok_b gr tbl ok = true ->
  forall nm id, In nm ok -> In (nm, id) tbl -> entry_ok gr id = true.
Proof.
  intros gr tbl ok H nm id Hok Hin. unfold all_ok_b in H. rewrite forallb_forall in H.
  specialize (H (nm, id) Hin). cbn [fst snd] in H.
  apply orb_true_iff in H. destruct H as [H|H]; [|exact H].
  apply negb_true_iff in H.
  assert (Ht : str_inb nm ok = true).
  { unfold str_inb. apply existsb_exists. exists nm. split; [exact Hok|]. apply String.eqb_refl. }
  congruence.
Qed.

(* every API of the table that fails the static check is listed in `refuted` and the
   reachability analysis names a culprit state *)
Definition all_refuted_b (gr : sgraph) (tbl : list (string * nat)) (refuted : list string) : bool :=
  forallb (fun e => entry_ok gr (snd e) ||
                    (str_inb (fst e) refuted && negb (Nat.eqb (List.length (culprits gr (snd e))) 0))) tbl.

Lemma culprits_spec : forall gr api x, In x (culprits gr api) ->
  In x (reach_from gr api) /\ exists e, In e (body_of gr (fst x)) /\ event_ok (snd x) e = false.
Proof.
  intros gr api x H. unfold culprits in H. apply filter_In in H. destruct H as [Hin Hl].
  split; [exact Hin|]. apply negb_true_iff in Hl. unfold local_ok in Hl.
  assert (Hex : existsb (fun e => negb (event_ok (snd x) e)) (body_of gr (fst x)) = true).
  { clear Hin. induction (body_of gr (fst x)) as [|e l IHl].
    - cbn in Hl. discriminate.
    - cbn [forallb] in Hl. cbn [existsb]. destruct (event_ok (snd x) e) eqn:E.
      + cbn. apply IHl. cbn in Hl. exact Hl.
      + reflexivity. }
  apply existsb_exists in Hex. destruct Hex as [e [He Hn]]. exists e. split; [exact He|].
  apply negb_true_iff in Hn. exact Hn.
Qed.

Lemma all_refuted_b_sound : forall gr tbl refuted, all_refuted_b gr tbl refuted = true ->
  forall nm id, In (nm, id) tbl -> entry_ok gr id = false ->
    In nm refuted /\
    exists x e, In x (reach_from gr id) /\ In e (body_of gr (fst x)) /\ event_ok (snd x) e = false.
Proof.
  intros gr tbl refuted H nm id Hin Hno. unfold all_refuted_b in H. rewrite forallb_forall in H.
  specialize (H (nm, id) Hin). cbn [fst snd] in H. rewrite Hno in H. cbn [orb] in H.
  apply andb_true_iff in H. destruct H as [Hr Hc]. split; [apply str_inb_In; exact Hr|].
  destruct (culprits gr id) as [|x l] eqn:E; [cbn in Hc; discriminate|].
  destruct (culprits_spec gr id x) as [Hx [e [He Hev]]]; [rewrite E; left; reflexivity|].
  exists x, e. split; [exact Hx|]. split; [exact He|exact Hev].
Qed.

(* ------------------------------------------------------------------ *)
(* non-vacuity, converse flavour: small graphs on which the check fails and the result
   really depends on the hidden inputs *)
Definition lcg : gen := {| g_step := fun s => S s; g_out := fun s => 3 * s + 1 |}.
Definition hid (g : nat) (h : nat -> nat) : hidden := {| h_g := g; h_perm := h; h_cnt := 0 |}.

(* "agglom": the entry point derives an rng from its seed, draws from it, but calls the
   partition function without forwarding the seed *)
Definition g_agglom : sgraph := [ [EDrawOwn; ECall 1 PNothing]; [EDrawOwn] ].

Lemma g_agglom_not_ok : entry_ok g_agglom 0 = false.
Proof. vm_compute. reflexivity. Qed.

Lemma g_agglom_depends_on_global :
  trace_of (run lcg g_agglom 5 0 (Some 42) (hid 0 (fun _ => 0))) <>
  trace_of (run lcg g_agglom 5 0 (Some 42) (hid 1 (fun _ => 0))).
Proof. vm_compute. intro H. discriminate H. Qed.

(* a seeded function that walks a set of strings *)
Definition g_hash : sgraph := [ [EDrawOwn; EHashIter] ].

Lemma g_hash_not_ok : entry_ok g_hash 0 = false.
Proof. vm_compute. reflexivity. Qed.

Lemma g_hash_depends_on_hash :
  trace_of (run lcg g_hash 5 0 (Some 42) (hid 0 (fun _ => 0))) <>
  trace_of (run lcg g_hash 5 0 (Some 42) (hid 0 (fun _ => 1))).
Proof. vm_compute. intro H. discriminate H. Qed.

(* the repaired "agglom": forwarding the seed makes the check pass, and the trace is a
   function of the seed: different seeds give different traces, same seed the same *)
Definition g_fixed : sgraph :=
  [ [EDrawOwn; ECall 1 PSeed; ECall 2 PDerived; ECall 1 PConst]; [EDrawOwn]; [EDrawOwn; EDrawOwn] ].

Lemma g_fixed_ok : entry_ok g_fixed 0 = true.
Proof. vm_compute. reflexivity. Qed.

Lemma g_fixed_uses_seed :
  trace_of (run lcg g_fixed 5 0 (Some 42) (hid 0 (fun _ => 0))) <>
  trace_of (run lcg g_fixed 5 0 (Some 43) (hid 0 (fun _ => 0))).
Proof. vm_compute. intro H. discriminate H. Qed.

(* OptimalFacts.v -- lemmas about Model/Optimal.v *)
From Coq Require Import ZArith NArith List Bool Lia ZifyBool.
From Ctg Require Import Base Net Optimal.
Import ListNotations.
Open Scope nat_scope.

(* the traced loop computes the same tables as the plain loop *)
Lemma full_pass_tr_fst app szs obj so nt cap st :
  fst (full_pass_tr app szs obj so nt cap st) = full_pass app szs obj so nt cap (fst st).
Proof.
  unfold full_pass_tr, full_pass. revert st.
  induction (seq 2 (nt - 1)) as [|m ms IH]; intros st; cbn [fold_left]; [reflexivity|].
  rewrite IH. reflexivity.
Qed.

Lemma dp_loop_tr_fst app szs obj so nt fuel : forall cap st,
  option_map (fun r => (fst (fst r), snd r)) (dp_loop_tr app szs obj so nt fuel cap st)
  = dp_loop app szs obj so nt fuel cap (fst st).
Proof.
  induction fuel as [|f IH]; intros cap st; cbn [dp_loop_tr dp_loop].
  - destruct (nth nt (fst st) []); reflexivity.
  - destruct (nth nt (fst st) []) eqn:E; [|reflexivity].
    rewrite IH, full_pass_tr_fst. reflexivity.
Qed.

(* ================================================================== *)
(* Part A: the sorted-list machinery computes the set-based definition *)

Definition fm (f : nat -> option nat) (ks : list nat) : legs :=
  flat_map (fun j => match f j with Some c => [(j, c)] | None => [] end) ks.
Definition ounion (a b : option nat) : option nat :=
  match a, b with
  | Some x, Some y => Some (x + y)
  | Some x, None => Some x
  | None, Some y => Some y
  | None, None => None
  end.
Definition oboth (a b : option nat) : bool :=
  match a, b with Some _, Some _ => true | _, _ => false end.
Definition lbound (j : nat) (l : legs) : Prop := Forall (fun kv => j < fst kv) l.

Lemma fm_cons f j ks :
  fm f (j :: ks) = match f j with Some c => (j, c) :: fm f ks | None => fm f ks end.
Proof. unfold fm; cbn [flat_map]. destruct (f j); reflexivity. Qed.

Lemma fm_lbound f len : forall lo j, j < lo -> lbound j (fm f (seq lo len)).
Proof.
  induction len as [|len IH]; intros lo j Hj; cbn [seq].
  - constructor.
  - rewrite fm_cons. destruct (f lo).
    + constructor; [cbn; lia | apply IH; lia].
    + apply IH; lia.
Qed.

Lemma fm_ext f g ks : (forall j, In j ks -> f j = g j) -> fm f ks = fm g ks.
Proof.
  induction ks as [|k ks IH]; intros H; [reflexivity|].
  rewrite !fm_cons, (H k (or_introl eq_refl)), IH; [reflexivity|].
  intros j Hj; apply H; right; exact Hj.
Qed.

Lemma merge_nil_r a : merge_legs a [] = (a, false).
Proof. destruct a as [|[ia ca] a']; reflexivity. Qed.

Lemma merge_cons_cons ia ca a' jb cb b' :
  merge_legs ((ia, ca) :: a') ((jb, cb) :: b') =
  if ia <? jb then let r := merge_legs a' ((jb, cb) :: b') in ((ia, ca) :: fst r, snd r)
  else if jb <? ia then let r := merge_legs ((ia, ca) :: a') b' in ((jb, cb) :: fst r, snd r)
  else let r := merge_legs a' b' in ((ia, ca + cb) :: fst r, true).
Proof. reflexivity. Qed.

Lemma merge_head_l j c a' b : lbound j b ->
  merge_legs ((j, c) :: a') b = ((j, c) :: fst (merge_legs a' b), snd (merge_legs a' b)).
Proof.
  intros Hb. destruct b as [|[jb cb] b'].
  - rewrite !merge_nil_r. reflexivity.
  - rewrite merge_cons_cons. inversion Hb as [|? ? H1 H2]; subst. cbn [fst] in H1.
    destruct (j <? jb) eqn:E; [reflexivity|]. apply Nat.ltb_ge in E. lia.
Qed.

Lemma merge_head_r j c a b' : lbound j a ->
  merge_legs a ((j, c) :: b') = ((j, c) :: fst (merge_legs a b'), snd (merge_legs a b')).
Proof.
  intros Ha. destruct a as [|[ia ca] a'].
  - reflexivity.
  - rewrite merge_cons_cons. inversion Ha as [|? ? H1 H2]; subst. cbn [fst] in H1.
    destruct (ia <? j) eqn:E; [apply Nat.ltb_lt in E; lia|].
    destruct (j <? ia) eqn:E2; [reflexivity|]. apply Nat.ltb_ge in E2. lia.
Qed.

Lemma merge_head_eq j ca cb a' b' :
  merge_legs ((j, ca) :: a') ((j, cb) :: b') = ((j, ca + cb) :: fst (merge_legs a' b'), true).
Proof. rewrite merge_cons_cons, Nat.ltb_irrefl. reflexivity. Qed.

Lemma merge_fm f g len : forall lo,
  merge_legs (fm f (seq lo len)) (fm g (seq lo len)) =
  (fm (fun j => ounion (f j) (g j)) (seq lo len),
   existsb (fun j => oboth (f j) (g j)) (seq lo len)).
Proof.
  induction len as [|len IH]; intros lo; cbn [seq].
  - reflexivity.
  - rewrite !fm_cons. cbn [existsb]. specialize (IH (S lo)).
    destruct (f lo) as [c1|], (g lo) as [c2|]; cbn [ounion oboth orb].
    + rewrite merge_head_eq, IH. reflexivity.
    + rewrite merge_head_l by (apply fm_lbound; lia). rewrite IH. reflexivity.
    + rewrite merge_head_r by (apply fm_lbound; lia). rewrite IH. reflexivity.
    + exact IH.
Qed.

Lemma existsb_ext_in {A} (f g : A -> bool) l : (forall x, In x l -> f x = g x) -> existsb f l = existsb g l.
Proof.
  induction l as [|x l IH]; intros H; [reflexivity|]. cbn [existsb].
  rewrite (H x (or_introl eq_refl)), IH; [reflexivity|]. intros y Hy; apply H; right; exact Hy.
Qed.

Section PartA.
Variable nodes : list legs.
Variable app : list nat.
Variable szs : list Z.
Notation cnt := (cnt nodes).
Notation surv := (surv nodes app).
Notation legs_of := (legs_of nodes app).
Notation nix := (length app).

Definition dimsw (f : nat -> bool) (ks : list nat) : Z :=
  fold_right (fun j a => if f j then (szn szs j * a)%Z else a) 1%Z ks.

Lemma dimsw_ext f g ks : (forall j, In j ks -> f j = g j) -> dimsw f ks = dimsw g ks.
Proof.
  induction ks as [|k ks IH]; intros H; [reflexivity|]. cbn [dimsw fold_right].
  rewrite (H k (or_introl eq_refl)). fold (dimsw f ks) (dimsw g ks). rewrite IH; [reflexivity|].
  intros j Hj; apply H; right; exact Hj.
Qed.

Lemma scan_cons kv tl :
  scan app szs (kv :: tl) =
  let acc := scan app szs tl in
  let d := szn szs (fst kv) in
  if Nat.eqb (snd kv) (appn app (fst kv))
  then (fst acc, ((fst (snd acc) * d)%Z, snd (snd acc)))
  else (kv :: fst acc, ((fst (snd acc) * d)%Z, (snd (snd acc) * d)%Z)).
Proof. reflexivity. Qed.

Lemma scan_fm h ks :
  scan app szs (fm h ks) =
  (fm (fun j => match h j with
                | Some c => if Nat.eqb c (appn app j) then None else Some c
                | None => None end) ks,
   (dimsw (fun j => match h j with Some _ => true | None => false end) ks,
    dimsw (fun j => match h j with Some c => negb (Nat.eqb c (appn app j)) | None => false end) ks)).
Proof.
  induction ks as [|k ks IH]; [reflexivity|].
  rewrite !fm_cons. cbn [dimsw fold_right].
  fold (dimsw (fun j => match h j with Some _ => true | None => false end) ks).
  fold (dimsw (fun j => match h j with Some c => negb (Nat.eqb c (appn app j)) | None => false end) ks).
  destruct (h k) as [c|].
  - rewrite scan_cons, IH. cbn [fst snd].
    destruct (Nat.eqb c (appn app k)); cbn [negb]; rewrite !(Z.mul_comm (szn szs k)); reflexivity.
  - exact IH.
Qed.

Lemma cnt_lor S1 S2 j : N.land S1 S2 = 0%N -> cnt (N.lor S1 S2) j = cnt S1 j + cnt S2 j.
Proof.
  intros Hd. unfold Optimal.cnt.
  induction (seq 0 (length nodes)) as [|i is IH]; [reflexivity|].
  cbn [fold_right]. rewrite IH, N.lor_spec.
  assert (Hb : N.testbit S1 (N.of_nat i) && N.testbit S2 (N.of_nat i) = false).
  { rewrite <- N.land_spec, Hd. apply N.bits_0. }
  destruct (N.testbit S1 (N.of_nat i)), (N.testbit S2 (N.of_nat i)); cbn in *; try discriminate; lia.
Qed.

Lemma cnt_le_all S j : cnt S j <= cnt_all nodes j.
Proof.
  unfold Optimal.cnt, cnt_all.
  induction (seq 0 (length nodes)) as [|i is IH]; [apply le_n|].
  cbn [fold_right]. destruct (N.testbit S (N.of_nat i)); lia.
Qed.

Definition hS (S : N) (j : nat) : option nat := if surv S j then Some (cnt S j) else None.

Lemma legs_of_fm S : legs_of S = fm (hS S) (seq 0 nix).
Proof.
  unfold Optimal.legs_of, fm, hS. apply flat_map_ext. intros j. destruct (surv S j); reflexivity.
Qed.

Hypothesis Happ : forall j, j < nix -> cnt_all nodes j <= appn app j.

Ltac ltb_cases :=
  repeat match goal with
         | |- context [Nat.ltb ?x ?y] => destruct (Nat.ltb_spec x y)
         | |- context [Nat.eqb ?x ?y] => destruct (Nat.eqb_spec x y)
         end; cbn; try reflexivity; try lia; try (f_equal; lia);
  repeat match goal with
         | |- context [Nat.eqb ?x ?y] => destruct (Nat.eqb_spec x y)
         end; cbn; try reflexivity; try lia; try (f_equal; lia).

Lemma pointwise S1 S2 j : N.land S1 S2 = 0%N -> j < nix ->
  let h := ounion (hS S1 j) (hS S2 j) in
  (match h with Some c => if Nat.eqb c (appn app j) then None else Some c | None => None end)
    = hS (N.lor S1 S2) j
  /\ (match h with Some _ => true | None => false end) = (surv S1 j || surv S2 j)
  /\ (match h with Some c => negb (Nat.eqb c (appn app j)) | None => false end) = surv (N.lor S1 S2) j
  /\ oboth (hS S1 j) (hS S2 j) = (surv S1 j && surv S2 j).
Proof.
  intros Hd Hj.
  assert (Hle : cnt S1 j + cnt S2 j <= appn app j).
  { rewrite <- cnt_lor by exact Hd. etransitivity; [apply cnt_le_all | apply Happ, Hj]. }
  unfold hS, Optimal.surv. rewrite (cnt_lor S1 S2 j Hd).
  set (c1 := cnt S1 j) in *. set (c2 := cnt S2 j) in *. set (a := appn app j) in *.
  cbv zeta.
  repeat split; ltb_cases.
Qed.

Lemma scan_merged S1 S2 : N.land S1 S2 = 0%N ->
  let m := merge_legs (legs_of S1) (legs_of S2) in
  snd m = shares nodes app S1 S2 /\
  scan app szs (fst m) = (legs_of (N.lor S1 S2), (step_flops nodes app szs S1 S2, step_size nodes app szs S1 S2)).
Proof.
  intros Hd. cbv zeta. rewrite !legs_of_fm, merge_fm. cbn [fst snd]. split.
  - unfold shares. apply existsb_ext_in. intros j Hj. apply in_seq in Hj.
    apply (pointwise S1 S2 j Hd). lia.
  - rewrite scan_fm. unfold step_flops, step_size, dims_where.
    fold (dimsw (fun j => surv S1 j || surv S2 j) (seq 0 nix)).
    fold (dimsw (surv (N.lor S1 S2)) (seq 0 nix)).
    f_equal; [|f_equal].
    + apply fm_ext. intros j Hj. apply in_seq in Hj. apply (pointwise S1 S2 j Hd). lia.
    + apply dimsw_ext. intros j Hj. apply in_seq in Hj. apply (pointwise S1 S2 j Hd). lia.
    + apply dimsw_ext. intros j Hj. apply in_seq in Hj. apply (pointwise S1 S2 j Hd). lia.
Qed.

(* the six cost functions compute the objective's definition *)
Lemma con_cost_spec o S1 S2 a b : N.land S1 S2 = 0%N ->
  con_cost app szs o (fst (merge_legs (legs_of S1) (legs_of S2))) a b =
  (legs_of (N.lor S1 S2), combine_sc o a b (step_cost nodes app szs o S1 S2)).
Proof.
  intros Hd. unfold con_cost. destruct (scan_merged S1 S2 Hd) as [_ Hs]. rewrite Hs. cbn [fst snd].
  destruct o; reflexivity.
Qed.

Lemma merge_shares S1 S2 : N.land S1 S2 = 0%N ->
  snd (merge_legs (legs_of S1) (legs_of S2)) = shares nodes app S1 S2.
Proof. intros Hd. apply (scan_merged S1 S2 Hd). Qed.

End PartA.

(* OptimalFacts.v -- lemmas about Model/Optimal.v *)
From Coq Require Import ZArith NArith List Bool Lia ZifyBool.
From Ctg Require Import Base Net Optimal.
Import ListNotations.
Open Scope nat_scope.

(* the traced loop computes the same tables as the plain loop *)
Lemma full_pass_tr_fst app szs obj so nt cap st :
  fst (full_pass_tr app szs obj so nt cap st) = full_pass app szs obj so nt cap (fst st).
Proof.
  unfold full_pass_tr, full_pass. revert st.
  induction (seq 2 (nt - 1)) as [|m ms IH]; intros st; cbn [fold_left]; [reflexivity|].
  rewrite IH. reflexivity.
Qed.

Lemma dp_loop_tr_fst app szs obj so nt fuel : forall cap st,
  option_map (fun r => (fst (fst r), snd r)) (dp_loop_tr app szs obj so nt fuel cap st)
  = dp_loop app szs obj so nt fuel cap (fst st).
Proof.
  induction fuel as [|f IH]; intros cap st; cbn [dp_loop_tr dp_loop].
  - destruct (nth nt (fst st) []); reflexivity.
  - destruct (nth nt (fst st) []) eqn:E; [|reflexivity].
    rewrite IH, full_pass_tr_fst. reflexivity.
Qed.

(* OptimalFacts.v -- lemmas about Model/Optimal.v *)
From Coq Require Import ZArith NArith List Bool Lia ZifyBool Permutation.
From Ctg Require Import Base Net Optimal.
Import ListNotations.
Open Scope nat_scope.

(* the traced loop computes the same tables as the plain loop *)
Lemma full_pass_tr_fst app szs obj so nt cap st :
  fst (full_pass_tr app szs obj so nt cap st) = full_pass app szs obj so nt cap (fst st).
Proof.
  unfold full_pass_tr, full_pass. revert st.
  induction (seq 2 (nt - 1)) as [|m ms IH]; intros st; cbn [fold_left]; [reflexivity|].
  rewrite IH. reflexivity.
Qed.

Lemma dp_loop_tr_fst app szs obj so nt fuel : forall cap st,
  option_map (fun r => (fst (fst r), snd r)) (dp_loop_tr app szs obj so nt fuel cap st)
  = dp_loop app szs obj so nt fuel cap (fst st).
Proof.
  induction fuel as [|f IH]; intros cap st; cbn [dp_loop_tr dp_loop].
  - destruct (nth nt (fst st) []); reflexivity.
  - destruct (nth nt (fst st) []) eqn:E; [|reflexivity].
    rewrite IH, full_pass_tr_fst. reflexivity.
Qed.

(* ================================================================== *)
(* Part A: the sorted-list machinery computes the set-based definition *)

Definition fm (f : nat -> option nat) (ks : list nat) : legs :=
  flat_map (fun j => match f j with Some c => [(j, c)] | None => [] end) ks.
Definition ounion (a b : option nat) : option nat :=
  match a, b with
  | Some x, Some y => Some (x + y)
  | Some x, None => Some x
  | None, Some y => Some y
  | None, None => None
  end.
Definition oboth (a b : option nat) : bool :=
  match a, b with Some _, Some _ => true | _, _ => false end.
Definition lbound (j : nat) (l : legs) : Prop := Forall (fun kv => j < fst kv) l.

Lemma fm_cons f j ks :
  fm f (j :: ks) = match f j with Some c => (j, c) :: fm f ks | None => fm f ks end.
Proof. unfold fm; cbn [flat_map]. destruct (f j); reflexivity. Qed.

Lemma fm_lbound f len : forall lo j, j < lo -> lbound j (fm f (seq lo len)).
Proof.
  induction len as [|len IH]; intros lo j Hj; cbn [seq].
  - constructor.
  - rewrite fm_cons. destruct (f lo).
    + constructor; [cbn; lia | apply IH; lia].
    + apply IH; lia.
Qed.

Lemma fm_ext f g ks : (forall j, In j ks -> f j = g j) -> fm f ks = fm g ks.
Proof.
  induction ks as [|k ks IH]; intros H; [reflexivity|].
  rewrite !fm_cons, (H k (or_introl eq_refl)), IH; [reflexivity|].
  intros j Hj; apply H; right; exact Hj.
Qed.

Lemma merge_nil_r a : merge_legs a [] = (a, false).
Proof. destruct a as [|[ia ca] a']; reflexivity. Qed.

Lemma merge_cons_cons ia ca a' jb cb b' :
  merge_legs ((ia, ca) :: a') ((jb, cb) :: b') =
  if ia <? jb then let r := merge_legs a' ((jb, cb) :: b') in ((ia, ca) :: fst r, snd r)
  else if jb <? ia then let r := merge_legs ((ia, ca) :: a') b' in ((jb, cb) :: fst r, snd r)
  else let r := merge_legs a' b' in ((ia, ca + cb) :: fst r, true).
Proof. reflexivity. Qed.

Lemma merge_head_l j c a' b : lbound j b ->
  merge_legs ((j, c) :: a') b = ((j, c) :: fst (merge_legs a' b), snd (merge_legs a' b)).
Proof.
  intros Hb. destruct b as [|[jb cb] b'].
  - rewrite !merge_nil_r. reflexivity.
  - rewrite merge_cons_cons. inversion Hb as [|? ? H1 H2]; subst. cbn [fst] in H1.
    destruct (j <? jb) eqn:E; [reflexivity|]. apply Nat.ltb_ge in E. lia.
Qed.

Lemma merge_head_r j c a b' : lbound j a ->
  merge_legs a ((j, c) :: b') = ((j, c) :: fst (merge_legs a b'), snd (merge_legs a b')).
Proof.
  intros Ha. destruct a as [|[ia ca] a'].
  - reflexivity.
  - rewrite merge_cons_cons. inversion Ha as [|? ? H1 H2]; subst. cbn [fst] in H1.
    destruct (ia <? j) eqn:E; [apply Nat.ltb_lt in E; lia|].
    destruct (j <? ia) eqn:E2; [reflexivity|]. apply Nat.ltb_ge in E2. lia.
Qed.

Lemma merge_head_eq j ca cb a' b' :
  merge_legs ((j, ca) :: a') ((j, cb) :: b') = ((j, ca + cb) :: fst (merge_legs a' b'), true).
Proof. rewrite merge_cons_cons, Nat.ltb_irrefl. reflexivity. Qed.

Lemma merge_fm f g len : forall lo,
  merge_legs (fm f (seq lo len)) (fm g (seq lo len)) =
  (fm (fun j => ounion (f j) (g j)) (seq lo len),
   existsb (fun j => oboth (f j) (g j)) (seq lo len)).
Proof.
  induction len as [|len IH]; intros lo; cbn [seq].
  - reflexivity.
  - rewrite !fm_cons. cbn [existsb]. specialize (IH (S lo)).
    destruct (f lo) as [c1|], (g lo) as [c2|]; cbn [ounion oboth orb].
    + rewrite merge_head_eq, IH. reflexivity.
    + rewrite merge_head_l by (apply fm_lbound; lia). rewrite IH. reflexivity.
    + rewrite merge_head_r by (apply fm_lbound; lia). rewrite IH. reflexivity.
    + exact IH.
Qed.

Lemma existsb_ext_in {A} (f g : A -> bool) l : (forall x, In x l -> f x = g x) -> existsb f l = existsb g l.
Proof.
  induction l as [|x l IH]; intros H; [reflexivity|]. cbn [existsb].
  rewrite (H x (or_introl eq_refl)), IH; [reflexivity|]. intros y Hy; apply H; right; exact Hy.
Qed.

Section PartA.
Variable nodes : list legs.
Variable app : list nat.
Variable szs : list Z.
Notation cnt := (cnt nodes).
Notation surv := (surv nodes app).
Notation legs_of := (legs_of nodes app).
Notation nix := (length app).

Definition dimsw (f : nat -> bool) (ks : list nat) : Z :=
  fold_right (fun j a => if f j then (szn szs j * a)%Z else a) 1%Z ks.

Lemma dimsw_ext f g ks : (forall j, In j ks -> f j = g j) -> dimsw f ks = dimsw g ks.
Proof.
  induction ks as [|k ks IH]; intros H; [reflexivity|]. cbn [dimsw fold_right].
  rewrite (H k (or_introl eq_refl)). fold (dimsw f ks) (dimsw g ks). rewrite IH; [reflexivity|].
  intros j Hj; apply H; right; exact Hj.
Qed.

Lemma scan_cons kv tl :
  scan app szs (kv :: tl) =
  let acc := scan app szs tl in
  let d := szn szs (fst kv) in
  if Nat.eqb (snd kv) (appn app (fst kv))
  then (fst acc, ((fst (snd acc) * d)%Z, snd (snd acc)))
  else (kv :: fst acc, ((fst (snd acc) * d)%Z, (snd (snd acc) * d)%Z)).
Proof. reflexivity. Qed.

Lemma scan_fm h ks :
  scan app szs (fm h ks) =
  (fm (fun j => match h j with
                | Some c => if Nat.eqb c (appn app j) then None else Some c
                | None => None end) ks,
   (dimsw (fun j => match h j with Some _ => true | None => false end) ks,
    dimsw (fun j => match h j with Some c => negb (Nat.eqb c (appn app j)) | None => false end) ks)).
Proof.
  induction ks as [|k ks IH]; [reflexivity|].
  rewrite !fm_cons. cbn [dimsw fold_right].
  fold (dimsw (fun j => match h j with Some _ => true | None => false end) ks).
  fold (dimsw (fun j => match h j with Some c => negb (Nat.eqb c (appn app j)) | None => false end) ks).
  destruct (h k) as [c|].
  - rewrite scan_cons, IH. cbn [fst snd].
    destruct (Nat.eqb c (appn app k)); cbn [negb]; rewrite !(Z.mul_comm (szn szs k)); reflexivity.
  - exact IH.
Qed.

Lemma cnt_lor S1 S2 j : N.land S1 S2 = 0%N -> cnt (N.lor S1 S2) j = cnt S1 j + cnt S2 j.
Proof.
  intros Hd. unfold Optimal.cnt.
  induction (seq 0 (length nodes)) as [|i is IH]; [reflexivity|].
  cbn [fold_right]. rewrite IH, N.lor_spec.
  assert (Hb : N.testbit S1 (N.of_nat i) && N.testbit S2 (N.of_nat i) = false).
  { rewrite <- N.land_spec, Hd. apply N.bits_0. }
  destruct (N.testbit S1 (N.of_nat i)), (N.testbit S2 (N.of_nat i)); cbn in *; try discriminate; lia.
Qed.

Lemma cnt_le_all S j : cnt S j <= cnt_all nodes j.
Proof.
  unfold Optimal.cnt, cnt_all.
  induction (seq 0 (length nodes)) as [|i is IH]; [apply le_n|].
  cbn [fold_right]. destruct (N.testbit S (N.of_nat i)); lia.
Qed.

Definition hS (S : N) (j : nat) : option nat := if surv S j then Some (cnt S j) else None.

Lemma legs_of_fm S : legs_of S = fm (hS S) (seq 0 nix).
Proof.
  unfold Optimal.legs_of, fm, hS. apply flat_map_ext. intros j. destruct (surv S j); reflexivity.
Qed.

Hypothesis Happ : forall j, j < nix -> cnt_all nodes j <= appn app j.

Ltac ltb_cases :=
  repeat match goal with
         | |- context [Nat.ltb ?x ?y] => destruct (Nat.ltb_spec x y)
         | |- context [Nat.eqb ?x ?y] => destruct (Nat.eqb_spec x y)
         end; cbn; try reflexivity; try lia; try (f_equal; lia);
  repeat match goal with
         | |- context [Nat.eqb ?x ?y] => destruct (Nat.eqb_spec x y)
         end; cbn; try reflexivity; try lia; try (f_equal; lia).

Lemma pointwise S1 S2 j : N.land S1 S2 = 0%N -> j < nix ->
  let h := ounion (hS S1 j) (hS S2 j) in
  (match h with Some c => if Nat.eqb c (appn app j) then None else Some c | None => None end)
    = hS (N.lor S1 S2) j
  /\ (match h with Some _ => true | None => false end) = (surv S1 j || surv S2 j)
  /\ (match h with Some c => negb (Nat.eqb c (appn app j)) | None => false end) = surv (N.lor S1 S2) j
  /\ oboth (hS S1 j) (hS S2 j) = (surv S1 j && surv S2 j).
Proof.
  intros Hd Hj.
  assert (Hle : cnt S1 j + cnt S2 j <= appn app j).
  { rewrite <- cnt_lor by exact Hd. etransitivity; [apply cnt_le_all | apply Happ, Hj]. }
  unfold hS, Optimal.surv. rewrite (cnt_lor S1 S2 j Hd).
  set (c1 := cnt S1 j) in *. set (c2 := cnt S2 j) in *. set (a := appn app j) in *.
  cbv zeta.
  repeat split; ltb_cases.
Qed.

Lemma scan_merged S1 S2 : N.land S1 S2 = 0%N ->
  let m := merge_legs (legs_of S1) (legs_of S2) in
  snd m = shares nodes app S1 S2 /\
  scan app szs (fst m) = (legs_of (N.lor S1 S2), (step_flops nodes app szs S1 S2, step_size nodes app szs S1 S2)).
Proof.
  intros Hd. cbv zeta. rewrite !legs_of_fm, merge_fm. cbn [fst snd]. split.
  - unfold shares. apply existsb_ext_in. intros j Hj. apply in_seq in Hj.
    apply (pointwise S1 S2 j Hd). lia.
  - rewrite scan_fm. unfold step_flops, step_size, dims_where.
    fold (dimsw (fun j => surv S1 j || surv S2 j) (seq 0 nix)).
    fold (dimsw (surv (N.lor S1 S2)) (seq 0 nix)).
    f_equal; [|f_equal].
    + apply fm_ext. intros j Hj. apply in_seq in Hj. apply (pointwise S1 S2 j Hd). lia.
    + apply dimsw_ext. intros j Hj. apply in_seq in Hj. apply (pointwise S1 S2 j Hd). lia.
    + apply dimsw_ext. intros j Hj. apply in_seq in Hj. apply (pointwise S1 S2 j Hd). lia.
Qed.

(* the six cost functions compute the objective's definition *)
Lemma con_cost_spec o S1 S2 a b : N.land S1 S2 = 0%N ->
  con_cost app szs o (fst (merge_legs (legs_of S1) (legs_of S2))) a b =
  (legs_of (N.lor S1 S2), combine_sc o a b (step_cost nodes app szs o S1 S2)).
Proof.
  intros Hd. unfold con_cost. destruct (scan_merged S1 S2 Hd) as [_ Hs]. rewrite Hs. cbn [fst snd].
  destruct o; reflexivity.
Qed.

Lemma merge_shares S1 S2 : N.land S1 S2 = 0%N ->
  snd (merge_legs (legs_of S1) (legs_of S2)) = shares nodes app S1 S2.
Proof. intros Hd. apply (scan_merged S1 S2 Hd). Qed.

End PartA.

(* ================================================================== *)
(* Part B: generic list / table lemmas *)

Lemma tget_In s t e : tget s t = Some e -> In (s, e) t.
Proof.
  induction t as [|[k w] t IH]; cbn [tget]; [discriminate|].
  destruct (N.eqb_spec k s) as [->|Hne]; intros H.
  - inversion H; subst. left; reflexivity.
  - right; apply IH, H.
Qed.

Lemma In_tset x s e t : In x (tset s e t) -> x = (s, e) \/ In x t.
Proof.
  induction t as [|[k w] t IH]; cbn [tset].
  - intros [H|[]]; left; symmetry; exact H.
  - destruct (N.eqb_spec k s) as [->|Hne]; intros [H|H].
    + left; symmetry; exact H.
    + right; right; exact H.
    + right; left; exact H.
    + destruct (IH H) as [H1|H1]; [left; exact H1 | right; right; exact H1].
Qed.

Lemma tset_In s e t : In (s, e) (tset s e t).
Proof.
  induction t as [|[k w] t IH]; cbn [tset]; [left; reflexivity|].
  destruct (N.eqb_spec k s) as [->|Hne]; [left; reflexivity | right; exact IH].
Qed.

Lemma tset_preserve x s e t : In x t ->
  In x (tset s e t) \/ (tget s t = Some (snd x) /\ fst x = s).
Proof.
  induction t as [|[k w] t IH]; [intros []|].
  cbn [tset tget]. destruct (N.eqb_spec k s) as [->|Hne]; intros [H|H].
  - right. subst x. split; reflexivity.
  - left; right; exact H.
  - left; left; exact H.
  - destruct (IH H) as [H1|H1]; [left; right; exact H1 | right; exact H1].
Qed.

Lemma fold_left_inv {A B} (f : A -> B -> A) (P : A -> Prop) l :
  (forall a b, In b l -> P a -> P (f a b)) -> forall a, P a -> P (fold_left f l a).
Proof.
  induction l as [|b l IH]; intros H a Ha; [exact Ha|]. cbn [fold_left].
  apply IH; [intros a' b' Hb'; apply H; right; exact Hb' | apply H; [left; reflexivity | exact Ha]].
Qed.

Lemma fold_establish {A B} (f : A -> B -> A) (P : A -> Prop) l p :
  In p l -> (forall a, P (f a p)) -> (forall a q, P a -> P (f a q)) ->
  forall a, P (fold_left f l a).
Proof.
  intros Hin He Hp. induction l as [|b l IH]; [destruct Hin|]. intros a. cbn [fold_left].
  destruct Hin as [->|Hin].
  - apply fold_left_inv; [intros; apply Hp; assumption | apply He].
  - apply IH, Hin.
Qed.

Lemma in_product2 {A B} (l1 : list A) (l2 : list B) a b :
  In (a, b) (product2 l1 l2) <-> In a l1 /\ In b l2.
Proof.
  unfold product2. rewrite in_flat_map. split.
  - intros [x [Hx H]]. apply in_map_iff in H. destruct H as [y [E Hy]]. inversion E; subst. tauto.
  - intros [Ha Hb]. exists a. split; [exact Ha|]. apply in_map. exact Hb.
Qed.

Lemma in_combs2 {A} (l : list A) a b : In (a, b) (combs2 l) -> In a l /\ In b l.
Proof.
  induction l as [|x l IH]; [intros []|]. cbn [combs2]. rewrite in_app_iff. intros [H|H].
  - apply in_map_iff in H. destruct H as [y [E Hy]]. inversion E; subst. split; [left|right]; tauto.
  - destruct (IH H). split; right; assumption.
Qed.

Lemma combs2_complete {A} (l : list A) a b : In a l -> In b l -> a <> b ->
  In (a, b) (combs2 l) \/ In (b, a) (combs2 l).
Proof.
  induction l as [|x l IH]; [intros []|]. cbn [combs2]. intros [Ha|Ha] [Hb|Hb] Hne.
  - subst. contradiction.
  - subst. left. apply in_app_iff. left. apply in_map. exact Hb.
  - subst. right. apply in_app_iff. left. apply in_map. exact Ha.
  - destruct (IH Ha Hb Hne) as [H|H]; [left|right]; apply in_app_iff; right; exact H.
Qed.

Lemma set_nth_length {A} (x : A) l : forall k, length (set_nth k x l) = length l.
Proof. induction l as [|y l IH]; intros [|k]; cbn; try reflexivity. rewrite IH. reflexivity. Qed.

Lemma nth_set_nth_same {A} (x d : A) l : forall k, k < length l -> nth k (set_nth k x l) d = x.
Proof.
  induction l as [|y l IH]; intros [|k] H; cbn in *; try lia; [reflexivity|]. apply IH. lia.
Qed.

Lemma nth_set_nth_other {A} (x d : A) l : forall k k', k' <> k -> nth k' (set_nth k x l) d = nth k' l d.
Proof.
  induction l as [|y l IH]; intros [|k] [|k'] H; cbn; try reflexivity; try lia. apply IH. lia.
Qed.

Lemma nth_set_nth_cases {A} (x d : A) l k k' :
  nth k' (set_nth k x l) d = nth k' l d \/ (k' = k /\ nth k' (set_nth k x l) d = x).
Proof.
  destruct (Nat.eq_dec k' k) as [->|Hne].
  - destruct (Nat.lt_ge_cases k (length l)) as [Hlt|Hge].
    + right. split; [reflexivity | apply nth_set_nth_same, Hlt].
    + left. rewrite !nth_overflow; [reflexivity | lia | rewrite set_nth_length; lia].
  - left. apply nth_set_nth_other, Hne.
Qed.

Lemma in_combine_seq {A} (l : list A) d : forall a i x,
  In (i, x) (combine (seq a (length l)) l) <-> a <= i < a + length l /\ x = nth (i - a) l d.
Proof.
  induction l as [|y l IH]; intros a i x; cbn [length seq combine].
  - split; [intros [] | lia].
  - cbn [In]. rewrite IH. split.
    + intros [H|[H1 H2]].
      * inversion H; subst. split; [lia|]. rewrite Nat.sub_diag. reflexivity.
      * split; [lia|]. subst x. replace (i - a) with (S (i - S a)) by lia. reflexivity.
    + intros [H1 H2]. destruct (Nat.eq_dec i a) as [->|Hne].
      * left. subst x. rewrite Nat.sub_diag. reflexivity.
      * right. split; [lia|]. subst x. replace (i - a) with (S (i - S a)) by lia. reflexivity.
Qed.

(* ================================================================== *)
(* the algebra of the objectives *)

Lemma combine_sym o a b s : combine_sc o a b s = combine_sc o b a s.
Proof. destruct o; unfold combine_sc, zmax3; lia. Qed.

Lemma combine_mono o a a' b b' s : (a <= a')%Z -> (b <= b')%Z ->
  (combine_sc o a b s <= combine_sc o a' b' s)%Z.
Proof. intros; destruct o; unfold combine_sc, zmax3; lia. Qed.

Lemma combine_ge o a b s : (0 <= a)%Z -> (0 <= b)%Z -> (0 <= s)%Z ->
  (a <= combine_sc o a b s /\ b <= combine_sc o a b s /\ 0 <= combine_sc o a b s)%Z.
Proof. intros; destruct o; unfold combine_sc, zmax3; lia. Qed.

Lemma vtree_mask n t S : vtree n t S -> mask t = S.
Proof. induction 1; cbn [mask]; congruence. Qed.

Lemma bit_neq_0 i : bit i <> 0%N.
Proof. unfold bit. intros H. apply N.shiftl_eq_0_iff in H. discriminate. Qed.

Lemma vtree_nonzero n t S : vtree n t S -> S <> 0%N.
Proof.
  induction 1; [apply bit_neq_0|]. intros H2. apply N.lor_eq_0_iff in H2. tauto.
Qed.

Lemma vtree_nleaves_pos n t S : vtree n t S -> 1 <= nleaves t.
Proof. induction 1; cbn [nleaves]; lia. Qed.

Section Algebra.
Variable nodes : list legs.
Variable app : list nat.
Variable szs : list Z.
Hypothesis Hsz : forall j, j < length app -> (0 <= szn szs j)%Z.

Lemma dimsw_nonneg f ks : (forall j, In j ks -> j < length app) -> (0 <= dimsw szs f ks)%Z.
Proof.
  induction ks as [|k ks IH]; intros H; cbn [dimsw fold_right]; [lia|].
  fold (dimsw szs f ks).
  assert (0 <= dimsw szs f ks)%Z by (apply IH; intros j Hj; apply H; right; exact Hj).
  destruct (f k); [|assumption].
  apply Z.mul_nonneg_nonneg; [apply Hsz, H; left; reflexivity | assumption].
Qed.

Lemma dims_where_nonneg f : (0 <= dims_where app szs f)%Z.
Proof. apply (dimsw_nonneg f). intros j Hj. apply in_seq in Hj. lia. Qed.

Lemma step_cost_nonneg o S1 S2 : obj_ok o -> (0 <= step_cost nodes app szs o S1 S2)%Z.
Proof.
  intros Ho.
  pose proof (dims_where_nonneg (fun j => surv nodes app S1 j || surv nodes app S2 j)) as H1.
  pose proof (dims_where_nonneg (surv nodes app (N.lor S1 S2))) as H2.
  destruct o; cbn [step_cost obj_ok] in *; unfold step_flops, step_size; try assumption.
  - apply Z.add_nonneg_nonneg; [assumption | apply Z.mul_nonneg_nonneg; assumption].
  - lia.
  - destruct Ho as [Hn0 Hd0]. apply Z.add_nonneg_nonneg; apply Z.mul_nonneg_nonneg; assumption.
  - destruct Ho as [Hn0 Hd0].
    assert (0 <= den * dims_where app szs (fun j => surv nodes app S1 j || surv nodes app S2 j))%Z
      by (apply Z.mul_nonneg_nonneg; assumption).
    lia.
Qed.

Lemma tscore_nonneg o t : obj_ok o -> (0 <= tscore nodes app szs o t)%Z.
Proof.
  intros Ho. induction t as [k|l IHl r IHr]; cbn [tscore]; [lia|].
  apply combine_ge; try assumption. apply step_cost_nonneg, Ho.
Qed.

Lemma step_cost_sym o S1 S2 : step_cost nodes app szs o S1 S2 = step_cost nodes app szs o S2 S1.
Proof.
  assert (F : step_flops nodes app szs S1 S2 = step_flops nodes app szs S2 S1).
  { unfold step_flops, dims_where. apply (dimsw_ext szs). intros j _. apply orb_comm. }
  assert (G : step_size nodes app szs S1 S2 = step_size nodes app szs S2 S1).
  { unfold step_size. rewrite N.lor_comm. reflexivity. }
  destruct o; cbn [step_cost]; rewrite ?F, ?G; reflexivity.
Qed.

Lemma shares_sym S1 S2 : shares nodes app S1 S2 = shares nodes app S2 S1.
Proof. unfold shares. apply existsb_ext_in. intros j _. apply andb_comm. Qed.

End Algebra.

(* ================================================================== *)
(* Part B: invariants of the dynamic programme *)
Section PartB.
Variable nodes : list legs.
Variable app : list nat.
Variable szs : list Z.
Variable o : objective.
Variable so : bool.
Notation n := (length nodes).
Hypothesis Hleaf : forall i, i < n -> nth i nodes [] = legs_of nodes app (bit i).
Hypothesis Happ : forall j, j < length app -> cnt_all nodes j <= appn app j.
Hypothesis Hsz : forall j, j < length app -> (0 <= szn szs j)%Z.
Hypothesis Hobj : obj_ok o.

Notation tsc := (tscore nodes app szs o).
Notation adm := (admissible nodes app so).
Notation lof := (legs_of nodes app).
Notation stepc := (step_cost nodes app szs o).
Notation trypair := (try_pair app szs o so).

(* a table entry is the true record of some admissible tree on its subgraph *)
Definition good (m : nat) (x : N * entry) : Prop :=
  exists t, vtree n t (fst x) /\ nleaves t = m /\ adm t = true /\
            e_legs (snd x) = lof (fst x) /\ e_score (snd x) = tsc t /\ e_path (snd x) = bitpath t.

Definition sound (tabs : list table) : Prop := forall m x, In x (nth m tabs []) -> good m x.

Lemma try_pair_cases cap tm p :
  trypair cap tm p = tm \/
  exists tl a b, cand so p = Some (tl, (a, b)) /\
    let r := con_cost app szs o tl a b in
    let s := N.lor (fst (fst p)) (fst (snd p)) in
    let new := (fst r, (snd r, e_path (snd (fst p)) ++ e_path (snd (snd p))
                                 ++ [(fst (fst p), fst (snd p))])) in
    (snd r <= cap)%Z /\ trypair cap tm p = tset s new tm /\
    (tget s tm = None \/ exists cur, tget s tm = Some cur /\ (snd r < e_score cur)%Z).
Proof.
  unfold try_pair. destruct (cand so p) as [[tl [a b]]|]; [|left; reflexivity].
  destruct (Z.gtb_spec (snd (con_cost app szs o tl a b)) cap) as [Hgt|Hle]; [left; reflexivity|].
  destruct (tget (N.lor (fst (fst p)) (fst (snd p))) tm) as [cur|] eqn:Eg.
  - destruct (Z.ltb_spec (snd (con_cost app szs o tl a b)) (e_score cur)) as [Hlt|Hge]; [|left; reflexivity].
    right. exists tl, a, b. split; [reflexivity|]. cbv zeta. split; [exact Hle|]. split; [reflexivity|].
    right. exists cur. split; [reflexivity | exact Hlt].
  - right. exists tl, a, b. split; [reflexivity|]. cbv zeta. split; [exact Hle|]. split; [reflexivity|].
    left; reflexivity.
Qed.

Lemma cand_good a b pi pj : good a pi -> good b pj ->
  forall tl sa sb, cand so (pi, pj) = Some (tl, (sa, sb)) ->
  N.land (fst pi) (fst pj) = 0%N /\ tl = fst (merge_legs (lof (fst pi)) (lof (fst pj))) /\
  (so = true \/ shares nodes app (fst pi) (fst pj) = true) /\
  sa = e_score (snd pi) /\ sb = e_score (snd pj).
Proof.
  intros (ti & _ & _ & _ & Hli & _) (tj & _ & _ & _ & Hlj & _) tl sa sb.
  destruct pi as [si ei], pj as [sj ej]. cbn [fst snd] in *. unfold cand.
  destruct (N.eqb_spec (N.land si sj) 0) as [Hd|Hd]; cbn [negb]; [|discriminate].
  rewrite Hli, Hlj, (merge_shares nodes app szs Happ si sj Hd).
  destruct so; cbn [negb andb].
  - intros H; inversion H; subst. auto.
  - destruct (shares nodes app si sj); cbn [negb]; [|discriminate].
    intros H; inversion H; subst. auto.
Qed.

Lemma cand_some a b pi pj : good a pi -> good b pj ->
  N.land (fst pi) (fst pj) = 0%N -> (so = true \/ shares nodes app (fst pi) (fst pj) = true) ->
  cand so (pi, pj) = Some (fst (merge_legs (lof (fst pi)) (lof (fst pj))),
                           (e_score (snd pi), e_score (snd pj))).
Proof.
  intros (ti & _ & _ & _ & Hli & _) (tj & _ & _ & _ & Hlj & _) Hd Hs.
  destruct pi as [si ei], pj as [sj ej]. cbn [fst snd] in *. unfold cand.
  rewrite Hd. cbn [N.eqb negb]. rewrite Hli, Hlj, (merge_shares nodes app szs Happ si sj Hd).
  destruct Hs as [->| ->]; [reflexivity|]. rewrite andb_false_r. reflexivity.
Qed.

Lemma try_pair_sound cap tm a b pi pj : good a pi -> good b pj ->
  (forall x, In x tm -> good (a + b) x) ->
  forall x, In x (trypair cap tm (pi, pj)) -> good (a + b) x.
Proof.
  intros Hgi Hgj Htm.
  destruct (try_pair_cases cap tm (pi, pj)) as [E|(tl & sa & sb & Hc & H)]; [rewrite E; exact Htm|].
  cbv zeta in H. destruct H as (_ & E & _). rewrite E. intros x Hx.
  apply In_tset in Hx. destruct Hx as [->|Hx]; [|apply Htm, Hx].
  destruct (cand_good a b pi pj Hgi Hgj tl sa sb Hc) as (Hd & -> & Hso & -> & ->).
  destruct Hgi as (ti & Hvi & Hni & Hai & Hli & Hsi & Hpi).
  destruct Hgj as (tj & Hvj & Hnj & Haj & Hlj & Hsj & Hpj).
  cbn [fst snd] in *. exists (Node ti tj). unfold e_legs, e_score, e_path. cbn [fst snd].
  rewrite (con_cost_spec nodes app szs Happ o _ _ _ _ Hd). cbn [fst snd].
  split; [constructor; assumption|]. split; [cbn [nleaves]; congruence|].
  split.
  { unfold admissible in *. cbn [outer_free]. rewrite (vtree_mask _ _ _ Hvi), (vtree_mask _ _ _ Hvj).
    destruct Hso as [->|Hsh]; [reflexivity|]. rewrite Hsh.
    destruct so; [reflexivity|]. cbn [orb] in *. rewrite Hai, Haj. reflexivity. }
  split; [reflexivity|]. split.
  { cbn [tscore]. rewrite (vtree_mask _ _ _ Hvi), (vtree_mask _ _ _ Hvj).
    unfold e_score in Hsi, Hsj. rewrite Hsi, Hsj. reflexivity. }
  cbn [bitpath]. rewrite (vtree_mask _ _ _ Hvi), (vtree_mask _ _ _ Hvj).
  unfold e_path in Hpi, Hpj. rewrite Hpi, Hpj. reflexivity.
Qed.

(* the table holds, for S, an entry of score at most x *)
Definition has (S : N) (x : Z) (tm : table) : Prop := exists e, In (S, e) tm /\ (e_score e <= x)%Z.

Lemma has_preserved S x cap tm p : has S x tm -> has S x (trypair cap tm p).
Proof.
  intros (e & Hin & Hle).
  destruct (try_pair_cases cap tm p) as [E|(tl & sa & sb & Hc & H)]; [rewrite E; exists e; auto|].
  cbv zeta in H. destruct H as (_ & E & Hcur). rewrite E.
  destruct (tset_preserve (S, e) (N.lor (fst (fst p)) (fst (snd p))) (fst (con_cost app szs o tl sa sb),
             (snd (con_cost app szs o tl sa sb),
              e_path (snd (fst p)) ++ e_path (snd (snd p)) ++ [(fst (fst p), fst (snd p))])) tm Hin)
    as [H1|[H1 H2]].
  - exists e. auto.
  - cbn [fst snd] in *. subst S.
    destruct Hcur as [Hn|(cur & Hg & Hlt)]; [congruence|].
    rewrite Hg in H1. inversion H1; subst cur.
    eexists. split; [apply tset_In|]. unfold e_score at 1. cbn [fst snd]. lia.
Qed.

Lemma has_established cap a b pi pj : good a pi -> good b pj ->
  N.land (fst pi) (fst pj) = 0%N -> (so = true \/ shares nodes app (fst pi) (fst pj) = true) ->
  (combine_sc o (e_score (snd pi)) (e_score (snd pj)) (stepc (fst pi) (fst pj)) <= cap)%Z ->
  forall tm, has (N.lor (fst pi) (fst pj))
                 (combine_sc o (e_score (snd pi)) (e_score (snd pj)) (stepc (fst pi) (fst pj)))
                 (trypair cap tm (pi, pj)).
Proof.
  intros Hgi Hgj Hd Hs Hcap tm. unfold try_pair.
  rewrite (cand_some a b pi pj Hgi Hgj Hd Hs).
  rewrite (con_cost_spec nodes app szs Happ o _ _ _ _ Hd). cbn [fst snd].
  set (sc := combine_sc o (e_score (snd pi)) (e_score (snd pj)) (stepc (fst pi) (fst pj))) in *.
  destruct (Z.gtb_spec sc cap) as [Hgt|_]; [lia|].
  destruct (tget (N.lor (fst pi) (fst pj)) tm) as [cur|] eqn:Eg.
  - destruct (Z.ltb_spec sc (e_score cur)) as [Hlt|Hge].
    + eexists. split; [apply tset_In|]. unfold e_score at 1. cbn [fst snd]. lia.
    + exists cur. split; [apply tget_In, Eg | lia].
  - eexists. split; [apply tset_In|]. unfold e_score at 1. cbn [fst snd]. lia.
Qed.

Lemma try_pair_capped cap tm p :
  (forall x, In x tm -> (e_score (snd x) <= cap)%Z) ->
  forall x, In x (trypair cap tm p) -> (e_score (snd x) <= cap)%Z.
Proof.
  intros Htm.
  destruct (try_pair_cases cap tm p) as [E|(tl & sa & sb & Hc & H)]; [rewrite E; exact Htm|].
  cbv zeta in H. destruct H as (Hle & E & _). rewrite E. intros x Hx.
  apply In_tset in Hx. destruct Hx as [->|Hx]; [|apply Htm, Hx]. exact Hle.
Qed.


Lemma has_weaken S x y tm : has S x tm -> (x <= y)%Z -> has S y tm.
Proof. intros (e & H1 & H2) H. exists e. split; [exact H1 | lia]. Qed.

Lemma fold2_establish {A K B} (f : A -> B -> A) (pairs : K -> list B) (P : A -> Prop) ks k p :
  In k ks -> In p (pairs k) -> (forall a, P (f a p)) -> (forall a q, P a -> P (f a q)) ->
  forall a, P (fold_left (fun tm k => fold_left f (pairs k) tm) ks a).
Proof.
  intros Hk Hp He Hpres.
  apply (fold_establish (fun tm k => fold_left f (pairs k) tm) P ks k Hk).
  - apply (fold_establish f P (pairs k) p Hp He Hpres).
  - intros a k' Ha. apply fold_left_inv; [intros; apply Hpres; assumption | exact Ha].
Qed.

Lemma pairs_for_in tabs m k p : In p (pairs_for tabs m k) ->
  In (fst p) (nth k tabs []) /\ In (snd p) (nth (m - k) tabs []).
Proof.
  unfold pairs_for. destruct p as [pi pj]. cbn [fst snd].
  destruct (Nat.eqb_spec k (m - k)) as [E|E]; cbn [negb].
  - intros H. apply in_combs2 in H. rewrite <- E. exact H.
  - apply in_product2.
Qed.

Lemma half_bound m k : In k (seq 1 (m / 2)) -> 1 <= k /\ k + k <= m.
Proof.
  intros H. apply in_seq in H. split; [lia|].
  pose proof (Nat.mul_div_le m 2). lia.
Qed.

Lemma level_pass_sound cap tabs m : sound tabs -> sound (level_pass app szs o so cap tabs m).
Proof.
  intros Hs m' x. unfold level_pass.
  match goal with |- In x (nth m' (set_nth m ?v tabs) []) -> _ =>
    destruct (nth_set_nth_cases v (@nil (N * entry)) tabs m m') as [E|[-> E]]; rewrite E; [apply Hs|]; clear E end.
  revert x.
  apply (fold_left_inv (fun tm k => fold_left (trypair cap) (pairs_for tabs m k) tm)
                       (fun tm => forall x, In x tm -> good m x)); [|apply Hs].
  intros tm k Hk Htm. apply half_bound in Hk.
  apply (fold_left_inv (trypair cap) (fun tm => forall x, In x tm -> good m x)); [|exact Htm].
  intros tm' [pi pj] Hp Htm'. apply pairs_for_in in Hp. cbn [fst snd] in Hp. destruct Hp as [Hpi Hpj].
  apply Hs in Hpi. apply Hs in Hpj.
  remember (m - k) as b eqn:Eb. assert (Em : m = k + b) by lia. clear Eb. subst m.
  apply try_pair_sound; assumption.
Qed.

(* level m holds, for every admissible tree with m leaves and score <= C, an entry for its
   leaf set that is at least as good *)
Definition covers (C : Z) (tabs : list table) (m : nat) : Prop :=
  forall t S, vtree n t S -> nleaves t = m -> adm t = true -> (tsc t <= C)%Z ->
  has S (tsc t) (nth m tabs []).

Lemma establish_either cap a b pi pj p : good a pi -> good b pj ->
  N.land (fst pi) (fst pj) = 0%N -> (so = true \/ shares nodes app (fst pi) (fst pj) = true) ->
  (combine_sc o (e_score (snd pi)) (e_score (snd pj)) (stepc (fst pi) (fst pj)) <= cap)%Z ->
  p = (pi, pj) \/ p = (pj, pi) ->
  forall tm, has (N.lor (fst pi) (fst pj))
                 (combine_sc o (e_score (snd pi)) (e_score (snd pj)) (stepc (fst pi) (fst pj)))
                 (trypair cap tm p).
Proof.
  intros Hgi Hgj Hd Hs Hcap [->| ->] tm.
  - apply (has_established cap a b); assumption.
  - rewrite N.lor_comm, combine_sym, step_cost_sym.
    apply (has_established cap b a); try assumption.
    + rewrite N.land_comm; exact Hd.
    + rewrite shares_sym; exact Hs.
    + rewrite combine_sym, step_cost_sym; exact Hcap.
Qed.

Lemma pair_in_level tabs m a b (pi pj : N * entry) :
  In pi (nth a tabs []) -> In pj (nth b tabs []) -> a + b = m -> 1 <= a -> 1 <= b -> pi <> pj ->
  exists k p, In k (seq 1 (m / 2)) /\ In p (pairs_for tabs m k) /\ (p = (pi, pj) \/ p = (pj, pi)).
Proof.
  intros Hi Hj Hm Ha Hb Hne.
  assert (Hdiv : forall k, 1 <= k -> k + k <= m -> In k (seq 1 (m / 2))).
  { intros k H1 H2. apply in_seq. split; [lia|].
    assert (k <= m / 2) by (apply Nat.div_le_lower_bound; lia). lia. }
  destruct (lt_eq_lt_dec a b) as [[Hlt|Heq]|Hgt].
  - exists a, (pi, pj). split; [apply Hdiv; lia|]. split; [|left; reflexivity].
    unfold pairs_for. destruct (Nat.eqb_spec a (m - a)) as [E|E]; [lia|]. cbn [negb].
    apply in_product2. replace (m - a) with b by lia. auto.
  - subst b. destruct (combs2_complete (nth a tabs []) pi pj Hi Hj Hne) as [H|H].
    + exists a, (pi, pj). split; [apply Hdiv; lia|]. split; [|left; reflexivity].
      unfold pairs_for. destruct (Nat.eqb_spec a (m - a)) as [E|E]; [|lia]. exact H.
    + exists a, (pj, pi). split; [apply Hdiv; lia|]. split; [|right; reflexivity].
      unfold pairs_for. destruct (Nat.eqb_spec a (m - a)) as [E|E]; [|lia]. exact H.
  - exists b, (pj, pi). split; [apply Hdiv; lia|]. split; [|right; reflexivity].
    unfold pairs_for. destruct (Nat.eqb_spec b (m - b)) as [E|E]; [lia|]. cbn [negb].
    apply in_product2. replace (m - b) with a by lia. auto.
Qed.

Lemma adm_node l r : adm (Node l r) = true ->
  adm l = true /\ adm r = true /\ (so = true \/ shares nodes app (mask l) (mask r) = true).
Proof.
  unfold admissible. cbn [outer_free]. destruct so; cbn [orb]; [auto|].
  intros H. apply andb_true_iff in H. destruct H as [H H3]. apply andb_true_iff in H. tauto.
Qed.

Lemma level_pass_covers cap tabs m : length tabs = n + 1 -> 2 <= m <= n -> sound tabs ->
  (forall m', 1 <= m' < m -> covers cap tabs m') ->
  covers cap (level_pass app szs o so cap tabs m) m.
Proof.
  intros Hlen Hm Hs Hcov t S Hv Hn Ha Hc.
  unfold level_pass. rewrite nth_set_nth_same by lia.
  inversion Hv as [i Hi|l r Sl Sr Hvl Hvr Hd]; subst; cbn [nleaves] in *; [lia|].
  pose proof (vtree_nleaves_pos _ _ _ Hvl) as Hal. pose proof (vtree_nleaves_pos _ _ _ Hvr) as Har.
  apply adm_node in Ha. destruct Ha as (Hadl & Hadr & Hsh).
  cbn [tscore] in *. rewrite (vtree_mask _ _ _ Hvl), (vtree_mask _ _ _ Hvr) in *.
  pose proof (tscore_nonneg nodes app szs Hsz o l Hobj) as Hl0.
  pose proof (tscore_nonneg nodes app szs Hsz o r Hobj) as Hr0.
  pose proof (step_cost_nonneg nodes app szs Hsz o Sl Sr Hobj) as Hs0.
  destruct (combine_ge o _ _ _ Hl0 Hr0 Hs0) as (Hgl & Hgr & _).
  assert (Hcl : (tsc l <= cap)%Z) by (eapply Z.le_trans; [exact Hgl | exact Hc]).
  assert (Hcr : (tsc r <= cap)%Z) by (eapply Z.le_trans; [exact Hgr | exact Hc]).
  assert (Hml : 1 <= nleaves l < nleaves l + nleaves r) by lia.
  assert (Hmr : 1 <= nleaves r < nleaves l + nleaves r) by lia.
  destruct (Hcov (nleaves l) Hml l Sl Hvl eq_refl Hadl Hcl) as (el & Hinl & Hlel).
  destruct (Hcov (nleaves r) Hmr r Sr Hvr eq_refl Hadr Hcr) as (er & Hinr & Hler).
  pose proof (Hs _ _ Hinl) as Hgoodl. pose proof (Hs _ _ Hinr) as Hgoodr.
  assert (Hne : (Sl, el) <> (Sr, er)).
  { intros E. inversion E; subst. rewrite N.land_diag in Hd.
    exact (vtree_nonzero _ _ _ Hvr Hd). }
  destruct (pair_in_level tabs (nleaves l + nleaves r) _ _ _ _ Hinl Hinr eq_refl Hal Har Hne)
    as (k & p & Hk & Hp & Hor).
  assert (Hmono : (combine_sc o (e_score el) (e_score er) (stepc Sl Sr)
                   <= combine_sc o (tsc l) (tsc r) (stepc Sl Sr))%Z) by (apply combine_mono; assumption).
  apply has_weaken with (x := combine_sc o (e_score el) (e_score er) (stepc Sl Sr)); [|exact Hmono].
  apply (fold2_establish (trypair cap) (pairs_for tabs (nleaves l + nleaves r))
           (has (N.lor Sl Sr) (combine_sc o (e_score el) (e_score er) (stepc Sl Sr)))
           (seq 1 ((nleaves l + nleaves r) / 2)) k p Hk Hp).
  - apply (establish_either cap (nleaves l) (nleaves r) (Sl, el) (Sr, er) p Hgoodl Hgoodr Hd Hsh); [cbn [fst snd]; lia | exact Hor].
  - intros tm q. apply has_preserved.
Qed.


(* ---- one pass, the loop ---- *)
Definition init1 (tabs : list table) : Prop :=
  forall i, i < n -> In (bit i, (nth i nodes [], (0%Z, []))) (nth 1 tabs []).
Definition Inv (tabs : list table) : Prop := length tabs = n + 1 /\ sound tabs /\ init1 tabs.
Definition capped (C : Z) (tabs : list table) : Prop :=
  forall x, In x (nth n tabs []) -> (e_score (snd x) <= C)%Z.
Definition Q (C : Z) (m : nat) (tabs : list table) : Prop :=
  Inv tabs /\ capped C tabs /\ forall m', 1 <= m' < m -> covers C tabs m'.

Lemma covers_1 C tabs : init1 tabs -> covers C tabs 1.
Proof.
  intros H t S Hv Hn _ _. inversion Hv as [i Hi|l r Sl Sr Hvl Hvr Hd]; subst.
  - eexists. split; [apply H, Hi|]. cbn. lia.
  - cbn [nleaves] in Hn. pose proof (vtree_nleaves_pos _ _ _ Hvl). pose proof (vtree_nleaves_pos _ _ _ Hvr). lia.
Qed.

Lemma level_pass_Q C m tabs : 2 <= m <= n -> Q C m tabs -> Q C (S m) (level_pass app szs o so C tabs m).
Proof.
  intros Hm ((Hlen & Hs & Hi) & Hcap & Hcov).
  split; [split; [|split]|split].
  - unfold level_pass. rewrite set_nth_length. exact Hlen.
  - apply level_pass_sound, Hs.
  - intros i Hlt. unfold level_pass. rewrite nth_set_nth_other by lia. apply Hi, Hlt.
  - intros x. unfold level_pass.
    match goal with |- In x (nth n (set_nth m ?v tabs) []) -> _ =>
      destruct (nth_set_nth_cases v (@nil (N * entry)) tabs m n) as [E|[E0 E]]; rewrite E; [apply Hcap|]; clear E end.
    revert x.
    apply (fold_left_inv (fun tm k => fold_left (trypair C) (pairs_for tabs m k) tm)
                         (fun tm => forall x, In x tm -> (e_score (snd x) <= C)%Z)).
    + intros tm k _ Htm.
      apply (fold_left_inv (trypair C) (fun tm => forall x, In x tm -> (e_score (snd x) <= C)%Z)); [|exact Htm].
      intros tm' p _ Htm'. apply try_pair_capped, Htm'.
    + rewrite <- E0. exact Hcap.
  - intros m' Hm'. destruct (Nat.eq_dec m' m) as [->|Hne].
    + apply level_pass_covers; assumption.
    + intros t S Hv Hn Ha Hc. unfold level_pass. rewrite nth_set_nth_other by exact Hne.
      apply (Hcov m' ltac:(lia) t S Hv Hn Ha Hc).
Qed.

Lemma fold_level_Q C : forall k m tabs, 2 <= m -> m + k = n + 1 -> Q C m tabs ->
  Q C (n + 1) (fold_left (level_pass app szs o so C) (seq m k) tabs).
Proof.
  induction k as [|k IH]; intros m tabs Hm Hk HQ; cbn [seq fold_left].
  - replace (n + 1) with m by lia. exact HQ.
  - apply IH; [lia | lia |]. apply level_pass_Q; [lia | exact HQ].
Qed.

Lemma full_pass_Q C tabs : 1 <= n -> Inv tabs -> capped C tabs ->
  Q C (n + 1) (full_pass app szs o so n C tabs).
Proof.
  intros Hn HI Hc. unfold full_pass. apply fold_level_Q; [lia | lia |].
  split; [exact HI|]. split; [exact Hc|]. intros m' Hm'. replace m' with 1 by lia.
  apply covers_1. apply HI.
Qed.

Definition LI (tabs : list table) : Prop :=
  Inv tabs /\ (nth n tabs [] <> [] -> exists C, capped C tabs /\ covers C tabs n).

Lemma dp_loop_LI : 1 <= n -> forall fuel cap tabs r, LI tabs ->
  dp_loop app szs o so n fuel cap tabs = Some r -> LI (fst r) /\ nth n (fst r) [] <> [].
Proof.
  intros Hn. induction fuel as [|f IH]; intros cap tabs r HLI H; cbn [dp_loop] in H.
  - destruct (nth n tabs []) eqn:E; [discriminate|]. inversion H; subst. cbn [fst]. split; [exact HLI|]. congruence.
  - destruct (nth n tabs []) eqn:E.
    + apply IH in H; [exact H|]. destruct HLI as [HI _].
      assert (Hc : capped cap tabs) by (intros x Hx; rewrite E in Hx; destruct Hx).
      destruct (full_pass_Q cap tabs Hn HI Hc) as (HI' & Hc' & Hcov').
      split; [exact HI'|]. intros _. exists cap. split; [exact Hc'|]. apply Hcov'. lia.
    + inversion H; subst. cbn [fst]. split; [exact HLI|]. congruence.
Qed.

Lemma nth_repeat_nil {A} k m : nth m (repeat (@nil A) k) [] = [].
Proof. revert m; induction k as [|k IH]; intros [|m]; cbn; auto. Qed.

Lemma dp_init_level1 :
  1 <= n -> nth 1 (dp_init n nodes) [] =
            map (fun il => (bit (fst il), (snd il, (0%Z, [])))) (combine (seq 0 n) nodes).
Proof.
  intros Hn. unfold dp_init. apply nth_set_nth_same. rewrite repeat_length. lia.
Qed.

Lemma dp_init_other m : m <> 1 -> nth m (dp_init n nodes) [] = [].
Proof.
  intros Hm. unfold dp_init. rewrite nth_set_nth_other by exact Hm. apply nth_repeat_nil.
Qed.

Lemma LI_init : 1 <= n -> LI (dp_init n nodes).
Proof.
  intros Hn.
  assert (Hi : init1 (dp_init n nodes)).
  { intros i Hlt. rewrite dp_init_level1 by exact Hn.
    apply (in_map (fun il => (bit (fst il), (snd il, (0%Z, [])))) _ (i, nth i nodes [])).
    apply (in_combine_seq nodes [] 0). split; [lia|]. rewrite Nat.sub_0_r. reflexivity. }
  assert (Hs : sound (dp_init n nodes)).
  { intros m x Hx. destruct (Nat.eq_dec m 1) as [->|Hne]; [|rewrite dp_init_other in Hx by exact Hne; destruct Hx].
    rewrite dp_init_level1 in Hx by exact Hn. apply in_map_iff in Hx. destruct Hx as [[i l] [<- Hin]].
    apply (in_combine_seq nodes [] 0) in Hin. destruct Hin as [Hlt ->]. rewrite Nat.sub_0_r. cbn [fst snd].
    exists (Leaf i). cbn [fst snd]. split; [constructor; lia|]. split; [reflexivity|].
    split; [unfold admissible; cbn [outer_free]; apply orb_true_r|].
    split; [unfold e_legs; cbn [fst]; apply Hleaf; lia|]. split; reflexivity. }
  split; [split; [|split; assumption]|].
  - unfold dp_init. rewrite set_nth_length, repeat_length. reflexivity.
  - intros Hne. destruct (Nat.eq_dec n 1) as [E|E]; [|rewrite dp_init_other in Hne by exact E; congruence].
    assert (Hk : forall k, k = 1 -> exists C,
               (forall x, In x (nth k (dp_init n nodes) []) -> (e_score (snd x) <= C)%Z)
               /\ covers C (dp_init n nodes) k).
    { intros k ->. exists 0%Z. split.
      - intros x Hx. rewrite dp_init_level1 in Hx by exact Hn. apply in_map_iff in Hx.
        destruct Hx as [il [<- _]]. cbn. lia.
      - apply covers_1, Hi. }
    exact (Hk n E).
Qed.

(* the score returned by the DP is the score of an admissible tree over n leaves and is
   minimal among ALL admissible trees over n leaves *)
Theorem dp_result_optimal fuel cap sc bp : 1 <= n ->
  dp_result app szs o so n nodes fuel cap = Some (sc, bp) ->
  (exists t S, vtree n t S /\ nleaves t = n /\ adm t = true /\ tsc t = sc /\ bitpath t = bp) /\
  (forall t' S', vtree n t' S' -> nleaves t' = n -> adm t' = true -> (sc <= tsc t')%Z).
Proof.
  intros Hn. unfold dp_result.
  destruct (dp_loop app szs o so n fuel cap (dp_init n nodes)) as [[tabs' cap']|] eqn:EL; [|discriminate].
  destruct (dp_loop_LI Hn fuel cap _ _ (LI_init Hn) EL) as [[(Hlen & Hs & Hi) HC] Hne]. cbn [fst] in *.
  destruct (nth n tabs' []) as [|[S e] [|]] eqn:E; try discriminate.
  intros H; inversion H; subst. clear H.
  destruct (HC ltac:(congruence)) as (C & Hcap & Hcov).
  split.
  - destruct (Hs n (S, e)) as (t & Hv & Hnl & Ha & _ & Hsc & Hp); [rewrite E; left; reflexivity|].
    cbn [fst snd] in *. exists t, S. auto.
  - intros t' S' Hv' Hn' Ha'. destruct (Z.le_gt_cases (tsc t') C) as [Hle|Hgt].
    + destruct (Hcov t' S' Hv' Hn' Ha' Hle) as (e' & Hin & Hle'). rewrite E in Hin.
      destruct Hin as [Hin|[]]. inversion Hin; subst. exact Hle'.
    + specialize (Hcap (S, e)). rewrite E in Hcap. specialize (Hcap (or_introl eq_refl)). cbn [snd] in Hcap. lia.
Qed.


(* ---- termination: the cap reaches the score of any admissible tree on all leaves ---- *)
Lemma LI_pass cap tabs : 1 <= n -> LI tabs -> nth n tabs [] = [] ->
  LI (full_pass app szs o so n cap tabs) /\ covers cap (full_pass app szs o so n cap tabs) n.
Proof.
  intros Hn [HI _] E.
  assert (Hc : capped cap tabs) by (intros x Hx; rewrite E in Hx; destruct Hx).
  destruct (full_pass_Q cap tabs Hn HI Hc) as (HI' & Hc' & Hcov').
  assert (Hcv : covers cap (full_pass app szs o so n cap tabs) n) by (apply Hcov'; lia).
  split; [|exact Hcv]. split; [exact HI'|]. intros _. exists cap. split; assumption.
Qed.

Lemma dp_loop_terminates t0 S0 : 1 <= n -> vtree n t0 S0 -> nleaves t0 = n -> adm t0 = true ->
  forall f cap tabs, LI tabs -> (tsc t0 <= cap * 2 ^ Z.of_nat f)%Z ->
  exists r, dp_loop app szs o so n (S f) cap tabs = Some r.
Proof.
  intros Hn Hv Hnl Ha. induction f as [|f IH]; intros cap tabs HLI Hb.
  - cbn [dp_loop]. destruct (nth n tabs []) eqn:E; [|eexists; reflexivity].
    destruct (LI_pass cap tabs Hn HLI E) as [_ Hcov].
    destruct (Hcov t0 S0 Hv Hnl Ha ltac:(cbn in Hb; lia)) as (e & Hin & _).
    destruct (nth n (full_pass app szs o so n cap tabs) []); [destruct Hin | eexists; reflexivity].
  - change (dp_loop app szs o so n (S (S f)) cap tabs) with
      (match nth n tabs [] with
       | _ :: _ => Some (tabs, cap)
       | [] => dp_loop app szs o so n (S f) (cap * 2)%Z (full_pass app szs o so n cap tabs)
       end).
    destruct (nth n tabs []) eqn:E; [|eexists; reflexivity].
    destruct (LI_pass cap tabs Hn HLI E) as [HLI' _].
    apply IH; [exact HLI'|].
    rewrite Nat2Z.inj_succ, Z.pow_succ_r in Hb by lia. lia.
Qed.

Theorem dp_terminates t0 S0 f cap : 1 <= n -> vtree n t0 S0 -> nleaves t0 = n -> adm t0 = true ->
  (tsc t0 <= cap * 2 ^ Z.of_nat f)%Z ->
  exists tabs cap', dp_loop app szs o so n (S f) cap (dp_init n nodes) = Some (tabs, cap')
                    /\ nth n tabs [] <> [].
Proof.
  intros Hn Hv Hnl Ha Hb.
  destruct (dp_loop_terminates t0 S0 Hn Hv Hnl Ha f cap _ (LI_init Hn) Hb) as [[tabs cap'] E].
  exists tabs, cap'. split; [exact E|].
  apply (dp_loop_LI Hn _ _ _ _ (LI_init Hn) E).
Qed.

(* every entry of every table reached by the loop is the true record of an admissible tree *)
Theorem dp_tables_sound fuel cap tabs cap' : 1 <= n ->
  dp_loop app szs o so n fuel cap (dp_init n nodes) = Some (tabs, cap') ->
  forall m x, In x (nth m tabs []) -> good m x.
Proof.
  intros Hn E. destruct (dp_loop_LI Hn _ _ _ _ (LI_init Hn) E) as [[(_ & Hs & _) _] _]. exact Hs.
Qed.

(* after one pass with cap C from any reachable state, every level holds a best entry for
   every admissible tree of score <= C *)
Theorem dp_level_invariant C tabs m : 1 <= n -> Inv tabs -> nth n tabs [] = [] -> 1 <= m <= n ->
  Inv (full_pass app szs o so n C tabs) /\ covers C (full_pass app szs o so n C tabs) m /\
  capped C (full_pass app szs o so n C tabs).
Proof.
  intros Hn HI E Hm.
  assert (Hc : capped C tabs) by (intros x Hx; rewrite E in Hx; destruct Hx).
  destruct (full_pass_Q C tabs Hn HI Hc) as (HI' & Hc' & Hcov').
  split; [exact HI'|]. split; [apply Hcov'; lia | exact Hc'].
Qed.

End PartB.

(* ================================================================== *)
(* the executable well-formedness check implies the hypotheses used above *)

Lemma legs_eqb_eq (a b : legs) : eqb a b = true -> a = b.
Proof.
  unfold eqb, Eqb_list. revert b. induction a as [|[i c] a IH]; intros [|[j d] b]; cbn [list_eqb]; try discriminate.
  - reflexivity.
  - intros H. apply andb_true_iff in H. destruct H as [H1 H2].
    unfold eqb, Eqb_prod in H1. cbn [fst snd] in H1. apply andb_true_iff in H1. destruct H1 as [Hi Hc].
    apply Nat.eqb_eq in Hi. apply Nat.eqb_eq in Hc. subst. f_equal. apply IH, H2.
Qed.

Lemma wf_procb_spec nodes app szs : wf_procb nodes app szs = true ->
  (forall i, i < length nodes -> nth i nodes [] = legs_of nodes app (bit i)) /\
  (forall j, j < length app -> cnt_all nodes j <= appn app j) /\
  (forall j, j < length app -> (0 <= szn szs j)%Z).
Proof.
  unfold wf_procb. intros H. apply andb_true_iff in H. destruct H as [H H3].
  apply andb_true_iff in H. destruct H as [H1 H2].
  rewrite forallb_forall in H1, H2, H3. repeat split.
  - intros i Hi. apply legs_eqb_eq, H1, in_seq. lia.
  - intros j Hj. apply Nat.leb_le, H2, in_seq. lia.
  - intros j Hj. apply Z.leb_le, H3, in_seq. lia.
Qed.

(* ================================================================== *)
(* trees over bitmasks are exactly the binary trees with distinct leaves *)

Lemma bit_testbit i k : N.testbit (bit i) k = N.eqb (N.of_nat i) k.
Proof. unfold bit. rewrite N.shiftl_1_l. apply N.pow2_bits_eqb. Qed.

Lemma mask_spec t : forall k, N.testbit (mask t) k = true <-> In (N.to_nat k) (leaves t).
Proof.
  induction t as [i|l IHl r IHr]; intros k; cbn [mask leaves].
  - rewrite bit_testbit. split.
    + intros H. apply N.eqb_eq in H. subst k. rewrite Nat2N.id. left; reflexivity.
    + intros [H|[]]. subst i. rewrite N2Nat.id. apply N.eqb_refl.
  - rewrite N.lor_spec, orb_true_iff, in_app_iff, IHl, IHr. reflexivity.
Qed.

Lemma disjoint_masks l r : (forall i, In i (leaves l) -> ~ In i (leaves r)) <-> N.land (mask l) (mask r) = 0%N.
Proof.
  split.
  - intros H. apply N.bits_inj. intros k. rewrite N.land_spec, N.bits_0.
    destruct (N.testbit (mask l) k) eqn:El; [|reflexivity].
    destruct (N.testbit (mask r) k) eqn:Er; [|reflexivity].
    apply mask_spec in El. apply mask_spec in Er. exfalso. exact (H _ El Er).
  - intros H i Hl Hr.
    assert (E : N.testbit (N.land (mask l) (mask r)) (N.of_nat i) = true).
    { rewrite N.land_spec. apply andb_true_iff. split; apply mask_spec; rewrite Nat2N.id; assumption. }
    rewrite H, N.bits_0 in E. discriminate.
Qed.

Lemma NoDup_app_iff {A} (a b : list A) :
  NoDup (a ++ b) <-> NoDup a /\ NoDup b /\ (forall x, In x a -> ~ In x b).
Proof.
  induction a as [|x a IH]; cbn [app].
  - split; [intros H; repeat split; [constructor | exact H | intros ? []] | tauto].
  - split.
    + intros H. inversion H as [|? ? Hx Hnd]; subst. apply IH in Hnd. destruct Hnd as (Ha & Hb & Hd).
      split; [constructor; [intros Hin; apply Hx, in_app_iff; auto | exact Ha]|].
      split; [exact Hb|]. intros y [<-|Hy]; [intros Hin; apply Hx, in_app_iff; auto | apply Hd, Hy].
    + intros (Ha & Hb & Hd). inversion Ha as [|? ? Hx Hnd]; subst. constructor.
      * rewrite in_app_iff. intros [H|H]; [exact (Hx H) | exact (Hd x (or_introl eq_refl) H)].
      * apply IH. split; [exact Hnd|]. split; [exact Hb|]. intros y Hy. apply Hd. right; exact Hy.
Qed.

Lemma vtree_iff n t S :
  vtree n t S <-> NoDup (leaves t) /\ (forall i, In i (leaves t) -> i < n) /\ S = mask t.
Proof.
  split.
  - induction 1 as [i Hi|l r Sl Sr Hl IHl Hr IHr Hd]; cbn [leaves mask].
    + split; [constructor; [intros []|constructor]|]. split; [intros j [<-|[]]; exact Hi | reflexivity].
    + destruct IHl as (N1 & B1 & ->), IHr as (N2 & B2 & ->).
      split; [apply NoDup_app_iff; split; [exact N1|split; [exact N2|apply disjoint_masks, Hd]]|].
      split; [intros i Hin; apply in_app_iff in Hin; destruct Hin; auto | reflexivity].
  - revert S. induction t as [i|l IHl r IHr]; intros S (Hnd & Hb & ->); cbn [leaves mask] in *.
    + constructor. apply Hb. left; reflexivity.
    + apply NoDup_app_iff in Hnd. destruct Hnd as (N1 & N2 & Hd).
      constructor.
      * apply IHl. split; [exact N1|]. split; [intros i Hi; apply Hb, in_app_iff; auto | reflexivity].
      * apply IHr. split; [exact N2|]. split; [intros i Hi; apply Hb, in_app_iff; auto | reflexivity].
      * apply disjoint_masks, Hd.
Qed.

Lemma nleaves_length t : nleaves t = length (leaves t).
Proof. induction t; cbn [nleaves leaves]; [reflexivity|]. rewrite app_length. congruence. Qed.

(* a tree that uses every tensor 0..n-1 exactly once *)
Definition full_tree (n : nat) (t : tree) : Prop :=
  NoDup (leaves t) /\ forall i, In i (leaves t) <-> i < n.

Lemma full_tree_vtree n t : full_tree n t -> vtree n t (mask t) /\ nleaves t = n.
Proof.
  intros [Hnd Hin]. split.
  - apply vtree_iff. split; [exact Hnd|]. split; [intros i Hi; apply Hin, Hi | reflexivity].
  - rewrite nleaves_length.
    assert (P : Permutation (leaves t) (seq 0 n)).
    { apply NoDup_Permutation; [exact Hnd | apply seq_NoDup|].
      intros i. rewrite Hin, in_seq. lia. }
    rewrite (Permutation_length P). apply seq_length.
Qed.

Lemma vtree_full n t S : vtree n t S -> nleaves t = n -> full_tree n t.
Proof.
  intros Hv Hn. apply vtree_iff in Hv. destruct Hv as (Hnd & Hb & _). split; [exact Hnd|].
  intros i. split; [apply Hb|]. intros Hi.
  assert (Hincl : incl (seq 0 n) (leaves t)).
  { apply NoDup_length_incl; [exact Hnd | rewrite seq_length, <- nleaves_length; lia|].
    intros j Hj. apply in_seq. specialize (Hb j Hj). lia. }
  apply Hincl, in_seq. lia.
Qed.

(* ================================================================== *)
(* final statements, over all binary trees that use every tensor exactly once *)

Theorem dp_optimal nodes app szs o so fuel cap sc bp :
  wf_procb nodes app szs = true -> obj_ok o -> 1 <= length nodes ->
  dp_result app szs o so (length nodes) nodes fuel cap = Some (sc, bp) ->
  (exists t, full_tree (length nodes) t /\ admissible nodes app so t = true /\
             tscore nodes app szs o t = sc /\ bitpath t = bp) /\
  (forall t', full_tree (length nodes) t' -> admissible nodes app so t' = true ->
              (sc <= tscore nodes app szs o t')%Z).
Proof.
  intros Hwf Ho Hn Hr. destruct (wf_procb_spec _ _ _ Hwf) as (H1 & H2 & H3).
  destruct (dp_result_optimal nodes app szs o so H1 H2 H3 Ho fuel cap sc bp Hn Hr) as [(t & S & Hv & Hnl & Ha & Hs & Hp) Hmin].
  split.
  - exists t. split; [exact (vtree_full _ _ _ Hv Hnl)|]. auto.
  - intros t' Hf Ha'. destruct (full_tree_vtree _ _ Hf) as [Hv' Hn']. exact (Hmin t' _ Hv' Hn' Ha').
Qed.

Theorem optimize_optimal_is_optimal net o so fuel cap sc ssa :
  let p := proc_init net in
  wf_procb (p_nodes p) (p_app p) (p_sizes p) = true -> obj_ok o -> 1 <= length (p_nodes p) ->
  optimize_optimal net o so fuel cap = Some (sc, ssa) ->
  (exists t, full_tree (length (p_nodes p)) t /\ admissible (p_nodes p) (p_app p) so t = true /\
             tscore (p_nodes p) (p_app p) (p_sizes p) o t = sc) /\
  (forall t', full_tree (length (p_nodes p)) t' -> admissible (p_nodes p) (p_app p) so t' = true ->
              (sc <= tscore (p_nodes p) (p_app p) (p_sizes p) o t')%Z).
Proof.
  intros p Hwf Ho Hn. unfold optimize_optimal, optimal_connected. fold p. rewrite seq_length.
  destruct (dp_result (p_app p) (p_sizes p) o so (length (p_nodes p)) (p_nodes p) fuel cap) as [[sc' bp]|] eqn:E;
    [|discriminate].
  intros H; inversion H; subst sc'. clear H.
  destruct (dp_optimal _ _ _ _ _ _ _ _ _ Hwf Ho Hn E) as [(t & Hf & Ha & Hs & _) Hmin].
  split; [exists t; auto | exact Hmin].
Qed.

Theorem dp_terminates_full nodes app szs o so t0 f cap :
  wf_procb nodes app szs = true -> obj_ok o -> 1 <= length nodes ->
  full_tree (length nodes) t0 -> admissible nodes app so t0 = true ->
  (tscore nodes app szs o t0 <= cap * 2 ^ Z.of_nat f)%Z ->
  exists tabs cap', dp_loop app szs o so (length nodes) (S f) cap (dp_init (length nodes) nodes) = Some (tabs, cap')
                    /\ nth (length nodes) tabs [] <> [].
Proof.
  intros Hwf Ho Hn Hf Ha Hb. destruct (wf_procb_spec _ _ _ Hwf) as (H1 & H2 & H3).
  destruct (full_tree_vtree _ _ Hf) as [Hv Hnl].
  exact (dp_terminates nodes app szs o so H1 H2 H3 Ho t0 _ f cap Hn Hv Hnl Ha Hb).
Qed.

(* with search_outer every tree is admissible; the left comb always exists *)
Fixpoint comb (k : nat) : tree :=
  match k with 0 => Leaf 0 | S k' => Node (comb k') (Leaf (S k')) end.

Lemma comb_leaves k : leaves (comb k) = seq 0 (S k).
Proof.
  induction k as [|k IH]; [reflexivity|]. cbn [comb leaves]. rewrite IH.
  symmetry. apply (seq_S (S k) 0).
Qed.

Lemma comb_full k : full_tree (S k) (comb k).
Proof.
  unfold full_tree. rewrite comb_leaves. split; [apply seq_NoDup|]. intros i. rewrite in_seq. lia.
Qed.

Theorem dp_terminates_search_outer nodes app szs o f cap :
  wf_procb nodes app szs = true -> obj_ok o -> 1 <= length nodes ->
  (tscore nodes app szs o (comb (length nodes - 1)) <= cap * 2 ^ Z.of_nat f)%Z ->
  exists tabs cap', dp_loop app szs o true (length nodes) (S f) cap (dp_init (length nodes) nodes) = Some (tabs, cap')
                    /\ nth (length nodes) tabs [] <> [].
Proof.
  intros Hwf Ho Hn Hb.
  apply (dp_terminates_full nodes app szs o true (comb (length nodes - 1)) f cap Hwf Ho Hn); [|reflexivity|exact Hb].
  replace (length nodes) with (S (length nodes - 1)) at 1 by lia. apply comb_full.
Qed.

(* the six cost functions, one by one *)
Lemma cost_fn_objective nodes app szs o S1 S2 a b :
  (forall j, j < length app -> cnt_all nodes j <= appn app j) -> N.land S1 S2 = 0%N ->
  con_cost app szs o (fst (merge_legs (legs_of nodes app S1) (legs_of nodes app S2))) a b =
  (legs_of nodes app (N.lor S1 S2), combine_sc o a b (step_cost nodes app szs o S1 S2)).
Proof. intros H Hd. apply con_cost_spec; assumption. Qed.

(* wrappers with the executable hypothesis *)
Theorem dp_tables_sound_wf nodes app szs o so fuel cap tabs cap' :
  wf_procb nodes app szs = true -> obj_ok o -> 1 <= length nodes ->
  dp_loop app szs o so (length nodes) fuel cap (dp_init (length nodes) nodes) = Some (tabs, cap') ->
  forall m S e, In (S, e) (nth m tabs []) ->
  exists t, vtree (length nodes) t S /\ nleaves t = m /\ admissible nodes app so t = true /\
            e_legs e = legs_of nodes app S /\ e_score e = tscore nodes app szs o t /\ e_path e = bitpath t.
Proof.
  intros Hwf Ho Hn E m S e Hin. destruct (wf_procb_spec _ _ _ Hwf) as (H1 & H2 & H3).
  exact (dp_tables_sound nodes app szs o so H1 H2 H3 Ho fuel cap tabs cap' Hn E m (S, e) Hin).
Qed.

Theorem dp_level_invariant_wf nodes app szs o so C tabs m :
  wf_procb nodes app szs = true -> obj_ok o -> 1 <= length nodes ->
  Inv nodes app szs o so tabs -> nth (length nodes) tabs [] = [] -> 1 <= m <= length nodes ->
  let tabs' := full_pass app szs o so (length nodes) C tabs in
  Inv nodes app szs o so tabs' /\
  (forall t S, vtree (length nodes) t S -> nleaves t = m -> admissible nodes app so t = true ->
               (tscore nodes app szs o t <= C)%Z ->
               exists e, In (S, e) (nth m tabs' []) /\ (e_score e <= tscore nodes app szs o t)%Z) /\
  (forall x, In x (nth (length nodes) tabs' []) -> (e_score (snd x) <= C)%Z).
Proof.
  intros Hwf Ho Hn HI E Hm. destruct (wf_procb_spec _ _ _ Hwf) as (H1 & H2 & H3).
  cbv zeta. eapply dp_level_invariant; eassumption.
Qed.

Theorem dp_init_Inv nodes app szs o so :
  wf_procb nodes app szs = true -> 1 <= length nodes ->
  Inv nodes app szs o so (dp_init (length nodes) nodes).
Proof.
  intros Hwf Hn. destruct (wf_procb_spec _ _ _ Hwf) as (H1 & H2 & H3).
  eapply LI_init; eassumption.
Qed.

(* the loop stops at the first cap C for which level n is non-empty; then every level-n entry
   is <= C and level n covers every admissible tree of score <= C: nothing cheaper was sieved *)
Theorem sieve_first_hit nodes app szs o so fuel cap tabs cap' :
  wf_procb nodes app szs = true -> obj_ok o -> 1 <= length nodes ->
  dp_loop app szs o so (length nodes) fuel cap (dp_init (length nodes) nodes) = Some (tabs, cap') ->
  nth (length nodes) tabs [] <> [] /\
  exists C, (forall x, In x (nth (length nodes) tabs []) -> (e_score (snd x) <= C)%Z) /\
            (forall t S, vtree (length nodes) t S -> nleaves t = length nodes ->
                         admissible nodes app so t = true -> (tscore nodes app szs o t <= C)%Z ->
                         exists e, In (S, e) (nth (length nodes) tabs []) /\
                                   (e_score e <= tscore nodes app szs o t)%Z).
Proof.
  intros Hwf Ho Hn E. destruct (wf_procb_spec _ _ _ Hwf) as (H1 & H2 & H3).
  assert (HL : LI nodes app szs o so (dp_init (length nodes) nodes)) by (eapply LI_init; eassumption).
  destruct (dp_loop_LI nodes app szs o so H2 H3 Ho Hn fuel cap _ _ HL E) as [[_ HC] Hne]. cbn [fst] in *. split; [exact Hne|]. exact (HC Hne).
Qed.


(* ================================================================== *)
(* the enumerator all_trees is complete up to swapping children *)

Inductive teq : tree -> tree -> Prop :=
| teq_leaf k : teq (Leaf k) (Leaf k)
| teq_node l r l' r' : teq l l' -> teq r r' -> teq (Node l r) (Node l' r')
| teq_swap l r l' r' : teq l l' -> teq r r' -> teq (Node l r) (Node r' l').

Lemma teq_refl t : teq t t.
Proof. induction t; constructor; assumption. Qed.

(* t' is t with the leaf x cut out (its sibling takes the parent's place) *)
Inductive removed (x : nat) : tree -> tree -> Prop :=
| rm_l r : removed x (Node (Leaf x) r) r
| rm_r l : removed x (Node l (Leaf x)) l
| rm_in_l l l' r : removed x l l' -> removed x (Node l r) (Node l' r)
| rm_in_r l r r' : removed x r r' -> removed x (Node l r) (Node l r').

Lemma exists_removed x t : In x (leaves t) -> t <> Leaf x -> exists t', removed x t t'.
Proof.
  induction t as [k|l IHl r IHr]; cbn [leaves]; intros Hin Hne.
  - destruct Hin as [->|[]]. congruence.
  - apply in_app_iff in Hin. destruct Hin as [Hin|Hin].
    + destruct l as [k|l1 l2].
      * destruct Hin as [->|[]]. eexists; apply rm_l.
      * destruct (IHl Hin ltac:(discriminate)) as [l' Hl']. eexists; apply rm_in_l, Hl'.
    + destruct r as [k|r1 r2].
      * destruct Hin as [->|[]]. eexists; apply rm_r.
      * destruct (IHr Hin ltac:(discriminate)) as [r' Hr']. eexists; apply rm_in_r, Hr'.
Qed.

Lemma removed_leaves x t t' : removed x t t' -> Permutation (leaves t) (x :: leaves t').
Proof.
  induction 1; cbn [leaves app].
  - reflexivity.
  - symmetry. apply Permutation_cons_append.
  - rewrite IHremoved. reflexivity.
  - rewrite IHremoved. symmetry. apply Permutation_middle.
Qed.

Lemma inserts_head x t : In (Node (Leaf x) t) (inserts x t).
Proof. destruct t; left; reflexivity. Qed.

Lemma inserts_left x l r u : In u (inserts x l) -> In (Node u r) (inserts x (Node l r)).
Proof. intros H. cbn [inserts]. right. apply in_app_iff. left. apply (in_map (fun l' => Node l' r)). exact H. Qed.

Lemma inserts_right x l r u : In u (inserts x r) -> In (Node l u) (inserts x (Node l r)).
Proof.
  intros H. cbn [inserts]. right. apply in_app_iff. right.
  apply (in_map (fun r' => Node l r')). exact H.
Qed.

Lemma removed_insert x t t' : removed x t t' ->
  forall t0, teq t' t0 -> exists u0, In u0 (inserts x t0) /\ teq t u0.
Proof.
  induction 1 as [r|l|l l' r Hrm IH|l r r' Hrm IH]; intros t0 Ht.
  - exists (Node (Leaf x) t0). split; [apply inserts_head|]. constructor; [constructor | exact Ht].
  - exists (Node (Leaf x) t0). split; [apply inserts_head|]. apply teq_swap; [exact Ht | constructor].
  - inversion Ht as [|a b a' b' Ha Hb|a b a' b' Ha Hb]; subst.
    + destruct (IH _ Ha) as (ua & Hin & Hq). exists (Node ua b'). split; [apply inserts_left, Hin|].
      constructor; assumption.
    + destruct (IH _ Ha) as (ua & Hin & Hq). exists (Node b' ua). split; [apply inserts_right, Hin|].
      apply teq_swap; assumption.
  - inversion Ht as [|a b a' b' Ha Hb|a b a' b' Ha Hb]; subst.
    + destruct (IH _ Hb) as (ub & Hin & Hq). exists (Node a' ub). split; [apply inserts_right, Hin|].
      constructor; assumption.
    + destruct (IH _ Hb) as (ub & Hin & Hq). exists (Node ub a'). split; [apply inserts_left, Hin|].
      apply teq_swap; assumption.
Qed.

Lemma leaves_nonempty t : 1 <= length (leaves t).
Proof. induction t; cbn [leaves length]; [lia|]. rewrite app_length. lia. Qed.

Lemma all_trees_cons2 x y ls : all_trees (x :: y :: ls) = flat_map (inserts x) (all_trees (y :: ls)).
Proof. reflexivity. Qed.

(* completeness: every binary tree over the leaves ls is, up to swapping children, in the list *)
Theorem all_trees_complete : forall ls t, Permutation (leaves t) ls ->
  exists t0, In t0 (all_trees ls) /\ teq t t0.
Proof.
  induction ls as [|x ls IH]; intros t Hp.
  - apply Permutation_length in Hp. pose proof (leaves_nonempty t). cbn in Hp. lia.
  - destruct ls as [|y ls].
    + destruct t as [k|l r].
      * cbn [leaves] in Hp. apply Permutation_length_1 in Hp. subst. exists (Leaf x). split; [left; reflexivity | constructor].
      * apply Permutation_length in Hp. cbn [leaves length] in Hp. rewrite app_length in Hp.
        pose proof (leaves_nonempty l). pose proof (leaves_nonempty r). lia.
    + assert (Hin : In x (leaves t)) by (apply (Permutation_in x (Permutation_sym Hp)); left; reflexivity).
      assert (Hne : t <> Leaf x).
      { intros ->. apply Permutation_length in Hp. cbn in Hp. lia. }
      destruct (exists_removed x t Hin Hne) as [t' Hrm].
      assert (Hp' : Permutation (leaves t') (y :: ls)).
      { apply (Permutation_cons_inv (a := x)). rewrite <- (removed_leaves _ _ _ Hrm). exact Hp. }
      destruct (IH t' Hp') as (t0 & Hin0 & Hq0).
      destruct (removed_insert x t t' Hrm t0 Hq0) as (u0 & Hu0 & Hq).
      exists u0. split; [|exact Hq]. rewrite all_trees_cons2. apply in_flat_map. exists t0. auto.
Qed.

(* soundness: every listed tree uses exactly the given leaves *)
Lemma inserts_leaves x t : forall u, In u (inserts x t) -> Permutation (leaves u) (x :: leaves t).
Proof.
  induction t as [k|l IHl r IHr]; intros u Hu; cbn [inserts] in Hu.
  - destruct Hu as [<-|[]]. reflexivity.
  - destruct Hu as [<-|Hu]; [reflexivity|]. apply in_app_iff in Hu. destruct Hu as [Hu|Hu]; apply in_map_iff in Hu.
    + destruct Hu as (l' & <- & Hl'). cbn [leaves]. rewrite (IHl _ Hl'). reflexivity.
    + destruct Hu as (r' & <- & Hr'). cbn [leaves]. rewrite (IHr _ Hr'). symmetry. apply Permutation_middle.
Qed.

Theorem all_trees_sound : forall ls t, In t (all_trees ls) -> Permutation (leaves t) ls.
Proof.
  induction ls as [|x ls IH]; intros t Ht; [destruct Ht|].
  destruct ls as [|y ls].
  - destruct Ht as [<-|[]]. reflexivity.
  - rewrite all_trees_cons2 in Ht. apply in_flat_map in Ht. destruct Ht as (t0 & Ht0 & Hu).
    rewrite (inserts_leaves _ _ _ Hu). constructor. apply IH, Ht0.
Qed.

(* swapping children changes neither the leaf set, nor the score, nor admissibility *)
Lemma teq_mask t t0 : teq t t0 -> mask t = mask t0.
Proof. induction 1; cbn [mask]; [reflexivity | congruence|]. rewrite N.lor_comm. congruence. Qed.

Lemma teq_tscore nodes app szs o t t0 : teq t t0 ->
  tscore nodes app szs o t = tscore nodes app szs o t0.
Proof.
  induction 1 as [k|l r l' r' Hl IHl Hr IHr|l r l' r' Hl IHl Hr IHr]; cbn [tscore]; [reflexivity| |].
  - rewrite IHl, IHr, (teq_mask _ _ Hl), (teq_mask _ _ Hr). reflexivity.
  - rewrite IHl, IHr, (teq_mask _ _ Hl), (teq_mask _ _ Hr), combine_sym, step_cost_sym. reflexivity.
Qed.

Lemma teq_outer_free nodes app t t0 : teq t t0 -> outer_free nodes app t = outer_free nodes app t0.
Proof.
  induction 1 as [k|l r l' r' Hl IHl Hr IHr|l r l' r' Hl IHl Hr IHr]; cbn [outer_free]; [reflexivity| |].
  - rewrite IHl, IHr, (teq_mask _ _ Hl), (teq_mask _ _ Hr). reflexivity.
  - rewrite IHl, IHr, (teq_mask _ _ Hl), (teq_mask _ _ Hr), shares_sym.
    rewrite (andb_comm (outer_free nodes app l')). reflexivity.
Qed.

Lemma full_tree_perm n t : full_tree n t <-> Permutation (leaves t) (seq 0 n).
Proof.
  split.
  - intros [Hnd Hin]. apply NoDup_Permutation; [exact Hnd | apply seq_NoDup|].
    intros i. rewrite Hin, in_seq. lia.
  - intros Hp. split.
    + apply (Permutation_NoDup (Permutation_sym Hp)), seq_NoDup.
    + intros i. split; intros H.
      * apply (Permutation_in _ Hp) in H. apply in_seq in H. lia.
      * apply (Permutation_in _ (Permutation_sym Hp)). apply in_seq. lia.
Qed.

Lemma fold_min_le l : forall a, (fold_left Z.min l a <= a)%Z /\ (forall x, In x l -> (fold_left Z.min l a <= x)%Z).
Proof.
  induction l as [|y l IH]; intros a; cbn [fold_left]; [split; [lia | intros x []]|].
  destruct (IH (Z.min a y)) as [H1 H2]. split; [lia|].
  intros x [<-|Hx]; [lia | apply H2, Hx].
Qed.

Lemma fold_min_in l : forall a, fold_left Z.min l a = a \/ In (fold_left Z.min l a) l.
Proof.
  induction l as [|y l IH]; intros a; cbn [fold_left]; [left; reflexivity|].
  destruct (IH (Z.min a y)) as [H|H]; [|right; right; exact H].
  rewrite H. destruct (Z.min_spec a y) as [[_ E]|[_ E]]; rewrite E; [left; reflexivity | right; left; reflexivity].
Qed.

Lemma zmin_list_spec l v : zmin_list l = Some v -> In v l /\ forall x, In x l -> (v <= x)%Z.
Proof.
  destruct l as [|a l]; cbn [zmin_list]; [discriminate|]. intros H; inversion H; subst. clear H.
  destruct (fold_min_le l a) as [H1 H2]. split.
  - destruct (fold_min_in l a) as [E|E]; [rewrite E; left; reflexivity | right; exact E].
  - intros x [<-|Hx]; [exact H1 | apply H2, Hx].
Qed.

(* the enumerated minimum is the true minimum over all admissible trees using every tensor once *)
Theorem brute_min_is_min nodes app szs o so v :
  brute_min nodes app szs o so = Some v ->
  (exists t, full_tree (length nodes) t /\ admissible nodes app so t = true /\ tscore nodes app szs o t = v) /\
  (forall t', full_tree (length nodes) t' -> admissible nodes app so t' = true ->
              (v <= tscore nodes app szs o t')%Z).
Proof.
  unfold brute_min. intros H. apply zmin_list_spec in H. destruct H as [Hin Hmin]. split.
  - apply in_map_iff in Hin. destruct Hin as (t & Hs & Ht). apply filter_In in Ht. destruct Ht as [Ht Ha].
    exists t. split; [apply full_tree_perm, all_trees_sound, Ht | auto].
  - intros t' Hf Ha. apply full_tree_perm in Hf.
    destruct (all_trees_complete _ _ Hf) as (t0 & Hin0 & Hq).
    rewrite (teq_tscore nodes app szs o _ _ Hq). apply Hmin. apply in_map. apply filter_In. split; [exact Hin0|].
    unfold admissible in *. rewrite <- (teq_outer_free nodes app _ _ Hq). exact Ha.
Qed.

(* hence the DP and the exhaustive enumeration agree, for every network satisfying wf_procb *)
Theorem dp_equals_brute nodes app szs o so fuel cap sc bp v :
  wf_procb nodes app szs = true -> obj_ok o -> 1 <= length nodes ->
  dp_result app szs o so (length nodes) nodes fuel cap = Some (sc, bp) ->
  brute_min nodes app szs o so = Some v -> sc = v.
Proof.
  intros Hwf Ho Hn Hd Hb.
  destruct (dp_optimal _ _ _ _ _ _ _ _ _ Hwf Ho Hn Hd) as [(t & Hf & Ha & Hs & _) Hmin].
  destruct (brute_min_is_min _ _ _ _ _ _ Hb) as [(t2 & Hf2 & Ha2 & Hs2) Hmin2].
  pose proof (Hmin t2 Hf2 Ha2). pose proof (Hmin2 t Hf Ha). lia.
Qed.



(* ================================================================== *)
(* the top level holds exactly one entry when the loop stops (Python line 742 never fails) *)

Lemma tget_None_keys s t : tget s t = None -> ~ In s (map fst t).
Proof.
  induction t as [|[k w] t IH]; cbn [tget map fst In]; [tauto|].
  destruct (N.eqb_spec k s) as [->|Hne]; [discriminate|]. intros H [E|Hin]; [congruence | exact (IH H Hin)].
Qed.

Lemma keys_tset_some s e t cur : tget s t = Some cur -> map fst (tset s e t) = map fst t.
Proof.
  induction t as [|[k w] t IH]; cbn [tget tset map fst]; [discriminate|].
  destruct (N.eqb_spec k s) as [->|Hne]; [reflexivity|]. intros H. cbn [map fst]. rewrite (IH H). reflexivity.
Qed.

Lemma keys_tset_none s e t : tget s t = None -> map fst (tset s e t) = map fst t ++ [s].
Proof.
  induction t as [|[k w] t IH]; cbn [tget tset map fst app]; [reflexivity|].
  destruct (N.eqb_spec k s) as [->|Hne]; [discriminate|]. intros H. cbn [map fst]. rewrite (IH H). reflexivity.
Qed.

Lemma NoDup_snoc {A} (l : list A) x : NoDup l -> ~ In x l -> NoDup (l ++ [x]).
Proof.
  intros Hnd Hx. apply NoDup_app_iff. split; [exact Hnd|]. split; [constructor; [intros []|constructor]|].
  intros y Hy [<-|[]]. exact (Hx Hy).
Qed.

Lemma try_pair_keys app szs o so cap tm p :
  NoDup (map fst tm) -> NoDup (map fst (try_pair app szs o so cap tm p)).
Proof.
  intros Hnd. destruct (try_pair_cases app szs o so cap tm p) as [E|(tl & a & b & _ & H)]; [rewrite E; exact Hnd|].
  cbv zeta in H. destruct H as (_ & E & [Hn|(cur & Hc & _)]); rewrite E.
  - rewrite (keys_tset_none _ _ _ Hn). apply NoDup_snoc; [exact Hnd | apply tget_None_keys, Hn].
  - rewrite (keys_tset_some _ _ _ _ Hc). exact Hnd.
Qed.

Definition nodupkeys (tabs : list table) : Prop := forall m, NoDup (map fst (nth m tabs [])).

Lemma level_pass_keys app szs o so cap tabs m :
  nodupkeys tabs -> nodupkeys (level_pass app szs o so cap tabs m).
Proof.
  intros H m'. unfold level_pass.
  match goal with |- NoDup (map fst (nth m' (set_nth m ?v tabs) [])) =>
    destruct (nth_set_nth_cases v (@nil (N * entry)) tabs m m') as [E|[-> E]]; rewrite E; [apply H|]; clear E end.
  apply (fold_left_inv (fun tm k => fold_left (try_pair app szs o so cap) (pairs_for tabs m k) tm)
                       (fun tm => NoDup (map fst tm))); [|apply H].
  intros tm k _ Htm.
  apply (fold_left_inv (try_pair app szs o so cap) (fun tm => NoDup (map fst tm))); [|exact Htm].
  intros tm' p _ Htm'. apply try_pair_keys, Htm'.
Qed.

Lemma full_pass_keys app szs o so nt cap tabs :
  nodupkeys tabs -> nodupkeys (full_pass app szs o so nt cap tabs).
Proof.
  unfold full_pass. apply fold_left_inv. intros a m _. apply level_pass_keys.
Qed.

Lemma dp_loop_keys app szs o so nt fuel : forall cap tabs r,
  nodupkeys tabs -> dp_loop app szs o so nt fuel cap tabs = Some r -> nodupkeys (fst r).
Proof.
  induction fuel as [|f IH]; intros cap tabs r Hk H; cbn [dp_loop] in H.
  - destruct (nth nt tabs []); [discriminate|]. inversion H; subst. exact Hk.
  - destruct (nth nt tabs []).
    + apply IH in H; [exact H | apply full_pass_keys, Hk].
    + inversion H; subst. exact Hk.
Qed.

Lemma bit_inj i j : bit i = bit j -> i = j.
Proof.
  intros H. assert (E : N.testbit (bit i) (N.of_nat j) = true) by (rewrite H, bit_testbit; apply N.eqb_refl).
  rewrite bit_testbit in E. apply N.eqb_eq in E. apply Nat2N.inj, E.
Qed.

Lemma nth_set_nth_P {A} (P : A -> Prop) x d l k k' :
  P (nth k' l d) -> P x -> P (nth k' (set_nth k x l) d).
Proof.
  intros H1 H2. destruct (nth_set_nth_cases x d l k k') as [E|[_ E]]; rewrite E; assumption.
Qed.

Lemma dp_init_keys nt wlegs : nodupkeys (dp_init nt wlegs).
Proof.
  intros m. unfold dp_init.
  apply (nth_set_nth_P (fun tm : table => NoDup (map fst tm))).
  - cbv beta. unfold table. rewrite nth_repeat_nil. constructor.
  - rewrite map_map. cbn [fst].
    assert (G : forall (l : list legs) a, NoDup (map (fun x : nat * legs => bit (fst x)) (combine (seq a nt) l))).
    { clear. revert nt. intros nt l. revert nt. induction l as [|y l IH]; intros nt a.
      - destruct nt; cbn; constructor.
      - destruct nt as [|nt]; cbn [seq combine map fst]; [constructor|]. constructor; [|apply IH].
        intros Hin. apply in_map_iff in Hin. destruct Hin as ([i z] & Hb & Hc). cbn [fst] in Hb.
        apply bit_inj in Hb. subst i. apply in_combine_l in Hc. apply in_seq in Hc. lia. }
    apply G.
Qed.

Lemma full_mask_unique n t1 t2 : full_tree n t1 -> full_tree n t2 -> mask t1 = mask t2.
Proof.
  intros [_ H1] [_ H2]. apply N.bits_inj. intros k.
  destruct (N.testbit (mask t1) k) eqn:E1, (N.testbit (mask t2) k) eqn:E2; try reflexivity.
  - apply mask_spec, H1, H2, mask_spec in E1. congruence.
  - apply mask_spec, H2, H1, mask_spec in E2. congruence.
Qed.

(* when the loop stops, its top level is a single entry: dp_result does not fail *)
Theorem dp_single_entry nodes app szs o so fuel cap tabs cap' :
  wf_procb nodes app szs = true -> obj_ok o -> 1 <= length nodes ->
  dp_loop app szs o so (length nodes) fuel cap (dp_init (length nodes) nodes) = Some (tabs, cap') ->
  exists S e, nth (length nodes) tabs [] = [(S, e)].
Proof.
  intros Hwf Ho Hn E.
  destruct (sieve_first_hit _ _ _ _ _ _ _ _ _ Hwf Ho Hn E) as [Hne _].
  pose proof (dp_loop_keys _ _ _ _ _ _ _ _ _ (dp_init_keys _ _) E (length nodes)) as Hk. cbn [fst] in Hk.
  pose proof (dp_tables_sound_wf _ _ _ _ _ _ _ _ _ Hwf Ho Hn E (length nodes)) as Hs.
  destruct (nth (length nodes) tabs []) as [|[S e] [|[S2 e2] rest]]; [congruence | eauto | exfalso].
  destruct (Hs S e (or_introl eq_refl)) as (t1 & Hv1 & Hn1 & _).
  destruct (Hs S2 e2 (or_intror (or_introl eq_refl))) as (t2 & Hv2 & Hn2 & _).
  pose proof (vtree_full _ _ _ Hv1 Hn1) as F1. pose proof (vtree_full _ _ _ Hv2 Hn2) as F2.
  pose proof (vtree_mask _ _ _ Hv1) as M1. pose proof (vtree_mask _ _ _ Hv2) as M2.
  pose proof (full_mask_unique _ _ _ F1 F2) as MU.
  assert (S = S2) by congruence. subst S2.
  cbn [map fst] in Hk. inversion Hk as [|? ? Hnin _]; subst. apply Hnin. left; congruence.
Qed.

(* total correctness: with enough fuel the model returns a result (and by dp_optimal it is optimal) *)
Theorem dp_result_total nodes app szs o so t0 f cap :
  wf_procb nodes app szs = true -> obj_ok o -> 1 <= length nodes ->
  full_tree (length nodes) t0 -> admissible nodes app so t0 = true ->
  (tscore nodes app szs o t0 <= cap * 2 ^ Z.of_nat f)%Z ->
  exists sc bp, dp_result app szs o so (length nodes) nodes (S f) cap = Some (sc, bp).
Proof.
  intros Hwf Ho Hn Hf Ha Hb.
  destruct (dp_terminates_full _ _ _ _ _ _ _ _ Hwf Ho Hn Hf Ha Hb) as (tabs & cap' & E & _).
  destruct (dp_single_entry _ _ _ _ _ _ _ _ _ Hwf Ho Hn E) as (S0 & e & Es).
  unfold dp_result. rewrite E, Es. eauto.
Qed.

(* the executable fullness check is sound *)
Lemma full_treeb_sound n t : full_treeb n t = true -> full_tree n t.
Proof.
  unfold full_treeb. intros H. apply andb_true_iff in H. destruct H as [Hl Hall].
  apply Nat.eqb_eq in Hl. rewrite forallb_forall in Hall.
  assert (Hincl : incl (seq 0 n) (leaves t)).
  { intros i Hi. specialize (Hall i Hi). unfold memb in Hall. apply existsb_exists in Hall.
    destruct Hall as (x & Hx & E). apply Nat.eqb_eq in E. subst. exact Hx. }
  assert (Hnd : NoDup (leaves t)).
  { apply (@NoDup_incl_NoDup nat (seq 0 n)); [apply seq_NoDup | rewrite seq_length; lia | exact Hincl]. }
  split; [exact Hnd|]. intros i. split.
  - intros Hi.
    assert (Hrev : incl (leaves t) (seq 0 n)).
    { apply NoDup_length_incl; [apply seq_NoDup | rewrite seq_length; lia | exact Hincl]. }
    apply Hrev, in_seq in Hi. lia.
  - intros Hi. apply Hincl, in_seq. lia.
Qed.

(* ================================================================== *)
(* replaying the stored bit path through contract_nodes yields an ssa path OF the stored tree *)

Lemma tree_of_ssa_app forest p1 p2 :
  tree_of_ssa forest (p1 ++ p2) = tree_of_ssa (tree_of_ssa forest p1) p2.
Proof.
  revert forest. induction p1 as [|[i j] p1 IH]; intros forest; cbn [app tree_of_ssa]; [reflexivity|apply IH].
Qed.

Fixpoint replay_tm (bp : list (N * N)) (tm : list (N * nat)) (ssa : nat) : list (N * nat) :=
  match bp with
  | [] => tm
  | (si, sj) :: bp' => replay_tm bp' ((N.lor si sj, ssa) :: tm) (S ssa)
  end.

Lemma replay_app bp1 : forall bp2 tm ssa,
  replay_bitpath (bp1 ++ bp2) tm ssa =
  replay_bitpath bp1 tm ssa ++ replay_bitpath bp2 (replay_tm bp1 tm ssa) (ssa + length bp1).
Proof.
  induction bp1 as [|[si sj] bp1 IH]; intros bp2 tm ssa; cbn [app replay_bitpath replay_tm length].
  - rewrite Nat.add_0_r. reflexivity.
  - rewrite IH. cbn [app]. replace (ssa + S (length bp1)) with (S ssa + length bp1) by lia. reflexivity.
Qed.

Lemma replay_tm_app bp1 : forall bp2 tm ssa,
  replay_tm (bp1 ++ bp2) tm ssa = replay_tm bp2 (replay_tm bp1 tm ssa) (ssa + length bp1).
Proof.
  induction bp1 as [|[si sj] bp1 IH]; intros bp2 tm ssa; cbn [app replay_tm length].
  - rewrite Nat.add_0_r. reflexivity.
  - rewrite IH. replace (ssa + S (length bp1)) with (S ssa + length bp1) by lia. reflexivity.
Qed.

(* s is a non-empty subset of S *)
Definition subm (s S : N) : Prop := s <> 0%N /\ N.land s S = s.

Lemma subm_disjoint s q S1 S2 : subm s S1 -> subm q S2 -> N.land S1 S2 = 0%N -> s <> q.
Proof.
  intros [Hs Es] [Hq Eq_] Hd E. subst q. apply Hs.
  rewrite <- Es. rewrite <- Eq_ at 1. rewrite <- N.land_assoc, (N.land_comm S2 S1), Hd. apply N.land_0_r.
Qed.

Lemma subm_refl S : S <> 0%N -> subm S S.
Proof. intros H. split; [exact H | apply N.land_diag]. Qed.

Lemma subm_lor_l s S1 S2 : subm s S1 -> subm s (N.lor S1 S2).
Proof.
  intros [H E]. split; [exact H|]. rewrite N.land_lor_distr_r, E.
  apply N.bits_inj. intros k. rewrite N.lor_spec, N.land_spec. destruct (N.testbit s k); reflexivity.
Qed.
Lemma subm_lor_r s S1 S2 : subm s S2 -> subm s (N.lor S1 S2).
Proof. rewrite N.lor_comm. apply subm_lor_l. Qed.

Lemma mget_cons_ne q s v tm : s <> q -> mget q ((s, v) :: tm) = mget q tm.
Proof. intros H. cbn [mget]. destruct (N.eqb_spec s q); [contradiction|reflexivity]. Qed.
Lemma mget_cons_eq s v tm : mget s ((s, v) :: tm) = v.
Proof. cbn [mget]. rewrite N.eqb_refl. reflexivity. Qed.

Lemma post_sub_length t : length (post_sub t) = length (bitpath t).
Proof.
  induction t as [k|l IHl r IHr]; cbn [post_sub bitpath]; [reflexivity|].
  rewrite !app_length, IHl, IHr. reflexivity.
Qed.


Lemma leaf_subm n t S : vtree n t S -> forall k, In k (leaves t) -> subm (bit k) S.
Proof.
  induction 1 as [i Hi|l r Sl Sr Hl IHl Hr IHr Hd]; intros k Hk; cbn [leaves] in Hk.
  - destruct Hk as [<-|[]]. apply subm_refl, bit_neq_0.
  - apply in_app_iff in Hk. destruct Hk as [Hk|Hk]; [apply subm_lor_l, IHl, Hk | apply subm_lor_r, IHr, Hk].
Qed.

Lemma nth_error_app_l {A} (l l' : list A) i x : nth_error l i = Some x -> nth_error (l ++ l') i = Some x.
Proof.
  intros H. rewrite nth_error_app1; [exact H|]. apply nth_error_Some. congruence.
Qed.

Lemma replay_tree n t S : vtree n t S ->
  forall tm forest,
  (forall k, In k (leaves t) -> nth_error forest (mget (bit k) tm) = Some (Leaf k)) ->
  let tm' := replay_tm (bitpath t) tm (length forest) in
  tree_of_ssa forest (replay_bitpath (bitpath t) tm (length forest)) = forest ++ post_sub t /\
  nth_error (forest ++ post_sub t) (mget S tm') = Some t /\
  (forall q, (forall s, subm s S -> s <> q) -> mget q tm' = mget q tm).
Proof.
  induction 1 as [i Hi|l r Sl Sr Hl IHl Hr IHr Hd]; intros tm forest Hleaf; cbv zeta.
  - cbn [bitpath replay_bitpath replay_tm tree_of_ssa post_sub]. rewrite app_nil_r.
    split; [reflexivity|]. split; [apply Hleaf; left; reflexivity | reflexivity].
  - pose proof (vtree_mask _ _ _ Hl) as Ml. pose proof (vtree_mask _ _ _ Hr) as Mr.
    pose proof (vtree_nonzero _ _ _ Hl) as Zl. pose proof (vtree_nonzero _ _ _ Hr) as Zr.
    cbn [bitpath post_sub]. rewrite Ml, Mr.
    destruct (IHl tm forest) as (E1 & N1 & U1).
    { intros k Hk. apply Hleaf. cbn [leaves]. apply in_app_iff. auto. }
    set (tm1 := replay_tm (bitpath l) tm (length forest)) in *.
    set (forest1 := forest ++ post_sub l) in *.
    assert (L1 : length forest1 = length forest + length (bitpath l)).
    { unfold forest1. rewrite app_length, post_sub_length. reflexivity. }
    destruct (IHr tm1 forest1) as (E2 & N2 & U2).
    { intros k Hk. rewrite U1.
      - apply nth_error_app_l. apply Hleaf. cbn [leaves]. apply in_app_iff. auto.
      - intros s Hs. apply (subm_disjoint s (bit k) Sl Sr Hs (leaf_subm _ _ _ Hr k Hk) Hd). }
    set (tm2 := replay_tm (bitpath r) tm1 (length forest1)) in *.
    set (forest2 := forest1 ++ post_sub r) in *.
    assert (L2 : length forest2 = length forest1 + length (bitpath r)).
    { unfold forest2. rewrite app_length, post_sub_length. reflexivity. }
    assert (Gl : nth_error forest2 (mget Sl tm2) = Some l).
    { unfold tm2. rewrite U2.
      - apply nth_error_app_l. exact N1.
      - intros s Hs. apply (subm_disjoint s Sl Sr Sl Hs (subm_refl _ Zl)). rewrite N.land_comm. exact Hd. }
    rewrite !replay_app, !replay_tm_app, !tree_of_ssa_app. rewrite E1. fold forest1. fold tm1.
    rewrite <- L1. rewrite E2. fold tm2. fold forest2. rewrite <- L2.
    cbn [replay_bitpath replay_tm tree_of_ssa].
    rewrite (nth_error_nth _ _ (Leaf 0) Gl), (nth_error_nth _ _ (Leaf 0) N2).
    assert (EF : forest2 ++ [Node l r] = forest ++ post_sub l ++ post_sub r ++ [Node l r]).
    { unfold forest2, forest1. rewrite <- !app_assoc. reflexivity. }
    rewrite <- EF. split; [reflexivity|]. split.
    + rewrite mget_cons_eq. rewrite nth_error_app2 by lia. rewrite Nat.sub_diag. reflexivity.
    + intros q Hq.
      assert (Zlr : N.lor Sl Sr <> 0%N) by (intros H0; apply N.lor_eq_0_iff in H0; tauto).
      rewrite mget_cons_ne by (apply Hq, subm_refl, Zlr).
      unfold tm2. rewrite U2 by (intros s Hs; apply Hq, subm_lor_r, Hs).
      apply U1. intros s Hs. apply Hq, subm_lor_l, Hs.
Qed.

Lemma mget_init k : forall a m, a <= k < a + m ->
  mget (bit k) (combine (map bit (seq a m)) (seq a m)) = k.
Proof.
  intros a m. revert a. induction m as [|m IH]; intros a H; [lia|].
  cbn [seq map combine mget]. destruct (N.eqb_spec (bit a) (bit k)) as [E|E].
  - apply bit_inj, E.
  - apply IH. assert (a <> k) by (intros ->; apply E; reflexivity). lia.
Qed.

Lemma nth_error_leaf_seq n k : k < n -> nth_error (map Leaf (seq 0 n)) k = Some (Leaf k).
Proof.
  intros H. rewrite (nth_error_nth' _ (Leaf 0)) by (rewrite map_length, seq_length; exact H).
  rewrite (map_nth Leaf (seq 0 n) 0 k), seq_nth by exact H. reflexivity.
Qed.

(* the ssa path produced from the stored bit path of a tree over all n tensors is a path OF that tree *)
Theorem replay_is_path_of_tree n t S : vtree n t S -> nleaves t = n ->
  ssa_tree n (replay_bitpath (bitpath t) (combine (map bit (seq 0 n)) (seq 0 n)) n) = t.
Proof.
  intros Hv Hn. unfold ssa_tree.
  assert (Hb : forall k, In k (leaves t) -> k < n).
  { apply vtree_iff in Hv. apply Hv. }
  destruct (replay_tree n t S Hv (combine (map bit (seq 0 n)) (seq 0 n)) (map Leaf (seq 0 n))) as (E & _ & _).
  { intros k Hk. rewrite mget_init by (specialize (Hb k Hk); lia). apply nth_error_leaf_seq, Hb, Hk. }
  rewrite map_length, seq_length in E. rewrite E.
  destruct t as [k|l r].
  - cbn [post_sub]. rewrite app_nil_r. cbn [nleaves] in Hn. subst n. cbn.
    specialize (Hb k (or_introl eq_refl)). f_equal. lia.
  - cbn [post_sub]. rewrite !app_assoc. apply last_last.
Qed.

(* ================================================================== *)
(* a connected network has an outer-product-free tree over all its tensors *)

Section Grow.
Variable nodes : list legs.
Variable app : list nat.
Notation n := (length nodes).
Hypothesis Happ : forall j, j < length app -> cnt_all nodes j <= appn app j.
Hypothesis Hconn : connected_prop nodes (length app).

Lemma cnt_fold_bit j x (l : list nat) : NoDup l ->
  fold_right (fun i a => if N.testbit (bit j) (N.of_nat i) then leg_count x (nth i nodes []) + a else a) 0 l
  = if memb j l then leg_count x (nth j nodes []) else 0.
Proof.
  induction l as [|i l IH]; intros Hnd; [reflexivity|].
  inversion Hnd as [|? ? Hni Hnd']; subst. cbn [fold_right]. rewrite (IH Hnd'), bit_testbit.
  unfold memb. cbn [existsb]. fold (memb j l).
  destruct (N.eqb_spec (N.of_nat j) (N.of_nat i)) as [E|E].
  - apply Nat2N.inj in E. subst i. rewrite Nat.eqb_refl. cbn [orb].
    destruct (memb j l) eqn:M; [|lia].
    exfalso. apply Hni. unfold memb in M. apply existsb_exists in M. destruct M as (y & Hy & Ey).
    apply Nat.eqb_eq in Ey. subst. exact Hy.
  - destruct (Nat.eqb_spec j i) as [->|Hne]; [congruence|]. reflexivity.
Qed.

Lemma cnt_bit j x : j < n -> cnt nodes (bit j) x = leg_count x (nth j nodes []).
Proof.
  intros Hj. unfold cnt. rewrite cnt_fold_bit by apply seq_NoDup.
  assert (M : memb j (seq 0 n) = true).
  { unfold memb. apply existsb_exists. exists j. split; [apply in_seq; lia | apply Nat.eqb_refl]. }
  rewrite M. reflexivity.
Qed.

Lemma land_bit_0 S j : N.testbit S (N.of_nat j) = false -> N.land S (bit j) = 0%N.
Proof.
  intros H. apply N.bits_inj. intros k. rewrite N.land_spec, N.bits_0, bit_testbit.
  destruct (N.eqb_spec (N.of_nat j) k) as [<-|_]; [rewrite H; reflexivity | apply andb_false_r].
Qed.

Lemma grow_step S j x : j < n -> N.testbit S (N.of_nat j) = false -> x < length app ->
  0 < cnt nodes S x -> 0 < leg_count x (nth j nodes []) ->
  shares nodes app S (bit j) = true.
Proof.
  intros Hj Hb Hx Hc Hl. unfold shares. apply existsb_exists. exists x. split; [apply in_seq; lia|].
  pose proof (land_bit_0 S j Hb) as Hd.
  assert (Hle : cnt nodes S x + cnt nodes (bit j) x <= appn app x).
  { rewrite <- (cnt_lor nodes S (bit j) x Hd). etransitivity; [apply cnt_le_all | apply Happ, Hx]. }
  rewrite (cnt_bit j x Hj) in Hle. unfold surv. rewrite (cnt_bit j x Hj).
  apply andb_true_iff. split; apply andb_true_iff; split; apply Nat.ltb_lt; lia.
Qed.

Lemma proper_exists t S m : vtree n t S -> nleaves t = m -> m < n ->
  exists i, i < n /\ N.testbit S (N.of_nat i) = false.
Proof.
  intros Hv Hm Hlt. apply vtree_iff in Hv. destruct Hv as (Hnd & Hb & ->).
  destruct (existsb (fun i => negb (N.testbit (mask t) (N.of_nat i))) (seq 0 n)) eqn:E.
  - apply existsb_exists in E. destruct E as (i & Hi & Hn). apply in_seq in Hi.
    exists i. split; [lia|]. destruct (N.testbit (mask t) (N.of_nat i)); [discriminate|reflexivity].
  - exfalso.
    assert (Hincl : incl (seq 0 n) (leaves t)).
    { intros i Hi. destruct (N.testbit (mask t) (N.of_nat i)) eqn:Tb.
      - apply mask_spec in Tb. rewrite Nat2N.id in Tb. exact Tb.
      - assert (X : existsb (fun i => negb (N.testbit (mask t) (N.of_nat i))) (seq 0 n) = true).
        { apply existsb_exists. exists i. split; [exact Hi | rewrite Tb; reflexivity]. }
        congruence. }
    pose proof (NoDup_incl_length (seq_NoDup n 0) Hincl) as Hlen.
    rewrite seq_length, <- nleaves_length in Hlen. lia.
Qed.

Lemma outer_free_trees : 1 <= n -> forall m, 1 <= m <= n ->
  exists t S, vtree n t S /\ nleaves t = m /\ outer_free nodes app t = true.
Proof.
  intros Hn m. induction m as [|m IH]; intros Hm; [lia|].
  destruct (Nat.eq_dec m 0) as [->|Hm0].
  - exists (Leaf 0), (bit 0). split; [constructor; lia|]. split; reflexivity.
  - destruct IH as (t & S & Hv & Hnl & Hof); [lia|].
    destruct (proper_exists t S m Hv Hnl ltac:(lia)) as (i & Hi & Hbi).
    destruct (Hconn S (vtree_nonzero _ _ _ Hv)) as (j & x & Hj & Hbj & Hx & Hc & Hl).
    + intros k Hk. apply vtree_iff in Hv. destruct Hv as (_ & Hb & ->).
      apply Hb. apply mask_spec in Hk. rewrite Nat2N.id in Hk. exact Hk.
    + exists i. auto.
    + exists (Node t (Leaf j)), (N.lor S (bit j)).
      split; [constructor; [exact Hv | constructor; exact Hj | apply land_bit_0, Hbj]|].
      split; [cbn [nleaves]; lia|].
      cbn [outer_free mask]. rewrite Hof, (vtree_mask _ _ _ Hv). cbn [andb].
      apply (grow_step S j x Hj Hbj Hx Hc Hl).
Qed.

(* hence: an admissible tree over all tensors exists whatever search_outer is *)
Theorem connected_has_outer_free_tree : 1 <= n ->
  exists t, full_tree n t /\ outer_free nodes app t = true.
Proof.
  intros Hn. destruct (outer_free_trees Hn n ltac:(lia)) as (t & S & Hv & Hnl & Hof).
  exists t. split; [exact (vtree_full _ _ _ Hv Hnl) | exact Hof].
Qed.

End Grow.

(* ================================================================== *)
(* rational weights: the scaled integer objectives *)

Lemma tscoreQ_den1 nodes app szs f t :
  tscore nodes app szs (OComboQ f 1) t = tscore nodes app szs (OCombo f) t /\
  tscore nodes app szs (OLimitQ f 1) t = tscore nodes app szs (OLimit f) t.
Proof.
  induction t as [k|l [IHl1 IHl2] r [IHr1 IHr2]]; cbn [tscore]; [split; reflexivity|].
  rewrite IHl1, IHr1, IHl2, IHr2. cbn [combine_sc step_cost]. rewrite !Z.mul_1_l. split; reflexivity.
Qed.

(* only the ratio num/den matters: multiplying both by c >= 0 multiplies every score by c, so the
   order of trees (and the argmin) for num/den is that of the rational objective
   sum (flops + (num/den) * size), resp. sum max(flops, (num/den) * size), scaled by den *)
Lemma tscoreQ_homogeneous nodes app szs c n d t : (0 <= c)%Z ->
  tscore nodes app szs (OComboQ (c * n) (c * d)) t = (c * tscore nodes app szs (OComboQ n d) t)%Z /\
  tscore nodes app szs (OLimitQ (c * n) (c * d)) t = (c * tscore nodes app szs (OLimitQ n d) t)%Z.
Proof.
  intros Hc. induction t as [k|l [IHl1 IHl2] r [IHr1 IHr2]]; cbn [tscore]; [split; lia|].
  rewrite IHl1, IHr1, IHl2, IHr2. cbn [combine_sc step_cost]. split; [ring|].
  rewrite <- !Z.mul_assoc, Z.mul_max_distr_nonneg_l by exact Hc. ring.
Qed.

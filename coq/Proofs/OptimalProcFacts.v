From Coq Require Import ZArith NArith List Bool Lia ZifyBool Permutation.
From Ctg Require Import Base Net Optimal OptimalFacts OptimalProc.
Import ListNotations.
Open Scope nat_scope.

(* OptimalProcFacts.v -- lemmas about Model/OptimalProc.v: the search of subgraphs(), the initial
   processor state, simplify() and subgraphs() on precondition networks, and the top-level theorems *)

(* ================================================================== *)
(* the search of subgraphs(): generic facts *)
Section BFS.
Variable n : nat.
Variable nb : nat -> list nat.
Hypothesis Hrange : forall i j, In j (nb i) -> j < n.

(* every element after the first was discovered as a neighbour of an earlier one *)
Inductive chain : list nat -> Prop :=
| chain1 i : chain [i]
| chain_snoc g j i : chain g -> In i g -> In j (nb i) -> chain (g ++ [j]).

Definition J0 (q g : list nat) : Prop :=
  NoDup g /\ (forall x, In x g -> x < n) /\ incl q g /\ NoDup q /\ chain g.

Lemma memb_true_In j l : memb j l = true <-> In j l.
Proof.
  unfold memb. rewrite existsb_exists. split.
  - intros (x & Hx & E). apply Nat.eqb_eq in E. subst. exact Hx.
  - intros H. exists j. split; [exact H | apply Nat.eqb_refl].
Qed.
Lemma memb_false_nIn j l : memb j l = false <-> ~ In j l.
Proof. rewrite <- memb_true_In. destruct (memb j l); split; intros; congruence. Qed.

Lemma visit_fold i l : forall q g,
  (forall j, In j l -> In j (nb i)) -> In i g -> J0 q g ->
  let st := fold_left bfs_visit l (q, g) in
  J0 (fst st) (snd st) /\ incl g (snd st) /\ incl l (snd st) /\ incl q (fst st) /\
  (forall y, In y (snd st) -> In y g \/ In y (fst st)) /\
  length (fst st) + length g = length q + length (snd st).
Proof.
  induction l as [|j l IH]; intros q g Hl Hi HJ; cbv zeta; cbn [fold_left fst snd].
  - split; [exact HJ|]. split; [apply incl_refl|]. split; [intros ? []|]. split; [apply incl_refl|].
    split; [auto | lia].
  - destruct (memb j g) eqn:M.
    + assert (Ev : bfs_visit (q, g) j = (q, g)) by (unfold bfs_visit; cbn [fst snd]; rewrite M; reflexivity).
      rewrite Ev.
      destruct (IH q g (fun y Hy => Hl y (or_intror Hy)) Hi HJ) as (A & B & C & D & E & F).
      split; [exact A|]. split; [exact B|]. split; [|split; [exact D | split; [exact E | exact F]]].
      intros y [<-|Hy]; [apply B, memb_true_In, M | apply C, Hy].
    + assert (Ev : bfs_visit (q, g) j = (j :: q, g ++ [j])) by (unfold bfs_visit; cbn [fst snd]; rewrite M; reflexivity).
      rewrite Ev.
      apply memb_false_nIn in M. destruct HJ as (Hnd & Hr & Hq & Hndq & Hch).
      assert (HJ' : J0 (j :: q) (g ++ [j])).
      { split; [apply NoDup_snoc; assumption|].
        split; [intros x Hx; apply in_app_iff in Hx; destruct Hx as [Hx|[<-|[]]];
                [apply Hr, Hx | apply (Hrange i), Hl; left; reflexivity]|].
        split; [intros y [<-|Hy]; apply in_app_iff; [right; left; reflexivity | left; apply Hq, Hy]|].
        split; [constructor; [intros Hj; apply M, Hq, Hj | exact Hndq]|].
        apply (chain_snoc g j i Hch Hi). apply Hl. left; reflexivity. }
      destruct (IH (j :: q) (g ++ [j]) (fun y Hy => Hl y (or_intror Hy))
                   ltac:(apply in_app_iff; left; exact Hi) HJ') as (A & B & C & D & E & F).
      split; [exact A|].
      split; [intros y Hy; apply B, in_app_iff; left; exact Hy|].
      split; [intros y [<-|Hy]; [apply B, in_app_iff; right; left; reflexivity | apply C, Hy]|].
      split; [intros y Hy; apply D; right; exact Hy|].
      split.
      * intros y Hy. destruct (E y Hy) as [H1|H1]; [|right; exact H1].
        apply in_app_iff in H1. destruct H1 as [H1|[<-|[]]]; [left; exact H1|].
        right. apply D. left; reflexivity.
      * rewrite app_length in F. cbn [length] in F. lia.
Qed.

Lemma J0_len q g : J0 q g -> length g <= n.
Proof.
  intros (Hnd & Hr & _). rewrite <- (seq_length n 0). apply NoDup_incl_length; [exact Hnd|].
  intros x Hx. apply in_seq. specialize (Hr x Hx). lia.
Qed.

Definition closedq (q g : list nat) : Prop := forall a, In a g -> ~ In a q -> incl (nb a) g.

Lemma bfs_spec : forall fuel q g, J0 q g -> closedq q g -> length q + (n - length g) <= fuel ->
  let r := bfs_loop nb fuel q g in
  NoDup r /\ (forall x, In x r -> x < n) /\ chain r /\ incl g r /\ (forall a, In a r -> incl (nb a) r).
Proof.
  induction fuel as [|f IH]; intros q g HJ HC Hm; cbv zeta; cbn [bfs_loop].
  - destruct q as [|i q]; [|cbn [length] in Hm; lia].
    destruct HJ as (Hnd & Hr & _ & _ & Hch). split; [exact Hnd|]. split; [exact Hr|]. split; [exact Hch|].
    split; [apply incl_refl|]. intros a Ha. apply HC; [exact Ha | intros []].
  - destruct q as [|i q].
    + destruct HJ as (Hnd & Hr & _ & _ & Hch). split; [exact Hnd|]. split; [exact Hr|]. split; [exact Hch|].
      split; [apply incl_refl|]. intros a Ha. apply HC; [exact Ha | intros []].
    + assert (HJq : J0 q g).
      { destruct HJ as (Hnd & Hr & Hq & Hndq & Hch). split; [exact Hnd|]. split; [exact Hr|].
        split; [intros y Hy; apply Hq; right; exact Hy|]. split; [inversion Hndq; assumption | exact Hch]. }
      assert (Hig : In i g) by (destruct HJ as (_ & _ & Hq & _); apply Hq; left; reflexivity).
      assert (Hiq : ~ In i q) by (destruct HJ as (_ & _ & _ & Hndq & _); inversion Hndq; assumption).
      destruct (visit_fold i (nb i) q g (fun j H => H) Hig HJq) as (A & B & C & D & E & F).
      set (st := fold_left bfs_visit (nb i) (q, g)) in *.
      pose proof (J0_len _ _ A) as L'. pose proof (J0_len _ _ HJq) as L.
      destruct (IH (fst st) (snd st) A) as (R1 & R2 & R3 & R4 & R5).
      * intros a Ha Hna. destruct (Nat.eq_dec a i) as [->|Hne]; [exact C|].
        destruct (E a Ha) as [Hag|Haq]; [|contradiction].
        intros y Hy. apply B. apply (HC a Hag); [|exact Hy].
        intros [Hx|Hx]; [congruence | apply Hna, D, Hx].
      * cbn [length] in Hm. lia.
      * split; [exact R1|]. split; [exact R2|]. split; [exact R3|]. split; [|exact R5].
        intros y Hy. apply R4, B, Hy.
Qed.

Lemma bfs_from i0 : i0 < n ->
  let r := bfs_loop nb n [i0] [i0] in
  NoDup r /\ (forall x, In x r -> x < n) /\ chain r /\ In i0 r /\ (forall a, In a r -> incl (nb a) r).
Proof.
  intros Hi. cbv zeta.
  destruct (bfs_spec n [i0] [i0]) as (R1 & R2 & R3 & R4 & R5).
  - split; [constructor; [intros []|constructor]|]. split; [intros x [<-|[]]; exact Hi|].
    split; [apply incl_refl|]. split; [constructor; [intros []|constructor] | constructor].
  - intros a [<-|[]] Hna. exfalso. apply Hna. left; reflexivity.
  - cbn [length]. lia.
  - split; [exact R1|]. split; [exact R2|]. split; [exact R3|]. split; [apply R4; left; reflexivity | exact R5].
Qed.

(* along a chain, a boolean predicate that is not constant changes across some discovery edge *)
Lemma chain_crossing (P : nat -> bool) g : chain g ->
  (exists y, In y g /\ P y <> P (hd 0 g)) ->
  exists i j, In i g /\ In j g /\ In j (nb i) /\ P i = P (hd 0 g) /\ P j <> P (hd 0 g).
Proof.
  induction 1 as [i|g j i Hch IH Hi Hj]; intros (y & Hy & Hp).
  - destruct Hy as [<-|[]]. cbn in Hp. congruence.
  - assert (Hhd : hd 0 (g ++ [j]) = hd 0 g).
    { destruct g; [inversion Hch; destruct g; discriminate | reflexivity]. }
    rewrite Hhd in *.
    destruct (existsb (fun y => negb (Bool.eqb (P y) (P (hd 0 g)))) g) eqn:Ex.
    + apply existsb_exists in Ex. destruct Ex as (z & Hz & Hzp).
      destruct IH as (a & b & Ha & Hb & Hab & Pa & Pb).
      { exists z. split; [exact Hz|]. intros E. rewrite E, Bool.eqb_reflx in Hzp. discriminate. }
      exists a, b. repeat split; try assumption; apply in_app_iff; left; assumption.
    + assert (Hall : forall z, In z g -> P z = P (hd 0 g)).
      { intros z Hz. destruct (Bool.eqb (P z) (P (hd 0 g))) eqn:E; [apply Bool.eqb_prop, E|].
        exfalso. assert (X : existsb (fun y => negb (Bool.eqb (P y) (P (hd 0 g)))) g = true).
        { apply existsb_exists. exists z. split; [exact Hz | rewrite E; reflexivity]. }
        congruence. }
      apply in_app_iff in Hy. destruct Hy as [Hy|[<-|[]]]; [elim Hp; apply Hall, Hy|].
      exists i, j. split; [apply in_app_iff; left; exact Hi|]. split; [apply in_app_iff; right; left; reflexivity|].
      split; [exact Hj|]. split; [apply Hall, Hi | exact Hp].
Qed.

End BFS.

(* ================================================================== *)
(* the initial processor state of a well-formed network *)

Lemma nget_combine_some {V} (l : list V) d : forall a i, a <= i < a + length l ->
  nget i (combine (seq a (length l)) l) = Some (nth (i - a) l d).
Proof.
  induction l as [|y l IH]; intros a i H; cbn [length] in *; [lia|]. cbn [seq combine nget].
  destruct (Nat.eqb_spec a i) as [->|Hne]; [rewrite Nat.sub_diag; reflexivity|].
  rewrite IH by lia. replace (i - a) with (S (i - S a)) by lia. reflexivity.
Qed.
Lemma nget_combine_none {V} (l : list V) : forall a i, ~ (a <= i < a + length l) ->
  nget i (combine (seq a (length l)) l) = None.
Proof.
  induction l as [|y l IH]; intros a i H; cbn [length seq combine nget] in *; [reflexivity|].
  destruct (Nat.eqb_spec a i) as [->|Hne]; [lia|]. apply IH. lia.
Qed.
Lemma nget_map_seq_some {V} (f : nat -> V) : forall m a x, a <= x < a + m ->
  nget x (map (fun k => (k, f k)) (seq a m)) = Some (f x).
Proof.
  induction m as [|m IH]; intros a x H; [lia|]. cbn [seq map nget].
  destruct (Nat.eqb_spec a x) as [->|Hne]; [reflexivity|]. apply IH. lia.
Qed.

Lemma leg_count_pos_key x l : 0 < leg_count x l -> has_key x l = true.
Proof.
  unfold has_key, leg_count. induction l as [|[k c] l IH]; cbn [fold_right map fst]; intros H; [lia|].
  apply memb_true_In. cbn [In].
  destruct (Nat.eqb_spec k x) as [->|Hne]; [left; reflexivity|]. right. apply memb_true_In, IH, H.
Qed.

Lemma cnt_ge_member nodes S a x : a < length nodes -> N.testbit S (N.of_nat a) = true ->
  leg_count x (nth a nodes []) <= cnt nodes S x.
Proof.
  intros Ha Hb. unfold cnt.
  assert (G : forall l, In a l ->
     leg_count x (nth a nodes []) <=
     fold_right (fun i acc => if N.testbit S (N.of_nat i) then leg_count x (nth i nodes []) + acc else acc) 0 l).
  { induction l as [|i l IH]; [intros []|]. intros [->|Hin]; cbn [fold_right].
    - rewrite Hb. lia.
    - specialize (IH Hin). destruct (N.testbit S (N.of_nat i)); lia. }
  apply G. apply in_seq. split; [apply Nat.le_0_l | exact Ha].
Qed.

Lemma cnt_pos_witness nodes S x : 0 < cnt nodes S x ->
  exists i, i < length nodes /\ N.testbit S (N.of_nat i) = true /\ 0 < leg_count x (nth i nodes []).
Proof.
  unfold cnt.
  assert (G : forall l, 0 < fold_right (fun i acc => if N.testbit S (N.of_nat i) then leg_count x (nth i nodes []) + acc else acc) 0 l ->
              exists i, In i l /\ N.testbit S (N.of_nat i) = true /\ 0 < leg_count x (nth i nodes [])).
  { induction l as [|i l IH]; cbn [fold_right]; [lia|]. intros H.
    destruct (N.testbit S (N.of_nat i)) eqn:Tb.
    - destruct (Nat.eq_dec (leg_count x (nth i nodes [])) 0) as [E|E].
      + destruct (IH ltac:(lia)) as (k & Hk & Hb & Hp). exists k. split; [right; exact Hk | auto].
      + exists i. split; [left; reflexivity|]. split; [exact Tb | lia].
    - destruct (IH H) as (k & Hk & Hb & Hp). exists k. split; [right; exact Hk | auto]. }
  intros H. destruct (G _ H) as (i & Hi & Hb & Hp). apply in_seq in Hi. exists i. split; [lia | auto].
Qed.

Fixpoint lmask (l : list nat) : N := match l with [] => 0%N | i :: l' => N.lor (bit i) (lmask l') end.
Lemma lmask_spec l : forall k, N.testbit (lmask l) k = true <-> In (N.to_nat k) l.
Proof.
  induction l as [|i l IH]; intros k; cbn [lmask In].
  - rewrite N.bits_0. split; [discriminate | intros []].
  - rewrite N.lor_spec, orb_true_iff, IH, bit_testbit. split.
    + intros [H|H]; [left; apply N.eqb_eq in H; subst k; symmetry; apply Nat2N.id | right; exact H].
    + intros [H|H]; [left; subst i; rewrite N2Nat.id; apply N.eqb_refl | right; exact H].
Qed.

Section CP.
Variable nodes : list legs.
Variable app : list nat.
Variable szs : list Z.
Notation n := (length nodes).
Notation nix := (length app).
Notation p := (mkProc nodes app szs).
Notation nb := (neighbors (cp_of p)).
Hypothesis Hleaf : forall i, i < n -> nth i nodes [] = legs_of nodes app (bit i).

Lemma key_facts i x : i < n -> has_key x (nth i nodes []) = true ->
  x < nix /\ 0 < leg_count x (nth i nodes []) /\ leg_count x (nth i nodes []) < appn app x.
Proof.
  intros Hi Hk. unfold has_key in Hk. apply memb_true_In in Hk. apply in_map_iff in Hk.
  destruct Hk as ([y c] & <- & Hin). cbn [fst]. rewrite (Hleaf i Hi) in Hin.
  unfold legs_of in Hin. apply in_flat_map in Hin. destruct Hin as (j & Hj & Hin).
  destruct (surv nodes app (bit i) j) eqn:Sv; [|destruct Hin]. destruct Hin as [E|[]]. inversion E; subst j c.
  apply in_seq in Hj. unfold surv in Sv. rewrite (cnt_bit nodes i y Hi) in Sv.
  apply andb_true_iff in Sv. destruct Sv as [S1 S2]. apply Nat.ltb_lt in S1. apply Nat.ltb_lt in S2. lia.
Qed.

Lemma nb_spec i j : In j (nb i) <->
  i < n /\ j < n /\ j <> i /\ exists x, has_key x (nth i nodes []) = true /\ has_key x (nth j nodes []) = true.
Proof.
  unfold neighbors, cp_of. cbn [cp_nodes cp_edges p_nodes p_app].
  destruct (Nat.lt_ge_cases i n) as [Hi|Hi].
  2:{ match goal with |- context [@nget ?V i ?c] =>
        assert (E : @nget V i c = None) by (apply (nget_combine_none nodes 0 i); lia) end.
      rewrite E. split; [intros [] | intros (H & _); lia]. }
  match goal with |- context [@nget ?V i ?c] =>
    assert (E : @nget V i c = Some (nth i nodes [])) by
      (rewrite <- (Nat.sub_0_r i) at 2; apply (nget_combine_some nodes [] 0 i); lia) end.
  rewrite E. clear E.
  rewrite in_flat_map. split.
  - intros ([x c] & Hkv & Hin). cbn [fst] in Hin.
    assert (Hk : has_key x (nth i nodes []) = true).
    { unfold has_key. apply memb_true_In, in_map_iff. exists (x, c). split; [reflexivity | exact Hkv]. }
    destruct (key_facts i x Hi Hk) as (Hx & _).
    unfold edges_of in Hin.
    match type of Hin with context [@nget ?V x ?c] =>
      assert (E : @nget V x c = Some (filter (fun k => has_key x (nth k nodes [])) (seq 0 n)))
      by (apply (nget_map_seq_some (fun x => filter (fun k => has_key x (nth k nodes [])) (seq 0 n)) nix 0 x); lia) end.
    rewrite E in Hin. clear E.
    apply filter_In in Hin. destruct Hin as [Hin Hne]. apply filter_In in Hin. destruct Hin as [Hjn Hkj].
    apply in_seq in Hjn. split; [exact Hi|]. split; [lia|].
    split; [intros ->; rewrite Nat.eqb_refl in Hne; discriminate|]. exists x. auto.
  - intros (_ & Hj & Hne & x & Hki & Hkj).
    destruct (key_facts i x Hi Hki) as (Hx & _).
    pose proof Hki as Hki'. unfold has_key in Hki'. apply memb_true_In, in_map_iff in Hki'.
    destruct Hki' as ([y c] & Ey & Hkv). cbn [fst] in Ey. subst y.
    exists (x, c). split; [exact Hkv|]. cbn [fst]. unfold edges_of.
    match goal with |- context [@nget ?V x ?c] =>
      assert (E : @nget V x c = Some (filter (fun k => has_key x (nth k nodes [])) (seq 0 n)))
      by (apply (nget_map_seq_some (fun x => filter (fun k => has_key x (nth k nodes [])) (seq 0 n)) nix 0 x); lia) end.
    rewrite E. clear E.
    apply filter_In. split; [apply filter_In; split; [apply in_seq; lia | exact Hkj]|].
    destruct (Nat.eqb_spec j i); [contradiction | reflexivity].
Qed.

Lemma nb_range i j : In j (nb i) -> j < n.
Proof. intros H. apply nb_spec in H. tauto. Qed.

(* a connected network: the search reaches every tensor from every start *)
Lemma bfs_reaches_all i0 : connected_prop nodes nix -> i0 < n ->
  forall k, k < n -> In k (bfs_loop nb n [i0] [i0]).
Proof.
  intros Hc Hi0 k Hk.
  destruct (bfs_from n nb nb_range i0 Hi0) as (Hnd & Hr & _ & Hin0 & Hcl).
  set (r := bfs_loop nb n [i0] [i0]) in *.
  destruct (in_dec Nat.eq_dec k r) as [Hin|Hnin]; [exact Hin|exfalso].
  destruct (Hc (lmask r)) as (j & x & Hj & Hbj & Hx & Hcnt & Hl).
  - intros E. assert (X : N.testbit (lmask r) (N.of_nat i0) = true) by (apply lmask_spec; rewrite Nat2N.id; exact Hin0).
    rewrite E, N.bits_0 in X. discriminate.
  - intros k' Hk'. apply lmask_spec in Hk'. rewrite Nat2N.id in Hk'. apply Hr, Hk'.
  - exists k. split; [exact Hk|]. destruct (N.testbit (lmask r) (N.of_nat k)) eqn:Tb; [|reflexivity].
    apply lmask_spec in Tb. rewrite Nat2N.id in Tb. contradiction.
  - destruct (cnt_pos_witness nodes _ x Hcnt) as (i & Hi & Hbi & Hli).
    apply lmask_spec in Hbi. rewrite Nat2N.id in Hbi.
    assert (Hjr : ~ In j r).
    { intros Hjr. assert (X : N.testbit (lmask r) (N.of_nat j) = true) by (apply lmask_spec; rewrite Nat2N.id; exact Hjr).
      congruence. }
    apply Hjr. apply (Hcl i Hbi). apply nb_spec. split; [exact Hi|]. split; [exact Hj|].
    split; [intros ->; contradiction|]. exists x. split; apply leg_count_pos_key; assumption.
Qed.

Lemma fold_visit_prefix l : forall q g, exists tl, snd (fold_left bfs_visit l (q, g)) = g ++ tl.
Proof.
  induction l as [|j l IH]; intros q g; cbn [fold_left].
  - exists []. rewrite app_nil_r. reflexivity.
  - unfold bfs_visit at 2. cbn [fst snd]. destruct (memb j g).
    + apply IH.
    + destruct (IH (j :: q) (g ++ [j])) as [tl E]. exists (j :: tl). rewrite E, <- app_assoc. reflexivity.
Qed.

Lemma bfs_prefix (nb' : nat -> list nat) : forall fuel q g, exists tl, bfs_loop nb' fuel q g = g ++ tl.
Proof.
  induction fuel as [|f IH]; intros q g; cbn [bfs_loop].
  - exists []. rewrite app_nil_r. reflexivity.
  - destruct q as [|i q]; [exists []; rewrite app_nil_r; reflexivity|].
    destruct (fold_visit_prefix (nb' i) q g) as [tl1 E1].
    destruct (IH (fst (fold_left bfs_visit (nb' i) (q, g))) (snd (fold_left bfs_visit (nb' i) (q, g)))) as [tl2 E2].
    exists (tl1 ++ tl2). rewrite E2, E1, <- app_assoc. reflexivity.
Qed.

(* the executable connectivity test implies the cut form *)
Lemma connected_b_prop : connected_b p = true -> connected_prop nodes nix.
Proof.
  unfold connected_b. cbn [p_nodes]. intros H. apply andb_true_iff in H. destruct H as [Hn Hlen].
  apply Nat.leb_le in Hn. apply Nat.eqb_eq in Hlen.
  destruct (bfs_from n nb nb_range 0 ltac:(lia)) as (Hnd & Hr & Hch & Hin0 & _).
  set (r := bfs_loop nb n [0] [0]) in *.
  assert (Hall : forall k, k < n -> In k r).
  { assert (Hincl : incl (seq 0 n) r).
    { apply NoDup_length_incl; [exact Hnd | rewrite seq_length; lia|].
      intros y Hy. apply in_seq. specialize (Hr y Hy). lia. }
    intros k Hk. apply Hincl, in_seq. lia. }
  assert (Hhd : hd 0 r = 0).
  { destruct (bfs_prefix nb n [0] [0]) as [tl E]. fold r in E. rewrite E. reflexivity. }
  intros S HS0 HSr (i & Hi & Hbi).
  set (P := fun y => N.testbit S (N.of_nat y)).
  assert (Hex : exists y, In y r /\ P y <> P (hd 0 r)).
  { rewrite Hhd. destruct (P 0) eqn:P0.
    - exists i. split; [apply Hall, Hi|]. unfold P. rewrite Hbi. discriminate.
    - pose proof (N.bit_log2 S HS0) as Hb. exists (N.to_nat (N.log2 S)).
      assert (Hlt : N.to_nat (N.log2 S) < n) by (apply HSr; rewrite N2Nat.id; exact Hb).
      split; [apply Hall, Hlt|]. unfold P. rewrite N2Nat.id, Hb. discriminate. }
  destruct (chain_crossing nb P r Hch Hex) as (a & b & Ha & Hb & Hab & Pa & Pb).
  rewrite Hhd in Pa, Pb. apply nb_spec in Hab. destruct Hab as (Han & Hbn & Hne & x & Hka & Hkb).
  destruct (key_facts a x Han Hka) as (Hx & Hpa & _). destruct (key_facts b x Hbn Hkb) as (_ & Hpb & _).
  destruct (P 0) eqn:P0.
  - exists b, x. split; [exact Hbn|]. split; [unfold P in Pb; destruct (N.testbit S (N.of_nat b)); congruence|].
    split; [exact Hx|]. split; [|exact Hpb].
    eapply Nat.lt_le_trans; [exact Hpa | exact (cnt_ge_member nodes S a x Han Pa)].
  - exists a, x. split; [exact Han|]. split; [exact Pa|]. split; [exact Hx|]. split; [|exact Hpa].
    assert (Tb : N.testbit S (N.of_nat b) = true) by (unfold P in Pb; destruct (N.testbit S (N.of_nat b)); congruence).
    eapply Nat.lt_le_trans; [exact Hpb | exact (cnt_ge_member nodes S b x Hbn Tb)].
Qed.

End CP.

(* ================================================================== *)
(* simplify() and subgraphs() on a precondition network *)

Lemma fold_left_same {A B} (f : A -> B -> A) l : (forall b, In b l -> forall a, f a b = a) ->
  forall a, fold_left f l a = a.
Proof.
  induction l as [|b l IH]; intros H a; cbn [fold_left]; [reflexivity|].
  rewrite (H b (or_introl eq_refl)). apply IH. intros b' Hb'. apply H. right; exact Hb'.
Qed.

Lemma filter_nil_forallb {A} (f : A -> bool) l : forallb (fun x => negb (f x)) l = true -> filter f l = [].
Proof.
  induction l as [|x l IH]; cbn [forallb filter]; [reflexivity|]. intros H. apply andb_true_iff in H.
  destruct H as [H1 H2]. destruct (f x); [discriminate | apply IH, H2].
Qed.
Lemma filter_all {A} (f : A -> bool) l : (forall x, In x l -> f x = true) -> filter f l = l.
Proof.
  induction l as [|x l IH]; intros H; cbn [filter]; [reflexivity|].
  rewrite (H x (or_introl eq_refl)), IH; [reflexivity|]. intros y Hy. apply H. right; exact Hy.
Qed.
Lemma filter_none {A} (f : A -> bool) l : (forall x, In x l -> f x = false) -> filter f l = [].
Proof.
  induction l as [|x l IH]; intros H; cbn [filter]; [reflexivity|].
  rewrite (H x (or_introl eq_refl)). apply IH. intros y Hy. apply H. right; exact Hy.
Qed.

Lemma nat_list_eqb_eq (a b : list nat) : list_eqb Nat.eqb a b = true -> a = b.
Proof.
  revert b. induction a as [|x a IH]; intros [|y b]; cbn [list_eqb]; try discriminate; [reflexivity|].
  intros H. apply andb_true_iff in H. destruct H as [H1 H2]. apply Nat.eqb_eq in H1. subst. f_equal. apply IH, H2.
Qed.
Lemma nat_list_eqb_refl (a : list nat) : list_eqb Nat.eqb a a = true.
Proof. induction a as [|x a IH]; cbn [list_eqb]; [reflexivity|]. rewrite Nat.eqb_refl, IH. reflexivity. Qed.

Lemma distinct_filter_le1 {V} (ks : V -> list nat) (L : list V) :
  distinct_keys (map ks L) = true ->
  forall key, length (filter (fun il => list_eqb Nat.eqb (ks il) key) L) <= 1.
Proof.
  induction L as [|x L IH]; cbn [map distinct_keys filter]; intros H key; [cbn; lia|].
  apply andb_true_iff in H. destruct H as [H1 H2].
  destruct (list_eqb Nat.eqb (ks x) key) eqn:E; [|apply IH, H2].
  apply nat_list_eqb_eq in E. subst key. cbn [length].
  rewrite filter_none; [cbn; lia|]. intros y Hy.
  rewrite forallb_forall in H1. specialize (H1 (ks y) (in_map ks L y Hy)).
  destruct (list_eqb Nat.eqb (ks y) (ks x)); [discriminate | reflexivity].
Qed.

Lemma simplifiable_fm (appf : nat -> nat) f : forall len lo prev,
  match prev with Some q => q < lo | None => True end ->
  (forall j c, f j = Some c -> c <> appf j) ->
  is_simplifiable_go appf prev (fm f (seq lo len)) = false.
Proof.
  induction len as [|len IH]; intros lo prev Hp Hf; cbn [seq]; [reflexivity|].
  rewrite fm_cons. destruct (f lo) as [c|] eqn:E.
  - cbn [is_simplifiable_go].
    assert (X : (match prev with Some p => lo =? p | None => false end) = false).
    { destruct prev as [q|]; [|reflexivity]. destruct (Nat.eqb_spec lo q); [lia|reflexivity]. }
    rewrite X. destruct (Nat.eqb_spec c (appf lo)) as [Ec|_]; [exfalso; exact (Hf lo c E Ec)|].
    cbn [orb]. apply IH; [lia | exact Hf].
  - apply IH; [destruct prev; [lia|exact I] | exact Hf].
Qed.

Lemma scalars_scan_nonempty nodes : (forall il, In il nodes -> length (snd il) <> 0) ->
  forall sc j, fst (scalars_scan nodes sc j) = sc.
Proof.
  induction nodes as [|[i lg] nodes IH]; intros H sc j; cbn [scalars_scan]; [reflexivity|].
  pose proof (H (i, lg) (or_introl eq_refl)) as Hl. cbn [snd] in Hl.
  destruct (Nat.eqb_spec (length lg) 0); [contradiction|].
  assert (H' : forall il, In il nodes -> length (snd il) <> 0) by (intros il Hil; apply H; right; exact Hil).
  destruct j as [[jn jd]|]; [destruct (length lg <? jd)|]; apply IH, H'.
Qed.

Lemma map_fst_combine_seq {V} (l : list V) : forall a, map fst (combine (seq a (length l)) l) = seq a (length l).
Proof. induction l as [|y l IH]; intros a; cbn [length seq combine map fst]; [reflexivity|]. rewrite IH. reflexivity. Qed.
Lemma map_snd_combine_seq {V} (l : list V) : forall a, map snd (combine (seq a (length l)) l) = l.
Proof. induction l as [|y l IH]; intros a; cbn [length seq combine map snd]; [reflexivity|]. rewrite IH. reflexivity. Qed.

Lemma subgraphs_loop_single nb N : 1 <= N -> (forall k, k < N -> In k (bfs_loop nb N [0] [0])) ->
  subgraphs_loop nb (seq 0 N) N (seq 0 N) [] = [seq 0 N].
Proof.
  intros HN Hg. destruct N as [|m]; [lia|].
  change (subgraphs_loop nb (seq 0 (S m)) (S m) (seq 0 (S m)) []) with
    (let g := bfs_loop nb (length (seq 0 (S m))) [0] [0] in
     subgraphs_loop nb (seq 0 (S m)) m (filter (fun k => negb (memb k g)) (seq 0 (S m)))
                    ([] ++ [filter (fun k => memb k g) (seq 0 (S m))])).
  cbv zeta. rewrite seq_length.
  rewrite filter_none, filter_all.
  - destruct m; reflexivity.
  - intros k Hk. apply memb_true_In, Hg. apply in_seq in Hk. lia.
  - intros k Hk. apply in_seq in Hk. rewrite (proj2 (memb_true_In k _)); [reflexivity | apply Hg; lia].
Qed.

Lemma map_seq_eq {V} (f : nat -> V) (l : list V) d : forall a,
  (forall k, k < length l -> f (a + k) = nth k l d) -> map f (seq a (length l)) = l.
Proof.
  induction l as [|y l IH]; intros a H; cbn [length seq map]; [reflexivity|].
  rewrite <- (Nat.add_0_r a) at 1. rewrite (H 0) by (cbn; lia). cbn [nth]. f_equal.
  apply IH. intros k Hk. replace (S a + k) with (a + S k) by lia. rewrite (H (S k)) by (cbn; lia). reflexivity.
Qed.

Section NoSimp.
Variable nodes : list legs.
Variable app : list nat.
Variable szs : list Z.
Notation n := (length nodes).
Notation nix := (length app).
Notation p := (mkProc nodes app szs).
Notation c := (cp_of p).
Hypothesis Hleaf : forall i, i < n -> nth i nodes [] = legs_of nodes app (bit i).
Hypothesis Hns : nosimp_b p = true.

Lemma cp_nodes_len : length (cp_nodes c) = n.
Proof. cbn [cp_of cp_nodes p_nodes]. rewrite combine_length, seq_length. apply Nat.min_id. Qed.

Lemma in_cp_nodes i lg : In (i, lg) (cp_nodes c) -> i < n /\ lg = nth i nodes [].
Proof.
  cbn [cp_of cp_nodes p_nodes]. intros H. apply (in_combine_seq nodes [] 0) in H.
  destruct H as [H1 H2]. rewrite Nat.sub_0_r in H2. split; [lia | exact H2].
Qed.

Lemma nosimp_parts :
  (forall l, In l nodes -> length l <> 0) /\
  distinct_keys (map keyset nodes) = true /\
  filter (fun e => Nat.leb n (length (snd e))) (edges_of nodes nix) = [].
Proof.
  unfold nosimp_b in Hns. cbn [p_nodes p_app] in Hns.
  apply andb_true_iff in Hns. destruct Hns as [H12 H3]. apply andb_true_iff in H12. destruct H12 as [H1 H2].
  split; [|split; [exact H2 | apply filter_nil_forallb, H3]].
  intros l Hl. rewrite forallb_forall in H1. specialize (H1 l Hl).
  destruct (Nat.eqb_spec (length l) 0); [discriminate | assumption].
Qed.

Lemma batch_noop : simplify_batch c = c.
Proof.
  unfold simplify_batch. rewrite cp_nodes_len. cbn [cp_of cp_edges p_nodes p_app].
  destruct nosimp_parts as (_ & _ & E). rewrite E. reflexivity.
Qed.

Lemma leaf_not_simplifiable i : i < n -> is_simplifiable (app_of c) (nth i nodes []) = false.
Proof.
  intros Hi. rewrite (Hleaf i Hi), legs_of_fm. unfold is_simplifiable.
  apply simplifiable_fm; [exact I|]. intros j cj E. unfold hS in E.
  destruct (surv nodes app (bit i) j) eqn:Sv; [|discriminate]. inversion E; subst cj.
  unfold surv in Sv. apply andb_true_iff in Sv. destruct Sv as [_ S2]. apply Nat.ltb_lt in S2.
  unfold app_of. cbn [cp_of cp_app p_app]. unfold appn in S2. lia.
Qed.

Lemma single_noop : simplify_single_terms c = c.
Proof.
  unfold simplify_single_terms. apply fold_left_same. intros [i lg] Hin c'.
  apply in_cp_nodes in Hin. destruct Hin as [Hi ->]. rewrite (leaf_not_simplifiable i Hi). reflexivity.
Qed.

Lemma scalars_noop : simplify_scalars c = c.
Proof.
  unfold simplify_scalars.
  assert (E : fst (scalars_scan (cp_nodes c) [] None) = []).
  { apply scalars_scan_nonempty. intros [i lg] Hin. apply in_cp_nodes in Hin. destruct Hin as [Hi ->]. cbn [snd].
    destruct nosimp_parts as (H1 & _). apply H1, nth_In, Hi. }
  destruct (scalars_scan (cp_nodes c) [] None) as [sc j]. cbn [fst] in E. subst sc. reflexivity.
Qed.

Lemma hadamard_noop order : simplify_hadamard order c = c.
Proof.
  unfold simplify_hadamard. apply fold_left_same. intros key _ c'.
  destruct nosimp_parts as (_ & H2 & _).
  assert (L : length (filter (fun il : nat * clegs => list_eqb Nat.eqb (keyset (snd il)) key) (cp_nodes c)) <= 1).
  { apply (distinct_filter_le1 (fun il : nat * clegs => keyset (snd il))).
    rewrite <- (map_map snd keyset). cbn [cp_of cp_nodes p_nodes]. rewrite map_snd_combine_seq. exact H2. }
  rewrite map_length. destruct (Nat.ltb_spec 1 (length (filter (fun il : nat * clegs => list_eqb Nat.eqb (keyset (snd il)) key) (cp_nodes c)))); [lia|reflexivity].
Qed.

(* simplify() changes nothing *)
Theorem simplify_noop orders : cp_simplify orders c = c.
Proof.
  unfold cp_simplify. rewrite batch_noop.
  destruct orders as [|o orders]; cbn [simplify_loop]; rewrite single_noop, scalars_noop; [reflexivity|].
  rewrite hadamard_noop, Nat.eqb_refl. reflexivity.
Qed.

(* subgraphs() returns the single full component *)
Theorem subgraphs_single : connected_prop nodes nix -> 1 <= n -> cp_subgraphs c = [seq 0 n].
Proof.
  intros Hc Hn. unfold cp_subgraphs.
  assert (Eids : map fst (cp_nodes c) = seq 0 n) by (cbn [cp_of cp_nodes p_nodes]; apply map_fst_combine_seq).
  rewrite Eids, seq_length.
  rewrite (subgraphs_loop_single (neighbors c) n Hn); [reflexivity|].
  intros k Hk. apply (bfs_reaches_all nodes app szs Hleaf 0 Hc); lia.
Qed.

Lemma wlegs_all : map (fun i => match nget i (cp_nodes c) with Some l => l | None => [] end) (seq 0 n) = nodes.
Proof.
  apply (map_seq_eq _ nodes [] 0). intros k Hk. cbn [Nat.add cp_of cp_nodes p_nodes].
  match goal with |- context [@nget ?V k ?cc] =>
    assert (E : @nget V k cc = Some (nth k nodes [])) by
      (rewrite <- (Nat.sub_0_r k) at 2; apply (nget_combine_some nodes [] 0 k); lia) end.
  rewrite E. reflexivity.
Qed.

End NoSimp.

(* ================================================================== *)
(* top level *)

Lemma pre_b_parts net : pre_b net = true ->
  let P := proc_init net in
  wf_procb (p_nodes P) (p_app P) (p_sizes P) = true /\ nosimp_b P = true /\ connected_b P = true.
Proof.
  unfold pre_b. cbv zeta. intros H. apply andb_true_iff in H. destruct H as [H H3].
  apply andb_true_iff in H. destruct H as [H1 H2]. auto.
Qed.


(* on a precondition network the public entry point IS one run of the dynamic programme *)
Theorem full_is_one_dp orders net o so fuel cap : pre_b net = true ->
  optimize_optimal_full orders net o so fuel cap =
  match optimize_optimal net o so fuel cap with
  | Some (sc, pairs) => Some (sc, map step_of pairs)
  | None => None
  end.
Proof.
  intros Hpre. destruct (pre_b_parts net Hpre) as (Hwf & Hns & Hcb). cbv zeta in *.
  unfold optimize_optimal_full, optimize_optimal.
  destruct (proc_init net) as [nodes app szs]. cbn [p_nodes p_app p_sizes] in *.
  destruct (wf_procb_spec _ _ _ Hwf) as (H1 & H2 & H3).
  pose proof (connected_b_prop nodes app szs H1 Hcb) as Hc.
  assert (Hn : 1 <= length nodes).
  { unfold connected_b in Hcb. cbn [p_nodes] in Hcb. apply andb_true_iff in Hcb. apply Nat.leb_le, Hcb. }
  rewrite (simplify_noop nodes app szs H1 Hns orders).
  rewrite (subgraphs_single nodes app szs H1 Hns Hc Hn).
  rewrite (wlegs_all nodes app szs Hns). cbn [cp_of cp_app cp_sizes cp_ssa cp_path p_nodes p_app p_sizes].
  destruct (optimal_connected app szs o so (seq 0 (length nodes)) nodes (length nodes) fuel cap) as [[sc pairs]|];
    reflexivity.
Qed.

(* THE PROPERTY: for every network satisfying the precondition and every objective, the path returned
   by the optimal finder is a path of a tree over all tensors whose objective value is the minimum over
   all binary trees (search_outer) / all outer-product-free trees (otherwise) *)
Theorem optimal_path_is_optimal orders net o so fuel cap sc path :
  pre_b net = true -> obj_ok o ->
  optimize_optimal_full orders net o so fuel cap = Some (sc, path) ->
  let P := proc_init net in
  let n := length (p_nodes P) in
  exists pairs, path = map step_of pairs /\
    let t := ssa_tree n pairs in
    full_tree n t /\ admissible (p_nodes P) (p_app P) so t = true /\
    tscore (p_nodes P) (p_app P) (p_sizes P) o t = sc /\
    (forall t', full_tree n t' -> admissible (p_nodes P) (p_app P) so t' = true ->
                (sc <= tscore (p_nodes P) (p_app P) (p_sizes P) o t')%Z).
Proof.
  intros Hpre Ho Hres. cbv zeta. rewrite (full_is_one_dp orders net o so fuel cap Hpre) in Hres.
  destruct (pre_b_parts net Hpre) as (Hwf & _ & Hcb). cbv zeta in *.
  set (P := proc_init net) in *.
  unfold optimize_optimal in Hres. cbv zeta in Hres. fold P in Hres. unfold optimal_connected in Hres.
  rewrite seq_length in Hres.
  assert (Hn : 1 <= length (p_nodes P)).
  { unfold connected_b in Hcb. apply andb_true_iff in Hcb. apply Nat.leb_le, Hcb. }
  destruct (dp_result (p_app P) (p_sizes P) o so (length (p_nodes P)) (p_nodes P) fuel cap) as [[sc' bp]|] eqn:E;
    [|discriminate].
  assert (Hp : sc' = sc /\ path = map step_of (replay_bitpath bp
              (combine (map bit (seq 0 (length (p_nodes P)))) (seq 0 (length (p_nodes P)))) (length (p_nodes P))))
    by (injection Hres as E1 E2; split; [exact E1 | symmetry; exact E2]).
  destruct Hp as [-> ->]. clear Hres.
  destruct (dp_optimal _ _ _ _ _ _ _ _ _ Hwf Ho Hn E) as [(t & Hf & Ha & Hs & Hbp) Hmin].
  eexists. split; [reflexivity|]. cbv zeta.
  destruct (full_tree_vtree _ _ Hf) as [Hv Hnl].
  rewrite <- Hbp, (replay_is_path_of_tree _ t _ Hv Hnl). auto.
Qed.

(* and the finder does return: some bound B (the score of an outer-product-free tree, which exists
   because the network is connected) such that cap * 2^f >= B suffices as fuel f+1 *)
Theorem optimal_finder_returns orders net o so : pre_b net = true -> obj_ok o ->
  exists B, forall f cap, (B <= cap * 2 ^ Z.of_nat f)%Z ->
  exists sc path, optimize_optimal_full orders net o so (S f) cap = Some (sc, path).
Proof.
  intros Hpre Ho. destruct (pre_b_parts net Hpre) as (Hwf & _ & Hcb). cbv zeta in *.
  destruct (proc_init net) as [nodes app szs] eqn:EP. cbn [p_nodes p_app p_sizes] in *.
  destruct (wf_procb_spec _ _ _ Hwf) as (H1 & H2 & H3).
  pose proof (connected_b_prop nodes app szs H1 Hcb) as Hc.
  assert (Hn : 1 <= length nodes).
  { unfold connected_b in Hcb. cbn [p_nodes] in Hcb. apply andb_true_iff in Hcb. apply Nat.leb_le, Hcb. }
  destruct (connected_has_outer_free_tree nodes app H2 Hc Hn) as (t0 & Hf0 & Hof).
  exists (tscore nodes app szs o t0). intros f cap Hb.
  assert (Ha : admissible nodes app so t0 = true) by (unfold admissible; rewrite Hof; apply orb_true_r).
  destruct (dp_result_total nodes app szs o so t0 f cap Hwf Ho Hn Hf0 Ha Hb) as (sc & bp & E).
  rewrite (full_is_one_dp orders net o so (S f) cap Hpre). unfold optimize_optimal, optimal_connected.
  rewrite EP. cbn [p_nodes p_app p_sizes]. rewrite seq_length, E. eauto.
Qed.

From Coq Require Import ZArith NArith List Bool Lia ZifyBool Permutation.
From Ctg Require Import Base Net Optimal OptimalFacts OptimalProc.
Import ListNotations.
Open Scope nat_scope.

(* OptimalProcFacts.v -- lemmas about Model/OptimalProc.v: the search of subgraphs(), the initial
   processor state, simplify() and subgraphs() on precondition networks, and the top-level theorems *)

(* ================================================================== *)
(* the search of subgraphs(): generic facts *)
Section BFS.
Variable n : nat.
Variable nb : nat -> list nat.
Hypothesis Hrange : forall i j, In j (nb i) -> j < n.

(* every element after the first was discovered as a neighbour of an earlier one *)
Inductive chain : list nat -> Prop :=
| chain1 i : chain [i]
| chain_snoc g j i : chain g -> In i g -> In j (nb i) -> chain (g ++ [j]).

Definition J0 (q g : list nat) : Prop :=
  NoDup g /\ (forall x, In x g -> x < n) /\ incl q g /\ NoDup q /\ chain g.

Lemma memb_true_In j l : memb j l = true <-> In j l.
Proof.
  unfold memb. rewrite existsb_exists. split.
  - intros (x & Hx & E). apply Nat.eqb_eq in E. subst. exact Hx.
  - intros H. exists j. split; [exact H | apply Nat.eqb_refl].
Qed.
Lemma memb_false_nIn j l : memb j l = false <-> ~ In j l.
Proof. rewrite <- memb_true_In. destruct (memb j l); split; intros; congruence. Qed.

Lemma visit_fold i l : forall q g,
  (forall j, In j l -> In j (nb i)) -> In i g -> J0 q g ->
  let st := fold_left bfs_visit l (q, g) in
  J0 (fst st) (snd st) /\ incl g (snd st) /\ incl l (snd st) /\ incl q (fst st) /\
  (forall y, In y (snd st) -> In y g \/ In y (fst st)) /\
  length (fst st) + length g = length q + length (snd st).
Proof.
  induction l as [|j l IH]; intros q g Hl Hi HJ; cbv zeta; cbn [fold_left fst snd].
  - split; [exact HJ|]. split; [apply incl_refl|]. split; [intros ? []|]. split; [apply incl_refl|].
    split; [auto | lia].
  - destruct (memb j g) eqn:M.
    + assert (Ev : bfs_visit (q, g) j = (q, g)) by (unfold bfs_visit; cbn [fst snd]; rewrite M; reflexivity).
      rewrite Ev.
      destruct (IH q g (fun y Hy => Hl y (or_intror Hy)) Hi HJ) as (A & B & C & D & E & F).
      split; [exact A|]. split; [exact B|]. split; [|split; [exact D | split; [exact E | exact F]]].
      intros y [<-|Hy]; [apply B, memb_true_In, M | apply C, Hy].
    + assert (Ev : bfs_visit (q, g) j = (j :: q, g ++ [j])) by (unfold bfs_visit; cbn [fst snd]; rewrite M; reflexivity).
      rewrite Ev.
      apply memb_false_nIn in M. destruct HJ as (Hnd & Hr & Hq & Hndq & Hch).
      assert (HJ' : J0 (j :: q) (g ++ [j])).
      { split; [apply NoDup_snoc; assumption|].
        split; [intros x Hx; apply in_app_iff in Hx; destruct Hx as [Hx|[<-|[]]];
                [apply Hr, Hx | apply (Hrange i), Hl; left; reflexivity]|].
        split; [intros y [<-|Hy]; apply in_app_iff; [right; left; reflexivity | left; apply Hq, Hy]|].
        split; [constructor; [intros Hj; apply M, Hq, Hj | exact Hndq]|].
        apply (chain_snoc g j i Hch Hi). apply Hl. left; reflexivity. }
      destruct (IH (j :: q) (g ++ [j]) (fun y Hy => Hl y (or_intror Hy))
                   ltac:(apply in_app_iff; left; exact Hi) HJ') as (A & B & C & D & E & F).
      split; [exact A|].
      split; [intros y Hy; apply B, in_app_iff; left; exact Hy|].
      split; [intros y [<-|Hy]; [apply B, in_app_iff; right; left; reflexivity | apply C, Hy]|].
      split; [intros y Hy; apply D; right; exact Hy|].
      split.
      * intros y Hy. destruct (E y Hy) as [H1|H1]; [|right; exact H1].
        apply in_app_iff in H1. destruct H1 as [H1|[<-|[]]]; [left; exact H1|].
        right. apply D. left; reflexivity.
      * rewrite app_length in F. cbn [length] in F. lia.
Qed.

Lemma J0_len q g : J0 q g -> length g <= n.
Proof.
  intros (Hnd & Hr & _). rewrite <- (seq_length n 0). apply NoDup_incl_length; [exact Hnd|].
  intros x Hx. apply in_seq. specialize (Hr x Hx). lia.
Qed.

Definition closedq (q g : list nat) : Prop := forall a, In a g -> ~ In a q -> incl (nb a) g.

Lemma bfs_spec : forall fuel q g, J0 q g -> closedq q g -> length q + (n - length g) <= fuel ->
  let r := bfs_loop nb fuel q g in
  NoDup r /\ (forall x, In x r -> x < n) /\ chain r /\ incl g r /\ (forall a, In a r -> incl (nb a) r).
Proof.
  induction fuel as [|f IH]; intros q g HJ HC Hm; cbv zeta; cbn [bfs_loop].
  - destruct q as [|i q]; [|cbn [length] in Hm; lia].
    destruct HJ as (Hnd & Hr & _ & _ & Hch). split; [exact Hnd|]. split; [exact Hr|]. split; [exact Hch|].
    split; [apply incl_refl|]. intros a Ha. apply HC; [exact Ha | intros []].
  - destruct q as [|i q].
    + destruct HJ as (Hnd & Hr & _ & _ & Hch). split; [exact Hnd|]. split; [exact Hr|]. split; [exact Hch|].
      split; [apply incl_refl|]. intros a Ha. apply HC; [exact Ha | intros []].
    + assert (HJq : J0 q g).
      { destruct HJ as (Hnd & Hr & Hq & Hndq & Hch). split; [exact Hnd|]. split; [exact Hr|].
        split; [intros y Hy; apply Hq; right; exact Hy|]. split; [inversion Hndq; assumption | exact Hch]. }
      assert (Hig : In i g) by (destruct HJ as (_ & _ & Hq & _); apply Hq; left; reflexivity).
      assert (Hiq : ~ In i q) by (destruct HJ as (_ & _ & _ & Hndq & _); inversion Hndq; assumption).
      destruct (visit_fold i (nb i) q g (fun j H => H) Hig HJq) as (A & B & C & D & E & F).
      set (st := fold_left bfs_visit (nb i) (q, g)) in *.
      pose proof (J0_len _ _ A) as L'. pose proof (J0_len _ _ HJq) as L.
      destruct (IH (fst st) (snd st) A) as (R1 & R2 & R3 & R4 & R5).
      * intros a Ha Hna. destruct (Nat.eq_dec a i) as [->|Hne]; [exact C|].
        destruct (E a Ha) as [Hag|Haq]; [|contradiction].
        intros y Hy. apply B. apply (HC a Hag); [|exact Hy].
        intros [Hx|Hx]; [congruence | apply Hna, D, Hx].
      * cbn [length] in Hm. lia.
      * split; [exact R1|]. split; [exact R2|]. split; [exact R3|]. split; [|exact R5].
        intros y Hy. apply R4, B, Hy.
Qed.

Lemma bfs_from i0 : i0 < n ->
  let r := bfs_loop nb n [i0] [i0] in
  NoDup r /\ (forall x, In x r -> x < n) /\ chain r /\ In i0 r /\ (forall a, In a r -> incl (nb a) r).
Proof.
  intros Hi. cbv zeta.
  destruct (bfs_spec n [i0] [i0]) as (R1 & R2 & R3 & R4 & R5).
  - split; [constructor; [intros []|constructor]|]. split; [intros x [<-|[]]; exact Hi|].
    split; [apply incl_refl|]. split; [constructor; [intros []|constructor] | constructor].
  - intros a [<-|[]] Hna. exfalso. apply Hna. left; reflexivity.
  - cbn [length]. lia.
  - split; [exact R1|]. split; [exact R2|]. split; [exact R3|]. split; [apply R4; left; reflexivity | exact R5].
Qed.

(* along a chain, a boolean predicate that is not constant changes across some discovery edge *)
Lemma chain_crossing (P : nat -> bool) g : chain g ->
  (exists y, In y g /\ P y <> P (hd 0 g)) ->
  exists i j, In i g /\ In j g /\ In j (nb i) /\ P i = P (hd 0 g) /\ P j <> P (hd 0 g).
Proof.
  induction 1 as [i|g j i Hch IH Hi Hj]; intros (y & Hy & Hp).
  - destruct Hy as [<-|[]]. cbn in Hp. congruence.
  - assert (Hhd : hd 0 (g ++ [j]) = hd 0 g).
    { destruct g; [inversion Hch; destruct g; discriminate | reflexivity]. }
    rewrite Hhd in *.
    destruct (existsb (fun y => negb (Bool.eqb (P y) (P (hd 0 g)))) g) eqn:Ex.
    + apply existsb_exists in Ex. destruct Ex as (z & Hz & Hzp).
      destruct IH as (a & b & Ha & Hb & Hab & Pa & Pb).
      { exists z. split; [exact Hz|]. intros E. rewrite E, Bool.eqb_reflx in Hzp. discriminate. }
      exists a, b. repeat split; try assumption; apply in_app_iff; left; assumption.
    + assert (Hall : forall z, In z g -> P z = P (hd 0 g)).
      { intros z Hz. destruct (Bool.eqb (P z) (P (hd 0 g))) eqn:E; [apply Bool.eqb_prop, E|].
        exfalso. assert (X : existsb (fun y => negb (Bool.eqb (P y) (P (hd 0 g)))) g = true).
        { apply existsb_exists. exists z. split; [exact Hz | rewrite E; reflexivity]. }
        congruence. }
      apply in_app_iff in Hy. destruct Hy as [Hy|[<-|[]]]; [elim Hp; apply Hall, Hy|].
      exists i, j. split; [apply in_app_iff; left; exact Hi|]. split; [apply in_app_iff; right; left; reflexivity|].
      split; [exact Hj|]. split; [apply Hall, Hi | exact Hp].
Qed.

End BFS.

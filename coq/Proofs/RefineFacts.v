(* RefineFacts.v -- the concrete ContractionProcessor passes (Model/Processor.v) only ever
   change (keys of nodes, ssa, ssa_path) through the operations of the abstract machine *)
From Coq Require Import Lia Permutation.
From Ctg Require Import Base Net PathValid Processor BaseFacts PathValidFacts ProcessorFacts SsaLinearFacts.

Definition keys (c : cproc) : list nat := map fst (cp_nodes c).
Definition KInv (c : cproc) : Prop := NoDup (keys c) /\ forall k, In k (keys c) -> k < cp_ssa c.

(* c' is reached from c by abstract operations (whenever no KeyError was flagged); the flag
   never goes back to true *)
Definition Ref (c c' : cproc) : Prop :=
  (cp_ok c' = true -> cp_ok c = true) /\
  (KInv c -> cp_ok c' = true -> KInv c' /\ exists os, a_run (abs_of c) os = Some (abs_of c')).

Lemma a_run_app : forall os1 os2 a,
  a_run a (os1 ++ os2) = match a_run a os1 with Some a' => a_run a' os2 | None => None end.
Proof.
  induction os1 as [|o os1 IH]; intros os2 a; cbn; [reflexivity|].
  destruct (a_step a o); [apply IH|reflexivity].
Qed.

Lemma Ref_refl c : Ref c c.
Proof. split; [auto|]. intros K O. split; [assumption|]. exists []. reflexivity. Qed.

Lemma Ref_trans c1 c2 c3 : Ref c1 c2 -> Ref c2 c3 -> Ref c1 c3.
Proof.
  intros [M12 R12] [M23 R23]. split; [auto|]. intros K1 O3.
  destruct (R12 K1 (M23 O3)) as (K2 & os1 & E1). destruct (R23 K2 O3) as (K3 & os2 & E2).
  split; [assumption|]. exists (os1 ++ os2). now rewrite a_run_app, E1.
Qed.

Lemma Ref_same c c' : abs_of c' = abs_of c -> cp_ok c' = cp_ok c -> Ref c c'.
Proof.
  intros Ha Ho. split; [congruence|]. intros K O. unfold abs_of in Ha. injection Ha as Hk Hs Hp.
  split; [unfold KInv, keys in *; rewrite Hk, Hs; exact K|]. exists []. cbn. unfold abs_of. now rewrite Hk, Hs, Hp.
Qed.

Lemma Ref_same' c c' : abs_of c' = abs_of c -> (cp_ok c' = true -> cp_ok c = true) -> Ref c c'.
Proof.
  intros Ha Ho. split; [exact Ho|]. intros K O. unfold abs_of in Ha. injection Ha as Hk Hs Hp.
  split; [unfold KInv, keys in *; rewrite Hk, Hs; exact K|]. exists []. cbn. unfold abs_of. now rewrite Hk, Hs, Hp.
Qed.
Lemma set_bad_Ref c : Ref c (set_bad c).
Proof. apply Ref_same'; [reflexivity|cbn; discriminate]. Qed.

Lemma fold_Ref {X} (step : cproc -> X -> cproc) : (forall c x, Ref c (step c x)) ->
  forall l c, Ref c (fold_left step l c).
Proof.
  intros H. induction l as [|x l IH]; intros c; cbn; [apply Ref_refl|].
  eapply Ref_trans; [apply H|apply IH].
Qed.

(* ------------------------------------------------------------------ *)
(* association-list facts                                               *)
Lemma nget_in {V} i : forall (d : list (nat * V)) v, nget i d = Some v -> In i (map fst d).
Proof.
  induction d as [|[k w] d IH]; intros v H; cbn in H; [discriminate|].
  destruct (Nat.eqb k i) eqn:E; [apply Nat.eqb_eq in E; now left|right; eauto].
Qed.
Lemma nget_none {V} i : forall (d : list (nat * V)), nget i d = None -> ~ In i (map fst d).
Proof.
  induction d as [|[k w] d IH]; intros H; cbn in *; [tauto|].
  destruct (Nat.eqb k i) eqn:E; [discriminate|]. apply Nat.eqb_neq in E. intros [Hc|Hc]; [congruence|now apply IH].
Qed.
Lemma ndel_keys {V} i : forall (d : list (nat * V)), NoDup (map fst d) ->
  map fst (ndel i d) = remove_all [i] (map fst d).
Proof.
  induction d as [|[k w] d IH]; intros ND; [reflexivity|]. cbn [ndel map fst]. inversion ND as [|? ? Hk ND']; subst.
  rewrite remove_all_single. cbn [filter]. destruct (Nat.eqb k i) eqn:E; cbn [negb].
  - apply Nat.eqb_eq in E. subst k. symmetry. apply filter_all_true.
    intros y Hy. apply negb_true_iff, Nat.eqb_neq. intros ->. contradiction.
  - cbn [map fst]. f_equal. rewrite IH by assumption. apply remove_all_single.
Qed.
Lemma nset_keys {V} i (v : V) : forall (d : list (nat * V)), In i (map fst d) -> map fst (nset_ i v d) = map fst d.
Proof.
  induction d as [|[k w] d IH]; intros H; [destruct H|]. cbn [nset_].
  destruct (Nat.eqb k i) eqn:E; [reflexivity|]. cbn [map fst]. f_equal. apply IH.
  destruct H as [H|H]; [cbn in H; apply Nat.eqb_neq in E; congruence|assumption].
Qed.

(* ------------------------------------------------------------------ *)
(* primitives                                                           *)
Lemma pop_node_spec i c : let c1 := fst (pop_node i c) in
  cp_ssa c1 = cp_ssa c /\ cp_path c1 = cp_path c /\
  match nget i (cp_nodes c) with
  | Some _ => cp_nodes c1 = ndel i (cp_nodes c) /\ cp_ok c1 = cp_ok c
  | None => cp_nodes c1 = cp_nodes c /\ cp_ok c1 = false
  end.
Proof. unfold pop_node. destruct (nget i (cp_nodes c)); cbn; auto. Qed.

Lemma add_node_spec lg c : let c1 := fst (add_node lg c) in
  cp_nodes c1 = cp_nodes c ++ [(cp_ssa c, lg)] /\ cp_ssa c1 = S (cp_ssa c) /\ cp_path c1 = cp_path c /\
  cp_ok c1 = cp_ok c /\ snd (add_node lg c) = cp_ssa c.
Proof. cbn. auto. Qed.

Lemma KInv_push c s (ks : list nat) ssa' :
  KInv c -> ks = remove_all s (keys c) ++ [cp_ssa c] -> ssa' = S (cp_ssa c) ->
  NoDup ks /\ forall k, In k ks -> k < ssa'.
Proof.
  intros [ND LT] -> ->. split.
  - apply NoDup_app_intro; [now apply NoDup_filter|repeat constructor; intros []|].
    intros x Hx [<-|[]]. apply filter_In in Hx as [Hx _]. specialize (LT _ Hx). lia.
  - intros k Hk. apply in_app_or in Hk as [Hk|[<-|[]]]; [|lia]. apply filter_In in Hk as [Hk _]. specialize (LT _ Hk). lia.
Qed.

Lemma contract_nodes_Ref i j nl c : Ref c (fst (contract_nodes i j nl c)).
Proof.
  unfold contract_nodes.
  destruct (pop_node i c) as [c1 il] eqn:E1. destruct (pop_node j c1) as [c2 jl] eqn:E2.
  set (nl' := match nl with Some l => l | None => compute_contracted (app_of c) il jl end).
  destruct (add_node nl' c2) as [c3 k] eqn:E3. cbn [fst].
  pose proof (pop_node_spec i c) as P1. rewrite E1 in P1. cbn [fst] in P1. destruct P1 as (S1 & Pa1 & N1).
  pose proof (pop_node_spec j c1) as P2. rewrite E2 in P2. cbn [fst] in P2. destruct P2 as (S2 & Pa2 & N2).
  pose proof (add_node_spec nl' c2) as P3. rewrite E3 in P3. cbn [fst snd] in P3. destruct P3 as (N3 & S3 & Pa3 & O3 & K3).
  assert (Ook : cp_ok (push_path [i; j] c3) = cp_ok c3) by reflexivity.
  destruct (nget i (cp_nodes c)) as [li|] eqn:Gi; destruct N1 as [N1 O1];
    [|split; intros; exfalso; destruct (nget j (cp_nodes c1)); destruct N2 as [_ O2]; congruence].
  destruct (nget j (cp_nodes c1)) as [lj|] eqn:Gj; destruct N2 as [N2 O2];
    [|split; intros; exfalso; congruence].
  split; [intros H; congruence|]. intros K O.
  assert (Hi : In i (keys c)) by (eapply nget_in; exact Gi).
  assert (Hk1 : map fst (cp_nodes c1) = remove_all [i] (keys c)) by (rewrite N1; apply ndel_keys, K).
  assert (Hj1 : In j (map fst (cp_nodes c1))) by (eapply nget_in; exact Gj).
  rewrite Hk1 in Hj1. apply remove_all_in in Hj1 as [Hj Hji].
  assert (Hij : i <> j) by (intros ->; apply Hji; now left).
  assert (Hk3 : keys (push_path [i; j] c3) = remove_all [i; j] (keys c) ++ [cp_ssa c]).
  { unfold keys. cbn [push_path cp_nodes]. rewrite N3, map_app, N2, ndel_keys, Hk1.
    - cbn [map fst]. f_equal; [|congruence]. rewrite (remove_all_single i). apply remove_all_cons.
    - rewrite Hk1. apply NoDup_filter, K. }
  assert (Hs3 : cp_ssa (push_path [i; j] c3) = S (cp_ssa c)) by (cbn; congruence).
  split.
  - unfold KInv. rewrite Hk3, Hs3. eapply KInv_push; eauto.
  - exists [AContract i j]. cbn [a_run a_step abs_of a_present a_ssa a_path].
    fold (keys c). rewrite (proj2 (memb_In i _) Hi), (proj2 (memb_In j _) Hj), (proj2 (Nat.eqb_neq i j) Hij).
    cbn [andb negb]. f_equal. unfold abs_of. fold (keys (push_path [i; j] c3)). rewrite Hk3, Hs3.
    cbn [push_path cp_path]. rewrite Pa3, Pa2, Pa1. reflexivity.
Qed.

Lemma single_Ref i lg c :
  Ref c (let '(c1, lg1) := pop_node i c in let '(c2, _) := add_node (lg lg1) c1 in push_path [i] c2).
Proof.
  destruct (pop_node i c) as [c1 il] eqn:E1. destruct (add_node (lg il) c1) as [c2 k] eqn:E2.
  pose proof (pop_node_spec i c) as P1. rewrite E1 in P1. cbn [fst] in P1. destruct P1 as (S1 & Pa1 & N1).
  pose proof (add_node_spec (lg il) c1) as P3. rewrite E2 in P3. cbn [fst snd] in P3. destruct P3 as (N3 & S3 & Pa3 & O3 & K3).
  destruct (nget i (cp_nodes c)) as [li|] eqn:Gi; destruct N1 as [N1 O1];
    [|split; intros; exfalso; cbn in *; congruence].
  split; [cbn; congruence|]. intros K O.
  assert (Hi : In i (keys c)) by (eapply nget_in; exact Gi).
  assert (Hk3 : keys (push_path [i] c2) = remove_all [i] (keys c) ++ [cp_ssa c]).
  { unfold keys. cbn [push_path cp_nodes]. rewrite N3, map_app, N1, ndel_keys by apply K. cbn. congruence. }
  assert (Hs3 : cp_ssa (push_path [i] c2) = S (cp_ssa c)) by (cbn; congruence).
  split.
  - unfold KInv. rewrite Hk3, Hs3. eapply KInv_push; eauto.
  - exists [ASingle i]. cbn [a_run a_step abs_of a_present a_ssa a_path].
    fold (keys c). rewrite (proj2 (memb_In i _) Hi). f_equal. unfold abs_of. fold (keys (push_path [i] c2)).
    rewrite Hk3, Hs3. cbn [push_path cp_path]. rewrite Pa3, Pa1. reflexivity.
Qed.

(* ------------------------------------------------------------------ *)
(* the passes                                                           *)
Lemma upd_keys {V} (f : V -> V) node (nd : list (nat * V)) :
  map fst (match nget node nd with Some lg => nset_ node (f lg) nd | None => nd end) = map fst nd.
Proof. destruct (nget node nd) eqn:G; [apply nset_keys; eapply nget_in; exact G|reflexivity]. Qed.

Lemma remove_ix_Ref ix c : Ref c (remove_ix ix c).
Proof.
  unfold remove_ix. destruct (nget ix (cp_edges c)) as [ns|]; [|apply set_bad_Ref].
  apply Ref_same'; [|cbn [cp_ok]; intros H; now apply andb_prop in H].
  unfold abs_of. cbn [cp_nodes cp_ssa cp_path]. f_equal.
  generalize (cp_nodes c). induction ns as [|node ns IH]; intros nd; cbn [fold_left]; [reflexivity|].
  rewrite IH. apply (upd_keys (filter (fun kv : nat * nat => negb (Nat.eqb (fst kv) ix)))).
Qed.

Lemma simplify_batch_Ref c : Ref c (simplify_batch c).
Proof. unfold simplify_batch. apply fold_Ref. intros c' ix. apply remove_ix_Ref. Qed.

Lemma simplify_single_terms_Ref c : Ref c (simplify_single_terms c).
Proof.
  unfold simplify_single_terms. apply fold_Ref. intros c' [i lg].
  destruct (is_simplifiable (app_of c) lg); [|apply Ref_refl].
  apply (single_Ref i (compute_simplified (app_of c)) c').
Qed.

Lemma fold_contract_Ref : forall rest c a,
  Ref c (fst (fold_left (fun st s => let '(c', acc) := st in contract_nodes acc s None c') rest (c, a))).
Proof.
  induction rest as [|s rest IH]; intros c a; cbn [fold_left]; [apply Ref_refl|].
  destruct (contract_nodes a s None c) as [c1 k] eqn:E.
  eapply Ref_trans; [|apply IH]. pose proof (contract_nodes_Ref a s None c) as R. now rewrite E in R.
Qed.

Lemma simplify_scalars_Ref c : Ref c (simplify_scalars c).
Proof.
  unfold simplify_scalars. destruct (scalars_scan (cp_nodes c) [] None) as [sc j].
  destruct sc as [|s0 sc']; [apply Ref_refl|].
  destruct (match j with Some (jn, _) => (s0 :: sc') ++ [jn] | None => s0 :: sc' end) as [|a rest]; [apply Ref_refl|].
  apply fold_contract_Ref.
Qed.

Lemma hadamard_group_Ref : forall fuel grp c, Ref c (hadamard_group fuel grp c).
Proof.
  induction fuel as [|f IH]; intros grp c; cbn [hadamard_group]; [apply Ref_refl|].
  destruct (rev grp) as [|i [|j rest]]; try apply Ref_refl.
  destruct (contract_nodes i j None c) as [c' k] eqn:E.
  eapply Ref_trans; [|apply IH]. pose proof (contract_nodes_Ref i j None c) as R. now rewrite E in R.
Qed.

Lemma simplify_hadamard_Ref order c : Ref c (simplify_hadamard order c).
Proof.
  unfold simplify_hadamard. apply fold_Ref. intros c' key.
  match goal with |- Ref _ (if ?b then _ else _) => destruct b end; [apply hadamard_group_Ref|apply Ref_refl].
Qed.

Lemma simplify_loop_Ref : forall orders c, Ref c (simplify_loop orders c).
Proof.
  induction orders as [|o orders IH]; intros c; cbn [simplify_loop].
  - eapply Ref_trans; [apply simplify_single_terms_Ref|apply simplify_scalars_Ref].
  - set (c1 := simplify_scalars (simplify_single_terms c)).
    assert (R1 : Ref c c1) by (eapply Ref_trans; [apply simplify_single_terms_Ref|apply simplify_scalars_Ref]).
    assert (R2 : Ref c1 (simplify_hadamard o c1)) by apply simplify_hadamard_Ref.
    destruct (Nat.eqb (cp_ssa c1) (cp_ssa (simplify_hadamard o c1))).
    + eapply Ref_trans; eassumption.
    + eapply Ref_trans; [eassumption|]. eapply Ref_trans; [eassumption|apply IH].
Qed.

Lemma cp_simplify_Ref orders c : Ref c (cp_simplify orders c).
Proof. unfold cp_simplify. eapply Ref_trans; [apply simplify_batch_Ref|apply simplify_loop_Ref]. Qed.

Lemma remaining_loop_Ref : forall fuel h c, Ref c (remaining_loop fuel h c).
Proof.
  induction fuel as [|f IH]; intros h c; cbn [remaining_loop]; [apply Ref_refl|].
  destruct h as [|x0 [|x1 rest]]; try apply Ref_refl.
  match goal with |- Ref _ (match ?h1 with _ => _ end) => destruct h1 as [|y0 rest1] end; [apply Ref_refl|].
  match goal with |- Ref _ (let '(_, _) := contract_nodes ?i ?j None c in _) =>
    destruct (contract_nodes i j None c) as [c' k] eqn:E;
    pose proof (contract_nodes_Ref i j None c) as R; rewrite E in R end.
  eapply Ref_trans; [exact R|apply IH].
Qed.

Lemma cp_remaining_Ref c : Ref c (cp_remaining c).
Proof.
  unfold cp_remaining. destruct (cp_nodes c) as [|[i li] [|[j lj] [|n3 rest]]]; try apply Ref_refl.
  - apply contract_nodes_Ref.
  - apply remaining_loop_Ref.
Qed.

Lemma g_push_Ref sco i j st : Ref (gs_c st) (gs_c (g_push sco i j st)).
Proof.
  unfold g_push.
  destruct (nget i (cp_nodes (gs_c st))); [|apply set_bad_Ref].
  destruct (nget j (cp_nodes (gs_c st))); [|apply set_bad_Ref].
  destruct (nget i (gs_sizes st)); [|apply set_bad_Ref].
  destruct (nget j (gs_sizes st)); [|apply set_bad_Ref]. apply Ref_refl.
Qed.
Lemma fold_g_push_Ref {X} sco (f : X -> nat * nat) : forall l st,
  Ref (gs_c st) (gs_c (fold_left (fun s x => g_push sco (fst (f x)) (snd (f x)) s) l st)).
Proof.
  induction l as [|x l IH]; intros st; cbn [fold_left]; [apply Ref_refl|].
  eapply Ref_trans; [apply g_push_Ref|apply IH].
Qed.

Lemma greedy_loop_Ref sco : forall fuel st, Ref (gs_c st) (gs_c (greedy_loop sco fuel st)).
Proof.
  induction fuel as [|f IH]; intros st; cbn [greedy_loop]; [apply Ref_refl|].
  destruct (gs_queue st) as [|x0 rest]; [apply Ref_refl|].
  match goal with |- Ref _ (gs_c (match ?o with _ => _ end)) => destruct o as [g|] end; [|apply Ref_refl].
  destruct (nget (g_i g) (cp_nodes (gs_c st))); [destruct (nget (g_j g) (cp_nodes (gs_c st)))|].
  - destruct (contract_nodes (g_i g) (g_j g) (Some (g_klegs g)) (gs_c st)) as [c' k] eqn:E.
    pose proof (contract_nodes_Ref (g_i g) (g_j g) (Some (g_klegs g)) (gs_c st)) as R. rewrite E in R. cbn [fst] in R.
    eapply Ref_trans; [exact R|].
    match goal with |- Ref _ (gs_c (greedy_loop sco f (fold_left _ ?l ?s1))) =>
      eapply Ref_trans; [apply (fold_g_push_Ref sco (fun l0 => (k, l0)) l s1)|apply IH] end.
  - apply (IH (mkGS (gs_c st) _ _ _ _)).
  - apply (IH (mkGS (gs_c st) _ _ _ _)).
Qed.

Lemma cp_greedy_sc_Ref sco c : Ref c (cp_greedy_sc sco c).
Proof.
  unfold cp_greedy_sc.
  match goal with |- Ref c (gs_c (greedy_loop sco ?fu (fold_left _ ?l ?s0))) =>
    eapply Ref_trans; [apply (fold_g_push_Ref sco (fun p => p) l s0)|apply greedy_loop_Ref] end.
Qed.
Lemma cp_greedy_Ref c : Ref c (cp_greedy c).
Proof. apply cp_greedy_sc_Ref. Qed.

(* ------------------------------------------------------------------ *)
(* the pipelines of optimize_simplify / optimize_greedy, concretely: whenever the model run
   flags no KeyError, the recorded ssa_path is a valid SSA path prefix whose live ids are the
   keys of the remaining nodes; with one node left it is a complete valid path, and so is its
   ssa_to_linear image *)
Definition cp_initial (n : nat) (c : cproc) : Prop :=
  keys c = seq 0 n /\ cp_ssa c = n /\ cp_path c = [] /\ cp_ok c = true.

Theorem Ref_valid n c c' : cp_initial n c -> Ref c c' -> cp_ok c' = true ->
  ssa_run any_len (seq 0 n) n (cp_path c') = Some (keys c', cp_ssa c').
Proof.
  intros (Hk & Hs & Hp & Ho) [_ R] O.
  assert (K : KInv c).
  { unfold KInv. rewrite Hk, Hs. split; [apply seq_NoDup|]. intros k Hin. apply in_seq in Hin. lia. }
  destruct (R K O) as (_ & os & E).
  assert (Ea : abs_of c = a_init n) by (unfold abs_of, a_init; fold (keys c); now rewrite Hk, Hs, Hp).
  rewrite Ea in E. pose proof (a_run_inv n os _ _ (AInv_init n) E) as (I & _). exact I.
Qed.

Theorem cp_pipeline_valid n orders c : cp_initial n c ->
  let c' := cp_remaining (cp_greedy (cp_simplify orders c)) in
  cp_ok c' = true -> length (cp_nodes c') = 1 ->
  ssa_path_valid n (cp_path c') = true /\
  exists q, ssa_to_linear n (cp_path c') = Some q /\ linear_path_valid n q = true.
Proof.
  intros Hi c' O L.
  assert (R : Ref c c').
  { eapply Ref_trans; [apply cp_simplify_Ref|]. eapply Ref_trans; [apply cp_greedy_Ref|apply cp_remaining_Ref]. }
  pose proof (Ref_valid n c c' Hi R O) as V.
  assert (Vb : ssa_path_valid n (cp_path c') = true).
  { unfold ssa_path_valid. rewrite V. unfold keys. rewrite map_length, L. reflexivity. }
  split; [exact Vb|]. now apply ssa_to_linear_complete.
Qed.

(* the abstract theorem with the linear path included *)
Theorem processor_paths_valid n os a choose fuel : 1 <= n ->
  a_run (a_init n) os = Some a -> choose_ok choose -> length (a_present a) <= S fuel ->
  exists a', a_remaining choose fuel a = Some a' /\ length (a_present a') = 1 /\
             ssa_path_valid n (a_path a') = true /\
             exists q, ssa_to_linear n (a_path a') = Some q /\ linear_path_valid n q = true.
Proof.
  intros Hn R Hc L.
  destruct (processor_ssa_path_valid n os a choose fuel Hn R Hc L) as (a' & E & L1 & V).
  exists a'. repeat split; try assumption. now apply ssa_to_linear_complete.
Qed.

Theorem passes_refine orders c :
  Ref c (cp_simplify orders c) /\ Ref c (cp_greedy c) /\ Ref c (cp_remaining c) /\
  Ref c (simplify_single_terms c) /\ Ref c (simplify_scalars c) /\ Ref c (simplify_batch c).
Proof.
  split; [apply cp_simplify_Ref|]. split; [apply cp_greedy_Ref|]. split; [apply cp_remaining_Ref|].
  split; [apply simplify_single_terms_Ref|]. split; [apply simplify_scalars_Ref|apply simplify_batch_Ref].
Qed.

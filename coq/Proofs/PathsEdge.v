(* PathsEdge.v -- C10: the model of path_basic.edge_path_to_ssa refines an independent
   simulation in which every index contracts exactly the live tensors (sets of original
   leaves) that carry it; the emitted ssa path is valid, so is its linear image; what remains
   live at the end are the classes of "connected through a listed index". *)
From Coq Require Import Lia Permutation.
From Ctg Require Import Base Net Paths BaseFacts PathsFacts.

(* ------------------------------------------------------------------ *)
(* sorted-list sets *)
Lemma in_set_add x y l : In y (set_add x l) <-> y = x \/ In y l.
Proof.
  induction l as [|z l IH]; cbn [set_add In]; [intuition|].
  destruct (Nat.ltb x z); [cbn [In]; intuition|]. destruct (Nat.eqb_spec x z) as [->|_]; cbn [In]; [intuition|].
  rewrite IH. intuition.
Qed.
Lemma sasc_set_add x l : sasc l -> sasc (set_add x l).
Proof.
  induction l as [|z l IH]; cbn [set_add sasc]; intros H; [split; [intros ? []|exact I]|].
  destruct H as [Hz Hl]. destruct (Nat.ltb_spec x z) as [Hlt|Hge].
  - cbn [sasc]. split; [|split; assumption]. intros y [<-|Hy]; [exact Hlt|]. specialize (Hz y Hy). lia.
  - destruct (Nat.eqb_spec x z) as [->|Hne]; cbn [sasc]; [split; assumption|].
    split; [|apply IH, Hl]. intros y Hy. apply in_set_add in Hy. destruct Hy as [->|Hy]; [lia|apply Hz, Hy].
Qed.
Lemma in_set_remove x y l : In y (set_remove x l) <-> In y l /\ y <> x.
Proof. unfold set_remove. rewrite filter_In, negb_true_iff, Nat.eqb_neq. tauto. Qed.
Lemma sasc_filter f l : sasc l -> sasc (filter f l).
Proof.
  induction l as [|z l IH]; cbn [filter sasc]; intros H; [exact I|]. destruct H as [Hz Hl].
  destruct (f z); cbn [sasc]; [split; [|apply IH, Hl]|apply IH, Hl].
  intros y Hy. apply filter_In in Hy. apply Hz, Hy.
Qed.
Lemma sasc_set_remove x l : sasc l -> sasc (set_remove x l).
Proof. apply sasc_filter. Qed.

(* ------------------------------------------------------------------ *)
(* association maps *)
Lemma am_get_del k j m : am_get k (am_del j m) = if Nat.eqb j k then None else am_get k m.
Proof.
  unfold am_del. induction m as [|[a v] m IH]; cbn [filter fst am_get]; [destruct (Nat.eqb j k); reflexivity|].
  destruct (Nat.eqb_spec a j) as [->|Hne]; cbn [negb am_get].
  - rewrite IH. destruct (Nat.eqb_spec j k); reflexivity.
  - rewrite IH. destruct (Nat.eqb_spec a k) as [->|_]; [|reflexivity]. destruct (Nat.eqb_spec j k); [congruence|reflexivity].
Qed.
Lemma am_get_set k k' v m : am_get k (am_set k' v m) = if Nat.eqb k' k then Some v else am_get k m.
Proof.
  induction m as [|[a w] m IH]; cbn [am_set am_get]; [reflexivity|].
  destruct (Nat.eqb_spec a k') as [->|Hne]; cbn [am_get].
  - destruct (Nat.eqb_spec k' k); reflexivity.
  - rewrite IH. destruct (Nat.eqb_spec a k) as [->|_]; [|reflexivity]. destruct (Nat.eqb_spec k' k); [congruence|reflexivity].
Qed.
Lemma am_get_app k m s v : am_get k (m ++ [(s, v)]) =
  match am_get k m with Some x => Some x | None => if Nat.eqb s k then Some v else None end.
Proof.
  induction m as [|[a w] m IH]; cbn [app am_get]; [reflexivity|]. destruct (Nat.eqb a k); [reflexivity|exact IH].
Qed.

(* ------------------------------------------------------------------ *)
(* the two nested loops of edge_path_to_ssa, characterised through lookups *)
Definition inner_step (ssa s : nat) (a : amap * list nat) (jx : nat) : amap * list nat :=
  match am_get jx (fst a) with
  | Some set => (am_set jx (set_add ssa (set_remove s set)) (fst a), set_add jx (snd a))
  | None => a
  end.
Definition inds_of (s2i : amap) (s : nat) : list nat := match am_get s s2i with Some l => l | None => [] end.
Definition outer_step (ssa : nat) (acc : amap * amap * list nat) (s : nat) : amap * amap * list nat :=
  let '(m, s2i, nt) := acc in
  let '(m', nt') := fold_left (inner_step ssa s) (inds_of s2i s) (m, nt) in
  (m', am_del s s2i, nt').

Lemma edge_step_unfold st j : edge_step st j =
  if e_raised st then st else
  match am_get j (ind_to_ssas st) with
  | None => mkES (ind_to_ssas st) (ssa_to_inds st) (e_ssa st) (e_path st) true
  | Some scon =>
      let i2s := am_del j (ind_to_ssas st) in
      if Nat.ltb (length scon) 2 then mkES i2s (ssa_to_inds st) (e_ssa st) (e_path st) false
      else
        let '(i2s', s2i', new_term) := fold_left (outer_step (e_ssa st)) scon (i2s, ssa_to_inds st, []) in
        mkES i2s' (s2i' ++ [(e_ssa st, new_term)]) (S (e_ssa st)) (e_path st ++ [scon]) false
  end.
Proof. reflexivity. Qed.

Lemma inner_get ssa s inds : NoDup inds -> forall m nt jx,
  am_get jx (fst (fold_left (inner_step ssa s) inds (m, nt))) =
  match am_get jx m with
  | Some set => Some (if memb jx inds then set_add ssa (set_remove s set) else set)
  | None => None
  end.
Proof.
  induction inds as [|i inds IH]; intros Hnd m nt jx; cbn [fold_left]; [cbn; destruct (am_get jx m); reflexivity|].
  inversion Hnd as [|? ? Hn Hnd']; subst. unfold inner_step at 2. cbn [fst snd].
  destruct (am_get i m) as [seti|] eqn:Ei.
  - rewrite (IH Hnd'). rewrite am_get_set. unfold memb. cbn [existsb]. fold (memb jx inds).
    destruct (Nat.eqb_spec i jx) as [->|Hne].
    + rewrite Ei. rewrite Nat.eqb_refl. cbn [orb].
      assert (memb jx inds = false) by (apply memb_false; exact Hn). rewrite H. reflexivity.
    + destruct (Nat.eqb_spec jx i); [congruence|]. cbn [orb]. reflexivity.
  - rewrite (IH Hnd'). unfold memb. cbn [existsb]. fold (memb jx inds).
    destruct (Nat.eqb_spec jx i) as [->|Hne]; [rewrite Ei; reflexivity|]. cbn [orb]. reflexivity.
Qed.

Lemma inner_nt ssa s inds : forall m nt,
  (forall x, In x (snd (fold_left (inner_step ssa s) inds (m, nt))) <-> In x nt \/ (In x inds /\ am_get x m <> None)).
Proof.
  induction inds as [|i inds IH]; intros m nt x; cbn [fold_left]; [cbn; tauto|].
  unfold inner_step at 2. cbn [fst snd]. destruct (am_get i m) as [seti|] eqn:Ei.
  - rewrite IH, in_set_add. cbn [In]. split.
    + intros [[->|H]|[H1 H2]]; [right; split; [left; reflexivity|congruence]|left; exact H|].
      right. split; [right; exact H1|]. rewrite am_get_set in H2. destruct (Nat.eqb_spec i x) as [->|_]; [congruence|exact H2].
    + intros [H|[[<-|H1] H2]]; [left; right; exact H|left; left; reflexivity|].
      right. split; [exact H1|]. rewrite am_get_set. destruct (Nat.eqb i x); [discriminate|exact H2].
  - rewrite IH. cbn [In]. split.
    + intros [H|[H1 H2]]; [left; exact H|right; split; [right; exact H1|exact H2]].
    + intros [H|[[<-|H1] H2]]; [left; exact H|congruence|right; split; assumption].
Qed.

(* the set an index ends up with after the outer loop *)
Definition upd_set (ssa : nat) (s2i : amap) (jx : nat) (scon : list nat) (set : list nat) : list nat :=
  fold_left (fun acc s => if memb jx (inds_of s2i s) then set_add ssa (set_remove s acc) else acc) scon set.

Lemma outer_get ssa s2i0 scon : NoDup scon -> (forall s, In s scon -> NoDup (inds_of s2i0 s)) ->
  forall m nt s2i,
  (forall s, In s scon -> am_get s s2i = am_get s s2i0) ->
  let r := fold_left (outer_step ssa) scon (m, s2i, nt) in
  (forall jx, am_get jx (fst (fst r)) =
     match am_get jx m with Some set => Some (upd_set ssa s2i0 jx scon set) | None => None end) /\
  (forall s', am_get s' (snd (fst r)) = if memb s' scon then None else am_get s' s2i) /\
  (forall x, In x (snd r) <-> In x nt \/ exists s, In s scon /\ In x (inds_of s2i0 s) /\ am_get x m <> None).
Proof.
  intros Hnd. induction scon as [|s scon IH]; intros Hinds m nt s2i Hs2i; cbn [fold_left].
  - cbn zeta. cbn [fst snd]. split; [intros jx; cbn; destruct (am_get jx m); reflexivity|]. split; [reflexivity|].
    intros x. split; [auto|intros [H|(s & [] & _)]; exact H].
  - inversion Hnd as [|? ? Hn Hnd']; subst.
    assert (Ei : inds_of s2i s = inds_of s2i0 s) by (unfold inds_of; rewrite (Hs2i s (or_introl eq_refl)); reflexivity).
    destruct (fold_left (inner_step ssa s) (inds_of s2i0 s) (m, nt)) as [m1 nt1] eqn:E1.
    assert (E2 : outer_step ssa (m, s2i, nt) s = (m1, am_del s s2i, nt1)) by (unfold outer_step; rewrite Ei, E1; reflexivity).
    rewrite E2.
    assert (G1 : forall jx, am_get jx m1 = match am_get jx m with
              | Some set => Some (if memb jx (inds_of s2i0 s) then set_add ssa (set_remove s set) else set) | None => None end).
    { intros jx. pose proof (inner_get ssa s (inds_of s2i0 s) (Hinds s (or_introl eq_refl)) m nt jx) as H. rewrite E1 in H. exact H. }
    assert (G2 : forall x, In x nt1 <-> In x nt \/ (In x (inds_of s2i0 s) /\ am_get x m <> None)).
    { intros x. pose proof (inner_nt ssa s (inds_of s2i0 s) m nt x) as H. rewrite E1 in H. exact H. }
    destruct (IH Hnd' (fun s' H' => Hinds s' (or_intror H')) m1 nt1 (am_del s s2i)) as (A & B & C).
    { intros s' Hs'. rewrite am_get_del. destruct (Nat.eqb_spec s s') as [->|_]; [contradiction|]. apply Hs2i. right; exact Hs'. }
    cbn zeta in *. split; [|split].
    + intros jx. rewrite A, G1. destruct (am_get jx m); reflexivity.
    + intros s'. rewrite B, am_get_del. unfold memb. cbn [existsb]. fold (memb s' scon).
      destruct (Nat.eqb_spec s' s) as [->|Hne]; cbn [orb].
      * rewrite Nat.eqb_refl. destruct (memb s scon); reflexivity.
      * destruct (Nat.eqb_spec s s'); [congruence|reflexivity].
    + intros x. rewrite C, G2. split.
      * intros [[H|[H1 H2]]|(s' & Hs' & H1 & H2)]; [left; exact H|right; exists s; split; [left; reflexivity|split; assumption]|].
        right. exists s'. split; [right; exact Hs'|split; [exact H1|]]. rewrite G1 in H2. destruct (am_get x m); [discriminate|congruence].
      * intros [H|(s' & [<-|Hs'] & H1 & H2)]; [left; left; exact H|left; right; split; assumption|].
        right. exists s'. split; [exact Hs'|split; [exact H1|]]. rewrite G1. destruct (am_get x m); [discriminate|congruence].
Qed.

(* membership and sortedness of the updated set; ssa is fresh *)
Lemma upd_set_spec ssa s2i jx scon : forall set, ~ In ssa scon -> sasc set ->
  sasc (upd_set ssa s2i jx scon set) /\
  forall y, In y (upd_set ssa s2i jx scon set) <->
    (y = ssa /\ exists s, In s scon /\ memb jx (inds_of s2i s) = true) \/
    (In y set /\ forall s, In s scon -> memb jx (inds_of s2i s) = true -> y <> s).
Proof.
  induction scon as [|s scon IH]; intros set Hf Hs; unfold upd_set; cbn [fold_left].
  - split; [exact Hs|]. intros y. split; [intros H; right; split; [exact H|intros ? []]|intros [[_ (s & [] & _)]|[H _]]; exact H].
  - fold (upd_set ssa s2i jx scon). cbn [In] in Hf.
    destruct (memb jx (inds_of s2i s)) eqn:Em.
    + destruct (IH (set_add ssa (set_remove s set)) ltac:(tauto) (sasc_set_add _ _ (sasc_set_remove _ _ Hs))) as [A B].
      split; [exact A|]. intros y. rewrite B, in_set_add, in_set_remove. cbn [In]. split.
      * intros [[-> _]|[[->|[H1 H2]] H3]].
        -- left. split; [reflexivity|]. exists s. auto.
        -- left. split; [reflexivity|]. exists s. auto.
        -- right. split; [exact H1|]. intros s' [<-|Hs'] Hm; [exact H2|apply H3; assumption].
      * intros [[-> _]|[H1 H2]].
        -- right. split; [left; reflexivity|]. intros s' Hs' _ E0. subst s'. tauto.
        -- right. split; [right; split; [exact H1|apply H2; [left; reflexivity|exact Em]]|]. intros s' Hs'. apply H2. right; exact Hs'.
    + destruct (IH set ltac:(tauto) Hs) as [A B]. split; [exact A|]. intros y. rewrite B. cbn [In]. split.
      * intros [[-> (s' & Hs' & Hm)]|[H1 H2]]; [left; split; [reflexivity|exists s'; auto]|].
        right. split; [exact H1|]. intros s' [<-|Hs'] Hm; [congruence|apply H2; assumption].
      * intros [[-> (s' & [<-|Hs'] & Hm)]|[H1 H2]]; [congruence|left; split; [reflexivity|exists s'; auto]|].
        right. split; [exact H1|]. intros s' Hs'. apply H2. right; exact Hs'.
Qed.

Lemma sasc_fold_set_add l : forall acc, sasc acc ->
  sasc (fold_left (fun s j => set_add j s) l acc) /\
  forall x, In x (fold_left (fun s j => set_add j s) l acc) <-> In x acc \/ In x l.
Proof.
  induction l as [|j l IH]; intros acc Hs; cbn [fold_left]; [split; [exact Hs|intros x; cbn; tauto]|].
  destruct (IH (set_add j acc) (sasc_set_add j acc Hs)) as [A B]. split; [exact A|].
  intros x. rewrite B, in_set_add. cbn [In]. intuition.
Qed.

Lemma sasc_seq s n : sasc (seq s n).
Proof.
  revert s. induction n as [|n IH]; intros s; cbn [seq sasc]; [exact I|]. split; [|apply IH].
  intros y Hy. apply in_seq in Hy. lia.
Qed.
Lemma sasc_map_fst_filter {B} (f : nat * B -> bool) (l : list (nat * B)) : sasc (map fst l) -> sasc (map fst (filter f l)).
Proof.
  induction l as [|[a b] l IH]; cbn [map filter fst sasc]; intros H; [exact I|]. destruct H as [Ha Hl].
  destruct (f (a, b)); cbn [map fst sasc]; [split; [|apply IH, Hl]|apply IH, Hl].
  intros y Hy. apply Ha. apply in_map_iff in Hy. destruct Hy as (t & <- & Ht). apply filter_In in Ht. apply in_map, Ht.
Qed.

(* ------------------------------------------------------------------ *)
Section Edge.
Variable inputs : list (list ix).
Notation N := (length inputs).

(* the independent simulation: live tensors are (id, list of original leaves) *)
Definition carries (lv : list nat) (j : ix) : bool := existsb (fun k => memb j (nth k inputs [])) lv.
Definition live_t := list (nat * list nat).
Definition carriers (live : live_t) (j : ix) : live_t := filter (fun t => carries (snd t) j) live.
Record spst := mkSp { sp_live : live_t; sp_next : nat; sp_path : list (list nat) }.
Definition spec_step (st : spst) (j : ix) : spst :=
  let car := carriers (sp_live st) j in
  if Nat.ltb (length car) 2 then st
  else mkSp (filter (fun t => negb (carries (snd t) j)) (sp_live st) ++ [(sp_next st, concat (map snd car))])
            (S (sp_next st)) (sp_path st ++ [map fst car]).
Definition spec_init : spst := mkSp (map (fun i => (i, [i])) (seq 0 N)) N [].
Definition spec_run (ep : list ix) : spst := fold_left spec_step ep spec_init.

Definition known (j : ix) : bool := memb j (concat inputs).

Lemma known_iff j : known j = true <-> exists i, i < N /\ In j (nth i inputs []).
Proof.
  unfold known. rewrite memb_In, in_concat. split.
  - intros (t & Ht & Hj). destruct (In_nth inputs t [] Ht) as (i & Hi & E0). exists i. rewrite E0. auto.
  - intros (i & Hi & Hj). exists (nth i inputs []). split; [apply nth_In, Hi|exact Hj].
Qed.

Lemma carries_app a b j : carries (a ++ b) j = carries a j || carries b j.
Proof. unfold carries. apply existsb_app. Qed.
Lemma carries_concat (ls : list (list nat)) j : carries (concat ls) j = existsb (fun lv => carries lv j) ls.
Proof. induction ls as [|l ls IH]; [reflexivity|]. cbn [concat existsb]. rewrite carries_app, IH. reflexivity. Qed.

(* --- the initial maps --- *)
Definition i2s_of (l : list (nat * list ix)) (m : amap) : amap :=
  fold_left (fun m it => fold_left (fun m' j => am_add j (fst it) m') (snd it) m) l m.

Lemma am_add_get k j x m : am_get k (am_add j x m) =
  if Nat.eqb j k then Some (set_add x (match am_get j m with Some s => s | None => [] end)) else am_get k m.
Proof. unfold am_add. apply am_get_set. Qed.

Definition i2s_ok (k : nat) (m : amap) : Prop :=
  forall jx, match am_get jx m with
             | Some l => sasc l /\ l <> [] /\ forall i, In i l <-> i < k /\ In jx (nth i inputs [])
             | None => forall i, i < k -> ~ In jx (nth i inputs [])
             end.

Lemma i2s_term_ok i term : forall m,
  (forall jx, match am_get jx m with
              | Some l => sasc l /\ l <> [] /\ forall i', In i' l -> i' <= i
              | None => True end) ->
  forall jx, match am_get jx (fold_left (fun m' j => am_add j i m') term m) with
             | Some l => sasc l /\ l <> [] /\ (forall i', In i' l <-> (In i' (match am_get jx m with Some l0 => l0 | None => [] end) \/ (i' = i /\ In jx term)))
             | None => am_get jx m = None /\ ~ In jx term
             end.
Proof.
  induction term as [|j term IH]; intros m Hm jx; cbn [fold_left].
  - specialize (Hm jx). destruct (am_get jx m) as [l|]; [|split; [reflexivity|intros []]].
    destruct Hm as (A & B & _). split; [exact A|]. split; [exact B|]. intros i'. cbn [In]. tauto.
  - assert (Hm' : forall jx0, match am_get jx0 (am_add j i m) with
              | Some l => sasc l /\ l <> [] /\ forall i', In i' l -> i' <= i | None => True end).
    { intros jx0. rewrite am_add_get. destruct (Nat.eqb_spec j jx0) as [->|_]; [|apply Hm].
      specialize (Hm jx0). destruct (am_get jx0 m) as [l|].
      - destruct Hm as (A & B & C). split; [apply sasc_set_add, A|]. split.
        + intros E0. assert (In i (set_add i l)) by (apply in_set_add; left; reflexivity). rewrite E0 in H. destruct H.
        + intros i' Hi'. apply in_set_add in Hi'. destruct Hi' as [->|Hi']; [lia|apply C, Hi'].
      - cbn [set_add]. split; [split; [intros ? []|exact I]|]. split; [discriminate|]. intros i' [<-|[]]. lia. }
    specialize (IH (am_add j i m) Hm' jx). rewrite am_add_get in IH.
    destruct (am_get jx (fold_left (fun m' j0 => am_add j0 i m') term (am_add j i m))) as [l|].
    + destruct IH as (A & B & C). split; [exact A|]. split; [exact B|]. intros i'. rewrite C. cbn [In].
      destruct (Nat.eqb_spec j jx) as [->|Hne].
      * rewrite in_set_add. destruct (am_get jx m); cbn [In]; intuition.
      * intuition.
    + destruct IH as [A B]. destruct (Nat.eqb_spec j jx) as [->|Hne]; [discriminate|]. split; [exact A|]. cbn [In]. intuition.
Qed.
End Edge.

Lemma firstn_S_nth {A} (l : list A) d : forall k, k < length l -> firstn (S k) l = firstn k l ++ [nth k l d].
Proof.
  induction l as [|x l IH]; intros k Hk; cbn [length] in Hk; [lia|]. destruct k as [|k]; [reflexivity|].
  cbn [firstn nth app]. f_equal. apply IH. lia.
Qed.

Section Edge2.
Variable inputs : list (list ix).
Notation N := (length inputs).

Definition items : list (nat * list ix) := combine (seq 0 N) inputs.

Lemma items_nth k : k < N -> nth k items (0, []) = (k, nth k inputs []).
Proof. intros Hk. unfold items. rewrite combine_nth by apply seq_length. rewrite seq_nth by exact Hk. reflexivity. Qed.
Lemma items_length : length items = N.
Proof. unfold items. rewrite combine_length, seq_length. apply Nat.min_id. Qed.

Lemma i2s_step_ok k m : i2s_ok inputs k m ->
  i2s_ok inputs (S k) (fold_left (fun m' j => am_add j k m') (nth k inputs []) m).
Proof.
  intros IH jx.
  pose proof (i2s_term_ok k (nth k inputs []) m) as H.
  assert (Hm : forall jx0, match am_get jx0 m with Some l => sasc l /\ l <> [] /\ forall i', In i' l -> i' <= k | None => True end).
  { intros jx0. specialize (IH jx0). destruct (am_get jx0 m); [|exact I]. destruct IH as (A & B & C). split; [exact A|]. split; [exact B|].
    intros i' Hi'. apply C in Hi'. lia. }
  specialize (H Hm jx). specialize (IH jx).
  destruct (am_get jx (fold_left (fun m' j => am_add j k m') (nth k inputs []) m)) as [l|].
  + destruct H as (A & B & C). split; [exact A|]. split; [exact B|]. intros i. rewrite C.
    destruct (am_get jx m) as [l0|].
    * destruct IH as (_ & _ & D). rewrite D. split.
      -- intros [[H1 H2]|[-> H2]]; split; try assumption; lia.
      -- intros [H1 H2]. destruct (Nat.eq_dec i k) as [->|Hne]; [right; auto|left; split; [lia|exact H2]].
    * cbn [In]. split.
      -- intros [[]|[-> H2]]. split; [lia|exact H2].
      -- intros [H1 H2]. destruct (Nat.eq_dec i k) as [->|Hne]; [right; auto|exfalso; apply (IH i); [lia|exact H2]].
  + destruct H as [H1 H2]. rewrite H1 in IH. intros i Hi. destruct (Nat.eq_dec i k) as [->|Hne]; [exact H2|apply IH; lia].
Qed.

Lemma i2s_prefix_ok k : k <= N -> i2s_ok inputs k (i2s_of (firstn k items) []).
Proof.
  induction k as [|k IH]; intros Hk.
  - intros jx. cbn. intros i Hi. lia.
  - rewrite (firstn_S_nth items (0, [])) by (rewrite items_length; lia). unfold i2s_of in *. rewrite fold_left_app.
    cbn [fold_left]. rewrite items_nth by lia. cbn [fst snd]. apply i2s_step_ok. apply IH. lia.
Qed.

Lemma carriers_init jx :
  map fst (carriers inputs (sp_live (spec_init inputs)) jx) = filter (fun i => memb jx (nth i inputs [])) (seq 0 N).
Proof.
  cbn [spec_init sp_live]. generalize (seq 0 N). intros l. unfold carriers.
  induction l as [|i l IH]; [reflexivity|]. cbn [map filter snd]. unfold carries at 1. cbn [existsb]. rewrite orb_false_r.
  destruct (memb jx (nth i inputs [])); cbn [map fst]; rewrite IH; reflexivity.
Qed.

Lemma init_i2s jx : am_get jx (ind_to_ssas (edge_init inputs)) =
  if known inputs jx then Some (map fst (carriers inputs (sp_live (spec_init inputs)) jx)) else None.
Proof.
  cbn [edge_init ind_to_ssas]. fold items. fold (i2s_of items []).
  pose proof (i2s_prefix_ok N (le_n _) jx) as H. rewrite firstn_all2 in H by (rewrite items_length; lia).
  rewrite carriers_init. destruct (am_get jx (i2s_of items [])) as [l|].
  - destruct H as (A & B & C).
    assert (Hk : known inputs jx = true).
    { apply known_iff. destruct l as [|i l]; [congruence|]. exists i. apply C. left; reflexivity. }
    rewrite Hk. f_equal. apply sasc_unique; [exact A|apply sasc_filter, sasc_seq|].
    intros i. rewrite C, filter_In, in_seq, memb_In. intuition lia.
  - destruct (known inputs jx) eqn:Hk; [|reflexivity]. apply known_iff in Hk. destruct Hk as (i & Hi & Hj). exfalso. apply (H i Hi Hj).
Qed.
End Edge2.

Section Edge3.
Variable inputs : list (list ix).
Notation N := (length inputs).

Definition term_set (i : nat) : list ix := fold_left (fun s j => set_add j s) (nth i inputs []) [].

Lemma init_s2i s : am_get s (ssa_to_inds (edge_init inputs)) = if Nat.ltb s N then Some (term_set s) else None.
Proof.
  cbn [edge_init ssa_to_inds]. unfold term_set.
  assert (G : forall (ls : list (list ix)) a,
            am_get s (map (fun it => (fst it, fold_left (fun s0 j => set_add j s0) (snd it) [])) (combine (seq a (length ls)) ls))
            = if (Nat.leb a s && Nat.ltb s (a + length ls))%bool then Some (fold_left (fun s0 j => set_add j s0) (nth (s - a) ls []) []) else None).
  { induction ls as [|t ls IH]; intros a; cbn [length seq combine map am_get fst snd].
    - destruct (Nat.leb_spec a s), (Nat.ltb_spec s (a + 0)); cbn; try reflexivity; lia.
    - destruct (Nat.eqb_spec a s) as [->|Hne].
      + rewrite Nat.sub_diag. cbn [nth]. destruct (Nat.leb_spec s s), (Nat.ltb_spec s (s + S (length ls))); cbn; try reflexivity; lia.
      + rewrite IH. destruct (Nat.leb_spec (S a) s), (Nat.ltb_spec s (S a + length ls)), (Nat.leb_spec a s), (Nat.ltb_spec s (a + S (length ls)));
          cbn [andb]; try reflexivity; try lia.
        replace (s - a) with (S (s - S a)) by lia. reflexivity. }
  rewrite G. cbn [Nat.leb Nat.add andb]. rewrite Nat.sub_0_r. reflexivity.
Qed.

(* the refinement relation, after the indices P have been processed *)
Definition tracked (P : list ix) (jx : ix) : bool := known inputs jx && negb (memb jx P).

Record Rel (P : list ix) (st : estate) (sp : spst) : Prop := {
  r_raised : e_raised st = false;
  r_ssa : e_ssa st = sp_next sp;
  r_path : e_path st = sp_path sp;
  r_i2s : forall jx, am_get jx (ind_to_ssas st) =
            if tracked P jx then Some (map fst (carriers inputs (sp_live sp) jx)) else None;
  r_s2i_dead : forall s, ~ In s (map fst (sp_live sp)) -> am_get s (ssa_to_inds st) = None;
  r_s2i_live : forall s lv, In (s, lv) (sp_live sp) ->
     exists X, am_get s (ssa_to_inds st) = Some X /\ NoDup X /\
               forall jx, tracked P jx = true -> (In jx X <-> carries inputs lv jx = true);
  r_ids : sasc (map fst (sp_live sp));
  r_lt : forall s, In s (map fst (sp_live sp)) -> s < sp_next sp
}.

Lemma term_set_spec i : sasc (term_set i) /\ forall x, In x (term_set i) <-> In x (nth i inputs []).
Proof.
  unfold term_set. destruct (sasc_fold_set_add (nth i inputs []) [] I) as [A B]. split; [exact A|].
  intros x. rewrite B. cbn [In]. tauto.
Qed.

Lemma rel_init : Rel [] (edge_init inputs) (spec_init inputs).
Proof.
  constructor.
  - reflexivity.
  - reflexivity.
  - reflexivity.
  - intros jx. rewrite init_i2s. unfold tracked. cbn [memb existsb negb]. rewrite andb_true_r. reflexivity.
  - intros s Hs. rewrite init_s2i. destruct (Nat.ltb_spec s N) as [Hlt|_]; [|reflexivity]. exfalso. apply Hs.
    cbn [spec_init sp_live]. rewrite map_map. cbn [fst]. rewrite map_id. apply in_seq. lia.
  - intros s lv Hin. cbn [spec_init sp_live] in Hin. apply in_map_iff in Hin. destruct Hin as (i & E0 & Hi). inversion E0; subst. apply in_seq in Hi.
    exists (term_set s). rewrite init_s2i. destruct (Nat.ltb_spec s N); [|lia]. split; [reflexivity|].
    destruct (term_set_spec s) as [A B]. split; [apply sasc_NoDup, A|]. intros jx _. rewrite B. unfold carries. cbn [existsb]. rewrite orb_false_r. symmetry. apply memb_In.
  - cbn [spec_init sp_live]. rewrite map_map. cbn [fst]. rewrite map_id. apply sasc_seq.
  - intros s Hs. cbn [spec_init sp_live sp_next] in *. rewrite map_map in Hs. cbn [fst] in Hs. rewrite map_id in Hs. apply in_seq in Hs. lia.
Qed.
End Edge3.

Lemma inner_nt_sasc ssa s inds : forall m nt, sasc nt -> sasc (snd (fold_left (inner_step ssa s) inds (m, nt))).
Proof.
  induction inds as [|i inds IH]; intros m nt H; cbn [fold_left]; [exact H|].
  unfold inner_step at 2. cbn [fst snd]. destruct (am_get i m); apply IH; [apply sasc_set_add, H|exact H].
Qed.
Lemma outer_nt_sasc ssa scon : forall m s2i nt, sasc nt -> sasc (snd (fold_left (outer_step ssa) scon (m, s2i, nt))).
Proof.
  induction scon as [|s scon IH]; intros m s2i nt H; cbn [fold_left]; [exact H|].
  unfold outer_step at 2. pose proof (inner_nt_sasc ssa s (inds_of s2i s) m nt H) as H1.
  destruct (fold_left (inner_step ssa s) (inds_of s2i s) (m, nt)) as [m1 nt1]. apply IH. exact H1.
Qed.

Lemma sasc_app_last a x : sasc a -> (forall y, In y a -> y < x) -> sasc (a ++ [x]).
Proof.
  induction a as [|z a IH]; cbn [app sasc]; intros Hs Hx; [split; [intros ? []|exact I]|].
  destruct Hs as [Hz Hs]. split.
  - intros y Hy. apply in_app_iff in Hy. destruct Hy as [Hy|[<-|[]]]; [apply Hz, Hy|apply Hx; left; reflexivity].
  - apply IH; [exact Hs|]. intros y Hy. apply Hx. right; exact Hy.
Qed.

Lemma NoDup_fst_inj {B} (l : list (nat * B)) s b1 b2 : NoDup (map fst l) -> In (s, b1) l -> In (s, b2) l -> b1 = b2.
Proof.
  induction l as [|[a b] l IH]; intros Hnd H1 H2; [destruct H1|]. cbn [map fst] in Hnd. inversion Hnd as [|? ? Hn Hnd']; subst.
  destruct H1 as [E1|H1], H2 as [E2|H2].
  - congruence.
  - inversion E1; subst. exfalso. apply Hn. apply in_map_iff. exists (s, b2). auto.
  - inversion E2; subst. exfalso. apply Hn. apply in_map_iff. exists (s, b1). auto.
  - apply IH; assumption.
Qed.

Section Edge4.
Variable inputs : list (list ix).

Lemma tracked_cons P j jx : tracked inputs (j :: P) jx = tracked inputs P jx && negb (Nat.eqb jx j).
Proof.
  unfold tracked, memb. cbn [existsb]. fold (memb jx P). rewrite negb_orb.
  destruct (known inputs jx), (Nat.eqb jx j), (memb jx P); reflexivity.
Qed.

Lemma rel_step P st sp j : Rel inputs P st sp -> tracked inputs P j = true ->
  Rel inputs (j :: P) (edge_step st j) (spec_step inputs sp j).
Proof.
  intros J Hj. rewrite edge_step_unfold, (r_raised _ _ _ _ J), (r_i2s _ _ _ _ J j), Hj.
  set (live := sp_live sp). set (car := carriers inputs live j). set (scon := map fst car).
  unfold spec_step. fold live. fold car.
  assert (Hlen : length scon = length car) by apply map_length. rewrite Hlen.
  pose proof (r_ids _ _ _ _ J) as Hids. fold live in Hids.
  assert (Hndl : NoDup (map fst live)) by (apply sasc_NoDup, Hids).
  assert (Htc : forall jx, tracked inputs (j :: P) jx = true -> tracked inputs P jx = true /\ jx <> j).
  { intros jx H. rewrite tracked_cons in H. apply andb_prop in H. destruct H as [H1 H2]. split; [exact H1|].
    apply negb_true_iff, Nat.eqb_neq in H2. exact H2. }
  assert (Hi2s1 : forall jx, am_get jx (am_del j (ind_to_ssas st)) =
            if tracked inputs (j :: P) jx then Some (map fst (carriers inputs live jx)) else None).
  { intros jx. rewrite am_get_del, tracked_cons, (r_i2s _ _ _ _ J jx). fold live.
    destruct (Nat.eqb_spec j jx) as [->|Hne].
    - rewrite Nat.eqb_refl. cbn [negb]. rewrite andb_false_r. reflexivity.
    - destruct (Nat.eqb_spec jx j); [congruence|]. cbn [negb]. rewrite andb_true_r. reflexivity. }
  destruct (Nat.ltb_spec (length car) 2) as [Hsmall|Hbig].
  - (* fewer than two carriers: nothing is contracted *)
    constructor; cbn [e_raised e_ssa e_path ind_to_ssas ssa_to_inds].
    + reflexivity.
    + apply (r_ssa _ _ _ _ J).
    + apply (r_path _ _ _ _ J).
    + exact Hi2s1.
    + apply (r_s2i_dead _ _ _ _ J).
    + intros s lv Hin. destruct (r_s2i_live _ _ _ _ J s lv Hin) as (X & A & B & C). exists X. split; [exact A|]. split; [exact B|].
      intros jx Ht. apply C. apply (Htc jx Ht).
    + apply (r_ids _ _ _ _ J).
    + apply (r_lt _ _ _ _ J).
  - (* a contraction step *)
    set (ssa := e_ssa st). set (s2i := ssa_to_inds st). set (m := am_del j (ind_to_ssas st)).
    assert (Hssa : ssa = sp_next sp) by apply (r_ssa _ _ _ _ J).
    assert (Hcar : forall t, In t car <-> In t live /\ carries inputs (snd t) j = true) by (intros t; unfold car, carriers; apply filter_In).
    assert (Hscon : forall s, In s scon <-> exists lv, In (s, lv) live /\ carries inputs lv j = true).
    { intros s. unfold scon. rewrite in_map_iff. split.
      - intros ([s' lv] & E0 & Ht). cbn in E0. subst s'. exists lv. apply Hcar in Ht. exact Ht.
      - intros (lv & H1 & H2). exists (s, lv). split; [reflexivity|]. apply Hcar. auto. }
    assert (Hlt : forall s, In s scon -> s < ssa).
    { intros s Hs. apply Hscon in Hs. destruct Hs as (lv & H1 & _). rewrite Hssa. apply (r_lt _ _ _ _ J). apply in_map_iff. exists (s, lv). auto. }
    assert (Hfresh : ~ In ssa scon) by (intros H; apply Hlt in H; lia).
    assert (Hndsc : NoDup scon) by (apply sasc_NoDup; unfold scon, car, carriers; apply sasc_map_fst_filter, Hids).
    assert (Hinds : forall s lv, In (s, lv) live -> exists X, inds_of s2i s = X /\ NoDup X /\
               forall jx, tracked inputs P jx = true -> (In jx X <-> carries inputs lv jx = true)).
    { intros s lv Hin. destruct (r_s2i_live _ _ _ _ J s lv Hin) as (X & A & B & C). exists X. unfold inds_of, s2i. rewrite A. auto. }
    assert (Hndi : forall s, In s scon -> NoDup (inds_of s2i s)).
    { intros s Hs. apply Hscon in Hs. destruct Hs as (lv & H1 & _). destruct (Hinds s lv H1) as (X & -> & B & _). exact B. }
    destruct (outer_get ssa s2i scon Hndsc Hndi m [] s2i (fun _ _ => eq_refl)) as (A & B & C).
    pose proof (outer_nt_sasc ssa scon m s2i [] I) as Hnts.
    destruct (fold_left (outer_step ssa) scon (m, s2i, [])) as [[i2s' s2i'] nt] eqn:Efold. cbn [fst snd] in A, B, C, Hnts.
    set (U := concat (map snd car)).
    set (live' := filter (fun t => negb (carries inputs (snd t) j)) live ++ [(sp_next sp, U)]).
    assert (Hlive' : forall s lv, In (s, lv) live' <-> (In (s, lv) live /\ carries inputs lv j = false) \/ (s = ssa /\ lv = U)).
    { intros s lv. unfold live'. rewrite in_app_iff, filter_In, negb_true_iff. cbn [In snd]. rewrite Hssa.
      split; [intros [H|[E0|[]]]; [left; exact H|right; inversion E0; auto]|intros [H|[-> ->]]; [left; exact H|right; left; reflexivity]]. }
    assert (HU : forall jx, carries inputs U jx = true <-> exists s lv, In s scon /\ In (s, lv) live /\ carries inputs lv j = true /\ carries inputs lv jx = true).
    { intros jx. unfold U. rewrite carries_concat, existsb_exists. split.
      - intros (lv & Hlv & Hc). apply in_map_iff in Hlv. destruct Hlv as ([s lv'] & E0 & Ht). cbn in E0. subst lv'.
        apply Hcar in Ht. destruct Ht as [H1 H2]. exists s, lv. split; [apply Hscon; exists lv; auto|auto].
      - intros (s & lv & _ & H1 & H2 & H3). exists lv. split; [|exact H3]. apply in_map_iff. exists (s, lv). split; [reflexivity|]. apply Hcar. auto. }
    assert (Hmemb : forall s lv jx, In (s, lv) live -> tracked inputs P jx = true ->
              (memb jx (inds_of s2i s) = true <-> carries inputs lv jx = true)).
    { intros s lv jx Hin Ht. destruct (Hinds s lv Hin) as (X & -> & _ & Cx). rewrite memb_In. apply Cx, Ht. }
    assert (Hids' : sasc (map fst live')).
    { unfold live'. rewrite map_app. cbn [map fst]. apply sasc_app_last; [apply sasc_map_fst_filter, Hids|].
      intros y Hy. apply (r_lt _ _ _ _ J). apply in_map_iff in Hy. destruct Hy as (t & <- & Ht). apply filter_In in Ht. apply in_map, Ht. }
    constructor; cbn [e_raised e_ssa e_path ind_to_ssas ssa_to_inds sp_live sp_next sp_path]; fold live'.
    + reflexivity.
    + fold ssa. rewrite Hssa. reflexivity.
    + rewrite (r_path _ _ _ _ J). reflexivity.
    + (* ind_to_ssas *)
      intros jx. rewrite A. unfold m. rewrite Hi2s1. destruct (tracked inputs (j :: P) jx) eqn:Et; [|reflexivity].
      destruct (Htc jx Et) as [EtP Hne]. f_equal.
      set (set := map fst (carriers inputs live jx)).
      assert (Hset : sasc set) by (unfold set, carriers; apply sasc_map_fst_filter, Hids).
      destruct (upd_set_spec ssa s2i jx scon set Hfresh Hset) as [Hs1 Hs2].
      apply sasc_unique; [exact Hs1|unfold carriers; apply sasc_map_fst_filter, Hids'|].
      intros y. rewrite Hs2.
      assert (Hinset : forall y0, In y0 set <-> exists lv, In (y0, lv) live /\ carries inputs lv jx = true).
      { intros y0. unfold set, carriers. rewrite in_map_iff. split.
        - intros ([s lv] & E0 & Ht). cbn in E0. subst s. apply filter_In in Ht. exists lv. exact Ht.
        - intros (lv & H1 & H2). exists (y0, lv). split; [reflexivity|]. apply filter_In. auto. }
      assert (Hnew : In y (map fst (carriers inputs live' jx)) <-> exists lv, In (y, lv) live' /\ carries inputs lv jx = true).
      { unfold carriers. rewrite in_map_iff. split.
        - intros ([s lv] & E0 & Ht). cbn in E0. subst s. apply filter_In in Ht. exists lv. exact Ht.
        - intros (lv & H1 & H2). exists (y, lv). split; [reflexivity|]. apply filter_In. auto. }
      rewrite Hnew. split.
      * intros [[-> (s & Hs & Hm)]|[Hy Hc]].
        -- exists U. split; [apply Hlive'; right; auto|]. apply Hscon in Hs. destruct Hs as (lv & H1 & H2). apply HU. exists s, lv.
           split; [apply Hscon; exists lv; auto|]. split; [exact H1|]. split; [exact H2|]. apply (Hmemb s lv jx H1 EtP), Hm.
        -- apply Hinset in Hy. destruct Hy as (lv & H1 & H2). exists lv. split; [|exact H2]. apply Hlive'. left. split; [exact H1|].
           destruct (carries inputs lv j) eqn:Ec; [|reflexivity]. exfalso.
           apply (Hc y); [apply Hscon; exists lv; auto|apply (Hmemb y lv jx H1 EtP), H2|reflexivity].
      * intros (lv & Hin & Hc). apply Hlive' in Hin. destruct Hin as [[H1 H2]|[-> ->]].
        -- right. split; [apply Hinset; exists lv; auto|]. intros s Hs _ E0. subst s. apply Hscon in Hs. destruct Hs as (lv' & H3 & H4).
           rewrite (NoDup_fst_inj live y lv lv' Hndl H1 H3) in H2. congruence.
        -- left. split; [reflexivity|]. apply HU in Hc. destruct Hc as (s & lv & Hs & H1 & H2 & H3). exists s. split; [exact Hs|].
           apply (Hmemb s lv jx H1 EtP), H3.
    + (* dead ids *)
      intros s Hs. rewrite am_get_app, B.
      assert (Hsne : s <> ssa).
      { intros ->. apply Hs. unfold live'. rewrite map_app, in_app_iff. right. left. cbn. symmetry. exact Hssa. }
      destruct (memb s scon) eqn:Em.
      * destruct (Nat.eqb_spec ssa s); [congruence|reflexivity].
      * apply memb_false in Em.
        assert (Hnl : ~ In s (map fst live)).
        { intros H. apply in_map_iff in H. destruct H as ([s' lv] & E0 & Ht). cbn in E0. subst s'. apply Hs.
          apply in_map_iff. exists (s, lv). split; [reflexivity|]. apply Hlive'. left. split; [exact Ht|].
          destruct (carries inputs lv j) eqn:Ec; [|reflexivity]. exfalso. apply Em, Hscon. exists lv. auto. }
        unfold s2i. rewrite (r_s2i_dead _ _ _ _ J s Hnl). destruct (Nat.eqb_spec ssa s); [congruence|reflexivity].
    + (* live ids *)
      intros s lv Hin. apply Hlive' in Hin. destruct Hin as [[H1 H2]|[-> ->]].
      * destruct (r_s2i_live _ _ _ _ J s lv H1) as (X & Ax & Bx & Cx). exists X. rewrite am_get_app, B.
        assert (Em : memb s scon = false).
        { apply memb_false. intros Hs. apply Hscon in Hs. destruct Hs as (lv' & H3 & H4). rewrite (NoDup_fst_inj live s lv lv' Hndl H1 H3) in H2. congruence. }
        rewrite Em. unfold s2i. rewrite Ax. split; [reflexivity|]. split; [exact Bx|]. intros jx Ht. apply Cx, (Htc jx Ht).
      * exists nt. rewrite am_get_app, B.
        assert (Em : memb ssa scon = false) by (apply memb_false, Hfresh). rewrite Em.
        assert (Hd : am_get ssa s2i = None).
        { apply (r_s2i_dead _ _ _ _ J). intros H. apply (r_lt _ _ _ _ J) in H. lia. }
        rewrite Hd, Nat.eqb_refl. split; [reflexivity|]. split; [apply sasc_NoDup, Hnts|].
        intros jx Ht. destruct (Htc jx Ht) as [EtP Hne]. rewrite C. cbn [In]. rewrite HU. split.
        -- intros [[]|(s & Hs & Hx & _)]. pose proof Hs as Hs0. apply Hscon in Hs. destruct Hs as (lv & H1 & H2). exists s, lv.
           split; [exact Hs0|]. split; [exact H1|]. split; [exact H2|]. apply (Hmemb s lv jx H1 EtP). apply memb_In, Hx.
        -- intros (s & lv & Hs & H1 & H2 & H3). right. exists s. split; [exact Hs|]. split.
           ++ apply memb_In. apply (Hmemb s lv jx H1 EtP), H3.
           ++ unfold m. rewrite Hi2s1, Ht. discriminate.
    + exact Hids'.
    + intros s Hs. unfold live' in Hs. rewrite map_app, in_app_iff in Hs. destruct Hs as [Hs|[<-|[]]]; [|cbn; lia].
      apply in_map_iff in Hs. destruct Hs as (t & <- & Ht). apply filter_In in Ht. pose proof (r_lt _ _ _ _ J (fst t) (in_map fst _ _ (proj1 Ht))). lia.
Qed.
End Edge4.

Section Edge5.
Variable inputs : list (list ix).
Notation N := (length inputs).

Lemma rel_loop ep : forall P st sp, Rel inputs P st sp -> NoDup ep ->
  (forall j, In j ep -> known inputs j = true /\ ~ In j P) ->
  Rel inputs (rev ep ++ P) (fold_left edge_step ep st) (fold_left (spec_step inputs) ep sp).
Proof.
  induction ep as [|j ep IH]; intros P st sp J Hnd Hk; [exact J|].
  inversion Hnd as [|? ? Hn Hnd']; subst. cbn [fold_left rev]. rewrite <- app_assoc. cbn [app].
  destruct (Hk j (or_introl eq_refl)) as [Hkj HjP].
  apply IH; [apply rel_step; [exact J|]|exact Hnd'|].
  - unfold tracked. rewrite Hkj. cbn [andb]. apply negb_true_iff, memb_false, HjP.
  - intros j' Hj'. destruct (Hk j' (or_intror Hj')) as [A B]. split; [exact A|]. intros [<-|H]; [contradiction|apply B, H].
Qed.

(* edge_path_steps_are_carriers: on every list of distinct indices that occur in the network
   the model of edge_path_to_ssa does not raise and emits exactly the steps of the simulation:
   for each index, in order, the (sorted) ids of the live tensors carrying it, provided there
   are at least two *)
Theorem edge_path_refines ep : NoDup ep -> (forall j, In j ep -> known inputs j = true) ->
  edge_path_to_ssa ep inputs = (sp_path (spec_run inputs ep), false).
Proof.
  intros Hnd Hk. unfold edge_path_to_ssa, spec_run.
  pose proof (rel_loop ep [] (edge_init inputs) (spec_init inputs) (rel_init inputs) Hnd
                (fun j Hj => conj (Hk j Hj) (fun H => H))) as J.
  rewrite (r_path _ _ _ _ J), (r_raised _ _ _ _ J). reflexivity.
Qed.

Lemma raised_stays ep : forall st, e_raised st = true -> fold_left edge_step ep st = st.
Proof.
  induction ep as [|j ep IH]; intros st H; [reflexivity|]. cbn [fold_left].
  assert (E0 : edge_step st j = st) by (rewrite edge_step_unfold, H; reflexivity). rewrite E0. apply IH, H.
Qed.

(* ... and on any other list it raises (KeyError) at the first index that is repeated or does
   not occur in the network, having emitted the steps of the valid prefix *)
Theorem edge_path_raises pre j suf : NoDup pre -> (forall i, In i pre -> known inputs i = true) ->
  (In j pre \/ known inputs j = false) ->
  edge_path_to_ssa (pre ++ j :: suf) inputs = (sp_path (spec_run inputs pre), true).
Proof.
  intros Hnd Hk Hbad. unfold edge_path_to_ssa, spec_run. rewrite fold_left_app. cbn [fold_left].
  pose proof (rel_loop pre [] (edge_init inputs) (spec_init inputs) (rel_init inputs) Hnd
                (fun i Hi => conj (Hk i Hi) (fun H => H))) as J. rewrite app_nil_r in J.
  set (st := fold_left edge_step pre (edge_init inputs)) in *.
  assert (Ht : tracked inputs (rev pre) j = false).
  { unfold tracked. destruct Hbad as [H|H]; [|rewrite H; reflexivity].
    assert (memb j (rev pre) = true) by (apply memb_In; rewrite <- in_rev; exact H). rewrite H0. apply andb_false_r. }
  assert (E0 : edge_step st j = mkES (ind_to_ssas st) (ssa_to_inds st) (e_ssa st) (e_path st) true).
  { rewrite edge_step_unfold, (r_raised _ _ _ _ J), (r_i2s _ _ _ _ J j), Ht. reflexivity. }
  rewrite E0, raised_stays by reflexivity. cbn [e_path e_raised]. rewrite (r_path _ _ _ _ J). reflexivity.
Qed.
End Edge5.

(* ------------------------------------------------------------------ *)
(* validity of the emitted ssa path and of its linear image *)
Fixpoint live_after (live : list nat) (ssa : nat) (p : list (list nat)) : list nat * nat :=
  match p with
  | [] => (live, ssa)
  | scon :: rest => live_after (filter (fun x => negb (memb x scon)) live ++ [ssa]) (S ssa) rest
  end.

Lemma live_after_snoc p : forall live ssa scon,
  live_after live ssa (p ++ [scon]) =
  (filter (fun x => negb (memb x scon)) (fst (live_after live ssa p)) ++ [snd (live_after live ssa p)],
   S (snd (live_after live ssa p))).
Proof. induction p as [|c p IH]; intros live ssa scon; [reflexivity|]. cbn [app live_after]. apply IH. Qed.

Lemma valid_ssa_snoc p : forall live ssa scon,
  valid_ssa live ssa p -> scon <> [] -> NoDup scon -> (forall s, In s scon -> In s (fst (live_after live ssa p))) ->
  valid_ssa live ssa (p ++ [scon]).
Proof.
  induction p as [|c p IH]; intros live ssa scon Hv Hne Hnd Hin; cbn [app valid_ssa live_after] in *.
  - repeat split; auto.
  - destruct Hv as (A & B & C & D). repeat split; auto.
Qed.

Lemma map_fst_filter_neg {B} (f : nat * B -> bool) (l : list (nat * B)) : NoDup (map fst l) ->
  map fst (filter (fun t => negb (f t)) l) = filter (fun x => negb (memb x (map fst (filter f l)))) (map fst l).
Proof.
  induction l as [|[a b] l IH]; intros Hnd; [reflexivity|]. cbn [map fst] in Hnd. inversion Hnd as [|? ? Hn Hnd']; subst.
  cbn [filter map fst]. destruct (f (a, b)) eqn:Ef; cbn [negb map fst].
  - unfold memb at 1. cbn [existsb]. rewrite Nat.eqb_refl. cbn [orb negb]. rewrite (IH Hnd').
    apply filter_ext_in. intros x Hx. unfold memb. cbn [existsb]. destruct (Nat.eqb_spec x a) as [->|_]; [contradiction|reflexivity].
  - assert (Hm : memb a (map fst (filter f l)) = false).
    { apply memb_false. intros H. apply Hn. apply in_map_iff in H. destruct H as (t & <- & Ht). apply filter_In in Ht. apply in_map, Ht. }
    rewrite Hm. cbn [negb]. f_equal. apply IH, Hnd'.
Qed.

Lemma NoDup_app_intro'' {A} (a b : list A) :
  NoDup a -> NoDup b -> (forall x, In x a -> ~ In x b) -> NoDup (a ++ b).
Proof.
  induction a as [|x a IH]; cbn; intros Ha Hb Hd; [exact Hb|].
  inversion Ha as [|? ? Hnin Ha']; subst. constructor.
  - rewrite in_app_iff. intros [H|H]; [contradiction|]. apply (Hd x); [left; reflexivity|exact H].
  - apply IH; [exact Ha'|exact Hb|]. intros y Hy. apply Hd. right; exact Hy.
Qed.

Section Edge6.
Variable inputs : list (list ix).
Notation N := (length inputs).

Record SpecOk (sp : spst) : Prop := {
  so_valid : valid_ssa (seq 0 N) N (sp_path sp);
  so_after : live_after (seq 0 N) N (sp_path sp) = (map fst (sp_live sp), sp_next sp);
  so_ids : sasc (map fst (sp_live sp))
}.

Lemma specok_init : SpecOk (spec_init inputs).
Proof.
  constructor; cbn [spec_init sp_path sp_live sp_next valid_ssa live_after].
  - exact I.
  - rewrite map_map. cbn [fst]. rewrite map_id. reflexivity.
  - rewrite map_map. cbn [fst]. rewrite map_id. apply sasc_seq.
Qed.

Lemma specok_step sp j : (forall s, In s (map fst (sp_live sp)) -> s < sp_next sp) -> SpecOk sp ->
  SpecOk (spec_step inputs sp j) /\ (forall s, In s (map fst (sp_live (spec_step inputs sp j))) -> s < sp_next (spec_step inputs sp j)).
Proof.
  intros Hlt [Hv Ha Hi]. unfold spec_step. set (car := carriers inputs (sp_live sp) j).
  destruct (Nat.ltb_spec (length car) 2) as [Hs|Hb]; [split; [constructor; assumption|exact Hlt]|].
  assert (Hnd : NoDup (map fst (sp_live sp))) by (apply sasc_NoDup, Hi).
  split.
  - constructor; cbn [sp_path sp_live sp_next].
    + apply valid_ssa_snoc; [exact Hv| | |].
      * destruct car as [|t car']; [cbn in Hb; lia|discriminate].
      * apply sasc_NoDup. unfold car, carriers. apply sasc_map_fst_filter, Hi.
      * rewrite Ha. cbn [fst]. intros s Hs. apply in_map_iff in Hs. destruct Hs as (t & <- & Ht). apply filter_In in Ht. apply in_map, Ht.
    + rewrite live_after_snoc, Ha. cbn [fst snd]. rewrite map_app. cbn [map fst]. f_equal. f_equal.
      symmetry. apply (map_fst_filter_neg (fun t => carries inputs (snd t) j) (sp_live sp) Hnd).
    + rewrite map_app. cbn [map fst]. apply sasc_app_last; [apply sasc_map_fst_filter, Hi|].
      intros y Hy. apply Hlt. apply in_map_iff in Hy. destruct Hy as (t & <- & Ht). apply filter_In in Ht. apply in_map, Ht.
  - cbn [sp_live sp_next]. intros s Hs. rewrite map_app, in_app_iff in Hs. destruct Hs as [Hs|[<-|[]]]; [|cbn; lia].
    apply in_map_iff in Hs. destruct Hs as (t & <- & Ht). apply filter_In in Ht. pose proof (Hlt (fst t) (in_map fst _ _ (proj1 Ht))). lia.
Qed.

Lemma specok_run ep : SpecOk (spec_run inputs ep).
Proof.
  unfold spec_run.
  assert (G : forall ep sp, (forall s, In s (map fst (sp_live sp)) -> s < sp_next sp) -> SpecOk sp ->
            SpecOk (fold_left (spec_step inputs) ep sp)).
  { induction ep0 as [|j ep0 IH]; intros sp Hlt Hok; [exact Hok|]. cbn [fold_left].
    destruct (specok_step sp j Hlt Hok) as [A B]. apply IH; assumption. }
  apply G; [|apply specok_init]. cbn [spec_init sp_live sp_next]. intros s Hs. rewrite map_map in Hs. cbn [fst] in Hs. rewrite map_id in Hs.
  apply in_seq in Hs. lia.
Qed.

(* the emitted ssa path is valid, for EVERY list of indices *)
Theorem edge_path_valid_ssa ep : valid_ssa (seq 0 N) N (fst (edge_path_to_ssa ep inputs)).
Proof.
  (* split ep at the first bad index *)
  assert (G : forall ep pre, NoDup pre -> (forall i, In i pre -> known inputs i = true) ->
            exists good, fst (edge_path_to_ssa (pre ++ ep) inputs) = sp_path (spec_run inputs good)).
  { induction ep0 as [|j ep0 IH]; intros pre Hnd Hk.
    - rewrite app_nil_r. exists pre. rewrite (edge_path_refines inputs pre Hnd Hk). reflexivity.
    - destruct (in_dec Nat.eq_dec j pre) as [Hin|Hnin].
      + exists pre. rewrite (edge_path_raises inputs pre j ep0 Hnd Hk (or_introl Hin)). reflexivity.
      + destruct (known inputs j) eqn:Ek.
        * replace (pre ++ j :: ep0) with ((pre ++ [j]) ++ ep0) by (rewrite <- app_assoc; reflexivity).
          apply IH.
          -- apply NoDup_app_intro''; [exact Hnd|repeat constructor; intros []|]. intros x Hx [<-|[]]. contradiction.
          -- intros i Hi. apply in_app_iff in Hi. destruct Hi as [Hi|[<-|[]]]; [apply Hk, Hi|exact Ek].
        * exists pre. rewrite (edge_path_raises inputs pre j ep0 Hnd Hk (or_intror Ek)). reflexivity. }
  destruct (G ep [] (NoDup_nil _) (fun i H => match H with end)) as (good & E0). cbn [app] in E0. rewrite E0.
  apply (so_valid _ (specok_run good)).
Qed.
End Edge6.

(* ssa_to_linear maps valid ssa paths to valid linear paths *)
Lemma ssa_run_valid_lin spath : forall ids ssa, ids_ok ids ssa -> valid_ssa ids ssa spath ->
  valid_lin (length ids) (ssa_run ids ssa spath).
Proof.
  induction spath as [|scon rest IH]; intros ids ssa Hok Hv; [exact I|].
  cbn [valid_ssa] in Hv. destruct Hv as (Hne & Hnd & Hlive & Hv). destruct Hok as [Hs Hlt].
  cbn [ssa_run valid_lin].
  set (P := map (bisect_left ids) scon).
  assert (HP : forall c, In c P -> c < length ids).
  { intros c Hc. apply in_map_iff in Hc. destruct Hc as (s & <- & Hs'). apply bisect_present; auto. }
  assert (Hback : map (fun c => nth c ids 0) P = scon).
  { unfold P. rewrite map_map. rewrite <- (map_id scon) at 2. apply map_ext_in. intros s Hs'. apply bisect_present; auto. }
  assert (HPnd : NoDup P).
  { apply NoDup_map_inj_in; [|exact Hnd].
    intros x y Hx Hy E. rewrite <- (proj2 (bisect_present ids x Hs (Hlive x Hx))), <- (proj2 (bisect_present ids y Hs (Hlive y Hy))), E. reflexivity. }
  assert (Hsa : sasc (sort_asc P)) by (apply sort_asc_sasc, HPnd).
  assert (Hd : desc_from (length ids) (rev (sort_asc P))).
  { apply sdesc_desc_from; [apply sasc_rev, Hsa|]. intros d Hd. rewrite <- in_rev in Hd. apply HP.
    eapply Permutation_in; [apply sort_asc_perm|exact Hd]. }
  assert (Hlen : length (sort_asc P) = length scon).
  { rewrite (Permutation_length (sort_asc_perm P)). unfold P. apply map_length. }
  split; [|split; [|split]].
  - intros E0. rewrite E0 in Hlen. destruct scon; [congruence|discriminate].
  - apply sasc_NoDup, Hsa.
  - intros c Hc. apply HP. eapply Permutation_in; [apply sort_asc_perm|exact Hc].
  - destruct (pops_ok (rev (sort_asc P)) (length ids) ids ssa Hd (le_n _) (conj Hs Hlt)) as [Hok' Hlen'].
    replace (length ids - length (sort_asc P) + 1) with (length (pops (rev (sort_asc P)) ids ++ [ssa]))
      by (rewrite app_length, Hlen', rev_length; cbn [length]; lia).
    apply IH; [apply ids_ok_append, Hok'|].
    eapply valid_ssa_ext; [|exact Hv]. intros x. rewrite !in_app_iff, filter_In.
    rewrite (in_pops (rev (sort_asc P)) (length ids) ids x Hd (le_n _) (si_NoDup ids Hs)).
    rewrite map_rev. rewrite <- in_rev.
    assert (Hmem : In x (map (fun c => nth c ids 0) (sort_asc P)) <-> In x scon).
    { split; intros H.
      - rewrite <- Hback. eapply Permutation_in; [|exact H]. apply Permutation_map, sort_asc_perm.
      - rewrite <- Hback in H. eapply Permutation_in; [|exact H]. apply Permutation_map. symmetry. apply sort_asc_perm. }
    rewrite Hmem, negb_true_iff, memb_false. tauto.
Qed.

Theorem ssa_to_linear_valid spath N : valid_ssa (seq 0 N) N spath -> valid_lin N (ssa_to_linear spath N).
Proof.
  intros Hv. rewrite ssa_to_linear_run. rewrite <- (seq_length N 0) at 1. apply ssa_run_valid_lin; [apply ids_ok_init|exact Hv].
Qed.

(* the linear image of an edge path is a valid linear path *)
Theorem edge_path_valid_linear inputs ep : valid_lin (length inputs) (edge_path_to_linear ep inputs).
Proof. unfold edge_path_to_linear. apply ssa_to_linear_valid, edge_path_valid_ssa. Qed.

(* ------------------------------------------------------------------ *)
(* what remains live: the classes of "connected through a processed index" *)
From Coq Require Import Relations.

Lemma concat_snd_partition {B} (f : nat * list B -> bool) (l : list (nat * list B)) :
  Permutation (concat (map snd l)) (concat (map snd (filter (fun t => negb (f t)) l)) ++ concat (map snd (filter f l))).
Proof.
  induction l as [|t l IH]; [reflexivity|]. cbn [map concat filter]. destruct (f t); cbn [negb map concat].
  - rewrite IH. rewrite Permutation_app_swap_app. reflexivity.
  - rewrite IH, app_assoc. reflexivity.
Qed.

Lemma concat_unique_owner {B} (l : list (nat * list B)) : NoDup (concat (map snd l)) ->
  forall t1 t2 b, In t1 l -> In t2 l -> In b (snd t1) -> In b (snd t2) -> t1 = t2.
Proof.
  induction l as [|t l IH]; intros Hnd t1 t2 b H1 H2 Hb1 Hb2; [destruct H1|]. cbn [map concat] in Hnd.
  assert (Hl : NoDup (concat (map snd l))) by (clear -Hnd; induction (snd t) as [|x a IHa]; [exact Hnd|inversion Hnd; auto]).
  assert (Hdisj : forall x t', In x (snd t) -> In t' l -> In x (snd t') -> False).
  { intros x t' Hx Ht' Hx'. assert (Hc : In x (concat (map snd l))) by (apply in_concat; exists (snd t'); split; [apply in_map, Ht'|exact Hx']).
    clear -Hnd Hx Hc. induction (snd t) as [|y a IHa]; [destruct Hx|]. cbn [app] in Hnd. inversion Hnd as [|? ? Hn Hnd']; subst.
    destruct Hx as [->|Hx]; [apply Hn, in_or_app; right; exact Hc|apply IHa; assumption]. }
  destruct H1 as [<-|H1], H2 as [<-|H2]; [reflexivity| | |apply (IH Hl t1 t2 b); assumption].
  - exfalso. apply (Hdisj b t2 Hb1 H2 Hb2).
  - exfalso. apply (Hdisj b t1 Hb2 H1 Hb1).
Qed.

Section Edge7.
Variable inputs : list (list ix).
Notation N := (length inputs).

Definition linked (P : list ix) (a b : nat) : Prop :=
  exists j, In j P /\ In j (nth a inputs []) /\ In j (nth b inputs []).
Definition conn (P : list ix) : nat -> nat -> Prop := clos_refl_sym_trans nat (linked P).
Definition same_live (live : live_t) (a b : nat) : Prop := exists t, In t live /\ In a (snd t) /\ In b (snd t).

Lemma conn_mono P P' a b : incl P P' -> conn P a b -> conn P' a b.
Proof.
  intros Hi H. induction H as [x y (j & Hj & H1 & H2)|x|x y _ IH|x y z _ IH1 _ IH2].
  - apply rst_step. exists j. split; [apply Hi, Hj|auto].
  - apply rst_refl.
  - apply rst_sym, IH.
  - eapply rst_trans; eassumption.
Qed.

Lemma carries_iff lv j : carries inputs lv j = true <-> exists k, In k lv /\ In j (nth k inputs []).
Proof. unfold carries. rewrite existsb_exists. split; intros (k & Hk & H); exists k; (split; [exact Hk|]); apply memb_In; exact H. Qed.

Record Comp (P : list ix) (sp : spst) : Prop := {
  w_part : Permutation (concat (map snd (sp_live sp))) (seq 0 N);
  w_conn : forall t a b, In t (sp_live sp) -> In a (snd t) -> In b (snd t) -> conn P a b;
  w_link : forall j a b, In j P -> In j (nth a inputs []) -> In j (nth b inputs []) -> same_live (sp_live sp) a b
}.

Lemma comp_init : Comp [] (spec_init inputs).
Proof.
  constructor; cbn [spec_init sp_live].
  - assert (G : forall l, concat (map snd (map (fun i : nat => (i, [i])) l)) = l) by (induction l as [|x l IH]; [reflexivity|]; cbn; rewrite IH; reflexivity).
    rewrite G. reflexivity.
  - intros t a b Ht Ha Hb. apply in_map_iff in Ht. destruct Ht as (i & <- & _). cbn [snd] in *. destruct Ha as [<-|[]], Hb as [<-|[]]. apply rst_refl.
  - intros j a b [].
Qed.

Lemma owner P sp a : Comp P sp -> a < N -> exists t, In t (sp_live sp) /\ In a (snd t).
Proof.
  intros W Ha. assert (H : In a (concat (map snd (sp_live sp)))).
  { eapply Permutation_in; [symmetry; apply (w_part _ _ W)|]. apply in_seq. lia. }
  apply in_concat in H. destruct H as (lv & Hlv & Hin). apply in_map_iff in Hlv. destruct Hlv as (t & <- & Ht). exists t. auto.
Qed.

Lemma in_inputs_lt j a : In j (nth a inputs []) -> a < N.
Proof. intros H. destruct (Nat.lt_ge_cases a N) as [Hl|Hg]; [exact Hl|]. rewrite nth_overflow in H by exact Hg. destruct H. Qed.

Lemma comp_step P sp j : Comp P sp -> Comp (j :: P) (spec_step inputs sp j).
Proof.
  intros W. unfold spec_step. set (live := sp_live sp). set (car := carriers inputs live j).
  assert (Hnd : NoDup (concat (map snd live))).
  { eapply Permutation_NoDup; [symmetry; apply (w_part _ _ W)|apply seq_NoDup]. }
  assert (Hcar : forall t, In t car <-> In t live /\ carries inputs (snd t) j = true) by (intros t; unfold car, carriers; apply filter_In).
  assert (Hown_j : forall a, In j (nth a inputs []) -> exists t, In t car /\ In a (snd t)).
  { intros a Ha. destruct (owner P sp a W (in_inputs_lt j a Ha)) as (t & Ht & Hin). exists t. split; [|exact Hin].
    apply Hcar. split; [exact Ht|]. apply carries_iff. exists a. auto. }
  destruct (Nat.ltb_spec (length car) 2) as [Hsm|Hbg].
  - constructor.
    + apply (w_part _ _ W).
    + intros t a b Ht Ha Hb. eapply conn_mono; [|apply (w_conn _ _ W t a b Ht Ha Hb)]. intros x Hx. right; exact Hx.
    + intros j' a b [<-|Hj'] Ha Hb; [|apply (w_link _ _ W j' a b Hj' Ha Hb)].
      destruct (Hown_j a Ha) as (ta & Hta & Hina). destruct (Hown_j b Hb) as (tb & Htb & Hinb).
      assert (ta = tb).
      { destruct car as [|x [|y car']]; [destruct Hta| |cbn in Hsm; lia]. destruct Hta as [<-|[]], Htb as [<-|[]]. reflexivity. }
      subst tb. exists ta. split; [apply Hcar, Hta|auto].
  - set (U := concat (map snd car)).
    assert (HinU : forall a, In a U <-> exists t, In t car /\ In a (snd t)).
    { intros a. unfold U. rewrite in_concat. split.
      - intros (lv & Hlv & Ha). apply in_map_iff in Hlv. destruct Hlv as (t & <- & Ht). exists t. auto.
      - intros (t & Ht & Ha). exists (snd t). split; [apply in_map, Ht|exact Ha]. }
    constructor; cbn [sp_live].
    + rewrite map_app, concat_app. cbn [map concat snd]. rewrite app_nil_r. fold U.
      rewrite <- (w_part _ _ W). symmetry. apply (concat_snd_partition (fun t => carries inputs (snd t) j) live).
    + intros t a b Ht Ha Hb. apply in_app_iff in Ht. destruct Ht as [Ht|[<-|[]]].
      * apply filter_In in Ht. eapply conn_mono; [|apply (w_conn _ _ W t a b (proj1 Ht) Ha Hb)]. intros x Hx. right; exact Hx.
      * cbn [snd] in Ha, Hb. apply HinU in Ha. apply HinU in Hb. destruct Ha as (ta & Hta & Ha). destruct Hb as (tb & Htb & Hb).
        apply Hcar in Hta. apply Hcar in Htb. destruct Hta as [Hta Hca]. destruct Htb as [Htb Hcb].
        apply carries_iff in Hca. apply carries_iff in Hcb. destruct Hca as (k1 & Hk1 & Hj1). destruct Hcb as (k2 & Hk2 & Hj2).
        assert (Hm : incl P (j :: P)) by (intros x Hx; right; exact Hx).
        apply rst_trans with k1; [apply (conn_mono P _ _ _ Hm), (w_conn _ _ W ta a k1 Hta Ha Hk1)|].
        apply rst_trans with k2; [apply rst_step; exists j; split; [left; reflexivity|auto]|].
        apply (conn_mono P _ _ _ Hm), (w_conn _ _ W tb k2 b Htb Hk2 Hb).
    + intros j' a b Hj' Ha Hb.
      assert (Hmerged : forall x y, In x U -> In y U -> same_live (filter (fun t => negb (carries inputs (snd t) j)) live ++ [(sp_next sp, U)]) x y).
      { intros x y Hx Hy. exists (sp_next sp, U). split; [apply in_or_app; right; left; reflexivity|auto]. }
      destruct Hj' as [<-|Hj'].
      * apply Hmerged; apply HinU; apply Hown_j; assumption.
      * destruct (w_link _ _ W j' a b Hj' Ha Hb) as (t & Ht & Hta & Htb).
        destruct (carries inputs (snd t) j) eqn:Ec.
        -- apply Hmerged; apply HinU; exists t; (split; [apply Hcar; auto|assumption]).
        -- exists t. split; [apply in_or_app; left; apply filter_In; split; [exact Ht|rewrite Ec; reflexivity]|auto].
Qed.

Lemma comp_run ep : Comp (rev ep) (spec_run inputs ep).
Proof.
  unfold spec_run.
  assert (G : forall ep P sp, Comp P sp -> Comp (rev ep ++ P) (fold_left (spec_step inputs) ep sp)).
  { induction ep0 as [|j ep0 IH]; intros P sp W; [exact W|]. cbn [fold_left rev]. rewrite <- app_assoc. cbn [app].
    apply IH, comp_step, W. }
  rewrite <- (app_nil_r (rev ep)). apply G, comp_init.
Qed.

(* after ANY list of indices: the live tensors partition the leaves, and two leaves share a
   live tensor exactly when they are connected through the listed indices *)
Theorem edge_live_components ep :
  Permutation (concat (map snd (sp_live (spec_run inputs ep)))) (seq 0 N) /\
  forall a b, a < N -> (same_live (sp_live (spec_run inputs ep)) a b <-> (b < N /\ conn ep a b)).
Proof.
  pose proof (comp_run ep) as W. split; [apply (w_part _ _ W)|].
  set (live := sp_live (spec_run inputs ep)) in *.
  assert (Hnd : NoDup (concat (map snd live))).
  { eapply Permutation_NoDup; [symmetry; apply (w_part _ _ W)|apply seq_NoDup]. }
  assert (Hinc : incl (rev ep) ep) by (intros x Hx; apply in_rev; exact Hx).
  assert (Hinc' : incl ep (rev ep)) by (intros x Hx; rewrite <- in_rev; exact Hx).
  assert (Hlt : forall t x, In t live -> In x (snd t) -> x < N).
  { intros t x Ht Hx. assert (H : In x (seq 0 N)).
    { eapply Permutation_in; [apply (w_part _ _ W)|]. apply in_concat. exists (snd t). split; [apply in_map, Ht|exact Hx]. }
    apply in_seq in H. lia. }
  assert (Hconn : forall a b, conn (rev ep) a b -> (a < N <-> b < N) /\ (a < N -> same_live live a b)).
  { intros a b H. induction H as [x y (j & Hj & H1 & H2)|x|x y _ [IH1 IH2]|x y z _ [IH1 IH2] _ [IH3 IH4]].
    - pose proof (in_inputs_lt j x H1). pose proof (in_inputs_lt j y H2). split; [tauto|]. intros _. apply (w_link _ _ W j x y Hj H1 H2).
    - split; [tauto|]. intros Hx. destruct (owner _ _ x W Hx) as (t & Ht & Hin). exists t. auto.
    - split; [tauto|]. intros Hy. destruct (IH2 (proj2 IH1 Hy)) as (t & Ht & Ha & Hb). exists t. auto.
    - split; [tauto|]. intros Hx. destruct (IH2 Hx) as (t1 & Ht1 & Ha1 & Hb1). destruct (IH4 (proj1 IH1 Hx)) as (t2 & Ht2 & Ha2 & Hb2).
      pose proof (concat_unique_owner live Hnd t1 t2 y Ht1 Ht2 Hb1 Ha2) as E0. subst t2. exists t1. auto. }
  intros a b Ha. split.
  - intros (t & Ht & Hta & Htb). split; [apply (Hlt t b Ht Htb)|]. apply (conn_mono (rev ep) ep _ _ Hinc), (w_conn _ _ W t a b Ht Hta Htb).
  - intros [_ Hc]. apply (Hconn a b (conn_mono ep (rev ep) _ _ Hinc' Hc)), Ha.
Qed.
End Edge7.

(* the simulation's step, spelled out *)
Lemma spec_step_char inputs sp j :
  let car := filter (fun t => carries inputs (snd t) j) (sp_live sp) in
  (length car < 2 -> spec_step inputs sp j = sp) /\
  (2 <= length car ->
     sp_path (spec_step inputs sp j) = sp_path sp ++ [map fst car] /\
     sp_live (spec_step inputs sp j) =
       filter (fun t => negb (carries inputs (snd t) j)) (sp_live sp) ++ [(sp_next sp, concat (map snd car))] /\
     sp_next (spec_step inputs sp j) = S (sp_next sp)).
Proof.
  cbn zeta. unfold spec_step, carriers. split; intros H.
  - destruct (Nat.ltb_spec (length (filter (fun t => carries inputs (snd t) j) (sp_live sp))) 2); [reflexivity|lia].
  - destruct (Nat.ltb_spec (length (filter (fun t => carries inputs (snd t) j) (sp_live sp))) 2); [lia|]. cbn. auto.
Qed.

(* PathsFacts.v -- facts about Model/Paths.v (C10). *)
From Coq Require Import Lia.
From Ctg Require Import Base Net Paths BaseFacts.

(* ------------------------------------------------------------------ *)
(* bisect_left on a strictly increasing list finds the exact position *)
Definition strictly_increasing (l : list nat) : Prop :=
  forall i j, i < j -> j < length l -> nth i l 0 < nth j l 0.

Lemma mid_bounds lo hi : lo < hi -> lo <= (lo + hi) / 2 < hi.
Proof.
  intros H. split.
  - apply Nat.div_le_lower_bound; lia.
  - apply Nat.div_lt_upper_bound; lia.
Qed.

Lemma bisect_left_go_exact a k : strictly_increasing a -> k < length a ->
  forall fuel lo hi, lo <= k <= hi -> hi <= length a -> hi - lo < fuel ->
  bisect_left_go fuel a (nth k a 0) lo hi = k.
Proof.
  intros Hs Hk. induction fuel as [|f IH]; intros lo hi Hlk Hhi Hf; [lia|].
  cbn [bisect_left_go]. destruct (Nat.ltb_spec lo hi) as [Hlt|Hge]; [|lia].
  pose proof (mid_bounds lo hi Hlt) as Hm. set (mid := (lo + hi) / 2) in *.
  destruct (Nat.ltb_spec (nth mid a 0) (nth k a 0)) as [Hcmp|Hcmp].
  - (* a[mid] < a[k]  =>  mid < k *)
    assert (mid < k).
    { destruct (Nat.lt_ge_cases mid k) as [H|H]; [exact H|].
      destruct (Nat.eq_dec mid k) as [->|Hne]; [lia|].
      pose proof (Hs k mid ltac:(lia) ltac:(lia)). lia. }
    apply IH; lia.
  - (* a[k] <= a[mid]  =>  k <= mid *)
    assert (k <= mid).
    { destruct (Nat.le_gt_cases k mid) as [H|H]; [exact H|].
      pose proof (Hs mid k H Hk). lia. }
    apply IH; lia.
Qed.

Lemma bisect_left_exact a k : strictly_increasing a -> k < length a ->
  bisect_left a (nth k a 0) = k.
Proof.
  intros Hs Hk. unfold bisect_left. apply bisect_left_go_exact; try assumption; lia.
Qed.

(* the id lists the converters work on: seq 0 N is strictly increasing, and removing
   entries / appending a larger fresh id keeps it so *)
Lemma seq_strictly_increasing N : strictly_increasing (seq 0 N).
Proof.
  intros i j Hij Hj. rewrite seq_length in Hj. rewrite !seq_nth by lia. lia.
Qed.

Lemma nth_pop_nth {A} (c : nat) : forall (l : list A) k d,
  nth k (pop_nth c l) d = if Nat.ltb k c then nth k l d else nth (S k) l d.
Proof.
  induction c as [|c IH]; intros l k d; destruct l as [|x l]; cbn [pop_nth].
  - destruct (Nat.ltb k 0); destruct k; reflexivity.
  - reflexivity.
  - destruct (Nat.ltb k (S c)); destruct k; reflexivity.
  - destruct k as [|k]; [reflexivity|]. cbn [nth]. rewrite IH.
    change (Nat.ltb (S k) (S c)) with (Nat.ltb k c). reflexivity.
Qed.

Lemma length_pop_nth {A} (c : nat) : forall (l : list A), c < length l -> length (pop_nth c l) = length l - 1.
Proof.
  induction c as [|c IH]; intros [|x l] H; cbn [length pop_nth] in *; try lia.
  rewrite IH by lia. lia.
Qed.

Lemma pop_strictly_increasing l c : strictly_increasing l -> c < length l -> strictly_increasing (pop_nth c l).
Proof.
  intros Hs Hc i j Hij Hj. rewrite length_pop_nth in Hj by exact Hc. rewrite !nth_pop_nth.
  destruct (Nat.ltb_spec i c), (Nat.ltb_spec j c); apply Hs; lia.
Qed.

Lemma app_fresh_strictly_increasing l x : strictly_increasing l ->
  (forall i, i < length l -> nth i l 0 < x) -> strictly_increasing (l ++ [x]).
Proof.
  intros Hs Hx i j Hij Hj. rewrite app_length in Hj. cbn [length] in Hj.
  destruct (Nat.lt_ge_cases j (length l)) as [Hjl|Hjl].
  - rewrite !app_nth1 by lia. apply Hs; lia.
  - replace j with (length l) by lia. rewrite (app_nth1 l [x] 0) by lia.
    rewrite app_nth2, Nat.sub_diag by lia. cbn [nth]. apply Hx. lia.
Qed.

(* hence, in ssa_to_linear, looking up an id that is present returns its position:
   ids.pop(c) in linear_to_ssa and bisect_left(ids, s) in ssa_to_linear are inverse on the
   id lists both converters maintain *)
Lemma pop_then_bisect ids c : strictly_increasing ids -> c < length ids ->
  bisect_left ids (nth c ids 0) = c.
Proof. apply bisect_left_exact. Qed.

(* ------------------------------------------------------------------ *)
(* _traverse_dfs = post_sub: children first, for every tree *)
Lemma tree_eqb_refl t : tree_eqb t t = true.
Proof. induction t as [k|l IHl r IHr]; cbn; [apply Nat.eqb_refl|rewrite IHl, IHr; reflexivity]. Qed.
Lemma tree_eqb_eq a : forall b, tree_eqb a b = true -> a = b.
Proof.
  induction a as [k|l IHl r IHr]; intros [k'|l' r']; cbn; try discriminate.
  - intros H. apply Nat.eqb_eq in H. congruence.
  - intros H. apply andb_prop in H. destruct H as [H1 H2]. f_equal; auto.
Qed.
Lemma tmemb_In t l : tmemb t l = true <-> In t l.
Proof.
  unfold tmemb. rewrite existsb_exists. split.
  - intros (x & Hx & E). apply tree_eqb_eq in E. subst. exact Hx.
  - intros H. exists t. split; [exact H|apply tree_eqb_refl].
Qed.

Lemma cf_app a : forall seen b,
  children_first_from seen (a ++ b) = children_first_from seen a && children_first_from (rev a ++ seen) b.
Proof.
  induction a as [|p a IH]; intros seen b; [reflexivity|].
  cbn [app children_first_from rev]. rewrite IH, <- app_assoc. cbn [app]. rewrite andb_assoc. reflexivity.
Qed.

Lemma cf_mono trav : forall seen seen', (forall x, In x seen -> In x seen') ->
  children_first_from seen trav = true -> children_first_from seen' trav = true.
Proof.
  induction trav as [|p trav IH]; intros seen seen' Hincl; [reflexivity|].
  cbn [children_first_from]. intros H. apply andb_prop in H. destruct H as [H1 H2].
  apply andb_true_intro. split.
  - destruct p as [k|l r]; [discriminate|]. apply andb_prop in H1. destruct H1 as [Ha Hb].
    apply andb_true_intro. split.
    + apply orb_prop in Ha. destruct Ha as [Ha|Ha]; [rewrite Ha; reflexivity|].
      apply orb_true_intro. right. apply tmemb_In. apply Hincl. apply tmemb_In. exact Ha.
    + apply orb_prop in Hb. destruct Hb as [Hb|Hb]; [rewrite Hb; reflexivity|].
      apply orb_true_intro. right. apply tmemb_In. apply Hincl. apply tmemb_In. exact Hb.
  - eapply IH; [|exact H2]. intros x [Hx|Hx]; [left; exact Hx|right; apply Hincl, Hx].
Qed.

Lemma post_sub_last_in t : is_internal t = true -> In t (post_sub t).
Proof. destruct t as [k|l r]; [discriminate|]. intros _. cbn [post_sub]. rewrite !in_app_iff. right; right; left; reflexivity. Qed.

Lemma post_sub_children_first t : forall seen, children_first_from seen (post_sub t) = true.
Proof.
  induction t as [k|l IHl r IHr]; intros seen; [reflexivity|].
  cbn [post_sub]. rewrite !cf_app, IHl, IHr. cbn [andb children_first_from].
  rewrite andb_true_r. apply andb_true_intro. split.
  - destruct (is_internal l) eqn:E; [|reflexivity]. cbn [negb orb]. apply tmemb_In.
    rewrite !in_app_iff. right. left. rewrite <- in_rev. apply post_sub_last_in, E.
  - destruct (is_internal r) eqn:E; [|reflexivity]. cbn [negb orb]. apply tmemb_In.
    rewrite !in_app_iff. left. rewrite <- in_rev. apply post_sub_last_in, E.
Qed.

(* what the checker means: in a children-first list, an internal child of an emitted node
   occurs strictly earlier *)
Lemma children_first_sound trav : forall seen, children_first_from seen trav = true ->
  forall pre l r post, trav = pre ++ Node l r :: post ->
    (is_internal l = true -> In l (pre ++ seen)) /\ (is_internal r = true -> In r (pre ++ seen)).
Proof.
  induction trav as [|p trav IH]; intros seen H pre l r post E; [destruct pre; discriminate|].
  cbn [children_first_from] in H. apply andb_prop in H. destruct H as [H1 H2].
  destruct pre as [|q pre]; cbn [app] in E; inversion E; subst.
  - apply andb_prop in H1. destruct H1 as [Ha Hb]. cbn [app]. split; intros Hi; rewrite Hi in *; cbn in *; apply tmemb_In; assumption.
  - destruct (IH (q :: seen) H2 pre l r post eq_refl) as [A B].
    split; intros Hi; [specialize (A Hi); rename A into C|specialize (B Hi); rename B into C];
      apply in_app_iff in C; cbn [app In]; (destruct C as [C|[C|C]];
        [right; apply in_app_iff; left; exact C | left; exact C | right; apply in_app_iff; right; exact C]).
Qed.

(* _traverse_dfs emits every internal node exactly as many times as it occurs as a subtree;
   with distinct leaves that is exactly once.  Count: *)
Lemma post_sub_length t : length (post_sub t) = count_internal t.
Proof. induction t as [k|l IHl r IHr]; [reflexivity|]. cbn [post_sub count_internal]. rewrite !app_length, IHl, IHr. cbn. lia. Qed.

Lemma covers_b_sound t trav : covers_b t trav = true ->
  length trav = count_internal t /\ (forall s, In s (post_sub t) <-> In s trav).
Proof.
  unfold covers_b. intros H. apply andb_prop in H. destruct H as [H H3]. apply andb_prop in H. destruct H as [H1 H2].
  apply Nat.eqb_eq in H1. rewrite forallb_forall in H2, H3. split; [exact H1|].
  intros s. split; intros Hs; apply tmemb_In; auto.
Qed.

Lemma roundtrip_lin_b_sound N t path : roundtrip_lin_b N t path = true ->
  exists t', from_path N path = Some [t'] /\ same_nodes t t' = true.
Proof.
  unfold roundtrip_lin_b. destruct (from_path N path) as [[|t' [|? ?]]|]; try discriminate.
  intros H. exists t'. auto.
Qed.
Lemma roundtrip_ssa_b_sound N t path : roundtrip_ssa_b N t path = true ->
  exists t', from_ssa_path N path = Some [t'] /\ same_nodes t t' = true.
Proof.
  unfold roundtrip_ssa_b. destruct (from_ssa_path N path) as [[|t' [|? ?]]|]; try discriminate.
  intros H. exists t'. auto.
Qed.

Lemma list_eqb_sound {A} (e : A -> A -> bool) : (forall x y, e x y = true -> x = y) ->
  forall l1 l2, list_eqb e l1 l2 = true -> l1 = l2.
Proof.
  intros He. induction l1 as [|x l1 IH]; intros [|y l2]; cbn; try discriminate; [reflexivity|].
  intros H. apply andb_prop in H. destruct H as [H1 H2]. f_equal; [apply He, H1|apply IH, H2].
Qed.

Lemma inverse_ok_b_sound path N : inverse_ok_b path N = true ->
  ssa_to_linear (linear_to_ssa path N) N = map sort_asc path.
Proof.
  unfold inverse_ok_b, eqb, Eqb_list. apply list_eqb_sound.
  apply list_eqb_sound. intros x y H. apply Nat.eqb_eq, H.
Qed.

(* ------------------------------------------------------------------ *)
(* one conversion step.  Positions popped in strictly descending order (what
   sorted(con, reverse=True) yields for distinct positions) read the ORIGINAL entries ... *)
Fixpoint desc_from (b : nat) (ds : list nat) : Prop :=
  match ds with [] => True | d :: ds' => d < b /\ desc_from d ds' end.

Lemma pop_desc_reads_original ds : forall b ids acc,
  desc_from b ds -> b <= length ids ->
  snd (fold_left (fun s c => (pop_nth c (fst s), snd s ++ [nth c (fst s) 0])) ds (ids, acc))
  = acc ++ map (fun c => nth c ids 0) ds
  /\ forall ids', (forall k, k < b -> nth k ids' 0 = nth k ids 0) ->
     snd (fold_left (fun s c => (pop_nth c (fst s), snd s ++ [nth c (fst s) 0])) ds (ids', acc))
     = acc ++ map (fun c => nth c ids 0) ds.
Proof.
  induction ds as [|d ds IH]; intros b ids acc Hd Hb.
  - cbn. rewrite app_nil_r. split; [reflexivity|intros; reflexivity].
  - cbn [desc_from] in Hd. destruct Hd as [Hdb Hd].
    assert (Hgen : forall ids', (forall k, k < b -> nth k ids' 0 = nth k ids 0) ->
      snd (fold_left (fun s c => (pop_nth c (fst s), snd s ++ [nth c (fst s) 0])) (d :: ds) (ids', acc))
      = acc ++ map (fun c => nth c ids 0) (d :: ds)).
    { intros ids' Hagree. cbn [fold_left fst snd map].
      destruct (IH d ids (acc ++ [nth d ids' 0]) Hd ltac:(lia)) as [_ IH2].
      rewrite (IH2 (pop_nth d ids')).
      - rewrite (Hagree d Hdb), <- app_assoc. reflexivity.
      - intros k Hk. rewrite nth_pop_nth. destruct (Nat.ltb_spec k d); [apply Hagree; lia|lia]. }
    split; [apply Hgen; intros; reflexivity|exact Hgen].
Qed.

(* ... and bisect_left on the (strictly increasing) id list maps those entries back to the
   positions: the step of ssa_to_linear undoes the step of linear_to_ssa *)
Lemma step_positions_recovered ids ds :
  strictly_increasing ids -> desc_from (length ids) ds ->
  map (bisect_left ids)
      (snd (fold_left (fun s c => (pop_nth c (fst s), snd s ++ [nth c (fst s) 0])) ds (ids, []))) = ds.
Proof.
  intros Hs Hd. destruct (pop_desc_reads_original ds (length ids) ids [] Hd (le_n _)) as [E _].
  rewrite E. cbn [app]. rewrite map_map.
  assert (Hall : forall ds b, desc_from b ds -> b <= length ids ->
            map (fun c => bisect_left ids (nth c ids 0)) ds = ds).
  { clear -Hs. induction ds as [|d ds IH]; intros b Hd Hb; [reflexivity|].
    cbn [desc_from] in Hd. destruct Hd as [Hdb Hd]. cbn [map]. f_equal.
    - apply bisect_left_exact; [exact Hs|lia].
    - apply (IH d Hd). lia. }
  apply (Hall ds (length ids) Hd (le_n _)).
Qed.

(* PathsFacts.v -- facts about Model/Paths.v (C10). *)
From Coq Require Import Lia Permutation.
From Ctg Require Import Base Net Paths BaseFacts.

(* ------------------------------------------------------------------ *)
(* bisect_left on a strictly increasing list finds the exact position *)
Definition strictly_increasing (l : list nat) : Prop :=
  forall i j, i < j -> j < length l -> nth i l 0 < nth j l 0.

Lemma mid_bounds lo hi : lo < hi -> lo <= (lo + hi) / 2 < hi.
Proof.
  intros H. split.
  - apply Nat.div_le_lower_bound; lia.
  - apply Nat.div_lt_upper_bound; lia.
Qed.

Lemma bisect_left_go_exact a k : strictly_increasing a -> k < length a ->
  forall fuel lo hi, lo <= k <= hi -> hi <= length a -> hi - lo < fuel ->
  bisect_left_go fuel a (nth k a 0) lo hi = k.
Proof.
  intros Hs Hk. induction fuel as [|f IH]; intros lo hi Hlk Hhi Hf; [lia|].
  cbn [bisect_left_go]. destruct (Nat.ltb_spec lo hi) as [Hlt|Hge]; [|lia].
  pose proof (mid_bounds lo hi Hlt) as Hm. set (mid := (lo + hi) / 2) in *.
  destruct (Nat.ltb_spec (nth mid a 0) (nth k a 0)) as [Hcmp|Hcmp].
  - (* a[mid] < a[k]  =>  mid < k *)
    assert (mid < k).
    { destruct (Nat.lt_ge_cases mid k) as [H|H]; [exact H|].
      destruct (Nat.eq_dec mid k) as [->|Hne]; [lia|].
      pose proof (Hs k mid ltac:(lia) ltac:(lia)). lia. }
    apply IH; lia.
  - (* a[k] <= a[mid]  =>  k <= mid *)
    assert (k <= mid).
    { destruct (Nat.le_gt_cases k mid) as [H|H]; [exact H|].
      pose proof (Hs mid k H Hk). lia. }
    apply IH; lia.
Qed.

Lemma bisect_left_exact a k : strictly_increasing a -> k < length a ->
  bisect_left a (nth k a 0) = k.
Proof.
  intros Hs Hk. unfold bisect_left. apply bisect_left_go_exact; try assumption; lia.
Qed.

(* the id lists the converters work on: seq 0 N is strictly increasing, and removing
   entries / appending a larger fresh id keeps it so *)
Lemma seq_strictly_increasing N : strictly_increasing (seq 0 N).
Proof.
  intros i j Hij Hj. rewrite seq_length in Hj. rewrite !seq_nth by lia. lia.
Qed.

Lemma nth_pop_nth {A} (c : nat) : forall (l : list A) k d,
  nth k (pop_nth c l) d = if Nat.ltb k c then nth k l d else nth (S k) l d.
Proof.
  induction c as [|c IH]; intros l k d; destruct l as [|x l]; cbn [pop_nth].
  - destruct (Nat.ltb k 0); destruct k; reflexivity.
  - reflexivity.
  - destruct (Nat.ltb k (S c)); destruct k; reflexivity.
  - destruct k as [|k]; [reflexivity|]. cbn [nth]. rewrite IH.
    change (Nat.ltb (S k) (S c)) with (Nat.ltb k c). reflexivity.
Qed.

Lemma length_pop_nth {A} (c : nat) : forall (l : list A), c < length l -> length (pop_nth c l) = length l - 1.
Proof.
  induction c as [|c IH]; intros [|x l] H; cbn [length pop_nth] in *; try lia.
  rewrite IH by lia. lia.
Qed.

Lemma pop_strictly_increasing l c : strictly_increasing l -> c < length l -> strictly_increasing (pop_nth c l).
Proof.
  intros Hs Hc i j Hij Hj. rewrite length_pop_nth in Hj by exact Hc. rewrite !nth_pop_nth.
  destruct (Nat.ltb_spec i c), (Nat.ltb_spec j c); apply Hs; lia.
Qed.

Lemma app_fresh_strictly_increasing l x : strictly_increasing l ->
  (forall i, i < length l -> nth i l 0 < x) -> strictly_increasing (l ++ [x]).
Proof.
  intros Hs Hx i j Hij Hj. rewrite app_length in Hj. cbn [length] in Hj.
  destruct (Nat.lt_ge_cases j (length l)) as [Hjl|Hjl].
  - rewrite !app_nth1 by lia. apply Hs; lia.
  - replace j with (length l) by lia. rewrite (app_nth1 l [x] 0) by lia.
    rewrite app_nth2, Nat.sub_diag by lia. cbn [nth]. apply Hx. lia.
Qed.

(* hence, in ssa_to_linear, looking up an id that is present returns its position:
   ids.pop(c) in linear_to_ssa and bisect_left(ids, s) in ssa_to_linear are inverse on the
   id lists both converters maintain *)
Lemma pop_then_bisect ids c : strictly_increasing ids -> c < length ids ->
  bisect_left ids (nth c ids 0) = c.
Proof. apply bisect_left_exact. Qed.

(* ------------------------------------------------------------------ *)
(* _traverse_dfs = post_sub: children first, for every tree *)
Lemma tree_eqb_refl t : tree_eqb t t = true.
Proof. induction t as [k|l IHl r IHr]; cbn; [apply Nat.eqb_refl|rewrite IHl, IHr; reflexivity]. Qed.
Lemma tree_eqb_eq a : forall b, tree_eqb a b = true -> a = b.
Proof.
  induction a as [k|l IHl r IHr]; intros [k'|l' r']; cbn; try discriminate.
  - intros H. apply Nat.eqb_eq in H. congruence.
  - intros H. apply andb_prop in H. destruct H as [H1 H2]. f_equal; auto.
Qed.
Lemma tmemb_In t l : tmemb t l = true <-> In t l.
Proof.
  unfold tmemb. rewrite existsb_exists. split.
  - intros (x & Hx & E). apply tree_eqb_eq in E. subst. exact Hx.
  - intros H. exists t. split; [exact H|apply tree_eqb_refl].
Qed.

Lemma cf_app a : forall seen b,
  children_first_from seen (a ++ b) = children_first_from seen a && children_first_from (rev a ++ seen) b.
Proof.
  induction a as [|p a IH]; intros seen b; [reflexivity|].
  cbn [app children_first_from rev]. rewrite IH, <- app_assoc. cbn [app]. rewrite andb_assoc. reflexivity.
Qed.

Lemma cf_mono trav : forall seen seen', (forall x, In x seen -> In x seen') ->
  children_first_from seen trav = true -> children_first_from seen' trav = true.
Proof.
  induction trav as [|p trav IH]; intros seen seen' Hincl; [reflexivity|].
  cbn [children_first_from]. intros H. apply andb_prop in H. destruct H as [H1 H2].
  apply andb_true_intro. split.
  - destruct p as [k|l r]; [discriminate|]. apply andb_prop in H1. destruct H1 as [Ha Hb].
    apply andb_true_intro. split.
    + apply orb_prop in Ha. destruct Ha as [Ha|Ha]; [rewrite Ha; reflexivity|].
      apply orb_true_intro. right. apply tmemb_In. apply Hincl. apply tmemb_In. exact Ha.
    + apply orb_prop in Hb. destruct Hb as [Hb|Hb]; [rewrite Hb; reflexivity|].
      apply orb_true_intro. right. apply tmemb_In. apply Hincl. apply tmemb_In. exact Hb.
  - eapply IH; [|exact H2]. intros x [Hx|Hx]; [left; exact Hx|right; apply Hincl, Hx].
Qed.

Lemma post_sub_last_in t : is_internal t = true -> In t (post_sub t).
Proof. destruct t as [k|l r]; [discriminate|]. intros _. cbn [post_sub]. rewrite !in_app_iff. right; right; left; reflexivity. Qed.

Lemma post_sub_children_first t : forall seen, children_first_from seen (post_sub t) = true.
Proof.
  induction t as [k|l IHl r IHr]; intros seen; [reflexivity|].
  cbn [post_sub]. rewrite !cf_app, IHl, IHr. cbn [andb children_first_from].
  rewrite andb_true_r. apply andb_true_intro. split.
  - destruct (is_internal l) eqn:E; [|reflexivity]. cbn [negb orb]. apply tmemb_In.
    rewrite !in_app_iff. right. left. rewrite <- in_rev. apply post_sub_last_in, E.
  - destruct (is_internal r) eqn:E; [|reflexivity]. cbn [negb orb]. apply tmemb_In.
    rewrite !in_app_iff. left. rewrite <- in_rev. apply post_sub_last_in, E.
Qed.

(* what the checker means: in a children-first list, an internal child of an emitted node
   occurs strictly earlier *)
Lemma children_first_sound trav : forall seen, children_first_from seen trav = true ->
  forall pre l r post, trav = pre ++ Node l r :: post ->
    (is_internal l = true -> In l (pre ++ seen)) /\ (is_internal r = true -> In r (pre ++ seen)).
Proof.
  induction trav as [|p trav IH]; intros seen H pre l r post E; [destruct pre; discriminate|].
  cbn [children_first_from] in H. apply andb_prop in H. destruct H as [H1 H2].
  destruct pre as [|q pre]; cbn [app] in E; inversion E; subst.
  - apply andb_prop in H1. destruct H1 as [Ha Hb]. cbn [app]. split; intros Hi; rewrite Hi in *; cbn in *; apply tmemb_In; assumption.
  - destruct (IH (q :: seen) H2 pre l r post eq_refl) as [A B].
    split; intros Hi; [specialize (A Hi); rename A into C|specialize (B Hi); rename B into C];
      apply in_app_iff in C; cbn [app In]; (destruct C as [C|[C|C]];
        [right; apply in_app_iff; left; exact C | left; exact C | right; apply in_app_iff; right; exact C]).
Qed.

(* _traverse_dfs emits every internal node exactly as many times as it occurs as a subtree;
   with distinct leaves that is exactly once.  Count: *)
Lemma post_sub_length t : length (post_sub t) = count_internal t.
Proof. induction t as [k|l IHl r IHr]; [reflexivity|]. cbn [post_sub count_internal]. rewrite !app_length, IHl, IHr. cbn. lia. Qed.

Lemma covers_b_sound t trav : covers_b t trav = true ->
  length trav = count_internal t /\ (forall s, In s (post_sub t) <-> In s trav).
Proof.
  unfold covers_b. intros H. apply andb_prop in H. destruct H as [H H3]. apply andb_prop in H. destruct H as [H1 H2].
  apply Nat.eqb_eq in H1. rewrite forallb_forall in H2, H3. split; [exact H1|].
  intros s. split; intros Hs; apply tmemb_In; auto.
Qed.

Lemma roundtrip_lin_b_sound N t path : roundtrip_lin_b N t path = true ->
  exists t', from_path N path = Some [t'] /\ same_nodes t t' = true.
Proof.
  unfold roundtrip_lin_b. destruct (from_path N path) as [[|t' [|? ?]]|]; try discriminate.
  intros H. exists t'. auto.
Qed.
Lemma roundtrip_ssa_b_sound N t path : roundtrip_ssa_b N t path = true ->
  exists t', from_ssa_path N path = Some [t'] /\ same_nodes t t' = true.
Proof.
  unfold roundtrip_ssa_b. destruct (from_ssa_path N path) as [[|t' [|? ?]]|]; try discriminate.
  intros H. exists t'. auto.
Qed.

Lemma list_eqb_sound {A} (e : A -> A -> bool) : (forall x y, e x y = true -> x = y) ->
  forall l1 l2, list_eqb e l1 l2 = true -> l1 = l2.
Proof.
  intros He. induction l1 as [|x l1 IH]; intros [|y l2]; cbn; try discriminate; [reflexivity|].
  intros H. apply andb_prop in H. destruct H as [H1 H2]. f_equal; [apply He, H1|apply IH, H2].
Qed.

Lemma inverse_ok_b_sound path N : inverse_ok_b path N = true ->
  ssa_to_linear (linear_to_ssa path N) N = map sort_asc path.
Proof.
  unfold inverse_ok_b, eqb, Eqb_list. apply list_eqb_sound.
  apply list_eqb_sound. intros x y H. apply Nat.eqb_eq, H.
Qed.

(* ------------------------------------------------------------------ *)
(* one conversion step.  Positions popped in strictly descending order (what
   sorted(con, reverse=True) yields for distinct positions) read the ORIGINAL entries ... *)
Fixpoint desc_from (b : nat) (ds : list nat) : Prop :=
  match ds with [] => True | d :: ds' => d < b /\ desc_from d ds' end.

Lemma pop_desc_reads_original ds : forall b ids acc,
  desc_from b ds -> b <= length ids ->
  snd (fold_left (fun s c => (pop_nth c (fst s), snd s ++ [nth c (fst s) 0])) ds (ids, acc))
  = acc ++ map (fun c => nth c ids 0) ds
  /\ forall ids', (forall k, k < b -> nth k ids' 0 = nth k ids 0) ->
     snd (fold_left (fun s c => (pop_nth c (fst s), snd s ++ [nth c (fst s) 0])) ds (ids', acc))
     = acc ++ map (fun c => nth c ids 0) ds.
Proof.
  induction ds as [|d ds IH]; intros b ids acc Hd Hb.
  - cbn. rewrite app_nil_r. split; [reflexivity|intros; reflexivity].
  - cbn [desc_from] in Hd. destruct Hd as [Hdb Hd].
    assert (Hgen : forall ids', (forall k, k < b -> nth k ids' 0 = nth k ids 0) ->
      snd (fold_left (fun s c => (pop_nth c (fst s), snd s ++ [nth c (fst s) 0])) (d :: ds) (ids', acc))
      = acc ++ map (fun c => nth c ids 0) (d :: ds)).
    { intros ids' Hagree. cbn [fold_left fst snd map].
      destruct (IH d ids (acc ++ [nth d ids' 0]) Hd ltac:(lia)) as [_ IH2].
      rewrite (IH2 (pop_nth d ids')).
      - rewrite (Hagree d Hdb), <- app_assoc. reflexivity.
      - intros k Hk. rewrite nth_pop_nth. destruct (Nat.ltb_spec k d); [apply Hagree; lia|lia]. }
    split; [apply Hgen; intros; reflexivity|exact Hgen].
Qed.

(* ... and bisect_left on the (strictly increasing) id list maps those entries back to the
   positions: the step of ssa_to_linear undoes the step of linear_to_ssa *)
Lemma step_positions_recovered ids ds :
  strictly_increasing ids -> desc_from (length ids) ds ->
  map (bisect_left ids)
      (snd (fold_left (fun s c => (pop_nth c (fst s), snd s ++ [nth c (fst s) 0])) ds (ids, []))) = ds.
Proof.
  intros Hs Hd. destruct (pop_desc_reads_original ds (length ids) ids [] Hd (le_n _)) as [E _].
  rewrite E. cbn [app]. rewrite map_map.
  assert (Hall : forall ds b, desc_from b ds -> b <= length ids ->
            map (fun c => bisect_left ids (nth c ids 0)) ds = ds).
  { clear -Hs. induction ds as [|d ds IH]; intros b Hd Hb; [reflexivity|].
    cbn [desc_from] in Hd. destruct Hd as [Hdb Hd]. cbn [map]. f_equal.
    - apply bisect_left_exact; [exact Hs|lia].
    - apply (IH d Hd). lia. }
  apply (Hall ds (length ids) Hd (le_n _)).
Qed.

(* ------------------------------------------------------------------ *)
(* sorting distinct naturals with Base.sort_by Nat.leb *)
Fixpoint sasc (l : list nat) : Prop :=
  match l with [] => True | x :: l' => (forall y, In y l' -> x < y) /\ sasc l' end.
Fixpoint sdesc (l : list nat) : Prop :=
  match l with [] => True | x :: l' => (forall y, In y l' -> y < x) /\ sdesc l' end.

Lemma insert_leb_perm x l : Permutation (insert_by Nat.leb x l) (x :: l).
Proof.
  induction l as [|y l IH]; cbn [insert_by]; [reflexivity|].
  destruct (Nat.leb y x); [|reflexivity]. rewrite IH. apply perm_swap.
Qed.
Lemma fold_insert_leb_perm l : forall acc,
  Permutation (fold_left (fun acc x => insert_by Nat.leb x acc) l acc) (l ++ acc).
Proof.
  induction l as [|x l IH]; intros acc; cbn [fold_left app]; [reflexivity|].
  rewrite IH, insert_leb_perm. symmetry. apply Permutation_middle.
Qed.
Lemma sort_asc_perm l : Permutation (sort_asc l) l.
Proof. unfold sort_asc, sort_by. rewrite fold_insert_leb_perm, app_nil_r. reflexivity. Qed.

Lemma insert_sasc x l : ~ In x l -> sasc l -> sasc (insert_by Nat.leb x l).
Proof.
  induction l as [|y l IH]; cbn [insert_by sasc]; intros Hn Hs.
  - split; [intros ? []|exact I].
  - destruct Hs as [Hy Hs]. destruct (Nat.leb_spec y x) as [Hle|Hgt]; cbn [sasc].
    + assert (y < x) by (destruct (Nat.eq_dec y x) as [->|]; [exfalso; apply Hn; left; reflexivity|lia]).
      split.
      * intros z Hz. apply (Permutation_in _ (insert_leb_perm x l)) in Hz. destruct Hz as [<-|Hz]; [assumption|apply Hy, Hz].
      * apply IH; [intros H'; apply Hn; right; exact H'|exact Hs].
    + split; [|split; assumption].
      intros z [<-|Hz]; [exact Hgt|]. specialize (Hy z Hz). lia.
Qed.

Lemma fold_insert_sasc l : forall acc, NoDup (l ++ acc) -> sasc acc ->
  sasc (fold_left (fun acc x => insert_by Nat.leb x acc) l acc).
Proof.
  induction l as [|x l IH]; intros acc Hnd Hs; cbn [fold_left]; [exact Hs|].
  cbn [app] in Hnd. inversion Hnd as [|? ? Hnin Hnd']; subst. apply IH.
  - eapply Permutation_NoDup; [|exact Hnd].
    cbn [app]. rewrite insert_leb_perm. apply Permutation_middle.
  - apply insert_sasc; [|exact Hs]. intros H. apply Hnin, in_or_app. right; exact H.
Qed.
Lemma sort_asc_sasc l : NoDup l -> sasc (sort_asc l).
Proof. intros H. unfold sort_asc, sort_by. apply fold_insert_sasc; [rewrite app_nil_r; exact H|exact I]. Qed.

Lemma sasc_unique l1 : forall l2, sasc l1 -> sasc l2 -> (forall x, In x l1 <-> In x l2) -> l1 = l2.
Proof.
  induction l1 as [|x l1 IH]; intros [|y l2] H1 H2 Hm.
  - reflexivity.
  - exfalso. apply (proj2 (Hm y)). left; reflexivity.
  - exfalso. apply (proj1 (Hm x)). left; reflexivity.
  - cbn [sasc] in *. destruct H1 as [Hx H1], H2 as [Hy H2].
    assert (x = y).
    { destruct (proj1 (Hm x) (or_introl eq_refl)) as [E|Hin]; [auto|].
      destruct (proj2 (Hm y) (or_introl eq_refl)) as [E|Hin']; [auto|].
      specialize (Hy x Hin). specialize (Hx y Hin'). lia. }
    subst y. f_equal. apply IH; [assumption|assumption|].
    intros z. split; intros Hz.
    + destruct (proj1 (Hm z) (or_intror Hz)) as [<-|H]; [specialize (Hx x Hz); lia|exact H].
    + destruct (proj2 (Hm z) (or_intror Hz)) as [<-|H]; [specialize (Hy x Hz); lia|exact H].
Qed.

Lemma sort_asc_of_perm l s : NoDup l -> sasc s -> Permutation l s -> sort_asc l = s.
Proof.
  intros Hnd Hs HP. apply sasc_unique; [apply sort_asc_sasc, Hnd|exact Hs|].
  intros x. split; intros H.
  - eapply Permutation_in; [exact HP|]. eapply Permutation_in; [apply sort_asc_perm|exact H].
  - eapply Permutation_in; [symmetry; apply sort_asc_perm|]. eapply Permutation_in; [symmetry; exact HP|exact H].
Qed.

Lemma sdesc_app_last a x : sdesc a -> (forall y, In y a -> x < y) -> sdesc (a ++ [x]).
Proof.
  induction a as [|z a IH]; cbn [app sdesc]; intros Hs Hx.
  - split; [intros ? []|exact I].
  - destruct Hs as [Hz Hs]. split.
    + intros y Hy. apply in_app_iff in Hy. destruct Hy as [Hy|[<-|[]]]; [apply Hz, Hy|apply Hx; left; reflexivity].
    + apply IH; [exact Hs|]. intros y Hy. apply Hx. right; exact Hy.
Qed.
Lemma sasc_rev l : sasc l -> sdesc (rev l).
Proof.
  induction l as [|x l IH]; cbn [sasc rev]; [trivial|]. intros [Hx Hs].
  apply sdesc_app_last; [apply IH, Hs|]. intros y Hy. apply Hx. rewrite in_rev. exact Hy.
Qed.
Lemma sasc_NoDup l : sasc l -> NoDup l.
Proof.
  induction l as [|x l IH]; cbn [sasc]; [constructor|]. intros [Hx Hs]. constructor; [|apply IH, Hs].
  intros H. specialize (Hx x H). lia.
Qed.

Lemma sdesc_desc_from ds : forall b, sdesc ds -> (forall d, In d ds -> d < b) -> desc_from b ds.
Proof.
  induction ds as [|d ds IH]; intros b Hs Hb; cbn [desc_from]; [exact I|].
  cbn [sdesc] in Hs. destruct Hs as [Hd Hs]. split; [apply Hb; left; reflexivity|]. apply IH; assumption.
Qed.

Lemma sort_desc_desc_from con b : NoDup con -> (forall c, In c con -> c < b) -> desc_from b (sort_desc con).
Proof.
  intros Hnd Hb. apply sdesc_desc_from.
  - apply sasc_rev, sort_asc_sasc, Hnd.
  - intros d Hd. apply Hb. unfold sort_desc in Hd. rewrite <- in_rev in Hd.
    eapply Permutation_in; [apply sort_asc_perm|exact Hd].
Qed.

Lemma sort_asc_sort_desc con : NoDup con -> sort_asc (sort_desc con) = sort_asc con.
Proof.
  intros Hnd. apply sort_asc_of_perm.
  - unfold sort_desc. eapply Permutation_NoDup; [apply Permutation_rev|]. apply sasc_NoDup, sort_asc_sasc, Hnd.
  - apply sort_asc_sasc, Hnd.
  - unfold sort_desc. symmetry. apply Permutation_rev.
Qed.

(* ------------------------------------------------------------------ *)
(* the two converters as plain recursions over the path *)
Definition pop_read (ds : list nat) (ids : list nat) : list nat * list nat :=
  fold_left (fun s c => (pop_nth c (fst s), snd s ++ [nth c (fst s) 0])) ds (ids, []).
Definition pops (ds : list nat) (ids : list nat) : list nat := fold_left (fun l j => pop_nth j l) ds ids.

Fixpoint lin_run (ids : list nat) (ssa : nat) (path : list (list nat)) : list (list nat) :=
  match path with
  | [] => []
  | con :: rest => let r := pop_read (sort_desc con) ids in snd r :: lin_run (fst r ++ [ssa]) (S ssa) rest
  end.
Fixpoint ssa_run (ids : list nat) (ssa : nat) (spath : list (list nat)) : list (list nat) :=
  match spath with
  | [] => []
  | scon :: rest => let con := sort_asc (map (bisect_left ids) scon) in
                    con :: ssa_run (pops (rev con) ids ++ [ssa]) (S ssa) rest
  end.

Lemma lin_fold path : forall ids ssa acc,
  snd (fold_left lin_step path (ids, ssa, acc)) = acc ++ lin_run ids ssa path.
Proof.
  induction path as [|con path IH]; intros ids ssa acc; cbn [fold_left lin_run]; [rewrite app_nil_r; reflexivity|].
  unfold lin_step at 2. fold (pop_read (sort_desc con) ids). destruct (pop_read (sort_desc con) ids) as [ids' scon] eqn:E.
  rewrite IH, <- app_assoc. reflexivity.
Qed.
Lemma linear_to_ssa_run path N : linear_to_ssa path N = lin_run (seq 0 N) N path.
Proof. unfold linear_to_ssa. rewrite lin_fold. reflexivity. Qed.

Lemma ssa_fold spath : forall ids ssa acc,
  snd (fold_left ssa_step spath (ids, ssa, acc)) = acc ++ ssa_run ids ssa spath.
Proof.
  induction spath as [|scon spath IH]; intros ids ssa acc; cbn [fold_left ssa_run]; [rewrite app_nil_r; reflexivity|].
  unfold ssa_step at 2. rewrite IH, <- app_assoc. reflexivity.
Qed.
Lemma ssa_to_linear_run spath N : ssa_to_linear spath N = ssa_run (seq 0 N) N spath.
Proof. unfold ssa_to_linear. rewrite ssa_fold. reflexivity. Qed.

Lemma pop_read_fst ds : forall ids acc,
  fst (fold_left (fun s c => (pop_nth c (fst s), snd s ++ [nth c (fst s) 0])) ds (ids, acc)) = pops ds ids.
Proof.
  induction ds as [|d ds IH]; intros ids acc; [reflexivity|]. cbn [fold_left fst snd]. unfold pops. cbn [fold_left]. apply IH.
Qed.

(* ------------------------------------------------------------------ *)
(* validity of a linear path over m current tensors, and the id-list invariant *)
Fixpoint valid_lin (m : nat) (path : list (list nat)) : Prop :=
  match path with
  | [] => True
  | con :: rest => con <> [] /\ NoDup con /\ (forall c, In c con -> c < m) /\ valid_lin (m - length con + 1) rest
  end.
Definition ids_ok (ids : list nat) (ssa : nat) : Prop :=
  strictly_increasing ids /\ forall i, i < length ids -> nth i ids 0 < ssa.

Lemma pops_ok ds : forall b ids ssa, desc_from b ds -> b <= length ids -> ids_ok ids ssa ->
  ids_ok (pops ds ids) ssa /\ length (pops ds ids) = length ids - length ds.
Proof.
  induction ds as [|d ds IH]; intros b ids ssa Hd Hb Hok; [cbn; split; [exact Hok|lia]|].
  cbn [desc_from] in Hd. destruct Hd as [Hdb Hd]. unfold pops. cbn [fold_left]. fold (pops ds (pop_nth d ids)).
  destruct Hok as [Hs Hlt].
  assert (Hl : length (pop_nth d ids) = length ids - 1) by (apply length_pop_nth; lia).
  destruct (IH d (pop_nth d ids) ssa Hd ltac:(lia)) as [A B].
  - split; [apply pop_strictly_increasing; [exact Hs|lia]|].
    intros i Hi. rewrite nth_pop_nth. destruct (Nat.ltb i d); apply Hlt; lia.
  - split; [exact A|]. rewrite B, Hl. cbn [length]. lia.
Qed.

Lemma ids_ok_append ids ssa : ids_ok ids ssa -> ids_ok (ids ++ [ssa]) (S ssa).
Proof.
  intros [Hs Hlt]. split.
  - apply app_fresh_strictly_increasing; assumption.
  - intros i Hi. rewrite app_length in Hi. cbn [length] in Hi.
    destruct (Nat.lt_ge_cases i (length ids)) as [H|H].
    + rewrite app_nth1 by exact H. specialize (Hlt i H). lia.
    + replace i with (length ids) by lia. rewrite app_nth2, Nat.sub_diag by lia. cbn. lia.
Qed.

(* linear_ssa_inverse *)
Lemma lin_ssa_inverse_gen path : forall ids ssa, ids_ok ids ssa -> valid_lin (length ids) path ->
  ssa_run ids ssa (lin_run ids ssa path) = map sort_asc path.
Proof.
  induction path as [|con path IH]; intros ids ssa Hok Hv; [reflexivity|].
  cbn [valid_lin] in Hv. destruct Hv as (Hne & Hnd & Hlt & Hv).
  cbn [lin_run ssa_run map].
  pose proof (sort_desc_desc_from con (length ids) Hnd Hlt) as Hd.
  assert (Hrec : map (bisect_left ids) (snd (pop_read (sort_desc con) ids)) = sort_desc con)
    by (apply step_positions_recovered; [apply Hok|exact Hd]).
  rewrite Hrec, (sort_asc_sort_desc con Hnd).
  f_equal.
  change (rev (sort_asc con)) with (sort_desc con).
  unfold pop_read at 1. rewrite pop_read_fst.
  destruct (pops_ok (sort_desc con) (length ids) ids ssa Hd (le_n _) Hok) as [Hok' Hlen].
  apply IH.
  - apply ids_ok_append, Hok'.
  - rewrite app_length, Hlen. cbn [length].
    assert (length (sort_desc con) = length con).
    { unfold sort_desc. rewrite rev_length. apply Permutation_length, sort_asc_perm. }
    replace (length ids - length (sort_desc con) + 1) with (length ids - length con + 1) by lia. exact Hv.
Qed.

Lemma ids_ok_init N : ids_ok (seq 0 N) N.
Proof.
  split; [apply seq_strictly_increasing|]. intros i Hi. rewrite seq_length in Hi. rewrite seq_nth by exact Hi. lia.
Qed.

Theorem linear_ssa_inverse path N : valid_lin N path ->
  ssa_to_linear (linear_to_ssa path N) N = map sort_asc path.
Proof.
  intros Hv. rewrite linear_to_ssa_run, ssa_to_linear_run. apply lin_ssa_inverse_gen; [apply ids_ok_init|].
  rewrite seq_length. exact Hv.
Qed.

Lemma si_NoDup ids : strictly_increasing ids -> NoDup ids.
Proof.
  intros Hs. apply (NoDup_nth ids 0). intros i j Hi Hj E.
  destruct (Nat.lt_trichotomy i j) as [H|[H|H]]; [|exact H|].
  - pose proof (Hs i j H Hj). lia.
  - pose proof (Hs j i H Hi). lia.
Qed.

Lemma in_ids_pos ids s : In s ids -> exists k, k < length ids /\ nth k ids 0 = s.
Proof. intros H. apply (In_nth ids s 0) in H. exact H. Qed.

Lemma bisect_present ids s : strictly_increasing ids -> In s ids ->
  bisect_left ids s < length ids /\ nth (bisect_left ids s) ids 0 = s.
Proof.
  intros Hs Hin. destruct (in_ids_pos ids s Hin) as (k & Hk & <-).
  rewrite (bisect_left_exact ids k Hs Hk). auto.
Qed.

Lemma sasc_map_nth ids l : strictly_increasing ids -> sasc l -> (forall c, In c l -> c < length ids) ->
  sasc (map (fun c => nth c ids 0) l).
Proof.
  intros Hs. induction l as [|x l IH]; cbn [sasc map]; [trivial|]. intros [Hx Hl] Hb. split.
  - intros y Hy. apply in_map_iff in Hy. destruct Hy as (c & <- & Hc). apply Hs; [apply Hx, Hc|apply Hb; right; exact Hc].
  - apply IH; [exact Hl|]. intros c Hc. apply Hb. right; exact Hc.
Qed.

Lemma in_pop_nth d : forall (l : list nat) s, NoDup l -> d < length l ->
  (In s (pop_nth d l) <-> In s l /\ s <> nth d l 0).
Proof.
  induction d as [|d IH]; intros [|x l] s Hnd Hd; cbn [length] in Hd; try lia; inversion Hnd as [|? ? Hnin Hnd']; subst; cbn [pop_nth nth In].
  - split.
    + intros H. split; [right; exact H|]. intros ->. contradiction.
    + intros [[->|H] Hne]; [congruence|exact H].
  - rewrite (IH l s Hnd' ltac:(lia)). split.
    + intros [->|[H Hne]]; [split; [left; reflexivity|]|split; [right; exact H|exact Hne]].
      intros E. apply Hnin. rewrite E. apply nth_In. lia.
    + intros [[->|H] Hne]; [left; reflexivity|right; split; assumption].
Qed.

Lemma in_pop_nth_incl {A} d : forall (l : list A) s, In s (pop_nth d l) -> In s l.
Proof.
  induction d as [|d IH]; intros [|x l] s H; cbn [pop_nth] in *; auto.
  - right; exact H.
  - destruct H as [->|H]; [left; reflexivity|right; apply IH, H].
Qed.
Lemma NoDup_pop_nth {A} d : forall (l : list A), NoDup l -> NoDup (pop_nth d l).
Proof.
  induction d as [|d IH]; intros [|x l] H; cbn [pop_nth]; try constructor; inversion H; subst; auto.
  - intros Hin. apply H2. eapply in_pop_nth_incl, Hin.
Qed.

Lemma in_pops ds : forall b ids s, desc_from b ds -> b <= length ids -> NoDup ids ->
  (In s (pops ds ids) <-> In s ids /\ ~ In s (map (fun c => nth c ids 0) ds)).
Proof.
  induction ds as [|d ds IH]; intros b ids s Hd Hb Hnd; [cbn; tauto|].
  cbn [desc_from] in Hd. destruct Hd as [Hdb Hd]. unfold pops. cbn [fold_left]. fold (pops ds (pop_nth d ids)).
  assert (Hl : length (pop_nth d ids) = length ids - 1) by (apply length_pop_nth; lia).
  assert (Hnd' : NoDup (pop_nth d ids)) by (apply NoDup_pop_nth, Hnd).
  rewrite (IH d (pop_nth d ids) s Hd ltac:(lia) Hnd'), (in_pop_nth d ids s Hnd ltac:(lia)).
  assert (Hmap : map (fun c => nth c (pop_nth d ids) 0) ds = map (fun c => nth c ids 0) ds).
  { clear -Hd. revert d Hd. induction ds as [|c ds IH]; intros d Hd; [reflexivity|]. cbn [desc_from] in Hd. destruct Hd as [Hc Hd].
    cbn [map]. f_equal.
    - rewrite nth_pop_nth. destruct (Nat.ltb_spec c d); [reflexivity|lia].
    - (* remaining positions are < c < d *)
      clear IH. revert c Hc Hd. induction ds as [|e ds IH2]; intros c Hc Hd; [reflexivity|]. cbn [desc_from] in Hd. destruct Hd as [He Hd].
      cbn [map]. f_equal; [rewrite nth_pop_nth; destruct (Nat.ltb_spec e d); [reflexivity|lia]|]. apply (IH2 e); [lia|exact Hd]. }
  rewrite Hmap. cbn [map In]. split; [intros [[A B] C]|intros [A C]].
  - split; [exact A|]. intros [E|E]; [congruence|contradiction].
  - split; [split; [exact A|]|]; intros E; apply C; [left; auto|right; exact E].
Qed.

Lemma NoDup_map_inj_in {A B} (f : A -> B) l :
  (forall x y, In x l -> In y l -> f x = f y -> x = y) -> NoDup l -> NoDup (map f l).
Proof.
  induction l as [|a l IH]; intros Hf H; cbn [map]; [constructor|]. inversion H as [|? ? Hn H']; subst. constructor.
  - intros Hin. apply in_map_iff in Hin. destruct Hin as (y & E & Hy). apply Hn.
    rewrite (Hf a y (or_introl eq_refl) (or_intror Hy) (eq_sym E)). exact Hy.
  - apply IH; [|exact H']. intros x y Hx Hy. apply Hf; right; assumption.
Qed.

(* validity of an ssa path: every step is non-empty, duplicate-free and only names ids that
   are alive; the used ids die, the fresh id ssa is born *)
Fixpoint valid_ssa (live : list nat) (ssa : nat) (spath : list (list nat)) : Prop :=
  match spath with
  | [] => True
  | scon :: rest => scon <> [] /\ NoDup scon /\ (forall s, In s scon -> In s live) /\
                    valid_ssa (filter (fun x => negb (memb x scon)) live ++ [ssa]) (S ssa) rest
  end.

Lemma valid_ssa_ext spath : forall l1 l2 ssa, (forall x, In x l1 <-> In x l2) ->
  valid_ssa l1 ssa spath -> valid_ssa l2 ssa spath.
Proof.
  induction spath as [|scon rest IH]; intros l1 l2 ssa Hm; cbn [valid_ssa]; [trivial|].
  intros (A & B & C & D). repeat split; try assumption.
  - intros s Hs. apply Hm, C, Hs.
  - eapply IH; [|exact D]. intros x. rewrite !in_app_iff, !filter_In, Hm. tauto.
Qed.

Lemma ssa_lin_inverse_gen spath : forall ids ssa, ids_ok ids ssa -> valid_ssa ids ssa spath ->
  lin_run ids ssa (ssa_run ids ssa spath) = map sort_desc spath.
Proof.
  induction spath as [|scon rest IH]; intros ids ssa Hok Hv; [reflexivity|].
  cbn [valid_ssa] in Hv. destruct Hv as (Hne & Hnd & Hlive & Hv). destruct Hok as [Hs Hlt].
  cbn [ssa_run lin_run map].
  set (P := map (bisect_left ids) scon).
  assert (HP : forall c, In c P -> c < length ids).
  { intros c Hc. apply in_map_iff in Hc. destruct Hc as (s & <- & Hs'). apply bisect_present; auto. }
  assert (Hback : map (fun c => nth c ids 0) P = scon).
  { unfold P. rewrite map_map. rewrite <- (map_id scon) at 2. apply map_ext_in. intros s Hs'. apply bisect_present; auto. }
  assert (HPnd : NoDup P).
  { apply NoDup_map_inj_in; [|exact Hnd].
    intros x y Hx Hy E. rewrite <- (proj2 (bisect_present ids x Hs (Hlive x Hx))), <- (proj2 (bisect_present ids y Hs (Hlive y Hy))), E. reflexivity. }
  assert (Hsa : sasc (sort_asc P)) by (apply sort_asc_sasc, HPnd).
  assert (Hidem : sort_asc (sort_asc P) = sort_asc P).
  { apply sort_asc_of_perm; [apply sasc_NoDup, Hsa|exact Hsa|reflexivity]. }
  assert (Hsd : sort_desc (sort_asc P) = rev (sort_asc P)) by (unfold sort_desc; rewrite Hidem; reflexivity).
  assert (Hd : desc_from (length ids) (rev (sort_asc P))).
  { apply sdesc_desc_from; [apply sasc_rev, Hsa|]. intros d Hd. rewrite <- in_rev in Hd. apply HP.
    eapply Permutation_in; [apply sort_asc_perm|exact Hd]. }
  rewrite Hsd. f_equal.
  - (* the ids read are the step's ids in descending order *)
    destruct (pop_desc_reads_original (rev (sort_asc P)) (length ids) ids [] Hd (le_n _)) as [E _].
    unfold pop_read. rewrite E. cbn [app]. rewrite map_rev. unfold sort_desc. f_equal.
    symmetry. apply sort_asc_of_perm; [exact Hnd| |].
    + apply sasc_map_nth; [exact Hs|exact Hsa|]. intros c Hc. apply HP. eapply Permutation_in; [apply sort_asc_perm|exact Hc].
    + rewrite <- Hback at 1. apply Permutation_map. symmetry. apply sort_asc_perm.
  - unfold pop_read. rewrite pop_read_fst.
    destruct (pops_ok (rev (sort_asc P)) (length ids) ids ssa Hd (le_n _) (conj Hs Hlt)) as [Hok' Hlen].
    apply IH; [apply ids_ok_append, Hok'|].
    eapply valid_ssa_ext; [|exact Hv]. intros x. rewrite !in_app_iff, filter_In.
    rewrite (in_pops (rev (sort_asc P)) (length ids) ids x Hd (le_n _) (si_NoDup ids Hs)).
    rewrite map_rev. rewrite <- in_rev.
    assert (Hmem : In x (map (fun c => nth c ids 0) (sort_asc P)) <-> In x scon).
    { split; intros H.
      - rewrite <- Hback. eapply Permutation_in; [|exact H]. apply Permutation_map, sort_asc_perm.
      - rewrite <- Hback in H. eapply Permutation_in; [|exact H]. apply Permutation_map. symmetry. apply sort_asc_perm. }
    rewrite Hmem, negb_true_iff, memb_false. tauto.
Qed.

Theorem ssa_linear_inverse spath N : valid_ssa (seq 0 N) N spath ->
  linear_to_ssa (ssa_to_linear spath N) N = map sort_desc spath.
Proof.
  intros Hv. rewrite linear_to_ssa_run, ssa_to_linear_run. apply ssa_lin_inverse_gen; [apply ids_ok_init|exact Hv].
Qed.

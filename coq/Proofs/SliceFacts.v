(* SliceFacts.v -- facts about Model/Slice.v (C06):
   strides, the mixed-radix slice numbering (enumeration, bijection, append /
   output-major law), the history invariant of remove_ind / restore_ind,
   gen_output_chunks, the stacking lemma of gather_slices. *)
From Coq Require Import Lia Permutation.
From Ctg Require Import Base Slice BaseFacts.

(* ------------------------------------------------------------------ *)
(* nprod *)
Lemma nprod_acc l : forall a, fold_left Nat.mul l a = a * fold_left Nat.mul l 1.
Proof.
  induction l as [|x l IH]; intros a; cbn [fold_left]; [lia|].
  rewrite (IH (a * x)), (IH (1 * x)). lia.
Qed.
Lemma nprod_nil : nprod [] = 1.
Proof. reflexivity. Qed.
Lemma nprod_cons x l : nprod (x :: l) = x * nprod l.
Proof. unfold nprod. cbn [fold_left]. rewrite nprod_acc. lia. Qed.
Lemma nprod_app l1 l2 : nprod (l1 ++ l2) = nprod l1 * nprod l2.
Proof. induction l1 as [|x l1 IH]; cbn [app]; rewrite ?nprod_cons, ?nprod_nil; [lia|]. rewrite IH. lia. Qed.
Lemma nprod_pos l : Forall (fun x => 1 <= x) l -> 1 <= nprod l.
Proof.
  induction 1 as [|x l Hx _ IH]; rewrite ?nprod_nil, ?nprod_cons; [lia|].
  apply (Nat.mul_le_mono 1 x 1 (nprod l)); assumption.
Qed.
Lemma nprod_perm l1 l2 : Permutation l1 l2 -> nprod l1 = nprod l2.
Proof. induction 1; rewrite ?nprod_cons in *; lia. Qed.

Definition sizes_of (sl : list sinfo) : list nat := map si_size sl.
Definition total (sl : list sinfo) : nat := nprod (sizes_of sl).

Lemma total_cons s sl : total (s :: sl) = si_size s * total sl.
Proof. unfold total, sizes_of. cbn [map]. apply nprod_cons. Qed.
Lemma total_app a b : total (a ++ b) = total a * total b.
Proof. unfold total, sizes_of. rewrite map_app. apply nprod_app. Qed.

(* ------------------------------------------------------------------ *)
(* strides *)
Fixpoint strides_rec (sl : list sinfo) : list nat :=
  match sl with [] => [] | _ :: sl' => total sl' :: strides_rec sl' end.

Definition stride_step (sl : list sinfo) (strides : list nat) (i : nat) : list nat :=
  set_nth i (nth (i + 1) strides 1 * si_size (nth (i + 1) sl dummy_si)) strides.

Lemma loop_shift s sl (js : list nat) : forall x T,
  fold_left (stride_step (s :: sl)) (map S js) (x :: T) = x :: fold_left (stride_step sl) js T.
Proof.
  induction js as [|i js IH]; intros x T; [reflexivity|].
  cbn [map fold_left]. unfold stride_step at 2. cbn [set_nth].
  change (S i + 1) with (S (i + 1)). cbn [nth]. rewrite IH. reflexivity.
Qed.

Lemma strides_fold sl :
  get_slice_strides sl = fold_left (stride_step sl) (rev (seq 0 (length sl - 1))) (repeat 1 (length sl)).
Proof. reflexivity. Qed.

Lemma strides_unfold s sl :
  get_slice_strides (s :: sl) =
  match sl with
  | [] => [1]
  | s' :: _ => (hd 1 (get_slice_strides sl) * si_size s') :: get_slice_strides sl
  end.
Proof.
  rewrite !strides_fold.
  destruct sl as [|s' sl']; [reflexivity|].
  cbn [length]. rewrite !Nat.sub_succ, !Nat.sub_0_r.
  set (m := length sl').
  change (seq 0 (S m)) with (0 :: seq 1 m).
  rewrite <- seq_shift. cbn [rev]. rewrite <- map_rev, fold_left_app.
  cbn [repeat]. rewrite loop_shift. cbn [fold_left].
  unfold stride_step at 1. cbn [set_nth Nat.add nth hd].
  destruct (fold_left (stride_step (s' :: sl')) (rev (seq 0 m)) (1 :: repeat 1 m)) as [|y T] eqn:E; cbn [nth hd]; reflexivity.
Qed.

Lemma strides_length sl : length (get_slice_strides sl) = length sl.
Proof.
  induction sl as [|s sl IH]; [reflexivity|].
  rewrite strides_unfold. destruct sl; [reflexivity|]. cbn [length]. rewrite IH. reflexivity.
Qed.

Lemma strides_is_rec sl : get_slice_strides sl = strides_rec sl.
Proof.
  induction sl as [|s sl IH]; [reflexivity|].
  rewrite strides_unfold. cbn [strides_rec]. destruct sl as [|s' sl'].
  - reflexivity.
  - rewrite IH. cbn [strides_rec hd]. rewrite total_cons. f_equal. lia.
Qed.

(* strides[i] = product of the sizes after position i *)
Lemma strides_spec sl i : i < length sl ->
  nth i (get_slice_strides sl) 1 = total (skipn (S i) sl).
Proof.
  rewrite strides_is_rec. revert i. induction sl as [|s sl IH]; intros i Hi; cbn [length] in Hi; [lia|].
  destruct i as [|i]; cbn [strides_rec nth skipn]; [reflexivity|]. apply IH. lia.
Qed.

(* ------------------------------------------------------------------ *)
(* slice_key as a structural recursion *)
Fixpoint decode (sl : list sinfo) (i : nat) : skey :=
  match sl with
  | [] => []
  | s :: sl' =>
      match si_proj s with
      | None => (si_ind s, i / total sl') :: decode sl' (i mod total sl')
      | Some p => (si_ind s, p) :: decode sl' i
      end
  end.

Lemma slice_key_decode sl i : slice_key sl i = decode sl i.
Proof.
  unfold slice_key. rewrite strides_is_rec. revert i.
  induction sl as [|s sl IH]; intros i; [reflexivity|].
  cbn [strides_rec slice_key_go decode]. destruct (si_proj s); rewrite IH; reflexivity.
Qed.

(* well-formed sliced_inds: sizes >= 1, projected entries have size 1 *)
Definition wf_si (s : sinfo) : Prop := 1 <= si_size s /\ (si_proj s <> None -> si_size s = 1).
Definition wf_sl (sl : list sinfo) : Prop := Forall wf_si sl.

Lemma total_pos sl : wf_sl sl -> 1 <= total sl.
Proof.
  intros H. apply nprod_pos. unfold sizes_of. apply Forall_map.
  eapply Forall_impl; [|exact H]. intros s [Hs _]. exact Hs.
Qed.

(* a key is valid: same indices in the same order, each value inside its sliced_range *)
Definition valid_entry (s : sinfo) (kv : ix * nat) : Prop :=
  fst kv = si_ind s /\ match si_proj s with None => snd kv < si_size s | Some p => snd kv = p end.
Definition valid_key (sl : list sinfo) (key : skey) : Prop := Forall2 valid_entry sl key.

(* the slice number of a key *)
Fixpoint encode (sl : list sinfo) (key : skey) : nat :=
  match sl, key with
  | s :: sl', kv :: key' =>
      (match si_proj s with None => snd kv * total sl' | Some _ => 0 end) + encode sl' key'
  | _, _ => 0
  end.

Lemma div_mod_facts i d m : 1 <= m -> i < d * m ->
  i / m < d /\ i mod m < m /\ (i / m) * m + i mod m = i.
Proof.
  intros Hm Hi. split; [|split].
  - apply Nat.div_lt_upper_bound; lia.
  - apply Nat.mod_upper_bound. lia.
  - pose proof (Nat.div_mod i m ltac:(lia)). lia.
Qed.

Lemma div_mod_unique v r m : r < m -> (v * m + r) / m = v /\ (v * m + r) mod m = r.
Proof.
  intros Hr. split.
  - rewrite Nat.div_add_l by lia. rewrite Nat.div_small by lia. lia.
  - rewrite Nat.add_comm, Nat.mod_add by lia. apply Nat.mod_small. lia.
Qed.

Lemma decode_valid sl : wf_sl sl -> forall i, i < total sl -> valid_key sl (decode sl i).
Proof.
  induction 1 as [|s sl [Hs Hp] Hwf IH]; intros i Hi; [constructor|].
  rewrite total_cons in Hi. pose proof (total_pos sl Hwf) as Hm.
  cbn [decode]. destruct (si_proj s) as [p|] eqn:E.
  - rewrite Hp in Hi by congruence. constructor; [|apply IH; lia].
    unfold valid_entry. rewrite E. cbn. auto.
  - destruct (div_mod_facts i (si_size s) (total sl) Hm Hi) as (H1 & H2 & _).
    constructor; [|apply IH; exact H2]. unfold valid_entry. rewrite E. cbn. auto.
Qed.

Lemma encode_decode sl : wf_sl sl -> forall i, i < total sl -> encode sl (decode sl i) = i.
Proof.
  induction 1 as [|s sl [Hs Hp] Hwf IH]; intros i Hi.
  - unfold total, sizes_of in Hi. cbn in Hi. cbn. lia.
  - rewrite total_cons in Hi. pose proof (total_pos sl Hwf) as Hm.
    cbn [decode]. destruct (si_proj s) as [p|] eqn:E; cbn [encode]; rewrite E.
    + rewrite Hp in Hi by congruence. rewrite IH by lia. lia.
    + destruct (div_mod_facts i (si_size s) (total sl) Hm Hi) as (H1 & H2 & H3).
      cbn [snd]. rewrite IH by exact H2. exact H3.
Qed.

Lemma decode_encode sl : wf_sl sl -> forall key, valid_key sl key ->
  encode sl key < total sl /\ decode sl (encode sl key) = key.
Proof.
  induction 1 as [|s sl [Hs Hp] Hwf IH]; intros key Hk.
  - inversion Hk; subst. cbn. unfold total, sizes_of. cbn. split; [lia|reflexivity].
  - inversion Hk as [|s0 kv sl0 key' [Hf Hv] Hk']; subst.
    destruct (IH key' Hk') as [IH1 IH2]. pose proof (total_pos sl Hwf) as Hm.
    rewrite total_cons. cbn [encode decode]. destruct kv as [j v]. cbn [fst snd] in *.
    destruct (si_proj s) as [p|] eqn:E.
    + rewrite Hp by congruence. split; [lia|]. cbn [Nat.add]. rewrite IH2. subst. reflexivity.
    + destruct (div_mod_unique v (encode sl key') (total sl) IH1) as [D M].
      split.
      * apply Nat.lt_le_trans with (v * total sl + total sl); [lia|].
        replace (v * total sl + total sl) with ((S v) * total sl) by lia.
        apply Nat.mul_le_mono_r. lia.
      * rewrite D, M, IH2. subst. reflexivity.
Qed.

Lemma slice_key_injective sl : wf_sl sl -> forall i j, i < total sl -> j < total sl ->
  slice_key sl i = slice_key sl j -> i = j.
Proof.
  intros Hwf i j Hi Hj E. rewrite !slice_key_decode in E.
  rewrite <- (encode_decode sl Hwf i Hi), <- (encode_decode sl Hwf j Hj), E. reflexivity.
Qed.

Lemma slice_key_surjective sl : wf_sl sl -> forall key, valid_key sl key ->
  exists i, i < total sl /\ slice_key sl i = key.
Proof.
  intros Hwf key Hk. destruct (decode_encode sl Hwf key Hk) as [H1 H2].
  exists (encode sl key). rewrite slice_key_decode. auto.
Qed.

(* ------------------------------------------------------------------ *)
(* enumeration: the slice numbers list the product of the sliced ranges in
   lexicographic order, each combination exactly once *)
Fixpoint all_keys (sl : list sinfo) : list skey :=
  match sl with
  | [] => [[]]
  | s :: sl' => flat_map (fun v => map (cons (si_ind s, v)) (all_keys sl')) (sliced_range s)
  end.

Lemma seq_from a m : seq a m = map (fun r => a + r) (seq 0 m).
Proof.
  revert a. induction m as [|m IH]; intros a; [reflexivity|].
  cbn [seq map]. f_equal; [lia|]. rewrite (IH (S a)), <- seq_shift, map_map.
  apply map_ext. intros; lia.
Qed.

Lemma seq_mixed d m :
  seq 0 (d * m) = flat_map (fun v => map (fun r => v * m + r) (seq 0 m)) (seq 0 d).
Proof.
  induction d as [|d IH]; [reflexivity|].
  replace (S d * m) with (d * m + m) by lia.
  rewrite seq_app, IH, seq_S, flat_map_app. cbn [flat_map Nat.add]. rewrite app_nil_r.
  f_equal. apply seq_from.
Qed.

Lemma flat_map_map {A B C} (f : A -> B) (g : B -> list C) l :
  flat_map g (map f l) = flat_map (fun x => g (f x)) l.
Proof. induction l as [|x l IH]; cbn; [reflexivity|]. rewrite IH. reflexivity. Qed.
Lemma map_flat_map {A B C} (f : B -> C) (g : A -> list B) l :
  map f (flat_map g l) = flat_map (fun x => map f (g x)) l.
Proof. induction l as [|x l IH]; cbn; [reflexivity|]. rewrite map_app, IH. reflexivity. Qed.
Lemma flat_map_ext_in {A B} (f g : A -> list B) l :
  (forall x, In x l -> f x = g x) -> flat_map f l = flat_map g l.
Proof.
  induction l as [|x l IH]; intros H; cbn; [reflexivity|].
  rewrite H by (left; reflexivity). rewrite IH; [reflexivity|]. intros y Hy. apply H. right; exact Hy.
Qed.

Lemma keys_enumeration sl : wf_sl sl -> map (decode sl) (seq 0 (total sl)) = all_keys sl.
Proof.
  induction 1 as [|s sl [Hs Hp] Hwf IH]; [reflexivity|].
  pose proof (total_pos sl Hwf) as Hm.
  rewrite total_cons. cbn [all_keys]. unfold sliced_range. destruct (si_proj s) as [p|] eqn:E.
  - rewrite Hp by congruence. rewrite Nat.mul_1_l. cbn [flat_map]. rewrite app_nil_r, <- IH, map_map.
    apply map_ext. intros i. cbn [decode]. rewrite E. reflexivity.
  - rewrite seq_mixed, map_flat_map. apply flat_map_ext_in. intros v _.
    rewrite <- IH, !map_map. apply map_ext_in. intros r Hr. apply in_seq in Hr.
    cbn [decode]. rewrite E.
    destruct (div_mod_unique v r (total sl) ltac:(lia)) as [D M]. rewrite D, M. reflexivity.
Qed.

Lemma slice_keys_enumeration sl : wf_sl sl -> map (slice_key sl) (seq 0 (total sl)) = all_keys sl.
Proof.
  intros H. rewrite <- (keys_enumeration sl H). apply map_ext. intros; apply slice_key_decode.
Qed.

(* ------------------------------------------------------------------ *)
(* append law: the key of a concatenation splits the slice number by div / mod *)
Lemma decode_app a b : wf_sl a -> wf_sl b -> forall i, i < total (a ++ b) ->
  decode (a ++ b) i = decode a (i / total b) ++ decode b (i mod total b).
Proof.
  intros Ha Hb. pose proof (total_pos b Hb) as HB.
  induction Ha as [|s a [Hs Hp] Ha IH]; intros i Hi.
  - cbn [app decode] in *. rewrite Nat.mod_small by exact Hi. reflexivity.
  - pose proof (total_pos a Ha) as HA.
    cbn [app] in Hi. rewrite total_cons in Hi.
    assert (HAB : 1 <= total (a ++ b)) by (rewrite total_app; apply (Nat.mul_le_mono 1 _ 1 _); assumption).
    cbn [app decode]. destruct (si_proj s) as [p|] eqn:E.
    + rewrite Hp in Hi by congruence. rewrite IH by lia. reflexivity.
    + rewrite IH by (apply Nat.mod_upper_bound; lia). rewrite total_app. cbn [app]. f_equal.
      * f_equal. rewrite (Nat.mul_comm (total a)). rewrite Nat.div_div by lia. reflexivity.
      * rewrite (Nat.mul_comm (total a)). rewrite Nat.mod_mul_r by lia.
        f_equal.
        -- f_equal. rewrite Nat.mul_comm, Nat.div_add by lia.
           rewrite (Nat.div_small (i mod total b)) by (apply Nat.mod_upper_bound; lia). reflexivity.
        -- f_equal. rewrite Nat.mul_comm, Nat.mod_add by lia. apply Nat.mod_mod. lia.
Qed.

(* outer-first order: all inner=false entries precede all inner=true entries *)
Definition outs (sl : list sinfo) := filter (fun s => negb (si_inner s)) sl.
Definition inns (sl : list sinfo) := filter si_inner sl.

Lemma filter_all {A} (f : A -> bool) l : forallb f l = true -> filter f l = l.
Proof.
  induction l as [|x l IH]; cbn; [reflexivity|]. intros H. apply andb_prop in H. destruct H as [H1 H2].
  rewrite H1, IH by exact H2. reflexivity.
Qed.
Lemma filter_none {A} (f : A -> bool) l : forallb f l = true -> filter (fun x => negb (f x)) l = [].
Proof.
  induction l as [|x l IH]; cbn; [reflexivity|]. intros H. apply andb_prop in H. destruct H as [H1 H2].
  rewrite H1. cbn. apply IH, H2.
Qed.

Lemma outer_first_split sl : outer_first_b sl = true -> sl = outs sl ++ inns sl.
Proof.
  unfold outs, inns. induction sl as [|s sl IH]; [reflexivity|]. cbn [outer_first_b filter].
  destruct (si_inner s) eqn:E; cbn [negb]; intros H.
  - rewrite filter_none, filter_all by exact H. reflexivity.
  - cbn [app]. f_equal. apply IH, H.
Qed.

Lemma wf_filter f sl : wf_sl sl -> wf_sl (filter f sl).
Proof.
  unfold wf_sl. rewrite !Forall_forall. intros H s Hs. apply filter_In in Hs. apply H, Hs.
Qed.

Lemma stepsize_total sl : stepsize sl = total (inns sl).
Proof. reflexivity. Qed.
Lemma nchunks_total sl : nchunks sl = total (outs sl).
Proof. reflexivity. Qed.

Lemma total_split sl : outer_first_b sl = true -> total sl = nchunks sl * stepsize sl.
Proof.
  intros H. rewrite (outer_first_split sl H) at 1. rewrite total_app. reflexivity.
Qed.

(* output-major: slice o*step + j has the output part of chunk o and the inner part j *)
Lemma slice_key_output_major sl : wf_sl sl -> outer_first_b sl = true ->
  forall o j, o < nchunks sl -> j < stepsize sl ->
  slice_key sl (o * stepsize sl + j) = slice_key (outs sl) o ++ slice_key (inns sl) j.
Proof.
  intros Hwf Hof o j Ho Hj. rewrite !slice_key_decode.
  assert (Hlt : o * stepsize sl + j < total (outs sl ++ inns sl)).
  { rewrite total_app. rewrite stepsize_total, nchunks_total in *.
    apply Nat.lt_le_trans with (S o * total (inns sl)); [lia|]. apply Nat.mul_le_mono_r. lia. }
  rewrite (outer_first_split sl Hof) at 1.
  rewrite decode_app by (try apply wf_filter; assumption).
  rewrite stepsize_total in *.
  destruct (div_mod_unique o j (total (inns sl)) Hj) as [D M]. rewrite D, M. reflexivity.
Qed.
